# C10 catalogue: attr.c and decl.c.   site(file, function, kind, text, items..., n=count)
# T(kind, code, args, ...): a violating template;  J(class, reason): a justification instead of a template.
W_GNU = 'cproc-specific restriction on a GNU extension that gcc accepts'
W_C23 = 'C23 syntax implemented by cproc; gcc -std=c11 rejects the syntax itself for another reason (still rejected)'

# ------------------------------------------------------------------ attr.c
site('attr.c', 'attrspec', 'expect', 'TRBRACK to end attribute specifier',
     T('decl', '[[deprecated int x_;'),
     T('decl', '[[deprecated] int x_;'), n=2)
site('attr.c', 'gnuattrspec', 'expect', "TLPAREN after '__attribute__' to begin attribute specifier",
     T('decl', 'int x_ __attribute__ ;'),
     T('decl', 'int x_ __attribute__ (unused);'), n=2)
site('attr.c', 'gnuattrspec', 'expect', 'TRPAREN to end attribute specifier',
     T('decl', 'int x_ __attribute__((unused;'),
     T('decl', 'int x_ __attribute__((unused);'), n=2)
site('attr.c', 'parseattr', 'error', "%sattribute '%s' is not supported here",
     T('decl', 'int x_ __attribute__((packed));', "GNU attribute 'packed'", gcc=W_GNU),
     T('decl', 'struct __attribute__((aligned(8))) s_ { int a; };', "'aligned'", gcc=W_GNU))
site('attr.c', 'parseattr', 'error', 'EOF in attribute arguments',
     T('tail', 'int x_ __attribute__((foo_(1, (2)'))
site('attr.c', 'parseattr', 'error', 'invalid alignment %llu',
     T('decl', 'int x_ __attribute__((aligned(3)));', 'alignment 3'),
     T('decl', 'int x_ __attribute__((aligned(0)));', 'alignment 0', gcc=W_GNU))
site('attr.c', 'parseattr', 'expect', 'TIDENT after attribute prefix',
     T('decl', '[[gnu::]] int x_;'))
site('attr.c', 'parseattr', 'expect', 'TRPAREN after alignment',
     T('decl', 'int x_ __attribute__((aligned(8 9)));'))

# ------------------------------------------------------------------ decl.c: addmember
site('decl.c', 'addmember', 'assert', 'mt.type->align>0',
     J('internal', 'every complete non-function member type has a positive alignment; incomplete and function types are rejected just above'))
site('decl.c', 'addmember', 'error', "alignment specified for bit-field '%s'",
     T('decl', 'struct s_ { _Alignas(8) int b_ : 3; };', "'b_'"))
site('decl.c', 'addmember', 'error', "bit-field '%s' exceeds width of underlying type",
     T('decl', 'struct s_ { int b_ : 33; };', "'b_'"),
     T('decl', 'union s_ { unsigned char b_ : 9; };', "'b_'", gcc='gcc accepts unsigned char bit-fields only as an extension but rejects the width'),
     T('decl', 'struct s_ { _Bool b_ : 9; };', "'b_'"))
site('decl.c', 'addmember', 'error', "bit-field '%s' has invalid type",
     T('decl', 'struct s_ { float b_ : 3; };', "'b_'"),
     T('decl', 'struct s_ { int *b_ : 3; };', "'b_'"))
site('decl.c', 'addmember', 'error', "bit-field '%s' in packed struct is not supported",
     T('decl', 'struct __attribute__((packed)) s_ { int b_ : 3; };', "'b_'", gcc=W_GNU))
site('decl.c', 'addmember', 'error', "bit-field '%s' with zero width must not have declarator",
     T('decl', 'struct s_ { int a; int b_ : 0; };', "'b_'"))
site('decl.c', 'addmember', 'error', "specified alignment of struct member '%s' is less strict than is required by type",
     T('decl', 'struct s_ { _Alignas(1) int m_; };', "'m_'"))
site('decl.c', 'addmember', 'error', "struct has member '%s' after flexible array member",
     T('decl', 'struct s_ { int n; int a[]; int m_; };', "'m_'"),
     T('decl', 'struct s_ { unsigned n; unsigned char a[]; unsigned : 4; };'), T('decl', 'struct s_ { int n; int a[]; int : 0; };'), T('decl', 'struct s_ { int n; int a[]; int b_ : 3; };', "'b_'"))
site('decl.c', 'addmember', 'error', "struct member '%s' contains flexible array member",
     T('decl', 'struct s_ { int k; struct f_ m_; };', "'m_'", pre='struct f_ { int n; int a[]; };'))
site('decl.c', 'addmember', 'error', "struct member '%s' has function type",
     T('decl', 'struct s_ { int m_(void); };', "'m_'"))
site('decl.c', 'addmember', 'error', "struct member '%s' has incomplete type",
     T('decl', 'struct s_ { struct u_ m_; };', "'m_'"),
     T('decl', 'struct s_ { void m_; };', "'m_'"),
     T('decl', 'struct s_ { int a; struct s_ m_; };', "'m_'"))
site('decl.c', 'addmember', 'error', "struct member '%s' has variably modified type",
     T('decl', 'struct s_ { int m_[h_v]; };', "'m_'"),
     T('bdecl', 'struct s_ { int (*m_)[h_l]; };', "'m_'"))

# ------------------------------------------------------------------ decl.c: decl
site('decl.c', 'declaratortypes', 'error', "parameter has type 'void'",
     T('decl', 'int f_(void, int);', note='regression (fixed c220cfa): a later call failed an assertion'), T('decl', 'int f_(int, void);'), T('decl', 'int f_(void x_);', gcc='gcc accepts a NAMED void parameter in a declaration that is not a definition; 6.7.6.3p10 allows only the unnamed form'),
     T('fdecl', 'int f_(int a_, void) { return a_; }'))
site('decl.c', 'tagspec', 'error', 'underlying type of enum must be an integer type',
     T('decl', 'enum e_ : float { A_ };', gcc=W_C23, note='regression (fixed 19c91d0)'), T('decl', 'enum e_ : void { A_ };', gcc=W_C23), T('decl', 'enum e_ : double { A_ = 1 };', gcc=W_C23),
     T('decl', 'typedef int a3_[3]; enum e_ : a3_ { A_ };', gcc=W_C23))
site('decl.c', 'decl', 'error', 'function definition must have a function declarator',
     T('fdecl', 'typedef int ft_(void); ft_ f_ { return 0; }', note='regression (fixed 9ed09ef): was the funcscope assertion'),
     T('fdecl', 'typedef void ft_(int); ft_ g_ { }'))
site('decl.c', 'decl', 'error', "'%s' redeclared with different kind",
     T('decl', 'int x_; typedef int x_;', "'x_'"),
     T('decl', 'int x_(void); extern int x_;', "'x_'"),
     T('decl', 'typedef int x_; int x_;', "'x_'"))
site('decl.c', 'decl', 'error', "block scope declaration containing 'thread_local' must contain 'static' or 'extern'",
     T('bdecl', '_Thread_local int x_;'))
site('decl.c', 'decl', 'error', "external declaration must not contain 'auto'",
     T('fdecl', 'auto int x_;'))
site('decl.c', 'decl', 'error', "external declaration must not contain 'register'",
     T('fdecl', 'register int x_;'))
site('decl.c', 'decl', 'error', "function '%s' declared with alignment specifier",
     T('decl', '_Alignas(8) int f_(void);', "'f_'"))
site('decl.c', 'decl', 'error', "function '%s' is defined with incomplete return type",
     T('fdecl', 'struct u_ f_(void) { }', "'f_'", note='regression (fixed 605d7bd): was accepted and froze an empty aggregate type'),
     T('fdecl', 'struct v_; struct v_ g_(int a_) { } struct v_ { long a, b; };', "'g_'"), T('fdecl', 'union w_ h_(void) { for (;;) ; }', "'h_'"))
site('decl.c', 'decl', 'error', "parameter '%s' of function definition has incomplete type",
     T('fdecl', 'int f_(struct u_ p_) { return 0; }', "'p_'"),
     T('fdecl', 'int f_(int a_, struct u_) { return a_; }', "''", gcc=True),
     T('fdecl', 'struct v_; int g_(struct v_ p_); int g_(struct v_ p_) { return 1; }', "'p_'"))
site('decl.c', 'decl', 'error', "function '%s' redefined",
     T('fdecl', 'int f_(void) { return 0; } int f_(void) { return 1; }', "'f_'"))
site('decl.c', 'decl', 'error', "function '%s' with block scope may only have storage class 'extern'",
     T('bdecl', 'static int f_(void);', "'f_'"))
site('decl.c', 'decl', 'error', 'function definition not allowed',
     T('bdecl', 'int f_(void) { return 0; }'),
     T('fdecl', 'int x_, f_(void) { return 0; }'),
     T('fdecl', 'int f_(void) __asm__("f_asm_") { return 0; }', gcc='asm labels are a GNU extension; gcc rejects the definition too'))
site('decl.c', 'decl', 'error', "object '%s' redefined",
     T('fdecl', 'int x_ = 1; int x_ = 2;', "'x_'"),
     T('fdecl', 'static int x_ = 1; static int x_ = 2;', "'x_'"))
site('decl.c', 'decl', 'error', "object '%s' requires alignment %d, which is stricter than specified alignment %d",
     T('decl', '_Alignas(1) int x_;', "'x_'"),
     T('decl', '_Alignas(4) long long x_;', "'x_'"))
site('decl.c', 'decl', 'error', "object '%s' with %s storage duration cannot have variably modified type",
     T('decl', 'static int x_[h_v];', ["'x_'", 'static storage']),
     T('decl', 'static _Thread_local int x_[h_v];', ["'x_'", 'thread storage']),
     T('fdecl', 'int x_[h_v];', "'x_'"),
     T('bdecl', 'extern int (*x_)[h_l];', "'x_'"))
site('decl.c', 'decl', 'error', "object '%s' with block scope and %s linkage cannot have initializer",
     T('bdecl', 'extern int x_ = 1;', ["'x_'", 'external linkage']),
     T('bdecl', 'extern int y_ = 1;', ["'y_'", 'internal linkage'], pre='static int y_;'))
site('decl.c', 'decl', 'error', "typedef '%s' declared with alignment specifier",
     T('decl', 'typedef _Alignas(8) int t_;', "'t_'"))
site('decl.c', 'decl', 'error', "typedef '%s' declared with assembler label",
     T('decl', 'typedef int t_ __asm__("t_asm_");', "'t_'", gcc=W_GNU))
site('decl.c', 'decl', 'error', "typedef '%s' redefined with different type",
     T('decl', 'typedef int t_; typedef long t_;', "'t_'"),
     T('decl', 'typedef int t_; typedef const int t_;', "'t_'"))
site('decl.c', 'decl', 'expect', "TCOMMA or ';' after declarator",
     T('decl', 'int x_ y_;'),
     T('decl', 'int x_ = 1 int y_;'),
     T('decl', 'int x_<:2:>;', gcc='documented unsupported feature (digraphs); valid C'),
     T('fdecl', 'int f_(void) <% return 0; %>', gcc='documented unsupported feature (digraphs); valid C'))
site('decl.c', 'decl', 'expect', 'TLPAREN after __asm__',
     T('decl', 'extern int x_ __asm__ "x_asm_";'))
site('decl.c', 'decl', 'expect', 'TRPAREN after assembler name',
     T('decl', 'extern int x_ __asm__("x_asm_";'))
site('decl.c', 'decl', 'expect', 'TSTRINGLIT for assembler name',
     T('decl', 'extern int x_ __asm__(x_asm_);'))

# ------------------------------------------------------------------ decl.c: declarator, declaratortypes
site('decl.c', 'declarator', 'error', 'array element has function type',
     T('decl', 'extern int a_[2](void);'))
site('decl.c', 'declarator', 'error', 'array element has incomplete type',
     T('decl', 'extern struct u_ a_[2];'),
     T('decl', 'extern void a_[2];'),
     T('decl', 'extern int a_[2][];'),
     # arrays of unknown length need a complete element type too
     T('decl', 'extern struct u_ a_[];'), T('decl', 'extern void a_[];'), T('decl', 'extern int a_[][];'), T('fdecl', 'int f_(int a_[][]);'), T('fdecl', 'void f_(struct u_ p_[]);'))
site('decl.c', 'declarator', 'error', 'array length is too large',
     T('decl', 'extern int a_[0x7fffffffffffffff];'),
     T('decl', 'extern char a_[2][0xffffffffffffffff];'))
site('decl.c', 'declarator', 'error', 'array length must be non-negative',
     T('decl', 'extern int a_[-1];'),
     T('decl', 'typedef char a_[sizeof(int) == 8 ? 1 : -1];'))
site('decl.c', 'declarator', 'error', 'function declarator specifies array return type',
     T('decl', 'int f_(void)[2];'))
site('decl.c', 'declarator', 'error', 'function declarator specifies function return type',
     T('decl', 'int f_(void)(int);'))
site('decl.c', 'declaratortypes', 'error', 'array length expression must have integer type',
     T('decl', 'extern int a_[1.5];'),
     T('decl', 'extern int a_["ab"];'))
site('decl.c', 'declaratortypes', 'error', 'attribute not allowed after parenthesized declarator',
     T('decl', 'extern int (x_) __attribute__((unused));', gcc=W_GNU))
site('decl.c', 'declaratortypes', 'error', "expected '(' or identifier",
     T('decl', 'int *;'),
     T('decl', 'int 3;'),
     T('decl', 'struct s_ { int a; } = { 1 };'))
site('decl.c', 'declaratortypes', 'error', 'identifier not allowed in abstract declarator',
     T('expr', 'sizeof(int y_)'),
     T('expr', '(long z_)h_v'))
site('decl.c', 'declaratortypes', 'expect', 'TRBRACK after array length',
     T('decl', 'extern int a_[2;'))
site('decl.c', 'declaratortypes', 'expect', 'TRPAREN after parenthesized declarator',
     T('decl', 'extern int (x_;'))
site('decl.c', 'declaratortypes', 'expect', 'TRPAREN to close function declarator',
     T('decl', 'int f_(int;'),
     T('decl', 'int f_(int a_, ... , int b_);'))

# ------------------------------------------------------------------ decl.c: declcommon
site('decl.c', 'declcommon', 'error', "%s '%s' redeclared with different assembler name",
     T('decl', 'extern int x_ __asm__("a_"); extern int x_ __asm__("b_");', "object 'x_'", gcc=W_GNU),
     T('decl', 'int f_(void); int f_(void) __asm__("b_");', "function 'f_'", gcc=W_GNU),
     T('bdecl', 'extern int y_ __asm__("b_");', "object 'y_'", pre='extern int y_ __asm__("a_");', gcc=W_GNU), n=2)
site('decl.c', 'declcommon', 'error', "%s '%s' redeclared with different linkage",
     T('fdecl', 'int x_; static int x_;', "object 'x_'"),
     T('fdecl', 'int f_(void); static int f_(void);', "function 'f_'"),
     T('stmt', '{ int y_; { extern int y_; } }', "object 'y_'", pre='static int y_;'), n=2)
site('decl.c', 'declcommon', 'error', "%s '%s' redeclared with incompatible type",
     T('decl', 'extern int x_; extern long x_;', "object 'x_'"),
     T('decl', 'int f_(int); int f_(long);', "function 'f_'"),
     T('decl', 'extern int x_; extern const int x_;', "object 'x_'"),
     T('bdecl', 'extern long y_;', "object 'y_'", pre='int y_;'),
     T('bdecl', 'int g_(char *);', "function 'g_'", pre='int g_(int);'), n=2)
site('decl.c', 'declcommon', 'error', "%s '%s' with no linkage redeclared",
     T('bdecl', 'int x_; int x_;', "object 'x_'"),
     T('bdecl', 'static int x_; extern int x_;', "object 'x_'"))
site('decl.c', 'declcommon', 'error', "'%s' redeclared with different kind",
     T('bdecl', 'extern int y_;', "'y_'", pre='int y_(void);'),
     T('bdecl', 'int y_(void);', "'y_'", pre='int y_;'))

# ------------------------------------------------------------------ decl.c: declspecs and friends
site('decl.c', 'declspecs', 'error', '_Atomic is not yet supported',
     J('internal', "unreachable today: declspecs() tries typequal() first, which rejects every _Atomic token with its own message; the templates of decl.c:typequal cover the keyword"))
site('decl.c', 'declspecs', 'error', '_Complex is not yet supported',
     T('decl', 'double _Complex x_;', gcc='documented unsupported feature (_Complex); valid C11'),
     T('decl', '_Complex float x_;', gcc='documented unsupported feature (_Complex); valid C11'),
     T('expr', 'sizeof(float _Complex)', gcc='documented unsupported feature (_Complex); valid C11'))
site('decl.c', 'declspecs', 'error', 'alignment specifier not allowed in this declaration',
     T('expr', 'sizeof(_Alignas(8) int)'),
     T('decl', 'void f_(_Alignas(8) int p_);'),
     T('expr', '(_Alignas(8) int)h_v'))
site('decl.c', 'declspecs', 'error', 'declaration has no type specifier',
     T('decl', 'static x_;'),
     T('decl', 'const y_ = 1;'),
     T('fdecl', 'inline f_(void);'))
site('decl.c', 'declspecs', 'error', "duplicate 'short'", T('decl', 'short int short x_;'))
site('decl.c', 'declspecs', 'error', "duplicate 'signed'", T('decl', 'signed signed x_;'))
site('decl.c', 'declspecs', 'error', "duplicate 'unsigned'", T('decl', 'unsigned char unsigned x_;'))
site('decl.c', 'declspecs', 'error', 'invalid alignment: %llu',
     T('decl', '_Alignas(3) int x_;', 'alignment: 3'),
     T('decl', '_Alignas(0x100000000) int x_;', 'alignment: 4294967296', gcc='gcc supports larger alignments for objects with static storage only at block scope differently; cproc limit INT_MAX'))
site('decl.c', 'declspecs', 'error', 'invalid combination of type specifiers',
     T('decl', 'long short x_;'),
     T('decl', 'signed unsigned x_;'),
     T('decl', 'short double x_;'),
     T('decl', 'unsigned float x_;'),
     T('decl', 'long long double x_;'),
     T('expr', 'sizeof(long char)'))
site('decl.c', 'declspecs', 'error', 'multiple types in declaration specifiers',
     T('decl', 'int char x_;'),
     T('decl', 'void short x_;'),
     T('decl', 'struct t_ { int a; } int x_;'),
     T('decl', '_Bool unsigned x_;'),
     T('decl', 'double float x_;'))
site('decl.c', 'declspecs', 'error', "too many 'long'", T('decl', 'long long long x_;'), T('decl', 'long int long long x_;'))
site('decl.c', 'declspecs', 'expect', "TLPAREN after 'alignas'", T('decl', '_Alignas 8 int x_;'))
site('decl.c', 'declspecs', 'expect', "TLPAREN after 'typeof'", T('decl', 'typeof int x_;', gcc=W_C23))
site('decl.c', 'declspecs', 'expect', "TRPAREN to close 'alignas' specifier", T('decl', '_Alignas(8 int x_;'))
site('decl.c', 'declspecs', 'expect', "TRPAREN to close 'typeof'", T('decl', 'typeof(h_v int x_;', gcc=W_C23), T('decl', 'typeof(int; x_;', gcc=W_C23))
site('decl.c', 'defineobj', 'error', "object '%s' has incomplete type",
     T('decl', 'struct u_ x_;', "'x_'"),
     T('bdecl', 'int a_[];', "'a_'"),
     T('decl', 'static struct u_ x_;', "'x_'"),
     T('bdecl', 'void x_;', "'x_'"))
site('decl.c', 'funcspec', 'error', 'function specifier not allowed in this declaration',
     T('decl', 'struct s_ { inline int m_; };'),
     T('decl', 'void f_(_Noreturn int p_);'),
     T('expr', 'sizeof(inline int)'))
site('decl.c', 'parameter', 'error', 'no type in parameter declaration',
     T('decl', 'void f_(x_);'),
     T('decl', 'void f_(int a_, 3);'))
site('decl.c', 'parameter', 'error', 'parameter declaration has invalid storage-class specifier',
     T('decl', 'void f_(static int p_);'),
     T('decl', 'void f_(int a_, typedef int p_);'),
     T('decl', 'void f_(extern int p_);'))
site('decl.c', 'staticassert', 'error', 'static assertion failed',
     T('decl', '_Static_assert(0);'),
     T('decl', 'struct s_ { int a; _Static_assert(sizeof(int) == 3); };'))
site('decl.c', 'staticassert', 'error', 'static assertion failed: %.*s',
     T('decl', '_Static_assert(0, "msg_");', 'failed: msg_'),
     T('decl', '_Static_assert(0, "");', 'failed'), T('decl', '_Static_assert(sizeof(int) == 1, "" "");', 'failed'), T('decl', 'struct s_ { int a; _Static_assert(0, ""); };', 'failed'),
     T('decl', '_Static_assert(sizeof(char) == 2, "a_" "b_");', 'failed: a_b_'),
     T('decl', 'struct s_ { int a; _Static_assert(1 > 2, "in struct"); };', 'in struct'))
site('decl.c', 'staticassert', 'expect', 'TLPAREN after static_assert', T('decl', '_Static_assert 1, "m";'))
site('decl.c', 'staticassert', 'expect', 'TRPAREN after static assertion', T('decl', '_Static_assert(1, "m";'))
site('decl.c', 'staticassert', 'expect', 'TSEMICOLON after static assertion', T('decl', '_Static_assert(1, "m") int x_;'))
site('decl.c', 'staticassert', 'tokencheck', 'TSTRINGLIT after static assertion expression', T('decl', '_Static_assert(1, 2);'))
site('decl.c', 'storageclass', 'error', 'invalid combination of storage class specifiers',
     T('decl', 'static extern int x_;'),
     T('decl', 'typedef static int x_;'),
     T('decl', 'static static int x_;'),
     T('bdecl', 'auto register int x_;'),
     T('decl', 'static _Thread_local extern int x_;'),
     T('decl', '_Thread_local typedef int x_;'))
site('decl.c', 'storageclass', 'error', 'storage class not allowed in this declaration',
     T('expr', 'sizeof(static int)'),
     T('decl', 'struct s_ { static int m_; };'),
     T('expr', '(extern int)h_v'),
     T('decl', 'struct s_ { typedef int m_; };'))
site('decl.c', 'stringdecl', 'assert', 'expr->kind==EXPRSTRING',
     J('internal', 'callers pass string expressions only'))
site('decl.c', 'structdecl', 'error', "bit-field '%s' exceeds width of underlying type",
     T('decl', 'struct s_ { int b_ : 0xffffffffffffffff; };', "'b_'"))
site('decl.c', 'structdecl', 'error', 'bit-field exceeds width of underlying type',
     T('decl', 'struct s_ { int a; int : 0xffffffffffffffff; };'))
site('decl.c', 'structdecl', 'error', 'no type in struct member declaration',
     T('decl', 'struct s_ { m_; };'),
     T('decl', 'struct s_ { };', gcc=True),
     T('decl', 'struct s_ { int a; 3; };'))
site('decl.c', 'structdecl', 'error', 'struct declaration must declare at least one member',
     T('decl', 'struct s_ { int; };'),
     T('decl', 'struct s_ { int a; struct t_ { int b; }; };'))
site('decl.c', 'structdecl', 'expect', "TCOMMA or ';' after declarator",
     T('decl', 'struct s_ { int a_ b_; };'),
     T('decl', 'struct s_ { int a_ : 3 4; };'))
site('decl.c', 'tagspec', 'assert', 'i<LEN(inttypes)',
     J('internal', 'the wrap-around cases are rejected just before; unsigned long long holds every other value'))
site('decl.c', 'tagspec', 'error', 'enum type has no enumerator list and is not complete',
     T('decl', 'enum e_ x_;'),
     T('decl', 'enum e_ *p_;'),
     T('expr', 'sizeof(enum e_ *)'))
site('decl.c', 'tagspec', 'error', "enumerator '%s' value cannot be represented in underlying type",
     T('decl', 'enum e_ : unsigned char { A_ = 256 };', "'A_'", gcc=W_C23),
     T('decl', 'enum e_ : unsigned char { A_ = 255, B_ };', "'B_'", gcc=W_C23),
     T('decl', 'enum e_ : int { A_ = -1, B_ = 0x80000000 };', "'B_'", gcc=W_C23))
site('decl.c', 'tagspec', 'error', "expected identifier or '{' after '%s'",
     T('decl', 'struct *p_;', "after 'struct'"),
     T('decl', 'union 3;', "after 'union'"),
     T('decl', 'enum : int ;', "after 'enum'", gcc=W_C23))
site('decl.c', 'tagspec', 'error', 'expected integer constant expression',
     T('decl', 'enum e_ { A_ = 1.5 };'),
     T('decl', 'enum e_ { A_ = h_v };'))
site('decl.c', 'tagspec', 'error', 'no %ssigned integer type can represent enumerator value',
     T('decl', 'enum e_ { A_ = 0xffffffffffffffff, B_ };', 'no unsigned integer', gcc=True),
     T('decl', 'enum e_ { A_ = 0x7fffffffffffffff, B_ };', 'no signed integer', gcc=True))
site('decl.c', 'tagspec', 'error', 'no integer type can represent all enumerator values',
     T('decl', 'enum e_ { A_ = -1, B_ = 0xffffffffffffffff };'))
site('decl.c', 'tagspec', 'error', 'no type in enum type specifier',
     T('decl', 'enum e_ : foo_ { A_ };', gcc=W_C23))
site('decl.c', 'tagspec', 'error', "redeclaration of tag '%s' with different kind",
     T('decl', 'struct t_ { int a; }; union t_ u_;', "'t_'"),
     T('decl', 'enum t_ { A_ }; struct t_ *p_;', "'t_'"),
     T('decl', 'union t_; struct t_ { int a; };', "'t_'"))
site('decl.c', 'tagspec', 'error', "redefinition of tag '%s'",
     T('decl', 'struct t_ { int a; }; struct t_ { int b; };', "'t_'"),
     T('decl', 'enum t_ { A_ }; enum t_ { B_ };', "'t_'"),
     T('decl', 'union t_ { int a; union t_ { int c; } *b; };', "'t_'", finding='C10-nested-tag-redefinition'))
site('decl.c', 'tagspec', 'error', 'struct/union has no members',
     T('decl', 'struct s_ { int : 3; };'),
     T('decl', 'union s_ { _Static_assert(1, "m"); };'))
site('decl.c', 'tagspec', 'expect', 'TRBRACE to close enum specifier',
     T('decl', 'enum e_ { A_ B_ };'),
     T('decl', 'enum e_ { A_ = 1; };'))
site('decl.c', 'tagspec', 'fatal', 'internal error: unknown tag kind',
     J('internal', 'called only for struct/union/enum tokens'))
site('decl.c', 'typequal', 'error', '_Atomic type qualifier is not yet supported',
     T('decl', '_Atomic int x_;', gcc='documented unsupported feature (_Atomic); valid C11'),
     T('decl', '_Atomic(int) x_;', gcc='documented unsupported feature (_Atomic); valid C11'),
     T('decl', 'int *_Atomic p_;', gcc='documented unsupported feature (_Atomic); valid C11'),
     T('expr', 'sizeof(_Atomic long)', gcc='documented unsupported feature (_Atomic); valid C11'))
