# C10 catalogue: expr.c and eval.c
W_GNU = 'cproc-specific restriction on a GNU extension that gcc accepts'
W_C23 = 'C23 syntax implemented by cproc; gcc -std=c11 rejects the syntax itself for another reason (still rejected)'
W_UTF8 = 'the source encoding is implementation-defined; cproc requires valid UTF-8 where gcc passes bytes through'
W_BUILTIN = 'cproc builtin with cproc-specific operand rules; gcc has the builtin with different checking'
P = ('struct s_ { int a; int arr_[3]; struct { int c; } in_; }; struct t_ { int a; }; struct bs_ { int b : 3; int c; };\n'
     'struct s_ sv_, *sp_; struct t_ tv_; struct bs_ bs_; union un_ { int a; float f; } uv_;\n'
     'int *ip_; double *dp_; void *vp_; struct u_ *up_; const int *cip_; const int ci_ = 1; _Bool b_; float fl_;\n'
     'int (*fp_)(void); int g_(int, int); int gs_(struct s_); __builtin_va_list ap_, bp_; extern struct u_ ux_;')

def X(code, args=(), **kw):
    kw.setdefault('pre', P)
    return T('expr', code, args, **kw)

site('expr.c', 'assignexpr', 'error', 'left side of assignment expression has invalid type',
     X('ux_ = ux_'), X('*vp_ = 1', gcc=True), X('*up_ = *up_'))
site('expr.c', 'assignexpr', 'error', 'left side of assignment expression is not an lvalue',
     X('5 = h_v'), X('h_sink(1) = 2'), X('-h_v = 1'), X('h_sink += 1'),
     X('sizeof(sv_.arr_ = 0)', note='regression (fixed df7da54): a member array kept the lvalue flag after decaying'),
     X('sv_.arr_ = 0'), X('(&sv_)->arr_ += 1', note='regression (fixed df7da54)'), X('sp_->arr_ = sp_->arr_'), X('h_v++ = 1'), X('5 <<= 1'))
site('expr.c', 'builtinfunc', 'error', '__builtin_nanf currently only supports empty string literals',
     X('__builtin_nanf("x")', gcc=W_BUILTIN), X('__builtin_nanf(h_v)', gcc=W_BUILTIN))
site('expr.c', 'builtinfunc', 'error', 'expected type name',
     X('__builtin_types_compatible_p(int, 3)'), X('__builtin_types_compatible_p(int, h_v)'),
     X('__builtin_va_arg(ap_, 3)'), X('__builtin_offsetof(, a)', note='regression (fixed d3eab84): null type dereferenced'), X('__builtin_offsetof(3, a)'), n=3)
site('expr.c', 'builtinfunc', 'error', "struct/union has no member named '%s'",
     X('__builtin_offsetof(struct s_, zz_)', "'zz_'"), X('__builtin_offsetof(union un_, zz_)', "'zz_'"))
site('expr.c', 'builtinfunc', 'error', 'type is not a struct/union type',
     X('__builtin_offsetof(int, a)'), X('__builtin_offsetof(struct s_ *, a)'))
site('expr.c', 'builtinfunc', 'error', 'va_arg argument must have type va_list', X('__builtin_va_arg(h_v, int)'))
site('expr.c', 'builtinfunc', 'error', 'va_copy destination must have type va_list', X('__builtin_va_copy(h_v, ap_)'))
site('expr.c', 'builtinfunc', 'error', 'va_copy source must have type va_list', X('__builtin_va_copy(ap_, h_v)'))
site('expr.c', 'builtinfunc', 'error', 'va_end argument must have type va_list', X('__builtin_va_end(h_v)'))
site('expr.c', 'builtinfunc', 'error', 'va_start argument must have type va_list', X('__builtin_va_start(h_v, h_v)'))
site('expr.c', 'builtinfunc', 'expect', 'TCOMMA after expression', X('__builtin_expect(h_v 1)'), X('__builtin_expect(h_v)'))
site('expr.c', 'builtinfunc', 'expect', 'TCOMMA after target va_list', X('__builtin_va_copy(ap_ bp_)'))
site('expr.c', 'builtinfunc', 'expect', 'TCOMMA after type name',
     X('__builtin_offsetof(struct s_ 3)'), X('__builtin_types_compatible_p(int long)'), n=2)
site('expr.c', 'builtinfunc', 'expect', 'TCOMMA after va_list', X('__builtin_va_arg(ap_ int)'))
site('expr.c', 'builtinfunc', 'expect', "TIDENT after ','", X('__builtin_offsetof(struct s_, 3)'))
site('expr.c', 'builtinfunc', 'fatal', 'internal error; unknown builtin', J('internal', 'the switch covers every builtin kind of scope.c'))
site('expr.c', 'castexpr', 'error', 'cast operand must have scalar type',
     X('(int)sv_'), X('(long)(char)uv_'), X('(int *)sv_.in_'))
site('expr.c', 'castexpr', 'error', 'cast type must be scalar',
     X('(struct s_)h_v'), X('(union un_)h_v', gcc=True), X('(int[3])h_v'), X('(int(void))h_v'))
site('expr.c', 'castexpr', 'expect', "TRPAREN after expression to match '('", X('(h_v 1)'), X('(h_v + 1 ; h_v'))
site('expr.c', 'castexpr', 'expect', 'TRPAREN after type name', X('(int 3)h_v'), X('(struct s_ * 1){0}'))
site('expr.c', 'condexpr', 'error', 'first operand of conditional expression must have scalar type',
     X('sv_ ? 1 : 2', note='regression (fixed 74d429b): assertion failure in funcjnz'), X('uv_ ? h_v : 0'), X('sv_.in_ ? sv_ : sv_'))
site('expr.c', 'condexpr', 'error', 'invalid operands to conditional operator',
     X('h_v ? sv_ : 1'), X('h_v ? ip_ : 1.5'), X('h_v ? sv_ : tv_'), X('h_v ? (void)0 : 1'))
site('expr.c', 'condexpr', 'error', 'operands of conditional operator must have compatible types',
     X('h_v ? ip_ : dp_'), X('h_v ? fp_ : ip_'))
site('expr.c', 'condexpr', 'expect', 'TCOLON in conditional expression', X('h_v ? 1'), X('h_v ? : 2', skip=('*',)), )
site('expr.c', 'decodechar', 'assert', 'isodigit(*s)', J('internal', 'scan.c:escape accepted the escape sequence before'))
site('expr.c', 'decodechar', 'assert', 'isxdigit(*s)', J('internal', 'scan.c:escape accepted the escape sequence before'))
site('expr.c', 'decodechar', 'error', '%s contains invalid UTF-8',
     X('sizeof("a\udcffb")', 'string literal', gcc=W_UTF8), X("'\udcc3'", 'character constant', gcc=W_UTF8), X('L"\udced\udca0\udc80"', 'string literal'),
     X('u8"\udcc0\udc80"', 'string literal', gcc=W_UTF8))
site('expr.c', 'designator', 'error', "%s has no member named '%s'",
     X('__builtin_offsetof(struct s_, in_.zz_)', "struct has no member named 'zz_'"))
site('expr.c', 'designator', 'error', 'index designator is only valid for array types', X('__builtin_offsetof(struct s_, a[1])'))
site('expr.c', 'designator', 'error', 'member designator only valid for struct/union types', X('__builtin_offsetof(struct s_, a.b)'), X('__builtin_offsetof(struct s_, arr_.b)'))
site('expr.c', 'designator', 'expect', 'TIDENT for member designator', X('__builtin_offsetof(struct s_, in_.(c))'))
site('expr.c', 'designator', 'expect', 'TRBRACK for index designator', X('__builtin_offsetof(struct s_, arr_[1)'))
site('expr.c', 'exprassign', 'assert', 't->prop&PROPARITH', J('internal', 'the remaining type kinds after bool/pointer/nullptr_t/struct/union are arithmetic; callers reject arrays, functions and void'))
site('expr.c', 'exprassign', 'error', 'assignment to %s type must be from compatible type',
     X('sv_ = tv_'), X('uv_ = 1'), X('sv_ = sp_'),
     X('gs_(tv_)'), X('gs_(1)'))
site('expr.c', 'exprassign', 'error', 'assignment to arithmetic type must be from arithmetic type',
     X('h_v = ip_'), X('h_v += ip_', note='regression (fixed 344cd20): compound assignment constraints'), X('fl_ = sv_'), X('g_(1, ip_)'), X('h_v = "abc"'), T('decl', 'int x_ = (void *)0;', pre=P),
     T('stmt', 'return ip_;', pre=P), X('h_v = (void)0'))
site('expr.c', 'exprassign', 'error', 'assignment to bool must be from arithmetic, pointer, or nullptr_t type',
     X('b_ = sv_'), X('b_ = uv_'), T('decl', '_Bool x_ = sv_;', pre=P, only=('B0', 'B1')))
site('expr.c', 'exprassign', 'error', 'assignment to nullptr_t must be from null pointer constant or expression with type nullptr_t',
     X('np_ = 1', pre='typeof(nullptr) np_;', gcc=W_C23), X('np_ = &h_v', pre='typeof(nullptr) np_;', gcc=W_C23))
site('expr.c', 'exprassign', 'error', 'assignment to pointer discards qualifiers',
     X('ip_ = cip_'), X('ip_ = &ci_'), X('vp_ = cip_'), T('decl', 'char *x_ = (const char *)0 + 1;'))
site('expr.c', 'exprassign', 'error', 'assignment to pointer must be from pointer or null pointer constant',
     X('ip_ = 5'), X('ip_ -= ip_', note='regression (fixed 344cd20): pointer -= pointer'), X('ip_ = 1.0'), X('ip_ = sv_'), X('ip_ = h_v'), X('fp_ = 1'), T('decl', 'int *x_ = 1;'))
site('expr.c', 'exprassign', 'error', 'base types of pointer assignment must be compatible or void',
     X('ip_ = dp_'), X('ip_ = &sv_'), X('fp_ = ip_'), X('sp_ = &tv_'), T('decl', 'int *x_ = (char *)0 + 1;'))
site('expr.c', 'generic', 'error', 'expected typename for generic association', X('_Generic(h_v, 3: 1)'), X('_Generic(h_v, h_v: 1)'))
site('expr.c', 'generic', 'error', 'generic association has variably modified type', X('_Generic(h_v, int[h_v]: 1, default: 2)'))
site('expr.c', 'generic', 'error', 'generic association must have complete type',
     X('_Generic(h_v, struct u_: 1, default: 2)'), X('_Generic(h_v, void: 1, default: 2)'), X('_Generic(h_v, int[]: 1, default: 2)'))
site('expr.c', 'generic', 'error', 'generic association must have object type', X('_Generic(h_v, int(void): 1, default: 2)'))
site('expr.c', 'generic', 'error', 'generic selector matches multiple associations', X('_Generic(h_v, int: 1, int: 2)'),
     X('_Generic(h_v, int: 1, long: 3, signed: 2)'))
site('expr.c', 'generic', 'error', 'generic selector matches no associations and no default was specified',
     X('_Generic(h_v, long: 1)'), X('_Generic(1.0f, double: 1, int: 2)'))
site('expr.c', 'generic', 'error', 'multiple default expressions in generic association list', X('_Generic(h_v, default: 1, default: 2)'))
site('expr.c', 'generic', 'expect', "TCOLON after 'default'", X('_Generic(h_v, default 1)'))
site('expr.c', 'generic', 'expect', 'TCOLON after type name', X('_Generic(h_v, int 1)'))
site('expr.c', 'generic', 'expect', 'TCOMMA after generic selector expression', X('_Generic(h_v)'))
site('expr.c', 'generic', 'expect', "TLPAREN after '_Generic'", X('_Generic h_v'))
site('expr.c', 'generic', 'expect', 'TRPAREN after generic assocation list', X('_Generic(h_v, int: 1 2)'))
site('expr.c', 'intconstexpr', 'error', 'integer constant expression cannot be negative',
     T('decl', 'struct s_ { int b_ : -1; };'), T('decl', '_Alignas(-8) int x_;'),
     T('decl', 'int a_[2] = { [-1] = 1 };'), X('__builtin_offsetof(struct s_, arr_[-1])', gcc=W_BUILTIN))
site('expr.c', 'intconstexpr', 'error', 'not an integer constant expression',
     T('decl', 'struct s_ { int b_ : h_v; };'), T('decl', '_Static_assert(h_v, "m");'), T('decl', '_Static_assert(1.0, "m");'),
     T('stmt', 'switch (h_v) { case 1.5: ; }'), T('bdecl', 'int a_[2] = { [h_l] = 1 };'), T('decl', '_Alignas(h_v) int x_;'),
     T('stmt', 'switch (h_v) { case h_l: ; }'))
site('expr.c', 'inttype', 'error', "invalid integer constant suffix '%s'",
     X('1uu', "'uu'"), X('1lul', "'lul'"), X('0x1g', "'g'"), X('1LLL', "'lll'"), X('08', "'8'"), X('1_0', "'_0'"), X('0x', "'x'"),
     X('1lL', "'lL'", note='fixed in /repo f6f05dd: the suffix was lower-cased before the comparison'), n=2)
site('expr.c', 'inttype', 'error', "no suitable type for constant '%s'",
     X('18446744073709551615', "'18446744073709551615'"), X('9223372036854775808', "'9223372036854775808'"),
     X('9223372036854775808ll'))
site('expr.c', 'mkbinaryexpr', 'error', "invalid operands to '%s' operator",
     X('sv_ == 1', "'=='"), X('1.5 != sv_', "'!='"),
     X('ip_ == 1.5', "'=='"), X('1 != ip_', "'!='"), X('ip_ == sv_', "'=='"),
     X('ip_ < 1', "'<'"), X('sv_ >= sv_', "'>='"), X('0 > ip_', "'>'"), X('1.5 <= ip_', "'<='"), n=3)
site('expr.c', 'mkbinaryexpr', 'error', "invalid operands to '+' operator",
     X('ip_ + 1.0'), X('sv_ + 1'), X('ip_ + ip_'), X('1.5 + ip_'), X('ip_ += 1.5'))
site('expr.c', 'mkbinaryexpr', 'error', "invalid operands to '-' operator",
     X('1 - ip_'), X('ip_ - 1.5'), X('sv_ - 1'), X('ip_ - sv_'))
site('expr.c', 'mkbinaryexpr', 'error', "left operand of '%s' operator must be scalar", X('sv_ && 1', "'&&'"), X('uv_ || 1', "'||'"))
site('expr.c', 'mkbinaryexpr', 'error', "right operand of '%s' operator must be scalar", X('1 && sv_', "'&&'"), X('h_v || uv_', "'||'"))
site('expr.c', 'mkbinaryexpr', 'error', "operands of '%s' operator must be integer",
     X('1.0 & 1', "'&'"), X('h_v | ip_', "'|'"), X('h_v ^ 1.5f', "'^'"), X('h_v &= 1.5', "'&'"), X('fl_ |= 1', "'|'"), X('ip_ ^= 1', "'^'"), X('sv_ & 1', "'&'"))
site('expr.c', 'mkbinaryexpr', 'error', "operands to '%%' operator must be integer", X('1.0 % 2'), X('h_v % 1.5'), X('ip_ % 2'), X('fl_ %= 2'))
site('expr.c', 'mkbinaryexpr', 'error', "operands to '%s' operator must be arithmetic",
     X('ip_ * 2', "'*'"), X('2 / ip_', "'/'"), X('sv_ * 1', "'*'"), X('ip_ *= 2', "'*'"), X('h_v /= sv_', "'/'"))
site('expr.c', 'mkbinaryexpr', 'error', "operands to '%s' operator must be integer",
     X('1.0 << 2', "'<<'"), X('1 >> 2.0', "'>>'"), X('ip_ << 1', "'<<'"), X('h_v >>= 1.5', "'>>'"), X('fl_ <<= 1', "'<<'"))
site('expr.c', 'mkbinaryexpr', 'error', "pointer operand to '+' must be to complete object type",
     X('vp_ + 1'), X('up_ + 1'), X('1 + fp_'), X('vp_ += 1'), X('&*up_ + 1'))
site('expr.c', 'mkbinaryexpr', 'error', "pointer operand to '-' must be to complete object type",
     X('vp_ - 1'), X('up_ - up_'), X('fp_ - 1'), X('vp_ -= 1'))
site('expr.c', 'mkbinaryexpr', 'error', "pointer operands to '%s' operator are to incompatible types",
     X('ip_ == dp_', "'=='"), X('sp_ != ip_', "'!='"), X('fp_ == vp_', "'=='", gcc=True))
site('expr.c', 'mkbinaryexpr', 'error', "pointer operands to '%s' operator must be to compatible object types",
     X('ip_ < dp_', "'<'"), X('fp_ < fp_', "'<'"), X('vp_ >= ip_', "'>='"))
site('expr.c', 'mkbinaryexpr', 'error', "pointer operands to '-' are to incompatible types", X('ip_ - dp_'), X('sp_ - ip_'))
site('expr.c', 'mkbinaryexpr', 'fatal', 'internal error: unknown binary operator %d', J('internal', 'callers pass binary operator tokens only'))
site('expr.c', 'mkincdecexpr', 'error', "operand of '%s' operator is const qualified",
     X('++ci_', "'++'"), X('ci_--', "'--'"), X('(*cip_)++', "'++'"), X('--cip_[1]', "'--'"))
site('expr.c', 'mkincdecexpr', 'error', "operand of '%s' operator must have real or pointer type",
     X('sv_++', "'++'", note='regression (fixed 8c9fd0a): was an internal error "not a scalar"'), X('--uv_', "'--'"), X('sv_.in_--', "'--'"))
site('expr.c', 'mkincdecexpr', 'error', "pointer operand of '%s' operator must be to complete object type",
     X('fp_++', "'++'", note='regression (fixed 8c9fd0a): added the uninitialised size of the function type'), X('--vp_', "'--'", gcc=True), X('up_++', "'++'"), X('++up_', "'++'"))
site('expr.c', 'mkincdecexpr', 'error', "operand of '%s' operator must be an lvalue",
     X('++5', "'++'"), X('h_sink(1)++', "'++'"), X('--(h_v + 1)', "'--'"), X('h_v++ ++', "'++'"), X('sv_.arr_++', "'++'", note='regression (fixed df7da54)'), X('--sp_->arr_', "'--'"))
site('expr.c', 'mkunaryexpr', 'error', "'&' operand is not an lvalue or function designator",
     X('&5'), X('&(h_v + 1)'), X('&h_v++'), X('5 .a'), X('h_sink(1).a'))
site('expr.c', 'mkunaryexpr', 'error', 'cannot dereference non-pointer', X('*h_v'), X('*1.5'), X('*sv_'), X('**ip_'))
site('expr.c', 'mkunaryexpr', 'error', 'cannot take address of bit-field', X('&bs_.b'), X('&(&bs_)->b'))
site('expr.c', 'mkunaryexpr', 'fatal', 'internal error: unknown unary operator %d', J('internal', 'called with & and * only'))
site('expr.c', 'postfixexpr', 'error', "'%s' operator must be applied to pointer to struct/union",
     X('h_v->a', "'->'"), X('sv_->a', "'->'"),
     X('h_v.a', "'.'"), X('ip_->a', "'->'"), X('sp_.a', "'.'"), n=2)
site('expr.c', 'postfixexpr', 'error', 'array is pointer to incomplete type', X('up_[0]'), X('vp_[1]', gcc=True), X('0[up_]'))
site('expr.c', 'postfixexpr', 'error', 'called function has incomplete return type',
     X('ginc_()', pre=P + '\nstruct u_ ginc_(void);', note='regression (fixed in /repo): the empty aggregate type emitted for the call was kept after the struct was completed'),
     X('(*pinc_)(1)', pre=P + '\nunion w_ (*pinc_)(int);'))
site('expr.c', 'postfixexpr', 'error', 'called object is not a function', X('h_v(1)'), X('ip_()'), X('sv_(1)'), X('g_(1, 2)(3)'))
site('expr.c', 'postfixexpr', 'error', 'either array or index must be pointer type', X('h_v[1]'), X('1[2]'), X('sv_[0]'))
site('expr.c', 'postfixexpr', 'error', "expected identifier after '%s' operator", X('sv_.(a)', "'.'"), X('sp_->5', "'->'"), X('sp_->', "'->'"))
site('expr.c', 'postfixexpr', 'error', 'index is not an integer type', X('ip_[1.0]'), X('ip_[dp_]'), X('sv_.arr_[sv_]'))
site('expr.c', 'postfixexpr', 'error', 'not enough arguments for function call', X('g_(1)'), X('g_()'),
     X('h_sink()', note='regression (fixed f532f12): fewer arguments than named parameters of a variadic function'))
site('expr.c', 'postfixexpr', 'error', 'too many arguments for function call', X('g_(1, 2, 3)'), X('fp_(1)'))
site('expr.c', 'postfixexpr', 'error', "struct/union has no member named '%s'", X('sv_.zz_', "'zz_'"), X('sp_->c', "'c'"), X('uv_.b', "'b'"))
site('expr.c', 'postfixexpr', 'expect', "TCOMMA or ')' after function call argument", X('g_(1 2)'), X('h_sink(1, 2 ; 3)'))
site('expr.c', 'postfixexpr', 'expect', 'TRBRACK after array index', X('ip_[1 2]'), X('ip_[1)'))
site('expr.c', 'postfixexpr', 'expect', 'TRPAREN after builtin parameters', X('__builtin_inff(1)'), X('__builtin_alloca(1, 2)'), X('__builtin_unreachable(;'))
site('expr.c', 'primaryexpr', 'assert', "*src=='\\''", J('internal', 'a character constant token starts with an optional prefix and a quote'))
site('expr.c', 'primaryexpr', 'error', "builtin function '%s' must be called directly",
     X('__builtin_alloca', "'__builtin_alloca'", gcc=W_BUILTIN), X('(__builtin_inff)()', "'__builtin_inff'", gcc=W_BUILTIN), X('&__builtin_expect', "'__builtin_expect'"),
     X('sizeof __builtin_va_end', "'__builtin_va_end'"))
site('expr.c', 'primaryexpr', 'error', 'character constant contains more than one character: %c',
     X("'ab'", gcc='multi-character constants are implementation-defined, not a constraint violation; cproc does not support them'),
     X("''", skip=('*',)), X("L'ab'", gcc='gcc truncates with a warning; implementation-defined'))
site('expr.c', 'primaryexpr', 'error', 'character constant is not representable in its type',
     X("u'\U0001F600'", gcc='gcc truncates with a warning; implementation-defined value, cproc rejects'), X("u8'Ā'", gcc=W_C23))
site('expr.c', 'primaryexpr', 'error', 'expected primary expression',
     X('h_v +'), X('(h_v, )'),  X('({ 1; })', gcc='documented missing GNU extension: statement expressions'),
     X('h_v ?: 2', gcc='documented missing GNU extension: conditional with omitted operand'),
     T('stmt', 'return;', gcc=True), X('sizeof'), X('h_sink(1,)'), X('h_v ? 1 :'))
site('expr.c', 'primaryexpr', 'error', "integer constant '%s' is too large",
     X('18446744073709551616', "'18446744073709551616'"), X('0x10000000000000000', "'0x10000000000000000'"),
     X('0b11111111111111111111111111111111111111111111111111111111111111111'), X('040000000000000000000000ull'))
site('expr.c', 'primaryexpr', 'error', "invalid floating constant '%s'",
     J('internal', 'unreachable: a pp-number starts with a digit or .digit, so strtod always consumes at least that digit'))
site('expr.c', 'primaryexpr', 'error', "invalid floating constant suffix '%s'",
     X('1.0x', "'x'"), X('1.5ff', "'ff'"), X('1e', "'e'"), X('1.0lf', "'lf'"), X('0x1.p', "'p'"), X('1.e+', "'e+'"), X('1.2.3', "'.3'"))
site('expr.c', 'primaryexpr', 'error', "invalid integer constant '%s'", X('0b', "'0b'"), X('0b2', "'0b2'"), X('0Bxyz'))
site('expr.c', 'primaryexpr', 'error', 'undeclared identifier: %s',
     X('zz_', 'zz_'), X('h_v + yy_', 'yy_'), X('zz_(1)', 'zz_', gcc=True), T('decl', 'int x_ = x_ + zz_;', 'zz_'),
     T('stmt', '{ { int in_ = 1; } h_v = in_; }', 'in_'), X('sizeof(zz_)', 'zz_'), X('__func__1', '__func__1'))
site('expr.c', 'primaryexpr', 'expect', 'TRPAREN after expression', X('++(h_v 1)'), X('--(h_v ;'))
site('expr.c', 'stringconcat', 'assert', '0', J('internal', 'string literal tokens start with ", L, u, U or u8 and element sizes are 1, 2 or 4'), n=3)
site('expr.c', 'stringconcat', 'assert', 'tok.kind==TSTRINGLIT', J('internal', 'callers check the token kind'))
site('expr.c', 'stringconcat', 'error', 'adjacent string literals have differing prefixes',
     X('sizeof(u"a" U"b")'), X('sizeof(L"a" u8"b")'), X('sizeof(u8"a" "b" u"c")'))
site('expr.c', 'unaryexpr', 'error', '%s operator applied to bitfield expression',
     X('sizeof(bs_.b)', 'sizeof'), X('sizeof bs_.b', 'sizeof'), X('_Alignof(bs_.b)', 'alignof', gcc=True))
site('expr.c', 'unaryexpr', 'error', '%s operator applied to function type',
     X('sizeof(h_sink)', 'sizeof'), X('sizeof(int(void))', 'sizeof'), X('_Alignof(int(void))', 'alignof'), X('sizeof *fp_', 'sizeof'))
site('expr.c', 'unaryexpr', 'error', '%s operator applied to incomplete type',
     X('sizeof(struct u_)', 'sizeof'), X('sizeof(void)', 'sizeof'), X('_Alignof(int[])', 'alignof'), X('sizeof *up_', 'sizeof'), X('sizeof(ux_)', 'sizeof'),
     X('sizeof(*vp_)', 'sizeof'))
site('expr.c', 'unaryexpr', 'error', "expected ')' after 'alignof'", X('_Alignof h_v', gcc=True), X('_Alignof int'))
site('expr.c', 'unaryexpr', 'error', "operand of '~' operator must have integer type", X('~1.0'), X('~ip_'), X('~sv_'))
site('expr.c', 'unaryexpr', 'error', "operand of unary '+' operator must have arithmetic type", X('+ip_'), X('+sv_'), X('+"a"'))
site('expr.c', 'unaryexpr', 'error', "operand of unary '-' operator must have arithmetic type", X('-ip_'), X('-sv_'), X('- -fp_'))
site('expr.c', 'unaryexpr', 'error', "operator '!' must have scalar operand", X('!sv_'), X('!uv_'), X('!!sv_'))
site('expr.c', 'unaryexpr', 'expect', 'TRPAREN after expression', X('sizeof(h_v 1)'), X('_Alignof(h_v ;', gcc=True))
site('expr.c', 'unaryexpr', 'expect', 'TRPAREN after type name', X('sizeof(int 1)'), X('_Alignof(int ;'))

# ------------------------------------------------------------------ eval.c
site('eval.c', 'binary', 'fatal', 'internal error; unknown binary expression', J('internal', 'the switch covers every binary operator mkbinaryexpr produces'))
site('eval.c', 'unary', 'fatal', 'internal error; unknown unary expression', J('internal', 'unary expressions are built with &, * and - only'))
site('eval.c', 'eval', 'error', 'integer part of floating-point constant %g cannot be represented as signed integer',
     T('decl', 'static int x_ = (int)1e19;', '1e+19', gcc='undefined behaviour (6.3.1.4), not a constraint: cproc refuses to fold it'),
     T('decl', 'static long long x_ = (long long)-1e19;', gcc='undefined behaviour (6.3.1.4), not a constraint: cproc refuses to fold it'),
     T('decl', 'enum { A_ = (signed char)-1e30 };', gcc='undefined behaviour (6.3.1.4), not a constraint: cproc refuses to fold it'))
site('eval.c', 'eval', 'error', 'integer part of floating-point constant %g cannot be represented as unsigned integer',
     T('decl', 'static unsigned x_ = (unsigned)-2.0;', '-2', gcc='undefined behaviour (6.3.1.4), not a constraint: cproc refuses to fold it'),
     T('decl', 'static unsigned char x_ = (unsigned char)0x1p64;', gcc='undefined behaviour (6.3.1.4), not a constraint: cproc refuses to fold it'),
     T('decl', 'static unsigned long long x_ = (unsigned long long)1e20;', gcc='undefined behaviour (6.3.1.4), not a constraint: cproc refuses to fold it'))
