# C10 catalogue: stmt.c and init.c
W_GNU = 'cproc-specific restriction on a GNU extension that gcc accepts'
PI = 'struct s_ { int a; int arr_[3]; struct { int c; } in_; }; union un_ { int a; float f; }; struct fl_ { int n; int fa_[]; };'

# ------------------------------------------------------------------ stmt.c: label
site('stmt.c', 'label', 'error', "'case' label must be in switch",
     T('stmt', 'case 1: ;', need={'switch': False}),
     T('stmt', '{ switch (h_v) { default: ; } case 2: ; }', need={'switch': False}))
site('stmt.c', 'label', 'error', "'default' label must be in switch",
     T('stmt', 'default: ;', need={'switch': False}))
site('stmt.c', 'label', 'error', "duplicate label '%s'",
     T('stmt', 'l_: ; l_: ;', "'l_'"),
     T('stmt', 'l_: { l_: ; }', "'l_'"),
     T('stmt', '{ goto l_; l_: h_v = 1; if (h_v) { l_: h_v = 2; } }', "'l_'"))
site('stmt.c', 'label', 'error', "multiple 'default' labels",
     T('stmt', 'switch (h_v) { default: ; default: ; }'),
     T('stmt', 'switch (h_v) { default: ; case 1: { default: ; } }'))
site('stmt.c', 'label', 'expect', "TCOLON after 'default'", T('stmt', 'switch (h_v) { default ; }'))
site('stmt.c', 'label', 'expect', 'TCOLON after case expression', T('stmt', 'switch (h_v) { case 1 ; }'), T('stmt', 'switch (h_v) { case 1 ... 3: ; }', gcc=True))

# ------------------------------------------------------------------ stmt.c: stmt
site('stmt.c', 'stmt', 'error', "'break' statement must be in loop or switch",
     T('stmt', 'break;', need={'loop': False, 'switch': False}),
     T('stmt', '{ while (h_v) h_v--; break; }', need={'loop': False, 'switch': False}))
site('stmt.c', 'stmt', 'error', "'continue' statement must be in loop",
     T('stmt', 'continue;', need={'loop': False}),
     T('stmt', 'switch (h_v) { case 1: continue; }', need={'loop': False}))
site('stmt.c', 'stmt', 'error', 'controlling expression of if statement must have scalar type',
     T('stmt', 'if (sv_) ;', pre=PI + ' struct s_ sv_;'), T('stmt', 'if (h_sink(1), uv_) h_v = 1; else h_v = 2;', pre=PI + ' union un_ uv_;'),
     T('stmt', 'if ((void)0) ;'))
site('stmt.c', 'stmt', 'error', 'controlling expression of loop must have scalar type',
     T('stmt', 'while (sv_) ;', pre=PI + ' struct s_ sv_;'),
     T('stmt', 'do ; while (sv_);', pre=PI + ' struct s_ sv_;'),
     T('stmt', 'for (;sv_;) ;', pre=PI + ' struct s_ sv_;'),
     T('stmt', 'for (int i_ = 0; (void)i_; ++i_) ;'), n=3)
site('stmt.c', 'stmt', 'error', 'controlling expression of switch statement must have integer type',
     T('stmt', 'switch (1.5) { default: ; }'), T('stmt', 'switch (&h_v) { default: ; }'), T('stmt', 'switch (sv_) { case 1: ; }', pre=PI + ' struct s_ sv_;'))
site('stmt.c', 'stmt', 'error', 'inline assembly is not yet supported',
     T('stmt', '__asm__("nop");', gcc='documented unsupported feature (inline assembly); GNU extension'),
     T('stmt', '__asm__ volatile ("" : : : "memory");', gcc='documented unsupported feature (inline assembly); GNU extension'))
site('stmt.c', 'stmt', 'expect', "TIDENT after 'goto'", T('stmt', 'goto 1;'), T('stmt', 'goto *h_v;', gcc=True), T('stmt', 'goto ;'))
site('stmt.c', 'stmt', 'expect', "TLPAREN after 'if'", T('stmt', 'if h_v ;'))
site('stmt.c', 'stmt', 'expect', "TLPAREN after 'switch'", T('stmt', 'switch h_v { default: ; }'))
site('stmt.c', 'stmt', 'expect', "TLPAREN after 'while'", T('stmt', 'while h_v ;'), T('stmt', 'do ; while h_v;'), n=2)
site('stmt.c', 'stmt', 'expect', 'TLPAREN after while', T('stmt', 'for ;;) ;'), T('stmt', 'for int i_ = 0; i_ < 1; ++i_) ;'))
site('stmt.c', 'stmt', 'expect', "TRPAREN after 'for' clauses", T('stmt', 'for (;; h_v++ ;) ;'), T('stmt', 'for (;; h_v++ {}'))
site('stmt.c', 'stmt', 'expect', 'TRPAREN after expression',
     T('stmt', 'if (h_v ;'), T('stmt', 'switch (h_v { default: ; }'), T('stmt', 'while (h_v 1) ;'), T('stmt', 'do ; while (h_v ;'), n=4)
site('stmt.c', 'stmt', 'expect', "TSEMICOLON after 'for' initializer",
     T('stmt', 'for (h_v = 0) ;'), T('stmt', 'for (h_v = 0 h_v < 3; ) ;', note='regression (fixed e628424): the message argument was NULL'))
site('stmt.c', 'stmt', 'expect', "TSEMICOLON after 'for' condition",
     T('stmt', 'for (; h_v < 1) ;'), T('stmt', 'for (h_v = 0, h_v < 1; h_v++) ;'), T('stmt', 'for (int i_ = 0; i_ < 3 i_++) ;'))
site('stmt.c', 'stmt', 'expect', "TSEMICOLON after 'break' statement", T('stmt', 'while (h_v) { break 1; }'), T('stmt', 'switch (h_v) { default: break }'))
site('stmt.c', 'stmt', 'expect', "TSEMICOLON after 'continue' statement", T('stmt', 'while (h_v) { continue 1; }'), T('stmt', 'do continue while (0);'))
site('stmt.c', 'stmt', 'expect', "TSEMICOLON after 'do' statement", T('stmt', 'do ; while (0) h_v = 1;'), T('stmt', '{ do ; while (0) }'))
site('stmt.c', 'stmt', 'expect', "TSEMICOLON after 'goto' statement", T('stmt', '{ l_: ; goto l_ 1; }'), T('stmt', '{ l_: ; goto l_ }'))
site('stmt.c', 'stmt', 'expect', "TSEMICOLON after 'return' statement",
     T('stmt', 'return 1 2;'), T('stmt', '{ return 0 }'),
     T('fdecl', 'void f_(void) { return 1; }', note='a value returned from a void function'), T('fdecl', 'void f_(void) { return (void)0; }'))
site('stmt.c', 'stmt', 'expect', 'TSEMICOLON after expression statement',
     T('stmt', 'h_v = 1 h_v = 2;'), T('stmt', '{ h_v++ }'), T('stmt', 'h_v + 1 = 2;'), T('stmt', '(int)h_v = 2;', gcc=True), T('stmt', 'h_sink(1) h_sink(2);'),
     T('stmt', '(h_v, h_l) = 2;'))
site('stmt.c', 'stmt', 'expect', "TWHILE after 'do' statement", T('stmt', 'do ; until (0);'), T('stmt', 'do h_v++; h_v--; while (0);'))

# ------------------------------------------------------------------ init.c
site('init.c', 'focus', 'error', 'too many initializers for type',
     T('decl', 'int a_[0] = { 1 };', gcc='zero-length arrays are a GNU extension: gcc rejects the declaration itself with -pedantic-errors', note='regression (fixed ad95414): was an assertion failure in emitdata'),
     T('decl', 'struct { int n_; int a_[0]; } x_ = { 1, 2 };', gcc='GNU zero-length array'), T('bdecl', 'int a_[0] = { 1 };', gcc='GNU zero-length array'))
site('init.c', 'parseinit', 'error', 'initializer specified for function type',
     T('expr', '(ft_){ 1 }, 1', pre='typedef int ft_(void);', note='regression (fixed ad95414): was an assertion failure'), T('expr', 'sizeof(ft_){ 1 }', pre='typedef int ft_(void);'))
site('init.c', 'advance', 'error', 'too many initializers for type',
     T('decl', 'int a_[2] = { 1, 2, 3 };'), T('decl', 'struct s_ x_ = { 1, { 1, 2, 3 }, { 4 }, 5 };', pre=PI),
     T('decl', 'int a_[2][2] = { { 1, 2, 3 } };'), T('decl', 'struct { int a, b; } x_ = { 1, 2, 3 };'), T('decl', 'char a_[2][2] = { 1, 2, 3, 4, 5 };'),
     T('decl', 'int x_ = { 1, 2 };', finding='C10-scalar-excess-initializer',
       note='a second initializer for a scalar: accepted for automatic objects, assertion failure in emitdata for static ones'),
     T('decl', 'double *x_ = { 0, 0 };', finding='C10-scalar-excess-initializer'))
site('init.c', 'designator', 'error', "%s has no member named '%s'",
     T('decl', 'struct s_ x_ = { .zz_ = 1 };', "struct has no member named 'zz_'", pre=PI),
     T('decl', 'union un_ x_ = { .zz_ = 1 };', "union has no member named 'zz_'", pre=PI),
     T('decl', 'struct s_ x_ = { .in_.zz_ = 1 };', "'zz_'", pre=PI))
site('init.c', 'designator', 'error', 'index designator is larger than array length',
     T('decl', 'int a_[2] = { [2] = 1 };'), T('decl', 'struct s_ x_ = { .arr_[3] = 1 };', pre=PI), T('decl', 'int a_[2][2] = { [1][5] = 1 };'),
     T('decl', 'int a_[] = { [0x4000000000000000] = 1 };'), T('decl', 'long a_[4] = { [0x2000000000000001] = 1 };'), n=2)
site('init.c', 'designator', 'error', 'index designator is only valid for array types',
     T('decl', 'struct s_ x_ = { [0] = 1 };', pre=PI), T('decl', 'struct s_ x_ = { .a[0] = 1 };', pre=PI), T('decl', 'int x_ = { [0] = 1 };'))
site('init.c', 'designator', 'error', 'member designator only valid for struct/union types',
     T('decl', 'int a_[2] = { .a = 1 };'), T('decl', 'struct s_ x_ = { .a.b = 1 };', pre=PI))
site('init.c', 'designator', 'expect', 'TASSIGN after designator', T('decl', 'int a_[2] = { [0] 1 };', gcc=True), T('decl', 'struct s_ x_ = { .a : 1 };', pre=PI))
site('init.c', 'designator', 'expect', 'TIDENT for member designator', T('decl', 'struct s_ x_ = { . = 1 };', pre=PI))
site('init.c', 'designator', 'expect', 'TRBRACK for index designator', T('decl', 'int a_[2] = { [0 = 1 };'), T('decl', 'int a_[4] = { [0 ... 2] = 1 };', gcc=True))
site('init.c', 'focus', 'fatal', 'internal error: init cursor has unexpected type', J('internal', 'focus() is entered for aggregates only'))
site('init.c', 'focus', 'error', 'initializer for a structure without members',
     T('decl', '__builtin_va_list ap_ = { 0 };', target='aarch64', gcc='target-specific: the opaque va_list has no members in cproc'),
     T('decl', '__builtin_va_list ap_ = { 0 };', gcc='target-specific: the opaque va_list has no members in cproc'))
site('init.c', 'parseinit', 'assert', 'p.cur->type->kind==TYPEARRAY', J('internal', 'struct and union cursors are focused before; scalars are rejected above'))
site('init.c', 'parseinit', 'assert', 't->prop&PROPSCALAR', J('internal', 'remaining kinds after array/struct/union are scalar'))
site('init.c', 'parseinit', 'error', 'array of unknown size has empty initializer',
     T('decl', 'int a_[] = {};'), T('decl', 'struct { int n; char a_[]; } x_ = { 1, {} };', skip=('*',), note='reaches subobj first'))
site('init.c', 'parseinit', 'error', 'cannot initialize array with string literal of different width',
     T('decl', 'int a_[] = "abc";'), T('decl', 'char a_[] = L"abc";'), T('decl', 'unsigned short a_[4] = U"abc";'), T('decl', 'struct { short s_[4]; } x_ = { "ab" };'),
     # same width, incompatible element type
     T('decl', 'int a_[] = U"abc";'), T('decl', 'short a_[] = u"xy";'), T('decl', '_Bool a_[4] = "abc";', gcc=True), T('decl', 'long a_[2] = L"a";'),
     T('decl', 'struct { unsigned u_[3]; } x_ = { L"ab" };'))
site('init.c', 'parseinit', 'error', "expected ',' or '}' after initializer",
     T('decl', 'int a_[2] = { 1 2 };'), T('decl', 'int a_[2] = { 1; };'), T('decl', 'struct s_ x_ = { 1, { 1 } 2 };', pre=PI))
site('init.c', 'parseinit', 'error', 'initializer for array, struct or union must be enclosed in braces',
     T('decl', 'int a_[2] = 5;', note='regression (fixed c965ad9): was accepted by eliding the outermost braces'), T('decl', 'struct s_ x_ = 1;', pre=PI),
     T('bdecl', 'char a_[4] = *"hello";', note='crashed the code generator'), T('bdecl', 'int a_[2] = h_l;'), T('decl', 'union { int a_; } u_ = 0;'),
     T('expr', '(int[2])1, 1', skip=('*',), note='a compound literal always has braces: syntax error first'))
site('init.c', 'parseinit', 'error', 'initializer specified for incomplete type',
     T('decl', 'struct u_ x_ = { 0 };'), T('expr', '(struct u_){ 0 }, 1'), T('bdecl', 'void x_ = { 0 };'))
site('init.c', 'parseinit', 'error', 'initializer specified for variable length array type',
     T('bdecl', 'int a_[2][h_l] = { 0 };'), T('bdecl', 'char a_[1][h_v][3] = { 0 };'),
     T('bdecl', 'int a_[h_l] = { 1, 2 };', finding='C10-vla-initializer', note='only arrays whose ELEMENT type has unknown size are caught (t->base->size == 0)'),
     T('bdecl', 'int a_[h_l][2] = { 0 };', finding='C10-vla-initializer'))
site('init.c', 'parseinit', 'error', 'nested braces around scalar initializer',
     T('decl', 'int x_ = {{ 1 }};', gcc="6.7.9p11 is not a constraint: gcc only warns about braces around a scalar initializer; cproc rejects"), T('decl', 'int a_[2] = { {{ 1 }} };', gcc="6.7.9p11 is not a constraint: gcc only warns about braces around a scalar initializer; cproc rejects"), T('decl', 'struct { int a; } x_ = { {{ 1 }} };', gcc="6.7.9p11 is not a constraint: gcc only warns about braces around a scalar initializer; cproc rejects"))
site('init.c', 'subobj', 'error', 'initialization of flexible array member is not supported',
     T('decl', 'struct fl_ x_ = { 1, { 2, 3 } };', pre=PI, gcc=True), T('decl', 'struct fl_ x_ = { .fa_ = { 1 } };', pre=PI, gcc=True),
     T('decl', 'struct fl_ x_ = { 1, 2 };', pre=PI, gcc=True))
site('init.c', 'subobj', 'fatal', 'internal error: too many designators',
     T('decl', 'struct n_ x_ = { .z = 1 };', pre='struct n_ { int a; ' + 'struct { ' * 32 + 'int z; ' + '}; ' * 32 + '};',
       gcc='implementation limit of cproc (32 nested subobjects), the program is valid C'))
