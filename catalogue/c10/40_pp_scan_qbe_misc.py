# C10 catalogue: pp.c, scan.c, qbe.c, main.c, targ.c, token.c, util.c and the internal assertions of map/tree/type/utf
W_PP = 'documented unsupported feature (the preprocessor is only partly implemented); valid C that gcc accepts'
W_ENC = 'the source encoding is implementation-defined; gcc passes the byte through'
OKPROG = 'int ok_(void) { return 0; }\n'
PQ = ('struct s_ { int a; int arr_[3]; }; struct s_ sv_; typedef struct s_ ts_; const struct s_ cs_ = { 1 };\n'
      'int *ip_; const int *cip_; const int ci_ = 1; volatile int vi_; long double ld_; __builtin_va_list ap_; int *const cp_ = 0;')

# ------------------------------------------------------------------ pp.c
site('pp.c', 'ctxnext', 'assert', 'i!=-1', J('internal', 'a parameter token of a function-like macro always has an index'))
site('pp.c', 'ctxnext', 'assert', 't', J('internal', 'frames are popped when empty'))
site('pp.c', 'define', 'error', "'##' operator is not yet implemented",
     T('pp', '#define M_(a, b) a ## b', gcc=W_PP), T('pp', '#define M_ x ## y', gcc=W_PP), T('pp', '#define M_(a) ## a', gcc=True))
site('pp.c', 'define', 'error', "'%s' is not a macro parameter name",
     T('pp', '#define M_(a) #b', "'b'"), T('pp', '#define M_(a, ...) a # __VA_ARG__', "'__VA_ARG__'"), T('pp', '#define M_() #x', "'x'"))
site('pp.c', 'define', 'error', '__VA_ARGS__ can only be used in variadic function-like macros',
     T('pp', '#define M_(a) a __VA_ARGS__'), T('pp', '#define M_ 1 + __VA_ARGS__'),
     T('pp', '#define M_(a) __VA_ARGS__', note='regression (fixed 278d131): first token of the replacement list'),
     T('pp', '#define M_ __VA_ARGS__'), T('pp', '#define M_() (__VA_ARGS__)'), n=2)
site('pp.c', 'define', 'error', "redefinition of macro '%s'",
     T('pp', '#define M_ 1\n#define M_ 2', "'M_'"), T('pp', '#define M_(a) a\n#define M_(b) b', "'M_'"), T('pp', '#define M_ (1)\n#define M_() (1)', "'M_'"),
     T('pp', '#define M_ 1 + 2\n#define M_ 1+2', "'M_'"), T('pp', '#define M_(a) a\n#define M_(a, ...) a', "'M_'"),
     # same number of parameters, the last one named in one definition and variadic in the other (both orders), body not using it
     T('pp', '#define M_(a,b) a\n#define M_(a,...) a', "'M_'"), T('pp', '#define M_(a,...) a\n#define M_(a,b) a', "'M_'"), T('pp', '#define M_(b) 1\n#define M_(...) 1', "'M_'"))
site('pp.c', 'define', 'tokencheck', "TCOMMA or ')' after macro parameter", T('pp', '#define M_(a b) a'), T('pp', '#define M_(a'))
site('pp.c', 'define', 'tokencheck', 'TIDENT after #define', T('pp', '#define 3'), T('pp', '#define'), T('pp', '#define "x" 1'), T('pp', '#define (M_) 1'))
site('pp.c', 'define', 'tokencheck', "TIDENT after '#' operator", T('pp', '#define M_(a) # 1'), T('pp', '#define M_(a) a #'))
site('pp.c', 'define', 'tokencheck', "TIDENT of macro parameter name or '...'", T('pp', '#define M_(1) a'), T('pp', '#define M_(a,) a'), T('pp', '#define M_(a, "b") a'))
site('pp.c', 'define', 'tokencheck', "TRPAREN after '...'", T('pp', '#define M_(..., a) a'), T('pp', '#define M_(a, ... b) a'))
site('pp.c', 'directive', 'error', '#elif directive is not implemented', T('pp', '#elif 1', gcc=True))
site('pp.c', 'directive', 'error', '#endif directive is not implemented', T('pp', '#endif', gcc=True))
site('pp.c', 'directive', 'error', '#error directive is not implemented', T('pp', '#error stop here', gcc=True))
site('pp.c', 'directive', 'error', '#if directive is not implemented', T('pp', '#if 1\n#endif', gcc=W_PP), T('pp', '#if 0\nsyntax error\n#endif', gcc=W_PP))
site('pp.c', 'directive', 'error', '#ifdef directive is not implemented', T('pp', '#ifdef M_\n#endif', gcc=W_PP))
site('pp.c', 'directive', 'error', '#ifndef directive is not implemented', T('pp', '#ifndef M_\n#endif', gcc=W_PP))
site('pp.c', 'directive', 'error', '#include directive is not implemented',
     T('pp', '#include <stddef.h>', gcc=W_PP), T('pp', '#include "nosuch_.h"', gcc=True))
site('pp.c', 'directive', 'error', 'invalid preprocessor directive #%s',
     T('pp', '#foo', '#foo'), T('pp', '#  defined X', '#defined'), T('pp', '#warning w', '#warning'), T('pp', '#else', '#else'), T('pp', '#include_next <a.h>', '#include_next'))
site('pp.c', 'directive', 'tokencheck', "TIDENT newline, or number after '#'", T('pp', '# "x"'), T('pp', '# +'), T('pp', '#('))
site('pp.c', 'directive', 'tokencheck', 'TNEWLINE after preprocessing directive',
     T('pp', '#undef M_ extra'), T('pp', '#line 5 foo'), T('pp', '#line 5 "f.c" ('), T('pp', '# 7 "f.c" x', gcc=True))
site('pp.c', 'directive', 'tokencheck', 'TNUMBER after #line', T('pp', '#line foo'), T('pp', '#line "f.c"'), T('pp', '#line'))
site('pp.c', 'expandfunc', 'error', 'EOF when reading macro parameters',
     T('tail', 'int x_ = M2_(1, (2', pre='#define M2_(a, b) a'), T('tail', 'int x_ = M2_(', pre='#define M2_(a, b) a'), T('tail', 'int x_ = MV_(1, 2,', pre='#define MV_(a, ...) a'))
site('pp.c', 'expandfunc', 'error', "not enough arguments for macro '%s'",
     T('decl', 'int x_ = M2_(1);', "'M2_'", pre='#define M2_(a, b) a'), T('decl', 'int x_ = M2_();', "'M2_'", pre='#define M2_(a, b) a'),
     T('decl', 'int x_ = M3_(1, (2, 3));', "'M3_'", pre='#define M3_(a, b, c) a'),
     T('decl', 'int x_ = MV_(1);', "'MV_'", pre='#define MV_(a, ...) a'),
     T('expr', 'M2_(h_v)', "'M2_'", pre='#define M2_(a, b) a'))
site('pp.c', 'expandfunc', 'error', "too many arguments for macro '%s'",
     T('decl', 'int x_ = M2_(1, 2, 3);', "'M2_'", pre='#define M2_(a, b) a'), T('decl', 'int x_ = M0_(1);', "'M0_'", pre='#define M0_() 1'),
     T('decl', 'int x_ = M1_(1,);', "'M1_'", pre='#define M1_(a) a'), T('decl', 'int x_ = M2_(1, 2,);', "'M2_'", pre='#define M2_(a, b) a'),
     T('decl', 'int x_ = M0_(,);', "'M0_'", pre='#define M0_() 1'), T('expr', 'M1_(h_v, h_v)', "'M1_'", pre='#define M1_(a) a'))
site('pp.c', 'expect', 'tokencheck', 'kind <expr msg>', J('forwarder', 'expect() forwards its arguments to tokencheck(); every expect site of the census is a caller'))
site('pp.c', 'undef', 'tokencheck', 'TIDENT after #undef', T('pp', '#undef 3'), T('pp', '#undef'), T('pp', '#undef "M_"'))

# ------------------------------------------------------------------ scan.c
site('scan.c', 'charconst', 'error', 'EOF in character constant', T('tail', "int x_ = 'a"), T('tail', "int x_ = '"), T('tail', "int x_ = L'\\n"))
site('scan.c', 'charconst', 'error', 'newline in character constant', T('decl', "int x_ = 'a\n';"), T('decl', "int x_ = '\n"), T('expr', "u'\n'"))
site('scan.c', 'charconst', 'error', 'null byte in character constant', T('expr', "'\x00'", gcc=W_ENC), T('expr', "'a\x00'", gcc=W_ENC))
site('scan.c', 'comment', 'error', 'EOF in comment', T('tail', '/* abc'), T('tail', 'int x_; /* abc *'), T('tail', 'int x_ /'+'*/ ;'))
site('scan.c', 'escape', 'error', 'invalid escape sequence',
     T('expr', "'\\q'"), T('expr', 'sizeof("\\8")'), T('expr', 'sizeof("ab\\ cd")'), T('expr', "'\\u00e9'", gcc='universal character names are not implemented by cproc; valid C11'),
     T('expr', 'sizeof("\\\x00")', gcc=W_ENC))
site('scan.c', 'escape', 'error', 'invalid hexadecimal escape sequence', T('expr', 'sizeof("\\xg")'), T('expr', "'\\x'"))
site('scan.c', 'nextchar', 'fatal', 'read %s:', T('raw', '', cli=['/'], gcc='I/O failure, not a language matter', note='reading a directory fails with EISDIR'))
site('scan.c', 'scanopen', 'fatal', 'open %s:', T('raw', '', cli=['/nonexistent/c10_input.c'], gcc='I/O failure, not a language matter'))
site('scan.c', 'stringlit', 'error', 'EOF in string literal', T('tail', 'char *x_ = "abc'), T('tail', 'char *x_ = "abc\\"'))
site('scan.c', 'stringlit', 'error', 'newline in string literal', T('decl', 'char *x_ = "abc\n";'), T('expr', 'sizeof(u8"\n")'))
site('scan.c', 'stringlit', 'error', 'null byte in string literal', T('expr', 'sizeof("a\x00b")', gcc=W_ENC), T('decl', 'char x_[] = "\x00";', gcc=W_ENC))

# ------------------------------------------------------------------ qbe.c
for cond in ('t->kind==TYPEARRAY',):       # (the assertion on the element size was wrong and is gone since /repo a5fcaa4)
    site('qbe.c', 'calcvla', 'assert', cond, J('internal', 'shape of variably modified types built by decl.c:declarator'))
site('qbe.c', 'calcvla', 'error', "array of unspecified size '[*]' is only allowed in a function prototype",
     T('bdecl', 'int (*p_)[*] = 0;', note='regression: mkarraytype left u.array.size uninitialised (heap-dependent crash)'),
     T('expr', 'sizeof(int[*])', cg=True), T('bdecl', 'int a_[2][*];'))
site('qbe.c', 'checklabels', 'error', "label '%s' is used but not defined",
     T('stmt', 'goto nolabel_;', "'nolabel_'"), T('stmt', 'if (h_v) goto nolabel_; else { int nolabel_; nolabel_ = 1; }', "'nolabel_'"),
     T('fdecl', 'void f_(void) { l_: ; } void g_(void) { goto l_; }', "'l_'"))
site('qbe.c', 'convert', 'assert', 'src->prop&PROPFLOAT', J('internal', 'conversion classes are exhaustive'), n=2)
site('qbe.c', 'convert', 'fatal', 'internal error; unknown floating point conversion', J('internal', 'float sizes are 4 and 8; long double is rejected in qbetype'))
site('qbe.c', 'convert', 'fatal', 'internal error; unknown integer conversion', J('internal', 'integer sizes are 1, 2, 4, 8'), n=2)
site('qbe.c', 'convert', 'fatal', 'internal error; unsupported conversion', J('internal', 'scalar conversions only'))
site('qbe.c', 'dataitem', 'assert', '0', J('internal', 'string element widths are 1, 2, 4'))
site('qbe.c', 'dataitem', 'error', 'initializer is not a constant expression',
     T('decl', 'static int x_ = h_v;'), T('decl', 'static int x_ = h_v + 1;'), T('bdecl', 'static int *x_ = &h_l;'),
     T('decl', 'static int *x_ = &ip_[1];', pre=PQ), T('decl', 'static int *x_ = &tl_;', pre='_Thread_local int tl_;', skip=('B*',)),
     T('decl', 'static int *x_ = tla_ + 1;', pre='_Thread_local int tla_[4];', skip=('B*',)), T('decl', 'static int x_ = h_sink(1);'), T('decl', 'static int x_ = (h_v, 1);', skip=('*',)),
     T('decl', 'static long x_ = (long)&h_v * 2;'), T('decl', 'static int *x_ = 1 ? ip_ : 0;', pre=PQ),
     T('fdecl', 'int x_ = h_v;'), T('decl', 'static struct s_ x_ = { 1, { h_v } };', pre=PQ),
     T('expr', '(int *)&(static int){ h_v } == 0', gcc=True, skip=('*',)), n=4)
site('qbe.c', 'dataitem', 'fatal', 'not a address expr', T('decl', 'static int x_ = -h_v;'), T('decl', 'static int x_ = *ip_;', pre=PQ))
site('qbe.c', 'emitclass', 'fatal', 'type has no QBE representation', J('internal', 'classes are computed for scalars and aggregates only'))
site('qbe.c', 'emitdata', 'error', 'initializer is not a constant expression',
     T('decl', 'static struct { int a_ : 3; } x_ = { h_v };', note='regression (fixed 987b1f6): was an assertion failure'),
     T('decl', 'static union { int x_ : 5; int y_ : 10; } u_ = { h_v = 123 };'), T('bdecl', 'static struct { int a_; unsigned b_ : 7; } x_ = { 1, h_l };'),
     T('decl', 'static struct { char s_[4]; } x_ = { .s_ = "abc", .s_[1] = (char)(long)&h_v };', note='regression (fixed 5cabd25): was an assertion failure'), n=2)
for cond in ('cur->expr->kind==EXPRSTRING', 'cur->expr->type->prop&PROPINT', 'offset<=d->type->size'):
    site('qbe.c', 'emitdata', 'assert', cond, J('internal', 'invariants of the initializer list built by init.c (see finding C10-scalar-excess-initializer for one that can fail)'))
site('qbe.c', 'emitinst', 'assert', 'inst->kind<LEN(instname)', J('internal', 'instruction table'))
site('qbe.c', 'emitjump', 'assert', '0', J('internal', 'jump kinds are exhaustive'))
site('qbe.c', 'emitname', 'fatal', 'invalid value', J('internal', 'value kinds are exhaustive'))
for cond in ('!d->type->incomplete', 'd->type->kind==TYPEARRAY', 'd->type->u.array.size'):
    site('qbe.c', 'funcalloc', 'assert', cond, J('internal', 'defineobj rejects incomplete types; calcvla computed the size'))
site('qbe.c', 'funccopy', 'assert', '(align&align-1)==0', J('internal', 'alignments are powers of two (checked where they are specified)'))
for cond in ('e->u.temp', 't->kind==TYPEARRAY', 't->prop&PROPFLOAT'):
    site('qbe.c', 'funcexpr', 'assert', cond, J('internal', 'shape of expressions built by expr.c'))
site('qbe.c', 'funcexpr', 'error', 'va_arg with non-scalar type is not yet supported',
     T('expr', '__builtin_va_arg(ap_, struct s_).a', pre=PQ, cg=True, gcc='cproc limitation (todo #52); valid use of va_arg'),
     T('stmt', '{ struct s_ l_; l_ = __builtin_va_arg(ap_, struct s_); }', pre=PQ, gcc='cproc limitation (todo #52); valid use of va_arg'))
site('qbe.c', 'funcexpr', 'fatal', 'internal error: unimplemented builtin', J('internal', 'builtin kinds'))
site('qbe.c', 'funcexpr', 'fatal', 'internal error; unimplemented binary expression', J('internal', 'operator kinds'))
site('qbe.c', 'funcexpr', 'fatal', 'internal error; unknown unary expression', J('internal', 'operator kinds'))
site('qbe.c', 'funcexpr', 'fatal', 'not a scalar', J('internal', 'loads are emitted for scalars only'))
site('qbe.c', 'funcexpr', 'fatal', 'unimplemented declaration kind %d',
     T('expr', 'ts_', cg=True, pre=PQ, skip=('*',)), T('expr', 'h_v + tn_', pre='typedef int tn_;', cg=True))
site('qbe.c', 'funcexpr', 'fatal', 'unimplemented expression %d', J('internal', 'expression kinds'))
site('qbe.c', 'funcjnz', 'assert', 't->prop&PROPSCALAR', J('internal', 'controlling expressions are checked by stmt.c'))
site('qbe.c', 'funclval', 'error', 'expression is not an object',
     J('internal', 'second line of defence: since df7da54 every expression that carries the lvalue flag is an identifier, a dereference, a member '
                   'access, a string or a compound literal; non-lvalue operands of =, op=, ++, --, & are rejected in expr.c (templates there, '
                   'incl. member arrays)'), n=2)
site('qbe.c', 'funclval', 'error', "identifier '%s' is not an object or function",
     T('expr', 'h_v + ts_.a', "'ts_'", pre=PQ, cg=True), T('expr', '!ts_.arr_[1]', "'ts_'", pre=PQ, cg=True))
site('qbe.c', 'funcstore', 'assert', '!lval.bits.before&&!lval.bits.after||tp&PROPINT', J('internal', 'bit-fields have integer type (checked in addmember)'))
site('qbe.c', 'funcstore', 'assert', 'tp&PROPSCALAR', J('internal', 'aggregate stores go through funccopy'))
site('qbe.c', 'funcstore', 'error', "cannot store to 'const' object",
     T('expr', 'ci_ = 2', pre=PQ, cg=True), T('expr', '*cip_ = 2', pre=PQ, cg=True), T('expr', 'cs_.a = 2', pre=PQ, cg=True), T('expr', 'cip_[1] += 2', pre=PQ, cg=True),
     T('expr', 'cp_ = 0', pre=PQ, cg=True, anyty=True), T('expr', 'cs_.arr_[1] = 2', pre=PQ, cg=True), T('stmt', '{ const int l_ = 1; l_ = 2; }'),
     T('stmt', '{ struct { const int a_ : 3; int b_ : 2; } l_; l_.a_ = 1; }', gcc='gcc 12 only warns (assignment of read-only location) for a const bit-field; 6.5.16p2 requires a modifiable lvalue', note='regression (fixed f490d06): the bit-field access node dropped the qualifiers'),
     T('stmt', '{ const struct { int a_ : 3; } l_ = {1}; l_.a_ += 2; }'),
     T('expr', 'cs_ = sv_', pre=PQ, cg=True, anyty=True, finding='C10-const-aggregate-assign', skip=('*',)))
site('qbe.c', 'funcstore', 'error', 'volatile store is not yet supported',
     T('expr', 'vi_ = 1', pre=PQ, cg=True, gcc='documented unsupported feature (volatile-qualified types); valid C'),
     T('expr', 'vi_ += 1', pre=PQ, cg=True, gcc='documented unsupported feature (volatile-qualified types); valid C'),
     T('expr', 'vi_++', pre=PQ, cg=True, gcc='documented unsupported feature (volatile-qualified types); valid C',
       note='regression (fixed c0abecd): EXPRINCDEC stored with the qualifiers of the ++ node'),
     T('expr', '--vi_', pre=PQ, cg=True, gcc='documented unsupported feature (volatile-qualified types); valid C'),
     T('stmt', '{ struct { volatile int a_ : 3; } l_; l_.a_ = 1; }', gcc='documented unsupported feature (volatile-qualified types); valid C'),
     T('expr', '*(volatile int *)ip_ = 1', pre=PQ, cg=True, gcc='documented unsupported feature (volatile-qualified types); valid C'))
site('qbe.c', 'convert', 'error', 'long double is not yet supported',
     T('expr', 'h_v = (int)ld_', pre=PQ, cg=True, gcc='documented unsupported feature (long double); valid C'),
     T('expr', 'ld_ = h_v', pre=PQ, cg=True, anyty=True, gcc='documented unsupported feature (long double); valid C'),
     T('expr', 'ld_ = 1.5f', pre=PQ, cg=True, anyty=True, gcc='documented unsupported feature (long double); valid C'))
site('qbe.c', 'qbetype', 'assert', '0', J('internal', 'scalar sizes are 1, 2, 4, 8, 16'))
site('qbe.c', 'qbetype', 'error', 'long double is not yet supported',
     T('expr', 'ld_ = ld_ + 1', pre=PQ, cg=True, anyty=True, gcc='documented unsupported feature (long double); valid C'),
     T('expr', 'ld_ = ld_', pre=PQ, cg=True, anyty=True, gcc='documented unsupported feature (long double); valid C'),
     T('fdecl', 'long double f_(long double a_) { return a_; }', gcc='documented unsupported feature (long double); valid C'))
site('qbe.c', 'switchcase', 'error', "multiple 'case' labels with same value",
     T('stmt', 'switch (h_v) { case 1: ; case 1: ; }'), T('stmt', 'switch (h_v) { case 1: ; case 0x100000001: ; }', gcc=True),
     T('stmt', 'switch (h_v) { case -1: ; { case 0xffffffff: ; } }', gcc=True), T('stmt', "switch ((char)h_v) { case 'a': ; case 97: ; }"),
     T('stmt', 'switch (h_v) { case 2: ; default: ; case 1 + 1: ; }'),
     # unsigned 32-bit controlling types: the case constants are reduced modulo 2^32 before they are compared
     T('stmt', 'switch ((unsigned)h_v) { case 1: ; case 0x100000001: ; }', gcc=True), T('stmt', 'switch ((unsigned)h_v) { case -1: ; case 0xffffffff: ; }', gcc=True),
     T('stmt', '{ enum { R_, G_, B_ } e_ = h_v; switch (e_) { case B_: ; case -4294967294: ; } }', gcc=True),
     T('stmt', 'switch ((unsigned long)h_v) { case -1: ; case 0xffffffffffffffff: ; }'))

# ------------------------------------------------------------------ main.c, targ.c, token.c, util.c, map.c, tree.c, type.c, utf.c
site('main.c', 'main', 'error', 'expected declaration or function definition',
     T('fdecl', 'h_v = 1;'), T('fdecl', ')'), T('fdecl', '__asm__("nop");', gcc='documented unsupported feature (inline assembly); GNU extension'),
     T('fdecl', '}'), T('fdecl', '1;'), T('fdecl', 'if (h_v) ;'), T('fdecl', '_Decimal32 x_;', gcc=True), T('fdecl', '%:define X_ 1', gcc='documented unsupported feature (digraphs); valid C'))
site('main.c', 'main', 'error', "unexpected ';' at top-level",
     T('fdecl', ';', note='documented missing GNU extension: empty top-level declarations'), T('fdecl', 'int x_;;'))
site('main.c', 'main', 'fatal', 'open %s:', T('raw', OKPROG, cli=['-o', '/nonexistent/dir_/out_.ssa'], gcc='I/O failure, not a language matter'))
site('main.c', 'main', 'fatal', 'write failed', T('raw', OKPROG, cli=['-o', '/dev/full'], gcc='I/O failure, not a language matter'))
site('targ.c', 'targinit', 'fatal', "unknown target '%s'", T('raw', OKPROG, "'nosuch_'", cli=['-t', 'nosuch_'], gcc='command-line error, not a language matter'))
site('token.c', 'tokencheck', 'error', 'expected %s %s, saw %s',
     J('forwarder', 'the one place where every tokencheck/expect site formats its message; exercised by each of their templates'))
site('token.c', 'tokenprint', 'fatal', 'cannot print token %d', J('internal', 'every token kind without a literal has a spelling in tokstr[]'))
site('util.c', 'arrayadd', 'fatal', 'realloc', J('io', 'out of memory'))
site('util.c', 'xmalloc', 'fatal', 'malloc:', J('io', 'out of memory'))
site('util.c', 'xreallocarray', 'fatal', 'reallocarray:', J('io', 'out of memory'))
site('util.c', 'arraylast', 'assert', 'n<=a->len', J('internal', 'callers keep at least one element'))
site('map.c', 'mapinit', 'assert', '!(cap&cap-1)', J('internal', 'capacities at the call sites are literal powers of two (checked by C16)'))
site('tree.c', 'treeinsert', 'assert', 'sz>sizeof(*n)', J('internal', 'node payload sizes at the call sites'))
site('type.c', 'typeadjust', 'error', 'parameter of function type cannot be qualified',
     T('fdecl', 'typedef void ft_(void); void g_(const ft_ f_);', gcc='6.7.3p9 makes a qualified function type undefined, not a constraint violation: gcc only warns with -pedantic',
       note='regression (fixed a5b4019): was an assertion failure'),
     T('fdecl', 'typedef int ft_(int); int g_(volatile ft_ f_) { return 0; }', gcc='6.7.3p9: undefined behaviour; gcc only warns'))
site('type.c', 'typecommonreal', 'assert', 't1->prop&PROPREAL&&t2->prop&PROPREAL', J('internal', 'callers check arithmetic operands'))
site('type.c', 'typecommonreal', 'fatal', 'internal error; could not find common real type', J('internal', 'rank ladder is exhaustive'))
site('type.c', 'typehasint', 'assert', 't->prop&PROPINT', J('internal', 'callers pass integer types'))
site('type.c', 'typemember', 'assert', 't->kind==TYPESTRUCT||t->kind==TYPEUNION', J('internal', 'callers check the kind'))
site('type.c', 'typerank', 'assert', 't->prop&PROPINT', J('internal', 'callers pass integer types'))
site('type.c', 'typerank', 'fatal', 'internal error; unhandled integer type', J('internal', 'rank switch covers every integer kind (table checked by C05)'))
site('utf.c', 'utf16enc', 'assert', '0', J('internal', 'utf8dec yields code points below 0x110000 without surrogates'))
site('utf.c', 'utf8enc', 'assert', '0', J('internal', 'utf8dec yields code points below 0x110000'))
