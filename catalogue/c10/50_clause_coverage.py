# C10 catalogue: further templates, one per clause of a guard that the templates of the earlier files left untaken
# (found with a branch-coverage build of the snapshot: VERIF_EXTRA_CFLAGS="--coverage -O0" VERIF_COV_OUT=dir ./check C10)
W_GNU = 'cproc-specific restriction on a GNU extension that gcc accepts'
more('attr.c', 'parseattr', 'error', 'invalid alignment %llu',
     T('decl', 'int x_ __attribute__((aligned(4294967296)));', 'alignment 4294967296', gcc=W_GNU, note='power of two above INT_MAX'),
     T('decl', 'int x_ __attribute__((aligned(6)));', 'alignment 6'))
more('decl.c', 'declcommon', 'error', "%s '%s' redeclared with different assembler name",
     T('decl', 'extern int x_; extern int x_ __asm__("b_");', "object 'x_'", gcc=W_GNU, note='the prior declaration has no label at all'),
     T('bdecl', 'extern int z_ __asm__("b_");', "object 'z_'", pre='extern int z_;', gcc=W_GNU))
more('qbe.c', 'dataitem', 'error', 'initializer is not a constant expression',
     T('decl', 'static long x_ = (long)&h_v - 1;', gcc='an address minus a constant is an address constant in C; cproc folds only address + constant',
       note='binary operator other than +'),
     T('decl', 'static long x_ = 1 + (long)&h_v + (long)&h_v;', note='right operand not a constant'))
