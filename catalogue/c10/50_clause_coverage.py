# C10 catalogue: further templates, one per clause of a guard that the templates of the earlier files left untaken
# (found with a branch-coverage build of the snapshot: VERIF_EXTRA_CFLAGS="--coverage -O0" VERIF_COV_OUT=dir ./check C10)
W_GNU = 'cproc-specific restriction on a GNU extension that gcc accepts'
more('attr.c', 'parseattr', 'error', 'invalid alignment %llu',
     T('decl', 'int x_ __attribute__((aligned(4294967296)));', 'alignment 4294967296', gcc=W_GNU, note='power of two above INT_MAX'),
     T('decl', 'int x_ __attribute__((aligned(6)));', 'alignment 6'))
more('decl.c', 'declcommon', 'error', "%s '%s' redeclared with different assembler name",
     T('decl', 'extern int x_; extern int x_ __asm__("b_");', "object 'x_'", gcc=W_GNU, note='the prior declaration has no label at all'),
     T('bdecl', 'extern int z_ __asm__("b_");', "object 'z_'", pre='extern int z_;', gcc=W_GNU))
more('qbe.c', 'dataitem', 'error', 'initializer is not a constant expression',
     T('decl', 'static long x_ = (long)&h_v - 1;', gcc='an address minus a constant is an address constant in C; cproc folds only address + constant',
       note='binary operator other than +'),
     T('decl', 'static long x_ = 1 + (long)&h_v + (long)&h_v;', note='right operand not a constant'))

# round-10 adversary misses: a check that only runs for EMITTED functions, the exact boundary 2^63, the signedness used by a range test
more('qbe.c', 'checklabels', 'error', "label '%s' is used but not defined",
     T('fdecl', 'inline int f_(void) { goto nolabel_; return 0; }', "'nolabel_'", note='an inline definition is parsed but not emitted'),
     T('fdecl', 'static inline void g_(int x_) { if (x_) goto out_; }', "'out_'"))
more('eval.c', 'eval', 'error', 'integer part of floating-point constant %g cannot be represented as signed integer',
     T('decl', 'static long x_ = 9223372036854775808.0;', gcc='undefined behaviour (6.3.1.4), not a constraint: cproc refuses to fold it', note='exactly 2^63'),
     T('decl', 'static long x_ = -9223372036854777856.0;', gcc='undefined behaviour (6.3.1.4), not a constraint: cproc refuses to fold it', note='the next double below -2^63'))
more('decl.c', 'tagspec', 'error', "enumerator '%s' value cannot be represented in underlying type",
     T('decl', 'enum e_ : long { A_ = 0xffffffffffffffffu };', "'A_'", gcc='C23 syntax implemented by cproc; gcc -std=c11 rejects the syntax itself for another reason (still rejected)'),
     T('decl', 'enum e_ : int { A_ = 18446744073709551488u };', "'A_'", gcc='C23 syntax implemented by cproc; gcc -std=c11 rejects the syntax itself for another reason (still rejected)'),
     T('decl', 'enum e_ : unsigned { A_ = -1 };', "'A_'", gcc='C23 syntax implemented by cproc; gcc -std=c11 rejects the syntax itself for another reason (still rejected)'))

# /repo 7cbfad0, 9110e4f, f6f05dd: macro parameter names (6.10.3p5, p6) and the mixed-case long long suffix (6.4.4.1)
site('pp.c', 'define', 'error', "duplicate macro parameter name '%s'",
     T('pp', '#define M_(a, a) a', "'a'"), T('pp', '#define M_(a, b, c, b) a b c', "'b'"), T('pp', '#define M_(x, y, x, ...) y', "'x'"))
site('pp.c', 'define', 'error', '__VA_ARGS__ cannot be used as a macro parameter name',
     T('pp', '#define M_(__VA_ARGS__) 1'), T('pp', '#define M_(a, __VA_ARGS__) a'), T('pp', '#define M_(__VA_ARGS__, ...) 1'))
more('expr.c', 'inttype', 'error', "invalid integer constant suffix '%s'",
     T('expr', '1lL', "'lL'"), T('expr', '1Ll', "'Ll'"), T('expr', '0x1uLl', "'uLl'"), T('expr', '07lLU', "'lLU'"))

# round 13: a second definition after an inline definition (the first is not emitted, but it is a definition all the same),
# three storage-class specifiers, a conditional with exactly one void arm, a surplus empty macro argument
more('decl.c', 'decl', 'error', "function '%s' redefined",
     T('fdecl', 'inline int f_(void) { return 1; } inline int f_(void) { return 2; }', "'f_'"),
     T('fdecl', 'inline int f_(void) { return 1; } int f_(void) { return 2; }', "'f_'"),
     T('fdecl', 'static inline int f_(void) { return 1; } static inline int f_(void) { return 2; }', "'f_'"),
     T('fdecl', 'extern inline int f_(void) { return 1; } inline int f_(void) { return 2; }', "'f_'"))

# /repo: _Alignas(type-name) needs a complete object type (the alignment of a function type was read uninitialised)
site('decl.c', 'declspecs', 'error', 'alignment specifier applied to incomplete or function type',
     T('decl', '_Alignas(int(void)) int x_;'), T('decl', 'struct s_; _Alignas(struct s_) int x_;'), T('decl', '_Alignas(int[]) int x_;'),
     T('decl', '_Alignas(void) int x_;'), T('bdecl', '_Alignas(union u_) char c_;', pre='union u_;'))

# round 16: members of structs that are not lvalues (function results, conditional and assignment expressions), `(void, ...)`,
# a backslash followed by a NUL byte in a literal that is only scanned (macro body, -E)
W_ENC2 = 'gcc only warns about a null character in a literal; cproc documents it as unsupported input'
W_RV = 'gcc 12 accepts the member of an rvalue struct as an lvalue only in C99 and later for arrays; this scalar form is rejected by it as well'
more('expr.c', 'assignexpr', 'error', 'left side of assignment expression is not an lvalue',
     T('bdecl', 'mk_().x_ = 1;', pre='struct s_ { int x_, y_; } mk_(void);'),
     T('bdecl', '(h_v ? s1_ : s2_).y_ = 2;', pre='struct s_ { int x_, y_; } s1_, s2_;'),
     T('bdecl', '(s1_ = s2_).x_ = 3;', pre='struct s_ { int x_, y_; } s1_, s2_;'),
     T('bdecl', '(0, s1_).x_ = 3;', pre='struct s_ { int x_, y_; } s1_, s2_;'))
more('expr.c', 'mkunaryexpr', 'error', "'&' operand is not an lvalue or function designator",
     T('bdecl', 'int *p_ = &(s1_ = s2_).y_;', pre='struct s_ { int x_, y_; } s1_, s2_;'),
     T('bdecl', 'int *p_ = &mk_().x_;', pre='struct s_ { int x_, y_; } mk_(void);'))
more('decl.c', 'declaratortypes', 'error', "parameter has type 'void'",
     T('decl', 'int f_(void, ...);'), T('decl', 'struct s_ { int (*fp_)(void, ...); };'), T('fdecl', 'int f_(void, ...) { return 0; }'))
more('scan.c', 'escape', 'error', 'invalid escape sequence',
     T('pp', '#define M_ "a\\\x00b"', gcc=W_ENC2), T('pp', "#define M_ '\\\x00'", gcc=W_ENC2))

# round 19: a second default after the association that matched; mixed-case ll after the u suffix; /*/ is not a complete comment
more('expr.c', 'generic', 'error', 'multiple default expressions in generic association list',
     T('expr', '_Generic(1L, int: 1, long: 2, default: 3, char *: 4, default: 5)'), T('expr', '_Generic(h_v, int: 1, default: 2, default: 3)'), T('expr', '_Generic(h_v, default: 2, int: 1, default: 3)'))
more('expr.c', 'inttype', 'error', "invalid integer constant suffix '%s'",
     T('expr', '10uLl', "'uLl'"), T('expr', '7UlL', "'ulL'"), T('expr', '1LlU', "'LlU'"))

# round 20: too few arguments for the named parameters of a variadic function
more('expr.c', 'postfixexpr', 'error', 'not enough arguments for function call',
     T('bdecl', 'total_(1);', pre='int total_(int, long, ...);'), T('bdecl', 'total_();', pre='int total_(int, ...);'))
