(* Extraction of the lowering model (Lower.v, LowerFn.v).  positive/N/Z are mapped to zarith integers
   (ExtrOcamlZBigInt), as for the IL toolkit: constants are 64-bit patterns. *)
From Coq Require Import Extraction ExtrOcamlBasic ExtrOcamlZBigInt ZArith PArith.
From Cproc Require Import Model.Qbe Spec.Csem Model.Lower Model.LowerFn.
Extraction Language OCaml.

Extract Constant Z.land => "Big_int_Z.and_big_int".
Extract Constant Z.lor => "Big_int_Z.or_big_int".
Extract Constant Z.lxor => "Big_int_Z.xor_big_int".
Extract Constant Z.pow => "Big_int_Z.(fun a b -> if sign_big_int b < 0 then zero_big_int else power_big_int_positive_big_int a b)".
Extract Constant Pos.eqb => "Big_int_Z.eq_big_int".
Extract Constant Z.ltb => "Big_int_Z.lt_big_int".
Extract Constant Z.leb => "Big_int_Z.le_big_int".

Extraction "../ocaml/c01/model.ml" LowerFn.lower_function Lower.convert_steps Lower.binop_op Lower.copy_count.
