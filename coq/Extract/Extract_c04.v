(* Extraction of the C04 models (ExtrOcamlBasic only; Z/positive/N stay the extracted inductives). *)
From Coq Require Import Extraction ExtrOcamlBasic ZArith.
From Cproc Require Import Spec.CArith Model.EvalFloat Model.Eval.
Extraction Language OCaml.
Extraction "../ocaml/c04/model.ml" Eval.flocq_ops Eval.cast Eval.unary Eval.binary Eval.cast_const Eval.istrue Eval.eval Eval.condfold
  Eval.intconstexpr Eval.exprconvert Eval.type_of
  CArith.binop_spec CArith.unop_spec CArith.conv_spec CArith.conv_bool_spec CArith.land_spec CArith.lor_spec
  CArith.in_rangeb CArith.binop_type
  Z.add Z.mul Z.opp Z.compare Z.of_nat.
