(* Extraction of the C05 model (ExtrOcamlBasic only: Z/positive/nat stay inductive). *)
From Coq Require Import Extraction ExtrOcamlBasic ZArith.
From Cproc Require Import Model.Types.
Extraction Language OCaml.
Extraction "../ocaml/c05/model.ml"
  Z.add Z.mul Z.eqb Z.opp
  Types.all_basics Types.basic_row Types.rank_of_kind Types.alltargs Types.limits Types.enum_inttypes
  Types.typerank Types.typecompatible Types.typepromote Types.typecommonreal Types.typeadjust Types.typehasint
  Types.inttype Types.floattype Types.charconst_type Types.string_elem Types.strlit_type Types.decay
  Types.nullpointer Types.binop_type Types.unop_type Types.cond_type Types.exprassign_ok Types.enum_base
  Types.sizeof_type Types.ptrdiff_type Types.prop Types.size Types.issigned Types.kind_of.
