(* Extraction of the C06 models and specification (ExtrOcamlBasic only; Z stays inductive). *)
From Coq Require Import Extraction ExtrOcamlBasic ZArith.
From Cproc Require Import Model.Layout Spec.AbiLayout.
Extraction Language OCaml.
Extraction "../ocaml/c06/model.ml"
  Z.add Z.mul Z.sub Z.div Z.modulo Z.eqb Z.ltb Z.leb Z.opp
  Layout.binit Layout.addmember Layout.item_input Layout.item_check Layout.structdecl Layout.finish Layout.record_layout Layout.array_type
  Layout.einit Layout.enum_step Layout.enum_finish Layout.enum_type Layout.typehasint
  Layout.typemember Layout.designator Layout.offsetof Layout.alignup Layout.aligndown
  Layout.tint Layout.tuint Layout.tlong Layout.tulong Layout.tllong Layout.tullong
  AbiLayout.sinit AbiLayout.place AbiLayout.spec_finish AbiLayout.spec_layout
  AbiLayout.rules_sysv AbiLayout.rules_aapcs64 AbiLayout.spec_enum AbiLayout.spec_array_size
  AbiLayout.fields AbiLayout.lookup AbiLayout.mval.
