(* Extraction of the C07 models and specification (ExtrOcamlBasic only). *)
From Coq Require Import Extraction ExtrOcamlBasic NArith.
From Cproc Require Import Lib.InitBits Model.Init Model.DataEmit Model.AutoInit Spec.InitSpec.
Extraction Language OCaml.
Extraction "../ocaml/c07/model.ml" Init.parseinit Init.initadd DataEmit.emitdata DataEmit.items_bytes DataEmit.le_bytes
  DataEmit.bytes_num AutoInit.funcinit AutoInit.exec_all InitSpec.image InitSpec.elab InitSpec.leaf_of InitSpec.denote
  InitBits.mkenv N.eqb N.mul N.add N.shiftl.
