(* Extraction of the C08 model and specification (ExtrOcamlBasic only; Z stays inductive). *)
From Coq Require Import Extraction ExtrOcamlBasic.
From Cproc Require Import Spec.QbeAgg Model.Emittype.
Extraction Language OCaml.
Extraction "../ocaml/c08/model.ml"
  Emittype.est0 Emittype.emittype Emittype.emit_all Emittype.mkfunc_types Emittype.funchead
  Emittype.call_types Emittype.callsig Emittype.convert_args Emittype.typeadjust Emittype.qbetype
  Emittype.typepromote Emittype.exprpromote
  QbeAgg.naturalb QbeAgg.cinfo QbeAgg.promote_spec QbeAgg.adjust_spec
  QbeAgg.env_of QbeAgg.add_def QbeAgg.def_info QbeAgg.elookup
  QbeAgg.sysv_class QbeAgg.aapcs64_class QbeAgg.rv64_class.
