(* Extraction of the C09 model and specification (ExtrOcamlBasic only). *)
From Coq Require Import Extraction ExtrOcamlBasic List NArith.
From Cproc Require Import Lib.LinkageBase Model.Linkage Spec.LinkSpec.
Extraction Language OCaml.

Definition c09_init := Linkage.init_state.
Definition c09_step := Linkage.step.
Definition c09_finish := Linkage.finish.
Definition c09_observe := Linkage.observe.
Definition c09_run := Linkage.run.
Definition c09_spec_init := LinkSpec.init_sstate.
Definition c09_spec_step := LinkSpec.spec_step.
Definition c09_spec_finish := LinkSpec.spec_finish.
Definition c09_spec_run := LinkSpec.run.
Definition c09_known_dev := LinkSpec.known_dev.
Definition c09_dev_inline_late := LinkSpec.dev_inline_late.
Definition c09_dev_thread_tentative := LinkSpec.dev_thread_tentative.

Extraction "../ocaml/c09/model.ml" c09_init c09_step c09_finish c09_observe c09_run
  c09_spec_init c09_spec_step c09_spec_finish c09_spec_run c09_known_dev c09_dev_inline_late c09_dev_thread_tentative.
