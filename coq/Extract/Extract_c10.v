(* Extraction of the C10 models (ExtrOcamlBasic only: bool/option/list/prod/unit/sumbool to OCaml's). *)
From Coq Require Import Extraction ExtrOcamlBasic ExtrOcamlString.
From Cproc Require Import Spec.Constraints Model.Checks.
Extraction Language OCaml.
Extraction "../ocaml/c10/model.ml" Checks.typespec Checks.typespec_type Checks.sc_run Checks.sc_ctx_check
  Checks.bitfield_check Checks.alignas_run Checks.alignas_accepts Checks.array_check Checks.expandfunc_arity
  Checks.macro_params Constraints.c11_typespec Constraints.c11_storage_ok Constraints.c11_storage_ctx_ok
  Constraints.c11_arity_ok.
