(* C11 uses the same extracted scanner / line-control model as C13 (ocaml/c13); this file extracts the
   specification side (Spec/LineSpec.v) so that the check can run the Coq specification itself on its inputs. *)
From Coq Require Import Extraction ExtrOcamlBasic.
From Cproc Require Import Gen.Keywords Model.Scan Spec.Lex Spec.LineSpec.
Extraction Language OCaml.
Extraction "../ocaml/c11/model.ml" LineSpec.expected LineSpec.file_plain LineSpec.file_full LineSpec.expected_scan
  Scan.run Scan.run_scan Keywords.kind_num.
