(* Extraction of the C12 model and specification (ExtrOcamlBasic only). *)
From Coq Require Import Extraction ExtrOcamlBasic.
From Cproc Require Import Model.PP Spec.MacroSpec.
Extraction Language OCaml.
Extraction "../ocaml/c12/model.ml" PP.run PP.kind_of_code PP.kind_code PP.macroequal PP.stringize PP.str_token
  MacroSpec.spec_run MacroSpec.spec_prosser MacroSpec.spelling.
