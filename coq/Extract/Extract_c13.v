(* Extraction of the scanner / line-control model (serves C13 and C11). ExtrOcamlBasic only. *)
From Coq Require Import Extraction ExtrOcamlBasic.
From Cproc Require Import Gen.Keywords Model.Scan.
Extraction Language OCaml.
Extraction "../ocaml/c13/model.ml" Scan.run Scan.run_scan Scan.keyword_lookup Scan.strcmp
  Keywords.kind_num Keywords.tokstr Keywords.keywords Keywords.all_kinds
  Keywords.first_keyword Keywords.last_keyword Keywords.first_punctuator Keywords.last_punctuator.
