(* Extraction of the C14 models and of the specification functions (ExtrOcamlBasic only). *)
From Coq Require Import Extraction ExtrOcamlBasic.
From Cproc Require Import Spec.Unicode Spec.CLiteral Model.Utf Model.Literal.
Extraction Language OCaml.
Extraction "../ocaml/c14/model.ml" Utf.utf8enc Utf.utf8dec Utf.utf16enc
  Literal.decodechar Literal.stringconcat Literal.charconst Literal.scan_literal
  Literal.targ_x86_64_sysv Literal.targ_aarch64 Literal.targ_riscv64
  Unicode.utf8 Unicode.utf16 Unicode.scalarb Unicode.rfc3629_char Unicode.item_value Unicode.item_elements
  Unicode.merge_kinds Unicode.kind_type Unicode.plain_char_spec Unicode.in_rangeb
  CLiteral.render_string CLiteral.render_const CLiteral.string_elements CLiteral.wide_char_spec CLiteral.u64_of_Z.
