(* Extraction of the C15 models (ExtrOcamlBasic only: bool/option/list/prod/unit/sumbool to OCaml's;
   positive/N/Z stay the inductive binary numbers of Coq). *)
From Coq Require Import Extraction ExtrOcamlBasic.
From Cproc Require Import Model.Tree Model.CaseSearch.
Extraction Language OCaml.
Extraction "../ocaml/c15/model.ml" Tree.insert Tree.insert_all Tree.balance Tree.rot Tree.path_len Tree.height
  Tree.elements Tree.rheight CaseSearch.convert CaseSearch.switchcase CaseSearch.switchcases
  CaseSearch.search CaseSearch.search_depth CaseSearch.cls_of_size.
