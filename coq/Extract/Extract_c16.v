(* Extraction of the C16 models (ExtrOcamlBasic only: bool/option/list/prod/unit/sumbool to OCaml's). *)
From Coq Require Import Extraction ExtrOcamlBasic.
From Cproc Require Import Model.Map Model.Scope.
Extraction Language OCaml.
Extraction "../ocaml/c16/model.ml" Map.mapinit Map.mapput Map.setval Map.mapget Map.step Map.run Map.fnv1a Map.bytes_eqb
  Scope.srun Scope.sstep Scope.scopegetdecl Scope.scopegettag.
