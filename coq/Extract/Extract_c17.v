(* Extraction of the C17 driver model and of the cproc(1) specification (ExtrOcamlBasic only). *)
From Coq Require Import Extraction ExtrOcamlBasic.
From Cproc Require Import Lib.DriverTypes Model.Driver Spec.DriverSpec.
Extraction Language OCaml.
Extraction "../ocaml/c17/model.ml" Driver.plan DriverSpec.plan_q DriverSpec.documented DriverSpec.asbuilt
  DriverSpec.word_table DriverSpec.pair_table DriverSpec.letter_table DriverSpec.lang_table DriverSpec.suffix_table
  DriverSpec.stages_for DriverSpec.arch_table DriverSpec.lex DriverSpec.w_items.
