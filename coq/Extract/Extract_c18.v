(* Extraction of the C18 process model together with the C17 planner it runs on (ExtrOcamlBasic only). *)
From Coq Require Import Extraction ExtrOcamlBasic.
From Cproc Require Import Lib.DriverTypes Model.Driver Model.DriverProc.
Extraction Language OCaml.
Extraction "../ocaml/c18/model.ml" Driver.plan DriverProc.run DriverProc.exit_code DriverProc.may_exist DriverProc.link_started
  DriverProc.is_stuck.
