(* Extraction of the IL toolkit (Qbe.run, QbeWf.wf_module).  positive/N/Z are mapped to zarith integers
   (ExtrOcamlZBigInt) for speed: whole-program runs take ~10^5 steps.  The extra constants below map
   the bit operations, truncating division and power to zarith as well. *)
From Coq Require Import Extraction ExtrOcamlBasic ExtrOcamlZBigInt ZArith PArith.
From Cproc Require Import Model.Qbe Model.QbeWf.
Extraction Language OCaml.

Extract Constant Z.land => "Big_int_Z.and_big_int".
Extract Constant Z.lor => "Big_int_Z.or_big_int".
Extract Constant Z.lxor => "Big_int_Z.xor_big_int".
Extract Constant Z.quot => "Big_int_Z.(fun a b -> let q = div_big_int (abs_big_int a) (abs_big_int b) in
  if sign_big_int a * sign_big_int b < 0 then minus_big_int q else q)".
Extract Constant Z.rem => "Big_int_Z.(fun a b -> let r = mod_big_int (abs_big_int a) (abs_big_int b) in
  if sign_big_int a < 0 then minus_big_int r else r)".
Extract Constant Z.pow => "Big_int_Z.(fun a b -> if sign_big_int b < 0 then zero_big_int else power_big_int_positive_big_int a b)".
Extract Constant Pos.eqb => "Big_int_Z.eq_big_int".
Extract Constant Z.ltb => "Big_int_Z.lt_big_int".
Extract Constant Z.leb => "Big_int_Z.le_big_int".

Extraction "../ocaml/qbe/model.ml" Qbe.run Qbe.step Qbe.run_state Qbe.init_state Qbe.mk_genv
  QbeWf.wf_module QbeWf.wf_module_list QbeWf.data_info QbeWf.type_info Qbe.data_size.
