(* regenerated from decl.c of the snapshot by gen/c10_tables.py on every run.  DO NOT EDIT. *)
From Coq Require Import String List NArith.
Import ListNotations.
Open Scope string_scope.
Open Scope N_scope.

(* enum typespec *)
Definition spec_bits : list (string * N) := [("SPECNONE", 0); ("SPECVOID", 2); ("SPECCHAR", 4); ("SPECBOOL", 8); ("SPECINT", 16); ("SPECFLOAT", 32); ("SPECDOUBLE", 64); ("SPECSHORT", 128); ("SPECLONG", 256); ("SPECLONG2", 512); ("SPECLONGLONG", 768); ("SPECSIGNED", 1024); ("SPECUNSIGNED", 2048); ("SPECCOMPLEX", 4096)].
(* switch ((int)ts) of declspecs: accepted value of ts -> type object assigned ("" = keep t) *)
Definition typespec_switch : list (N * string) := [
  (0, "");
  (4, "typechar");
  (1028, "typeschar");
  (2052, "typeuchar");
  (128, "typeshort");
  (144, "typeshort");
  (1152, "typeshort");
  (1168, "typeshort");
  (2176, "typeushort");
  (2192, "typeushort");
  (16, "typeint");
  (1024, "typeint");
  (1040, "typeint");
  (2048, "typeuint");
  (2064, "typeuint");
  (256, "typelong");
  (272, "typelong");
  (1280, "typelong");
  (1296, "typelong");
  (2304, "typeulong");
  (2320, "typeulong");
  (768, "typellong");
  (784, "typellong");
  (1792, "typellong");
  (1808, "typellong");
  (2816, "typeullong");
  (2832, "typeullong");
  (32, "typefloat");
  (64, "typedouble");
  (320, "typeldouble")].
(* enum storageclass *)
Definition sc_bits : list (string * N) := [("SCNONE", 0); ("SCTYPEDEF", 2); ("SCEXTERN", 4); ("SCSTATIC", 8); ("SCAUTO", 16); ("SCREGISTER", 32); ("SCTHREADLOCAL", 64)].
(* storageclass(): token -> new *)
Definition sc_new : list (string * N) := [("TAUTO", 16); ("TEXTERN", 4); ("TREGISTER", 32); ("TSTATIC", 8); ("TTHREAD_LOCAL", 64); ("TTYPEDEF", 2)].
(* storageclass(): switch ( *sc ): value -> allowed mask (32-bit), None = default *)
Definition sc_allowed : list (option N * N) := [(Some 0, 4294967295); (Some 64, 12); (Some 8, 64); (Some 4, 64); (None, 0)].
