(* C17/C18 - vocabulary shared by the model of driver.c (Model/Driver.v, Model/DriverProc.v) and by the
   specification taken from cproc(1) (Spec/DriverSpec.v).  Definitions only, no proofs. *)
From Coq Require Import List String Ascii NArith ZArith Bool Arith.
Import ListNotations.
Open Scope string_scope.

(* ------------------------------------------------------------------ C strings (no embedded NUL) *)
Definition NUL : ascii := "000"%char.

(* s[n] for n <= strlen s (s[strlen s] is the terminator) *)
Definition cidx (s : string) (n : nat) : ascii :=
  match String.get n s with Some c => c | None => NUL end.

(* s[n] is the terminator (n <= strlen s is guaranteed where the model uses it) *)
Definition at_end (s : string) (n : nat) : bool :=
  match String.get n s with Some _ => false | None => true end.
(* s[n] == c for a character c other than the terminator *)
Definition at_is (s : string) (n : nat) (c : ascii) : bool :=
  match String.get n s with Some d => Ascii.eqb d c | None => false end.

Fixpoint drop (n : nat) (s : string) : string :=
  match n, s with
  | 0, _ => s
  | S n', String _ t => drop n' t
  | S _, EmptyString => EmptyString
  end.

Fixpoint take (n : nat) (s : string) : string :=
  match n, s with
  | S n', String c t => String c (take n' t)
  | _, _ => EmptyString
  end.

(* strrchr: index of the last occurrence *)
Fixpoint strrchr (s : string) (c : ascii) : option nat :=
  match s with
  | EmptyString => None
  | String d t =>
      match strrchr t c with
      | Some i => Some (S i)
      | None => if Ascii.eqb d c then Some 0 else None
      end
  end.

(* strchr *)
Fixpoint strchr (s : string) (c : ascii) : option nat :=
  match s with
  | EmptyString => None
  | String d t => if Ascii.eqb d c then Some 0 else option_map S (strchr t c)
  end.

Definition hasprefix (s pfx : string) : bool := String.prefix pfx s.

(* the pieces between commas; "" has one (empty) piece *)
Fixpoint split_comma (s : string) : list string :=
  match s with
  | EmptyString => [EmptyString]
  | String c t =>
      if Ascii.eqb c ","%char then EmptyString :: split_comma t
      else match split_comma t with
           | h :: r => String c h :: r
           | [] => [String c EmptyString]
           end
  end.

(* ------------------------------------------------------------------ driver vocabulary *)
Inductive filetype := NONE | ASM | ASMPP | C | CHDR | CPPOUT | OBJ | QBE.
Inductive stage := PREPROCESS | COMPILE | CODEGEN | ASSEMBLE | LINK.

Definition filetype_eqb (a b : filetype) : bool :=
  match a, b with
  | NONE, NONE | ASM, ASM | ASMPP, ASMPP | C, C | CHDR, CHDR | CPPOUT, CPPOUT | OBJ, OBJ | QBE, QBE => true
  | _, _ => false
  end.

Definition stage_idx (s : stage) : nat :=
  match s with PREPROCESS => 0 | COMPILE => 1 | CODEGEN => 2 | ASSEMBLE => 3 | LINK => 4 end.
Definition stage_eqb (a b : stage) : bool := Nat.eqb (stage_idx a) (stage_idx b).
Definition all_stages : list stage := [PREPROCESS; COMPILE; CODEGEN; ASSEMBLE; LINK].

(* A word of a tool's argument vector: a literal string or the k-th temporary object
   (/tmp/cproc-XXXXXX, k counts mkstemp calls from 0). *)
Inductive word := Lit (s : string) | Temp (k : nat).

Inductive dest := DStdout | DFile (w : word).

(* One pipeline: the argument vector of every stage that is started, in pipeline order; the first one reads
   the input (named in its argv, or the driver's standard input), every other one reads its predecessor's
   standard output, the last one writes [p_dest]. *)
Record pipeline := { p_cmds : list (stage * list word); p_dest : dest }.

Inductive umsg :=
| UPlain                 (* usage(NULL) *)
| UStdinNeedsX           (* "reading from standard input requires -x" *)
| UUnknownLang (s : string)
| UUnknownOpt (s : string)
| UObjStdout             (* "cannot write object to stdout" *)
| UMultiOutput.          (* "cannot specify -o with multiple input files without linking" *)

Inductive outcome :=
| Usage (m : umsg)       (* exit status 2, nothing was started *)
| Fatal                  (* unsupported target: exit status 1, nothing was started *)
| Undefined              (* the C code reads outside argv / outside a string: no defined behaviour *)
| OutOfFuel              (* model artefact; excluded by the theorems *)
| Run (verbose : bool) (pipes : list pipeline) (link : option (list word)).

Record config := {
  target : string;
  startfiles : list string;
  endfiles : list string;
  preprocesscmd : list string;
  compilecmd : list string;        (* [ "<dir of the executable>/cproc-qbe" ] (compilecommand) *)
  codegencmd : list string;
  assemblecmd : list string;
  linkcmd : list string }.

Definition lits (l : list string) : list word := map Lit l.
