(* C07 - bit-level view of an object's image, shared by the specification and the models' meaning functions.
   An object of `size` bytes is ONE number: bit b of the object (byte b / 8, bit b mod 8 of that byte,
   little-endian targets) is bit b of the number.  Definitions only. *)
From Coq Require Import NArith.
Local Open Scope N_scope.

(* replace the `width` bits at bit position `pos` of x by the low `width` bits of v *)
Definition setbits (x pos width v : N) : N :=
  N.lor (N.ldiff x (N.shiftl (N.ones width) pos)) (N.shiftl (v mod 2 ^ width) pos).
Definition getbits (x pos width : N) : N := N.shiftr x pos mod 2 ^ width.

(* what is not known at compile time: the address of each symbol, the bytes of each opaque (run-time) value *)
Record env := mkenv { symaddr : N -> N; opaque : N -> N }.
