(* C09 - shared vocabulary of the linkage model (Model/Linkage.v) and of the C11 specification
   (Spec/LinkSpec.v): declaration histories of ONE identifier and the "nm view" of a unit.

   A history is a list of items.  The identifier is always spelled the same way; every object
   declaration has type int, every function declaration type int(void), so the only type conflict
   that can arise is object-versus-function.

     IOpen    at file scope: the start of a wrapper function definition `void wN(void) {`
              (its parameter scope and its body block are opened; the identifier is never a parameter);
              inside a function: a nested block `{`
     IClose   `}` (closing the body block also closes the wrapper function)
     IDecl d  a declaration / definition of the identifier in the current scope
     IUse     an expression statement that refers to the identifier (load of an object, call of a function)
     IBump    something else that takes a number from the compiler's counter of no-linkage globals
              (a string literal, a block-scope static of another identifier, ...)            *)
From Coq Require Import List NArith Bool.
Import ListNotations.

Inductive kind := KObj | KFunc.

(* storage-class specifiers of an object declaration (the combinations storageclass() lets through) *)
Inductive osc := OSnone | OSstatic | OSextern | OSthread | OSstatic_thread | OSextern_thread.
(* storage-class specifiers of a function declaration *)
Inductive fsc := FSnone | FSstatic | FSextern.

Inductive dspec :=
| DObj (sc : osc) (asm : option N) (init : bool)                (* [sc] int x [__asm__("L")] [= 1]; *)
| DFunc (sc : fsc) (isinl : bool) (asm : option N) (body : bool). (* [sc] [inline] int x(void) [__asm__("L")] ; or { return 0; } *)

Inductive item := IOpen | IClose | IDecl (d : dspec) | IUse | IBump.

Definition osc_static sc := match sc with OSstatic | OSstatic_thread => true | _ => false end.
Definition osc_extern sc := match sc with OSextern | OSextern_thread => true | _ => false end.
Definition osc_thread sc := match sc with OSthread | OSstatic_thread | OSextern_thread => true | _ => false end.
Definition osc_thread_only sc := match sc with OSthread => true | _ => false end.
Definition fsc_static sc := match sc with FSstatic => true | _ => false end.
Definition fsc_extern sc := match sc with FSextern => true | _ => false end.

Definition kind_eqb a b := match a, b with KObj, KObj | KFunc, KFunc => true | _, _ => false end.

Definition optN_eqb (a b : option N) : bool :=
  match a, b with
  | None, None => true
  | Some x, Some y => N.eqb x y
  | _, _ => false
  end.

(* ---- the nm view of what the unit says about the identifier ---- *)
Inductive symname := Plain | Label (a : N).          (* the identifier itself, or an assembler label used verbatim *)
Definition symname_of (asm : option N) : symname := match asm with None => Plain | Some a => Label a end.

Record ldef := { ld_name : symname; ld_kind : kind; ld_thread : bool; ld_export : bool }.

Inductive sref :=
| RLinked (n : symname) (thread : bool)   (* reference to the named symbol *)
| RAnon (thread : bool)                   (* reference to a unit-local anonymous symbol ($.Lname.N) *)
| RAuto.                                  (* automatic object: no symbol involved *)

Record symtab := {
  st_linked : list ldef;   (* definitions of the named symbol, in emission order (C11: at most one) *)
  st_anon : list bool;     (* one entry (thread-local?) per block-scope static object defined *)
  st_refs : list sref      (* one entry per IUse *)
}.

(* why the specification says nothing about a history *)
Inductive reason :=
| UBothLinkages           (* 6.2.2p7: internal and external linkage in one unit: undefined behaviour *)
| UKindAcrossScopes       (* 6.2.7p2: object/function mismatch between declarations in different scopes *)
| UExternalRedefinition   (* 6.9p5: two external definitions of an identifier with external linkage *)
| UInlineNeverDefined     (* 6.7.4p7: external-linkage function declared inline but not defined in the unit *)
| XThreadMismatch         (* 6.7.1p3 constraint, _Thread_local in one declaration only: the compiler has no check (D32) *)
| XInternalUsedUndefined  (* 6.9p3 constraint, internal-linkage function used but never defined: no check *)
| XAsmLabel.              (* assembler labels are an extension; conflicting/dangling labels, labels on no-linkage objects *)

Inductive outcome :=
| Accept (t : symtab)
| Reject                  (* a diagnostic is required (constraint violation / syntax) and the unit is refused *)
| Unspec (r : reason)     (* specification only *)
| Crash                   (* model only: the compiler dereferences a null pointer *)
| Ill.                    (* the history is not a unit (unbalanced braces, use at file scope) *)

Definition st_defines (t : symtab) : bool := match st_linked t with [] => false | _ => true end.
Definition st_exported (t : symtab) : bool := existsb ld_export (st_linked t).
Definition is_linked_ref (r : sref) := match r with RLinked _ _ => true | _ => false end.
Definition st_undefined_ref (t : symtab) : bool := negb (st_defines t) && existsb is_linked_ref (st_refs t).

(* first declaration visible from a scope chain (innermost frame first) *)
Fixpoint lookup {A} (frames : list (option A)) : option A :=
  match frames with
  | [] => None
  | Some d :: _ => Some d
  | None :: r => lookup r
  end.

Definition is_nil {A} (l : list A) : bool := match l with [] => true | _ => false end.
