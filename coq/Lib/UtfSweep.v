(* Exhaustive checking of a decidable predicate on an initial segment of N by computation
   (used for the finite domains of C14: code points below 0x110000, bytes below 256). *)
From Coq Require Import NArith List Bool Lia.
Import ListNotations.
Open Scope N_scope.

Definition range (n : nat) : list N := map N.of_nat (seq 0 n).

Lemma in_range n x : x < N.of_nat n -> In x (range n).
Proof.
  intros H. unfold range. apply in_map_iff. exists (N.to_nat x). split.
  - apply N2Nat.id.
  - apply in_seq. lia.
Qed.

Definition forall_below (n : nat) (f : N -> bool) : bool := forallb f (range n).

Lemma forall_below_spec n f : forall_below n f = true -> forall x, x < N.of_nat n -> f x = true.
Proof.
  unfold forall_below. intros H x Hx. rewrite forallb_forall in H. apply H, in_range, Hx.
Qed.

(* x = h * lo + l with h < hi, l < lo: keeps every list short; the inner range and the
   factor are computed once *)
Definition forall2_below (hi lo : nat) (f : N -> bool) : bool :=
  let L := N.of_nat lo in
  let rl := range lo in
  forallb (fun h => let base := h * L in forallb (fun l => f (base + l)) rl) (range hi).

Lemma forall2_below_spec hi lo f :
  (0 < lo)%nat -> forall2_below hi lo f = true ->
  forall x, x < N.of_nat hi * N.of_nat lo -> f x = true.
Proof.
  intros Hlo H x Hx. unfold forall2_below in H. cbv zeta in H.
  assert (L : N.of_nat lo <> 0) by lia.
  pose proof (N.div_mod x (N.of_nat lo) L) as E.
  pose proof (N.mod_lt x (N.of_nat lo) L) as Hm.
  assert (Hd : x / N.of_nat lo < N.of_nat hi).
  { apply N.div_lt_upper_bound; [exact L|]. lia. }
  rewrite forallb_forall in H. specialize (H _ (in_range _ _ Hd)).
  rewrite forallb_forall in H. specialize (H _ (in_range _ _ Hm)).
  replace (x / N.of_nat lo * N.of_nat lo + x mod N.of_nat lo) with x in H by lia. exact H.
Qed.

Fixpoint list_eqb (a b : list N) : bool :=
  match a, b with
  | [], [] => true
  | x :: a', y :: b' => (x =? y) && list_eqb a' b'
  | _, _ => false
  end.

Lemma list_eqb_eq a b : list_eqb a b = true <-> a = b.
Proof.
  revert b; induction a as [|x a IH]; intros [|y b]; simpl; split; try congruence; try discriminate.
  - rewrite andb_true_iff, N.eqb_eq, IH. intros [-> ->]. reflexivity.
  - intros H. inversion H; subst. rewrite andb_true_iff, N.eqb_eq, IH. auto.
Qed.
