(* Lib/Wrap.v - two's-complement wrap-around on Z: x mod 2^n, sign extension, masks.
   The key lemma is [xor_sub_sext], the `(x ^ m) - m` idiom of eval.c:cast(). *)
From Coq Require Import ZArith Lia Bool.
Local Open Scope Z_scope.

Definition wrap (n x : Z) : Z := x mod 2 ^ n.
Definition sext (n x : Z) : Z :=
  let w := x mod 2 ^ n in if w <? 2 ^ (n - 1) then w else w - 2 ^ n.
Definition mask (n : Z) : Z := 2 ^ n - 1.

Lemma pow2_pos n : 0 <= n -> 0 < 2 ^ n.
Proof. intros; apply Z.pow_pos_nonneg; lia. Qed.

Lemma pow2_half n : 0 < n -> 2 ^ n = 2 * 2 ^ (n - 1).
Proof. intros. replace n with (Z.succ (n - 1)) at 1 by lia. rewrite Z.pow_succ_r by lia. reflexivity. Qed.

Lemma pow2_le_mono a b : 0 <= a <= b -> 2 ^ a <= 2 ^ b.
Proof. intros. apply Z.pow_le_mono_r; lia. Qed.

Lemma pow2_split a b : 0 <= a <= b -> 2 ^ b = 2 ^ a * 2 ^ (b - a).
Proof. intros. rewrite <- Z.pow_add_r by lia. f_equal. lia. Qed.

Lemma mask_ones n : mask n = Z.ones n.
Proof. unfold mask. rewrite Z.ones_equiv. lia. Qed.

Lemma land_mask n x : 0 <= n -> Z.land x (2 ^ n - 1) = x mod 2 ^ n.
Proof. intros. fold (mask n). rewrite mask_ones. apply Z.land_ones; assumption. Qed.

Lemma wrap_range n x : 0 <= n -> 0 <= wrap n x < 2 ^ n.
Proof. intros. unfold wrap. apply Z.mod_pos_bound. apply pow2_pos; assumption. Qed.

Lemma wrap_id n x : 0 <= x < 2 ^ n -> wrap n x = x.
Proof. intros. unfold wrap. apply Z.mod_small; assumption. Qed.

Lemma wrap_wrap n x : 0 <= n -> wrap n (wrap n x) = wrap n x.
Proof. intros. unfold wrap. apply Z.mod_mod. pose proof (pow2_pos n); lia. Qed.

Lemma wrap_wrap_le n m x : 0 <= n <= m -> wrap n (wrap m x) = wrap n x.
Proof.
  intros. unfold wrap. rewrite (pow2_split n m) by lia.
  pose proof (pow2_pos n). pose proof (pow2_pos (m - n)).
  rewrite Z.rem_mul_r by lia.
  rewrite (Z.mul_comm (2 ^ n) ((x / 2 ^ n) mod 2 ^ (m - n))), Z.mod_add by lia. apply Z.mod_mod. lia.
Qed.

Lemma wrap_eq_iff n x y : 0 <= n -> (wrap n x = wrap n y <-> exists k, x = y + k * 2 ^ n).
Proof.
  intros Hn. unfold wrap. pose proof (pow2_pos n Hn). split.
  - intros E. exists (x / 2 ^ n - y / 2 ^ n).
    pose proof (Z.div_mod x (2 ^ n)). pose proof (Z.div_mod y (2 ^ n)). nia.
  - intros [k ->]. apply Z.mod_add. lia.
Qed.

Lemma wrap_add n x k : 0 <= n -> wrap n (x + k * 2 ^ n) = wrap n x.
Proof. intros. unfold wrap. apply Z.mod_add. pose proof (pow2_pos n); lia. Qed.

Lemma sext_range n x : 0 < n -> - 2 ^ (n - 1) <= sext n x < 2 ^ (n - 1).
Proof.
  intros Hn. unfold sext. pose proof (pow2_half n Hn) as E. pose proof (pow2_pos (n - 1)).
  pose proof (Z.mod_pos_bound x (2 ^ n)). cbv zeta.
  remember (2 ^ (n - 1)) as h. remember (x mod 2 ^ n) as w. remember (2 ^ n) as p.
  destruct (Z.ltb_spec w h); lia.
Qed.

Lemma sext_id n x : 0 < n -> - 2 ^ (n - 1) <= x < 2 ^ (n - 1) -> sext n x = x.
Proof.
  intros Hn Hx. unfold sext. pose proof (pow2_half n Hn) as E. pose proof (pow2_pos (n - 1)).
  cbv zeta. remember (2 ^ (n - 1)) as h. remember (2 ^ n) as p.
  destruct (Z_lt_le_dec x 0).
  - replace (x mod p) with (x + p).
    + destruct (Z.ltb_spec (x + p) h); lia.
    + apply Z.mod_unique with (-1); lia.
  - rewrite Z.mod_small by lia. destruct (Z.ltb_spec x h); lia.
Qed.

Lemma sext_wrap n x : 0 < n -> wrap n (sext n x) = wrap n x.
Proof.
  intros Hn. unfold sext, wrap. cbv zeta. pose proof (pow2_pos n).
  destruct (Z.ltb_spec (x mod 2 ^ n) (2 ^ (n - 1))).
  - apply Z.mod_mod. lia.
  - replace (x mod 2 ^ n - 2 ^ n) with (x mod 2 ^ n + (-1) * 2 ^ n) by lia.
    rewrite Z.mod_add by lia. apply Z.mod_mod. lia.
Qed.

Lemma sext_of_wrap n x : 0 <= n -> sext n (wrap n x) = sext n x.
Proof.
  intros Hn. unfold sext, wrap. pose proof (pow2_pos n Hn).
  rewrite Z.mod_mod by lia. reflexivity.
Qed.

Lemma sext_congr n x y : 0 <= n -> wrap n x = wrap n y -> sext n x = sext n y.
Proof. intros Hn E. rewrite <- (sext_of_wrap n x), <- (sext_of_wrap n y), E by assumption. reflexivity. Qed.

Lemma sext_eq_mod n x : 0 < n -> exists k, sext n x = x + k * 2 ^ n.
Proof.
  intros Hn. pose proof (sext_wrap n x Hn) as E. apply wrap_eq_iff in E; [|lia]. exact E.
Qed.

(* a number below 2^m has bit m clear *)
Lemma land_pow2_small y m : 0 <= m -> 0 <= y < 2 ^ m -> Z.land y (2 ^ m) = 0.
Proof.
  intros Hm Hy. apply Z.bits_inj'. intros k Hk.
  rewrite Z.land_spec, Z.bits_0, Z.pow2_bits_eqb by assumption.
  destruct (Z.eqb_spec m k) as [<-|]; [|apply andb_false_r].
  rewrite andb_true_r. apply Z.testbit_false; [assumption|].
  rewrite Z.div_small by assumption. reflexivity.
Qed.

(* the cast() idiom:  ((x & (2^n - 1)) ^ 2^(n-1)) - 2^(n-1)  is the sign extension of the low n bits *)
Lemma xor_sub_sext n x : 0 < n ->
  Z.lxor (Z.land x (2 ^ n - 1)) (2 ^ (n - 1)) - 2 ^ (n - 1) = sext n x.
Proof.
  intros Hn. rewrite land_mask by lia. unfold sext. cbv zeta.
  pose proof (pow2_half n Hn) as E. pose proof (pow2_pos (n - 1)) as Hp.
  pose proof (Z.mod_pos_bound x (2 ^ n)) as Hw.
  assert (L : forall y, 0 <= y < 2 ^ (n - 1) -> Z.lxor y (2 ^ (n - 1)) = y + 2 ^ (n - 1)).
  { intros y Hy. symmetry. apply Z.add_nocarry_lxor. apply land_pow2_small; lia. }
  remember (x mod 2 ^ n) as w.
  destruct (Z.ltb_spec w (2 ^ (n - 1))) as [Hlt|Hge].
  - rewrite L by lia. lia.
  - assert (Ew : w = Z.lxor (w - 2 ^ (n - 1)) (2 ^ (n - 1))).
    { rewrite L; lia. }
    rewrite Ew at 1. rewrite Z.lxor_assoc, Z.lxor_nilpotent, Z.lxor_0_r. lia.
Qed.

(* -1ull >> (64 - k)  =  2^k - 1 *)
Lemma shiftr_ones_64 k : 0 <= k <= 64 -> Z.shiftr (2 ^ 64 - 1) (64 - k) = 2 ^ k - 1.
Proof.
  intros Hk. rewrite Z.shiftr_div_pow2 by lia.
  rewrite (pow2_split k 64) by lia.
  pose proof (pow2_pos k). pose proof (pow2_pos (64 - k)).
  symmetry. apply Z.div_unique with (2 ^ (64 - k) - 1); nia.
Qed.

(* shifts as multiplication / floor division *)
Lemma shiftl_mul x k : 0 <= k -> Z.shiftl x k = x * 2 ^ k.
Proof. intros. apply Z.shiftl_mul_pow2; assumption. Qed.
Lemma shiftr_div x k : 0 <= k -> Z.shiftr x k = x / 2 ^ k.
Proof. intros. apply Z.shiftr_div_pow2; assumption. Qed.

(* bitwise operations commute with wrap (low n bits) *)
Lemma wrap_land n x y : 0 <= n -> wrap n (Z.land x y) = Z.land (wrap n x) (wrap n y).
Proof.
  intros. unfold wrap. rewrite <- !Z.land_ones by assumption.
  apply Z.bits_inj'. intros k Hk. rewrite !Z.land_spec.
  destruct (Z.testbit x k), (Z.testbit y k), (Z.testbit (Z.ones n) k); reflexivity.
Qed.
Lemma wrap_lor n x y : 0 <= n -> wrap n (Z.lor x y) = Z.lor (wrap n x) (wrap n y).
Proof.
  intros. unfold wrap. rewrite <- !Z.land_ones by assumption.
  apply Z.bits_inj'. intros k Hk. rewrite !Z.land_spec, !Z.lor_spec, !Z.land_spec.
  destruct (Z.testbit x k), (Z.testbit y k), (Z.testbit (Z.ones n) k); reflexivity.
Qed.
Lemma wrap_lxor n x y : 0 <= n -> wrap n (Z.lxor x y) = Z.lxor (wrap n x) (wrap n y).
Proof.
  intros. unfold wrap. rewrite <- !Z.land_ones by assumption.
  apply Z.bits_inj'. intros k Hk. rewrite !Z.land_spec, !Z.lxor_spec, !Z.land_spec.
  destruct (Z.testbit x k), (Z.testbit y k), (Z.testbit (Z.ones n) k); reflexivity.
Qed.

(* sign extension commutes with bitwise operations: sext n x and x agree on bits < n and
   sext n x repeats bit n-1 above; stated through wrap-equality, which is all the clients need *)
Lemma wrap_sext_land n x y : 0 < n -> wrap n (Z.land (sext n x) (sext n y)) = wrap n (Z.land x y).
Proof. intros. rewrite !wrap_land, !sext_wrap by lia. reflexivity. Qed.
Lemma wrap_sext_lor n x y : 0 < n -> wrap n (Z.lor (sext n x) (sext n y)) = wrap n (Z.lor x y).
Proof. intros. rewrite !wrap_lor, !sext_wrap by lia. reflexivity. Qed.
Lemma wrap_sext_lxor n x y : 0 < n -> wrap n (Z.lxor (sext n x) (sext n y)) = wrap n (Z.lxor x y).
Proof. intros. rewrite !wrap_lxor, !sext_wrap by lia. reflexivity. Qed.

(* bitwise operations preserve the two's-complement range *)
Lemma bits_range_iff m x : 0 <= m ->
  (- 2 ^ m <= x < 2 ^ m <-> forall k, m <= k -> Z.testbit x k = Z.testbit x m).
Proof.
  intros Hm. pose proof (pow2_pos m Hm). split.
  - intros Hx k Hk. destruct (Z_lt_le_dec x 0).
    + (* negative: all bits >= m are 1 *)
      assert (A : forall j, m <= j -> Z.testbit x j = true).
      { intros j Hj. rewrite <- (Z.lnot_involutive x), Z.lnot_spec by lia.
        assert (0 <= Z.lnot x < 2 ^ m) by (unfold Z.lnot; lia).
        destruct (Z.eq_dec (Z.lnot x) 0) as [->|]; [rewrite Z.bits_0; reflexivity|].
        rewrite Z.bits_above_log2; [reflexivity|lia|].
        apply Z.lt_le_trans with m; [|assumption]. apply Z.log2_lt_pow2; lia. }
      rewrite !A by lia. reflexivity.
    + assert (A : forall j, m <= j -> Z.testbit x j = false).
      { intros j Hj. destruct (Z.eq_dec x 0) as [->|]; [apply Z.bits_0|].
        apply Z.bits_above_log2; [lia|].
        apply Z.lt_le_trans with m; [|assumption]. apply Z.log2_lt_pow2; lia. }
      rewrite !A by lia. reflexivity.
  - intros Hb. destruct (Z.testbit x m) eqn:Em.
    + (* x is negative with lnot x < 2^m *)
      assert (N : x < 0).
      { apply Z.bits_iff_neg_ex. exists m. intros j Hj. apply Hb. lia. }
      assert (0 <= Z.lnot x) by (unfold Z.lnot; lia).
      assert (Z.lnot x < 2 ^ m).
      { destruct (Z.eq_dec (Z.lnot x) 0) as [->|]; [lia|].
        apply Z.log2_lt_pow2; [lia|].
        destruct (Z_lt_le_dec (Z.log2 (Z.lnot x)) m) as [|Hge]; [assumption|exfalso].
        pose proof (Z.bit_log2 (Z.lnot x) ltac:(lia)) as B.
        rewrite Z.lnot_spec in B by (apply Z.log2_nonneg).
        rewrite Hb in B by lia. discriminate. }
      unfold Z.lnot in *. lia.
    + assert (N : 0 <= x).
      { apply Z.bits_iff_nonneg_ex. exists m. intros j Hj. apply Hb. lia. }
      split; [lia|]. destruct (Z.eq_dec x 0) as [->|]; [lia|].
      apply Z.log2_lt_pow2; [lia|].
      destruct (Z_lt_le_dec (Z.log2 x) m) as [|Hge]; [assumption|exfalso].
      pose proof (Z.bit_log2 x ltac:(lia)) as B. rewrite Hb in B by lia. discriminate.
Qed.

Lemma land_range m x y : 0 <= m -> - 2 ^ m <= x < 2 ^ m -> - 2 ^ m <= y < 2 ^ m ->
  - 2 ^ m <= Z.land x y < 2 ^ m.
Proof.
  intros Hm Hx Hy. apply bits_range_iff; [assumption|]. intros k Hk.
  rewrite !Z.land_spec. rewrite (proj1 (bits_range_iff m x Hm) Hx k Hk), (proj1 (bits_range_iff m y Hm) Hy k Hk).
  reflexivity.
Qed.
Lemma lor_range m x y : 0 <= m -> - 2 ^ m <= x < 2 ^ m -> - 2 ^ m <= y < 2 ^ m ->
  - 2 ^ m <= Z.lor x y < 2 ^ m.
Proof.
  intros Hm Hx Hy. apply bits_range_iff; [assumption|]. intros k Hk.
  rewrite !Z.lor_spec. rewrite (proj1 (bits_range_iff m x Hm) Hx k Hk), (proj1 (bits_range_iff m y Hm) Hy k Hk).
  reflexivity.
Qed.
Lemma lxor_range m x y : 0 <= m -> - 2 ^ m <= x < 2 ^ m -> - 2 ^ m <= y < 2 ^ m ->
  - 2 ^ m <= Z.lxor x y < 2 ^ m.
Proof.
  intros Hm Hx Hy. apply bits_range_iff; [assumption|]. intros k Hk.
  rewrite !Z.lxor_spec. rewrite (proj1 (bits_range_iff m x Hm) Hx k Hk), (proj1 (bits_range_iff m y Hm) Hy k Hk).
  reflexivity.
Qed.

Lemma land_nonneg_range n x y : 0 <= n -> 0 <= x < 2 ^ n -> 0 <= y < 2 ^ n -> 0 <= Z.land x y < 2 ^ n.
Proof.
  intros. split; [apply Z.land_nonneg; lia|].
  pose proof (land_range n x y ltac:(lia) ltac:(lia) ltac:(lia)). lia.
Qed.
Lemma lor_nonneg_range n x y : 0 <= n -> 0 <= x < 2 ^ n -> 0 <= y < 2 ^ n -> 0 <= Z.lor x y < 2 ^ n.
Proof.
  intros. split; [apply Z.lor_nonneg; lia|].
  pose proof (lor_range n x y ltac:(lia) ltac:(lia) ltac:(lia)). lia.
Qed.
Lemma lxor_nonneg_range n x y : 0 <= n -> 0 <= x < 2 ^ n -> 0 <= y < 2 ^ n -> 0 <= Z.lxor x y < 2 ^ n.
Proof.
  intros. split; [apply Z.lxor_nonneg; lia|].
  pose proof (lxor_range n x y ltac:(lia) ltac:(lia) ltac:(lia)). lia.
Qed.
