(* C07 - executable model of qbe.c: funcinit (automatic objects) with zero() for the gaps and funcstore's
   bit-field read-modify-write.  NO proofs in this file.

   funcinit emits, for an `alloc`ed object at base address %b, a straight-line sequence of
     storeX 0, %b+off                                  (zero(), Model/Zero.v)
     storeX v, %b+off                                  (funcstore of a scalar; string elements one by one)
     shl/and/load/and/or/store on the storage unit     (funcstore of a bit-field)
     loadX/storeX pairs                                (funccopy of a struct/union/array value)
   which is the list of `aop`s below; `exec` gives them their meaning on the object's bytes. *)
From Coq Require Import List NArith Bool.
From Cproc Require Import Lib.InitBits Model.Init Model.Zero.
Import ListNotations.
Local Open Scope N_scope.

Inductive aval := VConst (u : N) | VFlt (sz bits : N) | VAddr (sym off : N) | VOpaque (id : N).

Inductive aop :=
| AZero (off w : N)                                  (* zero(): store of w zero bytes at base + off *)
| AStore (off size : N) (v : aval)                   (* funcstore, scalar *)
| ABits (off size before aft : N) (v : aval)         (* funcstore, bit-field of a `size`-byte unit *)
| ACopy (off size align : N) (id : N).               (* funccopy(dst = base + off, src = value `id`, size, align) *)

Inductive ares := AOk (ops : list aop) | AZeroFuel | ABadStore (w : N).

(* zero(func, addr, align, offset, end) appended to acc *)
Definition zero_ops (align offset e : N) (acc : list aop) : ares :=
  match zero (N.to_nat (e - offset) + 8) align offset e with
  | ZDone st _ =>
    match find (fun s => negb (store_index_ok (snd s))) st with
    | Some s => ABadStore (snd s)
    | None => AOk (acc ++ map (fun s => AZero (fst s) (snd s)) st)
    end
  | ZOutOfFuel => AZeroFuel
  end.

Definition aval_of (e : expr) : aval :=
  match e with
  | EConst false _ u => VConst u
  | EConst true sz u => VFlt sz u
  | EAddr sym off => VAddr sym off
  | EString _ _ => VConst 0
  | EOpaque _ _ _ id => VOpaque id
  end.

(* for (i = 0; i < string.size && i * w < end - start; ++i) funcstore(base type, start + i * w, data[i]) *)
Fixpoint string_stores (w : N) (data : list N) (start len : N) (i : N) : list aop * N :=
  match data with
  | [] => ([], i)
  | c :: r =>
    if w64 (i * w) <? len then
      let '(ops, j) := string_stores w r start len (i + 1) in
      (AStore (w64 (start + w64 (i * w))) w (VConst c) :: ops, j)
    else ([], i)
  end.

(* the store funcinit emits for a non-string entry: funcstore(init->expr->type, dst, funcexpr(init->expr)) *)
Definition entry_op (i : init) : aop :=
  let before := bf_before (i_bits i) in
  let aft := bf_after (i_bits i) in
  let isbf := negb (before =? 0) || negb (aft =? 0) in
  match i_expr i with
  | EOpaque agg sz al id =>
    if agg then ACopy (i_start i) sz al id
    else if isbf then ABits (i_start i) sz before aft (VOpaque id)
    else AStore (i_start i) sz (VOpaque id)
  | e =>
    let size := match e with EConst _ sz _ => sz | EAddr _ _ => 8 | _ => 0 end in
    if isbf then ABits (i_start i) size before aft (aval_of e) else AStore (i_start i) size (aval_of e)
  end.

(* the loop of funcinit: state (offset, max, ops) *)
Fixpoint funcinit_loop (align : N) (l : list init) (offset mx : N) (acc : list aop) : ares * N :=
  match l with
  | [] => (AOk acc, mx)
  | i :: rest =>
    match zero_ops align offset (i_start i) acc with
    | AOk acc1 =>
      match i_expr i with
      | EString w data =>
        let '(ops, n) := string_stores w data (i_start i) (sub64 (i_end i) (i_start i)) 0 in
        let offset' := w64 (i_start i + w64 (n * w)) in
        funcinit_loop align rest offset' (if mx <? offset' then offset' else mx) (acc1 ++ ops)
      | _ =>
        let isbf := negb (bf_before (i_bits i) =? 0) || negb (bf_after (i_bits i) =? 0) in
        let r := if (offset <? i_end i) && isbf then zero_ops align offset (i_end i) acc1 else AOk acc1 in
        match r with
        | AOk acc2 =>
          let offset' := i_end i in
          funcinit_loop align rest offset' (if mx <? offset' then offset' else mx) (acc2 ++ [entry_op i])
        | bad => (bad, mx)
        end
      end
    | bad => (bad, mx)
    end
  end.

(* funcinit(func, d, init, hasinit = true) for an object of the given size and type alignment *)
Definition funcinit (size align : N) (l : list init) : ares :=
  match funcinit_loop align l 0 0 [] with
  | (AOk acc, mx) => zero_ops align mx size acc
  | (bad, _) => bad
  end.

(* ---------------------------------------------------------------- meaning of the operations *)
(* memory of the object = one number (Lib/InitBits.v): bit b of the object is bit b of the number *)
Definition aval_num (en : env) (v : aval) : N :=
  match v with
  | VConst u => u
  | VFlt _ bits => bits
  | VAddr sym off => w64 (symaddr en sym + off)
  | VOpaque id => opaque en id
  end.

(* funcstore's bit-field sequence on a unit of `size` bytes (class w for size <= 4, else l):
     mask = 0xffffffffffffffffu >> (64 - size*8 + before + after) << before;
     v = shl v, before;  v = and v, mask;  v = or v, (and (load unit), ~mask);  store v *)
Definition rmw (size before aft : N) (old v : N) : N :=
  let cls := if size <=? 4 then 4294967296 else M64 in
  let mask := w64 (N.shiftl (N.shiftr (M64 - 1) (w64 (sub64 64 (w64 (size * 8)) + (before + aft)))) before) in
  let v1 := (v * 2 ^ before) mod cls in
  let v2 := N.land v1 (mask mod cls) in
  N.lor v2 (N.land (old mod cls) (N.ldiff (cls - 1) mask)).

(* funccopy: do { copy a bytes; off += a; } while (off < size), a = align if 1, 2 or 4, else 8 *)
Definition copy_len (size align : N) : N :=
  let a := if (align =? 1) || (align =? 2) || (align =? 4) then align else 8 in
  if size =? 0 then a else (size + a - 1) / a * a.

Definition exec (en : env) (mem : N) (op : aop) : N :=
  match op with
  | AZero off w => setbits mem (8 * off) (8 * w) 0
  | AStore off size v => setbits mem (8 * off) (8 * size) (aval_num en v)
  | ABits off size before aft v =>
    setbits mem (8 * off) (8 * size) (rmw size before aft (getbits mem (8 * off) (8 * size)) (aval_num en v))
  | ACopy off size align id => setbits mem (8 * off) (8 * copy_len size align) (opaque en id)
  end.

Definition exec_all (en : env) (mem : N) (ops : list aop) : N := fold_left (exec en) ops mem.
