(* Builder.v - the block-list state machine of qbe.c:
     mkblock, functemp, mkinst/funcinst (with the `dead` block), funclabel, funcjmp, funcjnz, funcret,
     funchlt, the phi-result temporaries taken in funcexpr, and emitfunc's implicit `ret` + list walk.
   Faithful points: labels come from one counter (mkblock's static id), temporaries from f->lastid,
   funclabel only writes f->end->next and f->end (so labelling a block twice makes the list cyclic or
   drops blocks), the jump setters are no-ops on a closed block, funcinst opens a `dead` block when the
   current block is closed.  Ghost data (not in the C code): [s_placed], the blocks in the order they were
   passed to funclabel, and [i_late], whether the block already had a jump when the instruction was added.
   Not modelled: instruction operands, funcalloc's temporary redirection of f->end to the start block.
   No proofs in this file. *)
From Coq Require Import NArith PArith List Bool FMapPositive.
Import ListNotations.

Module PM := PositiveMap.

Inductive bjump := JNone | JJmp (l : positive) | JJnz (l1 l2 : positive) | JRet | JHlt.
Definition closed (j : bjump) : bool := match j with JNone => false | _ => true end.

Record binst := { i_res : option positive; i_late : bool }.
Record bblock := { k_insts : list binst; k_jump : bjump; k_phi : option positive }.
Definition empty_block : bblock := {| k_insts := []; k_jump := JNone; k_phi := None |}.

Record bstate := {
  s_blocks : PM.t bblock;        (* contents by label id *)
  s_next : PM.t positive;        (* b->next; absent = NULL *)
  s_start : positive;
  s_end : positive;
  s_lastid : N;                  (* f->lastid *)
  s_labelid : N;                 (* mkblock's static counter *)
  s_nparams : N;
  s_placed : list positive       (* ghost *)
}.

Definition getb (s : bstate) (b : positive) : bblock :=
  match PM.find b (s_blocks s) with Some k => k | None => empty_block end.

Definition set_block (s : bstate) (b : positive) (k : bblock) : bstate :=
  {| s_blocks := PM.add b k (s_blocks s); s_next := s_next s; s_start := s_start s; s_end := s_end s;
     s_lastid := s_lastid s; s_labelid := s_labelid s; s_nparams := s_nparams s; s_placed := s_placed s |}.

Definition mkblock (s : bstate) : bstate * positive :=
  let id := N.succ_pos (s_labelid s) in
  ({| s_blocks := PM.add id empty_block (s_blocks s); s_next := s_next s; s_start := s_start s; s_end := s_end s;
      s_lastid := s_lastid s; s_labelid := Npos id; s_nparams := s_nparams s; s_placed := s_placed s |}, id).

Definition funclabel (s : bstate) (b : positive) : bstate :=
  {| s_blocks := s_blocks s; s_next := PM.add (s_end s) b (s_next s); s_start := s_start s; s_end := b;
     s_lastid := s_lastid s; s_labelid := s_labelid s; s_nparams := s_nparams s; s_placed := s_placed s ++ [b] |}.

Definition functemp (s : bstate) : bstate * positive :=
  let t := N.succ_pos (s_lastid s) in
  ({| s_blocks := s_blocks s; s_next := s_next s; s_start := s_start s; s_end := s_end s;
      s_lastid := Npos t; s_labelid := s_labelid s; s_nparams := s_nparams s; s_placed := s_placed s |}, t).

(* the `dead` block of funcinst: opened when the current block already has a jump *)
Definition open_dead (s : bstate) : bstate :=
  if closed (k_jump (getb s (s_end s))) then funclabel (fst (mkblock s)) (snd (mkblock s)) else s.

(* mkinst + arrayaddptr: a fresh temporary when the instruction has a result, appended to the end block *)
Definition add_inst (s1 : bstate) (hasres late : bool) : bstate :=
  let sr : bstate * option positive := if hasres then (fst (functemp s1), Some (snd (functemp s1))) else (s1, None) in
  let s2 := fst sr in
  let k := getb s2 (s_end s2) in
  set_block s2 (s_end s2) {| k_insts := k_insts k ++ [{| i_res := snd sr; i_late := late |}]; k_jump := k_jump k; k_phi := k_phi k |}.

Definition funcinst (s : bstate) (hasres : bool) : bstate :=
  let s1 := open_dead s in
  add_inst s1 hasres (closed (k_jump (getb s1 (s_end s1)))).

Definition setjump (s : bstate) (j : bjump) : bstate :=
  let k := getb s (s_end s) in
  if closed (k_jump k) then s
  else set_block s (s_end s) {| k_insts := k_insts k; k_jump := j; k_phi := k_phi k |}.

Definition phitemp (s : bstate) (b : positive) : bstate :=
  let (s', t) := functemp s in
  let k := getb s' b in
  set_block s' b {| k_insts := k_insts k; k_jump := k_jump k; k_phi := Some t |}.

Inductive bop :=
| OMkblock
| OInst (hasres : bool)
| OLabel (b : positive)
| OJmp (l : positive)
| OJnz (l1 l2 : positive)
| ORet
| OHlt
| OPhi (b : positive).

Definition bstep (s : bstate) (o : bop) : bstate :=
  match o with
  | OMkblock => fst (mkblock s)
  | OInst h => funcinst s h
  | OLabel b => funclabel s b
  | OJmp l => setjump s (JJmp l)
  | OJnz a b => setjump s (JJnz a b)
  | ORet => setjump s JRet
  | OHlt => setjump s JHlt
  | OPhi b => phitemp s b
  end.

(* mkfunc: the start block, one temporary per parameter; [labelid0] is the value of mkblock's counter *)
Definition mkfunc (nparams labelid0 : N) : bstate :=
  let id := N.succ_pos labelid0 in
  {| s_blocks := PM.add id empty_block (PM.empty bblock); s_next := PM.empty positive; s_start := id; s_end := id;
     s_lastid := nparams; s_labelid := Npos id; s_nparams := nparams; s_placed := [id] |}.

Definition run_ops (nparams labelid0 : N) (ops : list bop) : bstate := fold_left bstep ops (mkfunc nparams labelid0).

Fixpoint walk (fuel : nat) (s : bstate) (b : positive) : option (list (positive * bblock)) :=
  match fuel with
  | O => None
  | S n => match PM.find b (s_next s) with
           | None => Some [(b, getb s b)]
           | Some b' => option_map (cons (b, getb s b)) (walk n s b') end
  end.

(* emitfunc: implicit ret on an open last block, then print the blocks from start following next;
   None = the walk did not reach NULL within the fuel (cyclic list) *)
Definition emitfunc (fuel : nat) (s : bstate) : option (list (positive * bblock)) :=
  let s' := setjump s JRet in walk fuel s' (s_start s').

Definition block_temps (k : bblock) : list positive :=
  match k_phi k with Some t => [t] | None => [] end
  ++ flat_map (fun i => match i_res i with Some t => [t] | None => [] end) (k_insts k).
