(* Model of the switch lowering in /repo/qbe.c: switchcase (conversion of the case constant to the
   promoted controlling type + treeinsert + duplicate diagnostic) and casesearch/funcswitch (the
   emitted comparison ladder).  No proofs here (Proofs/CaseSearchProofs.v).

   C (qbe.c)                                        model
   -----------------------------------------------  -------------------------------------------
   if (cases->type->size < sizeof(i)) {             convert size issigned i
     m = 1ull << cases->type->size * 8 - 1;           (all arithmetic in unsigned long long:
     i &= m | m - 1;                                   explicit mod 2^64)
     if (issigned) i = (i ^ m) - m; }
   c = treeinsert(&cases->root, i, sizeof *c);       switchcase: insert (convert ...) t
   if (!c->node.new) error("multiple 'case' ...")     -> Dup
   casesearch(f, class, v, c, defaultlabel)         search cls t v  = Some key  (jump to the body
     ceq{w,l} v, key ; jnz body, ne                                   of the node with that key)
     cult{w,l} v, key ; jnz lt, gt                                  | None      (jump to default)
     recurse child[0] under lt, child[1] under gt
   class = qbetype(c->type).base                    W (size <= 4) or L (size 8)
   ceqw / cultw look at the low 32 bits only        wrap32                                      *)
From Coq Require Import ZArith NArith List Bool.
From Cproc Require Import Model.Tree.
Import ListNotations.
Open Scope N_scope.

Definition two64 : N := 2 ^ 64.
Definition wrap64 (x : N) : N := x mod two64.
Definition wrap32 (x : N) : N := x mod 2 ^ 32.

(* the conversion at the top of switchcase(); `size` = cases->type->size (1, 2, 4 or 8 for an integer
   type; 4 or 8 after promotion), i < 2^64 *)
Definition convert (size : N) (issigned : bool) (i : N) : N :=
  if size <? 8 then
    let m := N.shiftl 1 (size * 8 - 1) in            (* < 2^56: the shift does not wrap *)
    let i := N.land i (N.lor m (m - 1)) in           (* m >= 1: m - 1 does not wrap *)
    if issigned then wrap64 (N.lxor i m + two64 - m) else i
  else i.

Inductive result := Ok (t : tree) | Dup | Crash.

Definition switchcase (size : N) (issigned : bool) (t : tree) (i : N) : result :=
  match insert (convert size issigned i) t with
  | None => Crash
  | Some (t', _, nw) => if nw then Ok t' else Dup
  end.

(* all the `case` labels of one switch statement, in source order; the first duplicate is fatal *)
Fixpoint switchcases (size : N) (issigned : bool) (cs : list N) (t : tree) : result :=
  match cs with
  | [] => Ok t
  | c :: cs' =>
    match switchcase size issigned t c with
    | Ok t' => switchcases size issigned cs' t'
    | r => r
    end
  end.

Inductive cls := W | L.

(* qbetype(t).base for an integer type of the given size *)
Definition cls_of_size (size : N) : cls := if size <=? 4 then W else L.

(* QBE comparison semantics: class w instructions read the low 32 bits of both operands
   (the key is emitted as a 64-bit constant), class l all 64 bits *)
Definition ceq (c : cls) (a b : N) : bool :=
  match c with W => wrap32 a =? wrap32 b | L => wrap64 a =? wrap64 b end.
Definition cult (c : cls) (a b : N) : bool :=
  match c with W => wrap32 a <? wrap32 b | L => wrap64 a <? wrap64 b end.

(* the ladder casesearch() emits, run on the value v of the controlling expression *)
Fixpoint search (c : cls) (t : tree) (v : N) : option N :=
  match t with
  | Leaf => None
  | Node k _ l r =>
    if ceq c v k then Some k
    else if cult c v k then search c l v
    else search c r v
  end.

(* number of ceq instructions executed before the jump (the depth of the ladder for v) *)
Fixpoint search_depth (c : cls) (t : tree) (v : N) : Z :=
  match t with
  | Leaf => 0%Z
  | Node k _ l r =>
    if ceq c v k then 1%Z
    else ((if cult c v k then search_depth c l v else search_depth c r v) + 1)%Z
  end.
