(* C10 - executable models of the decidable constraint checkers of the front end.
   Each definition mirrors one C function (or the part of it named in the comment), with the
   tables of decl.c taken from Gen/ChecksTables.v (regenerated from the source on every run).
   NO proofs in this file. *)
From Coq Require Import String List NArith ZArith Bool Arith.
From Cproc Require Import Spec.Constraints Gen.ChecksTables.
Import ListNotations.
Local Open Scope N_scope.

Definition M64 : N := 2 ^ 64.
Definition INT_MAX : N := 2147483647.

Fixpoint lookup_s {A} (k : string) (l : list (string * A)) (d : A) : A :=
  match l with
  | [] => d
  | (k', v) :: r => if String.eqb k k' then v else lookup_s k r d
  end.

Fixpoint lookup_n {A} (k : N) (l : list (N * A)) : option A :=
  match l with
  | [] => None
  | (k', v) :: r => if N.eqb k k' then Some v else lookup_n k r
  end.

(* ------------------------------------------------------------------ (a) decl.c: declspecs, type specifiers *)
Definition SPEC (name : string) : N := lookup_s name spec_bits 0.

(* the enumerators, evaluated once from the generated table *)
Definition B_SPECCHAR : N := Eval vm_compute in SPEC "SPECCHAR".
Definition B_SPECSHORT : N := Eval vm_compute in SPEC "SPECSHORT".
Definition B_SPECINT : N := Eval vm_compute in SPEC "SPECINT".
Definition B_SPECLONG2 : N := Eval vm_compute in SPEC "SPECLONG2".
Definition B_SPECLONG : N := Eval vm_compute in SPEC "SPECLONG".
Definition B_SPECFLOAT : N := Eval vm_compute in SPEC "SPECFLOAT".
Definition B_SPECDOUBLE : N := Eval vm_compute in SPEC "SPECDOUBLE".
Definition B_SPECSIGNED : N := Eval vm_compute in SPEC "SPECSIGNED".
Definition B_SPECUNSIGNED : N := Eval vm_compute in SPEC "SPECUNSIGNED".

Definition ctype_of_name (s : string) : option ctype :=
  lookup_s s [("typechar", Some Cchar); ("typeschar", Some Cschar); ("typeuchar", Some Cuchar);
              ("typeshort", Some Cshort); ("typeushort", Some Cushort); ("typeint", Some Cint);
              ("typeuint", Some Cuint); ("typelong", Some Clong); ("typeulong", Some Culong);
              ("typellong", Some Cllong); ("typeullong", Some Cullong); ("typefloat", Some Cfloat);
              ("typedouble", Some Cdouble); ("typeldouble", Some Cldouble)]%string None.

Inductive tserr :=
  | EDupShort | ETooManyLong | EDupSigned | EDupUnsigned | EComplex | EMultipleTypes | EInvalidCombination.

Record tsstate := mk_ts {
  ts_bits : N;               (* enum typespec ts *)
  ts_t : option ctype;       (* struct type *t, as far as the specifier keywords set it *)
  ts_ntypes : nat            (* int ntypes *)
}.

Definition ts_init : tsstate := mk_ts 0 None 0.

Definition tst (b m : N) : bool := negb (N.eqb (N.land b m) 0).

(* one iteration of the for (;;) loop of declspecs for a type specifier keyword, including the
   test `if (ntypes > 1 || (t && ts)) error(...)` after the switch *)
Definition ts_step (s : tsstate) (k : tskw) : tserr + tsstate :=
  let after (s' : tsstate) : tserr + tsstate :=
    if (Nat.ltb 1 (ts_ntypes s')) || (match ts_t s' with Some _ => true | None => false end && negb (N.eqb (ts_bits s') 0))
    then inl EMultipleTypes else inr s' in
  let b := ts_bits s in
  match k with
  | TSvoid => after (mk_ts b (Some Cvoid) (S (ts_ntypes s)))
  | TSchar => after (mk_ts (N.lor b B_SPECCHAR) (ts_t s) (S (ts_ntypes s)))
  | TSshort => if tst b B_SPECSHORT then inl EDupShort
               else after (mk_ts (N.lor b B_SPECSHORT) (ts_t s) (ts_ntypes s))
  | TSint => after (mk_ts (N.lor b B_SPECINT) (ts_t s) (S (ts_ntypes s)))
  | TSlong => if tst b B_SPECLONG2 then inl ETooManyLong
              else let b' := if tst b B_SPECLONG then N.lor b B_SPECLONG2 else b in
                   after (mk_ts (N.lor b' B_SPECLONG) (ts_t s) (ts_ntypes s))
  | TSfloat => after (mk_ts (N.lor b B_SPECFLOAT) (ts_t s) (S (ts_ntypes s)))
  | TSdouble => after (mk_ts (N.lor b B_SPECDOUBLE) (ts_t s) (S (ts_ntypes s)))
  | TSsigned => if tst b B_SPECSIGNED then inl EDupSigned
                else after (mk_ts (N.lor b B_SPECSIGNED) (ts_t s) (ts_ntypes s))
  | TSunsigned => if tst b B_SPECUNSIGNED then inl EDupUnsigned
                  else after (mk_ts (N.lor b B_SPECUNSIGNED) (ts_t s) (ts_ntypes s))
  | TSbool => after (mk_ts b (Some Cbool) (S (ts_ntypes s)))
  | TScomplex => inl EComplex
  | TSother => after (mk_ts b (Some Cother) (S (ts_ntypes s)))    (* t = tagspec(s); ++ntypes *)
  end.

Definition ts_run (l : list tskw) : tserr + tsstate :=
  fold_left (fun acc k => match acc with inl e => inl e | inr s => ts_step s k end) l (inr ts_init).

(* done: switch ((int)ts) *)
Definition ts_done (s : tsstate) : tserr + option ctype :=
  match lookup_n (ts_bits s) typespec_switch with
  | None => inl EInvalidCombination
  | Some name => if String.eqb name "" then inr (ts_t s) else inr (ctype_of_name name)
  end.

Definition typespec (l : list tskw) : tserr + option ctype :=
  match ts_run l with
  | inl e => inl e
  | inr s => ts_done s
  end.

Definition typespec_type (l : list tskw) : option ctype :=
  match typespec l with inr t => t | inl _ => None end.

(* ------------------------------------------------------------------ (b) decl.c: storageclass, and the context tests of decl/parameter *)
Definition SCB (name : string) : N := lookup_s name sc_bits 0.

Definition C_SCAUTO : N := Eval vm_compute in SCB "SCAUTO".
Definition C_SCREGISTER : N := Eval vm_compute in SCB "SCREGISTER".
Definition C_SCTHREADLOCAL : N := Eval vm_compute in SCB "SCTHREADLOCAL".
Definition C_SCEXTERN : N := Eval vm_compute in SCB "SCEXTERN".

Definition sc_tok (k : sckw) : string :=
  match k with
  | SCtypedef => "TTYPEDEF" | SCextern => "TEXTERN" | SCstatic => "TSTATIC" | SCthread => "TTHREAD_LOCAL"
  | SCauto => "TAUTO" | SCregister => "TREGISTER"
  end.

Fixpoint sc_allowed_of (sc : N) (l : list (option N * N)) : N :=
  match l with
  | [] => 0
  | (None, v) :: _ => v
  | (Some k, v) :: r => if N.eqb sc k then v else sc_allowed_of sc r
  end.

(* the default label may stand anywhere in the C switch: look at the case labels first *)
Definition sc_allowed_for (sc : N) : N :=
  sc_allowed_of sc (filter (fun p => match fst p with Some _ => true | None => false end) sc_allowed
                    ++ filter (fun p => match fst p with Some _ => false | None => true end) sc_allowed).

(* storageclass(): None = error "invalid combination of storage class specifiers" *)
Definition sc_step (sc : N) (k : sckw) : option N :=
  let new := lookup_s (sc_tok k) sc_new 0 in
  if negb (N.eqb (N.ldiff new (sc_allowed_for sc)) 0) then None else Some (N.lor sc new).

Definition sc_run (l : list sckw) : option N :=
  fold_left (fun acc k => match acc with None => None | Some sc => sc_step sc k end) l (Some 0).

(* decl(): tests on the finished set sc; parameter(): `sc && sc != SCREGISTER` *)
Definition sc_ctx_check (c : dctx) (k : dkind) (sc : N) : bool :=
  match c with
  | AtFile => negb (tst sc C_SCAUTO) && negb (tst sc C_SCREGISTER)
  | AtBlock => negb (N.eqb sc C_SCTHREADLOCAL)
               && match k with
                  | DFunction => negb (negb (N.eqb sc 0) && negb (N.eqb sc C_SCEXTERN))
                  | _ => true
                  end
  | AtParam => negb (negb (N.eqb sc 0) && negb (N.eqb sc C_SCREGISTER))
  end.

(* ------------------------------------------------------------------ (c) decl.c: structdecl + addmember, bit-field branch *)
Inductive bferr := EBfHuge | EBfType | EBfAlign | EBfPacked | EBfZeroNamed | EBfExceeds.

(* isint: mt.type->prop & PROPINT; tsize: mt.type->size; align: value of the alignment specifier (0 = none);
   width: value of the width expression as unsigned long long *)
Definition bitfield_check (isint : bool) (tsize align : N) (pack named : bool) (width : N) : option bferr :=
  if N.eqb width (M64 - 1) then Some EBfHuge                      (* structdecl: width == -1 *)
  else if negb isint then Some EBfType
  else if negb (N.eqb align 0) then Some EBfAlign
  else if pack then Some EBfPacked
  else if N.eqb width 0 && named then Some EBfZeroNamed
  else if N.ltb ((tsize * 8) mod M64) width then Some EBfExceeds
  else None.

(* how a declaration of the specification reaches the checker *)
Definition bitfield_inputs (b : bitfield) : bool * N :=
  match bf_type b with
  | BFbool => (true, 1)
  | BFint bytes => (true, bytes)
  | BFnonint => (false, 4)
  end.

Definition bitfield_accepts (b : bitfield) : bool :=
  let '(isint, tsize) := bitfield_inputs b in
  (* structdecl passes the alignment of the specifiers only for a member with a declarator;
     for `specifiers : width;` it calls addmember(b, base, NULL, 0, width) *)
  match bitfield_check isint tsize (if bf_alignas b && bf_named b then 8 else 0) (bf_packed b) (bf_named b) (bf_width b) with
  | None => true
  | Some _ => false
  end.

(* ------------------------------------------------------------------ (d) decl.c: declspecs case TALIGNAS, decl()/addmember alignment tests *)
(* one alignment specifier with value i (unsigned long long): None = "invalid alignment" *)
Definition alignas_step (align : N) (i : N) : option N :=
  if negb (N.eqb (N.land i ((i + M64 - 1) mod M64)) 0) || N.ltb INT_MAX i then None
  else Some (if N.ltb align i then i else align).

Definition alignas_run (values : list N) : option N :=
  fold_left (fun acc i => match acc with None => None | Some a => alignas_step a i end) values (Some 0).

(* decl(): `align && align < t->align`; addmember(): `align < mt.type->align` and `if (align) error` *)
Definition alignas_accepts (values : list N) (type_align : N) : bool :=
  match alignas_run values with
  | None => false
  | Some a => negb (negb (N.eqb a 0) && N.ltb a type_align)
  end.

(* where declspecs is called with align == NULL or the declaration rejects align != 0 *)
Definition alignas_allowed (d : aligned_decl) : bool :=
  match d with
  | ADobject => true      (* decl(): DECLOBJECT *)
  | ADmember => true      (* structdecl/addmember, width == -1 *)
  | ADtypedef => false    (* "typedef declared with alignment specifier" *)
  | ADfunction => false   (* "function declared with alignment specifier" *)
  | ADbitfield => false   (* "alignment specified for bit-field" *)
  | ADparam => false      (* parameter(): declspecs(s, &sc, NULL, NULL) *)
  | ADtypename => false   (* typename(): declspecs(s, NULL, NULL, NULL) *)
  end.

(* ------------------------------------------------------------------ (e) decl.c: declaratortypes/declarator, array declarators *)
Inductive arrerr := EArrLenType | EArrIncomplete | EArrFunction | EArrNegative | EArrTooLarge.

(* lsigned: the type of the length expression is signed; u: its value as unsigned long long;
   esize: base.type->size (0 when the element is itself variably sized) *)
Definition array_check (isint lsigned : bool) (u : N) (incomplete isfunc : bool) (esize : N) : option arrerr :=
  if negb isint then Some EArrLenType
  else if incomplete then Some EArrIncomplete
  else if isfunc then Some EArrFunction
  else if N.eqb esize 0 then None
  else if lsigned && negb (N.eqb (N.shiftr u 63) 0) then Some EArrNegative
  else if N.ltb ((M64 - 1) / esize) u then Some EArrTooLarge
  else None.

(* the constant a declaration of the specification evaluates to, as eval() represents it *)
Definition array_inputs (a : arraydecl) : N := Z.to_N (ar_len a mod 2 ^ 64).

Definition array_accepts (a : arraydecl) (lsigned : bool) : bool :=
  match array_check (ar_len_isint a) lsigned (array_inputs a) (ar_elem_incomplete a) (ar_elem_function a) (ar_elem_size a) with
  | None => true
  | Some _ => false
  end.

(* ------------------------------------------------------------------ (f) pp.c: expandfunc, reading the arguments *)
Inductive arity_res := AOk | ANotEnough | ATooMany | AEof.
Inductive arg_exit := XEof | XBreak (i : nat) | XNatural (i : nat) (at_rparen : bool).

(* the inner for (;;): scan one argument; var = the parameter is __VA_ARGS__.
   Returns the token that ended it and the tokens after that one; None = EOF.
   (Tokens that come out of nested macro expansions, macrodepth > depth, are outside this model.) *)
Fixpoint readarg (var : bool) (paren : nat) (ts : list atok) : option (atok * list atok) :=
  match ts with
  | [] => None
  | t :: r =>
    match t, paren with
    | ARParen, O => Some (ARParen, r)
    | AComma, O => if var then readarg var paren r else Some (AComma, r)
    | ALParen, _ => readarg var (S paren) r
    | ARParen, S p => readarg var p r
    | _, _ => readarg var paren r
    end
  end.

(* the outer for (i = 0; i < m->nparam; ++i) *)
Fixpoint readargs (params : list bool) (i : nat) (ts : list atok) : arg_exit :=
  match params with
  | [] => XNatural i (match ts with ARParen :: _ => true | _ => false end)
  | p :: ps =>
    match readarg p 0 ts with
    | None => XEof
    | Some (ARParen, _) => XBreak i
    | Some (_, r) => readargs ps (S i) r
    end
  end.

Definition expandfunc_arity (params : list bool) (ts : list atok) : arity_res :=
  let nparam := length params in
  match readargs params 0 ts with
  | XEof => AEof
  | XBreak i => if Nat.ltb (S i) nparam then ANotEnough else AOk
  | XNatural i rp =>
      if Nat.ltb (S i) nparam then ANotEnough
      else if negb rp || (Nat.ltb 0 nparam && Nat.eqb i nparam) then ATooMany else AOk
  end.

Definition macro_params (named : nat) (variadic : bool) : list bool :=
  repeat false named ++ (if variadic then [true] else []).
