(* C07 - executable model of qbe.c: emitdata / dataitem (static images).  NO proofs in this file.

   emitdata is a fold over the init list with the state (offset, bits): `offset` = bytes emitted so far,
   `bits` = the pending low bits of the byte at `offset` left over from a bit-field that did not end on a byte
   boundary.  Output = the items between the braces of the `data` definition.  The string patching loop
   (an element override nested in a string entry) mutates the literal's buffer, as the C does (since 43615e4
   it first extends the buffer with zeros when the element lies beyond the literal). *)
From Coq Require Import List NArith Bool.
From Cproc Require Import Model.Init.
Import ListNotations.
Local Open Scope N_scope.

Inductive item :=
| IInt (sz : N) (vals : list N)      (* `b 1`, `h 1 2 3 `: letter by size, values as printed (%llu / %u) *)
| IFlt (sz : N) (bits : N)           (* `s s_<f>` / `d d_<f>`: the constant, as its IEEE bit pattern *)
| IZero (n : N)                      (* `z n` *)
| IStr (bytes : list N)              (* `b "..."` *)
| IRef (sym off : N).                (* `l $sym + off` *)

Inductive dres :=
| DOk (items : list item)
| DAssertCurString      (* assert(cur->expr->kind == EXPRSTRING)   (D18: two members of a union initialised) *)
| DAssertInitConst      (* assert(init->expr->kind == EXPRCONST) *)
| DAssertBitfield       (* assert(... PROPINT) / assert(cur->expr->kind == EXPRCONST) for a bit-field *)
| DAssertSize           (* assert(offset <= d->type->size) *)
| DAssertWidth          (* default: assert(0) in dataitem's wide string switch *)
| DNotConst             (* error: initializer is not a constant expression *)
| DFuel.

Definition take_n {A} (n : N) (l : list A) : list A := firstn (N.to_nat n) l.

(* dataitem(expr, size): items, or None for the error path *)
Definition dataitem (e : expr) (size : N) : dres :=
  match e with
  | EConst isflt sz u => DOk [if isflt then IFlt sz u else IInt sz [u]]
  | EAddr sym off => DOk [IRef sym off]
  | EString w data =>
    (* for (i = 0; i < string.size && i * w < size; ++i) *)
    let n := N.min (N.of_nat (length data)) (if w =? 0 then 0 else (size + w - 1) / w) in
    let tail := if w64 (n * w) <? size then [IZero (sub64 size (w64 (n * w)))] else [] in
    if w =? 1 then DOk (IStr (take_n n data) :: tail)
    else if (w =? 2) || (w =? 4) then DOk (IInt w (take_n n data) :: tail)
    else if n =? 0 then DOk (IInt w [] :: tail) else DAssertWidth
  | EOpaque _ _ _ _ => DNotConst
  end.

(* the patch of one element into the literal's buffer *)
Definition patch1 (w : N) (data : list N) (i : N) (u : N) : list N :=
  let len := N.of_nat (length data) in
  let data := if len <=? i then data ++ repeat 0 (N.to_nat (i + 1 - len)) else data in
  if (w =? 1) || (w =? 2) || (w =? 4) then upd data (N.to_nat i) (u mod 2 ^ (8 * w)) else data.

Inductive pres := POk (cur : init) (rest : list init) | PAssertCur | PAssertInit.

(* while ((init = init->next) && init->start * 8 + init->bits.before < cur->end * 8 - cur->bits.after) *)
Fixpoint patches (cur : init) (rest : list init) : pres :=
  match rest with
  | [] => POk cur []
  | n :: r =>
    if bstart n <? bend cur then
      match i_expr cur with
      | EString w data =>
        match i_expr n with
        | EConst _ _ u =>
          let i := sub64 (i_start n) (i_start cur) / w in
          patches (mkinit (i_start cur) (i_end cur) (i_bits cur) (EString w (patch1 w data i u))) r
        | _ => PAssertInit
        end
      | _ => PAssertCur
      end
    else POk cur rest
  end.

(* for (offset = start; offset < end; ++offset, bits >>= 8) printf("b %u, ", (unsigned)bits & 0xff); *)
Fixpoint emit_bytes (n : nat) (bits : N) (acc : list item) : N * list item :=
  match n with
  | O => (bits, acc)
  | S k => emit_bytes k (bits / 256) (acc ++ [IInt 1 [bits mod 256]])
  end.

Definition finish (size offset bits : N) (acc : list item) : dres :=
  let '(offset, acc) := if negb (bits =? 0) then (w64 (offset + 1), acc ++ [IInt 1 [bits mod 4294967296]]) else (offset, acc) in
  if size <? offset then DAssertSize
  else DOk (if offset <? size then acc ++ [IZero (size - offset)] else acc).

(* before an entry that starts at byte `start`: flush the unfinished byte of the previous bit-field, zero-fill the gap;
   returns the pending bits and the items so far (the C then continues with offset = start) *)
Definition flush_gap (offset bits start : N) (acc : list item) : N * list item :=
  let '(offset1, bits1, acc1) :=
    if (offset <? start) && negb (bits =? 0)
    then (w64 (offset + 1), 0, acc ++ [IInt 1 [bits mod 4294967296]])   (* printf("b %u, ", (unsigned)bits); ++offset; bits = 0; *)
    else (offset, bits, acc) in
  (bits1, if offset1 <? start then acc1 ++ [IZero (sub64 start offset1)] else acc1).

Fixpoint emit_loop (fuel : nat) (size : N) (l : list init) (offset bits : N) (acc : list item) : dres :=
  match fuel with
  | O => DFuel
  | S f =>
    match l with
    | [] => finish size offset bits acc
    | cur0 :: rest0 =>
      match patches cur0 rest0 with
      | PAssertCur => DAssertCurString
      | PAssertInit => DAssertInitConst
      | POk cur rest =>
        let before := bf_before (i_bits cur) in
        let aft := bf_after (i_bits cur) in
        let start := w64 (i_start cur + before / 8) in
        let end_ := sub64 (i_end cur) ((aft + 7) / 8) in
        let '(bits1, acc2) := flush_gap offset bits start acc in
        if negb (before =? 0) || negb (aft =? 0) then
          match i_expr cur with
          | EConst false _ u =>
            let b := N.lor bits1 (w64 (u * 2 ^ (before mod 8))) in
            let n := if start <? end_ then N.to_nat (end_ - start) else O in
            let '(b2, acc3) := emit_bytes n b acc2 in
            emit_loop f size rest end_ (N.land b2 (N.shiftr 127 ((aft + 7) mod 8))) acc3
          | _ => DAssertBitfield
          end
        else
          match dataitem (i_expr cur) (sub64 (i_end cur) (i_start cur)) with
          | DOk its => emit_loop f size rest end_ bits1 (acc2 ++ its)
          | r => r
          end
      end
    end
  end.

(* emitdata(d, init) for an object of `size` bytes: the items of the definition *)
Definition emitdata (size : N) (l : list init) : dres := emit_loop (S (length l)) size l 0 0 [].

(* ------------------------------------------------------- what the items mean (QBE's data semantics) *)
Fixpoint le_bytes (n : nat) (v : N) : list N :=
  match n with
  | O => []
  | S k => v mod 256 :: le_bytes k (v / 256)
  end.

Definition item_bytes (symaddr : N -> N) (it : item) : list N :=
  match it with
  | IInt sz vals => flat_map (fun v => le_bytes (N.to_nat sz) v) vals
  | IFlt sz bits => le_bytes (N.to_nat sz) bits
  | IZero n => repeat 0 (N.to_nat n)
  | IStr bs => map (fun b => b mod 256) bs
  | IRef sym off => le_bytes 8 (w64 (symaddr sym + off))
  end.

Definition items_bytes (symaddr : N -> N) (its : list item) : list N := flat_map (item_bytes symaddr) its.

(* the little-endian number of a byte list: bit b of the object = bit b of this number *)
Fixpoint bytes_num (bs : list N) : N :=
  match bs with
  | [] => 0
  | b :: r => b mod 256 + 256 * bytes_num r
  end.
