(* C17 - executable model of driver.c (main, nextarg, detectfiletype, changeext, buildobj's naming and
   stage loop, spawnphase's argv assembly, buildexe's argv), function for function.  No proofs here.

   The model computes what the driver would start on a command line if every tool succeeds:
   [plan cfg argv] is a usage error / an undefined read / the list of pipelines with the argument vector of
   every stage, followed by the linker's argument vector.  Temporary object names (/tmp/cproc-XXXXXX) are
   the symbols [Temp 0], [Temp 1], ... in order of creation. *)
From Coq Require Import List String Ascii NArith ZArith Bool Arith.
From Cproc Require Import Lib.DriverTypes.
Import ListNotations.
Open Scope string_scope.
Open Scope list_scope.

(* ------------------------------------------------------------------ stage masks (unsigned stages) *)
Definition bit (s : stage) : N := N.shiftl 1 (N.of_nat (stage_idx s)).
Definition has (m : N) (s : stage) : bool := negb (N.eqb (N.land m (bit s)) 0).
Definition clear (m : N) (s : stage) : N := N.ldiff m (bit s).                 (* m & ~(1<<s) *)
Definition upto (m : N) (s : stage) : N := N.land m (N.shiftl 1 (N.of_nat (stage_idx s + 1)) - 1).  (* m & (1 << s+1) - 1 *)
Definition mask (l : list stage) : N := fold_right (fun s m => N.lor (bit s) m) 0%N l.

(* ------------------------------------------------------------------ detectfiletype, changeext *)
Definition detectfiletype (name : string) : filetype :=
  match strrchr name "."%char with
  | Some i =>
      let ext := drop (S i) name in
      if ext =? "c" then C
      else if ext =? "h" then CHDR
      else if ext =? "i" then CPPOUT
      else if ext =? "qbe" then QBE
      else if ext =? "s" then ASM
      else if ext =? "S" then ASMPP
      else OBJ
  | None => OBJ
  end.

Definition changeext (name ext : string) : string :=
  let name := match strrchr name "/"%char with Some i => drop (S i) name | None => name end in
  let baselen := match strrchr name "."%char with Some i => i | None => String.length name end in
  (take baselen name ++ "." ++ ext)%string.

(* the switch in main that fills input->stages; NONE falls to the default: usage(...) *)
Definition stages_of (t : filetype) : option N :=
  match t with
  | ASM    => Some (mask [ASSEMBLE; LINK])
  | ASMPP  => Some (mask [PREPROCESS; ASSEMBLE; LINK])
  | C      => Some (mask [PREPROCESS; COMPILE; CODEGEN; ASSEMBLE; LINK])
  | CHDR   => Some (mask [PREPROCESS])
  | CPPOUT => Some (mask [COMPILE; CODEGEN; ASSEMBLE; LINK])
  | QBE    => Some (mask [CODEGEN; ASSEMBLE; LINK])
  | OBJ    => Some (mask [LINK])
  | NONE   => None
  end.

(* ------------------------------------------------------------------ state of main *)
Record input := { i_name : word; i_stages : N; i_type : filetype; i_lib : bool }.

Record cmds := { c_pp : list string; c_cc : list string; c_cg : list string; c_as : list string; c_ld : list string }.
Definition getc (c : cmds) (g : stage) : list string :=
  match g with PREPROCESS => c_pp c | COMPILE => c_cc c | CODEGEN => c_cg c | ASSEMBLE => c_as c | LINK => c_ld c end.
Definition addc (c : cmds) (g : stage) (ws : list string) : cmds :=
  match g with
  | PREPROCESS => {| c_pp := c_pp c ++ ws; c_cc := c_cc c; c_cg := c_cg c; c_as := c_as c; c_ld := c_ld c |}
  | COMPILE    => {| c_pp := c_pp c; c_cc := c_cc c ++ ws; c_cg := c_cg c; c_as := c_as c; c_ld := c_ld c |}
  | CODEGEN    => {| c_pp := c_pp c; c_cc := c_cc c; c_cg := c_cg c ++ ws; c_as := c_as c; c_ld := c_ld c |}
  | ASSEMBLE   => {| c_pp := c_pp c; c_cc := c_cc c; c_cg := c_cg c; c_as := c_as c ++ ws; c_ld := c_ld c |}
  | LINK       => {| c_pp := c_pp c; c_cc := c_cc c; c_cg := c_cg c; c_as := c_as c; c_ld := c_ld c ++ ws |}
  end.

Record st := {
  cmd : cmds;                     (* stages[i].cmd *)
  inputs : list input;
  last : stage;
  output : option string;
  ftype : filetype;               (* the filetype variable set by -x *)
  nostdlib : bool;
  verbose : bool;
  argc : Z }.

Definition add (g : stage) (ws : list string) (s : st) : st :=
  {| cmd := addc (cmd s) g ws;
     inputs := inputs s; last := last s; output := output s; ftype := ftype s;
     nostdlib := nostdlib s; verbose := verbose s; argc := argc s |}.
Definition add_input (i : input) (s : st) : st :=
  {| cmd := cmd s; inputs := inputs s ++ [i]; last := last s; output := output s; ftype := ftype s;
     nostdlib := nostdlib s; verbose := verbose s; argc := argc s |}.
Definition set_last (l : stage) (s : st) : st :=
  {| cmd := cmd s; inputs := inputs s; last := l; output := output s; ftype := ftype s;
     nostdlib := nostdlib s; verbose := verbose s; argc := argc s |}.
Definition set_output (o : string) (s : st) : st :=
  {| cmd := cmd s; inputs := inputs s; last := last s; output := Some o; ftype := ftype s;
     nostdlib := nostdlib s; verbose := verbose s; argc := argc s |}.
Definition set_ftype (t : filetype) (s : st) : st :=
  {| cmd := cmd s; inputs := inputs s; last := last s; output := output s; ftype := t;
     nostdlib := nostdlib s; verbose := verbose s; argc := argc s |}.
Definition set_nostdlib (s : st) : st :=
  {| cmd := cmd s; inputs := inputs s; last := last s; output := output s; ftype := ftype s;
     nostdlib := true; verbose := verbose s; argc := argc s |}.
Definition set_verbose (s : st) : st :=
  {| cmd := cmd s; inputs := inputs s; last := last s; output := output s; ftype := ftype s;
     nostdlib := nostdlib s; verbose := true; argc := argc s |}.
Definition set_argc (n : Z) (s : st) : st :=
  {| cmd := cmd s; inputs := inputs s; last := last s; output := output s; ftype := ftype s;
     nostdlib := nostdlib s; verbose := verbose s; argc := n |}.

Inductive presult := PDone (s : st) | PUsage (m : umsg) | PUndef | PFuel.

(* nextarg: the rest of the word, or the next word; None = usage(NULL).  argc is NOT adjusted (as in C; nothing reads it). *)
Definition nextarg (arg : string) (rest : list string) : option (string * list string) :=
  if negb (at_end arg 2) then Some (drop 2 arg, rest)
  else match rest with
       | [] => None
       | a :: r => Some (a, r)
       end.

(* the -W[pal], loop: for (arg += 4; arg; arg = end ? end + 1 : NULL) { end = strchr(arg, ','); ... } *)
Fixpoint wsplit (fuel : nat) (s : string) : list string :=
  match fuel with
  | 0 => []
  | S f => match strchr s ","%char with
           | Some i => take i s :: wsplit f (drop (S i) s)
           | None => [s]
           end
  end.

Definition lang_of (a : string) : option filetype :=
  if a =? "none" then Some NONE
  else if a =? "c" then Some C
  else if a =? "c-header" then Some CHDR
  else if a =? "cpp-output" then Some CPPOUT
  else if a =? "qbe" then Some QBE
  else if a =? "assembler" then Some ASM
  else if a =? "assembler-with-cpp" then Some ASMPP
  else None.

(* the options that take the next word through "if (!argv[1]) usage(NULL); ... *++argv" *)
Definition two_words (g : stage) (arg : string) (rest : list string) (s : st)
    (k : st -> list string -> presult) : presult :=
  match rest with
  | [] => PUsage UPlain
  | a :: r => k (add g [arg; a] s) r
  end.

(* strchr(set, c) != NULL for a character c other than the terminator *)
Fixpoint is_in (c : ascii) (set : string) : bool :=
  match set with
  | EmptyString => false
  | String d t => Ascii.eqb c d || is_in c t
  end.

Fixpoint loop (fuel : nat) (s : st) (argv : list string) : presult :=
  match fuel with
  | 0 => PFuel
  | S fuel =>
  let s := set_argc (argc s - 1)%Z s in                       (* ++argv, --argc *)
  match argv with
  | [] => PDone s
  | arg :: rest =>
    let k := loop fuel in
    if negb (at_is arg 0 "-"%char) || at_end arg 1 then
      (* an input.  "filetype == NONE && arg[1] ? detectfiletype(arg) : filetype": arg[1] of "" is outside the string *)
      if filetype_eqb (ftype s) NONE && (arg =? "") then PUndef else
      let t := if filetype_eqb (ftype s) NONE && negb (at_end arg 1) then detectfiletype arg else ftype s in
      match stages_of t with
      | None => PUsage UStdinNeedsX
      | Some m => k (add_input {| i_name := Lit arg; i_stages := m; i_type := t; i_lib := false |} s) rest
      end
    else if arg =? "-nostdlib" then k (set_nostdlib s) rest
    else if arg =? "-nostdinc" then k (add PREPROCESS [arg] s) rest
    else if arg =? "-static" then k (add LINK [arg] s) rest
    else if arg =? "-emit-qbe" then k (set_last COMPILE s) rest
    else if (arg =? "-include") || (arg =? "-idirafter") || (arg =? "-isystem") || (arg =? "-iquote") then
      two_words PREPROCESS arg rest s k
    else if arg =? "-pipe" then k s rest
    else if hasprefix arg "-std=" then k (add PREPROCESS [arg] s) rest
    else if arg =? "-pedantic" then k s rest
    else if arg =? "-pthread" then k (add LINK ["-l"; "pthread"] s) rest
    else
      let c := cidx arg 1 in
      if negb (at_end arg 2) && is_in c "cESsv" then PUsage UPlain
      else if Ascii.eqb c "c" then k (set_last ASSEMBLE s) rest
      else if Ascii.eqb c "D" then
        match nextarg arg rest with None => PUsage UPlain | Some (a, r) => k (add PREPROCESS ["-D"; a] s) r end
      else if Ascii.eqb c "E" then k (set_last PREPROCESS s) rest
      else if Ascii.eqb c "g" then k s rest
      else if Ascii.eqb c "I" then
        match nextarg arg rest with None => PUsage UPlain | Some (a, r) => k (add PREPROCESS ["-I"; a] s) r end
      else if Ascii.eqb c "L" then
        match nextarg arg rest with None => PUsage UPlain | Some (a, r) => k (add LINK ["-L"; a] s) r end
      else if Ascii.eqb c "l" then
        match nextarg arg rest with
        | None => PUsage UPlain
        | Some (a, r) => k (add_input {| i_name := Lit a; i_stages := mask [LINK]; i_type := OBJ; i_lib := true |} s) r
        end
      else if Ascii.eqb c "M" then
        if (arg =? "-M") || (arg =? "-MM") then k (set_last PREPROCESS (add PREPROCESS [arg] s)) rest
        else if (arg =? "-MD") || (arg =? "-MMD") then k (add PREPROCESS [arg] s) rest
        else if (arg =? "-MT") || (arg =? "-MF") then two_words PREPROCESS arg rest s k
        else PUsage UPlain
      else if Ascii.eqb c "O" then k s rest
      else if Ascii.eqb c "o" then
        match nextarg arg rest with None => PUsage UPlain | Some (a, r) => k (set_output a s) r end
      else if Ascii.eqb c "P" then k (add PREPROCESS ["-P"] s) rest
      else if Ascii.eqb c "S" then k (set_last CODEGEN s) rest
      else if Ascii.eqb c "s" then k (add LINK ["-s"] s) rest
      else if Ascii.eqb c "U" then
        match nextarg arg rest with None => PUsage UPlain | Some (a, r) => k (add PREPROCESS ["-U"; a] s) r end
      else if Ascii.eqb c "v" then k (set_verbose s) rest
      else if Ascii.eqb c "W" then
        if negb (at_end arg 2) && at_is arg 3 ","%char then
          let c2 := cidx arg 2 in
          let body := drop 4 arg in
          let ws := wsplit (S (String.length body)) body in
          if Ascii.eqb c2 "p" then k (add PREPROCESS ws s) rest
          else if Ascii.eqb c2 "a" then k (add ASSEMBLE ws s) rest
          else if Ascii.eqb c2 "l" then k (add LINK ws s) rest
          else PUsage UPlain
        else k s rest
      else if Ascii.eqb c "x" then
        match nextarg arg rest with
        | None => PUsage UPlain
        | Some (a, r) =>
            match lang_of a with
            | Some t => k (set_ftype t s) r
            | None => PUsage (UUnknownLang a)
            end
        end
      else PUsage (UUnknownOpt arg)
  end
  end.

(* ------------------------------------------------------------------ buildobj / spawnphase / buildexe *)
Definition stage_leb (a b : stage) : bool := Nat.leb (stage_idx a) (stage_idx b).

(* the "for (i = PREPROCESS, fd = -1; input->stages; ++i)" loop: argv of every stage spawned *)
Fixpoint spawn_cmds (cmdbase : stage -> list string) (todo : list stage) (m : N) (first : bool)
    (inname : option word) (out : option word) : list (stage * list word) :=
  match todo with
  | [] => []
  | i :: todo' =>
      if N.eqb m 0 then []
      else if has m i then
        let m' := clear m i in
        let lastp := N.eqb m' 0 in
        (i, lits (cmdbase i)
            ++ (if lastp then match out with Some o => [Lit "-o"; o] | None => [] end else [])
            ++ (if first then match inname with Some n => [n] | None => [] end else []))
        :: spawn_cmds cmdbase todo' m' false inname out
      else spawn_cmds cmdbase todo' m first inname out
  end.

(* buildobj for an input that takes part in the last stage; [stages] is already masked by main.
   Returns the input's new name, the pipeline (None: nothing to do) and the number of temporaries. *)
Definition buildobj (cmdbase : stage -> list string) (inp : input) (stages : N) (output : option string)
    (ntemps : nat) : word * option pipeline * nat :=
  if filetype_eqb (i_type inp) OBJ then (i_name inp, None, ntemps)
  else
    let name := match i_name inp with Lit n => n | Temp _ => "" end in
    let '(stages, out, ntemps') :=
      if has stages LINK then (clear stages LINK, Some (Temp ntemps), S ntemps)
      else match output with
           | Some o => (stages, if o =? "-" then None else Some (Lit o), ntemps)
           | None =>
               if has stages ASSEMBLE then (stages, Some (Lit (changeext name "o")), ntemps)
               else if has stages CODEGEN then (stages, Some (Lit (changeext name "s")), ntemps)
               else if has stages COMPILE then (stages, Some (Lit (changeext name "qbe")), ntemps)
               else (stages, None, ntemps)
           end in
    let inname := if name =? "-" then None else Some (Lit name) in
    let cmds := spawn_cmds cmdbase all_stages stages true inname out in
    (match out with Some o => o | None => i_name inp end,
     Some {| p_cmds := cmds; p_dest := match out with Some o => DFile o | None => DStdout end |},
     ntemps').

Fixpoint build_all (cmdbase : stage -> list string) (lst : stage) (output : option string)
    (ins : list input) (ntemps : nat) : list input * list pipeline :=
  match ins with
  | [] => ([], [])
  | inp :: rest =>
      if negb (has (i_stages inp) lst) then
        let '(ins', ps) := build_all cmdbase lst output rest ntemps in (inp :: ins', ps)
      else
        let '(nm, p, nt) := buildobj cmdbase inp (upto (i_stages inp) lst) output ntemps in
        let '(ins', ps) := build_all cmdbase lst output rest nt in
        ({| i_name := nm; i_stages := 0; i_type := i_type inp; i_lib := i_lib inp |} :: ins',
         match p with Some p => p :: ps | None => ps end)
  end.

Definition buildexe (cfg : config) (s : st) (ins : list input) (output : string) : list word :=
  lits (getc (cmd s) LINK) ++ [Lit "-o"; Lit output]
  ++ (if nostdlib s then [] else lits (startfiles cfg))
  ++ flat_map (fun i => (if i_lib i then [Lit "-l"] else []) ++ [i_name i]) ins
  ++ (if nostdlib s then [] else lits (endfiles cfg)).

Definition arch_of (t : string) : option (string * string) :=
  if hasprefix t "x86_64-" || hasprefix t "amd64-" then Some ("x86_64-sysv", "amd64_sysv")
  else if hasprefix t "aarch64-" then Some ("aarch64", "arm64")
  else if hasprefix t "riscv64-" then Some ("riscv64", "rv64")
  else None.

Definition init (cfg : config) (arch qbearch : string) (nargs : nat) : st :=
  {| cmd := {| c_pp := preprocesscmd cfg;
              c_cc := compilecmd cfg ++ ["-t"; arch];
              c_cg := codegencmd cfg ++ ["-t"; qbearch];
              c_as := assemblecmd cfg;
              c_ld := linkcmd cfg |};
     inputs := []; last := LINK; output := None; ftype := NONE; nostdlib := false; verbose := false;
     argc := Z.of_nat (S nargs) |}.

Definition finish (cfg : config) (s : st) : outcome :=
  match inputs s with
  | [] => Usage UPlain
  | _ :: more =>
    let refuse :=
      match output s with
      | Some o =>
          if o =? "-" then (if stage_leb ASSEMBLE (last s) then Some UObjStdout else None)
          else if negb (stage_eqb (last s) LINK) && negb (match more with [] => true | _ => false end) then Some UMultiOutput
          else None
      | None => None
      end in
    match refuse with
    | Some m => Usage m
    | None =>
        let '(ins, pipes) := build_all (getc (cmd s)) (last s) (output s) (inputs s) 0 in
        Run (verbose s) pipes
            (if stage_eqb (last s) LINK
             then Some (buildexe cfg s ins (match output s with Some o => o | None => "a.out" end))
             else None)
    end
  end.

(* main: argv without argv[0] *)
Definition plan (cfg : config) (argv : list string) : outcome :=
  match arch_of (target cfg) with
  | None => Fatal
  | Some (arch, qbearch) =>
      match loop (S (List.length argv)) (init cfg arch qbearch (List.length argv)) argv with
      | PDone s => finish cfg s
      | PUsage m => Usage m
      | PUndef => Undefined
      | PFuel => OutOfFuel
      end
  end.
