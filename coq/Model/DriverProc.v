(* C18 - model of the process side of driver.c: buildobj's spawn loop (with "goto kill" on a spawn failure),
   the wait loop that matches pids against stages[i].pid, succeeded(), the one-shot SIGTERM broadcast,
   unlink(output), rmtemps(), the exit status; main's loop over the inputs; buildexe.  No proofs here.

   The operating system is an environment [env]: whether each posix_spawn succeeds, which pid it hands out,
   and, per pipeline, the list of (pid, status) pairs that successive wait() calls return (the schedule).
   The driver's reaction is the trace of its own system-level actions. *)
From Coq Require Import List String Bool Arith.
From Cproc Require Import Lib.DriverTypes.
Import ListNotations.
Open Scope list_scope.

Definition pid := nat.                       (* 0: stages[i].pid of a stage without a process *)

Inductive status :=
| Exited (code : nat)                        (* WIFEXITED, WEXITSTATUS *)
| Signaled (sig : nat)                       (* WIFSIGNALED, WTERMSIG *)
| OtherStatus.                               (* neither *)

Definition succeeded (st : status) : bool :=
  match st with Exited 0 => true | _ => false end.

Record env := {
  spawn_ok : nat -> stage -> bool;           (* pipeline number (in the order buildobj runs them), stage *)
  pid_of : nat -> stage -> pid;              (* pid of the child when the spawn succeeds *)
  waits : nat -> list (pid * status);        (* what wait() returns, in order, while that pipeline is reaped *)
  link_spawn_ok : bool;
  link_status : status }.                    (* what waitpid(linker) yields *)

Inductive event :=
| EMkstemp (w : word)                        (* mkstemp created the temporary object; it is appended to temps *)
| ECreate (w : word)                         (* not a call of the driver: from here on a tool holds "-o w" and may create w *)
| ESpawn (k : nat) (g : stage) (p : pid) (argv : list word)
| ESpawnFail (k : nat) (g : stage)
| EWait (p : pid) (st : status)              (* wait() returned (p, st) *)
| EKill (p : pid)                            (* kill(p, SIGTERM) *)
| EUnlink (w : word)
| ESpawnLink (argv : list word)
| ESpawnLinkFail
| EWaitLink (st : status)
| EExit (code : nat)
| EStuck.                                    (* wait() has nothing left to return: the driver blocks (or dies of ECHILD) *)

(* stages[i].pid *)
Definition table := stage -> pid.
Definition tab0 : table := fun _ => 0.
Definition upd (t : table) (g : stage) (p : pid) : table := fun h => if stage_eqb h g then p else t h.

(* for (i = 0; i < LEN(stages); ++i) if (pid == stages[i].pid) ... break; *)
Definition find_stage (t : table) (p : pid) : option stage :=
  find (fun g => Nat.eqb p (t g)) all_stages.

(* for (i = 0; i < LEN(stages); ++i) if (stages[i].pid) kill(stages[i].pid, SIGTERM); *)
Definition live (t : table) : list pid := filter (fun p => negb (Nat.eqb p 0)) (map t all_stages).
Definition kill_block (t : table) (npids : nat) (success : bool) : list event :=
  if success && negb (Nat.eqb npids 0) then map EKill (live t) else [].

(* the spawn loop of buildobj; the last component is false when a spawn failed (goto kill) *)
Fixpoint spawn_loop (e : env) (k : nat) (cmds : list (stage * list word)) (t : table) (npids : nat)
    : table * nat * list event * bool :=
  match cmds with
  | [] => (t, npids, [], true)
  | (g, argv) :: r =>
      if spawn_ok e k g then
        let p := pid_of e k g in
        let '(t', n', ev, ok) := spawn_loop e k r (upd t g p) (S npids) in
        (t', n', ESpawn k g p argv :: ev, ok)
      else (t, npids, [ESpawnFail k g], false)
  end.

(* while (npids > 0) { pid = wait(&status); ... } : events, success, final table, stuck *)
Fixpoint wait_loop (sched : list (pid * status)) (t : table) (npids : nat) (success : bool)
    : list event * bool * table * bool :=
  match npids with
  | 0 => ([], success, t, false)
  | S n' =>
      match sched with
      | [] => ([EStuck], success, t, true)
      | (p, st) :: rest =>
          match find_stage t p with
          | None =>                                   (* unknown process: continue *)
              let '(ev, s, t', stuck) := wait_loop rest t npids success in
              (EWait p st :: ev, s, t', stuck)
          | Some g =>
              let t1 := upd t g 0 in
              if succeeded st then
                let '(ev, s, t', stuck) := wait_loop rest t1 n' success in
                (EWait p st :: ev, s, t', stuck)
              else
                let '(ev, s, t', stuck) := wait_loop rest t1 n' false in
                (EWait p st :: kill_block t1 n' success ++ ev, s, t', stuck)
          end
      end
  end.

Definition unlink_dest (d : dest) : list event :=
  match d with DFile w => [EUnlink w] | DStdout => [] end.

(* buildobj for one pipeline (an input that is built).  Result: events, the table, the temporaries, and
   whether main goes on (false: exit(1) or stuck). *)
Definition run_pipeline (e : env) (k : nat) (pl : pipeline) (t : table) (temps : list word)
    : list event * table * list word * bool :=
  let '(mk, temps) :=
    match p_dest pl with
    | DFile (Temp j) => ([EMkstemp (Temp j)], temps ++ [Temp j])
    | _ => ([], temps)
    end in
  let '(t1, n, ev1, spawned_all) := spawn_loop e k (p_cmds pl) t 0 in
  let ev1 := ev1 ++ (if spawned_all then match p_dest pl with DFile w => [ECreate w] | DStdout => [] end else []) in
  let kills := if spawned_all then [] else kill_block t1 n true in
  let '(ev2, success, t2, stuck) := wait_loop (waits e k) t1 n spawned_all in
  if stuck then (mk ++ ev1 ++ kills ++ ev2, t2, temps, false)
  else if success then (mk ++ ev1 ++ kills ++ ev2, t2, temps, true)
  else (mk ++ ev1 ++ kills ++ ev2 ++ unlink_dest (p_dest pl) ++ map EUnlink temps ++ [EExit 1], t2, temps, false).

Fixpoint run_pipes (e : env) (k : nat) (pls : list pipeline) (t : table) (temps : list word)
    : list event * list word * bool :=
  match pls with
  | [] => ([], temps, true)
  | pl :: r =>
      let '(ev, t', temps', go) := run_pipeline e k pl t temps in
      if go then
        let '(ev', temps'', go') := run_pipes e (S k) r t' temps' in (ev ++ ev', temps'', go')
      else (ev, temps', false)
  end.

(* buildexe *)
Definition run_link (e : env) (argv : list word) (temps : list word) : list event :=
  if link_spawn_ok e then
    [ESpawnLink argv; EWaitLink (link_status e)] ++ map EUnlink temps
    ++ [EExit (if succeeded (link_status e) then 0 else 1)]
  else [ESpawnLinkFail] ++ map EUnlink temps ++ [EExit 1].

(* the whole invocation, given what main decided to run (Model/Driver.v: plan) *)
Definition run (e : env) (o : outcome) : list event :=
  match o with
  | Usage _ => [EExit 2]
  | Fatal => [EExit 1]
  | Undefined | OutOfFuel => []
  | Run _ pls link =>
      let '(ev, temps, go) := run_pipes e 0 pls tab0 [] in
      if go then
        match link with
        | Some argv => ev ++ run_link e argv temps
        | None => ev ++ [EExit 0]
        end
      else ev
  end.

(* ------------------------------------------------------------------ reading a trace *)
Fixpoint exit_code (tr : list event) : option nat :=
  match tr with
  | [] => None
  | EExit n :: _ => Some n
  | _ :: r => exit_code r
  end.
Definition is_stuck (tr : list event) : bool := existsb (fun ev => match ev with EStuck => true | _ => false end) tr.
Definition link_started (tr : list event) : bool :=
  existsb (fun ev => match ev with ESpawnLink _ | ESpawnLinkFail => true | _ => false end) tr.
Definition spawned_pids (tr : list event) : list pid :=
  flat_map (fun ev => match ev with ESpawn _ _ p _ => [p] | _ => [] end) tr.
Definition waited_pids (tr : list event) : list pid :=
  flat_map (fun ev => match ev with EWait p _ => [p] | _ => [] end) tr.
Definition killed_pids (tr : list event) : list pid :=
  flat_map (fun ev => match ev with EKill p => [p] | _ => [] end) tr.

Definition word_eqb (a b : word) : bool :=
  match a, b with
  | Lit x, Lit y => String.eqb x y
  | Temp i, Temp j => Nat.eqb i j
  | _, _ => false
  end.

(* files that may exist after the trace: a temporary exists from mkstemp on, the output of a pipeline may exist
   once its last stage was started, unlink removes *)
Fixpoint may_exist (tr : list event) (fs : list word) : list word :=
  match tr with
  | [] => fs
  | EMkstemp w :: r => may_exist r (w :: fs)
  | ECreate w :: r => may_exist r (w :: fs)
  | EUnlink w :: r => may_exist r (filter (fun x => negb (word_eqb x w)) fs)
  | _ :: r => may_exist r fs
  end.
