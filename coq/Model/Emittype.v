(* C08 - executable model of the code that describes types and calls to the backend.  NO proofs here.

   qbe.c  : qbetype, emittype (with its static id counter and the t->value cache), emitclass,
            mkfunc (emittype of the return type and of every parameter), funcexpr/EXPRCALL
            (emittype of every argument type, then of the result type; IARG after ICALL, IVARARG
            exactly at index nparam, and after the last argument when nargs == nparam), emitfunc's
            header, emitinst's ICALL printing
   expr.c : postfixexpr's call branch (exprassign on arguments that have a parameter, exprpromote
            on the others, the two argument-count errors), exprconvert, exprpromote
   type.c : typepromote, typeadjust, typecompatible (on the scalar kinds represented here)
   targ.c : the three va_list representations (built by the driver from these constructors:
            x86_64-sysv: array of one struct without members, size 24; aarch64: the struct that IS
            targ->typevalist, size 32; riscv64: pointer)

   The datatypes (ctype, cmembers, tdef, ...) are shared with the specification Spec/QbeAgg.v.
   Offsets and sizes are `unsigned long long` in C: explicit w64 where the code adds; ALIGNUP is
   Layout.alignup (C06's model of util.h).  The `unsigned` id counter is not wrapped (2^32 types). *)
From Coq Require Import ZArith List Bool.
From Cproc Require Import Model.Layout Spec.QbeAgg.
Import ListNotations.
Open Scope Z_scope.

(* ------------------------------------------------------------------ qbetype *)
Inductive ldk := LdUB | LdSB | LdUH | LdSH | LdW | LdL | LdS | LdD.
Record qbt := mkQ { q_base : fcls; q_data : fcls; q_load : ldk }.

(* sc = targ->signedchar.  Scalars only; anything else that reaches qbetype gets `l` *)
Definition qbetype_scal (sc : bool) (k : skind) : qbt :=
  let sgn := match k with SkInt i | SkEnum i => isigned sc i | _ => false end in
  match ssize k with
  | 1 => if sgn then mkQ Fw Fb LdSB else mkQ Fw Fb LdUB
  | 2 => if sgn then mkQ Fw Fh LdSH else mkQ Fw Fh LdUH
  | 4 => if sfloat k then mkQ Fs Fs LdS else mkQ Fw Fw LdW
  | _ => if sfloat k then mkQ Fd Fd LdD else mkQ Fl Fl LdL
  end.
Definition qbetype (sc : bool) (t : ctype) : qbt :=
  match t with
  | CScal k => qbetype_scal sc k
  | _ => mkQ Fl Fl LdL
  end.

(* ------------------------------------------------------------------ emittype *)
Record est := mkE {
  e_next : Z;                    (* static unsigned id *)
  e_map : list (Z * Z);          (* uid of the struct type object -> id in its t->value *)
  e_out : list tdef              (* the `type` lines printed so far, in order *)
}.
Definition est0 : est := mkE 0 [] [].

Fixpoint find (u : Z) (m : list (Z * Z)) : option Z :=
  match m with
  | [] => None
  | (v, id) :: r => if v =? u then Some id else find u r
  end.

(* for (sub = t; sub->kind == TYPEARRAY; sub = sub->base); *)
Fixpoint strip (t : ctype) : ctype := match t with CArr e _ => strip e | _ => t end.

Fixpoint mlist (ms : cmembers) : list (ctype * Z) :=
  match ms with
  | MNil => []
  | MCons t off _ r => (t, off) :: mlist r
  end.

(* emitclass(qbetype(sub).data, sub->value) [count] *)
Definition item_of (sc : bool) (mp : list (Z * Z)) (t : ctype) : fitem :=
  match strip t with
  | CRec u _ _ _ _ _ => FType (match find u mp with Some id => id | None => 0 end)
  | sub => FBase (q_data (qbetype sc sub))
  end.
Definition field_of (sc : bool) (mp : list (Z * Z)) (m : ctype * Z) : field :=
  let sub := strip (fst m) in
  (item_of sc mp (fst m),
   if csize sub <? csize (fst m) then csize (fst m) / csize sub else 1).

(* "look for a subsequent member with a larger storage unit": m is the current member, after the
   members that follow it, others the rest of the scan (other = other->next) *)
Fixpoint search (m : ctype * Z) (after others : list (ctype * Z)) : (ctype * Z) * list (ctype * Z) :=
  match others with
  | [] => (m, after)
  | o :: r =>
    if alignup (w64 (snd m + 1)) 8 <=? snd o then (m, after)
    else if snd o <=? snd m then search o r r
    else search m after r
  end.

(* do m = m->next; while (m && m->offset < off); *)
Fixpoint skip (off : Z) (l : list (ctype * Z)) : list (ctype * Z) :=
  match l with
  | [] => []
  | o :: r => if snd o <? off then skip off r else l
  end.

(* the member loop of a struct; None = out of fuel (excluded by walk_fuel_enough) *)
Fixpoint walk_struct (fuel : nat) (sc : bool) (mp : list (Z * Z)) (l : list (ctype * Z)) : option (list field) :=
  match fuel with
  | O => None
  | S f =>
    match l with
    | [] => Some []
    | m :: rest =>
      let '(m', after) := search m rest rest in
      let off := w64 (snd m' + csize (fst m')) in
      match walk_struct f sc mp (skip off after) with
      | Some fs => Some (field_of sc mp m' :: fs)
      | None => None
      end
    end
  end.

Definition fuel_error : body := BOpaque (-1).

Definition body_of (sc : bool) (mp : list (Z * Z)) (is_struct : bool) (l : list (ctype * Z)) : body :=
  if is_struct then
    match walk_struct (S (length l)) sc mp l with
    | Some fs => BStruct fs
    | None => fuel_error
    end
  else BUnion (map (fun m => [field_of sc mp m]) l).

(* emittype proper is emitsub on a struct or union; the array case is the `for (sub = ...)` loop that
   precedes every recursive call *)
Fixpoint emitsub (sc : bool) (t : ctype) (st : est) {struct t} : est :=
  match t with
  | CScal _ => st
  | CArr e _ => emitsub sc e st
  | CRec u k vl sz al ms =>
    match find u (e_map st) with
    | Some _ => st                                              (* t->value already set *)
    | None =>
      let id := e_next st + 1 in
      let st1 := mkE id ((u, id) :: e_map st) (e_out st) in
      let st2 := emitmembers sc ms st1 in
      let d := if vl then mkTD id (Some al) (BOpaque sz)
               else mkTD id None (body_of sc (e_map st2) k (mlist ms)) in
      mkE (e_next st2) (e_map st2) (e_out st2 ++ [d])
    end
  end
with emitmembers (sc : bool) (ms : cmembers) (st : est) {struct ms} : est :=
  match ms with
  | MNil => st
  | MCons t _ _ r => emitmembers sc r (emitsub sc t st)
  end.

Definition emittype (sc : bool) (t : ctype) (st : est) : est :=
  match t with
  | CRec _ _ _ _ _ _ => emitsub sc t st
  | _ => st                                                     (* t->kind != TYPESTRUCT && != TYPEUNION *)
  end.

Definition emit_all (sc : bool) (ts : list ctype) (st : est) : est :=
  fold_left (fun s t => emittype sc t s) ts st.

(* ------------------------------------------------------------------ signatures and calls *)
Inductive acls := ABase (c : fcls) | AType (id : Z).

(* emitclass(qbetype(t).base, t->value) *)
Definition argclass (sc : bool) (mp : list (Z * Z)) (t : ctype) : acls :=
  match t with
  | CRec u _ _ _ _ _ => match find u mp with Some id => AType id | None => ABase Fl end
  | _ => ABase (q_base (qbetype sc t))
  end.

(* mkfunc: emittype(t->base); for each parameter emittype(d->type).  None = void *)
Definition mkfunc_types (sc : bool) (ret : option ctype) (params : list ctype) (st : est) : est :=
  emit_all sc params (match ret with Some r => emittype sc r st | None => st end).

(* emitfunc: the header *)
Definition funchead (sc : bool) (mp : list (Z * Z)) (ret : option ctype) (params : list ctype) (isvararg : bool)
  : option acls * list acls * bool :=
  (option_map (argclass sc mp) ret, map (argclass sc mp) params, isvararg).

(* funcexpr, EXPRCALL: the types *)
Definition call_types (sc : bool) (ret : option ctype) (args : list ctype) (st : est) : est :=
  let st1 := emit_all sc args st in
  match ret with Some r => emittype sc r st1 | None => st1 end.

(* funcexpr, EXPRCALL: the IARG / IVARARG sequence after ICALL; None is the `...` marker *)
Fixpoint call_args (sc : bool) (mp : list (Z * Z)) (isvararg : bool) (nparam i : nat) (args : list ctype)
  : list (option acls) :=
  match args with
  | [] => if isvararg && Nat.eqb i nparam then [None] else []
  | a :: r =>
    (if isvararg && Nat.eqb i nparam then [None] else [])
    ++ Some (argclass sc mp a) :: call_args sc mp isvararg nparam (S i) r
  end.

Definition callsig (sc : bool) (mp : list (Z * Z)) (ret : option ctype) (isvararg : bool) (nparam : nat) (args : list ctype)
  : option acls * list (option acls) :=
  (option_map (argclass sc mp) ret, call_args sc mp isvararg nparam 0 args).

(* ------------------------------------------------------------------ argument conversion (expr.c) *)
Definition icode (i : ikind) : Z :=
  match i with
  | IBool => 0 | IChar => 1 | ISChar => 2 | IUChar => 3 | IShort => 4 | IUShort => 5
  | IInt => 6 | IUInt => 7 | ILong => 8 | IULong => 9 | ILLong => 10 | IULLong => 11
  end.

(* typecompatible on what is represented: the same basic type object; an enumerated type and its
   underlying type; the same struct type object.  Pointer and enumerated types carry no identity
   here: two of them are taken as compatible when they have the same representation (the result of
   exprconvert is the same ctype either way) *)
Definition compat (a b : ctype) : bool :=
  match a, b with
  | CRec u _ _ _ _ _, CRec v _ _ _ _ _ => u =? v
  | CScal (SkInt i), CScal (SkInt j) | CScal (SkEnum i), CScal (SkEnum j)
  | CScal (SkEnum i), CScal (SkInt j) | CScal (SkInt i), CScal (SkEnum j) => icode i =? icode j
  | CScal SkFloat, CScal SkFloat | CScal SkDouble, CScal SkDouble
  | CScal SkPtr, CScal SkPtr | CScal SkNullptr, CScal SkNullptr => true
  | _, _ => false
  end.

(* exprconvert: the expression keeps its own type when that is compatible with the target type *)
Definition exprconvert (a t : ctype) : ctype := if compat a t then a else t.
(* exprassign: the checks are C10's; the resulting type is exprconvert's *)
Definition exprassign (a t : ctype) : ctype := exprconvert a t.

(* type.c typepromote; width = bitfieldwidth(e): None is (unsigned)-1 *)
Definition typepromote (sc : bool) (t : ctype) (width : option Z) : ctype :=
  match t with
  | CScal SkFloat => CScal SkDouble
  | CScal (SkInt i) | CScal (SkEnum i) =>
    let w := match width with Some w => to_uint w | None => 4294967295 end in
    if (irank i <=? irank IInt) || (w <=? 4 * 8) then
      let w' := if w =? 4294967295 then to_uint (isize i * 8) else w in
      if to_uint (w' - (if isigned sc i then 1 else 0)) <? 4 * 8 then CScal (SkInt IInt) else CScal (SkInt IUInt)
    else t
  | _ => t
  end.
Definition exprpromote (sc : bool) (a : ctype * option Z) : ctype :=
  exprconvert (fst a) (typepromote sc (fst a) (snd a)).

Inductive argres := ArgOk (ts : list ctype) | ArgTooMany | ArgTooFew.

(* the while (tok.kind != TRPAREN) loop: p walks the parameter list *)
Fixpoint convert_args (sc : bool) (isvararg : bool) (params : list ctype) (args : list (ctype * option Z)) : argres :=
  match args with
  | [] =>
    match params with
    | _ :: _ => if isvararg then ArgOk [] else ArgTooFew       (* if (p && !isvararg) error *)
    | [] => ArgOk []
    end
  | a :: r =>
    match params with
    | [] =>
      if negb isvararg then ArgTooMany
      else match convert_args sc isvararg [] r with
           | ArgOk ts => ArgOk (exprpromote sc a :: ts)
           | e => e
           end
    | p :: ps =>
      match convert_args sc isvararg ps r with
      | ArgOk ts => ArgOk (exprassign (fst a) p :: ts)
      | e => e
      end
    end
  end.

(* type.c typeadjust (function types are not represented) *)
Definition typeadjust (t : ctype) : ctype :=
  match t with CArr _ _ => CScal SkPtr | _ => t end.
