(* Model/Eval.v - Gallina transcription of /repo/eval.c (cast, unary, binary, istrue, eval) and of the
   constant folding done by expr.c:condexpr / intconstexpr.  No proofs here.

   Carrier: the 8 bytes of `union { unsigned long long u; long long i; double f; } constant` are one
   Z in [0, 2^64): `u` is the number itself, `i` is [i64 u], `f` is the binary64 with that bit pattern
   (Model/EvalFloat.v).  Every C unsigned operation is followed by an explicit `mod M64`. *)
From Coq Require Import ZArith Bool List.
From Cproc Require Import Spec.CArith Model.EvalFloat.
Local Open Scope Z_scope.

(* the floating-point operations on bit patterns that eval.c uses; the integer theorems hold for ANY
   such operations, the extracted model instantiates them with Flocq's binary64 (EvalFloat.v) *)
Record fops := mk_fops {
  op_fneg : Z -> Z; op_fadd : Z -> Z -> Z; op_fsub : Z -> Z -> Z; op_fmul : Z -> Z -> Z; op_fdiv : Z -> Z -> Z;
  op_flt : Z -> Z -> bool; op_fgt : Z -> Z -> bool; op_fle : Z -> Z -> bool; op_fge : Z -> Z -> bool;
  op_feq : Z -> Z -> bool; op_fne : Z -> Z -> bool; op_fnonzero : Z -> bool;
  op_fround32 : Z -> Z; op_f_of_Z : Z -> Z; op_f32_of_Z : Z -> Z; op_f_trunc : Z -> option Z
}.
Definition flocq_ops : fops :=
  mk_fops fneg fadd fsub fmul fdiv flt fgt fle fge feq fne fnonzero fround32 f_of_Z f32_of_Z f_trunc.

Definition M64 : Z := 18446744073709551616.       (* 2^64 *)
Definition H64 : Z := 9223372036854775808.        (* 2^63 *)
Definition u64 (x : Z) : Z := x mod M64.                         (* store into .u *)
Definition i64 (u : Z) : Z := if u <? H64 then u else u - M64.   (* read through .i *)
Definition of_i64 (i : Z) : Z := i mod M64.                      (* store through .i *)

(* the part of `struct type` eval.c looks at: prop & PROPINT / PROPFLOAT, kind == TYPEBOOL / TYPEPOINTER,
   size, u.basic.issigned *)
Inductive ty :=
| TInt (k : ity)      (* char .. unsigned long long, enum types: PROPINT, not TYPEBOOL *)
| TBool               (* PROPINT, size 1, unsigned, kind TYPEBOOL *)
| TFloat (sz : Z)     (* PROPFLOAT, size 4 or 8 *)
| TPtr                (* TYPEPOINTER, size 8 *)
| TOther.             (* anything else (void, struct, nullptr_t ...) *)

Definition int_of (t : ty) : option ity :=
  match t with TInt k => Some k | TBool => Some (mk_ity 1 false) | _ => None end.
Definition is_int (t : ty) : bool := match int_of t with Some _ => true | None => false end.
Definition is_float (t : ty) : bool := match t with TFloat _ => true | _ => false end.
Definition is_ptr (t : ty) : bool := match t with TPtr => true | _ => false end.
Definition is_signed (t : ty) : bool := match int_of t with Some k => isigned k | None => false end.
Definition ty_size (t : ty) : Z :=
  match t with TInt k => isize k | TBool => 1 | TFloat s => s | TPtr => 8 | TOther => 0 end.

Definition ity_eqb (a b : ity) : bool := (isize a =? isize b) && Bool.eqb (isigned a) (isigned b).
Definition ty_eqb (a b : ty) : bool :=
  match a, b with
  | TInt x, TInt y => ity_eqb x y
  | TBool, TBool => true
  | TFloat x, TFloat y => x =? y
  | TPtr, TPtr => true
  | TOther, TOther => true
  | _, _ => false
  end.

(* results: a value, or one of the ways the C code does not return normally *)
Inductive res :=
| Val (c : Z)
| Trap       (* the host C operation traps: x / 0, x % 0, LLONG_MIN / -1  (SIGFPE) *)
| Fatal      (* fatal("internal error; unknown ... expression") *)
| Diag       (* error(&tok.loc, ...): a diagnostic, exit status 1 *)
| HostUB.    (* the host C operation is undefined without trapping (NaN -> integer) *)

Section WithFloatOps.
Variable F : fops.

(* ---- cast() ---- *)
Definition cast_int (size : Z) (sg : bool) (u : Z) : Z :=
  let u1 := Z.land u (Z.shiftr (M64 - 1) (64 - size * 8)) in       (* u &= -1ull >> 64 - size*8 *)
  if sg then
    let m := Z.shiftl 1 (size * 8 - 1) in                          (* m = 1ull << size*8 - 1 *)
    (Z.lxor u1 m - m) mod M64                                       (* u = (u ^ m) - m *)
  else u1.

Definition cast (t : ty) (c : Z) : Z :=
  match t with
  | TFloat sz => if sz =? 4 then op_fround32 F c else c
  | TInt k => cast_int (isize k) (isigned k) c
  | TBool => cast_int 1 false c
  | _ => c
  end.

(* ---- the F / S tag: decided by the LEFT operand's type ---- *)
Inductive tag := TagU | TagS | TagF.
Definition tag_of (lt : ty) : tag :=
  if is_float lt then TagF else if is_int lt && is_signed lt then TagS else TagU.

Inductive bop :=
| OMul | ODiv | OMod | OAdd | OSub | OShl | OShr | OBand | OBor | OXor
| OLess | OGreater | OLeq | OGeq | OEql | ONeq | OLor | OLand.

(* ---- unary(): only TSUB has a case ---- *)
Inductive uop := UNeg | UOtherOp.
Definition unary (op : uop) (t lt : ty) (l : Z) : res :=
  match op with
  | UNeg => if is_float lt then Val (cast t (op_fneg F l)) else Val (cast t ((- l) mod M64))
  | UOtherOp => Fatal
  end.

(* ---- binary() before the final cast ---- *)
Definition binary_raw (op : bop) (tg : tag) (l r : Z) : res :=
  match op, tg with
  | OMul, TagF => Val (op_fmul F l r)
  | OMul, _ => Val ((l * r) mod M64)
  | ODiv, TagU => if r =? 0 then Trap else Val (l / r)
  | ODiv, TagS => if r =? 0 then Trap            (* r.i == 0 iff the eight bytes are zero *)
                  else if (i64 l =? - H64) && (i64 r =? -1) then Trap
                  else Val (of_i64 (Z.quot (i64 l) (i64 r)))
  | ODiv, TagF => Val (op_fdiv F l r)
  | OMod, TagU => if r =? 0 then Trap else Val (l mod r)
  | OMod, TagS => if r =? 0 then Trap
                  else if (i64 l =? - H64) && (i64 r =? -1) then Trap
                  else Val (of_i64 (Z.rem (i64 l) (i64 r)))
  | OMod, TagF => Fatal
  | OAdd, TagF => Val (op_fadd F l r)
  | OAdd, _ => Val ((l + r) mod M64)
  | OSub, TagF => Val (op_fsub F l r)
  | OSub, _ => Val ((l - r) mod M64)
  | OShl, TagF => Fatal
  | OShl, _ => Val ((Z.shiftl l (Z.land r 63)) mod M64)
  | OShr, TagU => Val (Z.shiftr l (Z.land r 63))
  | OShr, TagS => Val (of_i64 (Z.shiftr (i64 l) (Z.land r 63)))
  | OShr, TagF => Fatal
  | OBand, TagF => Fatal
  | OBand, _ => Val (Z.land l r)
  | OBor, TagF => Fatal
  | OBor, _ => Val (Z.lor l r)
  | OXor, TagF => Fatal
  | OXor, _ => Val (Z.lxor l r)
  | OLess, TagU => Val (b2z (l <? r))
  | OLess, TagS => Val (b2z (i64 l <? i64 r))
  | OLess, TagF => Val (b2z (op_flt F l r))
  | OGreater, TagU => Val (b2z (r <? l))
  | OGreater, TagS => Val (b2z (i64 r <? i64 l))
  | OGreater, TagF => Val (b2z (op_fgt F l r))
  | OLeq, TagU => Val (b2z (l <=? r))
  | OLeq, TagS => Val (b2z (i64 l <=? i64 r))
  | OLeq, TagF => Val (b2z (op_fle F l r))
  | OGeq, TagU => Val (b2z (r <=? l))
  | OGeq, TagS => Val (b2z (i64 r <=? i64 l))
  | OGeq, TagF => Val (b2z (op_fge F l r))
  | OEql, TagF => Val (b2z (op_feq F l r))
  | OEql, _ => Val (b2z (l =? r))
  | ONeq, TagF => Val (b2z (op_fne F l r))
  | ONeq, _ => Val (b2z (negb (l =? r)))
  | OLor, _ => Fatal
  | OLand, _ => Fatal
  end.

(* binary(expr, op, l, r): t = expr->type (result), lt = l->type *)
Definition binary (op : bop) (lt t : ty) (l r : Z) : res :=
  match binary_raw op (tag_of lt) l r with
  | Val c => Val (cast t c)
  | x => x
  end.

Definition istrue (t : ty) (c : Z) : bool :=
  if is_float t then op_fnonzero F c else negb (c =? 0).

(* ---- the conversion done by eval()'s EXPRCAST case on a constant operand ---- *)
Definition cast_const (t lt : ty) (lc : Z) : res :=
  match t with
  | TBool =>
      Val (cast t (if is_float lt then b2z (op_fnonzero F lc) else b2z (negb (lc =? 0))))
  | _ =>
    if is_int lt && is_float t then
      (* `t->size == 4 ? (float)l->u.constant.i : l->u.constant.i` *)
      let conv := match t with TFloat sz => if sz =? 4 then op_f32_of_Z F else op_f_of_Z F | _ => op_f_of_Z F end in
      Val (cast t (if is_signed lt then conv (i64 lc) else conv lc))
    else if is_float lt && is_int t then
      (* the tests are written as "inside the range", so that a NaN (every comparison false) is diagnosed;
         with Flocq's operations the HostUB arms are unreachable (Proofs/EvalProofsFloat.v, float_to_int_never_host_ub) *)
      if is_signed t then
        if negb (op_fge F lc mtwo63 && op_flt F lc two63) then Diag     (* !(f >= -0x1p63 && f < 0x1p63) *)
        else match op_f_trunc F lc with Some z => Val (cast t (of_i64 z)) | None => HostUB end
      else
        if negb (op_fgt F lc mone && op_flt F lc two64) then Diag       (* !(f > -1.0 && f < 0x1p64) *)
        else match op_f_trunc F lc with Some z => Val (cast t (z mod M64)) | None => HostUB end
    else Val (cast t lc)
  end.

(* ---- expressions, as far as eval() distinguishes them ---- *)
Inductive expr :=
| EConst (t : ty) (c : Z)                  (* EXPRCONST *)
| EEnum (t : ty) (v : Z)                   (* EXPRIDENT, decl->kind == DECLCONST, u.enumconst = v *)
| EVar (t : ty) (sym : Z)                  (* EXPRIDENT of an object or function *)
| EAddr (t : ty) (sym : Z)                 (* EXPRUNARY TBAND over an EXPRIDENT: &obj, decayed array/function *)
| ENeg (t : ty) (b : expr)                 (* EXPRUNARY TSUB *)
| ECast (t : ty) (b : expr)                (* EXPRCAST *)
| EBin (t : ty) (op : bop) (l r : expr)    (* EXPRBINARY *)
| ECond (t : ty) (c a b : expr).           (* EXPRCOND: eval() has no case for it *)

Definition type_of (e : expr) : ty :=
  match e with
  | EConst t _ | EEnum t _ | EVar t _ | EAddr t _ | ENeg t _ | ECast t _ | EBin t _ _ _ | ECond t _ _ _ => t
  end.

Inductive stop := STrap | SFatal | SDiag | SHostUB.
(* eval() mutates nodes in place and returns a node; both are needed because EXPRUNARY / EXPRCAST parents
   keep pointing at the (mutated) operand even when a different node was returned for it *)
Inductive eres :=
| Ok (ret inplace : expr)
| Stop (why : stop).

Definition stop_of (r : res) : eres :=
  match r with
  | Trap => Stop STrap | Fatal => Stop SFatal | Diag => Stop SDiag | HostUB => Stop SHostUB
  | Val _ => Stop SFatal (* not used *)
  end.
Definition konst (t : ty) (r : res) : eres :=
  match r with Val c => Ok (EConst t c) (EConst t c) | x => stop_of x end.
Definition same (e : expr) : eres := Ok e e.

Definition is_const (e : expr) : bool := match e with EConst _ _ => true | _ => false end.
Definition is_binary (e : expr) : bool := match e with EBin _ _ _ _ => true | _ => false end.

(* the EXPRBINARY case once both operands have been evaluated and stored back *)
Definition eval_binary (t : ty) (op : bop) (l0 r0 : expr) : eres :=
  let keep := same (EBin t op l0 r0) in
  match op with
  | OAdd | OSub =>
      (* case TADD: if (r->kind == EXPRBINARY) swap l and r, and store them back into the node *)
      let swapped := match op with OAdd => is_binary r0 | _ => false end in
      let l := if swapped then r0 else l0 in
      let r := if swapped then l0 else r0 in
      let keep' := same (EBin t op l r) in
      match r with
      | EConst rt rc =>
          match l with
          | EConst lt lc => konst t (binary op lt t lc rc)
          | EBin lt OAdd ll (EConst lrt lrc) =>
              if is_ptr lt then
                (* (P + C1) +- C2  ->  P + (C1 +- C2); the result is written into the node r (type rt) *)
                match binary op lrt rt lrc rc with
                | Val c => same (EBin t OAdd ll (EConst rt c))
                | x => stop_of x
                end
              else keep'
          | _ => keep'
          end
      | _ => keep'
      end
  | OLor | OLand =>
      match l0 with
      | EConst lt lc =>
          if Bool.eqb (istrue lt lc) (match op with OLand => true | _ => false end) then
            match r0 with
            | EConst rt rc => same (EConst t (b2z (istrue rt rc)))
            | _ => keep
            end
          else same (EConst t (b2z (istrue lt lc)))
      | _ => keep
      end
  | ODiv | OMod =>
      match l0, r0 with
      | EConst lt lc, EConst rt rc =>
          if is_int lt && ((rc =? 0) || (is_signed lt && (i64 rc =? -1) && (i64 lc =? - H64))) then keep
          else konst t (binary op lt t lc rc)
      | _, _ => keep
      end
  | _ =>
      match l0, r0 with
      | EConst lt lc, EConst rt rc => konst t (binary op lt t lc rc)
      | _, _ => keep
      end
  end.

Fixpoint eval (e : expr) : eres :=
  match e with
  | EConst _ _ | EVar _ _ | EAddr _ _ | ECond _ _ _ _ => same e
  | EEnum t v => same (EConst t v)
  | ENeg t b =>
      match eval b with
      | Ok l b' =>
          match l with
          | EConst lt lc => konst t (unary UNeg t lt lc)
          | _ => same (ENeg t b')
          end
      | s => s
      end
  | ECast t b =>
      match eval b with
      | Ok l b' =>
          match l with
          | EConst lt lc => konst t (cast_const t lt lc)
          | _ =>
              if is_ptr (type_of l) && (is_ptr t || (is_int t && (ty_size t =? 8))) then Ok l (ECast t b')
              else same (ECast t b')
          end
      | s => s
      end
  | EBin t op l r =>
      match eval l with
      | Ok l0 _ =>
          match eval r with
          | Ok r0 _ => eval_binary t op l0 r0
          | s => s
          end
      | s => s
      end
  end.

(* ---- expr.c ---- *)
(* exprconvert(e, t): typecompatible is approximated by equality of the modelled type attributes
   (a conversion between two distinct types with the same attributes folds to the same value) *)
Definition exprconvert (e : expr) (t : ty) : expr :=
  if ty_eqb (type_of e) t then e else ECast t e.

(* the tail of condexpr(): fold `c ? a : b` when c evaluates to an INTEGER constant *)
Definition condfold (t : ty) (c a b : expr) : eres :=
  match eval c with
  | Ok e _ =>
      match e with
      | EConst ct cv =>
          if is_int ct then same (exprconvert (if cv =? 0 then b else a) t)
          else same (ECond t e a b)
      | _ => same (ECond t e a b)
      end
  | s => s
  end.

(* intconstexpr(s, allowneg) on the expression condexpr() returned *)
Definition intconstexpr (e : expr) (allowneg : bool) : res :=
  match eval e with
  | Ok (EConst t c) _ =>
      if negb (is_int t) then Diag
      else if negb allowneg && is_signed t && (Z.shiftr c 63 =? 1) then Diag
      else Val c
  | Ok _ _ => Diag
  | Stop STrap => Trap | Stop SFatal => Fatal | Stop SDiag => Diag | Stop SHostUB => HostUB
  end.

End WithFloatOps.

(* expr.c:primaryexpr, floating constant: `e->u.constant.f = strtod(tok.lit, &end)`; with suffix f the type is
   float and the value is rounded: `e->u.constant.f = (float)e->u.constant.f` *)
Definition floatlit (F : fops) (suffix_f : bool) (strtod_bits : Z) : Z :=
  if suffix_f then op_fround32 F strtod_bits else strtod_bits.
