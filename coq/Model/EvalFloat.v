(* Model/EvalFloat.v - the floating-point half of eval.c's union `u.constant`, on 64-bit patterns.
   The C code keeps a `double f` in the same 8 bytes as `u`/`i`; the model keeps the IEEE-754 binary64
   bit pattern in the same Z carrier and computes with Flocq's executable binary64 operations
   (round-to-nearest-even, the host's default mode).  NaN results are canonicalised to one quiet NaN
   (payloads/sign of NaNs are not observable through any folding context except the raw data image). *)
From Coq Require Import ZArith Bool.
From Flocq Require Import Core.Zaux IEEE754.BinarySingleNaN IEEE754.Binary IEEE754.Bits.
Local Open Scope Z_scope.
Arguments B754_zero {prec} {emax}.
Arguments B754_infinity {prec} {emax}.
Arguments B754_nan {prec} {emax}.
Arguments B754_finite {prec} {emax}.

Definition nanbits : Z := 0x7ff8000000000000.

Definition of_bits (c : Z) : binary64 := b64_of_bits (c mod 2 ^ 64).
Definition to_bits (f : binary64) : Z :=
  match f with
  | B754_nan _ _ _ => nanbits
  | _ => bits_of_b64 f
  end.

Definition fneg (c : Z) : Z := to_bits (b64_opp (of_bits c)).
Definition fadd (a b : Z) : Z := to_bits (b64_plus mode_NE (of_bits a) (of_bits b)).
Definition fsub (a b : Z) : Z := to_bits (b64_minus mode_NE (of_bits a) (of_bits b)).
Definition fmul (a b : Z) : Z := to_bits (b64_mult mode_NE (of_bits a) (of_bits b)).
Definition fdiv (a b : Z) : Z := to_bits (b64_div mode_NE (of_bits a) (of_bits b)).
Definition fcmp (a b : Z) : option comparison := b64_compare (of_bits a) (of_bits b).

Definition flt (a b : Z) : bool := match fcmp a b with Some Lt => true | _ => false end.
Definition fgt (a b : Z) : bool := match fcmp a b with Some Gt => true | _ => false end.
Definition fle (a b : Z) : bool := match fcmp a b with Some Lt | Some Eq => true | _ => false end.
Definition fge (a b : Z) : bool := match fcmp a b with Some Gt | Some Eq => true | _ => false end.
Definition feq (a b : Z) : bool := match fcmp a b with Some Eq => true | _ => false end.
Definition fne (a b : Z) : bool := negb (feq a b).

(* f != 0  (true for NaN) *)
Definition fnonzero (c : Z) : bool := fne c 0.

(* (double)(float)f : round to binary32 (nearest even), widen back exactly *)
Definition to32 (f : binary64) : binary32 :=
  match f with
  | B754_zero s => B754_zero s
  | B754_infinity s => B754_infinity s
  | B754_nan _ _ _ => proj1_sig default_nan_pl32
  | B754_finite s m e _ => binary_normalize 24 128 (eq_refl _) (eq_refl _) mode_NE (cond_Zopp s (Zpos m)) e s
  end.
Definition of32 (f : binary32) : binary64 :=
  match f with
  | B754_zero s => B754_zero s
  | B754_infinity s => B754_infinity s
  | B754_nan _ _ _ => proj1_sig default_nan_pl64
  | B754_finite s m e _ => binary_normalize 53 1024 (eq_refl _) (eq_refl _) mode_NE (cond_Zopp s (Zpos m)) e s
  end.
Definition fround32 (c : Z) : Z := to_bits (of32 (to32 (of_bits c))).

(* (double)z for an integer z (exact below 2^53, else nearest even) *)
Definition f_of_Z (z : Z) : Z := to_bits (binary_normalize 53 1024 (eq_refl _) (eq_refl _) mode_NE z 0 false).

(* (double)(float)z : one rounding to binary32, widened back exactly (since /repo 'fix: fold integer to float
   conversions with a single rounding'; before, eval() computed fround32 (f_of_Z z), which rounds twice) *)
Definition f32_of_Z (z : Z) : Z :=
  to_bits (of32 (binary_normalize 24 128 (eq_refl _) (eq_refl _) mode_NE z 0 false)).

(* truncation toward zero of a finite double; None for infinities and NaN *)
Definition trunc_mag (m : positive) (e : Z) : Z :=
  if 0 <=? e then Zpos m * 2 ^ e else Zpos m / 2 ^ (- e).
Definition f_trunc (c : Z) : option Z :=
  match of_bits c with
  | B754_zero _ => Some 0
  | B754_finite s m e _ => Some (cond_Zopp s (trunc_mag m e))
  | _ => None
  end.

Definition is_nan_bits (c : Z) : bool :=
  match of_bits c with B754_nan _ _ _ => true | _ => false end.

Definition two63 : Z := 0x43e0000000000000.   (* 0x1p63 *)
Definition mtwo63 : Z := 0xc3e0000000000000.  (* -0x1p63 *)
Definition two64 : Z := 0x43f0000000000000.   (* 0x1p64 *)
Definition mone : Z := 0xbff0000000000000.    (* -1.0 *)
