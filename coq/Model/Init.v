(* C07 - executable model of init.c: mkinit / initadd / subobj / findmember / designator / focus / advance /
   parseinit.  NO proofs in this file.

   The model mirrors the C function for function (bugs included):
   - all offset arithmetic is `unsigned long long` (explicitly mod 2^64);
   - the object stack `obj[32]` is a list of slots that keeps STALE slot contents (`u`) exactly as the C
     array does: `subobj` overwrites type/offset/iscur of the slot above `sub` but not its `u` member;
     reading a `u` that was never written is the distinct error ErrUninit (undefined behaviour in C;
     unreachable since 607b892 made findmember record the anonymous member in the parent's cursor);
   - only the ROOT type can be an incomplete array (subobj rejects incomplete sub-objects), so the mutable
     `t->size` / `t->incomplete` of the C are the two state components p_rsize / p_rinc.

   Tokens: the initializer's token stream after the lexer/expression parser, i.e. `{`, `}`, `,`, `[n]`
   (an index designator with its evaluated constant expression, 64-bit), `.name`, `=`, and one token per
   assignment-expression (already parsed by expr.c; only the facts parseinit looks at are kept). *)
From Coq Require Import List NArith Bool.
Import ListNotations.
Local Open Scope N_scope.

Definition M64 : N := 18446744073709551616.        (* 2^64 *)
Definition w64 (x : N) : N := x mod M64.
Definition sub64 (x y : N) : N := (x + (M64 - y mod M64)) mod M64.    (* x - y on unsigned long long *)

Record bitfield := mkbf { bf_before : N; bf_after : N }.
Definition nobits : bitfield := mkbf 0 0.

(* the facts about an initializer's (evaluated) expression that emitdata/funcinit use *)
Inductive expr :=
| EConst (isflt : bool) (size : N) (u : N)          (* EXPRCONST of a scalar type of `size` bytes; u = u.constant.u,
                                                       or the IEEE bit pattern of u.constant.f rounded to the type *)
| EString (w : N) (data : list N)                   (* EXPRSTRING: element width, elements incl. the terminator *)
| EAddr (sym : N) (off : N)                         (* address constant: &sym + off (mod 2^64) *)
| EOpaque (agg : bool) (size align : N) (id : N).   (* anything else: struct/union value (agg) or non-constant scalar *)

Record init := mkinit { i_start : N; i_end : N; i_bits : bitfield; i_expr : expr }.

(* new->start * 8 + new->bits.before   and   new->end * 8 - new->bits.after *)
Definition bstart (i : init) : N := w64 (i_start i * 8 + bf_before (i_bits i)).
Definition bend (i : init) : N := sub64 (w64 (i_end i * 8)) (bf_after (i_bits i)).

(* do old = old->next; while (old && old->end * 8 - old->bits.after <= new->end * 8 - new->bits.after);
   (called on the list AFTER the first dropped element) *)
Fixpoint dropcov (l : list init) (n : init) : list init :=
  match l with
  | [] => []
  | o :: r => if bend o <=? bend n then dropcov r n else l
  end.

(* the for-loop of initadd from the position *init; returns the new tail and the index of `new` in it *)
Fixpoint initadd_go (l : list init) (n : init) : list init * nat :=
  match l with
  | [] => ([n], O)
  | o :: r =>
    if bend o <=? bstart n then let '(t, k) := initadd_go r n in (o :: t, S k)          (* continue *)
    else if bend n <=? bstart o then (n :: o :: r, O)                                  (* insert before old *)
    else if (bstart n <=? bstart o) && (bend o <=? bend n) then (n :: dropcov r n, O)   (* replace covered *)
    else let '(t, k) := initadd_go r n in (o :: t, S k)                                (* old covers new *)
  end.

(* p->init with p->last as an index: p->last = &(element last-1)->next, 0 = &p->init *)
Definition initadd (l : list init) (last : nat) (n : init) : list init * nat :=
  let '(t, k) := initadd_go (skipn last l) n in (firstn last l ++ t, (last + k + 1)%nat).

(* ------------------------------------------------------------------------------------------ types *)
Inductive tkind := KScalar | KArray | KStruct | KUnion.

Record member := mkmember { m_name : option N; m_type : nat; m_off : N; m_bits : bitfield }.

Record ctype := mkctype {
  t_kind : tkind; t_size : N; t_align : N; t_incomplete : bool;
  t_base : nat;                      (* arrays: element type (index into the table) *)
  t_members : list member;           (* struct/union *)
  t_int : bool; t_char : bool; t_flt : bool; t_signed : bool; t_bool : bool; t_ptr : bool;   (* scalars *)
  t_compat : N                       (* typecompatible() classes: equal numbers = compatible types *)
}.

Definition tdummy : ctype := mkctype KScalar 0 1 false O [] false false false false false false 0.

(* the assignment-expression tokens *)
Inductive sexpr :=
| XInt (v : N) (f32 f64 : N)                 (* integer constant expression: value as 64 bits; as float / double *)
| XFlt (f32 f64 : N) (toint : N)             (* floating constant: bit patterns; value truncated to 64-bit integer *)
| XStr (w : N) (ischar : bool) (compat : N) (data : list N) (sym : N)    (* decayed string literal *)
| XAddr (sym off : N)                        (* address constant of pointer type *)
| XAgg (compat : N) (size align : N) (id : N)  (* expression of struct/union type *)
| XVar (id : N).                             (* non-constant scalar expression (automatic objects only) *)

Inductive itok :=
| TLBrace | TRBrace | TComma | TLBrack (n : N) | TPeriod (name : N) | TAssign | TExpr (e : sexpr).

Inductive perr :=
| ErrIdxNotArray | ErrIdxTooLarge | ErrMemNotStruct | ErrNoMember | ErrExpectAssign | ErrFlexible
| ErrTooManyDesig | ErrCursorType | ErrTooMany | ErrIncompleteType | ErrVLA | ErrEmptyIncomplete
| ErrNestedBrace | ErrAssertArray | ErrStringWidth | ErrExpectCommaBrace | ErrAssign | ErrExpectExpr
| ErrNoMembers | ErrUninit | ErrInternal | ErrFuel.

Inductive result (A : Type) := Ok (a : A) | Err (e : perr).
Arguments Ok {A} a.
Arguments Err {A} e.
Definition bind {A B} (r : result A) (f : A -> result B) : result B :=
  match r with Ok a => f a | Err e => Err e end.
Notation "x <- r ;; k" := (bind r (fun x => k)) (at level 61, r at next level, right associativity).

(* eval.c:cast on an integer constant *)
Definition cast_int (size : N) (signed : bool) (v : N) : N :=
  let u := v mod 2 ^ (8 * size) in
  if signed then let m := 2 ^ (8 * size - 1) in sub64 (N.lxor u m) m else u.

(* exprassign(expr, t) followed by eval(), for a scalar t *)
Definition conv (t : ctype) (e : sexpr) : result expr :=
  match e with
  | XInt v f32 f64 =>
    if t_ptr t then (if v =? 0 then Ok (EConst false 8 0) else Err ErrAssign)
    else if t_bool t then Ok (EConst false (t_size t) (if v =? 0 then 0 else 1))
    else if t_flt t then Ok (EConst true (t_size t) (if t_size t =? 4 then f32 else f64))
    else if t_int t then Ok (EConst false (t_size t) (cast_int (t_size t) (t_signed t) v))
    else Err ErrAssign
  | XFlt f32 f64 toint =>
    if t_ptr t then Err ErrAssign
    else if t_bool t then Ok (EConst false (t_size t) (if f64 mod 9223372036854775808 =? 0 then 0 else 1))
    else if t_flt t then Ok (EConst true (t_size t) (if t_size t =? 4 then f32 else f64))
    else if t_int t then Ok (EConst false (t_size t) (cast_int (t_size t) (t_signed t) toint))
    else Err ErrAssign
  | XStr _ _ _ _ sym => if t_ptr t then Ok (EAddr sym 0) else Err ErrAssign
  | XAddr sym off => if t_ptr t then Ok (EAddr sym off) else Err ErrAssign
  | XAgg _ _ _ _ => Err ErrAssign
  | XVar id => Ok (EOpaque false (t_size t) (t_align t) id)
  end.

(* ----------------------------------------------------------------------------------- the parser *)
Inductive uval := UNone | UIdx (n : N) | UMem (rest : list member).   (* UMem (m :: _) : u.mem = m;  UMem [] : NULL *)
Record object := mkobj { o_off : N; o_ty : nat; o_u : uval; o_iscur : bool }.

Record pstate := mkp {
  p_tbl : list ctype; p_root : nat;        (* type table; index of the root type *)
  p_rsize : N; p_rinc : bool;              (* the root type's mutable size / incomplete *)
  p_obj : list object; p_sub : nat;        (* obj[] (all slots ever written), index of p->sub *)
  p_cur : option nat;
  p_init : list init; p_last : nat;
  p_toks : list itok
}.

Definition ty (p : pstate) (i : nat) : ctype := nth i (p_tbl p) tdummy.
Definition tsize (p : pstate) (i : nat) : N := if Nat.eqb i (p_root p) then p_rsize p else t_size (ty p i).
Definition tinc (p : pstate) (i : nat) : bool := if Nat.eqb i (p_root p) then p_rinc p else t_incomplete (ty p i).
Definition odummy : object := mkobj 0 O UNone false.
Definition obj (p : pstate) (i : nat) : object := nth i (p_obj p) odummy.
Definition subo (p : pstate) : object := obj p (p_sub p).

Fixpoint upd {A} (l : list A) (i : nat) (x : A) : list A :=
  match l, i with
  | [], _ => []
  | _ :: r, O => x :: r
  | y :: r, S j => y :: upd r j x
  end.

Definition set_obj (p : pstate) (i : nat) (o : object) : pstate :=
  mkp (p_tbl p) (p_root p) (p_rsize p) (p_rinc p) (upd (p_obj p) i o) (p_sub p) (p_cur p) (p_init p) (p_last p) (p_toks p).
Definition set_sub (p : pstate) (s : nat) : pstate :=
  mkp (p_tbl p) (p_root p) (p_rsize p) (p_rinc p) (p_obj p) s (p_cur p) (p_init p) (p_last p) (p_toks p).
Definition set_cur (p : pstate) (c : option nat) : pstate :=
  mkp (p_tbl p) (p_root p) (p_rsize p) (p_rinc p) (p_obj p) (p_sub p) c (p_init p) (p_last p) (p_toks p).
Definition set_toks (p : pstate) (t : list itok) : pstate :=
  mkp (p_tbl p) (p_root p) (p_rsize p) (p_rinc p) (p_obj p) (p_sub p) (p_cur p) (p_init p) (p_last p) t.
Definition set_rsize (p : pstate) (s : N) : pstate :=
  mkp (p_tbl p) (p_root p) s (p_rinc p) (p_obj p) (p_sub p) (p_cur p) (p_init p) (p_last p) (p_toks p).
Definition set_rinc (p : pstate) (b : bool) : pstate :=
  mkp (p_tbl p) (p_root p) (p_rsize p) b (p_obj p) (p_sub p) (p_cur p) (p_init p) (p_last p) (p_toks p).
Definition set_inits (p : pstate) (l : list init) (last : nat) : pstate :=
  mkp (p_tbl p) (p_root p) (p_rsize p) (p_rinc p) (p_obj p) (p_sub p) (p_cur p) l last (p_toks p).
Definition set_u (p : pstate) (i : nat) (u : uval) : pstate :=
  let o := obj p i in set_obj p i (mkobj (o_off o) (o_ty o) u (o_iscur o)).
(* t->size = s for the type of slot i: only the root type is ever mutable *)
Definition set_tsize (p : pstate) (i : nat) (s : N) : pstate :=
  if Nat.eqb i (p_root p) then set_rsize p s else p.

(* subobj(p, t, off) *)
Definition subobj (p : pstate) (t : nat) (off : N) : result pstate :=
  let off := w64 (off + o_off (subo p)) in
  if tinc p t then Err ErrFlexible
  else let s := S (p_sub p) in
    if Nat.eqb s 32 then Err ErrTooManyDesig
    else
      let slot := mkobj off t (if Nat.ltb s (length (p_obj p)) then o_u (obj p s) else UNone) false in
      let objs := if Nat.ltb s (length (p_obj p)) then upd (p_obj p) s slot else p_obj p ++ [slot] in
      Ok (mkp (p_tbl p) (p_root p) (p_rsize p) (p_rinc p) objs s (p_cur p) (p_init p) (p_last p) (p_toks p)).

Definition is_su (k : tkind) : bool := match k with KStruct | KUnion => true | _ => false end.

(* findmember(p, name): the loop over the members of p->sub->type; the recursion depth is bounded by the
   32 slots (fuel), the member loop is structural *)
Fixpoint findmember (fuel : nat) (p : pstate) (name : N) (ms : list member) {struct fuel} : result (bool * pstate) :=
  match fuel with
  | O => Err ErrFuel
  | S f =>
    (fix go (p : pstate) (ms : list member) {struct ms} : result (bool * pstate) :=
       match ms with
       | [] => Ok (false, p)
       | m :: rest =>
         match m_name m with
         | Some nm =>
           if nm =? name then
             p1 <- subobj (set_u p (p_sub p) (UMem ms)) (m_type m) (m_off m) ;; Ok (true, p1)
           else go p rest
         | None =>
           p1 <- subobj (set_u p (p_sub p) (UMem ms)) (m_type m) (m_off m) ;;
           r <- findmember f p1 name (t_members (ty p1 (m_type m))) ;;
           let '(found, p2) := r in
           if found then Ok (true, p2) else go (set_sub p2 (pred (p_sub p2))) rest
         end
       end) p ms
  end.

(* designator(s, p) *)
Fixpoint designator (fuel : nat) (p : pstate) : result pstate :=
  match fuel with
  | O => Err ErrFuel
  | S f =>
    let t := o_ty (subo p) in
    match p_toks p with
    | TLBrack n :: toks =>
      if match t_kind (ty p t) with KArray => false | _ => true end then Err ErrIdxNotArray
      else
        let bsz := tsize p (t_base (ty p t)) in
        (* if (t->base->size && i > ULLONG_MAX / t->base->size - 1) error(...) *)
        if negb (bsz =? 0) && ((M64 - 1) / bsz - 1 <? n) then Err ErrIdxTooLarge else
        let idx := w64 (n * bsz) in
        r <- (if tsize p t <=? idx then
                if negb (tinc p t) then Err ErrIdxTooLarge else Ok (set_tsize p t (w64 (idx + bsz)))
              else Ok p) ;;
        let p1 := set_toks (set_u r (p_sub r) (UIdx idx)) toks in
        p2 <- subobj p1 (t_base (ty p t)) idx ;;
        designator f p2
    | TPeriod name :: toks =>
      if negb (is_su (t_kind (ty p t))) then Err ErrMemNotStruct
      else
        r <- findmember 40 (set_toks p toks) name (t_members (ty p t)) ;;
        let '(found, p1) := r in
        if found then designator f p1 else Err ErrNoMember
    | TAssign :: toks => Ok (set_toks p toks)
    | _ => Err ErrExpectAssign
    end
  end.

(* focus(p) *)
Definition focus (p : pstate) : result pstate :=
  let t := o_ty (subo p) in
  match t_kind (ty p t) with
  | KArray =>
    let b := t_base (ty p t) in
    let p1 := set_u p (p_sub p) (UIdx 0) in
    let p2 := if tinc p1 t then set_tsize p1 t (tsize p1 b) else p1 in
    subobj p2 b 0
  | KStruct | KUnion =>
    match t_members (ty p t) with
    | [] => Err ErrNoMembers                     (* error: initializer for a structure without members *)
    | m :: _ => subobj (set_u p (p_sub p) (UMem (t_members (ty p t)))) (m_type m) (m_off m)   (* unnamed bit-fields may precede *)
    end
  | KScalar => Err ErrCursorType
  end.

(* advance(p) *)
Fixpoint advance (fuel : nat) (p : pstate) : result pstate :=
  match fuel with
  | O => Err ErrFuel
  | S f =>
    match p_sub p with
    | O => Err ErrInternal
    | S s =>
      let p := set_sub p s in
      let t := o_ty (subo p) in
      let again (p : pstate) := if match p_cur p with Some c => Nat.eqb (p_sub p) c | None => false end
                                then Err ErrTooMany else advance f p in
      match t_kind (ty p t) with
      | KArray =>
        match o_u (subo p) with
        | UIdx i =>
          let bsz := tsize p (t_base (ty p t)) in
          let idx := w64 (i + bsz) in
          let p1 := set_u p s (UIdx idx) in
          if idx =? tsize p1 t then
            if negb (tinc p1 t) then again p1
            else subobj (set_tsize p1 t (w64 (tsize p1 t + bsz))) (t_base (ty p t)) idx
          else subobj p1 (t_base (ty p t)) idx
        | _ => Err ErrUninit
        end
      | KStruct =>
        match o_u (subo p) with
        | UMem (_ :: rest) =>
          let p1 := set_u p s (UMem rest) in
          match rest with
          | m :: _ => subobj p1 (m_type m) (m_off m)
          | [] => again p1
          end
        | _ => Err ErrUninit
        end
      | _ => again p
      end
    end
  end.

(* the bit-field of the member the parent slot points at (label `add:`) *)
Definition parent_bits (p : pstate) : result bitfield :=
  match p_sub p with
  | O => Ok nobits
  | S s =>
    if is_su (t_kind (ty p (o_ty (obj p s)))) then
      match o_u (obj p s) with
      | UMem (m :: _) => Ok (m_bits m)
      | _ => Err ErrUninit
      end
    else Ok nobits
  end.

(* do p.cur = p.cur == p.obj ? NULL : p.cur - 1; while (p.cur && !p.cur->iscur); *)
Fixpoint popcur (p : pstate) (c : nat) : option nat :=
  match c with
  | O => None
  | S c' => if o_iscur (obj p c') then Some c' else popcur p c'
  end.

(* p.sub->type->incomplete = false  (only the root type can be incomplete) *)
Definition clear_inc (p : pstate) : pstate :=
  if Nat.eqb (o_ty (subo p)) (p_root p) then set_rinc p false else p.

(* the trailing for(;;) of parseinit; skipreset = entered through `goto next` *)
Inductive after_res := Return (p : pstate) | Continue (p : pstate).

Fixpoint after (fuel : nat) (p : pstate) (skipreset : bool) : result after_res :=
  match fuel with
  | O => Err ErrFuel
  | S f =>
    let p := if negb skipreset && tinc p (o_ty (subo p)) then clear_inc p else p in
    match p_cur p with
    | None => Ok (Return p)
    | Some c =>
      let close (p : pstate) (toks : list itok) :=       (* next(); p.sub = p.cur; pop p.cur *)
        after f (set_cur (set_sub (set_toks p toks) c) (popcur p c)) false in
      match p_toks p with
      | TComma :: TRBrace :: toks => close p toks
      | TComma :: toks => Ok (Continue (set_toks p toks))
      | TRBrace :: toks => close p toks
      | _ => Err ErrExpectCommaBrace
      end
    end
  end.

(* the inner for(;;) after `expr = assignexpr(s)`: find the sub-object the expression initialises *)
Fixpoint place (fuel : nat) (p : pstate) (e : sexpr) : result (pstate * expr) :=
  match fuel with
  | O => Err ErrFuel
  | S f =>
    let t := o_ty (subo p) in
    let T := ty p t in
    let descend := p1 <- focus p ;; place f p1 e in
    match t_kind T with
    | KArray =>
      let B := ty p (t_base T) in
      match e with
      | XStr w ischar compat data _ =>
        if t_int B then
          if negb (t_char B && ischar) && negb (t_compat B =? compat) then Err ErrStringWidth
          else
            let p1 := if tinc p t then set_tsize p t (w64 (N.of_nat (length data) * w)) else p in
            Ok (p1, EString w data)
        else descend
      | _ => descend
      end
    | KStruct | KUnion =>
      match e with
      | XAgg compat size align id => if compat =? t_compat T then Ok (p, EOpaque true size align id) else descend
      | _ => descend
      end
    | KScalar => x <- conv T e ;; Ok (p, x)
    end
  end.

(* the outer for(;;) of parseinit *)
Fixpoint ploop (fuel : nat) (p : pstate) : result pstate :=
  match fuel with
  | O => Err ErrFuel
  | S f =>
    p1 <- match p_cur p with
          | None => Ok p
          | Some c =>
            match p_toks p with
            | TLBrack _ :: _ | TPeriod _ :: _ => designator 64 (set_inits (set_sub p c) (p_init p) O)
            | _ =>
              if negb (Nat.eqb (p_sub p) c) then advance 40 p
              else if is_su (t_kind (ty p (o_ty (obj p c)))) then focus p
              else Ok p
            end
          end ;;
    let after_step (r : result after_res) :=
      a <- r ;; match a with Return p => Ok p | Continue p => ploop f p end in
    match p_toks p1 with
    | TLBrace :: TRBrace :: toks =>
      if tinc p1 (o_ty (subo p1)) then Err ErrEmptyIncomplete
      else after_step (after (S (length toks)) (set_toks p1 toks) true)
    | TLBrace :: toks =>
      let p2 := set_toks p1 toks in
      p3 <- (if match p_cur p2 with Some c => Nat.eqb c (p_sub p2) | None => false end then
               match t_kind (ty p2 (o_ty (subo p2))) with
               | KScalar => Err ErrNestedBrace
               | KArray => focus p2
               | _ => Err ErrAssertArray
               end
             else Ok p2) ;;
      let o := subo p3 in
      ploop f (set_cur (set_obj p3 (p_sub p3) (mkobj (o_off o) (o_ty o) (o_u o) true)) (Some (p_sub p3)))
    | TExpr e :: toks =>
      r <- place 40 (set_toks p1 toks) e ;;
      let '(p2, x) := r in
      bits <- parent_bits p2 ;;
      let off := o_off (subo p2) in
      let '(l, last) := initadd (p_init p2) (p_last p2) (mkinit off (w64 (off + tsize p2 (o_ty (subo p2)))) bits x) in
      after_step (after (S (length toks)) (set_inits p2 l last) false)
    | _ => Err ErrExpectExpr
    end
  end.

(* parseinit(s, t): returns the init list and the (possibly grown) size of the root type *)
Definition parseinit (tbl : list ctype) (root : nat) (toks : list itok) : result (list init * N * list itok) :=
  let T := nth root tbl tdummy in
  if t_incomplete T && negb match t_kind T with KArray => true | _ => false end then Err ErrIncompleteType
  else if match t_kind T with KArray => t_size (nth (t_base T) tbl tdummy) =? 0 | _ => false end then Err ErrVLA
  else
    let p := mkp tbl root (t_size T) (t_incomplete T) [mkobj 0 root UNone false] O None [] O toks in
    r <- ploop (2 * length toks + 2) p ;;
    Ok (p_init r, p_rsize r, p_toks r).
