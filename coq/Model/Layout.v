(* C06 - executable model of cproc's object layout code.  NO proofs in this file.

   decl.c : addmember, structdecl (the three call shapes), tagspec (struct/union finish and the
            enum underlying-type loop), declarator (array size and its overflow check)
   type.c : typehasint, typemember
   expr.c : designator / __builtin_offsetof
   util.h : ALIGNDOWN(x, n) = x & -n, ALIGNUP(x, n) = ALIGNDOWN(x + n - 1, n)

   All arithmetic that is `unsigned long long` / `size_t` in C is written with an explicit
   `mod 2^64` (w64); `short`/`unsigned` stores are made explicit too.  Bugs included. *)
From Coq Require Import ZArith List Bool.
Import ListNotations.
Open Scope Z_scope.

Definition W64 : Z := 18446744073709551616.           (* 2^64 *)
Definition M1  : Z := 18446744073709551615.           (* (unsigned long long)-1, also the "no width" sentinel *)
Definition P63 : Z := 9223372036854775808.            (* 1ull << 63 *)
Definition w64 (x : Z) : Z := x mod W64.
Definition to_uint (x : Z) : Z := x mod 4294967296.   (* store into `unsigned` *)
Definition to_short (x : Z) : Z :=                    (* store into `short` (gcc: modulo 2^16) *)
  let y := x mod 65536 in if y <? 32768 then y else y - 65536.

(* util.h; n is an int or an unsigned long long: -(n) converted to 64 bits is w64 (- n) in both cases *)
Definition aligndown (x n : Z) : Z := Z.land x (w64 (- n)).
Definition alignup (x n : Z) : Z := aligndown (w64 (x + n - 1)) n.

(* ------------------------------------------------------------------ what addmember reads of a type *)
Record tinfo := mkT {
  t_size : Z; t_align : Z;
  t_int : bool;          (* prop & PROPINT *)
  t_array : bool;        (* kind == TYPEARRAY *)
  t_incomplete : bool;
  t_flexible : bool;
  t_func : bool;         (* kind == TYPEFUNC *)
  t_vm : bool            (* prop & PROPVM *)
}.

Record member := mkM { m_named : bool; m_tsize : Z; m_offset : Z; m_before : Z; m_after : Z }.

Record builder := mkB {
  b_struct : bool;       (* t->kind == TYPESTRUCT (else union) *)
  b_pack : bool;
  b_size : Z; b_align : Z; b_flex : bool;
  b_bits : Z;            (* number of bits remaining in the last byte *)
  b_members : list member
}.

Inductive err :=
| EAfterFlex | EIncomplete | EContainsFlex | EFuncType | EVarMod | EAssertAlign
| ELessStrict | EBfType | EBfAlign | EBfPacked | EBfZeroNamed | EBfWidth | ENoMembers
| EArrElemIncomplete | EArrElemFunc | EArrNeg | EArrTooLarge | EArrVM
| EEnumNoType | EEnumFixedRange | EEnumAssert | EEnumNoTypeAll
| ENoMember | ENotArray | ENotRecord.

Inductive res (A : Type) := Ok (a : A) | Err (e : err).
Arguments Ok {A} a.
Arguments Err {A} e.

Definition binit (is_struct pack : bool) : builder := mkB is_struct pack 0 0 false 0 [].

(* arguments of one addmember call *)
Record minput := mkMI { mi_t : tinfo; mi_named : bool; mi_align : Z; mi_width : Z }.

Definition addmember (b : builder) (mi : minput) : res builder :=
  let mt := mi_t mi in
  let width := mi_width mi in
  if b_struct b && b_flex b then Err EAfterFlex else
  if t_incomplete mt && negb (t_array mt) then Err EIncomplete else
  let flex1 := b_flex b || t_incomplete mt in
  if t_flexible mt && b_struct b then Err EContainsFlex else
  let flex2 := flex1 || t_flexible mt in
  if t_func mt then Err EFuncType else
  if t_vm mt then Err EVarMod else
  if t_align mt <=? 0 then Err EAssertAlign else
  let has_m := mi_named mi || (width =? M1) in
  if width =? M1 then
    (* plain member *)
    let r_align :=
      if mi_align mi <? t_align mt then
        if negb (mi_align mi =? 0) then Err ELessStrict
        else Ok (if b_pack b then 1 else t_align mt)
      else Ok (mi_align mi) in
    match r_align with
    | Err e => Err e
    | Ok align =>
      let '(off, size') :=
        if b_struct b then
          let off := alignup (b_size b) align in (off, w64 (off + t_size mt))
        else (0, if b_size b <? t_size mt then t_size mt else b_size b) in
      let m := mkM (mi_named mi) (t_size mt) off 0 0 in
      let align' := if b_align b <? align then align else b_align b in
      Ok (mkB (b_struct b) (b_pack b) size' align' flex2 0 (b_members b ++ [m]))
    end
  else
    (* bit-field *)
    if negb (t_int mt) then Err EBfType else
    if negb (mi_align mi =? 0) then Err EBfAlign else
    if b_pack b then Err EBfPacked else
    if (width =? 0) && mi_named mi then Err EBfZeroNamed else
    if w64 (t_size mt * 8) <? width then Err EBfWidth else
    let align := t_align mt in
    let align' := if has_m && (b_align b <? align) then align else b_align b in
    if b_struct b then
      let e := alignup (b_size b) (t_size mt) in
      let '(size1, bits1) :=
        if (width =? 0) || (w64 (w64 ((e - b_size b) * 8) + b_bits b) <? width)
        then (e, 0) else (b_size b, b_bits b) in
      let ms :=
        if has_m then
          let off := aligndown (w64 (size1 - (if bits1 =? 0 then 0 else 1))) (t_size mt) in
          let before := to_short (w64 (w64 ((size1 - off) * 8) - bits1)) in
          let after := to_short (w64 (w64 (w64 (t_size mt * 8) - width) - before)) in
          [mkM (mi_named mi) (t_size mt) off before after]
        else [] in
      let size2 := w64 (size1 + w64 (width - bits1 + 7) / 8) in
      let bits2 := to_uint (w64 (bits1 - width) mod 8) in
      Ok (mkB true (b_pack b) size2 align' flex2 bits2 (b_members b ++ ms))
    else if has_m then
      let m := mkM (mi_named mi) (t_size mt) 0 0 (to_short (w64 (w64 (t_size mt * 8) - width))) in
      let size' := if b_size b <? t_size mt then t_size mt else b_size b in
      Ok (mkB false (b_pack b) size' align' flex2 (b_bits b) (b_members b ++ [m]))
    else
      (* an unnamed bit-field still occupies storage *)
      let sz := w64 (width + 7) / 8 in
      let size' := if b_size b <? sz then sz else b_size b in
      Ok (mkB false (b_pack b) size' align' flex2 (b_bits b) (b_members b)).

(* structdecl: the three ways a member declaration reaches addmember *)
Inductive item :=
| INamed (t : tinfo) (alignas : Z) (width : option Z)   (* declarator [: width]              *)
| IAnon (t : tinfo) (alignas : Z)                       (* struct/union specifier followed by ';' *)
| IUnnamedBf (t : tinfo) (width : Z).                   (* ": width" (alignment argument is 0) *)

Definition item_input (it : item) : minput :=
  match it with
  | INamed t a None => mkMI t true a M1
  | INamed t a (Some w) => mkMI t true a w
  | IAnon t a => mkMI t false a M1
  | IUnnamedBf t w => mkMI t false 0 w
  end.

(* structdecl rejects a width equal to the "not a bit-field" marker before calling addmember *)
Definition item_check (it : item) : bool :=
  match it with
  | INamed _ _ (Some w) => negb (w =? M1)
  | IUnnamedBf _ w => negb (w =? M1)
  | _ => true
  end.

Definition structdecl (b : builder) (it : item) : res builder :=
  if item_check it then addmember b (item_input it) else Err EBfWidth.

Fixpoint addmembers (b : builder) (its : list item) : res builder :=
  match its with
  | [] => Ok b
  | it :: rest => match structdecl b it with
                  | Ok b' => addmembers b' rest
                  | Err e => Err e
                  end
  end.

(* tagspec, TYPESTRUCT / TYPEUNION branch after the member loop *)
Definition finish (b : builder) : res (tinfo * list member) :=
  match b_members b with
  | [] => Err ENoMembers
  | _ => let size := if b_pack b then b_size b else alignup (b_size b) (b_align b) in
         Ok (mkT size (b_align b) false false false (b_flex b) false false, b_members b)
  end.

Definition record_layout (is_struct pack : bool) (its : list item) : res (tinfo * list member) :=
  match addmembers (binit is_struct pack) its with
  | Ok b => finish b
  | Err e => Err e
  end.

(* ------------------------------------------------------------------ declarator: array types *)
(* length given as (value, signedness of its type); None = no length expression *)
Definition array_type (base : tinfo) (len : option (Z * bool)) : res tinfo :=
  if t_incomplete base then Err EArrElemIncomplete else
  if t_func base then Err EArrElemFunc else
  match len with
  | None => Ok (mkT 0 (t_align base) false true true false false (t_vm base))
  | Some (n, sgn) =>
    if t_size base =? 0 then Err EArrVM else      (* falls into the variable-length branch *)
    if sgn && (P63 <=? n) then Err EArrNeg else
    if M1 / t_size base <? n then Err EArrTooLarge else
    Ok (mkT (w64 (t_size base * n)) (t_align base) false true false false false (t_vm base))
  end.

(* ------------------------------------------------------------------ enums *)
Record itype := mkI { i_id : Z; i_size : Z; i_signed : bool }.
Definition tint := mkI 6 4 true.
Definition tuint := mkI 7 4 false.
Definition tlong := mkI 8 8 true.
Definition tulong := mkI 9 8 false.
Definition tllong := mkI 10 8 true.
Definition tullong := mkI 11 8 false.
Definition self_id : Z := 100.        (* "the enum type itself" *)

(* type.c typehasint *)
Definition typehasint (t : itype) (i : Z) (sign : bool) : bool :=
  if sign && (P63 <=? i)
  then i_signed t && (w64 (- Z.shiftl 1 (i_size t * 8 - 1)) <=? i)
  else i <=? Z.shiftr M1 ((8 - i_size t) * 8 + (if i_signed t then 1 else 0)).

Definition ladder (sign : bool) : list itype :=
  if sign then [tint; tlong; tllong] else [tuint; tulong; tullong].

Fixpoint first_fit (p : itype -> bool) (l : list itype) : option itype :=
  match l with
  | [] => None
  | t :: r => if p t then Some t else first_fit p r
  end.

Record estate := mkE {
  e_first : bool;
  e_value : Z;
  e_et : itype;
  e_min : Z; e_max : Z;
  e_consts : list (Z * itype)      (* in source order *)
}.

(* fixed: Some base when the enum has a fixed underlying type; et then starts as the enum type itself *)
Definition einit (fixed : option itype) : estate :=
  match fixed with
  | Some b => mkE true 0 (mkI self_id (i_size b) (i_signed b)) 0 0 []
  | None => mkE true 0 tint 0 0 []
  end.

Definition enum_record (st : estate) (value : Z) (et : itype) : estate :=
  let '(mn, mx) :=
    if i_signed et && (P63 <=? value)
    then ((if e_min st <? w64 (- value) then w64 (- value) else e_min st), e_max st)
    else (e_min st, (if e_max st <? value then value else e_max st)) in
  mkE false value et mn mx (e_consts st ++ [(value, et)]).

(* one enumerator: None = no initializer, Some (value, type of the constant expression) *)
Definition enum_step (fixed : bool) (st : estate) (e : option (Z * itype)) : res estate :=
  match e with
  | Some (value, ty) =>
    if negb fixed then
      let et := if typehasint tint value (i_signed ty) then tint else ty in
      Ok (enum_record st value et)
    else if negb (typehasint (e_et st) value (i_signed ty)) then Err EEnumFixedRange
    else Ok (enum_record st value (e_et st))
  | None =>
    let value := if e_first st then 0 else w64 (e_value st + 1) in
    let et := e_et st in
    if (negb (e_first st) && ((value =? 0) && negb (i_signed et))) || ((value =? P63) && i_signed et) then Err EEnumNoType
    else if negb (typehasint et value (i_signed et)) then
      if fixed then Err EEnumFixedRange else
      match first_fit (fun t => typehasint t value (i_signed et)) (ladder (i_signed et)) with
      | Some et' => Ok (enum_record st value et')
      | None => Err EEnumAssert
      end
    else Ok (enum_record st value et)
  end.

Fixpoint enum_steps (fixed : bool) (st : estate) (es : list (option (Z * itype))) : res estate :=
  match es with
  | [] => Ok st
  | e :: r => match enum_step fixed st e with
              | Ok st' => enum_steps fixed st' r
              | Err x => Err x
              end
  end.

(* result: underlying type and the enumerators with their final types *)
Definition enum_finish (fixed : option itype) (st : estate) : res (itype * list (Z * itype)) :=
  match fixed with
  | Some b => Ok (b, e_consts st)
  | None =>
    if (e_min st <=? 2147483648) && (e_max st <=? 2147483647) then
      Ok ((if e_min st =? 0 then tuint else tint), e_consts st)
    else
      let sign := 0 <? e_min st in
      match first_fit (fun t => typehasint t (e_max st) false && typehasint t (w64 (- e_min st)) true) (ladder sign) with
      | None => Err EEnumNoTypeAll
      | Some et => Ok (et, map (fun c => (fst c, mkI self_id (i_size et) (i_signed et))) (e_consts st))
      end
  end.

Definition enum_type (fixed : option itype) (es : list (option (Z * itype))) : res (itype * list (Z * itype)) :=
  match enum_steps (match fixed with Some _ => true | None => false end) (einit fixed) es with
  | Ok st => enum_finish fixed st
  | Err e => Err e
  end.

(* ------------------------------------------------------------------ typemember / designator / offsetof *)
(* member entry: name (None = anonymous), offset, (before, after), type *)
Inductive cty :=
| CScalar (size : Z)
| CArray (elem : cty) (esize : Z)
| CRecord (ms : list (option Z * Z * (Z * Z) * cty)).

Fixpoint typemember (t : cty) (name : Z) (offset : Z) {struct t} : option (Z * (Z * Z) * cty) :=
  match t with
  | CRecord ms =>
    (fix go (l : list (option Z * Z * (Z * Z) * cty)) : option (Z * (Z * Z) * cty) :=
       match l with
       | [] => None
       | (Some n, off, bits, mt) :: l' =>
           if n =? name then Some (w64 (offset + off), bits, mt) else go l'
       | (None, off, bits, mt) :: l' =>
           match typemember mt name offset with
           | Some (o, sb, st) => Some (w64 (o + off), sb, st)
           | None => go l'
           end
       end) ms
  | _ => None
  end.

Inductive desig := DIdx (i : Z) | DField (name : Z).

Fixpoint designator (t : cty) (bits : Z * Z) (ds : list desig) (offset : Z) : res (Z * (Z * Z)) :=
  match ds with
  | [] => Ok (offset, bits)
  | DIdx i :: r =>
    match t with
    | CArray elem esize => designator elem (0, 0) r (w64 (offset + w64 (i * esize)))
    | _ => Err ENotArray
    end
  | DField name :: r =>
    match t with
    | CRecord _ =>
      match typemember t name offset with
      | Some (o, b, mt) => designator mt b r o
      | None => Err ENoMember
      end
    | _ => Err ENotRecord
    end
  end.

(* __builtin_offsetof(t, name designators...) ; also returns the bit-field position of the final member *)
Definition offsetof (t : cty) (name : Z) (ds : list desig) : res (Z * (Z * Z)) :=
  match t with
  | CRecord _ =>
    match typemember t name 0 with
    | Some (o, b, mt) => designator mt b ds o
    | None => Err ENoMember
    end
  | _ => Err ENotRecord
  end.
