(* C09 - executable model of cproc's linkage / symbol-table decisions for ONE identifier.
   Mirrors, function for function (bugs included):

     decl.c   getlinkage, declcommon, decl() [DECLOBJECT and DECLFUNC cases], defineobj,
              the tentativedefns list, emittentativedefns, mkdecl
     qbe.c    mkglobal (the `static unsigned id` counter, taken only by no-linkage globals without
              assembler name), mkfunc (its `__func__` object takes one number), emitname / emitdata /
              emitfunc as far as the keywords `export`, `thread` and the symbol name are concerned
     scope.c  scopegetdecl(s, name, recurse) on the chain of scopes, restricted to the one identifier

   Representation.  `struct decl` records are kept BY VALUE in the scope frames: declcommon either
   returns the record already bound in the current scope or creates a fresh one and binds it there, so no
   record is ever shared between two scopes.  The only other pointer to a record is the tentative
   definition list; an object can only be appended there from file scope (at block scope getlinkage
   yields LINKNONE unless `extern` is present, and `extern` leaves decl() before the list is touched),
   so the list entries of this identifier all alias the file-scope record: `ms_tent` counts them.

   No proofs in this file. *)
From Coq Require Import List NArith Bool.
From Cproc Require Import Lib.LinkageBase.
Import ListNotations.

Inductive linkage := LNone | LIntern | LExtern.           (* enum linkage *)
Inductive storage := SStatic | SThread | SAuto.           (* enum storageduration; SDSTATIC = 0 is what memset leaves *)

Definition link_eqb a b := match a, b with LNone, LNone | LIntern, LIntern | LExtern, LExtern => true | _, _ => false end.
Definition storage_eqb a b := match a, b with SStatic, SStatic | SThread, SThread | SAuto, SAuto => true | _, _ => false end.

(* struct value as far as names go: a global (name or assembler name, id, VALUE_THREAD) or a function-local temporary *)
Inductive gval := VGlobal (asm : option N) (id : N) (thread : bool) | VTemp.

Record mdecl := {
  md_kind : kind;
  md_link : linkage;
  md_defined : bool;
  md_tentative : bool;
  md_inlinedefn : bool;            (* u.func.inlinedefn *)
  md_storage : storage;            (* u.obj.storage *)
  md_asm : option N;
  md_value : option gval           (* None = NULL *)
}.

Definition mkdecl (k : kind) (l : linkage) (asm : option N) : mdecl :=
  {| md_kind := k; md_link := l; md_defined := false; md_tentative := false; md_inlinedefn := false;
     md_storage := SStatic; md_asm := asm; md_value := None |}.

Definition set_storage d s := {| md_kind := md_kind d; md_link := md_link d; md_defined := md_defined d; md_tentative := md_tentative d;
  md_inlinedefn := md_inlinedefn d; md_storage := s; md_asm := md_asm d; md_value := md_value d |}.
Definition set_value d v := {| md_kind := md_kind d; md_link := md_link d; md_defined := md_defined d; md_tentative := md_tentative d;
  md_inlinedefn := md_inlinedefn d; md_storage := md_storage d; md_asm := md_asm d; md_value := v |}.
Definition set_defined d := {| md_kind := md_kind d; md_link := md_link d; md_defined := true; md_tentative := md_tentative d;
  md_inlinedefn := md_inlinedefn d; md_storage := md_storage d; md_asm := md_asm d; md_value := md_value d |}.
Definition set_tentative d := {| md_kind := md_kind d; md_link := md_link d; md_defined := md_defined d; md_tentative := true;
  md_inlinedefn := md_inlinedefn d; md_storage := md_storage d; md_asm := md_asm d; md_value := md_value d |}.
Definition set_inlinedefn d b := {| md_kind := md_kind d; md_link := md_link d; md_defined := md_defined d; md_tentative := md_tentative d;
  md_inlinedefn := b; md_storage := md_storage d; md_asm := md_asm d; md_value := md_value d |}.

(* what the unit prints about the identifier *)
Inductive mevent :=
| EData (asm : option N) (id : N) (thread export : bool)     (* emitdata: [thread ][export ]data $name *)
| EFunc (asm : option N) (id : N) (export : bool).           (* emitfunc: [export\n]function ... $name( *)
Inductive mref :=
| MRef (asm : option N) (id : N) (thread : bool)             (* emitvalue: [thread ]$name *)
| MRefTemp.                                                  (* a temporary %.N *)

Record mstate := {
  ms_frames : list (option mdecl);   (* binding of the identifier per scope, innermost first, file scope last *)
  ms_nextid : N;                     (* mkglobal's `static unsigned id` *)
  ms_tent : nat;                     (* entries of tentativedefns for this identifier *)
  ms_defs : list mevent;             (* newest first *)
  ms_refs : list mref;               (* newest first *)
  ms_crash : bool                    (* the function being compiled refers to a NULL value: emitfunc will fault *)
}.

Inductive mres := MOk (m : mstate) | MReject | MCrash | MIll.

Definition init_state : mstate :=
  {| ms_frames := [None]; ms_nextid := 0; ms_tent := 0; ms_defs := []; ms_refs := []; ms_crash := false |}.

Definition two32 : N := 4294967296.
Definition bump (id : N) : N := ((id + 1) mod two32)%N.       (* ++id on unsigned *)

(* decl.c: getlinkage *)
Definition getlinkage (k : kind) (is_static is_extern : bool) (prior : option mdecl) (filescope : bool) : linkage :=
  if is_static then (if filescope then LIntern else LNone)
  else if is_extern || kind_eqb k KFunc then
    match prior with
    | Some p => if negb (link_eqb (md_link p) LNone) then md_link p else LExtern
    | None => LExtern
    end
  else if filescope then LExtern else LNone.

(* asmname && (!prior->asmname || strcmp(prior->asmname, asmname) != 0) *)
Definition asm_clash (asm prior_asm : option N) : bool :=
  match asm with
  | None => false
  | Some a => match prior_asm with None => true | Some b => negb (N.eqb a b) end
  end.

(* decl.c: declcommon.  `parents` is the chain s->parent, ... ; [] means s == &filescope.
   None = error().  The result is the record bound in the current scope afterwards. *)
Definition declcommon (parents : list (option mdecl)) (k : kind) (asm : option N) (is_static is_extern : bool)
           (prior : option mdecl) : option mdecl :=
  let filescope := is_nil parents in
  match prior with
  | Some p =>
    if link_eqb (md_link p) LNone then None else
    let l := getlinkage k is_static is_extern (Some p) filescope in
    if negb (link_eqb (md_link p) l) then None else
    if asm_clash asm (md_asm p) then None else
    Some p
  | None =>
    let vis := lookup parents in                 (* if (s->parent) prior = scopegetdecl(s->parent, name, true) *)
    let l := getlinkage k is_static is_extern vis filescope in
    if negb (link_eqb l LNone) && negb filescope then
      let fprior := match parents with
                    | [_] => vis                       (* s->parent == &filescope *)
                    | _ => last parents None            (* scopegetdecl(&filescope, name, false) *)
                    end in
      match fprior with
      | Some p =>
        if negb (link_eqb (md_link p) LNone) then
          if negb (kind_eqb (md_kind p) k) then None else
          if negb (link_eqb (md_link p) l) then None else
          match asm with
          | None => Some (mkdecl k l (md_asm p))
          | Some _ => if asm_clash asm (md_asm p) then None else Some (mkdecl k l asm)
          end
        else Some (mkdecl k l asm)
      | None => Some (mkdecl k l asm)
      end
    else Some (mkdecl k l asm)
  end.

(* qbe.c: mkglobal *)
Definition mkglobal (d : mdecl) (nextid : N) : gval * N :=
  let thr := match md_kind d, md_storage d with KObj, SThread => true | _, _ => false end in
  match md_asm d with
  | Some a => (VGlobal (Some a) 0 thr, nextid)
  | None =>
    match md_link d with
    | LNone => let id := bump nextid in (VGlobal None id thr, id)
    | _ => (VGlobal None 0 thr, nextid)
    end
  end.

(* decl.c: defineobj (funcinit gives an automatic object its stack slot, emitdata prints a definition);
   None = emitname(NULL) *)
Definition defineobj (d : mdecl) (defs : list mevent) : option (mdecl * list mevent) :=
  match md_storage d with
  | SAuto => Some (set_defined (set_value d (Some VTemp)), defs)
  | stg =>
    match md_value d with
    | Some (VGlobal a id _) =>
      Some (set_defined d, EData a id (storage_eqb stg SThread) (link_eqb (md_link d) LExtern) :: defs)
    | _ => None
    end
  end.

Definition set_cur (m : mstate) (d : mdecl) (parents : list (option mdecl)) (nid : N) (tent : nat) (defs : list mevent) : mstate :=
  {| ms_frames := Some d :: parents; ms_nextid := nid; ms_tent := tent; ms_defs := defs; ms_refs := ms_refs m; ms_crash := ms_crash m |}.

Definition kind_clash (prior : option mdecl) (k : kind) : bool :=
  match prior with Some p => negb (kind_eqb (md_kind p) k) | None => false end.

(* decl.c: decl(), case DECLOBJECT, for `[sc] int x [__asm__(..)] [= 1];` *)
Definition decl_obj (m : mstate) (sc : osc) (asm : option N) (init : bool) : mres :=
  match ms_frames m with
  | [] => MIll
  | prior :: parents =>
    let infunc := negb (is_nil parents) in
    if infunc && osc_thread_only sc then MReject else        (* block scope thread_local needs static or extern *)
    if kind_clash prior KObj then MReject else
    match declcommon parents KObj asm (osc_static sc) (osc_extern sc) prior with
    | None => MReject
    | Some d =>
      let '(d1, nid) :=
        if link_eqb (md_link d) LNone && negb (osc_static sc) then (set_storage d SAuto, ms_nextid m)
        else
          let d' := set_storage d (if osc_thread sc then SThread else SStatic) in
          let '(v, nid) := mkglobal d' (ms_nextid m) in
          (set_value d' (Some v), nid) in
      let define :=
        match defineobj d1 (ms_defs m) with
        | None => MCrash
        | Some (d2, defs) => MOk (set_cur m d2 parents nid (ms_tent m) defs)
        end in
      if init then
        if infunc && negb (link_eqb (md_link d1) LNone) then MReject
        else if md_defined d1 then MReject
        else define
      else if osc_extern sc then MOk (set_cur m d1 parents nid (ms_tent m) (ms_defs m))
      else if negb (link_eqb (md_link d1) LNone) && storage_eqb (md_storage d1) SStatic then
        if negb (md_defined d1) && negb (md_tentative d1)
        then MOk (set_cur m (set_tentative d1) parents nid (S (ms_tent m)) (ms_defs m))
        else MOk (set_cur m d1 parents nid (ms_tent m) (ms_defs m))
      else define
    end
  end.

(* decl.c: decl(), case DECLFUNC, for `[sc] [inline] int x(void) [__asm__(..)];` or `... { return 0; }` *)
Definition decl_func (m : mstate) (sc : fsc) (isinl : bool) (asm : option N) (body : bool) : mres :=
  match ms_frames m with
  | [] => MIll
  | prior :: parents =>
    let infunc := negb (is_nil parents) in
    if kind_clash prior KFunc then MReject else
    if infunc && fsc_static sc then MReject else             (* f && sc && sc != SCEXTERN *)
    match declcommon parents KFunc asm (fsc_static sc) (fsc_extern sc) prior with
    | None => MReject
    | Some d =>
      let '(v, nid) := mkglobal d (ms_nextid m) in
      let prior_inl := match prior with None => true | Some p => md_inlinedefn p end in
      let d1 := set_inlinedefn (set_value d (Some v))
                  (link_eqb (md_link d) LExtern && isinl && negb (fsc_extern sc) && prior_inl) in
      if body then
        if infunc || match asm with Some _ => true | None => false end then MReject   (* !allowfunc *)
        else if md_defined d1 then MReject
        else
          let nid' := bump nid in                            (* mkfunc: mkglobal for __func__ *)
          let defs := if md_inlinedefn d1 then ms_defs m
                      else match v with
                           | VGlobal a id _ => EFunc a id (link_eqb (md_link d1) LExtern) :: ms_defs m
                           | VTemp => ms_defs m
                           end in
          MOk (set_cur m (set_defined d1) parents nid' (ms_tent m) defs)
      else MOk (set_cur m d1 parents nid (ms_tent m) (ms_defs m))
    end
  end.

Definition with_frames (m : mstate) (fr : list (option mdecl)) (nid : N) (crash : bool) : mstate :=
  {| ms_frames := fr; ms_nextid := nid; ms_tent := ms_tent m; ms_defs := ms_defs m; ms_refs := ms_refs m; ms_crash := crash |}.

Definition step (m : mstate) (it : item) : mres :=
  match it with
  | IOpen =>
    match ms_frames m with
    | [] => MIll
    | [f] => MOk (with_frames m [None; None; f] (bump (ms_nextid m)) (ms_crash m))   (* parameter scope, body block; mkfunc *)
    | fr => MOk (with_frames m (None :: fr) (ms_nextid m) (ms_crash m))
    end
  | IClose =>
    match ms_frames m with
    | _ :: ((_ :: _ :: _ :: _) as fr) => MOk (with_frames m fr (ms_nextid m) (ms_crash m))
    | [_; _; f] => if ms_crash m then MCrash else MOk (with_frames m [f] (ms_nextid m) false)   (* emitfunc of the wrapper *)
    | _ => MIll
    end
  | IBump => MOk (with_frames m (ms_frames m) (bump (ms_nextid m)) (ms_crash m))
  | IUse =>
    match ms_frames m with
    | [] | [_] => MIll
    | fr =>
      match lookup fr with
      | None => MReject                                       (* undeclared identifier *)
      | Some d =>
        match md_value d with
        | None => MOk (with_frames m fr (ms_nextid m) true)
        | Some VTemp =>
          MOk {| ms_frames := fr; ms_nextid := ms_nextid m; ms_tent := ms_tent m; ms_defs := ms_defs m;
                 ms_refs := MRefTemp :: ms_refs m; ms_crash := ms_crash m |}
        | Some (VGlobal a id t) =>
          MOk {| ms_frames := fr; ms_nextid := ms_nextid m; ms_tent := ms_tent m; ms_defs := ms_defs m;
                 ms_refs := MRef a id t :: ms_refs m; ms_crash := ms_crash m |}
        end
      end
    end
  | IDecl (DObj sc asm init) => decl_obj m sc asm init
  | IDecl (DFunc sc isinl asm body) => decl_func m sc isinl asm body
  end.

Fixpoint steps (m : mstate) (h : list item) : mres :=
  match h with
  | [] => MOk m
  | it :: h' => match step m it with MOk m' => steps m' h' | r => r end
  end.

(* decl.c: emittentativedefns, restricted to the entries of this identifier (all alias the file-scope record) *)
Fixpoint flush (n : nat) (d : mdecl) (defs : list mevent) : option (mdecl * list mevent) :=
  match n with
  | O => Some (d, defs)
  | S n' =>
    if md_defined d then flush n' d defs
    else match defineobj d defs with
         | None => None
         | Some (d', defs') => flush n' d' defs'
         end
  end.

Inductive mfinal := FAccept (defs : list mevent) (refs : list mref) | FReject | FCrash | FIll.

Definition finish (m : mstate) : mfinal :=
  match ms_frames m with
  | [None] => FAccept (rev (ms_defs m)) (rev (ms_refs m))
  | [Some d] =>
    match flush (ms_tent m) d (ms_defs m) with
    | None => FCrash
    | Some (_, defs) => FAccept (rev defs) (rev (ms_refs m))
    end
  | _ => FIll
  end.

Definition run_events (h : list item) : mfinal :=
  match steps init_state h with
  | MOk m => finish m
  | MReject => FReject
  | MCrash => FCrash
  | MIll => FIll
  end.

(* ---- what nm would show: names with id 0 are named symbols, the others are $.Lname.id ---- *)
Fixpoint obs_linked (l : list mevent) : list ldef :=
  match l with
  | [] => []
  | EData a id t e :: r =>
    if N.eqb id 0 then {| ld_name := symname_of a; ld_kind := KObj; ld_thread := t; ld_export := e |} :: obs_linked r else obs_linked r
  | EFunc a id e :: r =>
    if N.eqb id 0 then {| ld_name := symname_of a; ld_kind := KFunc; ld_thread := false; ld_export := e |} :: obs_linked r else obs_linked r
  end.
Fixpoint obs_anon (l : list mevent) : list bool :=
  match l with
  | [] => []
  | EData _ id t _ :: r => if N.eqb id 0 then obs_anon r else t :: obs_anon r
  | EFunc _ id _ :: r => if N.eqb id 0 then obs_anon r else false :: obs_anon r
  end.
Definition obs_ref (r : mref) : sref :=
  match r with
  | MRefTemp => RAuto
  | MRef a id t => if N.eqb id 0 then RLinked (symname_of a) t else RAnon t
  end.

Definition observe (f : mfinal) : outcome :=
  match f with
  | FAccept defs refs => Accept {| st_linked := obs_linked defs; st_anon := obs_anon defs; st_refs := map obs_ref refs |}
  | FReject => Reject
  | FCrash => Crash
  | FIll => Ill
  end.

Definition run (h : list item) : outcome := observe (run_events h).

(* the numbers handed out to no-linkage globals of this identifier, in order *)
Fixpoint local_ids (l : list mevent) : list N :=
  match l with
  | [] => []
  | EData None id _ _ :: r | EFunc None id _ :: r => if N.eqb id 0 then local_ids r else id :: local_ids r
  | _ :: r => local_ids r
  end.
