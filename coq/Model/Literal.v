(* Model of the literal pipeline of cproc: scan.c (escape, charconst, stringlit), expr.c
   (isodigit, decodechar, encodechar8/16/32, stringconcat, the TCHARCONST case of primaryexpr)
   and targ.c (char signedness, wchar_t).  Executable, no proofs.

   Memory: a token's text `tok.lit` is the byte list the scanner collected (bufget copies
   b->len bytes, so bytes after an embedded NUL are physically there) followed by the NUL that
   bufget appends.  A `char *` is the list of bytes from the pointer on; dereferencing the empty
   list is a read past the allocation and is reported as EOver.  size_t arithmetic is mod 2^64,
   uint_least32_t arithmetic mod 2^32 (masks, as in Model/Utf.v). *)
From Coq Require Import NArith List Bool.
From Cproc Require Import Spec.Unicode Model.Utf.
Import ListNotations.
Open Scope N_scope.

Definition M64 : N := 0x10000000000000000.

(* ------------------------------------------------------------------ <ctype.h> in the C locale *)
Definition isdigit (c : N) : bool := (48 <=? c) && (c <=? 57).
Definition isxdigit (c : N) : bool :=
  isdigit c || ((97 <=? c) && (c <=? 102)) || ((65 <=? c) && (c <=? 70)).
Definition tolower (c : N) : N := if (65 <=? c) && (c <=? 90) then c + 32 else c.

(* expr.c: static int isodigit(int c) { return '0' <= c && c <= '7'; } *)
Definition isodigit (c : N) : bool := (48 <=? c) && (c <=? 55).
(* scan.c: static int isodigit(int c) { return (unsigned)c - '0' < 8; } *)
Definition scan_isodigit (c : N) : bool := sub32 c 48 <? 8.

(* ( *s > '9' ? 10 + tolower( *s) - 'a' : *s - '0') *)
Definition hexval (d : N) : N := if 57 <? d then 10 + tolower d - 97 else d - 48.

(* ------------------------------------------------------------------ targ.c: alltargs *)
Definition targ_x86_64_sysv : target := mktarget true TInt.      (* .typewchar = &typeint, .signedchar = 1 *)
Definition targ_aarch64 : target := mktarget false TUInt.        (* .typewchar = &typeuint *)
Definition targ_riscv64 : target := mktarget false TInt.         (* .typewchar = &typeint *)

(* ------------------------------------------------------------------ expr.c: decodechar *)
Inductive err := EPrefix | EUtf8 | EAssert | EOver | EFuel | EMulti | ERepr.

Inductive dres := DOk (chr : N) (hexoct : bool) (rest : list N) | DErr (e : err).

(* do c = c * 16 + hexval( *s); while (isxdigit( *++s));   entered with isxdigit( *s) asserted,
   which makes it the while loop below.  c is uint_least32_t. *)
Fixpoint hexloop (c : N) (s : list N) : N * list N :=
  match s with
  | d :: s' => if isxdigit d then hexloop (N.land (c * 16 + hexval d) 0xffffffff) s' else (c, s)
  | [] => (c, [])
  end.

(* i = 0; do c = c * 8 + ( *s++ - '0'); while (++i < 3 && isodigit( *s));   entered with isodigit( *s)
   asserted; fuel = digits still allowed *)
Fixpoint octloop (fuel : nat) (c : N) (s : list N) : N * list N :=
  match fuel with
  | O => (c, s)
  | S f =>
      match s with
      | d :: s' => if isodigit d then octloop f (N.land (c * 8 + (d - 48)) 0xffffffff) s' else (c, s)
      | [] => (c, [])
      end
  end.

(* returns the decoded value, whether it came from a hex/octal escape, and the advanced pointer
   (the C returns the number of bytes consumed and the caller adds it to src) *)
Definition decodechar (s : list N) : dres :=
  match s with
  | [] => DErr EOver
  | c0 :: s1 =>
      if c0 =? 92 then                                  (* '\\' *)
        match s1 with
        | [] => DErr EOver
        | e :: s2 =>
            if (e =? 39) || (e =? 34) || (e =? 63) || (e =? 92) then DOk e false s2
            else if e =? 97 then DOk 7 false s2           (* \a *)
            else if e =? 98 then DOk 8 false s2           (* \b *)
            else if e =? 102 then DOk 12 false s2         (* \f *)
            else if e =? 110 then DOk 10 false s2         (* \n *)
            else if e =? 114 then DOk 13 false s2         (* \r *)
            else if e =? 116 then DOk 9 false s2          (* \t *)
            else if e =? 118 then DOk 11 false s2         (* \v *)
            else if e =? 120 then                         (* \x *)
              match s2 with
              | [] => DErr EOver
              | d :: _ => if isxdigit d then let (c, r) := hexloop 0 s2 in DOk c true r
                          else DErr EAssert               (* assert(isxdigit( *s)) *)
              end
            else if isodigit e then let (c, r) := octloop 3 0 s1 in DOk c true r
            else DErr EAssert                             (* assert(isodigit( *s)) *)
        end
      else
        match utf8dec s 4 with
        | Dec c l => DOk c false (skipn (N.to_nat l) s)
        | Invalid => DErr EUtf8                           (* error: ... contains invalid UTF-8 *)
        | OutOfBounds => DErr EOver
        end
  end.

(* ------------------------------------------------------------------ expr.c: encodechar8/16/32 (results in elements) *)
Definition encodechar8 (chr : N) (hexoct : bool) : enc :=
  if negb hexoct then utf8enc chr else Enc [N.land chr 0xff].          (* *(unsigned char * )dst = chr *)
Definition encodechar16 (chr : N) (hexoct : bool) : enc :=
  if negb hexoct then utf16enc chr else Enc [N.land chr 0xffff].       (* *(uint_least16_t * )dst = chr *)
Definition encodechar32 (chr : N) (hexoct : bool) : enc := Enc [chr].  (* *(uint_least32_t * )dst = chr *)

Definition encoder (width : N) : N -> bool -> enc :=
  if width =? 1 then encodechar8 else if width =? 2 then encodechar16 else encodechar32.

(* ------------------------------------------------------------------ expr.c: stringconcat *)
Fixpoint strlen (s : list N) : N :=
  match s with [] => 0 | b :: r => if b =? 0 then 0 else 1 + strlen r end.

(* the switch on *src at the head of the do-loop: new kind and src advanced to where the opening
   quote is expected (not checked, the scanner guarantees it); None = assert(0) *)
Definition tok_prefix (src : list N) : option (kind * list N) :=
  match src with
  | 117 :: r => match r with
                | 56 :: r' => Some (K8, r')      (* 'u' with src[1] == '8': ++src; newkind = '8'; ++src *)
                | _ => Some (Ku, r)
                end
  | 76 :: r => Some (KL, r)
  | 85 :: r => Some (KU, r)
  | 34 :: _ => Some (K0, src)
  | _ => None
  end.

Inductive pres := POk (elems : list N) | PErr (e : err).

(* while ( *src != DQUOTE) { hexoct = false; src += decodechar(...); dst += encodechar(dst, chr, hexoct); } *)
Fixpoint decode_part (fuel : nat) (encodechar : N -> bool -> enc) (src : list N) : pres :=
  match fuel with
  | O => PErr EFuel
  | S f =>
      match src with
      | [] => PErr EOver
      | c :: _ =>
          if c =? 34 then POk []
          else match decodechar src with
               | DErr e => PErr e
               | DOk chr ho rest =>
                   match encodechar chr ho with
                   | AssertFail => PErr EAssert
                   | Enc u => match decode_part f encodechar rest with
                              | POk r => POk (u ++ r)
                              | PErr e => PErr e
                              end
                   end
               end
      end
  end.

Fixpoint decode_parts (encodechar : N -> bool -> enc) (parts : list (list N)) : pres :=
  match parts with
  | [] => POk []
  | p :: ps =>
      match decode_part (S (length p)) encodechar p with
      | PErr e => PErr e
      | POk u => match decode_parts encodechar ps with
                 | POk r => POk (u ++ r)
                 | PErr e => PErr e
                 end
      end
  end.

(* the do-loop over adjacent string literal tokens: kind merging, parts, len *)
Fixpoint collect (toks : list (list N)) (k : kind) (len : N) : err + (kind * N * list (list N)) :=
  match toks with
  | [] => inr (k, len, [])
  | t :: ts =>
      match tok_prefix (t ++ [0]) with
      | None => inl EAssert                                      (* default: assert(0) *)
      | Some (nk, src) =>
          if negb (kind_eqb k nk) && negb (kind_eqb k K0) && negb (kind_eqb nk K0)
          then inl EPrefix                                       (* error: adjacent string literals have differing prefixes *)
          else
            let k' := if kind_eqb nk K0 then k else nk in
            let len' := (len + strlen src + M64 - 2) mod M64 in  (* len += strlen(src) - 2 *)
            match collect ts k' len' with
            | inl e => inl e
            | inr (kf, lf, ps) => inr (kf, lf, tl src :: ps)     (* p->str = src + 1 *)
            end
      end
  end.

Inductive sres :=
| SOk (t : ctype) (elems : list N) (size alloc : N)   (* element type, str->data, str->size, elements allocated *)
| SErr (e : err).

Definition stringconcat (tg : target) (toks : list (list N)) (forceutf8 : bool) : sres :=
  match collect toks K0 0 with
  | inl e => SErr e
  | inr (k, len, parts) =>
      let k := if forceutf8 then K8 else k in
      let len := (len + 1) mod M64 in                            (* ++len; null byte *)
      let t := kind_type tg k in
      let enc1 := encoder (ctype_size t) in
      match decode_parts enc1 parts with
      | PErr e => SErr e
      | POk u =>
          match enc1 0 false with                                (* dst += encodechar(dst, 0, false) *)
          | AssertFail => SErr EAssert
          | Enc z => let el := u ++ z in SOk t el (N.of_nat (length el)) len
          end
      end
  end.

(* ------------------------------------------------------------------ expr.c: primaryexpr, case TCHARCONST *)
Inductive cres := COk (t : ctype) (value : N) | CErr (e : err).   (* value = e->u.constant.u, unsigned long long *)

(* (signed char)chr converted to unsigned long long *)
Definition sext8_u64 (chr : N) : N :=
  let b := N.land chr 0xff in if b <? 128 then b else b + M64 - 256.
(* (int_least32_t)chr converted to unsigned long long; chr < 2^32 *)
Definition sext32_u64 (chr : N) : N :=
  if chr <? 0x80000000 then chr else chr + M64 - M32.

Definition charconst (tg : target) (tok : list N) : cres :=
  let mem := tok ++ [0] in
  let '(t, src) :=
    match mem with
    | 76 :: r => (wchar tg, r)
    | 117 :: r => match r with 56 :: r' => (TUChar, r') | _ => (TUShort, r) end
    | 85 :: r => (TUInt, r)
    | _ => (TInt, mem)
    end in
  let unprefixed := match mem with 39 :: _ => true | _ => false end in      (* tok.lit[0] == '\'' *)
  match src with
  | 39 :: body =>                                                 (* assert( *src == '\''); ++src *)
      match decodechar body with
      | DErr e => CErr e
      | DOk chr ho rest =>
          let v := if ho && unprefixed && signedchar tg then sext8_u64 chr
                   else if ctype_eqb t TInt then sext32_u64 chr   (* t->u.basic.issigned && t->size == 4: int only *)
                   else chr in
          (* !hexoct && tok.lit[0] != '\'' && t->size < 4 && chr >> 8 * t->size *)
          if negb ho && negb unprefixed && (ctype_size t <? 4) && negb (N.shiftr chr (8 * ctype_size t) =? 0)
          then CErr ERepr                                         (* error: character constant is not representable in its type *)
          else
            match rest with
            | [] => CErr EOver
            | c :: _ => if c =? 39 then COk t v else CErr EMulti  (* error: character constant contains more than one character *)
            end
      end
  | _ => CErr EAssert
  end.

(* ------------------------------------------------------------------ scan.c: escape, charconst, stringlit *)
(* The scanner's input after translation phase 2 (nextchar drops backslash-newline); None = EOF.
   `inp` starts at s->chr.  Each function returns the bytes it appended to the token buffer and
   the remaining input, or None for error(). *)

(* s->chr && strchr(<the eleven simple-escape characters>, s->chr)   (strchr alone would also find
   the terminating NUL when s->chr == 0) *)
Definition scan_simple (c : N) : bool :=
  negb (c =? 0) &&
  ((c =? 39) || (c =? 34) || (c =? 63) || (c =? 92) || (c =? 97) || (c =? 98) || (c =? 102) ||
   (c =? 110) || (c =? 114) || (c =? 116) || (c =? 118)).

Fixpoint take_while (f : N -> bool) (s : list N) : list N * list N :=
  match s with
  | c :: r => if f c then let (a, b) := take_while f r in (c :: a, b) else ([], s)
  | [] => ([], [])
  end.

(* escape(): entered with s->chr == '\\' (already the head of inp) *)
Definition scan_escape (inp : list N) : option (list N * list N) :=
  match inp with
  | bs :: c1 :: r1 =>
      if c1 =? 120 then
        match r1 with
        | c2 :: _ => if isxdigit c2 then let (ds, r) := take_while isxdigit r1 in Some (bs :: c1 :: ds, r)
                     else None                               (* error: invalid hexadecimal escape sequence *)
        | [] => None
        end
      else if scan_isodigit c1 then
        match r1 with
        | c2 :: r2 =>
            if scan_isodigit c2 then
              match r2 with
              | c3 :: r3 => if scan_isodigit c3 then Some ([bs; c1; c2; c3], r3) else Some ([bs; c1; c2], r2)
              | [] => Some ([bs; c1; c2], r2)
              end
            else Some ([bs; c1], r1)
        | [] => Some ([bs; c1], r1)
        end
      else if scan_simple c1 then Some ([bs; c1], r1)
      else None                                              (* error: invalid escape sequence *)
  | _ => None                                                (* EOF after the backslash: strchr(.., EOF) fails *)
  end.

(* the for(;;) of charconst / stringlit after the opening quote q; returns the body including the
   closing quote *)
Fixpoint scan_body (fuel : nat) (q : N) (inp : list N) : option (list N * list N) :=
  match fuel with
  | O => None
  | S f =>
      match inp with
      | [] => None                                           (* error: EOF in ... *)
      | c :: r =>
          if c =? 92 then
            match scan_escape inp with
            | None => None
            | Some (e, r') => match scan_body f q r' with
                              | Some (b, rest) => Some (e ++ b, rest)
                              | None => None
                              end
            end
          else if c =? q then Some ([c], r)
          else if c =? 0 then None                           (* error: null byte in ... *)
          else if c =? 10 then None                          (* error: newline in ... *)
          else match scan_body f q r with
               | Some (b, rest) => Some (c :: b, rest)
               | None => None
               end
      end
  end.

(* a whole literal token as scankind() reaches it: case 'L', 'U', 'u': nextchar; if the first
   character is 'u' and the next is '8': nextchar; then a quote starts charconst / stringlit.
   (Anything else is an identifier or another token: None here.) *)
Definition is_quote (c : N) : bool := (c =? 34) || (c =? 39).
Definition is_prefix_letter (c : N) : bool := (c =? 76) || (c =? 85) || (c =? 117).

Definition scan_literal (inp : list N) : option (list N * list N) :=
  let '(pre, r) :=
    match inp with
    | a :: b :: r1 =>
        if is_prefix_letter a && is_quote b then ([a], b :: r1)
        else match r1 with
             | c :: r2 => if (a =? 117) && (b =? 56) && is_quote c then ([a; b], c :: r2) else ([], inp)
             | [] => ([], inp)
             end
    | _ => ([], inp)
    end in
  match r with
  | q :: r' =>
      if is_quote q then
        match scan_body (S (length r')) q r' with
        | Some (b, rest) => Some (pre ++ q :: b, rest)
        | None => None
        end
      else None
  | [] => None
  end.
