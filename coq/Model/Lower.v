(* Lower.v - instruction selection of qbe.c as total functions producing Qbe.v instructions.
     qbetype, convert, the opcode switch of funcexpr's EXPRBINARY, funcbits, funcload, funcstore (with the
     bit-field read-modify-write), funccopy, funcalloc, funcjnz's implicit conversion.
   Code is produced by a writer over the temporary counter (f->lastid): [G A := positive -> A * code * positive];
   every [ginst] is one call of funcinst (mkinst + functemp).  The block structure (funclabel, the `dead`
   block, phis, jumps) lives in LowerFn.v, which emits these sequences into blocks.
   No proofs in this file. *)
From Coq Require Import ZArith List Bool PArith.
From Cproc Require Import Model.Qbe Spec.CArith Spec.Csem.
Import ListNotations.
Local Open Scope Z_scope.

(* the scalar types (isz, sty, ssize, ssigned, sfloat) are those of Spec/Csem.v *)
(* `if (t->kind == TYPEPOINTER) t = &typeulong` *)
Definition pnorm (t : sty) : sty := match t with SPtr => SInt I8 false | _ => t end.

(* qbetype(t): base class, load and store opcodes *)
Definition qbase (t : sty) : cls :=
  match t with
  | SFlt => Ks | SDbl => Kd | SPtr => Kl | SBool => Kw
  | SInt I8 _ => Kl | SInt _ _ => Kw end.
Definition qload (t : sty) : ldw :=
  match t with
  | SFlt => Ls | SDbl => Ld | SPtr => Ll | SBool => Lub
  | SInt I1 sg => if sg then Lsb else Lub
  | SInt I2 sg => if sg then Lsh else Luh
  | SInt I4 _ => Lw
  | SInt I8 _ => Ll end.
Definition qstore (t : sty) : stw :=
  match t with
  | SFlt => Ss | SDbl => Sd | SPtr => Sl | SBool => Sb
  | SInt I1 _ => Sb | SInt I2 _ => Sh | SInt I4 _ => Sw | SInt I8 _ => Sl end.

(* ------------------------------------------------------------------ the code writer *)
Definition code := list inst.
Definition G (A : Type) := positive -> A * code * positive.

Definition gret {A} (a : A) : G A := fun n => (a, [], n).
Definition gbind {A B} (m : G A) (f : A -> G B) : G B :=
  fun n => let '(a, c1, n1) := m n in let '(b, c2, n2) := f a n1 in (b, c1 ++ c2, n2).
Notation "'dog' x <- a ; b" := (gbind a (fun x => b)) (at level 200, x pattern, a at level 100, b at level 200).

(* funcinst with a result class: a fresh temporary *)
Definition ginst (o : op) (k : cls) (a0 : ref) (a1 : option ref) : G ref :=
  fun n => (RTmp n, [Iop (Some (n, k)) o a0 a1], Pos.succ n).
(* funcinst with class 0 (stores, vastart): no result *)
Definition ginst0 (o : op) (a0 : ref) (a1 : option ref) : G unit :=
  fun n => (tt, [Iop None o a0 a1], n).

Definition M64 : Z := 18446744073709551616.
Definition mkint (n : Z) : ref := RInt (n mod M64).      (* mkintconst(unsigned long long) *)

(* ------------------------------------------------------------------ convert *)
(* one emitted instruction of a conversion: opcode, class, second argument *)
Record cstep := { cs_op : op; cs_cls : cls; cs_a1 : option ref }.
Definition step1 (o : op) (k : cls) := {| cs_op := o; cs_cls := k; cs_a1 := None |}.

Definition zero_s : ref := RFlt 0.
Definition zero_d : ref := RDbl 0.

(* the instruction sequence of convert(dst, src); [] = the value is returned unchanged.
   (dst = void returns NULL before anything is emitted: not a scalar type, not modelled here.) *)
Definition convert_steps (dst src : sty) : list cstep :=
  let src := pnorm src in
  let dst := pnorm dst in
  match dst with
  | SBool =>
      match src with
      | SFlt => [{| cs_op := Ocmpf false Fne; cs_cls := Kw; cs_a1 := Some zero_s |}]
      | SDbl => [{| cs_op := Ocmpf true Fne; cs_cls := Kw; cs_a1 := Some zero_d |}]
      | _ =>
        match ssize src with
        | 1 => [step1 (Oext Eub) Kw; {| cs_op := Ocmpi false Cne; cs_cls := Kw; cs_a1 := Some (RInt 0) |}]
        | 2 => [step1 (Oext Euh) Kw; {| cs_op := Ocmpi false Cne; cs_cls := Kw; cs_a1 := Some (RInt 0) |}]
        | 4 => [{| cs_op := Ocmpi false Cne; cs_cls := Kw; cs_a1 := Some (RInt 0) |}]
        | _ => [{| cs_op := Ocmpi true Cne; cs_cls := Kw; cs_a1 := Some (RInt 0) |}]
        end
      end
  | SFlt | SDbl =>
      let k := if ssize dst =? 8 then Kd else Ks in
      match src with
      | SFlt | SDbl =>
          if ssize src =? ssize dst then []
          else [step1 (Ocvt (if ssize src <? ssize dst then Cexts else Ctruncd)) k]
      | _ =>
          (* the conversions read a whole word: a narrower value is first converted to int / unsigned *)
          (if ssize src <? 4 then
             [step1 (Oext (if ssize src =? 2 then (if ssigned src then Esh else Euh)
                           else (if ssigned src then Esb else Eub))) Kw]
           else []) ++
          [step1 (Ocvt (if ssigned src then (if ssize src =? 8 then Csltof else Cswtof)
                        else (if ssize src =? 8 then Cultof else Cuwtof))) k]
      end
  | _ =>
      let k := if ssize dst =? 8 then Kl else Kw in
      match src with
      | SFlt | SDbl =>
          [step1 (Ocvt (if ssigned dst then (if ssize src =? 8 then Cdtosi else Cstosi)
                        else (if ssize src =? 8 then Cdtoui else Cstoui))) k]
      | _ =>
          if ssize dst <=? ssize src then []
          else match ssize src with
               | 4 => [step1 (Oext (if ssigned src then Esw else Euw)) k]
               | 2 => [step1 (Oext (if ssigned src then Esh else Euh)) k]
               | _ => [step1 (Oext (if ssigned src then Esb else Eub)) k]
               end
      end
  end.

Fixpoint gsteps (l : list cstep) (v : ref) : G ref :=
  match l with
  | [] => gret v
  | s :: r => dog v' <- ginst (cs_op s) (cs_cls s) v (cs_a1 s); gsteps r v'
  end.

Definition convert (dst src : sty) (l : ref) : G ref := gsteps (convert_steps dst src) l.

(* ------------------------------------------------------------------ EXPRBINARY: the opcode switch *)
(* [t]: type of the left operand (pointers already ulong); the instruction's class is that of the
   expression's type, [binop_cls] *)
Definition binop_op (o : binop) (t : sty) : op :=
  let t := pnorm t in
  let fl := sfloat t in
  let sg := ssigned t in
  let small := ssize t <=? 4 in
  let cmp (ci : cmpi) (cf : cmpf) := if fl then Ocmpf (negb small) cf else Ocmpi (negb small) ci in
  match o with
  | Mul => Obin Bmul
  | Div => Obin (if fl || sg then Bdiv else Budiv)
  | Mod => Obin (if sg then Brem else Burem)
  | Add => Obin Badd
  | Sub => Obin Bsub
  | Shl => Obin Bshl
  | Shr => Obin (if sg then Bsar else Bshr)
  | Bor => Obin Qbe.Bor
  | Band => Obin Qbe.Band
  | Xor => Obin Bxor
  | CLt => cmp (if sg then Cslt else Cult) Flt
  | CGt => cmp (if sg then Csgt else Cugt) Fgt
  | CLe => cmp (if sg then Csle else Cule) Fle
  | CGe => cmp (if sg then Csge else Cuge) Fge
  | CEq => cmp Ceq Feq
  | CNe => cmp Cne Fne
  end.

(* type of the expression: int for comparisons, the (common / promoted-left) operand type otherwise *)
Definition binop_rty (o : binop) (t : sty) : sty := if is_cmp o then SInt I4 true else t.
Definition binop_cls (o : binop) (t : sty) : cls := qbase (binop_rty o t).

Definition gbinop (o : binop) (t : sty) (l r : ref) : G ref :=
  ginst (binop_op o t) (binop_cls o t) l (Some r).

(* ------------------------------------------------------------------ funcbits *)
(* `(t->size + 3 & ~3) - t->size << 3`: units of 1 and 2 bytes live in a 32-bit temporary *)
Definition bits_corr (size : Z) : Z := (Z.land (size + 3) (-4) - size) * 8.

Definition funcbits (t : sty) (v : ref) (before after : Z) : G ref :=
  let k := if ssize t <=? 4 then Kw else Kl in
  let bits := if after =? 0 then 0 else after + bits_corr (ssize t) in
  dog v1 <- (if after =? 0 then gret v else ginst (Obin Bshl) k v (Some (mkint bits)));
  let bits2 := bits + before in
  if bits2 =? 0 then gret v1
  else ginst (Obin (if ssigned t then Bsar else Bshr)) k v1 (Some (mkint bits2)).

(* ------------------------------------------------------------------ funcload / funcstore (scalars) *)
Definition funcload (t : sty) (addr : ref) (before after : Z) : G ref :=
  dog v <- ginst (Oload (qload t)) (qbase t) addr None;
  funcbits t v before after.

(* `0xffffffffffffffffu >> 64 - t->size * 8 + bits << lval.bits.before` in 64-bit unsigned arithmetic *)
Definition store_mask (size before after : Z) : Z :=
  (Z.shiftl (Z.shiftr (M64 - 1) (64 - size * 8 + (before + after))) before) mod M64.

(* the part of funcstore after the value was shifted into place ([v1]) and prepared for funcbits ([r0]) *)
Definition funcstore_tail (t : sty) (addr : ref) (before after : Z) (v1 r0 : ref) : G ref :=
  let k := qbase t in
  let mask := store_mask (ssize t) before after in
  dog r <- funcbits t r0 before after;
  dog v2 <- ginst (Obin Qbe.Band) k v1 (Some (mkint mask));
  dog old <- ginst (Oload (qload t)) k addr None;
  dog keep <- ginst (Obin Qbe.Band) k old (Some (mkint (M64 - 1 - mask)));
  dog v3 <- ginst (Obin Qbe.Bor) k v2 (Some keep);
  dog _ <- ginst0 (Ostore (qstore t)) v3 (Some addr);
  gret r.

(* funcbits expects the bits above a 1- or 2-byte unit to be an extension of it, as after a load: when no left
   shift will be done (after = 0) the shifted value is extended first *)
Definition store_top (t : sty) (after : Z) : bool := (after =? 0) && (ssize t <? 4).
Definition store_ext (t : sty) : extk :=
  if ssize t =? 1 then (if ssigned t then Esb else Eub) else (if ssigned t then Esh else Euh).

(* returns the value of the assignment expression *)
Definition funcstore (t : sty) (addr : ref) (before after : Z) (v : ref) : G ref :=
  let t := pnorm t in
  let k := qbase t in
  if before + after =? 0 then
    dog _ <- ginst0 (Ostore (qstore t)) v (Some addr); gret v
  else
    dog v1 <- ginst (Obin Bshl) k v (Some (mkint before));
    dog r0 <- (if store_top t after then ginst (Oext (store_ext t)) Kw v1 None else gret v1);
    funcstore_tail t addr before after v1 r0.

(* ------------------------------------------------------------------ funccopy *)
Definition copy_width (align : Z) : Z := match align with 1 => 1 | 2 => 2 | 4 => 4 | _ => 8 end.
Definition copy_ld (align : Z) : ldw := match align with 1 => Lub | 2 => Luh | 4 => Lw | _ => Ll end.
Definition copy_st (align : Z) : stw := match align with 1 => Sb | 2 => Sh | 4 => Sw | _ => Sl end.
Definition copy_cls (align : Z) : cls := match align with 1 | 2 | 4 => Kw | _ => Kl end.

(* number of load/store pairs: the loop body runs once, then while off < size *)
Definition copy_count (size align : Z) : Z :=
  let a := copy_width align in Z.max 1 ((size + a - 1) / a).

(* [n] more pairs after the first one *)
Fixpoint copy_more (n : nat) (align : Z) (dst src : ref) : G unit :=
  match n with
  | O => gret tt
  | S n' =>
      dog src' <- ginst (Obin Badd) Kl src (Some (mkint (copy_width align)));
      dog dst' <- ginst (Obin Badd) Kl dst (Some (mkint (copy_width align)));
      dog tmp <- ginst (Oload (copy_ld align)) (copy_cls align) src' None;
      dog _ <- ginst0 (Ostore (copy_st align)) tmp (Some dst');
      copy_more n' align dst' src'
  end.

Definition funccopy (dst src : ref) (size align : Z) : G unit :=
  dog tmp <- ginst (Oload (copy_ld align)) (copy_cls align) src None;
  dog _ <- ginst0 (Ostore (copy_st align)) tmp (Some dst);
  copy_more (Z.to_nat (copy_count size align - 1)) align dst src.

(* ------------------------------------------------------------------ funcalloc (constant size) *)
Definition alloc_op (align : Z) : op :=
  match align with 1 | 2 | 4 => Oalloc 4 | 8 => Oalloc 8 | _ => Oalloc 16 end.

(* [size]: the size operand (a constant, or the temporary holding a VLA's size) *)
Definition funcalloc (size : ref) (align : Z) : G ref :=
  let big := negb ((align =? 1) || (align =? 2) || (align =? 4) || (align =? 8) || (align =? 16)) in
  dog v <- (if big then ginst (Obin Badd) Kl size (Some (mkint (align - 16))) else gret size);
  dog p <- ginst (alloc_op align) Kl v None;
  if 16 <? align then
    dog p1 <- ginst (Obin Badd) Kl p (Some (mkint (align - 16)));
    ginst (Obin Qbe.Band) Kl p1 (Some (mkint (- align)))
  else gret p.

(* ------------------------------------------------------------------ funcjnz's conversion of the condition *)
(* None: the value is used as it is (int, unsigned, 4-byte enum) *)
Definition jnz_convert (t : sty) (v : ref) : G ref :=
  if negb (sfloat t) && (ssize t <? 4) then convert (SInt I4 true) t v
  else if sfloat t || (4 <? ssize t) then convert SBool t v
  else gret v.

(* ------------------------------------------------------------------ funcexpr on side-effect-free expressions *)
(* The cases EXPRCONST, EXPRTEMP, EXPRCAST, EXPRUNARY '-', EXPRBINARY (not && ||) of funcexpr; [leaf] gives the
   value already computed for each leaf.  (LowerFn.funcexpr emits the same sequences through the same functions.) *)
Fixpoint gexpr (leaf : positive -> ref) (e : pexpr) : G ref :=
  match e with
  | PConst t n => gret (mkint n)
  | PTemp t x => gret (leaf x)
  | PCast t e1 => dog l <- gexpr leaf e1; convert t (ptype e1) l
  | PNeg t e1 => dog r <- gexpr leaf e1; ginst Oneg (qbase t) r None
  | PBin o t l r => dog a <- gexpr leaf l; dog b <- gexpr leaf r; gbinop o t a b
  end.
