(* LowerFn.v - qbe.c:funcexpr / funclval / mkfunc / funcinit (allocation only) and stmt.c's statement lowering
   over the typed core AST (the post-expr.c forms), producing Qbe.v blocks.
   The block machinery mirrors qbe.c: one temporary counter per function (f->lastid; parameters take the first
   ids, a phi result takes its id after the join block is labelled), one label counter (mkblock), funcinst opens a
   `dead` block when the current block already has a jump, the jump setters are no-ops on a closed block,
   funcalloc of a constant-size object appends to the start block.
   Not modelled: VLAs (calcvla), compound literals, string literals, switch (Model/CaseSearch.v has the ladder),
   aggregate call arguments/results, noreturn calls, builtins.
   No proofs in this file. *)
From Coq Require Import ZArith List Bool PArith.
From Cproc Require Import Model.Qbe Spec.CArith Spec.Csem Model.Lower.
Import ListNotations.
Local Open Scope Z_scope.

(* ------------------------------------------------------------------ the typed core AST *)
Inductive cty := CS (t : sty) | CAgg (size align : Z).

Inductive expr :=
| EConst (t : sty) (n : Z)                         (* integer / pointer constant: e->u.constant.u *)
| EFConst (t : sty) (bits : Z)                     (* floating constant, as the bit pattern of its type *)
| ELocal (t : cty) (slot : nat)                    (* identifier of a parameter / automatic object *)
| EGlobal (t : cty) (g : ident)                    (* identifier of an object with static storage *)
| EBits (t : sty) (base : expr) (before after : Z) (* EXPRBITFIELD *)
| EDeref (t : cty) (e : expr)                      (* EXPRUNARY '*' *)
| EAddr (e : expr)                                 (* EXPRUNARY '&' *)
| ENeg (t : sty) (e : expr)                        (* EXPRUNARY '-' *)
| ECast (t : sty) (st : sty) (e : expr)            (* EXPRCAST to t from st *)
| EBin (o : binop) (lt : sty) (rt : sty) (l r : expr)   (* lt: type of the left operand; rt: type of the expression *)
| ELogic (isor : bool) (lt rt : sty) (l r : expr)       (* lt, rt: types of the operands *)
| ECond (t : sty) (ct : sty) (c a b : expr)
| EAssign (t : cty) (l r : expr)                   (* t: type of the left operand *)
| ESetTemp (slot : nat) (r : expr)                 (* assignment to an EXPRTEMP (compound assignment's `T = &E1`) *)
| ETemp (slot : nat)                               (* EXPRTEMP *)
| EIncDec (inc post : bool) (t : sty) (step : Z) (lv : expr)   (* step: 1, or the size of the pointed-to type *)
| ESeq (a b : expr)                                (* EXPRCOMMA, right-nested *)
| ECall (res : option sty) (f : ident) (nfixed : option nat) (args : list (sty * expr)).
                                                   (* nfixed: Some n for a variadic callee with n named parameters *)

Inductive stmt :=
| SExpr (e : expr)
| SDecl (slot : nat) (size align : Z)              (* automatic object without initializer *)
| SReturn (e : option expr)
| SIf (ct : sty) (c : expr) (a : stmt) (b : option stmt)
| SWhile (ct : sty) (c : expr) (body : stmt)
| SDo (body : stmt) (ct : sty) (c : expr)
| SFor (init : option expr) (cond : option (sty * expr)) (step : option expr) (body : stmt)
| SBreak | SContinue
| SGoto (l : nat) | SLabel (l : nat)
| SBlock (l : list stmt).

(* ------------------------------------------------------------------ builder state *)
Record bblk := { k_label : positive; k_phi : option phi; k_insts : list inst; k_jump : option jump }.

Record bst := {
  s_rev : list bblk;                 (* blocks in funclabel order, newest first; the last one is `start` *)
  s_next : positive;                 (* f->lastid + 1 *)
  s_label : positive;                (* mkblock's counter + 1 *)
  s_slots : list (nat * ref);        (* address of each parameter / automatic object (d->value) *)
  s_temps : list (nat * ref);        (* EXPRTEMP values *)
  s_gotos : list (nat * positive);   (* f->gotos *)
  s_err : bool                       (* a form outside the model was met *)
}.

Definition B (A : Type) := bst -> A * bst.
Definition bret {A} (a : A) : B A := fun s => (a, s).
Definition bbind {A C} (m : B A) (f : A -> B C) : B C := fun s => let '(a, s1) := m s in f a s1.
Notation "'dob' x <- a ; b" := (bbind a (fun x => b)) (at level 200, x pattern, a at level 100, b at level 200).

Definition upd (s : bst) (rev : list bblk) : bst :=
  {| s_rev := rev; s_next := s_next s; s_label := s_label s; s_slots := s_slots s; s_temps := s_temps s;
     s_gotos := s_gotos s; s_err := s_err s |}.

Definition fail : B unit := fun s =>
  (tt, {| s_rev := s_rev s; s_next := s_next s; s_label := s_label s; s_slots := s_slots s; s_temps := s_temps s;
          s_gotos := s_gotos s; s_err := true |}).

Definition mkblock : B positive := fun s =>
  (s_label s, {| s_rev := s_rev s; s_next := s_next s; s_label := Pos.succ (s_label s); s_slots := s_slots s;
                 s_temps := s_temps s; s_gotos := s_gotos s; s_err := s_err s |}).

Definition empty_blk (l : positive) : bblk := {| k_label := l; k_phi := None; k_insts := []; k_jump := None |}.

Definition funclabel (l : positive) : B unit := fun s => (tt, upd s (empty_blk l :: s_rev s)).

Definition closed (s : bst) : bool :=
  match s_rev s with b :: _ => match k_jump b with Some _ => true | None => false end | [] => false end.

Definition cur_label : B positive := fun s => (match s_rev s with b :: _ => k_label b | [] => 1%positive end, s).

Definition open_dead : B unit := fun s =>
  if closed s then (dob l <- mkblock; funclabel l) s else (tt, s).

Definition append_insts (c : code) : B unit := fun s =>
  match s_rev s with
  | b :: r => (tt, upd s ({| k_label := k_label b; k_phi := k_phi b; k_insts := k_insts b ++ c; k_jump := k_jump b |} :: r))
  | [] => (tt, s) end.

(* the instructions of one or more consecutive funcinst calls *)
Definition emit (c : code) : B unit :=
  match c with [] => bret tt | _ => dob _ <- open_dead; append_insts c end.

Definition liftG {A} (g : G A) : B A := fun s =>
  let '(a, c, n') := g (s_next s) in
  let s1 := {| s_rev := s_rev s; s_next := n'; s_label := s_label s; s_slots := s_slots s; s_temps := s_temps s;
               s_gotos := s_gotos s; s_err := s_err s |} in
  (a, snd (emit c s1)).

Fixpoint append_last (l : list bblk) (c : code) : list bblk :=
  match l with
  | [] => []
  | [b] => [{| k_label := k_label b; k_phi := k_phi b; k_insts := k_insts b ++ c; k_jump := k_jump b |}]
  | b :: r => b :: append_last r c
  end.

(* funcalloc of an object of constant size: f->end = f->start for the duration *)
Definition liftG_start {A} (g : G A) : B A := fun s =>
  let '(a, c, n') := g (s_next s) in
  (a, {| s_rev := append_last (s_rev s) c; s_next := n'; s_label := s_label s; s_slots := s_slots s; s_temps := s_temps s;
         s_gotos := s_gotos s; s_err := s_err s |}).

Definition setjump (j : jump) : B unit := fun s =>
  if closed s then (tt, s) else
  match s_rev s with
  | b :: r => (tt, upd s ({| k_label := k_label b; k_phi := k_phi b; k_insts := k_insts b; k_jump := Some j |} :: r))
  | [] => (tt, s) end.

Definition functemp : B positive := fun s =>
  (s_next s, {| s_rev := s_rev s; s_next := Pos.succ (s_next s); s_label := s_label s; s_slots := s_slots s;
                s_temps := s_temps s; s_gotos := s_gotos s; s_err := s_err s |}).

Definition set_phi (p : phi) : B unit := fun s =>
  match s_rev s with
  | b :: r => (tt, upd s ({| k_label := k_label b; k_phi := Some p; k_insts := k_insts b; k_jump := k_jump b |} :: r))
  | [] => (tt, s) end.

Fixpoint lookup {A} (l : list (nat * A)) (k : nat) : option A :=
  match l with [] => None | (k', v) :: r => if Nat.eqb k k' then Some v else lookup r k end.

Definition get_slot (k : nat) : B ref := fun s =>
  match lookup (s_slots s) k with Some r => (r, s) | None => (RInt 0, snd (fail s)) end.
Definition set_slot (k : nat) (r : ref) : B unit := fun s =>
  (tt, {| s_rev := s_rev s; s_next := s_next s; s_label := s_label s; s_slots := (k, r) :: s_slots s; s_temps := s_temps s;
          s_gotos := s_gotos s; s_err := s_err s |}).
Definition get_temp (k : nat) : B ref := fun s =>
  match lookup (s_temps s) k with Some r => (r, s) | None => (RInt 0, snd (fail s)) end.
Definition set_temp (k : nat) (r : ref) : B unit := fun s =>
  (tt, {| s_rev := s_rev s; s_next := s_next s; s_label := s_label s; s_slots := s_slots s; s_temps := (k, r) :: s_temps s;
          s_gotos := s_gotos s; s_err := s_err s |}).

(* funcgoto: the label's block is made at its first mention *)
Definition funcgoto (k : nat) : B positive := fun s =>
  match lookup (s_gotos s) k with
  | Some l => (l, s)
  | None => let '(l, s1) := mkblock s in
            (l, {| s_rev := s_rev s1; s_next := s_next s1; s_label := s_label s1; s_slots := s_slots s1; s_temps := s_temps s1;
                   s_gotos := (k, l) :: s_gotos s1; s_err := s_err s1 |})
  end.

(* ------------------------------------------------------------------ funcjnz *)
Definition funcjnz (v : ref) (t : option sty) (l1 l2 : positive) : B unit := fun s =>
  if closed s then (tt, s) else
  (dob v' <- match t with Some t => liftG (jnz_convert t v) | None => bret v end;
   setjump (Jnz v' l1 l2)) s.

(* ------------------------------------------------------------------ funcexpr *)
Definition one_const (t : sty) (step : Z) : ref :=
  match t with
  | SFlt => RFlt 1065353216                  (* 1.0f *)
  | SDbl => RDbl 4607182418800017408         (* 1.0 *)
  | _ => mkint step end.

Definition load_c (t : cty) (addr : ref) (before after : Z) : B ref :=
  match t with
  | CS st => liftG (funcload st addr before after)
  | CAgg _ _ => bret addr end.

Definition store_c (t : cty) (addr : ref) (before after : Z) (v : ref) : B ref :=
  match t with
  | CS st => liftG (funcstore st addr before after v)
  | CAgg size align => dob _ <- liftG (funccopy addr v size align); bret v end.

Definition arg_of (tv : sty * ref) : arg := Aval (Tbase (qbase (fst tv))) (snd tv).

Fixpoint split_args (n : nat) (l : list arg) : list arg :=
  match n, l with
  | O, _ => Avar :: l
  | S n', a :: r => a :: split_args n' r
  | S _, [] => []
  end.

Fixpoint funcexpr (e : expr) : B ref :=
  match e with
  | EConst t n => bret (mkint n)
  | EFConst t bits => bret (match t with SFlt => RFlt bits | _ => RDbl bits end)
  | ELocal t slot => dob a <- get_slot slot; load_c t a 0 0
  | EGlobal t g => load_c t (RGlo g false) 0 0
  | EBits t base before after =>
      dob a <- funclval base; liftG (funcload t a before after)
  | EDeref t e1 => dob a <- funcexpr e1; load_c t a 0 0
  | EAddr e1 => funclval e1
  | ENeg t e1 => dob r <- funcexpr e1; liftG (ginst Oneg (qbase t) r None)
  | ECast t st e1 => dob l <- funcexpr e1; liftG (convert t st l)
  | EBin o lt rt l r =>
      dob a <- funcexpr l; dob b <- funcexpr r;
      liftG (ginst (binop_op o lt) (qbase rt) a (Some b))
  | ELogic isor lt rt l r =>
      dob a <- funcexpr l;
      dob b0 <- mkblock; dob b1 <- mkblock;
      dob _ <- open_dead;
      dob _ <- (if isor then funcjnz a (Some lt) b1 b0 else funcjnz a (Some lt) b0 b1);
      dob src0 <- cur_label;
      dob _ <- funclabel b0;
      dob b <- funcexpr r;
      dob v1 <- liftG (convert SBool rt b);
      dob _ <- open_dead;
      dob src1 <- cur_label;
      dob _ <- funclabel b1;
      dob t <- functemp;
      dob _ <- set_phi {| p_res := t; p_cls := Kw; p_args := [(src0, RInt (if isor then 1 else 0)); (src1, v1)] |};
      bret (RTmp t)
  | ECond t ct c a b =>
      dob b0 <- mkblock; dob b1 <- mkblock; dob b2 <- mkblock;
      dob v <- funcexpr c;
      dob _ <- funcjnz v (Some ct) b0 b1;
      dob _ <- funclabel b0;
      dob va <- funcexpr a;
      dob _ <- open_dead;               (* an arm may end in a call to a noreturn function *)
      dob src0 <- cur_label;
      dob _ <- setjump (Jmp b2);
      dob _ <- funclabel b1;
      dob vb <- funcexpr b;
      dob _ <- open_dead;
      dob src1 <- cur_label;
      dob _ <- funclabel b2;
      dob r <- functemp;
      dob _ <- set_phi {| p_res := r; p_cls := qbase t; p_args := [(src0, va); (src1, vb)] |};
      bret (RTmp r)
  | EAssign t l r =>
      dob v <- funcexpr r;
      match l with
      | EBits bt base before after => dob a <- funclval base; store_c t a before after v
      | _ => dob a <- funclval l; store_c t a 0 0 v
      end
  | ESetTemp slot r => dob v <- funcexpr r; dob _ <- set_temp slot v; bret v
  | ETemp slot => get_temp slot
  | EIncDec inc post t step lv =>
      dob ab <- (match lv with
                 | EBits _ base before after => dob a <- funclval base; bret (a, before, after)
                 | _ => dob a <- funclval lv; bret (a, 0, 0) end);
      let '(a, before, after) := ab in
      dob l <- liftG (funcload t a before after);
      dob v <- liftG (ginst (Obin (if inc then Badd else Bsub)) (qbase t) l (Some (one_const t step)));
      dob v' <- (match t with SBool => liftG (ginst (Ocmpi false Cne) Kw v (Some (RInt 0))) | _ => bret v end);
      dob w <- liftG (funcstore t a before after v');
      bret (if post then l else w)
  | ESeq a b => dob _ <- funcexpr a; funcexpr b
  | ECall res f nfixed args =>
      dob vals <- (fix go (l : list (sty * expr)) : B (list (sty * ref)) :=
                     match l with
                     | [] => bret []
                     | (t, a) :: r => dob v <- funcexpr a; dob vs <- go r; bret ((t, v) :: vs)
                     end) args;
      let al := map arg_of vals in
      let al := match nfixed with Some n => split_args n al | None => al end in
      match res with
      | Some rt => dob t <- functemp;
                   dob _ <- emit [Icall (Some (t, Tbase (qbase rt))) (RGlo f false) al];
                   bret (RTmp t)
      | None => dob _ <- emit [Icall None (RGlo f false) al]; bret (RInt 0)
      end
  end
with funclval (e : expr) : B ref :=
  match e with
  | ELocal _ slot => get_slot slot
  | EGlobal _ g => bret (RGlo g false)
  | EDeref _ e1 => funcexpr e1
  | _ => dob _ <- fail; bret (RInt 0)
  end.

(* ------------------------------------------------------------------ statements *)
Record scope := { sc_break : option positive; sc_continue : option positive }.

Fixpoint lower_stmt (st : stmt) (sc : scope) {struct st} : B unit :=
  match st with
  | SExpr e => dob _ <- funcexpr e; bret tt
  | SDecl slot size align =>
      dob p <- liftG_start (funcalloc (mkint size) align); set_slot slot p
  | SReturn None => setjump (Ret None)
  | SReturn (Some e) => dob v <- funcexpr e; setjump (Ret (Some v))
  | SIf ct c a b =>
      dob v <- funcexpr c;
      dob b0 <- mkblock; dob b1 <- mkblock;
      dob _ <- funcjnz v (Some ct) b0 b1;
      dob _ <- funclabel b0;
      dob _ <- lower_stmt a sc;
      match b with
      | Some eb =>
          dob b2 <- mkblock;
          dob _ <- setjump (Jmp b2);
          dob _ <- funclabel b1;
          dob _ <- lower_stmt eb sc;
          funclabel b2
      | None => funclabel b1
      end
  | SWhile ct c body =>
      dob b0 <- mkblock; dob b1 <- mkblock; dob b2 <- mkblock;
      dob _ <- funclabel b0;
      dob v <- funcexpr c;
      dob _ <- funcjnz v (Some ct) b1 b2;
      dob _ <- funclabel b1;
      dob _ <- lower_stmt body {| sc_break := Some b2; sc_continue := Some b0 |};
      dob _ <- setjump (Jmp b0);
      funclabel b2
  | SDo body ct c =>
      dob b0 <- mkblock; dob b1 <- mkblock; dob b2 <- mkblock;
      dob _ <- funclabel b0;
      dob _ <- lower_stmt body {| sc_break := Some b2; sc_continue := Some b1 |};
      dob _ <- funclabel b1;
      dob v <- funcexpr c;
      dob _ <- funcjnz v (Some ct) b0 b2;
      funclabel b2
  | SFor init cond step body =>
      dob _ <- (match init with Some e => dob _ <- funcexpr e; bret tt | None => bret tt end);
      dob b0 <- mkblock; dob b1 <- mkblock; dob b2 <- mkblock; dob b3 <- mkblock;
      dob _ <- funclabel b0;
      dob _ <- (match cond with
                | Some (ct, c) => dob v <- funcexpr c; funcjnz v (Some ct) b1 b3
                | None => bret tt end);
      dob _ <- funclabel b1;
      dob _ <- lower_stmt body {| sc_break := Some b3; sc_continue := Some b2 |};
      dob _ <- funclabel b2;
      dob _ <- (match step with Some e => dob _ <- funcexpr e; bret tt | None => bret tt end);
      dob _ <- setjump (Jmp b0);
      funclabel b3
  | SBreak => match sc_break sc with Some l => setjump (Jmp l) | None => fail end
  | SContinue => match sc_continue sc with Some l => setjump (Jmp l) | None => fail end
  | SGoto k => dob l <- funcgoto k; setjump (Jmp l)
  | SLabel k => dob l <- funcgoto k; funclabel l
  | SBlock l =>
      (fix go (l : list stmt) : B unit :=
         match l with [] => bret tt | s1 :: r => dob _ <- lower_stmt s1 sc; go r end) l
  end.

(* ------------------------------------------------------------------ mkfunc / emitfunc *)
(* a scalar parameter: (slot, type); it gets a temporary, then storage and a store *)
Fixpoint lower_params (ps : list (nat * sty)) : B (list (rty * ident)) :=
  match ps with
  | [] => bret []
  | (slot, t) :: r =>
      dob v <- functemp;
      dob p <- liftG_start (funcalloc (mkint (ssize t)) (ssize t));
      dob _ <- set_slot slot p;
      dob _ <- liftG_start (funcstore t p 0 0 (RTmp v));
      dob rest <- lower_params r;
      bret ((Tbase (qbase t), v) :: rest)
  end.

Record fnout := { fo_params : list (rty * ident); fo_blocks : list block; fo_ok : bool }.

Definition to_block (b : bblk) : block :=
  {| b_label := k_label b; b_phis := match k_phi b with Some p => [p] | None => [] end;
     b_insts := k_insts b; b_jump := k_jump b |}.

(* [ret0]: main returning int gets an implicit `ret 0` *)
Definition lower_function (ps : list (nat * sty)) (body : stmt) (ret0 : bool) : fnout :=
  let s0 := {| s_rev := [empty_blk 1%positive]; s_next := 1%positive; s_label := 2%positive; s_slots := []; s_temps := [];
               s_gotos := []; s_err := false |} in
  let '(params, s1) := lower_params ps s0 in
  let '(_, s2) := (dob l <- mkblock; funclabel l) s1 in
  let '(_, s3) := lower_stmt body {| sc_break := None; sc_continue := None |} s2 in
  let '(_, s4) := setjump (Ret (if ret0 then Some (RInt 0) else None)) s3 in
  {| fo_params := params; fo_blocks := map to_block (rev (s_rev s4)); fo_ok := negb (s_err s4) |}.
