(* LowerZero.v - the instructions qbe.c:zero() emits, over the writer of Lower.v.  The loop itself (which
   (offset, width) pairs, in which order) is Model/Zero.v; here each pair becomes

       tmp = offset ? funcinst(func, IADD, ptrclass, addr, mkintconst(offset)) : addr;
       funcinst(func, store[a], 0, &z, tmp);            z = integer constant 0

   No proofs in this file. *)
From Coq Require Import ZArith NArith List Bool PArith.
From Cproc Require Import Model.Qbe Model.Lower Model.Zero.
Import ListNotations.

(* store[a]: only the entries 1, 2, 4, 8 of the table are set (gzero checks store_index_ok before using it) *)
Definition zero_stw (w : N) : stw := match w with 1%N => Sb | 2%N => Sh | 4%N => Sw | _ => Sl end.

Definition zero_store (addr : ref) (off w : N) : G unit :=
  dog tmp <- (if (off =? 0)%N then gret addr else ginst (Obin Badd) Kl addr (Some (mkint (Z.of_N off))));
  ginst0 (Ostore (zero_stw w)) (RInt 0) (Some tmp).

Fixpoint zero_emit (addr : ref) (st : list (N * N)) : G unit :=
  match st with
  | [] => gret tt
  | (o, w) :: r => dog _ <- zero_store addr o w; zero_emit addr r
  end.

(* zero(func, addr, align, offset, end); None: the loop model ran out of fuel or a width is not in the table *)
Definition gzero (addr : ref) (align offset e : N) : option (G unit) :=
  match zero (N.to_nat (e - offset) + 8) align offset e with
  | ZDone st _ => if forallb (fun s => store_index_ok (snd s)) st then Some (zero_emit addr st) else None
  | ZOutOfFuel => None
  end.
