(* Model of /repo/map.c: open-addressing hash table with linear probing.
   No proofs here (Proofs/MapProofs.v); the definitions are executable and extracted.

   C                                   model
   ----------------------------------  ------------------------------------------
   struct map {len, cap, keys, vals}   Record map {cap; slots; len}
   keys[i].str == NULL                 nth i slots = None
   hash & cap-1                        home   (N.land on the hash, cap a power of two)
   i + 1 & cap-1                       next
   keyequal                            keyequal (hash, then contents)
   keyindex (while loop)               probe, with fuel = cap
   mapput (growth + insert)            mapput : returns the map and the slot index
   *mapput(...) = v                    setval
   mapget                              mapget  (0 = NULL)
*)
From Coq Require Import List NArith Arith Bool.
Import ListNotations.

Section MapModel.
  Variable key : Type.
  Variable key_eqb : key -> key -> bool.
  Variable h : key -> N.          (* the hash function: arbitrary *)

  Definition val := N.            (* void *; 0 is NULL *)

  Record map := mkmap { cap : nat; slots : list (option (key * val)); len : nat }.

  Definition mapinit (c : nat) : map := mkmap c (repeat None c) 0.

  Definition mask (c : nat) (x : N) : nat := N.to_nat (N.land x (N.of_nat c - 1)).
  Definition home (c : nat) (k : key) : nat := mask c (h k).
  Definition next (c : nat) (i : nat) : nat := mask c (N.of_nat i + 1).

  Definition keyequal (k1 k2 : key) : bool := N.eqb (h k1) (h k2) && key_eqb k1 k2.

  Inductive probe_result := Found (i : nat) | Empty (i : nat) | OutOfFuel.

  Fixpoint probe (sl : list (option (key * val))) (c : nat) (fuel : nat) (i : nat) (k : key) : probe_result :=
    match fuel with
    | O => OutOfFuel
    | S f =>
      match nth i sl None with
      | None => Empty i
      | Some (k', _) => if keyequal k' k then Found i else probe sl c f (next c i) k
      end
    end.

  Definition keyindex (sl : list (option (key * val))) (c : nat) (k : key) : probe_result :=
    probe sl c c (home c k) k.

  Fixpoint upd {A} (l : list A) (i : nat) (x : A) : list A :=
    match l, i with
    | [], _ => []
    | _ :: t, O => x :: t
    | a :: t, S j => a :: upd t j x
    end.

  (* the re-insertion loop of mapput's growth branch: every old entry goes to keyindex in the new table *)
  Fixpoint rehash (old : list (option (key * val))) (sl : list (option (key * val))) (c : nat)
    : option (list (option (key * val))) :=
    match old with
    | [] => Some sl
    | None :: t => rehash t sl c
    | Some (k, v) :: t =>
      match keyindex sl c k with
      | Empty j | Found j => rehash t (upd sl j (Some (k, v))) c
      | OutOfFuel => None
      end
    end.

  Definition grow (m : map) : option map :=
    if Nat.ltb (cap m / 2) (len m) then
      let c := 2 * cap m in
      match rehash (slots m) (repeat None c) c with
      | Some sl => Some (mkmap c sl (len m))
      | None => None
      end
    else Some m.

  (* mapput: returns the new table and the index of the slot whose address the C returns *)
  Definition mapput (m : map) (k : key) : option (map * nat) :=
    match grow m with
    | None => None
    | Some m1 =>
      match keyindex (slots m1) (cap m1) k with
      | Empty i => Some (mkmap (cap m1) (upd (slots m1) i (Some (k, 0%N))) (S (len m1)), i)
      | Found i => Some (m1, i)
      | OutOfFuel => None
      end
    end.

  Definition setval (m : map) (i : nat) (v : val) : map :=
    match nth i (slots m) None with
    | Some (k, _) => mkmap (cap m) (upd (slots m) i (Some (k, v))) (len m)
    | None => m
    end.

  Definition mapget (m : map) (k : key) : option val :=
    match keyindex (slots m) (cap m) k with
    | Found i => match nth i (slots m) None with Some (_, v) => Some v | None => Some 0%N end
    | Empty _ => Some 0%N
    | OutOfFuel => None
    end.

  (* operation histories, as the clients use the table *)
  Inductive op :=
  | OpPut (k : key) (v : val)     (* *mapput(m, k) = v   (v = 0: pp.c's undef) *)
  | OpTouch (k : key).            (* mapput(m, k) with no store (entry created with NULL if absent) *)

  Definition step (m : option map) (o : op) : option map :=
    match m with
    | None => None
    | Some m =>
      match o with
      | OpPut k v => match mapput m k with Some (m1, i) => Some (setval m1 i v) | None => None end
      | OpTouch k => match mapput m k with Some (m1, _) => Some m1 | None => None end
      end
    end.

  Definition run (c : nat) (ops : list op) : option map := fold_left step ops (Some (mapinit c)).
End MapModel.

Arguments mkmap {key}.
Arguments cap {key}.
Arguments slots {key}.
Arguments len {key}.
Arguments OpPut {key}.
Arguments OpTouch {key}.

(* The concrete hash of map.c: FNV-1a with the 32-bit constants, computed in a 64-bit unsigned long. *)
Definition fnv_step (hh : N) (b : N) : N := N.modulo (N.mul (N.lxor hh b) 16777619%N) 18446744073709551616%N.
Definition fnv1a (bs : list N) : N := fold_left fnv_step bs 2166136261%N.

Fixpoint bytes_eqb (a b : list N) : bool :=
  match a, b with
  | [], [] => true
  | x :: a', y :: b' => N.eqb x y && bytes_eqb a' b'
  | _, _ => false
  end.
