(* C12 - executable model of cproc's macro processor (pp.c), tokens as VALUES.
   Mirrors, function for function: macroequal, macroparam, macrodone, macrovarargs, framenext, ctxpush,
   ctxnext, define, undef, directive, nextinto, rawnext, peekparen, stringize, expand, expandfunc, next
   and the -E main loop.  NO proofs in this file.

   Abstractions (see notes/C12.md):
   * the scanner is not modelled: the input is the list of raw tokens scan() delivers (EOF = end of list);
   * `lit` is the spelling: t->lit when non-NULL, else tokstr[t->kind] (empty for newline/EOF);
   * a frame carries a snapshot of its macro (parameters and the arguments collected by expandfunc) instead
     of a pointer; `hide` lives in the table, keyed by name (equivalent as long as no directive redefines a
     macro between its name and the end of its own argument list: that is UB / use-after-free in the C);
   * `#pragma` lines are skipped without macro expansion (`scan()` is used to skip);
   * if a #define/#undef of macro M is processed between the name M and the end of M's argument list the
     model answers Err EDirectiveInCall;
   * locations, #line bookkeeping and keyword() are not modelled. *)
From Coq Require Import List NArith Arith Bool String Ascii.
Import ListNotations.
Open Scope list_scope.

Definition str := list N.

Fixpoint str_eqb (a b : str) : bool :=
  match a, b with
  | [], [] => true
  | x :: a', y :: b' => N.eqb x y && str_eqb a' b'
  | _, _ => false
  end.

Definition bytes (s : string) : str := List.map N_of_ascii (list_ascii_of_string s).

Inductive kind :=
| KEof | KNewline | KIdent | KNumber | KChar | KString
| KLparen | KRparen | KComma | KHash | KHashHash | KEllipsis
| KOther (code : nat).

(* enum tokenkind values of cc.h (re-read from the snapshot by the check) *)
Definition kind_code (k : kind) : nat :=
  match k with
  | KEof => 1 | KNewline => 2 | KIdent => 4 | KNumber => 5 | KChar => 6 | KString => 7
  | KLparen => 66 | KRparen => 67 | KEllipsis => 98 | KComma => 110 | KHash => 111 | KHashHash => 112
  | KOther c => c
  end.

Definition kind_of_code (c : nat) : kind :=
  if Nat.eqb c 1 then KEof else if Nat.eqb c 2 then KNewline else if Nat.eqb c 4 then KIdent
  else if Nat.eqb c 5 then KNumber else if Nat.eqb c 6 then KChar else if Nat.eqb c 7 then KString
  else if Nat.eqb c 66 then KLparen else if Nat.eqb c 67 then KRparen else if Nat.eqb c 98 then KEllipsis
  else if Nat.eqb c 110 then KComma else if Nat.eqb c 111 then KHash else if Nat.eqb c 112 then KHashHash
  else KOther c.

Definition kind_eqb (a b : kind) : bool :=
  match a, b with
  | KEof, KEof | KNewline, KNewline | KIdent, KIdent | KNumber, KNumber | KChar, KChar | KString, KString
  | KLparen, KLparen | KRparen, KRparen | KComma, KComma | KHash, KHash | KHashHash, KHashHash
  | KEllipsis, KEllipsis => true
  | KOther c, KOther c' => Nat.eqb c c'
  | _, _ => false
  end.

Record token := mkTok { kind_ : kind; lit : str; space : bool; hide : bool }.

Definition is_kind (k : kind) (t : token) : bool := kind_eqb (kind_ t) k.
Definition set_space (b : bool) (t : token) : token := mkTok (kind_ t) (lit t) b (hide t).
Definition set_hide (t : token) : token := mkTok (kind_ t) (lit t) (space t) true.
Definition eof_tok : token := mkTok KEof [] false false.

(* ------------------------------------------------------------------ macros *)
Record param := mkParam { pname : str; ptok : bool; pstr : bool; pvar : bool }.
Record arg := mkArg { atoks : list token; astr : token }.
Record macro := mkMacro {
  mfunc : bool;            (* kind == MACROFUNC *)
  mname : str;
  mhide : bool;
  mparams : list param;
  margs : list arg;        (* m->arg, set by expandfunc before the frame is pushed *)
  mbody : list token }.

Definition table := list (str * macro).

Fixpoint macroget (tb : table) (n : str) : option macro :=
  match tb with
  | [] => None
  | (k, m) :: r => if str_eqb k n then Some m else macroget r n
  end.

Fixpoint tbl_remove (tb : table) (n : str) : table :=
  match tb with
  | [] => []
  | (k, m) :: r => if str_eqb k n then tbl_remove r n else (k, m) :: tbl_remove r n
  end.

Fixpoint tbl_put (tb : table) (n : str) (m : macro) : table :=
  match tb with
  | [] => [(n, m)]
  | (k, m0) :: r => if str_eqb k n then (k, m) :: r else (k, m0) :: tbl_put r n m
  end.

Definition with_hide (b : bool) (m : macro) : macro :=
  mkMacro (mfunc m) (mname m) b (mparams m) (margs m) (mbody m).
Definition with_args (a : list arg) (m : macro) : macro :=
  mkMacro (mfunc m) (mname m) (mhide m) (mparams m) a (mbody m).

Fixpoint tbl_sethide (tb : table) (n : str) (b : bool) : table :=
  match tb with
  | [] => []
  | (k, m) :: r => if str_eqb k n then (k, with_hide b m) :: r else (k, m) :: tbl_sethide r n b
  end.

(* macroequal: kind, parameter names AND flags, token kinds, white-space separation (not before the
   first token) and spellings *)
Definition param_eqb (p q : param) : bool :=
  str_eqb (pname p) (pname q) && Bool.eqb (ptok p) (ptok q) && Bool.eqb (pstr p) (pstr q) && Bool.eqb (pvar p) (pvar q).

Fixpoint params_eqb (a b : list param) : bool :=
  match a, b with
  | [], [] => true
  | p :: a', q :: b' => param_eqb p q && params_eqb a' b'
  | _, _ => false
  end.

Fixpoint toks_eqb (first : bool) (a b : list token) : bool :=
  match a, b with
  | [], [] => true
  | t :: a', u :: b' =>
      kind_eqb (kind_ t) (kind_ u) && (first || Bool.eqb (space t) (space u)) && str_eqb (lit t) (lit u)
      && toks_eqb false a' b'
  | _, _ => false
  end.

Definition macroequal (m1 m2 : macro) : bool :=
  Bool.eqb (mfunc m1) (mfunc m2)
  && (if mfunc m1 then params_eqb (mparams m1) (mparams m2) else true)
  && toks_eqb true (mbody m1) (mbody m2).

(* macroparam: index of the parameter named by an identifier token *)
Fixpoint param_index (ps : list param) (n : str) (i : nat) : option nat :=
  match ps with
  | [] => None
  | p :: r => if str_eqb (pname p) n then Some i else param_index r n (S i)
  end.

Definition macroparam (ps : list param) (t : token) : option nat :=
  if is_kind KIdent t then param_index ps (lit t) 0 else None.

Definition macrovarargs (func : bool) (ps : list param) : bool :=
  func && match ps with [] => false | _ => pvar (last ps (mkParam [] false false false)) end.

(* ------------------------------------------------------------------ frames *)
Record frame := mkFrame { ftoks : list token; fmacro : option macro }.

Definition ctxpush (ts : list token) (m : option macro) (sp : bool) : frame :=
  match ts with
  | [] => mkFrame [] m
  | t :: r => mkFrame (set_space sp t :: r) m
  end.

Record state := mkState {
  src : list token;     (* tokens scan() has not delivered yet *)
  nl : bool;            (* nextinto's static `newline` *)
  tbl : table;
  ctx : list frame;     (* head = top of the stack *)
  depth : nat;          (* macrodepth *)
  dlog : list str }.    (* model only: names of the #define/#undef directives processed so far, newest first *)

Definition set_ctx (c : list frame) (s : state) : state := mkState (src s) (nl s) (tbl s) c (depth s) (dlog s).

Definition macrodone (tb : table) (d : nat) (m : macro) : table * nat :=
  (tbl_sethide tb (mname m) false, pred d).

Definition arg_nth (m : macro) (i : nat) : arg := nth i (margs m) (mkArg [] eof_tok).

(* the `goto again` of ctxnext on a parameter whose argument is empty: leading such tokens are consumed *)
Fixpoint skip_empty_params (m : macro) (ts : list token) : list token :=
  match ts with
  | [] => []
  | t :: r =>
      if is_kind KIdent t then
        match macroparam (mparams m) t with
        | Some i => match atoks (arg_nth m i) with [] => skip_empty_params m r | _ => ts end
        | None => ts
        end
      else ts
  end.

Inductive error :=
| EDefineName | EParamList | EHashHash | EVaArgs | EHashNotParam | ERedefinition | EUndefName
| EDirectiveEnd | EUnimplemented | EBadDirective | ELine
| EArgEOF | ENotEnough | ETooMany | EAssert | EPragmaExpansion | EDirectiveInCall.

Inductive res (A : Type) :=
| Ok (a : A)
| Err (e : error)
| Fuel.
Arguments Ok {A} a.
Arguments Err {A} e.
Arguments Fuel {A}.

(* ctxnext on (ctx, table, macrodepth): None = context exhausted (C returns NULL). *)
Fixpoint ctxnext_go (c : list frame) (tb : table) (d : nat) : res (option token * list frame * table * nat) :=
  match c with
  | [] => Ok (None, [], tb, d)
  | f :: rest =>
      match fmacro f with
      | None =>
          match ftoks f with
          | [] => ctxnext_go rest tb d
          | t :: ts => Ok (Some t, mkFrame ts None :: rest, tb, d)
          end
      | Some m =>
          let ts0 := if mfunc m then skip_empty_params m (ftoks f) else ftoks f in
          match ts0 with
          | [] => let '(tb', d') := macrodone tb d m in ctxnext_go rest tb' d'
          | t :: ts =>
              if mfunc m then
                match kind_ t with
                | KHash =>
                    match ts with
                    | [] => Err EAssert
                    | p :: ts' =>
                        match macroparam (mparams m) p with
                        | None => Err EAssert
                        | Some i =>
                            let s := set_space (space t) (astr (arg_nth m i)) in
                            Ok (Some s, mkFrame [] None :: mkFrame ts' (Some m) :: rest, tb, d)
                        end
                    end
                | KIdent =>
                    match macroparam (mparams m) t with
                    | None => Ok (Some t, mkFrame ts (Some m) :: rest, tb, d)
                    | Some i =>
                        match atoks (arg_nth m i) with
                        | [] => Err EAssert  (* unreachable: skip_empty_params removed these *)
                        | a :: ar => Ok (Some (set_space (space t) a), mkFrame ar None :: mkFrame ts (Some m) :: rest, tb, d)
                        end
                    end
                | _ => Ok (Some t, mkFrame ts (Some m) :: rest, tb, d)
                end
              else Ok (Some t, mkFrame ts (Some m) :: rest, tb, d)
          end
      end
  end.

Definition ctxnext (s : state) : res (option token * state) :=
  match ctxnext_go (ctx s) (tbl s) (depth s) with
  | Ok (o, c, tb, d) => Ok (o, mkState (src s) (nl s) tb c d (dlog s))
  | Err e => Err e
  | Fuel => Fuel
  end.

(* ------------------------------------------------------------------ scanning and directives *)
Definition scan (l : list token) : token * list token :=
  match l with
  | [] => (eof_tok, [])
  | t :: r => (t, r)
  end.

Definition s_define := bytes "define".
Definition s_undef := bytes "undef".
Definition s_line := bytes "line".
Definition s_pragma := bytes "pragma".
Definition s_vaargs := bytes "__VA_ARGS__".
Definition unimplemented : list str :=
  List.map bytes ["if"%string; "ifdef"%string; "ifndef"%string; "elif"%string; "endif"%string; "include"%string; "error"%string].

(* since /repo 'fix: diagnose duplicate macro parameter names' and 'fix: diagnose __VA_ARGS__ as a macro
   parameter name' the name is compared with the parameters read so far (`acc`) *)
Definition new_param (acc : list param) (t : token) : res param :=
  if is_kind KEllipsis t then Ok (mkParam s_vaargs false false true)
  else if is_kind KIdent t then
    if str_eqb (lit t) s_vaargs then Err EParamList
    else if existsb (fun q => str_eqb (pname q) (lit t)) acc then Err EParamList
    else Ok (mkParam (lit t) false false false)
  else Err EParamList.

(* the parameter loop of define(): `l` starts after the '('.  Returns parameters and the rest. *)
Fixpoint params_loop (l : list token) (acc : list param) : res (list param * list token) :=
  match l with
  | [] => Err EParamList
  | t :: r =>
      if is_kind KRparen t then Ok (List.rev acc, r)
      else
        match acc with
        | [] =>
            match new_param [] t with
            | Ok p => params_loop r [p]
            | Err e => Err e
            | Fuel => Fuel
            end
        | p0 :: _ =>
            if pvar p0 then Err EParamList
            else if negb (is_kind KComma t) then Err EParamList
            else
              match r with
              | [] => Err EParamList
              | t2 :: r2 =>
                  match new_param acc t2 with
                  | Ok p => params_loop r2 (p :: acc)
                  | Err e => Err e
                  | Fuel => Fuel
                  end
              end
        end
  end.

Definition set_ptok (p : param) : param := mkParam (pname p) true (pstr p) (pvar p).
Definition set_pstr (p : param) : param := mkParam (pname p) (ptok p) true (pvar p).

Fixpoint update_nth {A} (i : nat) (f : A -> A) (l : list A) : list A :=
  match l, i with
  | [], _ => []
  | x :: r, O => f x :: r
  | x :: r, S j => x :: update_nth j f r
  end.

Definition flag (o : option nat) (f : param -> param) (ps : list param) : list param :=
  match o with Some i => update_nth i f ps | None => ps end.

(* one iteration of the body loop of define(): t is the current token (not newline/EOF), t' the next one.
   Returns the updated parameters and the new `i`. *)
Definition body_step (func : bool) (ps : list param) (i : option nat) (t t' : token)
  : res (list param * option nat) :=
  if is_kind KHashHash t then Err EHashHash
  else if is_kind KIdent t' && str_eqb (lit t') s_vaargs && negb (macrovarargs func ps) then Err EVaArgs
  else if negb func then Ok (ps, i)
  else
    let ps1 := flag i set_ptok ps in
    let i1 := macroparam ps1 t' in
    if is_kind KHash t then
      if negb (is_kind KIdent t') then Err EHashNotParam
      else match i1 with
           | None => Err EHashNotParam
           | Some _ => Ok (flag i1 set_pstr ps1, None)
           end
    else Ok (ps1, i1).

Definition ends_line (t : token) : bool := is_kind KNewline t || is_kind KEof t.

(* body loop: t current token, l the unread tokens.  Returns (parameters, body, terminating token, rest). *)
Fixpoint body_loop (func : bool) (l : list token) (t : token) (ps : list param) (i : option nat) (acc : list token)
  : res (list param * list token * token * list token) :=
  if ends_line t then Ok (ps, List.rev acc, t, l)
  else
    match l with
    | [] =>
        match body_step func ps i t eof_tok with
        | Ok (ps', _) => Ok (ps', List.rev (t :: acc), eof_tok, [])
        | Err e => Err e
        | Fuel => Fuel
        end
    | t' :: r =>
        match body_step func ps i t t' with
        | Ok (ps', i') => body_loop func r t' ps' i' (t :: acc)
        | Err e => Err e
        | Fuel => Fuel
        end
    end.

(* define(): `name` is the token after `define`, `l` what follows.  Returns the table, the token that
   ended the line (C: `tok = *t`) and the rest. *)
Definition define (tb : table) (name : token) (l : list token) : res (table * token * list token) :=
  if negb (is_kind KIdent name) then Err EDefineName
  else
    let '(t, l1) := scan l in
    let hdr :=
      if is_kind KLparen t && negb (space t) then
        match params_loop l1 [] with
        | Ok (ps, l2) => let '(t2, l3) := scan l2 in Ok (true, ps, t2, l3)
        | Err e => Err e
        | Fuel => Fuel
        end
      else Ok (false, [], t, l1) in
    match hdr with
    | Ok (func, ps, t0, l0) =>
        (* the __VA_ARGS__ test also runs for the FIRST replacement token, before the loop *)
        if is_kind KIdent t0 && str_eqb (lit t0) s_vaargs && negb (macrovarargs func ps) then Err EVaArgs else
        match body_loop func l0 t0 ps (macroparam ps t0) [] with
        | Ok (ps', body, tend, rest) =>
            let m := mkMacro func (lit name) false ps' [] body in
            match macroget tb (lit name) with
            | Some old => if macroequal m old then Ok (tbl_put tb (lit name) m, tend, rest) else Err ERedefinition
            | None => Ok (tbl_put tb (lit name) m, tend, rest)
            end
        | Err e => Err e
        | Fuel => Fuel
        end
    | Err e => Err e
    | Fuel => Fuel
    end.

Definition undef (tb : table) (name : token) (l : list token) : res (table * token * list token) :=
  if negb (is_kind KIdent name) then Err EUndefName
  else let '(t, r) := scan l in Ok (tbl_remove tb (lit name), t, r).

Fixpoint skip_numbers (t : token) (l : list token) : token * list token :=
  if is_kind KNumber t then
    match l with
    | [] => (eof_tok, [])
    | t' :: r => skip_numbers t' r
    end
  else (t, l).

(* `line:` part of directive(): t is the number token *)
Definition line_tail (l : list token) : token * list token :=
  let '(t1, l1) := scan l in
  let '(t2, l2) := if is_kind KString t1 then scan l1 else (t1, l1) in
  skip_numbers t2 l2.

(* the #pragma loop `while (tok.kind != TNEWLINE && tok.kind != TEOF) scan(&tok);` (since /repo 'fix: skip the
   tokens of a #pragma line without expanding macros'): the rest of the line is dropped unexpanded.  The table
   argument is kept for the callers' sake. *)
Fixpoint pragma_skip (tb : table) (t : token) (l : list token) : res (token * list token) :=
  if ends_line t then Ok (t, l)
  else
    match l with
    | [] => Ok (eof_tok, [])
    | t' :: r => pragma_skip tb t' r
    end.

Definition mem_str (s : str) (l : list str) : bool := existsb (str_eqb s) l.

(* directive(): `l` starts after the '#'.  Returns the table and the rest (after the newline). *)
Definition directive (tb : table) (l : list token) : res (table * list token) :=
  let '(t, l1) := scan l in
  if is_kind KNewline t then Ok (tb, l1)
  else
    let finish (r : res (table * token * list token)) : res (table * list token) :=
      match r with
      | Ok (tb', tend, rest) => if is_kind KNewline tend then Ok (tb', rest) else Err EDirectiveEnd
      | Err e => Err e
      | Fuel => Fuel
      end in
    if is_kind KNumber t then
      let '(te, r) := line_tail l1 in finish (Ok (tb, te, r))
    else if negb (is_kind KIdent t) then Err EBadDirective
    else if mem_str (lit t) unimplemented then Err EUnimplemented
    else if str_eqb (lit t) s_define then
      let '(n, l2) := scan l1 in finish (define tb n l2)
    else if str_eqb (lit t) s_undef then
      let '(n, l2) := scan l1 in finish (undef tb n l2)
    else if str_eqb (lit t) s_line then
      let '(n, l2) := scan l1 in
      if is_kind KNumber n then let '(te, r) := line_tail l2 in finish (Ok (tb, te, r)) else Err ELine
    else if str_eqb (lit t) s_pragma then
      match pragma_skip tb t l1 with
      | Ok (te, r) => finish (Ok (tb, te, r))
      | Err e => Err e
      | Fuel => Fuel
      end
    else Err EBadDirective.

(* model only: the macro name a #define/#undef line is about *)
Definition directive_name (l : list token) : list str :=
  match l with
  | d :: n :: _ => if is_kind KIdent d && (str_eqb (lit d) s_define || str_eqb (lit d) s_undef) then [lit n] else []
  | _ => []
  end.

(* nextinto(): next raw token, directives processed on the way *)
Fixpoint nextinto (fuel : nat) (s : state) : res (token * state) :=
  match fuel with
  | O => Fuel
  | S fuel' =>
      let '(t, l) := scan (src s) in
      if nl s && is_kind KHash t then
        match directive (tbl s) l with
        | Ok (tb, l') => nextinto fuel' (mkState l' (nl s) tb (ctx s) (depth s) (directive_name l ++ dlog s))
        | Err e => Err e
        | Fuel => Fuel
        end
      else Ok (t, mkState l (is_kind KNewline t) (tbl s) (ctx s) (depth s) (dlog s))
  end.

Definition rawnext (fuel : nat) (s : state) : res (token * state) :=
  match ctxnext s with
  | Ok (Some t, s') => Ok (t, s')
  | Ok (None, s') => nextinto fuel s'
  | Err e => Err e
  | Fuel => Fuel
  end.

(* the do-while of peekparen(): pending tokens are accumulated (reversed) *)
Fixpoint peek_loop (fuel : nat) (s : state) (pend : list token) : res (list token * state) :=
  match fuel with
  | O => Fuel
  | S fuel' =>
      match nextinto fuel' s with
      | Ok (t, s') => if is_kind KNewline t then peek_loop fuel' s' (t :: pend) else Ok (t :: pend, s')
      | Err e => Err e
      | Fuel => Fuel
      end
  end.

Definition peekparen (fuel : nat) (s : state) : res (bool * state) :=
  match ctxnext s with
  | Ok (Some t, s') =>
      if is_kind KLparen t then Ok (true, s')
      else
        match ctx s' with
        | f :: rest => Ok (false, set_ctx (mkFrame (t :: ftoks f) (fmacro f) :: rest) s')
        | [] => Err EAssert
        end
  | Ok (None, s') =>
      match peek_loop fuel s' [] with
      | Ok (pend, s'') =>
          match pend with
          | t :: _ =>
              if is_kind KLparen t then Ok (true, s'')
              else Ok (false, set_ctx (mkFrame (List.rev pend) None :: ctx s'') s'')
          | [] => Err EAssert
          end
      | Err e => Err e
      | Fuel => Fuel
      end
  | Err e => Err e
  | Fuel => Fuel
  end.

(* ------------------------------------------------------------------ stringize *)
Definition c_space : N := 32%N.
Definition c_quote : N := 34%N.
Definition c_bslash : N := 92%N.

Fixpoint escape (l : str) : str :=
  match l with
  | [] => []
  | c :: r => if N.eqb c c_bslash || N.eqb c c_quote then c_bslash :: c :: escape r else c :: escape r
  end.

(* the buffer is kept REVERSED (last character first); it always starts with the opening quote *)
Definition stringize (buf : str) (t : token) : str :=
  let buf1 :=
    if (space t || is_kind KNewline t) && Nat.ltb 1 (List.length buf)
       && negb (match buf with c :: _ => N.eqb c c_space | [] => false end)
    then c_space :: buf else buf in
  let l := if is_kind KString t || is_kind KChar t then escape (lit t) else lit t in
  List.rev l ++ buf1.

(* white space after the last token of the argument is deleted: `if (str.len > 1 && last == ' ') --str.len` *)
Definition strip_space (buf : str) : str :=
  match buf with
  | c :: r => if Nat.ltb 1 (List.length buf) && N.eqb c c_space then r else buf
  | [] => buf
  end.

Definition str_token (buf : str) : token := mkTok KString (List.rev (c_quote :: strip_space buf)) false false.

(* ------------------------------------------------------------------ expand / expandfunc *)
Definition nth_param (ps : list param) (i : nat) : param := nth i ps (mkParam [] false false false).

Record coll := mkColl {
  ci : nat;                 (* i *)
  cparen : nat;             (* paren *)
  cdepth : nat;             (* depth *)
  cstr : str;               (* str (reversed) *)
  ccur : list token;        (* tokens of arg[i] so far, reversed *)
  cdone : list arg }.       (* finished arguments, reversed *)

Definition finish_arg (p : param) (c : coll) : list arg :=
  mkArg (List.rev (ccur c)) (if pstr p then str_token (cstr c) else eof_tok) :: cdone c.

Fixpoint expand (fuel : nat) (s : state) (t : token) {struct fuel} : res (bool * token * state) :=
  match fuel with
  | O => Fuel
  | S fuel' =>
      if negb (is_kind KIdent t) then Ok (false, t, s)
      else
        let om := macroget (tbl s) (lit t) in
        let t1 := match om with
                  | None => set_hide t
                  | Some m => if mhide m then set_hide t else t
                  end in
        if hide t1 then Ok (false, t1, s)
        else
          match om with
          | None => Ok (false, t1, s)
          | Some m =>
              let push (m' : macro) (s' : state) : res (bool * token * state) :=
                (* the C keeps using the macro object found BEFORE the arguments were read; if a directive
                   between the name and the ')' redefined or removed that macro (undefined behaviour /
                   use after free in the C) the model gives up *)
                if mem_str (mname m) (List.firstn (List.length (dlog s') - List.length (dlog s)) (dlog s'))
                then Err EDirectiveInCall else
                Ok (true, t1, mkState (src s') (nl s') (tbl_sethide (tbl s') (mname m) true)
                                (ctxpush (mbody m) (Some m') (space t1) :: ctx s') (S (depth s')) (dlog s')) in
              if mfunc m then
                match peekparen fuel' s with
                | Ok (false, s1) => Ok (false, t1, s1)
                | Ok (true, s1) =>
                    match rawnext fuel' s1 with
                    | Ok (t0, s2) =>
                        match collect fuel' s2 m (mkColl 0 0 (depth s1) [c_quote] [] []) t0 with
                        | Ok (args, s3) => push (with_args args m) s3
                        | Err e => Err e
                        | Fuel => Fuel
                        end
                    | Err e => Err e
                    | Fuel => Fuel
                    end
                | Err e => Err e
                | Fuel => Fuel
                end
              else push m s
          end
  end

(* the two nested loops of expandfunc(), one token per call; t is the current token *)
with collect (fuel : nat) (s : state) (m : macro) (c : coll) (t : token) {struct fuel} : res (list arg * state) :=
  match fuel with
  | O => Fuel
  | S fuel' =>
      let n := List.length (mparams m) in
      if Nat.leb n (ci c) then
        (* for-loop over the parameters is over (or never ran: nparam == 0) *)
        if Nat.eqb n 0 then
          if is_kind KNewline t then
            (* while (m->nparam == 0 && t->kind == TNEWLINE) t = rawnext(); *)
            match rawnext fuel' s with
            | Ok (t', s') => collect fuel' s' m c t'
            | Err e => Err e
            | Fuel => Fuel
            end
          else if is_kind KRparen t then Ok ([], s) else Err ETooMany
        else Err ETooMany   (* the loop ends on its own only after a ',' that closes the last parameter *)
      else
        let p := nth_param (mparams m) (ci c) in
        if is_kind KEof t then Err EArgEOF
        else
          let shallow := Nat.leb (depth s) (cdepth c) in
          let d := if shallow then depth s else cdepth c in
          let brk := shallow && Nat.eqb (cparen c) 0
                     && (is_kind KRparen t || (is_kind KComma t && negb (pvar p))) in
          if brk then
            let done := finish_arg p c in
            if is_kind KRparen t then
              if Nat.ltb (S (ci c)) n then Err ENotEnough
              else Ok (List.rev done, s)
            else
              match rawnext fuel' s with
              | Ok (t', s') => collect fuel' s' m (mkColl (S (ci c)) (cparen c) d [c_quote] [] done) t'
              | Err e => Err e
              | Fuel => Fuel
              end
          else
            let paren := if shallow then
                           (if is_kind KLparen t then S (cparen c)
                            else if is_kind KRparen t then pred (cparen c) else cparen c)
                         else cparen c in
            let sb := if shallow && pstr p then stringize (cstr c) t else cstr c in
            let cont (s1 : state) (cur : list token) : res (list arg * state) :=
              match rawnext fuel' s1 with
              | Ok (t', s') => collect fuel' s' m (mkColl (ci c) paren d sb cur (cdone c)) t'
              | Err e => Err e
              | Fuel => Fuel
              end in
            if ptok p then
              match expand fuel' s t with
              | Ok (true, _, s1) => cont s1 (ccur c)
              | Ok (false, t1, s1) => cont s1 (t1 :: ccur c)
              | Err e => Err e
              | Fuel => Fuel
              end
            else cont s (ccur c)
  end.

(* ------------------------------------------------------------------ next and the -E loop *)
(* ppnl = ppflags & PPNEWLINE *)
Fixpoint next (fuel : nat) (ppnl : bool) (s : state) : res (token * state) :=
  match fuel with
  | O => Fuel
  | S fuel' =>
      match rawnext fuel' s with
      | Ok (t, s1) =>
          match expand fuel' s1 t with
          | Ok (true, _, s2) => next fuel' ppnl s2
          | Ok (false, t1, s2) =>
              if is_kind KNewline t1 && negb ppnl then next fuel' ppnl s2 else Ok (t1, s2)
          | Err e => Err e
          | Fuel => Fuel
          end
      | Err e => Err e
      | Fuel => Fuel
      end
  end.

Inductive status := Done | Failed (e : error) | OutOfFuel.

(* main(): ppinit's next() runs without PPNEWLINE, the loop with it (emode = true: -E, false: compile) *)
Fixpoint run_loop (fuel : nat) (emode : bool) (s : state) (t : token) (acc : list token) : list token * status :=
  match fuel with
  | O => (List.rev acc, OutOfFuel)
  | S fuel' =>
      if is_kind KEof t then (List.rev acc, Done)
      else
        match next fuel' emode s with
        | Ok (t', s') => run_loop fuel' emode s' t' (t :: acc)
        | Err e => (List.rev (t :: acc), Failed e)
        | Fuel => (List.rev (t :: acc), OutOfFuel)
        end
  end.

Definition init_state (tb : table) (l : list token) : state := mkState l true tb [] 0 [].

Definition run (fuel : nat) (emode : bool) (tb : table) (l : list token) : list token * status :=
  match next fuel false (init_state tb l) with
  | Ok (t, s) => run_loop fuel emode s t []
  | Err e => ([], Failed e)
  | Fuel => ([], OutOfFuel)
  end.
