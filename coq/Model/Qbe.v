(* Qbe.v - syntax and executable, fuelled small-step semantics of the QBE IL subset that cproc emits.
   Shared toolkit (see notes/QBE.md).  No proofs in this file.

   Identifiers (temporaries, labels, globals, aggregate types) are interned by the parser as
   [positive]; the name tables live on the OCaml side.
   Values are raw bit patterns in Z: w/s in [0,2^32), l/d in [0,2^64).  Floating-point arithmetic is
   not axiomatised: it is a record [fops] passed to [run] and instantiated by the OCaml driver.
   Memory: block id b (positive) owns the addresses [b*2^32, b*2^32+size); block 0 is never live, so
   there is a guard gap after every block.  A global with identifier g lives in block g. *)
From Coq Require Import ZArith List Bool PArith FMapPositive.
Import ListNotations.
Open Scope Z_scope.

Module PM := PositiveMap.
Definition ident := positive.

(* ------------------------------------------------------------------ syntax *)
Inductive cls := Kw | Kl | Ks | Kd.
Inductive rty := Tbase (k : cls) | Tagg (t : ident).

Inductive ref :=
| RTmp (t : ident)
| RInt (n : Z)
| RFlt (bits : Z)
| RDbl (bits : Z)
| RGlo (g : ident) (thread : bool).

Inductive binop := Badd | Bsub | Bdiv | Bmul | Budiv | Brem | Burem | Bor | Bxor | Band | Bsar | Bshr | Bshl.
Inductive stw := Sd | Ss | Sl | Sw | Sh | Sb.
Inductive ldw := Ld | Ls | Ll | Lw | Lsh | Luh | Lsb | Lub.
Inductive cmpi := Ceq | Cne | Csle | Cslt | Csge | Csgt | Cule | Cult | Cuge | Cugt.
Inductive cmpf := Feq | Fne | Fle | Flt | Fge | Fgt | Fo | Fuo.
Inductive extk := Esw | Euw | Esh | Euh | Esb | Eub.
Inductive cvt := Cexts | Ctruncd | Cstosi | Cstoui | Cdtosi | Cdtoui | Cswtof | Cuwtof | Csltof | Cultof.

Inductive op :=
| Obin (b : binop)
| Oneg
| Ostore (s : stw)
| Oload (l : ldw)
| Oalloc (a : Z)                       (* 4, 8, 16 *)
| Ocmpi (wide : bool) (c : cmpi)       (* c..w / c..l *)
| Ocmpf (dbl : bool) (c : cmpf)        (* c..s / c..d *)
| Oext (e : extk)
| Ocvt (c : cvt)
| Ocast
| Ocopy
| Ovastart
| Ovaarg.

Inductive arg := Aval (t : rty) (r : ref) | Avar.          (* Avar is the "..." marker *)

Inductive inst :=
| Iop (res : option (ident * cls)) (o : op) (a0 : ref) (a1 : option ref)
| Icall (res : option (ident * rty)) (f : ref) (args : list arg).

Record phi := { p_res : ident; p_cls : cls; p_args : list (ident * ref) }.   (* (label, value) *)

Inductive jump :=
| Jmp (l : ident)
| Jnz (r : ref) (l1 l2 : ident)
| Ret (r : option ref)
| Hlt.

Record block := { b_label : ident; b_phis : list phi; b_insts : list inst; b_jump : option jump }.

Record linkage := { l_export : bool; l_thread : bool; l_section : option (list Z) }.

Record func := { f_lnk : linkage; f_ret : option rty; f_name : ident; f_params : list (rty * ident);
                 f_vararg : bool; f_blocks : list block }.

Inductive fty := Fb | Fh | Fw | Fl | Fs | Fd | Fagg (t : ident).
Inductive tbody :=
| TStruct (fields : list (fty * Z))
| TUnion (alts : list (list (fty * Z)))
| TOpaque (size : Z).
Record typdef := { td_name : ident; td_align : option Z; td_body : tbody }.

Inductive dty := Db | Dh | Dw | Dl | Ds | Dd.
Inductive dval :=
| DVint (n : Z)
| DVflt (bits : Z)
| DVdbl (bits : Z)
| DVstr (bytes : list Z)
| DVsym (g : ident) (off : Z).
Inductive ditem := DZero (n : Z) | DItem (t : dty) (vs : list dval).
Record data := { d_lnk : linkage; d_name : ident; d_align : option Z; d_items : list ditem }.

Inductive def := Dtype (t : typdef) | Ddata (d : data) | Dfunc (f : func).
Definition module := list def.

(* ------------------------------------------------------------------ results *)
Inductive event := EvL (v : Z) | EvD (bits : Z).

Inductive stuck :=
| UndefTemp (t : ident)
| NoLabel (l : ident)
| BadClass
| NoType (t : ident)
| UnknownExtern (g : ident)
| BadCallee (addr : Z)
| BadCall
| BadPhi (l : ident)
| DivTrap
| HltReached
| BadVa
| BadAlloc
| NoEntry
| FellOffEnd.

(* status: exit status (0..255) of main's return or exit(); -6 for abort() *)
Inductive result :=
| Done (trace : list event) (status : Z)
| OOB (addr : Z)
| Stuck (r : stuck)
| OutOfFuel.

Inductive extfn := XoutL | XoutD | Xexit | Xabort.

(* floating point, supplied by the driver (true = double / 64-bit integer side) *)
Inductive fbin := FAdd | FSub | FMul | FDiv.
Record fops := {
  f_bin : bool -> fbin -> Z -> Z -> Z;
  f_cmp : bool -> cmpf -> Z -> Z -> bool;
  f_cvt : cvt -> bool -> Z -> Z          (* bool: the result class is l resp. d *)
}.

(* ------------------------------------------------------------------ arithmetic *)
Definition two8 := 256.
Definition two16 := 65536.
Definition two31 := 2147483648.
Definition two32 := 4294967296.
Definition two63 := 9223372036854775808.
Definition two64 := 18446744073709551616.
Definition BLK := two32.
Definition MAXALLOC := two31.

Definition wide (k : cls) : bool := match k with Kw | Ks => false | Kl | Kd => true end.
Definition isint (k : cls) : bool := match k with Kw | Kl => true | _ => false end.
Definition modk (k : cls) : Z := if wide k then two64 else two32.
Definition halfk (k : cls) : Z := if wide k then two63 else two31.
Definition wrapk (k : cls) (x : Z) : Z := x mod modk k.
Definition signedk (k : cls) (x : Z) : Z := if x <? halfk k then x else x - modk k.
Definition bitsk (k : cls) : Z := if wide k then 64 else 32.

Definition cls_eqb (a b : cls) : bool :=
  match a, b with Kw, Kw | Kl, Kl | Ks, Ks | Kd, Kd => true | _, _ => false end.

(* sign extension of the low [m]-modulus part (m = 2^n) *)
Definition sextm (m : Z) (x : Z) : Z := let y := x mod m in if 2 * y <? m then y else y - m.

Definition b2z (b : bool) : Z := if b then 1 else 0.

Definition eval_cmpi (c : cmpi) (k : cls) (a b : Z) : bool :=
  let sa := signedk k a in let sb := signedk k b in
  match c with
  | Ceq => a =? b | Cne => negb (a =? b)
  | Csle => sa <=? sb | Cslt => sa <? sb | Csge => sb <=? sa | Csgt => sb <? sa
  | Cule => a <=? b | Cult => a <? b | Cuge => b <=? a | Cugt => b <? a
  end.

(* integer binary operation on class k (Kw or Kl); None = trap *)
Definition eval_ibin (b : binop) (k : cls) (x y : Z) : option Z :=
  let sx := signedk k x in let sy := signedk k y in
  let c := y mod bitsk k in
  match b with
  | Badd => Some (wrapk k (x + y))
  | Bsub => Some (wrapk k (x - y))
  | Bmul => Some (wrapk k (x * y))
  | Bdiv => if (y =? 0) || ((sx =? - halfk k) && (sy =? -1)) then None else Some (wrapk k (Z.quot sx sy))
  | Brem => if (y =? 0) || ((sx =? - halfk k) && (sy =? -1)) then None else Some (wrapk k (Z.rem sx sy))
  | Budiv => if y =? 0 then None else Some (x / y)
  | Burem => if y =? 0 then None else Some (x mod y)
  | Bor => Some (Z.lor x y)
  | Bxor => Some (Z.lxor x y)
  | Band => Some (Z.land x y)
  | Bsar => Some (wrapk k (sx / 2 ^ c))
  | Bshr => Some (x / 2 ^ c)
  | Bshl => Some (wrapk k (x * 2 ^ c))
  end.

(* ------------------------------------------------------------------ memory *)
Record mblock := { mb_size : Z; mb_bytes : PM.t Z }.
Definition mem := PM.t mblock.

Definition key (o : Z) : positive := Z.to_pos (o + 1).
Definition get_byte (bs : PM.t Z) (o : Z) : Z := match PM.find (key o) bs with Some v => v | None => 0 end.

Fixpoint loadn (n : nat) (bs : PM.t Z) (o : Z) : Z :=
  match n with O => 0 | S n' => get_byte bs o + 256 * loadn n' bs (o + 1) end.
Fixpoint storen (n : nat) (bs : PM.t Z) (o : Z) (v : Z) : PM.t Z :=
  match n with O => bs | S n' => storen n' (PM.add (key o) (v mod 256) bs) (o + 1) (v / 256) end.

Definition split_addr (a : Z) : option (positive * Z) :=
  match a / BLK with Zpos p => Some (p, a mod BLK) | _ => None end.

Definition find_block_at (m : mem) (a : Z) (n : Z) : option (positive * Z * mblock) :=
  match split_addr a with
  | Some (p, o) => match PM.find p m with
                   | Some b => if o + n <=? mb_size b then Some (p, o, b) else None
                   | None => None end
  | None => None
  end.

Definition mem_load (m : mem) (a : Z) (n : nat) : option Z :=
  match find_block_at m a (Z.of_nat n) with
  | Some (_, o, b) => Some (loadn n (mb_bytes b) o)
  | None => None end.

Definition mem_store (m : mem) (a : Z) (n : nat) (v : Z) : option mem :=
  match find_block_at m a (Z.of_nat n) with
  | Some (p, o, b) => Some (PM.add p {| mb_size := mb_size b; mb_bytes := storen n (mb_bytes b) o v |} m)
  | None => None end.

(* byte-wise copy of n bytes, used for aggregates passed or returned by value *)
Fixpoint copy_bytes (n : nat) (src : PM.t Z) (so : Z) (dst : PM.t Z) (do : Z) : PM.t Z :=
  match n with O => dst
  | S n' => copy_bytes n' src (so + 1) (PM.add (key do) (get_byte src so) dst) (do + 1) end.

Definition addr_of (p : positive) : Z := BLK * Zpos p.

(* ------------------------------------------------------------------ aggregate layout (QBE's rule) *)
Definition alignup (x a : Z) : Z := if a <=? 1 then x else ((x + a - 1) / a) * a.

Definition fty_layout (lay : PM.t (Z * Z)) (f : fty) : option (Z * Z) :=   (* size, align *)
  match f with
  | Fb => Some (1, 1) | Fh => Some (2, 2) | Fw | Fs => Some (4, 4) | Fl | Fd => Some (8, 8)
  | Fagg t => PM.find t lay end.

Fixpoint fields_layout (lay : PM.t (Z * Z)) (fs : list (fty * Z)) (off al : Z) : option (Z * Z) :=
  match fs with
  | [] => Some (off, al)
  | (f, n) :: r => match fty_layout lay f with
                   | Some (s, a) => fields_layout lay r (alignup off a + s * n) (Z.max al a)
                   | None => None end
  end.

Fixpoint alts_layout (lay : PM.t (Z * Z)) (alts : list (list (fty * Z))) (sz al : Z) : option (Z * Z) :=
  match alts with
  | [] => Some (sz, al)
  | fs :: r => match fields_layout lay fs 0 1 with
               | Some (s, a) => alts_layout lay r (Z.max sz s) (Z.max al a)
               | None => None end
  end.

Definition typdef_layout (lay : PM.t (Z * Z)) (t : typdef) : option (Z * Z) :=
  let fin (sa : Z * Z) := let a := match td_align t with Some a => a | None => snd sa end in
                          (alignup (fst sa) a, a) in
  match td_body t with
  | TStruct fs => option_map fin (fields_layout lay fs 0 1)
  | TUnion alts => option_map fin (alts_layout lay alts 0 1)
  | TOpaque s => Some (s, match td_align t with Some a => a | None => 1 end)
  end.

Fixpoint type_layouts (m : module) (lay : PM.t (Z * Z)) : PM.t (Z * Z) :=
  match m with
  | [] => lay
  | Dtype t :: r => type_layouts r (match typdef_layout lay t with Some sa => PM.add (td_name t) sa lay | None => lay end)
  | _ :: r => type_layouts r lay
  end.

(* ------------------------------------------------------------------ data images *)
Definition dty_size (t : dty) : Z := match t with Db => 1 | Dh => 2 | Dw | Ds => 4 | Dl | Dd => 8 end.
Definition dval_size (t : dty) (v : dval) : Z :=
  match v with DVstr bs => Z.of_nat (length bs) | _ => dty_size t end.
Definition ditem_size (i : ditem) : Z :=
  match i with DZero n => n | DItem t vs => fold_left (fun a v => a + dval_size t v) vs 0 end.
Definition data_size (d : data) : Z := fold_left (fun a i => a + ditem_size i) (d_items d) 0.

Fixpoint put_bytes (bs : PM.t Z) (o : Z) (l : list Z) : PM.t Z :=
  match l with [] => bs | x :: r => put_bytes (PM.add (key o) (x mod 256) bs) (o + 1) r end.

Definition put_dval (t : dty) (acc : PM.t Z * Z) (v : dval) : PM.t Z * Z :=
  let (bs, o) := acc in
  let n := Z.to_nat (dty_size t) in
  match v with
  | DVint x => (storen n bs o (x mod two64), o + dty_size t)
  | DVflt x | DVdbl x => (storen n bs o x, o + dty_size t)
  | DVstr l => (put_bytes bs o l, o + Z.of_nat (length l))
  | DVsym g off => (storen n bs o ((addr_of g + off) mod two64), o + dty_size t)
  end.

Definition put_ditem (acc : PM.t Z * Z) (i : ditem) : PM.t Z * Z :=
  match i with
  | DZero n => (fst acc, snd acc + n)
  | DItem t vs => fold_left (put_dval t) vs acc
  end.

Definition data_block (d : data) : mblock :=
  let r := fold_left put_ditem (d_items d) (PM.empty Z, 0) in
  {| mb_size := snd r; mb_bytes := fst r |}.

(* ------------------------------------------------------------------ global environment *)
Record genv := { ge_funs : PM.t func; ge_lay : PM.t (Z * Z); ge_ext : list (ident * extfn) }.

Fixpoint mod_funs (m : module) (acc : PM.t func) : PM.t func :=
  match m with
  | [] => acc
  | Dfunc f :: r => mod_funs r (match PM.find (f_name f) acc with Some _ => acc | None => PM.add (f_name f) f acc end)
  | _ :: r => mod_funs r acc end.

Fixpoint init_mem (m : module) (acc : mem) : mem :=
  match m with
  | [] => acc
  | Ddata d :: r => init_mem r (PM.add (d_name d) (data_block d) acc)
  | _ :: r => init_mem r acc end.

Definition max_ident_ref (r : ref) : positive := match r with RGlo g _ => g | _ => 1%positive end.
Definition max_ident_dval (v : dval) : positive := match v with DVsym g _ => g | _ => 1%positive end.

(* the first block identifier not used by any global of the module: the parser interns globals
   densely from 1, and supplies the count *)

Definition mk_genv (m : module) (ext : list (ident * extfn)) : genv :=
  {| ge_funs := mod_funs m (PM.empty func); ge_lay := type_layouts m (PM.empty (Z * Z)); ge_ext := ext |}.

Fixpoint find_ext (l : list (ident * extfn)) (g : ident) : option extfn :=
  match l with [] => None | (h, x) :: r => if Pos.eqb h g then Some x else find_ext r g end.

(* ------------------------------------------------------------------ machine state *)
Record frame := {
  fr_id : positive;                    (* unique activation number (va_list handles name it) *)
  fr_fn : func;
  fr_env : PM.t (cls * Z);
  fr_blk : block;                      (* current block *)
  fr_code : list inst;                 (* rest of the current block *)
  fr_after : list block;               (* blocks following the current one (fall-through) *)
  fr_allocs : list positive;           (* blocks to free on return *)
  fr_va : list (cls * Z);              (* variadic actuals *)
  fr_dst : option (ident * rty)        (* where the result of the pending call goes *)
}.

Record state := {
  st_mem : mem;
  st_next : positive;                  (* next fresh block id *)
  st_ncall : positive;                 (* next activation number *)
  st_stack : list frame;               (* innermost first *)
  st_trace : list event                (* newest first *)
}.

Inductive res (A : Type) := Ok (a : A) | Err (r : result).
Arguments Ok {A} a.
Arguments Err {A} r.
Definition bind {A B} (x : res A) (f : A -> res B) : res B := match x with Ok a => f a | Err r => Err r end.
Notation "'do' x <- a ; b" := (bind a (fun x => b)) (at level 200, x pattern, a at level 100, b at level 200).

Definition stuckr {A} (s : stuck) : res A := Err (Stuck s).

Definition read (env : PM.t (cls * Z)) (k : cls) (r : ref) : res Z :=
  match r with
  | RTmp t => match PM.find t env with
              | None => stuckr (UndefTemp t)
              | Some (k', v) => if cls_eqb k k' then Ok v
                                else match k, k' with Kw, Kl => Ok (v mod two32) | _, _ => stuckr BadClass end
              end
  | RInt n => match k with Kw => Ok (n mod two32) | Kl => Ok (n mod two64) | _ => stuckr BadClass end
  | RFlt b => match k with Ks => Ok b | _ => stuckr BadClass end
  | RDbl b => match k with Kd => Ok b | _ => stuckr BadClass end
  | RGlo g _ => match k with Kl => Ok (addr_of g) | Kw => Ok (addr_of g mod two32) | _ => stuckr BadClass end
  end.

Definition read1 (env : PM.t (cls * Z)) (k : cls) (r : option ref) : res Z :=
  match r with Some r => read env k r | None => stuckr BadClass end.

Definition ld_bytes (l : ldw) : nat :=
  match l with Ld | Ll => 8%nat | Ls | Lw => 4%nat | Lsh | Luh => 2%nat | Lsb | Lub => 1%nat end.
Definition st_bytes (s : stw) : nat :=
  match s with Sd | Sl => 8%nat | Ss | Sw => 4%nat | Sh => 2%nat | Sb => 1%nat end.
Definition st_cls (s : stw) : cls := match s with Sd => Kd | Ss => Ks | Sl => Kl | _ => Kw end.

(* value of a load of kind l into class k; None = class error *)
Definition load_result (l : ldw) (k : cls) (raw : Z) : option Z :=
  match l, k with
  | Ld, Kd | Ls, Ks | Ll, Kl | Lw, Kw => Some raw
  | Lw, Kl => Some (wrapk Kl (sextm two32 raw))
  | Lsh, (Kw | Kl) => Some (wrapk k (sextm two16 raw))
  | Lsb, (Kw | Kl) => Some (wrapk k (sextm two8 raw))
  | Luh, (Kw | Kl) | Lub, (Kw | Kl) => Some raw
  | _, _ => None
  end.

(* pure instructions: result value of class k *)
Definition eval_pure (fo : fops) (env : PM.t (cls * Z)) (o : op) (k : cls) (a0 : ref) (a1 : option ref) : res Z :=
  match o with
  | Obin b =>
      do x <- read env k a0; do y <- read1 env (match b with Bsar | Bshr | Bshl => Kw | _ => k end) a1;
      if isint k then match eval_ibin b k x y with Some v => Ok v | None => stuckr DivTrap end
      else match b with
           | Badd => Ok (wrapk k (f_bin fo (wide k) FAdd x y))
           | Bsub => Ok (wrapk k (f_bin fo (wide k) FSub x y))
           | Bmul => Ok (wrapk k (f_bin fo (wide k) FMul x y))
           | Bdiv => Ok (wrapk k (f_bin fo (wide k) FDiv x y))
           | _ => stuckr BadClass end
  | Oneg =>
      do x <- read env k a0;
      match a1 with Some _ => stuckr BadClass | None =>
      if isint k then Ok (wrapk k (- x)) else Ok (Z.lxor x (halfk k)) end
  | Ocmpi w c =>
      let ko := if w then Kl else Kw in
      do x <- read env ko a0; do y <- read1 env ko a1;
      if isint k then Ok (b2z (eval_cmpi c ko x y)) else stuckr BadClass
  | Ocmpf d c =>
      let ko := if d then Kd else Ks in
      do x <- read env ko a0; do y <- read1 env ko a1;
      if isint k then Ok (b2z (f_cmp fo d c x y)) else stuckr BadClass
  | Oext e =>
      do x <- read env Kw a0;
      match a1 with Some _ => stuckr BadClass | None =>
      match e, k with
      | Esw, Kl => Ok (wrapk Kl (sextm two32 x))
      | Euw, Kl => Ok x
      | Esh, (Kw | Kl) => Ok (wrapk k (sextm two16 x))
      | Euh, (Kw | Kl) => Ok (x mod two16)
      | Esb, (Kw | Kl) => Ok (wrapk k (sextm two8 x))
      | Eub, (Kw | Kl) => Ok (x mod two8)
      | _, _ => stuckr BadClass end end
  | Ocvt c =>
      let '(ka, okres) := match c with
        | Cexts => (Ks, cls_eqb k Kd) | Ctruncd => (Kd, cls_eqb k Ks)
        | Cstosi | Cstoui => (Ks, isint k) | Cdtosi | Cdtoui => (Kd, isint k)
        | Cswtof | Cuwtof => (Kw, negb (isint k)) | Csltof | Cultof => (Kl, negb (isint k)) end in
      do x <- read env ka a0;
      match a1 with Some _ => stuckr BadClass | None =>
      if okres then Ok (wrapk k (f_cvt fo c (wide k) x)) else stuckr BadClass end
  | Ocast =>
      let ka := match k with Kw => Ks | Kl => Kd | Ks => Kw | Kd => Kl end in
      do x <- read env ka a0;
      match a1 with Some _ => stuckr BadClass | None => Ok x end
  | Ocopy =>
      do x <- read env k a0;
      match a1 with Some _ => stuckr BadClass | None => Ok x end
  | _ => stuckr BadClass
  end.

Definition set_tmp (env : PM.t (cls * Z)) (d : option (ident * cls)) (v : Z) : PM.t (cls * Z) :=
  match d with Some (t, k) => PM.add t (k, v) env | None => env end.

Fixpoint find_suffix (l : ident) (bs : list block) : option (block * list block) :=
  match bs with
  | [] => None
  | b :: r => if Pos.eqb (b_label b) l then Some (b, r) else find_suffix l r end.

Fixpoint phi_arg (l : ident) (args : list (ident * ref)) : option ref :=
  match args with [] => None | (l', r) :: t => if Pos.eqb l' l then Some r else phi_arg l t end.

(* all phis of the entered block read the environment of the predecessor *)
Fixpoint eval_phis (old : PM.t (cls * Z)) (from : ident) (ps : list phi) (env : PM.t (cls * Z)) : res (PM.t (cls * Z)) :=
  match ps with
  | [] => Ok env
  | p :: r => match phi_arg from (p_args p) with
              | None => stuckr (BadPhi from)
              | Some a => do v <- read old (p_cls p) a; eval_phis old from r (PM.add (p_res p) (p_cls p, v) env)
              end
  end.

Definition enter (fr : frame) (b : block) (after : list block) : res frame :=
  do env <- eval_phis (fr_env fr) (b_label (fr_blk fr)) (b_phis b) (fr_env fr);
  Ok {| fr_id := fr_id fr; fr_fn := fr_fn fr; fr_env := env; fr_blk := b; fr_code := b_insts b; fr_after := after;
        fr_allocs := fr_allocs fr; fr_va := fr_va fr; fr_dst := fr_dst fr |}.

Definition goto (fr : frame) (l : ident) : res frame :=
  match find_suffix l (f_blocks (fr_fn fr)) with
  | Some (b, after) => enter fr b after
  | None => stuckr (NoLabel l) end.

Definition upd_frame (fr : frame) (env : PM.t (cls * Z)) (code : list inst) (allocs : list positive) (dst : option (ident * rty)) : frame :=
  {| fr_id := fr_id fr; fr_fn := fr_fn fr; fr_env := env; fr_blk := fr_blk fr; fr_code := code; fr_after := fr_after fr;
     fr_allocs := allocs; fr_va := fr_va fr; fr_dst := dst |}.

Definition upd_state (st : state) (m : mem) (stack : list frame) : state :=
  {| st_mem := m; st_next := st_next st; st_ncall := st_ncall st; st_stack := stack; st_trace := st_trace st |}.

Fixpoint free_blocks (l : list positive) (m : mem) : mem :=
  match l with [] => m | p :: r => free_blocks r (PM.remove p m) end.

(* a fresh block holding a copy of n bytes at address a *)
Definition copy_in (st : state) (a : Z) (n : Z) : res (state * positive) :=
  if (n <? 0) || (MAXALLOC <=? n) then stuckr BadAlloc else
  match (if n =? 0 then Some (PM.empty Z, 0) else
         match find_block_at (st_mem st) a n with Some (_, o, b) => Some (mb_bytes b, o) | None => None end) with
  | None => Err (OOB a)
  | Some (src, o) =>
      let p := st_next st in
      let nb := {| mb_size := n; mb_bytes := copy_bytes (Z.to_nat n) src o (PM.empty Z) 0 |} in
      Ok ({| st_mem := PM.add p nb (st_mem st); st_next := Pos.succ p; st_ncall := st_ncall st;
             st_stack := st_stack st; st_trace := st_trace st |}, p)
  end.

Definition agg_size (ge : genv) (t : ident) : res Z :=
  match PM.find t (ge_lay ge) with Some (s, _) => Ok s | None => stuckr (NoType t) end.

(* evaluate actual arguments: (type, value) list before the "..." marker and after it *)
Fixpoint eval_args (env : PM.t (cls * Z)) (args : list arg) (seenvar : bool)
  : res (list (rty * Z) * list (rty * Z)) :=
  match args with
  | [] => Ok ([], [])
  | Avar :: r => if seenvar then stuckr BadCall else eval_args env r true
  | Aval t a :: r =>
      do v <- read env (match t with Tbase k => k | Tagg _ => Kl end) a;
      do fv <- eval_args env r seenvar;
      if seenvar then Ok (fst fv, (t, v) :: snd fv) else Ok ((t, v) :: fst fv, snd fv)
  end.

(* bind formals; aggregates are copied into blocks owned by the callee *)
Fixpoint bind_params (ge : genv) (st : state) (ps : list (rty * ident)) (avs : list (rty * Z))
         (env : PM.t (cls * Z)) (allocs : list positive)
  : res (state * PM.t (cls * Z) * list positive * list (rty * Z)) :=
  match ps, avs with
  | [], rest => Ok (st, env, allocs, rest)
  | _ :: _, [] => stuckr BadCall
  | (Tbase k, t) :: ps', (Tbase k', v) :: avs' =>
      if cls_eqb k k' then bind_params ge st ps' avs' (PM.add t (k, v) env) allocs else stuckr BadCall
  | (Tagg ty, t) :: ps', (Tagg _, v) :: avs' =>
      do n <- agg_size ge ty;
      do sp <- copy_in st v n;
      bind_params ge (fst sp) ps' avs' (PM.add t (Kl, addr_of (snd sp)) env) (snd sp :: allocs)
  | _, _ => stuckr BadCall
  end.

(* variadic actuals: aggregates are copied too and travel as pointers *)
Fixpoint bind_va (ge : genv) (st : state) (avs : list (rty * Z)) (allocs : list positive)
  : res (state * list (cls * Z) * list positive) :=
  match avs with
  | [] => Ok (st, [], allocs)
  | (Tbase k, v) :: r => do x <- bind_va ge st r allocs;
                         let '(st', l, al) := x in Ok (st', (k, v) :: l, al)
  | (Tagg ty, v) :: r => do n <- agg_size ge ty;
                         do sp <- copy_in st v n;
                         do x <- bind_va ge (fst sp) r (snd sp :: allocs);
                         let '(st', l, al) := x in Ok (st', (Kl, addr_of (snd sp)) :: l, al)
  end.

Definition VASHIFT := 1048576.   (* cursor = activation * 2^20 + position *)

Fixpoint find_frame (id : positive) (st : list frame) : option frame :=
  match st with [] => None | f :: r => if Pos.eqb (fr_id f) id then Some f else find_frame id r end.

Inductive step_result := Next (s : state) | Final (r : result).

Definition final_of {A} (x : res A) (f : A -> step_result) : step_result :=
  match x with Ok a => f a | Err r => Final r end.

Definition rev_trace (st : state) : list event := rev (st_trace st).

(* return v (already read at the callee's return class) from the top frame *)
Definition do_return (ge : genv) (st : state) (fr : frame) (rest : list frame) (v : option (cls * Z)) : step_result :=
  match rest with
  | [] => Final (Done (rev_trace st) (match v with Some (_, x) => x mod 256 | None => 0 end))
  | caller :: rest' =>
      let finish (st1 : state) (env : PM.t (cls * Z)) (callocs : list positive) :=
        Next (upd_state st1 (free_blocks (fr_allocs fr) (st_mem st1))
                (upd_frame caller env (fr_code caller) callocs None :: rest')) in
      match fr_dst caller with
      | None => finish st (fr_env caller) (fr_allocs caller)
      | Some (t, Tbase k) =>
          match v with
          | None => finish st (PM.add t (k, 0) (fr_env caller)) (fr_allocs caller)
          | Some (k', x) =>
              if cls_eqb k k' then finish st (PM.add t (k, x) (fr_env caller)) (fr_allocs caller)
              else match k, k' with
                   | Kw, Kl => finish st (PM.add t (k, x mod two32) (fr_env caller)) (fr_allocs caller)
                   | _, _ => Final (Stuck BadCall) end
          end
      | Some (t, Tagg ty) =>
          match v with
          | Some (Kl, x) =>
              final_of (do n <- agg_size ge ty; copy_in st x n)
                       (fun sp => finish (fst sp) (PM.add t (Kl, addr_of (snd sp)) (fr_env caller)) (snd sp :: fr_allocs caller))
          | _ => Final (Stuck BadCall) end
      end
  end.

Definition entry_frame (id : positive) (f : func) (env : PM.t (cls * Z)) (allocs : list positive) (va : list (cls * Z)) : res frame :=
  match f_blocks f with
  | [] => stuckr FellOffEnd
  | b :: after => Ok {| fr_id := id; fr_fn := f; fr_env := env; fr_blk := b; fr_code := b_insts b; fr_after := after;
                        fr_allocs := allocs; fr_va := va; fr_dst := None |}
  end.

Definition do_call (ge : genv) (st : state) (fr : frame) (rest : list frame) (code : list inst)
           (res : option (ident * rty)) (f : ref) (args : list arg) : step_result :=
  final_of (do a <- read (fr_env fr) Kl f; do fv <- eval_args (fr_env fr) args false; Ok (a, fv)) (fun afv =>
  let '(a, (fixed, var)) := afv in
  match split_addr a with
  | None => Final (Stuck (BadCallee a))
  | Some (g, off) =>
    if negb (off =? 0) then Final (Stuck (BadCallee a)) else
    match PM.find g (ge_funs ge) with
    | Some fn =>
        let caller := upd_frame fr (fr_env fr) code (fr_allocs fr) res in
        final_of (do x <- bind_params ge st (f_params fn) fixed (PM.empty (cls * Z)) [];
                  let '(st1, env, allocs, extra) := x in
                  do y <- (if f_vararg fn then bind_va ge st1 (extra ++ var) allocs
                           else match extra, var with [], [] => Ok (st1, [], allocs) | _, _ => stuckr BadCall end);
                  let '(st2, va, allocs2) := y in
                  do nf <- entry_frame (st_ncall st2) fn env allocs2 va;
                  Ok (st2, nf))
                 (fun sn => let '(st2, nf) := sn in
                    Next {| st_mem := st_mem st2; st_next := st_next st2; st_ncall := Pos.succ (st_ncall st2);
                            st_stack := nf :: caller :: rest; st_trace := st_trace st2 |})
    | None =>
        match find_ext (ge_ext ge) g with
        | None => Final (Stuck (UnknownExtern g))
        | Some x =>
            let cont (tr : list event) :=
              match res with
              | Some _ => Final (Stuck BadCall)
              | None => Next {| st_mem := st_mem st; st_next := st_next st; st_ncall := st_ncall st;
                                st_stack := upd_frame fr (fr_env fr) code (fr_allocs fr) None :: rest; st_trace := tr |}
              end in
            match x, fixed, var with
            | XoutL, [(Tbase Kl, v)], [] => cont (EvL v :: st_trace st)
            | XoutL, [(Tbase Kw, v)], [] => cont (EvL (wrapk Kl (sextm two32 v)) :: st_trace st)
            | XoutD, [(Tbase Kd, v)], [] => cont (EvD v :: st_trace st)
            | Xexit, [(Tbase _, v)], [] => Final (Done (rev_trace st) (v mod 256))
            | Xabort, [], [] => Final (Done (rev_trace st) (-6))
            | _, _, _ => Final (Stuck BadCall)
            end
        end
    end
  end).

Definition step (fo : fops) (ge : genv) (st : state) : step_result :=
  match st_stack st with
  | [] => Final (Stuck NoEntry)
  | fr :: rest =>
    let env := fr_env fr in
    match fr_code fr with
    | Iop d o a0 a1 :: code =>
        let k := match d with Some (_, k) => k | None => Kw end in
        let continue (m : mem) (env' : PM.t (cls * Z)) :=
          Next (upd_state st m (upd_frame fr env' code (fr_allocs fr) (fr_dst fr) :: rest)) in
        match o with
        | Ostore s =>
            match d with Some _ => Final (Stuck BadClass) | None =>
            final_of (do v <- read env (st_cls s) a0; do a <- read1 env Kl a1; Ok (v, a)) (fun va =>
              match mem_store (st_mem st) (snd va) (st_bytes s) (fst va) with
              | Some m => continue m env
              | None => Final (OOB (snd va)) end) end
        | Oload l =>
            match d, a1 with
            | Some (t, k), None =>
              final_of (read env Kl a0) (fun a =>
                match mem_load (st_mem st) a (ld_bytes l) with
                | None => Final (OOB a)
                | Some raw => match load_result l k raw with
                              | Some v => continue (st_mem st) (PM.add t (k, v) env)
                              | None => Final (Stuck BadClass) end
                end)
            | _, _ => Final (Stuck BadClass) end
        | Oalloc _ =>
            match d, a1 with
            | Some (t, Kl), None =>
              final_of (read env Kl a0) (fun n =>
                if MAXALLOC <=? n then Final (Stuck BadAlloc) else
                let p := st_next st in
                Next {| st_mem := PM.add p {| mb_size := n; mb_bytes := PM.empty Z |} (st_mem st);
                        st_next := Pos.succ p; st_ncall := st_ncall st;
                        st_stack := upd_frame fr (PM.add t (Kl, addr_of p) env) code (p :: fr_allocs fr) (fr_dst fr) :: rest;
                        st_trace := st_trace st |})
            | _, _ => Final (Stuck BadClass) end
        | Ovastart =>
            match d, a1 with
            | None, None =>
              final_of (read env Kl a0) (fun a =>
                match mem_store (st_mem st) a 8 (Zpos (fr_id fr) * VASHIFT) with
                | Some m => continue m env
                | None => Final (OOB a) end)
            | _, _ => Final (Stuck BadClass) end
        | Ovaarg =>
            match d, a1 with
            | Some (t, k), None =>
              final_of (read env Kl a0) (fun a =>
                match mem_load (st_mem st) a 8 with
                | None => Final (OOB a)
                | Some c =>
                    match c / VASHIFT with
                    | Zpos id =>
                        match find_frame id (st_stack st) with
                        | None => Final (Stuck BadVa)
                        | Some f =>
                            match nth_error (fr_va f) (Z.to_nat (c mod VASHIFT)) with
                            | None => Final (Stuck BadVa)
                            | Some (k', v) =>
                                match (if cls_eqb k k' then Some v else
                                       match k, k' with Kw, Kl => Some (v mod two32) | _, _ => None end) with
                                | None => Final (Stuck BadVa)
                                | Some v' =>
                                    match mem_store (st_mem st) a 8 (c + 1) with
                                    | Some m => continue m (PM.add t (k, v') env)
                                    | None => Final (OOB a) end
                                end
                            end
                        end
                    | _ => Final (Stuck BadVa)
                    end
                end)
            | _, _ => Final (Stuck BadClass) end
        | _ =>
            match d with
            | None => Final (Stuck BadClass)
            | Some (t, k) => final_of (eval_pure fo env o k a0 a1) (fun v => continue (st_mem st) (PM.add t (k, v) env))
            end
        end
    | Icall d f args :: code => do_call ge st fr rest code d f args
    | [] =>
        let jumpto (l : ident) :=
          final_of (goto fr l) (fun fr' => Next (upd_state st (st_mem st) (fr' :: rest))) in
        match b_jump (fr_blk fr) with
        | None => match fr_after fr with
                  | b :: after => final_of (enter fr b after) (fun fr' => Next (upd_state st (st_mem st) (fr' :: rest)))
                  | [] => Final (Stuck FellOffEnd) end
        | Some (Jmp l) => jumpto l
        | Some (Jnz r l1 l2) => final_of (read env Kw r) (fun v => jumpto (if v =? 0 then l2 else l1))
        | Some Hlt => Final (Stuck HltReached)
        | Some (Ret None) => do_return ge st fr rest None
        | Some (Ret (Some r)) =>
            match f_ret (fr_fn fr) with
            | None => Final (Stuck BadClass)
            | Some (Tbase k) => final_of (read env k r) (fun v => do_return ge st fr rest (Some (k, v)))
            | Some (Tagg _) => final_of (read env Kl r) (fun v => do_return ge st fr rest (Some (Kl, v)))
            end
        end
    end
  end.

Fixpoint run_state (fo : fops) (ge : genv) (fuel : nat) (st : state) : result :=
  match fuel with
  | O => OutOfFuel
  | S n => match step fo ge st with
           | Final r => r
           | Next st' => run_state fo ge n st' end
  end.

(* [nglob]: number of global identifiers interned by the parser (blocks 1..nglob are reserved for
   them); [entry]: identifier of the function to run; its parameters (main's argc/argv) are zero. *)
Definition init_state (m : module) (ge : genv) (nglob : positive) (entry : ident) : res state :=
  match PM.find entry (ge_funs ge) with
  | None => stuckr NoEntry
  | Some f =>
      let env := fold_left (fun e (p : rty * ident) =>
                   PM.add (snd p) (match fst p with Tbase k => k | Tagg _ => Kl end, 0) e) (f_params f) (PM.empty (cls * Z)) in
      do fr <- entry_frame 1%positive f env [] [];
      Ok {| st_mem := init_mem m (PM.empty mblock); st_next := Pos.succ nglob; st_ncall := 2%positive;
            st_stack := [fr]; st_trace := [] |}
  end.

Definition run (fo : fops) (m : module) (ext : list (ident * extfn)) (nglob : positive) (entry : ident) (fuel : nat) : result :=
  let ge := mk_genv m ext in
  match init_state m ge nglob entry with
  | Err r => r
  | Ok st => run_state fo ge fuel st end.
