(* QbeWf.v - executable well-formedness checker for IL modules (DESIGN.md C03, rules (1)-(9)).
   Rule (1) (grammar, nothing after a terminator inside a block) is enforced by the parser and by the
   shape of the AST.  [wf_module_list] returns every violation found; [wf_module] is its emptiness.
   No proofs in this file. *)
From Coq Require Import ZArith List Bool PArith FMapPositive.
From Cproc Require Import Model.Qbe.
Import ListNotations.
Open Scope Z_scope.

Inductive vkind :=
| VDupSym        (* (2) a global is defined twice *)
| VDupType       (* (7) *)
| VDupLabel      (* (2)/(5) a label is defined twice in a function *)
| VDupTemp       (* (2) *)
| VUndefTemp     (* (3) used, never defined *)
| VNotDom        (* (3) definition does not dominate the use *)
| VClass         (* (4) operand or result class *)
| VNoLabel       (* (5) jump or phi names a missing block *)
| VPhiPreds      (* (5) a phi argument names a block that is not a predecessor, or names it twice *)
| VPhiSet        (* (5) a predecessor has no phi argument *)
| VNoTerm        (* (6) last block has no terminator / function has no block *)
| VNoType        (* (7) aggregate type used before its definition *)
| VCallSig       (* (8) call disagrees with the callee defined in the module *)
| VRetClass      (* (8) ret value disagrees with the function's return type *)
| VDomFuel       (* internal: dominator iteration did not converge (never expected) *)
| VEntryPhi.     (* (3)/(5) a phi in the first block of a function: control enters it without evaluating phis *)

(* v_fn: global id of the function (0: module level); v_blk: label id (0: none); v_idx: instruction
   index in the block (-1: phi, length: the jump); v_aux: the offending temporary/label/type/global *)
Record violation := { v_rule : Z; v_kind : vkind; v_fn : Z; v_blk : Z; v_idx : Z; v_aux : Z }.
Definition mkv (r : Z) (k : vkind) (fn : ident) (bl : ident) (i : Z) (a : ident) : violation :=
  {| v_rule := r; v_kind := k; v_fn := Zpos fn; v_blk := Zpos bl; v_idx := i; v_aux := Zpos a |}.

Definition rty_eqb (a b : rty) : bool :=
  match a, b with Tbase x, Tbase y => cls_eqb x y | Tagg x, Tagg y => Pos.eqb x y | _, _ => false end.
Definition rty_cls (t : rty) : cls := match t with Tbase k => k | Tagg _ => Kl end.

(* ------------------------------------------------------------------ (5) labels, (6) terminators *)
Definition jump_targets (j : option jump) : list ident :=
  match j with Some (Jmp l) => [l] | Some (Jnz _ a b) => [a; b] | _ => [] end.

Definition has_label (f : func) (l : ident) : bool :=
  match find_suffix l (f_blocks f) with Some _ => true | None => false end.

Definition labels_viol (f : func) : list violation :=
  flat_map (fun b => flat_map (fun l => if has_label f l then [] else [mkv 5 VNoLabel (f_name f) (b_label b) (Z.of_nat (length (b_insts b))) l])
                              (jump_targets (b_jump b))) (f_blocks f).

Fixpoint last_block (bs : list block) : option block :=
  match bs with [] => None | [b] => Some b | _ :: r => last_block r end.

Definition term_viol (f : func) : list violation :=
  match last_block (f_blocks f) with
  | None => [mkv 6 VNoTerm (f_name f) 1%positive 0 1%positive]
  | Some b => match b_jump b with Some _ => [] | None => [mkv 6 VNoTerm (f_name f) (b_label b) (Z.of_nat (length (b_insts b))) (b_label b)] end
  end.

Fixpoint dup_labels (fn : ident) (bs : list block) (seen : PM.t unit) : list violation :=
  match bs with
  | [] => []
  | b :: r => match PM.find (b_label b) seen with
              | Some _ => mkv 2 VDupLabel fn (b_label b) 0 (b_label b) :: dup_labels fn r seen
              | None => dup_labels fn r (PM.add (b_label b) tt seen) end
  end.

(* ------------------------------------------------------------------ numbering, CFG *)
Record nblock := { nb_idx : positive; nb_mask : Z; nb_blk : block }.

Fixpoint number (bs : list block) (i : positive) (mask : Z) : list nblock :=
  match bs with [] => [] | b :: r => {| nb_idx := i; nb_mask := mask; nb_blk := b |} :: number r (Pos.succ i) (2 * mask) end.

Definition labmap (nbs : list nblock) : PM.t nblock :=
  fold_left (fun m nb => match PM.find (b_label (nb_blk nb)) m with Some _ => m | None => PM.add (b_label (nb_blk nb)) nb m end)
            nbs (PM.empty nblock).

(* successors of each block as numbered blocks (missing labels are skipped; rule 5 reports them) *)
Fixpoint succs_of (lm : PM.t nblock) (nbs : list nblock) : list (nblock * list nblock) :=
  match nbs with
  | [] => []
  | nb :: r =>
      let ss := match b_jump (nb_blk nb) with
                | None => match r with n :: _ => [n] | [] => [] end
                | j => flat_map (fun l => match PM.find l lm with Some n => [n] | None => [] end) (jump_targets j)
                end in
      (nb, ss) :: succs_of lm r
  end.

Definition succ_masks (sc : list (nblock * list nblock)) : PM.t Z :=
  fold_left (fun m p => PM.add (nb_idx (fst p)) (fold_left (fun a s => Z.lor a (nb_mask s)) (snd p) 0) m) sc (PM.empty Z).

Definition pred_lists (sc : list (nblock * list nblock)) : PM.t (list nblock) :=
  fold_left (fun m p => fold_left (fun m' s =>
               PM.add (nb_idx s) (fst p :: match PM.find (nb_idx s) m' with Some l => l | None => [] end) m') (snd p) m)
            sc (PM.empty (list nblock)).

Definition zfind (m : PM.t Z) (i : positive) (dflt : Z) : Z := match PM.find i m with Some z => z | None => dflt end.

Definition reach_pass (nbs : list nblock) (sm : PM.t Z) (r : Z) : Z :=
  fold_left (fun r nb => if Z.land r (nb_mask nb) =? 0 then r else Z.lor r (zfind sm (nb_idx nb) 0)) nbs r.

Fixpoint reach_iter (fuel : nat) (nbs : list nblock) (sm : PM.t Z) (r : Z) : Z :=
  match fuel with
  | O => r
  | S n => let r' := reach_pass nbs sm r in if r' =? r then r else reach_iter n nbs sm r' end.

Definition dom_pass (nbs : list nblock) (preds : PM.t (list nblock)) (full : Z) (dom : PM.t Z) : PM.t Z * bool :=
  fold_left (fun acc nb =>
    let nd := if Pos.eqb (nb_idx nb) 1 then nb_mask nb
              else Z.lor (nb_mask nb)
                     (fold_left (fun a p => Z.land a (zfind (fst acc) (nb_idx p) full))
                                (match PM.find (nb_idx nb) preds with Some l => l | None => [] end) full) in
    if nd =? zfind (fst acc) (nb_idx nb) full then acc else (PM.add (nb_idx nb) nd (fst acc), true)) nbs (dom, false).

Fixpoint dom_iter (fuel : nat) (nbs : list nblock) (preds : PM.t (list nblock)) (full : Z) (dom : PM.t Z) : PM.t Z * bool :=
  match fuel with
  | O => (dom, false)
  | S n => let r := dom_pass nbs preds full dom in
           if snd r then dom_iter n nbs preds full (fst r) else (fst r, true) end.

(* ------------------------------------------------------------------ (2) definitions *)
Record site := { s_blk : Z; s_pos : Z; s_mask : Z; s_cls : cls }.     (* s_blk = 0: parameter *)

Definition add_def (fn bl : ident) (t : ident) (s : site) (acc : PM.t site * list violation) : PM.t site * list violation :=
  match PM.find t (fst acc) with
  | Some _ => (fst acc, mkv 2 VDupTemp fn bl (s_pos s) t :: snd acc)
  | None => (PM.add t s (fst acc), snd acc) end.

Fixpoint inst_defs (fn bl : ident) (bi mask : Z) (is : list inst) (i : Z) (acc : PM.t site * list violation) :=
  match is with
  | [] => acc
  | Iop (Some (t, k)) _ _ _ :: r =>
      inst_defs fn bl bi mask r (i + 1) (add_def fn bl t {| s_blk := bi; s_pos := i; s_mask := mask; s_cls := k |} acc)
  | Icall (Some (t, ty)) _ _ :: r =>
      inst_defs fn bl bi mask r (i + 1) (add_def fn bl t {| s_blk := bi; s_pos := i; s_mask := mask; s_cls := rty_cls ty |} acc)
  | _ :: r => inst_defs fn bl bi mask r (i + 1) acc
  end.

Definition block_defs (fn : ident) (acc : PM.t site * list violation) (nb : nblock) :=
  let b := nb_blk nb in let bi := Zpos (nb_idx nb) in
  let acc1 := fold_left (fun a p => add_def fn (b_label b) (p_res p)
                           {| s_blk := bi; s_pos := -1; s_mask := nb_mask nb; s_cls := p_cls p |} a) (b_phis b) acc in
  inst_defs fn (b_label b) bi (nb_mask nb) (b_insts b) 0 acc1.

Definition func_defs (f : func) (nbs : list nblock) : PM.t site * list violation :=
  let acc0 := fold_left (fun a (p : rty * ident) =>
                add_def (f_name f) 1%positive (snd p) {| s_blk := 0; s_pos := -1; s_mask := 0; s_cls := rty_cls (fst p) |} a)
              (f_params f) (PM.empty site, []) in
  fold_left (block_defs (f_name f)) nbs acc0.

(* ------------------------------------------------------------------ (4) classes *)
Definition ok_ref (defs : PM.t site) (k : cls) (r : ref) : bool :=
  match r with
  | RTmp t => match PM.find t defs with
              | Some s => cls_eqb k (s_cls s) || (cls_eqb k Kw && cls_eqb (s_cls s) Kl)
              | None => true end                       (* reported by rule 3 *)
  | RInt _ => isint k
  | RFlt _ => cls_eqb k Ks
  | RDbl _ => cls_eqb k Kd
  | RGlo _ _ => isint k            (* QBE accepts a symbol address where w is expected (truncated) *)
  end.

(* expected classes of the two operands (None: operand must be absent); None: result class not allowed *)
Definition op_sig (o : op) (res : option cls) : option (cls * option cls) :=
  match o, res with
  | Obin (Badd | Bsub | Bmul | Bdiv), Some k => Some (k, Some k)
  | Obin (Budiv | Brem | Burem | Bor | Bxor | Band), Some k => if isint k then Some (k, Some k) else None
  | Obin (Bsar | Bshr | Bshl), Some k => if isint k then Some (k, Some Kw) else None
  | Oneg, Some k => Some (k, None)
  | Ostore s, None => Some (st_cls s, Some Kl)
  | Oload Ld, Some Kd | Oload Ls, Some Ks | Oload Ll, Some Kl => Some (Kl, None)
  | Oload (Lw | Lsh | Luh | Lsb | Lub), Some k => if isint k then Some (Kl, None) else None
  | Oalloc _, Some Kl => Some (Kl, None)
  | Ocmpi w _, Some k => if isint k then Some (if w then Kl else Kw, Some (if w then Kl else Kw)) else None
  | Ocmpf d _, Some k => if isint k then Some (if d then Kd else Ks, Some (if d then Kd else Ks)) else None
  | Oext (Esw | Euw), Some Kl => Some (Kw, None)
  | Oext (Esh | Euh | Esb | Eub), Some k => if isint k then Some (Kw, None) else None
  | Ocvt Cexts, Some Kd => Some (Ks, None)
  | Ocvt Ctruncd, Some Ks => Some (Kd, None)
  | Ocvt (Cstosi | Cstoui), Some k => if isint k then Some (Ks, None) else None
  | Ocvt (Cdtosi | Cdtoui), Some k => if isint k then Some (Kd, None) else None
  | Ocvt (Cswtof | Cuwtof), Some k => if isint k then None else Some (Kw, None)
  | Ocvt (Csltof | Cultof), Some k => if isint k then None else Some (Kl, None)
  | Ocast, Some k => Some (match k with Kw => Ks | Kl => Kd | Ks => Kw | Kd => Kl end, None)
  | Ocopy, Some k => Some (k, None)
  | Ovastart, None => Some (Kl, None)
  | Ovaarg, Some k => Some (Kl, None)
  | _, _ => None
  end.

Definition inst_class_ok (defs : PM.t site) (i : inst) : bool :=
  match i with
  | Iop d o a0 a1 =>
      match op_sig o (option_map snd d) with
      | None => false
      | Some (k0, ok1) => ok_ref defs k0 a0 &&
                          match ok1, a1 with
                          | Some k1, Some r => ok_ref defs k1 r
                          | None, None => true
                          | _, _ => false end
      end
  | Icall _ f args =>
      ok_ref defs Kl f &&
      forallb (fun a => match a with Aval t r => ok_ref defs (rty_cls t) r | Avar => true end) args &&
      (length (filter (fun a => match a with Avar => true | _ => false end) args) <=? 1)%nat
  end.

Fixpoint insts_class_viol (defs : PM.t site) (fn bl : ident) (is : list inst) (i : Z) : list violation :=
  match is with
  | [] => []
  | x :: r => (if inst_class_ok defs x then [] else [mkv 4 VClass fn bl i 1%positive]) ++ insts_class_viol defs fn bl r (i + 1)
  end.

Definition block_class_viol (defs : PM.t site) (f : func) (b : block) : list violation :=
  let fn := f_name f in let bl := b_label b in let n := Z.of_nat (length (b_insts b)) in
  flat_map (fun p => if forallb (fun a => ok_ref defs (p_cls p) (snd a)) (p_args p) then [] else [mkv 4 VClass fn bl (-1) (p_res p)]) (b_phis b)
  ++ insts_class_viol defs fn bl (b_insts b) 0
  ++ match b_jump b with
     | Some (Jnz r _ _) => if ok_ref defs Kw r then [] else [mkv 4 VClass fn bl n 1%positive]
     | Some (Ret (Some r)) =>
         match f_ret f with
         | None => [mkv 8 VRetClass fn bl n 1%positive]
         | Some t => if ok_ref defs (rty_cls t) r then [] else [mkv 8 VRetClass fn bl n 1%positive] end
     | _ => [] end.

(* ------------------------------------------------------------------ (3) dominance, (5) phi predecessor sets *)
Definition inst_uses (i : inst) : list ref :=
  match i with
  | Iop _ _ a0 a1 => a0 :: match a1 with Some r => [r] | None => [] end
  | Icall _ f args => f :: flat_map (fun a => match a with Aval _ r => [r] | Avar => [] end) args
  end.

Definition jump_uses (j : option jump) : list ref :=
  match j with Some (Jnz r _ _) => [r] | Some (Ret (Some r)) => [r] | _ => [] end.

(* use of r at position i of block nb whose dominator set is d; reachable = block reachable from the entry *)
Definition use_viol (defs : PM.t site) (fn : ident) (nb : nblock) (reachable : bool) (d : Z) (i : Z) (r : ref) : list violation :=
  match r with
  | RTmp t =>
      match PM.find t defs with
      | None => [mkv 3 VUndefTemp fn (b_label (nb_blk nb)) i t]
      | Some s =>
          if negb reachable || (s_blk s =? 0) then []
          else if s_blk s =? Zpos (nb_idx nb) then (if s_pos s <? i then [] else [mkv 3 VNotDom fn (b_label (nb_blk nb)) i t])
          else if Z.land d (s_mask s) =? 0 then [mkv 3 VNotDom fn (b_label (nb_blk nb)) i t] else []
      end
  | _ => []
  end.

Fixpoint insts_use_viol (defs : PM.t site) (fn : ident) (nb : nblock) (reachable : bool) (d : Z) (is : list inst) (i : Z) : list violation :=
  match is with
  | [] => []
  | x :: r => flat_map (use_viol defs fn nb reachable d i) (inst_uses x) ++ insts_use_viol defs fn nb reachable d r (i + 1)
  end.

Definition phi_viol (defs : PM.t site) (fn : ident) (lm : PM.t nblock) (dom : PM.t Z) (full reach : Z)
           (nb : nblock) (predmask : Z) (p : phi) : list violation :=
  let bl := b_label (nb_blk nb) in
  (* every argument names an existing predecessor, each predecessor exactly once *)
  let r := fold_left (fun acc (a : ident * ref) =>
             match PM.find (fst a) lm with
             | None => (fst acc, mkv 5 VNoLabel fn bl (-1) (fst a) :: snd acc)
             | Some pb =>
                 let v1 := if (Z.land predmask (nb_mask pb) =? 0) || negb (Z.land (fst acc) (nb_mask pb) =? 0)
                           then [mkv 5 VPhiPreds fn bl (-1) (fst a)] else [] in
                 let v2 := match snd a with
                           | RTmp t =>
                               match PM.find t defs with
                               | None => [mkv 3 VUndefTemp fn bl (-1) t]
                               | Some s =>
                                   if (Z.land reach (nb_mask pb) =? 0) || (Z.land reach (nb_mask nb) =? 0) || (s_blk s =? 0) then []
                                   else if Z.land (zfind dom (nb_idx pb) full) (s_mask s) =? 0 then [mkv 3 VNotDom fn bl (-1) t] else []
                               end
                           | _ => [] end in
                 (Z.lor (fst acc) (nb_mask pb), v1 ++ v2 ++ snd acc)
             end) (p_args p) (0, []) in
  (if Z.land predmask (fst r) =? predmask then [] else [mkv 5 VPhiSet fn bl (-1) (p_res p)]) ++ snd r.

Definition pred_mask (preds : PM.t (list nblock)) (i : positive) : Z :=
  fold_left (fun a p => Z.lor a (nb_mask p)) (match PM.find i preds with Some l => l | None => [] end) 0.

Definition ssa_viol (f : func) (nbs : list nblock) (defs : PM.t site) : list violation :=
  let fn := f_name f in
  let lm := labmap nbs in
  let sc := succs_of lm nbs in
  let sm := succ_masks sc in
  let preds := pred_lists sc in
  let n := length nbs in
  let full := match nbs with [] => 0 | _ => 2 ^ (Z.of_nat n + 1) - 1 end in
  let reach := reach_iter (S n) nbs sm 1 in
  let di := dom_iter (S (S n)) nbs preds full (PM.empty Z) in
  let dom := fst di in
  (if snd di then [] else [mkv 3 VDomFuel fn 1%positive 0 1%positive]) ++
  flat_map (fun nb =>
    let b := nb_blk nb in
    let reachable := negb (Z.land reach (nb_mask nb) =? 0) in
    let d := zfind dom (nb_idx nb) full in
    flat_map (phi_viol defs fn lm dom full reach nb (pred_mask preds (nb_idx nb))) (b_phis b)
    ++ insts_use_viol defs fn nb reachable d (b_insts b) 0
    ++ flat_map (use_viol defs fn nb reachable d (Z.of_nat (length (b_insts b)))) (jump_uses (b_jump b))) nbs.

(* the first block is entered from the caller: its phis would never be evaluated (QBE's IL reference forbids
   jumps to the first block, so it has no use for phis either) *)
Definition entry_phi_viol (f : func) : list violation :=
  match f_blocks f with
  | b :: _ => map (fun p => mkv 3 VEntryPhi (f_name f) (b_label b) (-1) (p_res p)) (b_phis b)
  | [] => [] end.

(* ------------------------------------------------------------------ per function *)
Definition func_viol (f : func) : list violation :=
  let nbs := number (f_blocks f) 1%positive 1 in
  let dv := func_defs f nbs in
  labels_viol f ++ term_viol f ++ dup_labels (f_name f) (f_blocks f) (PM.empty unit)
  ++ rev (snd dv)
  ++ flat_map (block_class_viol (fst dv) f) (f_blocks f)
  ++ ssa_viol f nbs (fst dv)
  ++ entry_phi_viol f.

(* ------------------------------------------------------------------ (7) types before use *)
Definition rty_type_viol (seen : PM.t unit) (fn : ident) (t : rty) : list violation :=
  match t with
  | Tagg u => match PM.find u seen with Some _ => [] | None => [mkv 7 VNoType fn 1%positive 0 u] end
  | _ => [] end.

Definition inst_type_viol (seen : PM.t unit) (fn : ident) (i : inst) : list violation :=
  match i with
  | Icall d _ args =>
      match d with Some (_, t) => rty_type_viol seen fn t | None => [] end
      ++ flat_map (fun a => match a with Aval t _ => rty_type_viol seen fn t | Avar => [] end) args
  | _ => [] end.

Definition func_type_viol (seen : PM.t unit) (f : func) : list violation :=
  match f_ret f with Some t => rty_type_viol seen (f_name f) t | None => [] end
  ++ flat_map (fun p : rty * ident => rty_type_viol seen (f_name f) (fst p)) (f_params f)
  ++ flat_map (fun b => flat_map (inst_type_viol seen (f_name f)) (b_insts b)) (f_blocks f).

Definition fields_type_viol (seen : PM.t unit) (tn : ident) (fs : list (fty * Z)) : list violation :=
  flat_map (fun p : fty * Z => match fst p with
                     | Fagg u => match PM.find u seen with Some _ => [] | None => [mkv 7 VNoType tn 1%positive 0 u] end
                     | _ => [] end) fs.

Definition typdef_viol (seen : PM.t unit) (t : typdef) : list violation :=
  match PM.find (td_name t) seen with Some _ => [mkv 7 VDupType (td_name t) 1%positive 0 (td_name t)] | None => [] end
  ++ match td_body t with
     | TStruct fs => fields_type_viol seen (td_name t) fs
     | TUnion alts => flat_map (fields_type_viol seen (td_name t)) alts
     | TOpaque _ => [] end.

Fixpoint types_viol (m : module) (seen : PM.t unit) : list violation :=
  match m with
  | [] => []
  | Dtype t :: r => typdef_viol seen t ++ types_viol r (PM.add (td_name t) tt seen)
  | Dfunc f :: r => func_type_viol seen f ++ types_viol r seen
  | Ddata _ :: r => types_viol r seen
  end.

(* ------------------------------------------------------------------ (2) unique global definitions *)
Fixpoint syms_viol (m : module) (seen : PM.t unit) : list violation :=
  match m with
  | [] => []
  | Dtype _ :: r => syms_viol r seen
  | Ddata d :: r => match PM.find (d_name d) seen with
                    | Some _ => mkv 2 VDupSym (d_name d) 1%positive 0 (d_name d) :: syms_viol r seen
                    | None => syms_viol r (PM.add (d_name d) tt seen) end
  | Dfunc f :: r => match PM.find (f_name f) seen with
                    | Some _ => mkv 2 VDupSym (f_name f) 1%positive 0 (f_name f) :: syms_viol r seen
                    | None => syms_viol r (PM.add (f_name f) tt seen) end
  end.

(* ------------------------------------------------------------------ (8) calls against callees of the module *)
Fixpoint split_args (args : list arg) : list rty * bool * list rty :=      (* fixed, marker present, variadic *)
  match args with
  | [] => ([], false, [])
  | Avar :: r => let '(a, _, c) := split_args r in ([], true, a ++ c)
  | Aval t _ :: r => let '(a, m, c) := split_args r in (t :: a, m, c)
  end.

Fixpoint rtys_eqb (a b : list rty) : bool :=
  match a, b with
  | [], [] => true
  | x :: a', y :: b' => rty_eqb x y && rtys_eqb a' b'
  | _, _ => false end.

Definition call_sig_ok (callee : func) (d : option (ident * rty)) (args : list arg) : bool :=
  let '(fixed, marker, _) := split_args args in
  rtys_eqb fixed (map fst (f_params callee)) &&
  (if marker then f_vararg callee else true) &&
  match d with
  | None => true
  | Some (_, t) => match f_ret callee with Some t' => rty_eqb t t' | None => false end
  end.

Fixpoint insts_sig_viol (funs : PM.t func) (fn bl : ident) (is : list inst) (i : Z) : list violation :=
  match is with
  | [] => []
  | Icall d (RGlo g _) args :: r =>
      match PM.find g funs with
      | Some callee => if call_sig_ok callee d args then [] else [mkv 8 VCallSig fn bl i g]
      | None => [] end ++ insts_sig_viol funs fn bl r (i + 1)
  | _ :: r => insts_sig_viol funs fn bl r (i + 1)
  end.

Definition sig_viol (funs : PM.t func) (f : func) : list violation :=
  flat_map (fun b => insts_sig_viol funs (f_name f) (b_label b) (b_insts b) 0) (f_blocks f).

(* ------------------------------------------------------------------ the checker *)
Definition def_viol (funs : PM.t func) (d : def) : list violation :=
  match d with Dfunc f => func_viol f ++ sig_viol funs f | _ => [] end.

Definition wf_module_list (m : module) : list violation :=
  syms_viol m (PM.empty unit) ++ types_viol m (PM.empty unit)
  ++ flat_map (def_viol (mod_funs m (PM.empty func))) m.

Definition wf_module (m : module) : bool :=
  match wf_module_list m with [] => true | _ => false end.

(* (9) per data definition: (name, sum of item sizes, declared alignment or 0); the C-side size and
   alignment are supplied by the caller *)
Definition data_info (m : module) : list (ident * Z * Z) :=
  flat_map (fun d => match d with
                     | Ddata x => [(d_name x, data_size x, match d_align x with Some a => a | None => 0 end)]
                     | _ => [] end) m.

(* sizes and alignments of the aggregate types, by QBE's layout rule (for C08's comparison) *)
Definition type_info (m : module) : list (ident * Z * Z) :=
  let lay := type_layouts m (PM.empty (Z * Z)) in
  flat_map (fun d => match d with
                     | Dtype t => match PM.find (td_name t) lay with Some (s, a) => [(td_name t, s, a)] | None => [] end
                     | _ => [] end) m.
