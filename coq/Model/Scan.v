(* Executable model of cproc's scanner (scan.c) and of the parts of pp.c that sit between the scanner
   and the token stream: keyword() (bisection), nextinto(), directive() (null directive, `#line`, GNU line
   markers).  The model mirrors the C function for function; NO proofs in this file.

   Representation.
   - A byte is an N.  `chr : option N` is `s->chr`; `None` is EOF (-1).
   - `file` is the unread part of the FILE: getc = uncons, ungetc = cons (glibc keeps pushed-back bytes
     on a stack; the `..` case may push back twice in a row, which ISO C does not guarantee -- trusted).
   - `loc.line`, `loc.col` are size_t: every update is taken mod 2^64.
   - error() exits: modelled by the result `Error loc msg` (fatal() on a read error is not modelled: getc never fails).  Loops take fuel; `OutOfFuel` is a distinct result
     which the theorems exclude.  `#define/#undef/#pragma` belong to C12: result `Unsupported`. *)
From Coq Require Import List NArith ZArith Bool.
From Cproc Require Import Gen.Keywords.
Import ListNotations.
Open Scope N_scope.

Definition M64 : Z := 18446744073709551616%Z.
Definition inc64 (x : Z) : Z := ((x + 1) mod M64)%Z.

Record location := mkloc { lfile : list N; lline : Z; lcol : Z }.

Record scanner := mkscanner {
  chr : option N;
  usebuf : bool;
  sawspace : bool;
  file : list N;
  sloc : location;
  buf : list N
}.

Inductive msg :=
| EInvalidHexEscape | EInvalidEscape
| ENullInChar | ENullInString
| ENewlineInChar | EEOFInChar | ENewlineInString | EEOFInString | EEOFInComment
| EExpectedDirective      (* expected identifier newline, or number after '#' *)
| ENotImplemented         (* #if #ifdef #ifndef #elif #endif #include #error *)
| EExpectedNumberAfterLine
| EExpectedNewlineAfterDirective
| EInvalidDirective.

Inductive result (A : Type) :=
| Ok (a : A)
| Error (l : location) (m : msg)
| OutOfFuel
| Unsupported.
Arguments Ok {A}. Arguments Error {A}. Arguments OutOfFuel {A}. Arguments Unsupported {A}.

Definition bind {A B} (r : result A) (f : A -> result B) : result B :=
  match r with
  | Ok a => f a
  | Error l m => Error l m
  | OutOfFuel => OutOfFuel
  | Unsupported => Unsupported
  end.

(* ---- <ctype.h> in the "C" locale (cproc never calls setlocale); all false for EOF ---- *)
Definition isdigit (c : N) : bool := (48 <=? c) && (c <=? 57).
Definition isupper (c : N) : bool := (65 <=? c) && (c <=? 90).
Definition islower (c : N) : bool := (97 <=? c) && (c <=? 122).
Definition isalpha (c : N) : bool := isupper c || islower c.
Definition isalnum (c : N) : bool := isalpha c || isdigit c.
Definition isxdigit (c : N) : bool := isdigit c || ((65 <=? c) && (c <=? 70)) || ((97 <=? c) && (c <=? 102)).
Definition isodigit (c : N) : bool := (48 <=? c) && (c <=? 55).      (* (unsigned)c - '0' < 8 *)

Definition chr_is (s : scanner) (k : N) : bool :=
  match chr s with Some c => c =? k | None => false end.
Definition chr_test (p : N -> bool) (s : scanner) : bool :=
  match chr s with Some c => p c | None => false end.

(* ---- bufadd / nextchar ---- *)
Definition bufadd (b : list N) (c : option N) : list N :=
  b ++ [match c with Some x => x | None => 255 end].      (* b->str[b->len++] = c  (unsigned char) *)

(* the for(;;) loop of nextchar over the unread bytes: returns (chr, unread, line, col) *)
Fixpoint getloop (f : list N) (l c : Z) : option N * list N * Z * Z :=
  match f with
  | [] => (None, [], l, inc64 c)                        (* getc = EOF; ++col; chr != '\\' *)
  | x :: f' =>
    if x =? 10 then (Some x, f', inc64 l, 0%Z)          (* ++line, col = 0 *)
    else if x =? 92 then
      match f' with
      | y :: f'' =>
        if y =? 10 then getloop f'' (inc64 l) 0%Z        (* splice: ++line, col = 0, continue *)
        else (Some x, f', l, inc64 c)                    (* ungetc(c) *)
      | [] => (Some x, [], l, inc64 c)                   (* c = EOF: ungetc(EOF) does nothing *)
      end
    else (Some x, f', l, inc64 c)
  end.

Definition nextchar (s : scanner) : scanner :=
  let b := if usebuf s then bufadd (buf s) (chr s) else buf s in
  match getloop (file s) (lline (sloc s)) (lcol (sloc s)) with
  | (c, f, l, co) =>
    mkscanner c (usebuf s) (sawspace s) f (mkloc (lfile (sloc s)) l co) b
  end.

Definition set_usebuf (s : scanner) : scanner :=
  mkscanner (chr s) true (sawspace s) (file s) (sloc s) (buf s).
Definition set_sawspace (s : scanner) : scanner :=
  mkscanner (chr s) (usebuf s) true (file s) (sloc s) (buf s).

(* ---- op2 / op3 / op4 ---- *)
Definition op2 (s : scanner) (t1 t2 : kind) : kind * scanner :=
  let s := nextchar s in
  if negb (chr_is s 61) then (t1, s)
  else (t2, nextchar s).

Definition chr_same (s : scanner) (c : option N) : bool :=
  match chr s, c with
  | Some a, Some b => a =? b
  | None, None => true
  | _, _ => false
  end.

Definition op3 (s : scanner) (t1 t2 t3 : kind) : kind * scanner :=
  let c := chr s in
  let s := nextchar s in
  if chr_is s 61 then (t2, nextchar s)
  else if negb (chr_same s c) then (t1, s)
  else (t3, nextchar s).

Definition op4 (s : scanner) (t1 t2 t3 t4 : kind) : kind * scanner :=
  let c := chr s in
  let s := nextchar s in
  if chr_is s 61 then (t2, nextchar s)
  else if negb (chr_same s c) then (t1, s)
  else
    let s := nextchar s in
    if negb (chr_is s 61) then (t3, s)
    else (t4, nextchar s).

(* ---- ident ---- *)
Fixpoint ident_loop (fuel : nat) (s : scanner) : result scanner :=
  match fuel with
  | O => OutOfFuel
  | S n =>
    if chr_test isalnum s || chr_is s 95 then ident_loop n (nextchar s)
    else Ok s
  end.

Definition ident (fuel : nat) (s : scanner) : result (kind * scanner) :=
  bind (ident_loop fuel (set_usebuf s)) (fun s => Ok (TIDENT, s)).

(* ---- number ---- *)
Fixpoint number_loop (fuel : nat) (allowsign : bool) (s : scanner) : result scanner :=
  match fuel with
  | O => OutOfFuel
  | S n =>
    let s := nextchar s in
    if chr_is s 101 || chr_is s 69 || chr_is s 112 || chr_is s 80 then number_loop n true s
    else if chr_is s 43 || chr_is s 45 then
      if negb allowsign then Ok s else number_loop n false s
    else if chr_is s 95 || chr_is s 46 then number_loop n false s
    else if negb (chr_test isalnum s) then Ok s
    else number_loop n false s
  end.

Definition number (fuel : nat) (s : scanner) : result (kind * scanner) :=
  bind (number_loop fuel false (set_usebuf s)) (fun s => Ok (TNUMBER, s)).

(* ---- escape / charconst / stringlit ---- *)
Fixpoint xdigits_loop (fuel : nat) (s : scanner) : result scanner :=      (* do nextchar(s); while (isxdigit(s->chr)); *)
  match fuel with
  | O => OutOfFuel
  | S n =>
    let s := nextchar s in
    if chr_test isxdigit s then xdigits_loop n s else Ok s
  end.

(* s->chr && strchr(<the eleven simple-escape characters>, s->chr) *)
Definition simple_escape (c : N) : bool :=
  (c =? 39) || (c =? 34) || (c =? 63) || (c =? 92) || (c =? 97) || (c =? 98) || (c =? 102) ||
  (c =? 110) || (c =? 114) || (c =? 116) || (c =? 118).

Definition escape (fuel : nat) (s : scanner) : result scanner :=
  let s := nextchar s in
  if chr_is s 120 then
    let s := nextchar s in
    if negb (chr_test isxdigit s) then Error (sloc s) EInvalidHexEscape
    else xdigits_loop fuel s
  else if chr_test isodigit s then
    let s := nextchar s in
    if chr_test isodigit s then
      let s := nextchar s in
      if chr_test isodigit s then Ok (nextchar s) else Ok s
    else Ok s
  else if chr_test simple_escape s then Ok (nextchar s)
  else Error (sloc s) EInvalidEscape.

Fixpoint quoted_loop (fuel : nat) (q : N) (k : kind) (enul enl eeof : msg) (s : scanner) : result (kind * scanner) :=
  match fuel with
  | O => OutOfFuel
  | S n =>
    if chr_is s 92 then bind (escape n s) (quoted_loop n q k enul enl eeof)
    else if chr_is s q then Ok (k, nextchar s)
    else if chr_is s 0 then Error (sloc s) enul
    else if chr_is s 10 then Error (sloc s) enl
    else match chr s with
         | None => Error (sloc s) eeof
         | Some _ => quoted_loop n q k enul enl eeof (nextchar s)
         end
  end.

Definition charconst (fuel : nat) (s : scanner) : result (kind * scanner) :=
  quoted_loop fuel 39 TCHARCONST ENullInChar ENewlineInChar EEOFInChar (nextchar (set_usebuf s)).

Definition stringlit (fuel : nat) (s : scanner) : result (kind * scanner) :=
  quoted_loop fuel 34 TSTRINGLIT ENullInString ENewlineInString EEOFInString (nextchar (set_usebuf s)).

(* ---- comment ---- *)
Fixpoint linecomment_loop (fuel : nat) (s : scanner) : result scanner :=   (* do nextchar(s); while (chr != '\n' && chr != EOF); *)
  match fuel with
  | O => OutOfFuel
  | S n =>
    let s := nextchar s in
    if negb (chr_is s 10) && (match chr s with None => false | Some _ => true end)
    then linecomment_loop n s else Ok s
  end.

Fixpoint blockcomment_loop (fuel : nat) (s : scanner) : result scanner :=  (* do {...} while (last != '*' || chr != '/'); *)
  match fuel with
  | O => OutOfFuel
  | S n =>
    let last := chr s in
    let s := nextchar s in
    match chr s with
    | None => Error (sloc s) EEOFInComment
    | Some c =>
      if negb (match last with Some l => l =? 42 | None => false end) || negb (c =? 47)
      then blockcomment_loop n s else Ok s
    end
  end.

Definition comment (fuel : nat) (s : scanner) : result (bool * scanner) :=
  if chr_is s 47 then
    bind (linecomment_loop fuel s) (fun s => Ok (true, set_sawspace s))
  else if chr_is s 42 then
    bind (blockcomment_loop fuel (nextchar s)) (fun s => Ok (true, set_sawspace (nextchar s)))
  else Ok (false, s).

(* ---- scankind ---- *)
Definition one (k : kind) (s : scanner) : result (kind * scanner) := Ok (k, nextchar s).
Definition ret (p : kind * scanner) : result (kind * scanner) := Ok p.

Definition restore_dot (s : scanner) (oldloc : location) : scanner :=
  (* ungetc(s->chr, s->file); s->loc = oldloc; s->chr = '.'; *)
  mkscanner (Some 46) (usebuf s) (sawspace s)
            (match chr s with Some c => c :: file s | None => file s end)
            oldloc (buf s).

Fixpoint scankind (fuel : nat) (s : scanner) : result (kind * location * scanner) :=
  match fuel with
  | O => OutOfFuel
  | S n =>
    let loc := sloc s in
    let fin (r : result (kind * scanner)) : result (kind * location * scanner) :=
        bind r (fun p => Ok (fst p, loc, snd p)) in
    match chr s with
    | None => Ok (TEOF, loc, s)
    | Some c =>
      if (c =? 32) || (c =? 9) || (c =? 12) || (c =? 11) then scankind n (nextchar (set_sawspace s))
      else if c =? 33 then fin (ret (op2 s TLNOT TNEQ))
      else if c =? 34 then fin (stringlit n s)
      else if c =? 35 then
        let s := nextchar s in
        if negb (chr_is s 35) then fin (Ok (THASH, s)) else fin (one THASHHASH s)
      else if c =? 37 then fin (ret (op2 s TMOD TMODASSIGN))
      else if c =? 38 then fin (ret (op3 s TBAND TBANDASSIGN TLAND))
      else if c =? 39 then fin (charconst n s)
      else if c =? 42 then fin (ret (op2 s TMUL TMULASSIGN))
      else if c =? 43 then fin (ret (op3 s TADD TADDASSIGN TINC))
      else if c =? 45 then
        let '(tok, s) := op3 s TSUB TSUBASSIGN TDEC in
        match tok with
        | TSUB => if negb (chr_is s 62) then fin (Ok (tok, s)) else fin (one TARROW s)
        | _ => fin (Ok (tok, s))
        end
      else if c =? 47 then
        let '(tok, s) := op2 s TDIV TDIVASSIGN in
        match tok with
        | TDIV =>
          match comment n s with
          | Ok (true, s) => scankind n s
          | Ok (false, s) => fin (Ok (tok, s))
          | Error l m => Error l m
          | OutOfFuel => OutOfFuel
          | Unsupported => Unsupported
          end
        | _ => fin (Ok (tok, s))
        end
      else if c =? 60 then fin (ret (op4 s TLESS TLEQ TSHL TSHLASSIGN))
      else if c =? 61 then fin (ret (op2 s TASSIGN TEQL))
      else if c =? 62 then fin (ret (op4 s TGREATER TGEQ TSHR TSHRASSIGN))
      else if c =? 94 then fin (ret (op2 s TXOR TXORASSIGN))
      else if c =? 124 then fin (ret (op3 s TBOR TBORASSIGN TLOR))
      else if c =? 10 then fin (one TNEWLINE s)
      else if c =? 91 then fin (one TLBRACK s)
      else if c =? 93 then fin (one TRBRACK s)
      else if c =? 40 then fin (one TLPAREN s)
      else if c =? 41 then fin (one TRPAREN s)
      else if c =? 123 then fin (one TLBRACE s)
      else if c =? 125 then fin (one TRBRACE s)
      else if c =? 46 then
        let s := nextchar s in
        if chr_test isdigit s then
          fin (number n (mkscanner (chr s) (usebuf s) (sawspace s) (file s) (sloc s) (bufadd (buf s) (Some 46))))
        else if negb (chr_is s 46) then fin (Ok (TPERIOD, s))
        else
          let oldloc := sloc s in
          let s := nextchar s in
          if negb (chr_is s 46) then fin (Ok (TPERIOD, restore_dot s oldloc))
          else fin (one TELLIPSIS s)
      else if c =? 126 then fin (one TBNOT s)
      else if c =? 63 then fin (one TQUESTION s)
      else if c =? 58 then
        let s := nextchar s in
        if negb (chr_is s 58) then fin (Ok (TCOLON, s)) else fin (one TCOLONCOLON s)
      else if c =? 59 then fin (one TSEMICOLON s)
      else if c =? 44 then fin (one TCOMMA s)
      else if (c =? 76) || (c =? 85) || (c =? 117) then
        let s := nextchar (set_usebuf s) in
        let s := if (match buf s with b0 :: _ => b0 =? 117 | [] => false end) && chr_is s 56
                 then nextchar s else s in
        if chr_is s 39 then fin (charconst n s)
        else if chr_is s 34 then fin (stringlit n s)
        else fin (ident n s)
      else if isdigit c then fin (number n s)
      else if isalpha c || (c =? 95) then fin (ident n s)
      else fin (one TOTHER (set_usebuf s))
    end
  end.

(* ---- scan ---- *)
Record token := mktoken {
  tkind : kind;
  tloc : location;
  tlit : option (list N);
  tspace : bool
}.

Definition scan (fuel : nat) (s : scanner) : result (token * scanner) :=
  let s := mkscanner (chr s) (usebuf s) false (file s) (sloc s) (buf s) in
  bind (scankind fuel s) (fun r =>
    match r with
    | (k, l, s) =>
      if usebuf s
      then Ok (mktoken k l (Some (buf s)) (sawspace s),
               mkscanner (chr s) false (sawspace s) (file s) (sloc s) [])     (* bufget; usebuf = false *)
      else Ok (mktoken k l None (sawspace s), s)
    end).

(* scanfrom(name, file) with an open file: loc = (name, 1, 0); nextchar *)
Definition scanfrom (name : list N) (text : list N) : scanner :=
  nextchar (mkscanner None false false text (mkloc name 1 0) []).

(* scansetloc(loc, line): loc.col is ignored by the C code *)
Definition scansetloc (s : scanner) (newfile : list N) (newline : Z) (line : Z) : scanner :=
  mkscanner (chr s) (usebuf s) (sawspace s) (file s)
            (mkloc newfile ((lline (sloc s) + ((newline - line) mod M64)) mod M64)%Z (lcol (sloc s)))
            (buf s).

(* ================================================================ pp.c *)

(* strcmp on NUL-free byte strings (unsigned char comparison) *)
Fixpoint strcmp (a b : list N) : comparison :=
  match a, b with
  | [], [] => Eq
  | [], _ :: _ => Lt
  | _ :: _, [] => Gt
  | x :: a', y :: b' =>
    match x ?= y with
    | Eq => strcmp a' b'
    | c => c
    end
  end.

(* keyword(): bisection over the table; None = fuel exhausted or index out of range *)
Fixpoint bisect (fuel : nat) (tbl : list (list N * kind)) (s : list N) (low high : nat) : option (option kind) :=
  match fuel with
  | O => None
  | S n =>
    if Nat.ltb low high then
      let mid := Nat.div (low + high) 2 in
      match nth_error tbl mid with
      | None => None
      | Some (name, value) =>
        match strcmp s name with
        | Eq => Some (Some value)
        | Lt => bisect n tbl s low mid
        | Gt => bisect n tbl s (S mid) high
        end
      end
    else Some None
  end.

Definition keyword_lookup (tbl : list (list N * kind)) (s : list N) : option (option kind) :=
  bisect (S (length tbl)) tbl s 0 (length tbl).

Definition keyword (t : token) : token :=
  match tkind t, tlit t with
  | TIDENT, Some l =>
    match keyword_lookup keywords l with
    | Some (Some k) => mktoken k (tloc t) None (tspace t)
    | _ => t
    end
  | _, _ => t
  end.

(* strtoull(s, NULL, 10) on a pp-number spelling (no leading white space or sign possible):
   longest decimal digit prefix, saturating at ULLONG_MAX; 0 when there is no digit *)
Fixpoint strtoull10_aux (s : list N) (acc : Z) : Z :=
  match s with
  | c :: r =>
    if isdigit c then
      let v := (acc * 10 + Z.of_N (c - 48))%Z in
      strtoull10_aux r (if (v <? M64)%Z then v else (M64 - 1)%Z)
    else acc
  | [] => acc
  end.
Definition strtoull10 (s : list N) : Z := strtoull10_aux s 0%Z.

(* newloc.file = strchr(tok.lit, DQUOTE) + 1; *strchr(newloc.file, DQUOTE) = 0;  (escape sequences not decoded: source XXX) *)
Fixpoint upto_quote (s : list N) : list N :=
  match s with
  | c :: r => if c =? 34 then [] else c :: upto_quote r
  | [] => []
  end.
Fixpoint after_quote (s : list N) : list N :=
  match s with
  | c :: r => if c =? 34 then r else after_quote r
  | [] => []
  end.
Definition line_file (lit : list N) : list N := upto_quote (after_quote lit).

Definition lit_is (t : token) (name : list N) : bool :=
  match tlit t with
  | Some l => match strcmp l name with Eq => true | _ => false end
  | None => false
  end.

Fixpoint skip_numbers (fuel scanfuel : nat) (t : token) (s : scanner) : result (token * scanner) :=   (* while (tok.kind == TNUMBER) scan(&tok); *)
  match fuel with
  | O => OutOfFuel
  | S n =>
    match tkind t with
    | TNUMBER => bind (scan scanfuel s) (fun p => skip_numbers n scanfuel (fst p) (snd p))
    | _ => Ok (t, s)
    end
  end.

(* the code from the label `line:` on; tnum is the TNUMBER token *)
Definition line_part (fuel : nat) (tnum : token) (s : scanner) : result scanner :=
  let newline := strtoull10 (match tlit tnum with Some l => l | None => [] end) in
  bind (scan fuel s) (fun p =>
    let t := fst p in let s := snd p in
    let newfile := lfile (tloc t) in
    bind (match tkind t with
          | TSTRINGLIT =>
            bind (scan fuel s) (fun p' =>
              Ok (line_file (match tlit t with Some l => l | None => [] end), fst p', snd p'))
          | _ => Ok (newfile, t, s)
          end) (fun q =>
      match q with
      | (newfile, t, s) =>
        bind (skip_numbers fuel fuel t s) (fun p'' =>
          let t := fst p'' in
          let s := scansetloc (snd p'') newfile newline (lline (tloc t)) in
          match tkind t with
          | TNEWLINE => Ok s
          | _ => Error (tloc t) EExpectedNewlineAfterDirective
          end)
      end)).

Definition s_if := [105; 102].
Definition s_ifdef := [105; 102; 100; 101; 102].
Definition s_ifndef := [105; 102; 110; 100; 101; 102].
Definition s_elif := [101; 108; 105; 102].
Definition s_endif := [101; 110; 100; 105; 102].
Definition s_include := [105; 110; 99; 108; 117; 100; 101].
Definition s_define := [100; 101; 102; 105; 110; 101].
Definition s_undef := [117; 110; 100; 101; 102].
Definition s_line := [108; 105; 110; 101].
Definition s_error := [101; 114; 114; 111; 114].
Definition s_pragma := [112; 114; 97; 103; 109; 97].

(* directive(): called when '#' was scanned at the beginning of a line *)
Definition directive (fuel : nat) (s : scanner) : result scanner :=
  bind (scan fuel s) (fun p =>
    let t := fst p in let s := snd p in
    match tkind t with
    | TNEWLINE => Ok s                              (* empty directive *)
    | TNUMBER => line_part fuel t s                 (* gcc line markers *)
    | TIDENT =>
      if lit_is t s_if || lit_is t s_ifdef || lit_is t s_ifndef || lit_is t s_elif || lit_is t s_endif
         || lit_is t s_include then Error (tloc t) ENotImplemented
      else if lit_is t s_define || lit_is t s_undef then Unsupported
      else if lit_is t s_line then
        bind (scan fuel s) (fun p' =>
          match tkind (fst p') with
          | TNUMBER => line_part fuel (fst p') (snd p')
          | _ => Error (tloc (fst p')) EExpectedNumberAfterLine
          end)
      else if lit_is t s_error then Error (tloc t) ENotImplemented
      else if lit_is t s_pragma then Unsupported
      else Error (tloc t) EInvalidDirective
    | _ => Error (tloc t) EExpectedDirective
    end).

(* nextinto(): `newline` is the function's static flag *)
Fixpoint nextinto (fuel scanfuel : nat) (newline : bool) (s : scanner) : result (token * bool * scanner) :=
  match fuel with
  | O => OutOfFuel
  | S n =>
    bind (scan scanfuel s) (fun p =>
      let t := fst p in let s := snd p in
      match newline, tkind t with
      | true, THASH => bind (directive scanfuel s) (fun s => nextinto n scanfuel newline s)
      | _, TNEWLINE => Ok (t, true, s)
      | _, _ => Ok (t, false, s)
      end)
  end.

(* next(): no macro is ever defined in the modelled fragment, so every token passes expand() unchanged
   (apart from `hide`); new-line tokens are skipped unless PPNEWLINE is set; then keyword(). *)
Fixpoint next (fuel : nat) (scanfuel : nat) (ppnewline : bool) (newline : bool) (s : scanner)
  : result (token * bool * scanner) :=
  match fuel with
  | O => OutOfFuel
  | S n =>
    bind (nextinto scanfuel scanfuel newline s) (fun r =>
      match r with
      | (t, nl, s) =>
        match tkind t, ppnewline with
        | TNEWLINE, false => next n scanfuel ppnewline nl s
        | _, _ => Ok (keyword t, nl, s)
        end
      end)
  end.

Inductive ending := EndEOF | EndError (l : location) (m : msg) | EndFuel | EndUnsupported.

(* main() under -E with the hook: while (tok.kind != TEOF) { print tok; next(); }  with PPNEWLINE set *)
Fixpoint dump (fuel : nat) (scanfuel : nat) (t : token) (newline : bool) (s : scanner) : list token * ending :=
  match fuel with
  | O => ([], EndFuel)
  | S n =>
    match tkind t with
    | TEOF => ([], EndEOF)
    | _ =>
      match next scanfuel scanfuel true newline s with
      | Ok (t', nl, s) => let r := dump n scanfuel t' nl s in (t :: fst r, snd r)
      | Error l m => ([t], EndError l m)
      | OutOfFuel => ([t], EndFuel)
      | Unsupported => ([t], EndUnsupported)
      end
    end
  end.

(* main(): scanfrom/scanopen; ppinit() calls next() once BEFORE PPNEWLINE is set (leading new-lines are dropped) *)
Definition run (name text : list N) : list token * ending :=
  let f := S (S (length text)) in
  match next f f false true (scanfrom name text) with
  | Ok (t, nl, s) => dump f f t nl s
  | Error l m => ([], EndError l m)
  | OutOfFuel => ([], EndFuel)
  | Unsupported => ([], EndUnsupported)
  end.

(* the raw scanner stream (no directives, no keywords): what `scan()` alone delivers until TEOF *)
Fixpoint scantokens (fuel : nat) (scanfuel : nat) (s : scanner) : list token * ending :=
  match fuel with
  | O => ([], EndFuel)
  | S n =>
    match scan scanfuel s with
    | Ok (t, s) =>
      match tkind t with
      | TEOF => ([], EndEOF)
      | _ => let r := scantokens n scanfuel s in (t :: fst r, snd r)
      end
    | Error l m => ([], EndError l m)
    | OutOfFuel => ([], EndFuel)
    | Unsupported => ([], EndUnsupported)
    end
  end.

Definition run_scan (name text : list N) : list token * ending :=
  let f := S (S (length text)) in
  scantokens f f (scanfrom name text).
