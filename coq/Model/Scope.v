(* Model of /repo/scope.c: a chain of scopes, each with two lazily created tables
   (ordinary identifiers and tags).  `len == 0` doubles as "not initialised" in the C;
   here that is `None`. *)
From Coq Require Import List NArith Arith Bool.
From Cproc Require Import Model.Map.
Import ListNotations.

Section ScopeModel.
  Variable key : Type.
  Variable key_eqb : key -> key -> bool.
  Variable h : key -> N.

  Record frame := mkframe { decls : option (map key); tags : option (map key) }.
  Definition scope := list frame.      (* innermost first; the last element is the file scope *)

  Definition mkscope (s : scope) : scope := mkframe None None :: s.
  Definition delscope (s : scope) : scope := tl s.

  Definition tblput (t : option (map key)) (k : key) (v : val) : option (option (map key)) :=
    let m := match t with Some m => m | None => mapinit key 32 end in
    match mapput key key_eqb h m k with
    | Some (m1, i) => Some (Some (setval key m1 i v))
    | None => None
    end.

  Definition tblget (t : option (map key)) (k : key) : option val :=
    match t with
    | Some m => mapget key key_eqb h m k
    | None => Some 0%N
    end.

  Definition scopeputdecl (s : scope) (k : key) (v : val) : option scope :=
    match s with
    | [] => None
    | f :: r => match tblput (decls f) k v with
                | Some t => Some (mkframe t (tags f) :: r)
                | None => None
                end
    end.

  Definition scopeputtag (s : scope) (k : key) (v : val) : option scope :=
    match s with
    | [] => None
    | f :: r => match tblput (tags f) k v with
                | Some t => Some (mkframe (decls f) t :: r)
                | None => None
                end
    end.

  (* do { d = ...; s = s->parent; } while (!d && s && recurse); *)
  Fixpoint scopeget (sel : frame -> option (map key)) (s : scope) (k : key) (recurse : bool) : option val :=
    match s with
    | [] => Some 0%N
    | f :: r =>
      match tblget (sel f) k with
      | None => None
      | Some v => if N.eqb v 0 then (if recurse then scopeget sel r k recurse else Some 0%N) else Some v
      end
    end.

  Definition scopegetdecl := scopeget decls.
  Definition scopegettag := scopeget tags.

  Inductive sop :=
  | SPush | SPop
  | SPutDecl (k : key) (v : val)
  | SPutTag (k : key) (v : val).

  Definition sstep (s : option scope) (o : sop) : option scope :=
    match s with
    | None => None
    | Some s =>
      match o with
      | SPush => Some (mkscope s)
      | SPop => match s with _ :: (_ :: _) => Some (delscope s) | _ => None end  (* the file scope is never deleted *)
      | SPutDecl k v => scopeputdecl s k v
      | SPutTag k v => scopeputtag s k v
      end
    end.

  Definition srun (ops : list sop) : option scope := fold_left sstep ops (Some [mkframe None None]).
End ScopeModel.

Arguments mkframe {key}.
Arguments decls {key}.
Arguments tags {key}.
Arguments SPush {key}.
Arguments SPop {key}.
Arguments SPutDecl {key}.
Arguments SPutTag {key}.
