(* Model of /repo/tree.c: the AVL tree that indexes the case constants of a switch.
   No proofs here (Proofs/TreeProofs.v); the definitions are executable and extracted.

   C                                              model
   ---------------------------------------------  ---------------------------------------------
   struct treenode {key, child[2], height, new}   Node key h l r        (l = child[0], r = child[1])
   NULL                                           Leaf
   height(n)          (stored height, 0 for NULL) height
   rot(p, x, dir)     (dir = deeper side)         rot dir x    = Some (new subtree, z->height - hx)
   balance(p)                                     balance t    = Some (new subtree, returned int)
   treeinsert: path array a[MAXH], link leaf,     insert k t   = Some (tree, go, isnew)
     while (i && balance(a[--i]));                  go = "the balance() of this level returned
                                                    non-zero" = keep rebalancing the ancestors
   n->new                                         isnew
   a[i++] ...                                     path_len k t = number of a[] slots written
   dereferencing a NULL child in rot/balance      None  (undefined behaviour; theorems exclude it)

   Heights are C ints.  They are modelled as unbounded Z: TreeProofs.height_bound shows that
   every stored height of a tree with fewer than 2^64 nodes is at most 91, so int arithmetic
   never wraps.  The only unsigned computation, `h0 - h1 + 1u < 3u`, is modelled mod 2^32. *)
From Coq Require Import ZArith NArith List Bool.
Import ListNotations.
Open Scope Z_scope.

Inductive tree := Leaf | Node (key : N) (h : Z) (l r : tree).

(* static inline int height(struct treenode *n) { return n ? n->height : 0; } *)
Definition height (t : tree) : Z := match t with Leaf => 0 | Node _ h _ _ => h end.

(* a node whose child[dir] is `far` and whose child[!dir] is `near` *)
Definition mkd (dir : bool) (k : N) (h : Z) (near far : tree) : tree :=
  if dir then Node k h near far else Node k h far near.

(* rot(): x is unbalanced, dir is its deeper side.
     y = x->child[dir]; z = y->child[!dir]; hx = x->height; hz = height(z);
     if (hz > height(y->child[dir]))  double rotation, z becomes the root, heights hz, hz, hz+1
     else                             single rotation, y becomes the root, heights hz+1, hz+2
     return (new root)->height - hx                                                        *)
Definition rot (dir : bool) (x : tree) : option (tree * Z) :=
  match x with
  | Leaf => None
  | Node kx hx xl xr =>
    let '(A, y) := if dir then (xl, xr) else (xr, xl) in
    match y with
    | Leaf => None
    | Node ky _ yl yr =>
      let '(z, D) := if dir then (yl, yr) else (yr, yl) in
      let hz := height z in
      if height D <? hz then
        match z with
        | Leaf => None
        | Node kz _ zl zr =>
          (* B = z->child[!dir] goes under x, C = z->child[dir] goes under y *)
          let '(B, C) := if dir then (zl, zr) else (zr, zl) in
          Some (mkd dir kz (hz + 1) (mkd dir kx hz A B) (mkd dir ky hz C D), hz + 1 - hx)
        end
      else
        Some (mkd dir ky (hz + 2) (mkd dir kx (hz + 1) A z) D, hz + 2 - hx)
    end
  end.

(* balance(): if (h0 - h1 + 1u < 3u) recompute the stored height, else rot(p, n, h0 < h1) *)
Definition balance (t : tree) : option (tree * Z) :=
  match t with
  | Leaf => None
  | Node k old l r =>
    let h0 := height l in
    let h1 := height r in
    if (h0 - h1 + 1) mod 2 ^ 32 <? 3 then
      let nh := if h0 <? h1 then h1 + 1 else h0 + 1 in
      Some (Node k nh l r, nh - old)
    else rot (h0 <? h1) t
  end.

(* treeinsert().  The C keeps the addresses of the traversed child slots in a[] and, after linking
   the new leaf, runs `while (i && balance(a[--i]))`: the parent of the new leaf is balanced first,
   then its parent, ... and the loop stops at the first balance() that returns 0.  Recursively:
   a level is balanced iff the level below asked for it (go = true), and asks its own parent iff its
   balance() returned non-zero.  An existing key stops everything (new = false, tree unchanged). *)
Fixpoint insert (k : N) (t : tree) : option (tree * bool * bool) :=
  match t with
  | Leaf => Some (Node k 1 Leaf Leaf, true, true)
  | Node k' h l r =>
    if N.eqb k k' then Some (t, false, false)
    else if N.ltb k' k then            (* key > n->key : child[1] *)
      match insert k r with
      | None => None
      | Some (r', go, nw) =>
        let t' := Node k' h l r' in
        if go then
          match balance t' with
          | None => None
          | Some (t'', d) => Some (t'', negb (d =? 0), nw)
          end
        else Some (t', false, nw)
      end
    else
      match insert k l with
      | None => None
      | Some (l', go, nw) =>
        let t' := Node k' h l' r in
        if go then
          match balance t' with
          | None => None
          | Some (t'', d) => Some (t'', negb (d =? 0), nw)
          end
        else Some (t', false, nw)
      end
  end.

(* number of entries of a[] that treeinsert writes: a[0] = root, one more per visited node
   (the visit of a node with an equal key returns before pushing) *)
Fixpoint path_len (k : N) (t : tree) : Z :=
  match t with
  | Leaf => 1
  | Node k' _ l r =>
    if N.eqb k k' then 1
    else path_len k (if N.ltb k' k then r else l) + 1
  end.

(* #define MAXH (sizeof(pointer) * 8 * 3 / 2), pointers are 8 bytes on every supported host *)
Definition MAXH : Z := 8 * 8 * 3 / 2.

(* a whole insertion history, starting from the empty tree; None = undefined behaviour happened *)
Fixpoint insert_all (ks : list N) (t : tree) : option tree :=
  match ks with
  | [] => Some t
  | k :: ks' =>
    match insert k t with
    | None => None
    | Some (t', _, _) => insert_all ks' t'
    end
  end.

(* observation functions used by the theorems and by the correspondence driver *)
Fixpoint elements (t : tree) : list N :=
  match t with Leaf => [] | Node k _ l r => elements l ++ k :: elements r end.

Fixpoint size (t : tree) : N :=
  match t with Leaf => 0%N | Node _ _ l r => (size l + size r + 1)%N end.

(* the real height (longest root-to-leaf path, in nodes) *)
Fixpoint rheight (t : tree) : Z :=
  match t with Leaf => 0 | Node _ _ l r => Z.max (rheight l) (rheight r) + 1 end.

Definition memb (k : N) (t : tree) : bool := existsb (N.eqb k) (elements t).
