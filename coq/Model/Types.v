(* Model of the typing code of cproc:  /repo/type.c (typerank, typecompatible, typepromote,
   typecommonreal, typeadjust, typehasint), /repo/targ.c (alltargs, targinit's effect on typechar),
   /repo/expr.c (inttype with its limits[] table, the typing part of mkbinaryexpr, unary operators,
   condexpr's type rule, exprassign's accept/reject, nullpointer, decay, character constants, string
   literals, sizeof/_Alignof) and /repo/decl.c (tagspec: choice of the base type of an enum).
   Executable definitions only, NO proofs in this file.

   C unsigned arithmetic is written out with explicit `mod 2^32` / `mod 2^64`.  `None` stands for
   "the compiler stops" (error(...), a failed assert, fatal(...)); theorems say when that happens.

   Identity of `struct type` objects.  The C compares types with `==` on pointers.  The basic types,
   void and nullptr_t are global singletons; an enum, struct or union type is one object per
   definition (modelled by an identity number); pointer, array and function types are allocated
   afresh by every declarator.  `same_object` below is therefore structural equality on the atomic
   types and `false` on derived types.  Where the C can also see two identical pointers to one
   derived type (the `t1 == t2` shortcut of typecompatible, `lt == rt` in condexpr) the structural
   path computes the same answer: this is theorem compat_refl / cond_same_pointer in TypesProofs.v. *)
From Coq Require Import ZArith List Bool.
Import ListNotations.
Open Scope Z_scope.

(* ------------------------------------------------------------------ cc.h enumerations *)
Inductive kind :=
  | KVoid | KBool | KChar | KShort | KInt | KEnum | KLong | KLLong | KFloat | KDouble | KLDouble
  | KPointer | KArray | KFunc | KStruct | KUnion | KNullptr.

Definition PROPCHAR := 1.
Definition PROPINT := 2.
Definition PROPREAL := 4.
Definition PROPARITH := 8.
Definition PROPSCALAR := 16.
Definition PROPFLOAT := 32.

(* The fifteen global basic type objects of type.c. *)
Inductive basic :=
  | BBool | BChar | BSChar | BUChar | BShort | BUShort | BInt | BUInt
  | BLong | BULong | BLLong | BULLong | BFloat | BDouble | BLDouble.

(* ------------------------------------------------------------------ G: the INTTYPE / FLTTYPE rows *)
Definition INTPROP (p : Z) := PROPSCALAR + PROPARITH + PROPREAL + PROPINT + p.
Definition FLTPROP := PROPSCALAR + PROPARITH + PROPREAL + PROPFLOAT.

(* kind, size (= align), issigned as initialised, prop *)
Definition basic_row (b : basic) : kind * Z * bool * Z :=
  match b with
  | BBool    => (KBool,    1, false, INTPROP 0)
  | BChar    => (KChar,    1, true,  INTPROP PROPCHAR)
  | BSChar   => (KChar,    1, true,  INTPROP PROPCHAR)
  | BUChar   => (KChar,    1, false, INTPROP PROPCHAR)
  | BShort   => (KShort,   2, true,  INTPROP 0)
  | BUShort  => (KShort,   2, false, INTPROP 0)
  | BInt     => (KInt,     4, true,  INTPROP 0)
  | BUInt    => (KInt,     4, false, INTPROP 0)
  | BLong    => (KLong,    8, true,  INTPROP 0)
  | BULong   => (KLong,    8, false, INTPROP 0)
  | BLLong   => (KLLong,   8, true,  INTPROP 0)
  | BULLong  => (KLLong,   8, false, INTPROP 0)
  | BFloat   => (KFloat,   4, false, FLTPROP)
  | BDouble  => (KDouble,  8, false, FLTPROP)
  | BLDouble => (KLDouble, 16, false, FLTPROP)
  end.

Definition all_basics : list basic :=
  [BBool; BChar; BSChar; BUChar; BShort; BUShort; BInt; BUInt; BLong; BULong; BLLong; BULLong;
   BFloat; BDouble; BLDouble].

Definition basic_kind b := fst (fst (fst (basic_row b))).
Definition basic_size b := snd (fst (fst (basic_row b))).
Definition basic_signed_init b := snd (fst (basic_row b)).
Definition basic_prop b := snd (basic_row b).

(* G: typerank's switch; 0 = the fatal("unhandled integer type") exit *)
Definition rank_of_kind (k : kind) : Z :=
  match k with
  | KBool => 1 | KChar => 2 | KShort => 3 | KInt => 4 | KLong => 5 | KLLong => 6
  | _ => 0
  end.

(* ------------------------------------------------------------------ targ.c *)
Record target := mktarget { tname : Z; signedchar : bool; wchar : basic }.

(* G: alltargs in order: x86_64-sysv, aarch64, riscv64 (tname is the index) *)
Definition alltargs : list target :=
  [ mktarget 0 true BInt; mktarget 1 false BUInt; mktarget 2 false BInt ].

(* targinit: typechar.u.basic.issigned = targ->signedchar *)
Definition bsigned (tg : target) (b : basic) : bool :=
  match b with BChar => signedchar tg | _ => basic_signed_init b end.

(* ------------------------------------------------------------------ types *)
Definition QUALCONST := 2.
Definition QUALRESTRICT := 4.
Definition QUALVOLATILE := 8.
Definition QUALATOMIC := 16.

(* u.array.length: absent with t->incomplete set (`[]`); an EXPRCONST; or absent / not a constant
   while the type is complete (variable length, `[*]`). *)
Inductive alen := AIncomplete | AConst (n : Z) | ANoConst.

(* `q` is t->qual: the qualifiers of the base (pointed-to / element / return) type. *)
Inductive ty :=
  | TVoid
  | TBasic (b : basic)
  | TEnum (id : Z) (base : basic)
  | TPtr (base : ty) (q : Z)
  | TArr (base : ty) (q : Z) (len : alen)
  | TFunc (ret : ty) (q : Z) (params : list ty) (vararg : bool)   (* params after typeadjust *)
  | TStruct (id : Z)
  | TUnion (id : Z)
  | TNullptr.

Definition basic_eqb (a b : basic) : bool :=
  match a, b with
  | BBool, BBool | BChar, BChar | BSChar, BSChar | BUChar, BUChar | BShort, BShort
  | BUShort, BUShort | BInt, BInt | BUInt, BUInt | BLong, BLong | BULong, BULong
  | BLLong, BLLong | BULLong, BULLong | BFloat, BFloat | BDouble, BDouble | BLDouble, BLDouble => true
  | _, _ => false
  end.

Definition kind_of (t : ty) : kind :=
  match t with
  | TVoid => KVoid | TBasic b => basic_kind b | TEnum _ _ => KEnum | TPtr _ _ => KPointer
  | TArr _ _ _ => KArray | TFunc _ _ _ _ => KFunc | TStruct _ => KStruct | TUnion _ => KUnion
  | TNullptr => KNullptr
  end.

(* t->prop: rows above; tagspec gives an enum PROPSCALAR|PROPARITH|PROPREAL|PROPINT; mkpointertype
   and typenullptr PROPSCALAR; everything else 0 (PROPVM is not modelled) *)
Definition prop (t : ty) : Z :=
  match t with
  | TBasic b => basic_prop b
  | TEnum _ _ => INTPROP 0
  | TPtr _ _ => PROPSCALAR
  | TNullptr => PROPSCALAR
  | _ => 0
  end.

Definition has (p : Z) (flag : Z) : bool := negb (Z.land p flag =? 0).

(* t->size for the types whose size the typing code reads *)
Definition size (t : ty) : Z :=
  match t with
  | TBasic b => basic_size b
  | TEnum _ b => basic_size b
  | TPtr _ _ => 8
  | TNullptr => 8
  | _ => 0
  end.

(* t->u.basic.issigned (tagspec copies the base's flag into the enum type) *)
Definition issigned (tg : target) (t : ty) : bool :=
  match t with
  | TBasic b => bsigned tg b
  | TEnum _ b => bsigned tg b
  | _ => false
  end.

(* t->incomplete: void, `[]`; struct/union/enum types of the model are complete *)
Definition incomplete (t : ty) : bool :=
  match t with
  | TVoid => true
  | TArr _ _ AIncomplete => true
  | _ => false
  end.

(* pointer equality of two `struct type *` (see the header comment) *)
Definition same_object (t1 t2 : ty) : bool :=
  match t1, t2 with
  | TVoid, TVoid => true
  | TNullptr, TNullptr => true
  | TBasic a, TBasic b => basic_eqb a b
  | TEnum i a, TEnum j b => (i =? j) && basic_eqb a b
  | TStruct i, TStruct j => i =? j
  | TUnion i, TUnion j => i =? j
  | _, _ => false
  end.

Definition is_basic (t : ty) (b : basic) : bool := same_object t (TBasic b).

Definition b2z (b : bool) : Z := if b then 1 else 0.

(* ------------------------------------------------------------------ type.c *)
Definition typerank (t : ty) : Z :=
  let t := match t with TEnum _ b => TBasic b | _ => t end in
  if has (prop t) PROPINT then rank_of_kind (kind_of t) else 0.

(* the array case of typecompatible: either side incomplete, or lengths not both constant, or equal *)
Definition alen_ok (a b : alen) : bool :=
  match a, b with
  | AConst n, AConst m => n =? m
  | _, _ => true
  end.

(* typecompatible.  The `t1 == t2` shortcut is same_object on atomic types; the enum clause is
   `t1->kind == TYPEENUM && t2 == t1->base || ...`; pointer/array/function go to `derived:`
   (equal t->qual and compatible bases); everything else with equal kinds returns false. *)
Fixpoint typecompatible (t1 t2 : ty) {struct t1} : bool :=
  match t1, t2 with
  | TEnum _ b, TBasic c => basic_eqb b c
  | TBasic c, TEnum _ b => basic_eqb c b
  | TPtr b1 q1, TPtr b2 q2 => (q1 =? q2) && typecompatible b1 b2
  | TArr b1 q1 l1, TArr b2 q2 l2 =>
      alen_ok l1 l2 && (q1 =? q2) && typecompatible b1 b2
  | TFunc r1 q1 ps1 v1, TFunc r2 q2 ps2 v2 =>
      Bool.eqb v1 v2
      && (fix params (l1 l2 : list ty) {struct l1} : bool :=
            match l1, l2 with
            | [], [] => true
            | p1 :: l1', p2 :: l2' => typecompatible p1 p2 && params l1' l2'
            | _, _ => false
            end) ps1 ps2
      && (q1 =? q2) && typecompatible r1 r2
  | _, _ => same_object t1 t2
  end.

Definition typesame := typecompatible.
Definition typecomposite (t1 t2 : ty) : ty := t1.

Definition NOWIDTH : Z := 2 ^ 32 - 1.      (* (unsigned)-1: "not a bit-field" *)
Definition M32 : Z := 2 ^ 32.
Definition M64 : Z := 2 ^ 64.

Definition typepromote (tg : target) (t : ty) (width : Z) : ty :=
  if is_basic t BFloat then TBasic BDouble
  else if has (prop t) PROPINT
          && ((typerank t <=? typerank (TBasic BInt)) || (width <=? basic_size BInt * 8)) then
    let width := if width =? NOWIDTH then (size t * 8) mod M32 else width in
    if (width - b2z (issigned tg t)) mod M32 <? basic_size BInt * 8 then TBasic BInt else TBasic BUInt
  else t.

Definition enum_base_of (t : ty) : ty := match t with TEnum _ b => TBasic b | _ => t end.

Definition typecommonreal (tg : target) (t1 : ty) (w1 : Z) (t2 : ty) (w2 : Z) : option ty :=
  if negb (has (prop t1) PROPREAL && has (prop t2) PROPREAL) then None      (* assert *)
  else if is_basic t1 BLDouble || is_basic t2 BLDouble then Some (TBasic BLDouble)
  else if is_basic t1 BDouble || is_basic t2 BDouble then Some (TBasic BDouble)
  else if is_basic t1 BFloat || is_basic t2 BFloat then Some (TBasic BFloat)
  else
    let t1 := enum_base_of (typepromote tg t1 w1) in      (* if (t1->kind == TYPEENUM) t1 = t1->base; *)
    let t2 := enum_base_of (typepromote tg t2 w2) in
    if same_object t1 t2 then Some t1
    else if Bool.eqb (issigned tg t1) (issigned tg t2) then
      Some (if typerank t1 >? typerank t2 then t1 else t2)
    else
      let '(t1, t2) := if issigned tg t1 then (t2, t1) else (t1, t2) in
      if typerank t1 >=? typerank t2 then Some t1
      else if size t1 <? size t2 then Some t2
      else if is_basic t2 BLong then Some (TBasic BULong)
      else if is_basic t2 BLLong then Some (TBasic BULLong)
      else None.                                                             (* fatal *)

(* typeadjust (6.7.6.3p7); ptrqual is t->u.array.ptrqual of the array declarator *)
Definition typeadjust (t : ty) (tq : Z) (ptrqual : Z) : option (ty * Z) :=
  match t with
  | TArr b q _ => Some (TPtr b (Z.lor tq q), ptrqual)
  | TFunc _ _ _ _ => if tq =? 0 then Some (TPtr t 0, tq) else None
  | _ => Some (t, tq)
  end.

(* typehasint(t, i, sign), 0 <= i < 2^64.  C precedence:  -1ull << ((t->size << 3) - 1)  and
   0xffffffffffffffffull >> (((8 - t->size) << 3) + t->u.basic.issigned) *)
Definition typehasint (tg : target) (t : ty) (i : Z) (sign : bool) : bool :=
  if sign && (i >=? 2 ^ 63) then
    issigned tg t && (i >=? Z.shiftl (M64 - 1) (Z.shiftl (size t) 3 - 1) mod M64)
  else
    i <=? Z.shiftr (M64 - 1) (Z.shiftl (8 - size t) 3 + b2z (issigned tg t)).

(* ------------------------------------------------------------------ expr.c: literals *)
(* G: limits[] of inttype: type, end1, end2 (characters as codes; [] for a NULL end2) *)
Definition limits : list (basic * list Z * list Z) :=
  [ (BInt,    [],            []);
    (BUInt,   [117],         []);
    (BLong,   [108],         []);
    (BULong,  [117;108],     [108;117]);
    (BLLong,  [108;108],     []);
    (BULLong, [117;108;108], [108;108;117]) ].

Definition tolower (c : Z) : Z := if (65 <=? c) && (c <=? 90) then c + 32 else c.

Fixpoint str_eqb (a b : list Z) : bool :=
  match a, b with
  | [], [] => true
  | x :: a', y :: b' => (x =? y) && str_eqb a' b'
  | _, _ => false
  end.

(* first loop of inttype: index of the row whose end1 or (non-NULL) end2 equals the suffix *)
Fixpoint suffix_index (rows : list (basic * list Z * list Z)) (sfx : list Z) (i : nat) : nat :=
  match rows with
  | [] => i
  | (_, e1, e2) :: rest =>
      if str_eqb sfx e1 then i
      else if negb (match e2 with [] => true | _ => false end) && str_eqb sfx e2 then i
      else suffix_index rest sfx (S i)
  end.

(* second loop: for (; i < LEN(limits); i += step) if (typehasint(limits[i].type, val, false)) return t;
   written as a walk over the rows: `skip` rows are passed over before the next one is tried *)
Fixpoint inttype_loop (tg : target) (rows : list (basic * list Z * list Z)) (skip step : nat) (val : Z)
  : option basic :=
  match rows with
  | [] => None                                              (* error: no suitable type *)
  | (b, _, _) :: rest =>
      match skip with
      | S k => inttype_loop tg rest k step val
      | O => if typehasint tg (TBasic b) val false then Some b
             else inttype_loop tg rest (Nat.pred step) step val
      end
  end.

(* since /repo 'fix: reject the integer suffixes lL and Ll': the lower-casing loop first rejects an `l` next to an `L` *)
Fixpoint mixed_ll (s : list Z) : bool :=
  match s with
  | a :: r =>
      match r with
      | b :: _ => ((a =? 108) && (b =? 76)) || ((a =? 76) && (b =? 108)) || mixed_ll r
      | [] => false
      end
  | [] => false
  end.

Definition inttype (tg : target) (val : Z) (decimal : bool) (suffix : list Z) : option basic :=
  let sfx := map tolower suffix in
  let i := suffix_index limits sfx 0 in
  if mixed_ll suffix then None                              (* error: invalid suffix *)
  else if Nat.eqb i (length limits) then None               (* error: invalid suffix *)
  else
    let step := if negb (Nat.eqb (Nat.modulo i 2) 0) || decimal then 2%nat else 1%nat in
    inttype_loop tg limits i step val.

(* floating constants: "", f/F, l/L (primaryexpr) *)
Definition floattype (suffix : list Z) : option basic :=
  match map tolower suffix with
  | [] => Some BDouble
  | [102] => Some BFloat
  | [108] => Some BLDouble
  | _ => None
  end.

(* character constants and string literals by prefix *)
Inductive prefix := PNone | PL | Pu8 | Pu | PU.

Definition charconst_type (tg : target) (p : prefix) : basic :=
  match p with
  | PL => wchar tg
  | Pu8 => BUChar
  | Pu => BUShort
  | PU => BUInt
  | PNone => BInt
  end.

Definition string_elem (tg : target) (p : prefix) : basic :=
  match p with
  | PNone => BChar
  | Pu8 => BUChar
  | Pu => BUShort
  | PU => BUInt
  | PL => wchar tg
  end.

(* primaryexpr, TSTRINGLIT: mkarraytype(t, QUALNONE, size), then u.array.length = mkconstexpr(size) *)
Definition strlit_type (tg : target) (p : prefix) (n : Z) : ty :=
  TArr (TBasic (string_elem tg p)) 0 (if n =? 0 then AIncomplete else AConst n).

(* sizeof / _Alignof / offsetof, pointer difference *)
Definition sizeof_type : basic := BULong.
Definition ptrdiff_type : basic := BLong.

(* decay (6.3.2.1): type of the expression after array/function conversion; tq = e->qual *)
Definition decay (t : ty) (tq : Z) : ty :=
  match t with
  | TArr b q _ => TPtr b (Z.lor q tq)
  | TFunc _ _ _ _ => TPtr t tq
  | _ => t
  end.

(* ------------------------------------------------------------------ expr.c: operators *)
(* What the typing code reads of an operand: its type, its bit-field width (bitfieldwidth: NOWIDTH
   unless EXPRBITFIELD) and, when eval() reduces it to an EXPRCONST, its value. *)
Record operand := mkop { otype : ty; owidth : Z; oconst : option Z }.

Definition nullpointer (e : operand) : bool :=
  match oconst e with
  | None => false
  | Some v =>
      if same_object (otype e) TNullptr then true
      else if negb (has (prop (otype e)) PROPINT)
              && negb (match otype e with TPtr b q => same_object b TVoid && (q =? 0) | _ => false end) then false
      else v =? 0
  end.

Inductive binop :=
  | OLor | OLand | OEql | ONeq | OLess | OGreater | OLeq | OGeq | OBor | OXor | OBand
  | OAdd | OSub | OMod | OMul | ODiv | OShl | OShr.

Definition is_ptr (t : ty) : bool := match t with TPtr _ _ => true | _ => false end.
Definition ptr_base (t : ty) : ty := match t with TPtr b _ => b | _ => TVoid end.
Definition ptr_qual (t : ty) : Z := match t with TPtr _ q => q | _ => 0 end.
Definition is_func (t : ty) : bool := match t with TFunc _ _ _ _ => true | _ => false end.
Definition is_void (t : ty) : bool := match t with TVoid => true | _ => false end.

Definition commonreal (tg : target) (l r : operand) : option ty :=
  typecommonreal tg (otype l) (owidth l) (otype r) (owidth r).

(* exprconvert(e, t) returns e itself when e->type is compatible with t (no cast node): the expression
   then keeps its own type (an enum stays an enum) and its bit-field width *)
Definition exprconvert (e : operand) (t : ty) : operand :=
  if typecompatible (otype e) t then e else mkop t NOWIDTH None.

(* exprpromote *)
Definition exprpromote (tg : target) (e : operand) : operand :=
  exprconvert e (typepromote tg (otype e) (owidth e)).

(* the type mkbinaryexpr gives `l op r`; None = error / assert *)
Definition binop_type (tg : target) (op : binop) (l r : operand) : option ty :=
  let lp := prop (otype l) in
  let rp := prop (otype r) in
  match op with
  | OLor | OLand =>
      if has lp PROPSCALAR && has rp PROPSCALAR then Some (TBasic BInt) else None
  | OEql | ONeq =>
      if has lp PROPARITH && has rp PROPARITH then
        match commonreal tg l r with Some _ => Some (TBasic BInt) | None => None end
      else
        let '(l, r) := if is_ptr (otype l) then (l, r) else (r, l) in
        if negb (is_ptr (otype l)) then None
        else if nullpointer r then Some (TBasic BInt)
        else if nullpointer l then Some (TBasic BInt)
        else if negb (is_ptr (otype r)) then None
        else
          let '(l, r) := if is_void (ptr_base (otype l)) then (r, l) else (l, r) in
          if is_void (ptr_base (otype r)) && negb (is_func (ptr_base (otype l))) then Some (TBasic BInt)
          else if typecompatible (ptr_base (otype l)) (ptr_base (otype r)) then Some (TBasic BInt)
          else None
  | OLess | OGreater | OLeq | OGeq =>
      if has lp PROPREAL && has rp PROPREAL then
        match commonreal tg l r with Some _ => Some (TBasic BInt) | None => None end
      else if is_ptr (otype l) && is_ptr (otype r) then
        if negb (typecompatible (ptr_base (otype l)) (ptr_base (otype r))) || is_func (ptr_base (otype l))
        then None else Some (TBasic BInt)
      else None
  | OBor | OXor | OBand =>
      if negb (has lp PROPINT) || negb (has rp PROPINT) then None else commonreal tg l r
  | OAdd =>
      if has lp PROPARITH && has rp PROPARITH then commonreal tg l r
      else
        let '(l, rp) := if is_ptr (otype r) then (r, lp) else (l, rp) in
        if negb (is_ptr (otype l)) || negb (has rp PROPINT) then None
        else if incomplete (ptr_base (otype l)) || is_func (ptr_base (otype l)) then None
        else Some (otype l)
  | OSub =>
      if has lp PROPARITH && has rp PROPARITH then commonreal tg l r
      else if negb (is_ptr (otype l)) || (negb (has rp PROPINT) && negb (is_ptr (otype r))) then None
      else if incomplete (ptr_base (otype l)) || is_func (ptr_base (otype l)) then None
      else if has rp PROPINT then Some (otype l)
      else if typecompatible (ptr_base (otype l)) (ptr_base (otype r)) then Some (TBasic ptrdiff_type)
      else None
  | OMod =>
      if negb (has lp PROPINT) || negb (has rp PROPINT) then None else commonreal tg l r
  | OMul | ODiv =>
      if negb (has lp PROPARITH) || negb (has rp PROPARITH) then None else commonreal tg l r
  | OShl | OShr =>
      if negb (has lp PROPINT) || negb (has rp PROPINT) then None
      else Some (otype (exprpromote tg l))
  end.

(* unaryexpr: + - ~ !  (the others are not arithmetic typing).  For unary plus the C wraps an operand that
   exprpromote returned unchanged (an lvalue or EXPRBITFIELD) in an EXPRCAST to its own type: same type,
   but a value that sizeof/& treat as such. *)
Inductive unop := UPlus | UMinus | UBnot | ULnot.

Definition unop_type (tg : target) (op : unop) (e : operand) : option ty :=
  let p := prop (otype e) in
  match op with
  | UPlus | UMinus =>
      if negb (has p PROPARITH) then None
      else if has p PROPINT then Some (otype (exprpromote tg e)) else Some (otype e)
  | UBnot =>
      if negb (has p PROPINT) then None
      else
        let e := exprpromote tg e in
        commonreal tg e (mkop (otype e) NOWIDTH (Some (M64 - 1)))
  | ULnot =>
      if negb (has p PROPSCALAR) then None
      else binop_type tg OEql e (mkop (TBasic BInt) NOWIDTH (Some 0))
  end.

(* condexpr: the type of `c ? l : r` *)
Definition cond_type (tg : target) (l r : operand) : option ty :=
  let lt := otype l in
  let rt := otype r in
  if has (prop lt) PROPARITH && has (prop rt) PROPARITH then commonreal tg l r
  else if same_object lt rt then Some lt
  else if nullpointer l && is_ptr rt then Some rt
  else if nullpointer r && is_ptr lt then Some lt
  else if is_ptr lt && is_ptr rt then
    let tq := Z.lor (ptr_qual lt) (ptr_qual rt) in
    let lb := ptr_base lt in
    let rb := ptr_base rt in
    if same_object lb TVoid || same_object rb TVoid then Some (TPtr TVoid tq)
    else if typecompatible lb rb then Some (TPtr (typecomposite lb rb) tq)
    else None
  else None.

(* exprassign: does `e` convert to `t` as if by assignment?  (true = accepted) *)
Definition exprassign_ok (e : operand) (t : ty) : bool :=
  let et := otype e in
  match kind_of t with
  | KBool => has (prop et) PROPARITH || is_ptr et || same_object et TNullptr
  | KPointer =>
      if nullpointer e then true
      else if negb (is_ptr et) then false
      else if negb (same_object (ptr_base t) TVoid) && negb (same_object (ptr_base et) TVoid)
              && negb (typecompatible (ptr_base t) (ptr_base et)) then false
      else Z.land (ptr_qual et) (ptr_qual t) =? ptr_qual et
  | KNullptr => nullpointer e
  | KStruct | KUnion => typecompatible t et
  | _ => has (prop t) PROPARITH && has (prop et) PROPARITH       (* assert, then the test *)
  end.

(* assignexpr, plain `=`: the left type must be complete and scalar or struct/union; the right operand
   goes through exprassign; the expression has the left operand's type *)
Definition assign_left_ok (l : ty) : bool :=
  negb (incomplete l)
  && (has (prop l) PROPSCALAR || match l with TStruct _ | TUnion _ => true | _ => false end).

Definition assign_type (l : ty) (r : operand) : option ty :=
  if assign_left_ok l && exprassign_ok r l then Some l else None.

(* ------------------------------------------------------------------ decl.c: tagspec *)
(* G: inttypes[][2] of tagspec: column 0 unsigned, column 1 signed *)
Definition enum_inttypes : list (basic * basic) := [(BUInt, BInt); (BULong, BLong); (BULLong, BLLong)].

(* base type chosen at the closing brace when no underlying type was given.  `min` is the magnitude
   of the most negative enumerator (0 if none), `max` the largest non-negative one; both < 2^64. *)
Definition enum_base (tg : target) (min max : Z) : option basic :=
  if (min <=? 2147483648) && (max <=? 2147483647) then
    Some (if min =? 0 then BUInt else BInt)
  else
    let sign := 0 <? min in
    find (fun et => typehasint tg (TBasic et) max false && typehasint tg (TBasic et) ((- min) mod M64) true)
         (map (fun p => if sign then snd p else fst p) enum_inttypes).

(* ------------------------------------------------------------------ finite universes *)
Definition int_basics : list basic :=
  [BBool; BChar; BSChar; BUChar; BShort; BUShort; BInt; BUInt; BLong; BULong; BLLong; BULLong].
Definition flt_basics : list basic := [BFloat; BDouble; BLDouble].

(* two distinct enum types (identities 1 and 2) for each possible base *)
Definition int_universe : list ty :=
  map TBasic int_basics ++ map (TEnum 1) int_basics ++ map (TEnum 2) int_basics.
Definition real_universe : list ty := int_universe ++ map TBasic flt_basics.

Fixpoint zrange (lo : Z) (n : nat) : list Z :=
  match n with O => [] | S n' => lo :: zrange (lo + 1) n' end.

Definition widths : list Z := NOWIDTH :: zrange 1 64.

(* a width that a declaration can give an expression of type t *)
Definition valid_width (t : ty) (w : Z) : bool :=
  (w =? NOWIDTH) || (has (prop t) PROPINT && (1 <=? w) && (w <=? 8 * size t)).
