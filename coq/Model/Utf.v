(* Model of /repo/utf.c.  Executable, no proofs.  Values are N; C's uint_least32_t arithmetic
   (32 bits on all hosts cproc is built on) is made explicit by masking with 2^32-1 (= mod 2^32), stores into
   `unsigned char` / `uint_least16_t` by masking with 0xff / 0xffff.

   Pointers: `s` is the list of bytes from the pointer on; reading where the list has ended is
   reported as OutOfBounds (a distinct outcome the theorems exclude). *)
From Coq Require Import NArith List Bool.
Import ListNotations.
Open Scope N_scope.

Definition M32 : N := 0x100000000.
Definition sub32 (a b : N) : N := N.land (a + M32 - b) 0xffffffff.      (* a - b in uint_least32_t *)
Definition shl32 (a k : N) : N := N.land (N.shiftl a k) 0xffffffff.     (* a << k in uint_least32_t *)
Definition u8 (x : N) : N := N.land x 0xff.                      (* store into unsigned char *)
Definition u16 (x : N) : N := N.land x 0xffff.                   (* store into uint_least16_t *)

Inductive enc := Enc (units : list N) | AssertFail.

(* size_t utf8enc(unsigned char *s, uint_least32_t c) *)
Definition utf8enc (c : N) : enc :=
  if c <? 0x80 then Enc [u8 c]
  else if c <? 0x800 then
    Enc [u8 (N.lor 0xc0 (N.shiftr c 6));
         u8 (N.lor 0x80 (N.land c 0x3f))]
  else if (c <? 0xd800) || (sub32 c 0xe000 <? 0x2000) then
    Enc [u8 (N.lor 0xe0 (N.shiftr c 12));
         u8 (N.lor 0x80 (N.land (N.shiftr c 6) 0x3f));
         u8 (N.lor 0x80 (N.land c 0x3f))]
  else if sub32 c 0x10000 <? 0x100000 then
    Enc [u8 (N.lor 0xf0 (N.shiftr c 18));
         u8 (N.lor 0x80 (N.land (N.shiftr c 12) 0x3f));
         u8 (N.lor 0x80 (N.land (N.shiftr c 6) 0x3f));
         u8 (N.lor 0x80 (N.land c 0x3f))]
  else AssertFail.       (* assert(0) *)

Inductive dec := Dec (c : N) (l : N) | Invalid | OutOfBounds.
Inductive contres := ContOk (x : N) | ContInvalid | ContOOB.

(* for (i = 1; i < l; ++i) { b = *++s; if ((b & 0xc0) != 0x80) return -1; x = x << 6 | b & 0x3f; }
   k = remaining iterations, s = bytes after the current one *)
Fixpoint cont (x : N) (k : nat) (s : list N) : contres :=
  match k with
  | O => ContOk x
  | S k' =>
      match s with
      | [] => ContOOB
      | b :: s' =>
          if negb (N.land b 0xc0 =? 0x80) then ContInvalid
          else cont (N.lor (shl32 x 6) (N.land b 0x3f)) k' s'
      end
  end.

(* size_t utf8dec(uint_least32_t *c, const unsigned char *s, size_t n); (size_t)-1 is Invalid *)
Definition utf8dec (s : list N) (n : N) : dec :=
  match s with
  | [] => OutOfBounds
  | b :: t =>
      if b <? 0x80 then Dec b 1
      else
        let cls :=
          if N.land b 0xe0 =? 0xc0 then Some (N.land b 0x1f, 2)
          else if N.land b 0xf0 =? 0xe0 then Some (N.land b 0x0f, 3)
          else if N.land b 0xf8 =? 0xf0 then Some (N.land b 0x07, 4)
          else None in
        match cls with
        | None => Invalid
        | Some (x0, l) =>
            if n <? l then Invalid
            else match cont x0 (N.to_nat (l - 1)) t with
                 | ContInvalid => Invalid
                 | ContOOB => OutOfBounds
                 | ContOk x =>
                     if (0x110000 <=? x) || (sub32 x 0xd800 <? 0x0800) then Invalid
                     else if x <? (if l =? 2 then 0x80 else if l =? 3 then 0x800 else 0x10000) then Invalid
                     else Dec x l
                 end
        end
  end.

(* size_t utf16enc(uint_least16_t *s, uint_least32_t c) *)
Definition utf16enc (c : N) : enc :=
  if (c <? 0xd800) || (sub32 c 0xe000 <? 0x2000) then Enc [u16 c]
  else
    let c' := sub32 c 0x10000 in
    if c' <? 0x100000 then
      Enc [u16 (N.lor 0xd800 (N.land (N.shiftr c' 10) 0x3ff));
           u16 (N.lor 0xdc00 (N.land c' 0x3ff))]
    else AssertFail.     (* assert(0) *)
