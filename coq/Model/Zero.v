(* Model of qbe.c:zero(): zero-fill of [offset, end) of an automatic object with naturally aligned stores.

     int a = 1;
     if (align > 8) align = 8;
     while (offset < end) {
         if ((align - (offset & align - 1)) & a) { store a bytes of zero at offset; offset += a; }
         if (a < align) a <<= 1;
     }
*)
From Coq Require Import List NArith.
Import ListNotations.
Local Open Scope N_scope.

Inductive zero_result :=
| ZDone (stores : list (N * N)) (final : N)     (* (offset, width) in emission order; offset after the loop *)
| ZOutOfFuel.

Definition capalign (align : N) : N := if 8 <? align then 8 else align.

Definition cond (align offset a : N) : bool :=
  negb (N.land (align - N.land offset (align - 1)) a =? 0).

Fixpoint zero_loop (fuel : nat) (align a offset e : N) (acc : list (N * N)) : zero_result :=
  match fuel with
  | O => ZOutOfFuel
  | S f =>
    if offset <? e then
      let '(acc1, offset1) := if cond align offset a then (acc ++ [(offset, a)], offset + a) else (acc, offset) in
      let a1 := if a <? align then 2 * a else a in
      zero_loop f align a1 offset1 e acc1
    else ZDone acc offset
  end.

Definition zero (fuel : nat) (align offset e : N) : zero_result :=
  zero_loop fuel (capalign align) 1 offset e [].

(* the index into the 9-entry store-opcode table of the C: must be 1, 2, 4 or 8 *)
Definition store_index_ok (w : N) : bool := (w =? 1) || (w =? 2) || (w =? 4) || (w =? 8).
