(* C07 - automatic objects: the store sequence of qbe.c:funcinit (Model/AutoInit.v) leaves exactly the specified
   image in the object, whatever the memory contained before - provided no entry of the init list is nested in
   an earlier one (funcinit_image_partial).  With a nested entry the statement is false (funcinit_image_refuted):
   `offset` moves backwards and the next zero() wipes bytes the covering entry stored. *)
From Coq Require Import List NArith Bool Lia Sorted PeanoNat.
From Cproc Require Import Lib.InitBits Model.Init Model.Zero Model.AutoInit Spec.InitSpec
  Proofs.InitProofs Proofs.DataEmitProofs Proofs.ZeroProofs.
Import ListNotations.
Local Open Scope N_scope.
Local Arguments N.mul : simpl never.
Local Arguments N.add : simpl never.
Local Arguments N.pow : simpl never.
Local Arguments N.modulo : simpl never.
Local Arguments N.div : simpl never.
Local Arguments N.sub : simpl never.

(* ------------------------------------------------------------------ every operation is a bit-range write *)
Definition op_pos (op : aop) : N :=
  match op with
  | AZero off _ | AStore off _ _ | ACopy off _ _ _ => 8 * off
  | ABits off _ b _ _ => 8 * off + b
  end.
Definition op_width (op : aop) : N :=
  match op with
  | AZero _ w => 8 * w
  | AStore _ sz _ => 8 * sz
  | ABits _ sz b a _ => 8 * sz - b - a
  | ACopy _ sz al _ => 8 * copy_len sz al
  end.
Definition op_val (en : env) (op : aop) : N :=
  match op with
  | AZero _ _ => 0
  | AStore _ _ v | ABits _ _ _ _ v => aval_num en v
  | ACopy _ _ _ id => opaque en id
  end.
Definition op_ok (op : aop) : Prop :=
  match op with
  | ABits _ sz b a _ => 0 < sz /\ sz <= 8 /\ b + a < 8 * sz
  | _ => True
  end.

Lemma ones64 : M64 - 1 = N.ones 64.
Proof. reflexivity. Qed.

Lemma testbit_ones n j : N.testbit (N.ones n) j = (j <? n).
Proof.
  destruct (N.ltb_spec j n) as [H|H]; [apply N.ones_spec_low; exact H|apply N.ones_spec_high; exact H].
Qed.

(* the mask of funcstore: `width` ones shifted to bit `b` *)
Lemma mask_eq sz b a : 0 < sz -> sz <= 8 -> b + a < 8 * sz ->
  w64 (N.shiftl (N.shiftr (M64 - 1) (w64 (sub64 64 (w64 (sz * 8)) + (b + a)))) b) = N.shiftl (N.ones (8 * sz - b - a)) b.
Proof.
  intros H0 H8 Hba. assert (HM : M64 = 18446744073709551616) by reflexivity.
  rewrite (w64_small (sz * 8)) by lia. rewrite sub64_small by lia. rewrite (w64_small (64 - sz * 8 + (b + a))) by lia.
  rewrite ones64. rewrite N.shiftr_div_pow2, N.ones_div_pow2 by lia.
  replace (64 - (64 - sz * 8 + (b + a))) with (8 * sz - b - a) by lia.
  apply w64_small. rewrite N.shiftl_mul_pow2, N.ones_equiv.
  assert (H : 2 ^ (8 * sz - b - a) * 2 ^ b <= 2 ^ 64).
  { rewrite <- pow2_add. apply N.pow_le_mono_r; [discriminate|lia]. }
  pose proof (pow2_pos (8 * sz - b - a)). pose proof (pow2_pos b). change (2 ^ 64) with M64 in H. nia.
Qed.

Lemma rmw_bit sz b a old v j : 0 < sz -> sz <= 8 -> b + a < 8 * sz -> j < 8 * sz ->
  N.testbit (rmw sz b a old v) j = if (b <=? j) && (j <? 8 * sz - a) then N.testbit v (j - b) else N.testbit old j.
Proof.
  intros H0 H8 Hba Hj. unfold rmw. rewrite (mask_eq sz b a H0 H8 Hba).
  set (c := if sz <=? 4 then 32 else 64).
  assert (Hcls : (if sz <=? 4 then 4294967296 else M64) = 2 ^ c) by (unfold c; destruct (sz <=? 4); reflexivity).
  assert (Hjc : j < c) by (unfold c; destruct (N.leb_spec sz 4); lia).
  rewrite Hcls. replace (2 ^ c - 1) with (N.ones c) by (rewrite N.ones_equiv; pose proof (pow2_pos c); lia).
  rewrite N.lor_spec, !N.land_spec, N.ldiff_spec.
  rewrite !N.mod_pow2_bits_low by exact Hjc. rewrite testbit_ones. rewrite (proj2 (N.ltb_lt j c) Hjc).
  destruct (N.leb_spec b j) as [Hbj|Hbj]; cbn [andb].
  - rewrite N.shiftl_spec_high' by exact Hbj. rewrite testbit_ones. rewrite N.mul_pow2_bits_high by exact Hbj.
    destruct (N.ltb_spec (j - b) (8 * sz - b - a)) as [Hw|Hw].
    + rewrite (proj2 (N.ltb_lt j (8 * sz - a))) by lia. cbn [negb andb]. rewrite andb_true_r, andb_false_r, orb_false_r. reflexivity.
    + rewrite (proj2 (N.ltb_ge j (8 * sz - a))) by lia. cbn [negb andb]. rewrite andb_false_r, andb_true_r. reflexivity.
  - rewrite N.shiftl_spec_low by exact Hbj. rewrite N.mul_pow2_bits_low by exact Hbj. cbn [negb andb]. rewrite andb_true_r. reflexivity.
Qed.

Lemma exec_bit en mem op k : op_ok op ->
  N.testbit (exec en mem op) k =
  if (op_pos op <=? k) && (k <? op_pos op + op_width op) then N.testbit (op_val en op) (k - op_pos op) else N.testbit mem k.
Proof.
  intros Hok. destruct op as [off w|off sz v|off sz b a v|off sz al id]; cbn [exec op_pos op_width op_val]; try apply setbits_spec.
  destruct Hok as (H0 & H8 & Hba). rewrite setbits_spec.
  destruct (N.leb_spec (8 * off) k) as [H1|H1]; cbn [andb].
  - destruct (N.ltb_spec k (8 * off + 8 * sz)) as [H2|H2].
    + rewrite rmw_bit by lia. rewrite getbits_spec. rewrite (proj2 (N.ltb_lt (k - 8 * off) (8 * sz))) by lia.
      replace (k - 8 * off + 8 * off) with k by lia.
      destruct (N.leb_spec b (k - 8 * off)) as [H3|H3]; cbn [andb].
      * rewrite (proj2 (N.leb_le (8 * off + b) k)) by lia. cbn [andb].
        destruct (N.ltb_spec (k - 8 * off) (8 * sz - a)) as [H4|H4].
        -- rewrite (proj2 (N.ltb_lt k (8 * off + b + (8 * sz - b - a)))) by lia. f_equal. lia.
        -- rewrite (proj2 (N.ltb_ge k (8 * off + b + (8 * sz - b - a)))) by lia. reflexivity.
      * rewrite (proj2 (N.leb_gt (8 * off + b) k)) by lia. reflexivity.
    + rewrite (proj2 (N.ltb_ge k (8 * off + b + (8 * sz - b - a)))) by lia. rewrite andb_false_r. reflexivity.
  - rewrite (proj2 (N.leb_gt (8 * off + b) k)) by lia. reflexivity.
Qed.

(* ------------------------------------------------------------------------------ zero() as bit writes *)
Lemma tiles_le st : forall x y, tiles st x y -> x <= y.
Proof.
  induction st as [|[o w] r IH]; simpl; intros x y H; [lia|]. destruct H as [_ H]. apply IH in H. lia.
Qed.

Lemma exec_all_app en mem a b : exec_all en mem (a ++ b) = exec_all en (exec_all en mem a) b.
Proof. unfold exec_all. apply fold_left_app. Qed.

Lemma zeros_exec en st : forall x y mem, tiles st x y -> forall k,
  N.testbit (exec_all en mem (map (fun s => AZero (fst s) (snd s)) st)) k =
  if (8 * x <=? k) && (k <? 8 * y) then false else N.testbit mem k.
Proof.
  induction st as [|[o w] r IH]; intros x y mem H k.
  - simpl in H. subst y. cbn [map exec_all fold_left].
    destruct (N.leb_spec (8 * x) k), (N.ltb_spec k (8 * x)); cbn [andb]; try reflexivity; lia.
  - simpl in H. destruct H as [-> H]. cbn [map fst snd]. change (exec_all en mem (AZero x w :: ?t)) with (exec_all en (exec en mem (AZero x w)) t).
    unfold exec_all at 1. cbn [fold_left]. fold (exec_all en (exec en mem (AZero x w)) (map (fun s => AZero (fst s) (snd s)) r)).
    rewrite (IH (x + w) y _ H k). pose proof (tiles_le r _ _ H) as Hle.
    rewrite exec_bit by exact I. cbn [op_pos op_width op_val]. rewrite N.bits_0.
    destruct (N.leb_spec (8 * (x + w)) k), (N.ltb_spec k (8 * y)), (N.leb_spec (8 * x) k), (N.ltb_spec k (8 * x + 8 * w)); cbn [andb]; try reflexivity; lia.
Qed.

Lemma find_none_ok st : Forall store_ok st -> find (fun s => negb (store_index_ok (snd s))) st = None.
Proof.
  induction 1 as [|s r [H _] _ IH]; [reflexivity|]. cbn [find]. rewrite H. exact IH.
Qed.

(* zero(align, offset, e): stores that clear [offset, final) with final >= e, nothing below offset *)
Definition zeroed (en : env) (zs : list aop) (offset final : N) : Prop :=
  forall mem k, N.testbit (exec_all en mem zs) k = if (8 * offset <=? k) && (k <? 8 * final) then false else N.testbit mem k.

Lemma zero_ops_spec en align offset e acc : (exists k, align = 2 ^ k) ->
  exists zs final, zero_ops align offset e acc = AOk (acc ++ zs) /\ offset <= final /\ (offset < e -> e <= final) /\
                   (e <= offset -> zs = []) /\ zeroed en zs offset final.
Proof.
  intros Hal. destruct (zero_spec align offset e Hal) as (st & final & Hz & Ht & Hs & Hr1 & Hr2).
  exists (map (fun s => AZero (fst s) (snd s)) st), final. unfold zero_ops. rewrite Hz, (find_none_ok st Hs).
  split; [reflexivity|]. split; [apply (tiles_le st); exact Ht|]. split; [intros H; apply Hr1 in H; lia|].
  split; [intros H; rewrite (Hr2 H); reflexivity|]. intros mem k. apply zeros_exec. exact Ht.
Qed.

(* ------------------------------------------------------------------------------ the loop invariant *)
Definition agrees (m V mx : N) : Prop := forall k, k < 8 * mx -> N.testbit m k = N.testbit V k.

Lemma setbits_lt x p w v : x < 2 ^ p -> setbits x p w v < 2 ^ (p + w).
Proof.
  intros H. rewrite setbits_above by exact H. rewrite pow2_add.
  assert (v mod 2 ^ w < 2 ^ w) by (apply N.mod_lt; apply N.pow_nonzero; discriminate). nia.
Qed.

(* one entry: memory m (agreeing with V below mx) is zeroed from `offset` up to at least `e` (m2), then the bit range
   [pos, pos+width) is written (m'); every byte between the old high-water mark and the new one is zeroed or written *)
Lemma step_agree m m2 m' V offset mx e pos width val E' F :
  agrees m V mx -> offset <= mx -> F <= 8 * offset -> V < 2 ^ F -> F <= pos ->
  (forall k, N.testbit m2 k = N.testbit m k \/ (8 * offset <= k /\ N.testbit m2 k = false)) ->
  (forall k, 8 * offset <= k -> k < 8 * e -> N.testbit m2 k = false) ->
  (forall k, N.testbit m' k = if (pos <=? k) && (k <? pos + width) then N.testbit val (k - pos) else N.testbit m2 k) ->
  (forall k, 8 * mx <= k -> k < 8 * E' -> (8 * offset <= k /\ k < 8 * e) \/ (pos <= k /\ k < pos + width)) ->
  agrees m' (setbits V pos width val) (N.max mx E').
Proof.
  intros Hag Hom HF HV HFp Hz1 Hz2 Hw Hcov k Hk. rewrite Hw, setbits_spec.
  destruct ((pos <=? k) && (k <? pos + width)) eqn:Ein; [reflexivity|].
  destruct (N.lt_ge_cases k (8 * offset)) as [Hlo|Hhi].
  - destruct (Hz1 k) as [->|[Hc _]]; [apply Hag; lia|lia].
  - rewrite (small_bits_high V F k HV) by lia.
    destruct (N.lt_ge_cases k (8 * mx)) as [Hkm|Hkm].
    + destruct (Hz1 k) as [->|[_ ->]]; [|reflexivity]. rewrite (Hag k Hkm). apply (small_bits_high V F k HV). lia.
    + assert (HkE : k < 8 * E') by lia.
      destruct (Hcov k Hkm HkE) as [[H1 H2]|[H1 H2]]; [apply Hz2; assumption|].
      apply andb_false_iff in Ein. destruct Ein as [Ein|Ein]; [apply N.leb_gt in Ein|apply N.ltb_ge in Ein]; lia.
Qed.

(* ------------------------------------------------------------------------------ string element stores *)
Lemma testbit_add_pow a b p x : a < 2 ^ p -> N.testbit (a + 2 ^ p * b) x = if x <? p then N.testbit a x else N.testbit b (x - p).
Proof.
  intros H. rewrite (N.mul_comm (2 ^ p) b), <- lor_add_disjoint by exact H. rewrite N.lor_spec.
  destruct (N.ltb_spec x p) as [Hx|Hx].
  - rewrite N.mul_pow2_bits_low by exact Hx. apply orb_false_r.
  - rewrite (small_bits_high a p x H Hx). rewrite N.mul_pow2_bits_high by exact Hx. reflexivity.
Qed.

Lemma string_stores_spec en w start len : 0 < w -> w <= 4 -> (start + len) * 8 < M64 ->
  forall data i ops j, string_stores w data start len i = (ops, j) -> i * w < len + w ->
  i <= j /\ j <= i + N.of_nat (length data) /\ j * w < len + w /\ (j < i + N.of_nat (length data) -> len <= j * w) /\
  Forall op_ok ops /\
  forall m x, N.testbit (exec_all en m ops) x =
    if (8 * (start + i * w) <=? x) && (x <? 8 * (start + j * w))
    then N.testbit (strnum w (firstn (N.to_nat (j - i)) data)) (x - 8 * (start + i * w)) else N.testbit m x.
Proof.
  intros Hw Hw4 Hb. assert (HM : M64 = 18446744073709551616) by reflexivity.
  induction data as [|c r IH]; intros i ops j E Hi.
  - cbn [string_stores] in E. inversion E; subst. cbn [length]. change (N.of_nat 0) with 0.
    split; [lia|]. split; [lia|]. split; [lia|]. split; [lia|]. split; [constructor|]. intros m x.
    cbn [exec_all fold_left]. destruct (N.leb_spec (8 * (start + j * w)) x), (N.ltb_spec x (8 * (start + j * w))); cbn [andb]; try reflexivity; lia.
  - cbn [string_stores] in E. rewrite (w64_small (i * w)) in E by lia.
    destruct (N.ltb_spec (i * w) len) as [Hlt|Hge].
    + destruct (string_stores w r start len (i + 1)) as [ops' j'] eqn:E'. inversion E; subst ops j. clear E.
      rewrite (w64_small (start + i * w)) by lia.
      destruct (IH (i + 1) ops' j' E' ltac:(lia)) as (H1 & H2 & H3 & H4 & H5 & H6).
      cbn [length]. rewrite Nat2N.inj_succ.
      split; [lia|]. split; [lia|]. split; [exact H3|]. split; [intros H; apply H4; lia|].
      split; [constructor; [exact I|exact H5]|]. intros m x.
      change (exec_all en m (AStore (start + i * w) w (VConst c) :: ops')) with (exec_all en (exec en m (AStore (start + i * w) w (VConst c))) ops').
      rewrite H6. rewrite exec_bit by exact I. cbn [op_pos op_width op_val aval_num].
      replace (N.to_nat (j' - i)) with (Datatypes.S (N.to_nat (j' - (i + 1)))) by lia.
      cbn [firstn strnum].
      assert (Hc : c mod 2 ^ (8 * w) < 2 ^ (8 * w)) by (apply N.mod_lt; apply N.pow_nonzero; discriminate).
      destruct (N.leb_spec (8 * (start + (i + 1) * w)) x) as [Ha|Ha]; cbn [andb].
      * rewrite (proj2 (N.leb_le (8 * (start + i * w)) x)) by lia. cbn [andb].
        destruct (N.ltb_spec x (8 * (start + j' * w))) as [Hb2|Hb2].
        -- rewrite testbit_add_pow by exact Hc. rewrite (proj2 (N.ltb_ge (x - 8 * (start + i * w)) (8 * w))) by lia.
           f_equal. lia.
        -- rewrite (proj2 (N.ltb_ge x (8 * (start + i * w) + 8 * w))) by lia. reflexivity.
      * destruct (N.leb_spec (8 * (start + i * w)) x) as [Hc2|Hc2]; cbn [andb].
        -- rewrite (proj2 (N.ltb_lt x (8 * (start + i * w) + 8 * w))) by lia.
           rewrite (proj2 (N.ltb_lt x (8 * (start + j' * w)))) by nia.
           rewrite testbit_add_pow by exact Hc. rewrite (proj2 (N.ltb_lt (x - 8 * (start + i * w)) (8 * w))) by lia.
           symmetry. apply N.mod_pow2_bits_low. lia.
        -- reflexivity.
    + inversion E; subst ops j. clear E. cbn [length]. rewrite Nat2N.inj_succ.
      split; [lia|]. split; [lia|]. split; [lia|]. split; [lia|]. split; [constructor|]. intros m x.
      cbn [exec_all fold_left]. destruct (N.leb_spec (8 * (start + i * w)) x), (N.ltb_spec x (8 * (start + i * w))); cbn [andb]; try reflexivity; lia.
Qed.

(* --------------------------------------------------------------------- well-formed entries (automatic) *)
Definition wf_auto (i : init) : Prop :=
  i_start i < i_end i /\ i_end i * 8 < M64 /\
  let b := bf_before (i_bits i) in let a := bf_after (i_bits i) in
  match i_expr i with
  | EConst _ sz _ => sz = i_end i - i_start i /\ b + a < 8 * sz /\ (isbf i = false \/ sz <= 8)
  | EAddr _ _ => i_end i - i_start i = 8 /\ isbf i = false
  | EString w data => (w = 1 \/ w = 2 \/ w = 4) /\ (i_end i - i_start i) mod w = 0 /\ isbf i = false
  | EOpaque agg sz al _ => sz = i_end i - i_start i /\ b + a < 8 * sz /\
                           (if agg then isbf i = false /\ copy_len sz al = sz else isbf i = false \/ sz <= 8)
  end.

Lemma wf_auto_ranges i : wf_auto i ->
  bstart i = i_start i * 8 + bf_before (i_bits i) /\ bend i = i_end i * 8 - bf_after (i_bits i) /\
  bstart i < bend i /\ bf_before (i_bits i) + bf_after (i_bits i) < 8 * (i_end i - i_start i).
Proof.
  intros (Hse & Hm & H). unfold bstart, bend, w64, sub64.
  assert (Hba : bf_before (i_bits i) + bf_after (i_bits i) < 8 * (i_end i - i_start i)).
  { destruct (i_expr i); cbv zeta in H.
    - destruct H as (-> & H & _). exact H.
    - destruct H as (_ & _ & H). apply isbf_false in H. lia.
    - destruct H as (_ & H). apply isbf_false in H. lia.
    - destruct H as (-> & H & _). exact H. }
  assert (M64 = 18446744073709551616) by reflexivity.
  rewrite (N.mod_small (i_start i * 8 + _)) by lia.
  rewrite (N.mod_small (i_end i * 8)) by lia.
  rewrite (N.mod_small (bf_after _)) by lia.
  replace (i_end i * 8 + (M64 - bf_after (i_bits i))) with ((i_end i * 8 - bf_after (i_bits i)) + 1 * M64) by lia.
  rewrite N.mod_add by lia. rewrite N.mod_small by lia. repeat split; lia.
Qed.

Lemma zeroed_nil en x : zeroed en [] x x.
Proof.
  intros mem k. cbn [exec_all fold_left]. destruct (N.leb_spec (8 * x) k), (N.ltb_spec k (8 * x)); cbn [andb]; try reflexivity; lia.
Qed.

(* the two zero() calls before an entry, as one fact about the memory *)
Lemma zero_phase en m offset zs1 f1 zs2 f2 :
  zeroed en zs1 offset f1 -> zeroed en zs2 offset f2 -> offset <= f1 -> offset <= f2 ->
  let m2 := exec_all en m (zs1 ++ zs2) in
  (forall k, N.testbit m2 k = N.testbit m k \/ (8 * offset <= k /\ N.testbit m2 k = false)) /\
  (forall k, 8 * offset <= k -> k < 8 * N.max f1 f2 -> N.testbit m2 k = false).
Proof.
  intros Z1 Z2 H1 H2 m2. unfold m2. split; intros k.
  - rewrite exec_all_app, Z2, Z1.
    destruct (N.leb_spec (8 * offset) k); cbn [andb]; [|left; reflexivity].
    destruct (k <? 8 * f2); [right; split; [assumption|reflexivity]|].
    destruct (k <? 8 * f1); [right; split; [assumption|reflexivity]|left; reflexivity].
  - intros Hk1 Hk2. rewrite exec_all_app, Z2, Z1. rewrite (proj2 (N.leb_le (8 * offset) k) Hk1). cbn [andb].
    destruct (N.ltb_spec k (8 * f2)); [reflexivity|]. rewrite (proj2 (N.ltb_lt k (8 * f1))) by lia. reflexivity.
Qed.

Lemma max_if a b : (if a <? b then b else a) = N.max a b.
Proof. destruct (N.ltb_spec a b); lia. Qed.

(* a string entry writes the first n elements; the specification's write (truncate / zero-extend to the array)
   changes the same bits because everything from the array's start upwards is still zero in V *)
Lemma string_write_eq V F start len w data n :
  V < 2 ^ F -> F <= 8 * start -> 0 < w -> n = N.min (N.of_nat (length data)) (len / w) -> len = w * (len / w) ->
  setbits V (8 * start) (8 * len) (strnum w data) = setbits V (8 * start) (8 * (n * w)) (strnum w (firstn (N.to_nat n) data)).
Proof.
  intros HV HF Hw Hn Hlen. apply N.bits_inj. intros k. rewrite !setbits_spec.
  destruct (N.leb_spec (8 * start) k) as [H1|H1]; cbn [andb]; [|reflexivity].
  assert (Hnk : n * w <= len).
  { pose proof (N.le_min_r (N.of_nat (length data)) (len / w)) as Hm. rewrite <- Hn in Hm. remember (len / w) as q. clear Heqq. nia. }
  destruct (N.ltb_spec k (8 * start + 8 * (n * w))) as [H2|H2].
  - rewrite (proj2 (N.ltb_lt k (8 * start + 8 * len))) by lia.
    rewrite <- strnum_firstn, N2Nat.id. symmetry. apply N.mod_pow2_bits_low. lia.
  - destruct (N.ltb_spec k (8 * start + 8 * len)) as [H3|H3]; [|reflexivity].
    rewrite (small_bits_high V F k HV) by lia.
    destruct (N.min_spec (N.of_nat (length data)) (len / w)) as [[Hlt E]|[Hge E]]; rewrite E in Hn.
    + apply (small_bits_high _ _ _ (strnum_lt w data)). subst n. lia.
    + exfalso. subst n. nia.
Qed.

Lemma entry_op_spec en i : wf_auto i -> (forall w d, i_expr i <> EString w d) ->
  op_ok (entry_op i) /\ op_pos (entry_op i) = bstart i /\ op_width (entry_op i) = bend i - bstart i /\
  op_val en (entry_op i) = payload_num en (payload_of (i_expr i)).
Proof.
  intros Hwf Hns. destruct (wf_auto_ranges i Hwf) as (Hbs & Hbe & Hne & Hba). destruct Hwf as (Hse & Hm & H).
  unfold entry_op. fold (isbf i). set (b := bf_before (i_bits i)) in *. set (a := bf_after (i_bits i)) in *.
  destruct (i_expr i) as [isflt sz u|w data|sym off|agg sz al id]; cbv zeta in H.
  - destruct H as (-> & Hlt & Hc). destruct (isbf i) eqn:E.
    + destruct Hc as [Hc|Hc]; [discriminate|]. cbn [op_ok op_pos op_width op_val payload_of payload_num].
      split; [lia|]. split; [lia|]. split; [lia|]. destruct isflt; reflexivity.
    + apply isbf_false in E. fold b a in E. destruct E as [Eb Ea].
      cbn [op_ok op_pos op_width op_val payload_of payload_num].
      split; [exact I|]. split; [lia|]. split; [lia|]. destruct isflt; reflexivity.
  - exfalso. eapply Hns. reflexivity.
  - destruct H as (H8 & E). rewrite E. apply isbf_false in E. fold b a in E. destruct E as [Eb Ea].
    cbn [op_ok op_pos op_width op_val aval_of aval_num payload_of payload_num].
    split; [exact I|]. split; [lia|]. split; [lia|]. unfold w64. rewrite M64_pow. reflexivity.
  - destruct H as (-> & Hlt & Hc). destruct agg.
    + destruct Hc as (E & Hcl). apply isbf_false in E. fold b a in E. destruct E as [Eb Ea].
      cbn [op_ok op_pos op_width op_val payload_of payload_num]. rewrite Hcl.
      split; [exact I|]. split; [lia|]. split; [lia|]. reflexivity.
    + destruct (isbf i) eqn:E.
      * destruct Hc as [Hc|Hc]; [discriminate|]. cbn [op_ok op_pos op_width op_val aval_num payload_of payload_num].
        split; [lia|]. split; [lia|]. split; [lia|]. reflexivity.
      * apply isbf_false in E. fold b a in E. destruct E as [Eb Ea].
        cbn [op_ok op_pos op_width op_val aval_num payload_of payload_num].
        split; [exact I|]. split; [lia|]. split; [lia|]. reflexivity.
Qed.

Lemma funcinit_loop_ok en align : (exists k, align = 2 ^ k) -> forall l offset mx acc V F,
  Forall wf_auto l -> sorted_disjoint l -> Forall (fun i => F <= bstart i) l ->
  offset <= mx -> F <= 8 * offset -> V < 2 ^ F ->
  (forall mem0, agrees (exec_all en mem0 acc) V mx) ->
  exists ops mx', funcinit_loop align l offset mx acc = (AOk ops, mx') /\
     fold_left (write en) (map leaf_of l) V < 2 ^ (8 * mx') /\
     (forall mem0, agrees (exec_all en mem0 ops) (fold_left (write en) (map leaf_of l) V) mx').
Proof.
  intros Hal. assert (HM : M64 = 18446744073709551616) by reflexivity.
  induction l as [|cur rest IH]; intros offset mx acc V F Hwf Hsd HF Hom HFo HV Hag.
  - exists acc, mx. cbn [funcinit_loop map fold_left]. split; [reflexivity|]. split; [|exact Hag].
    eapply N.lt_le_trans; [exact HV|]. apply N.pow_le_mono_r; [discriminate|lia].
  - apply Forall_cons_iff in Hwf. destruct Hwf as [Hwc Hwr]. apply StronglySorted_inv in Hsd. destruct Hsd as [Hsr Hbr].
    apply Forall_cons_iff in HF. destruct HF as [HFc HFr].
    destruct (wf_auto_ranges cur Hwc) as (Hbs & Hbe & Hne & Hba). pose proof Hwc as (Hse & Hm & Hexp).
    cbn [funcinit_loop map fold_left].
    destruct (zero_ops_spec en align offset (i_start cur) acc Hal) as (zs1 & f1 & Ez1 & Hf1 & Hf1e & _ & Z1).
    rewrite Ez1.
    assert (HVs : V < 2 ^ bstart cur) by (eapply N.lt_le_trans; [exact HV|]; apply N.pow_le_mono_r; [discriminate|exact HFc]).
    destruct (i_expr cur) as [isflt sz u|w data|sym off|agg sz al id] eqn:Eexp.
    2: { (* ---- a string literal: element stores *)
      cbv zeta in Hexp. destruct Hexp as (Hw & Hmod & Ebf). apply isbf_false in Ebf. destruct Ebf as [Eb Ea].
      rewrite sub64_small by lia. set (len := i_end cur - i_start cur) in *.
      assert (Hw0 : 0 < w /\ w <= 4) by (destruct Hw as [->|[->| ->]]; lia). destruct Hw0 as [Hw0 Hw4].
      destruct (string_stores w data (i_start cur) len 0) as [sops n] eqn:Ess.
      destruct (string_stores_spec en w (i_start cur) len Hw0 Hw4 ltac:(unfold len; lia) data 0 sops n Ess ltac:(lia))
        as (_ & Hn1 & Hn2 & Hn3 & Hok & Hbits).
      set (q := len / w). assert (Hlen : len = w * q).
      { pose proof (N.div_mod len w ltac:(lia)) as E. rewrite Hmod, N.add_0_r in E. exact E. }
      assert (Hnq : n <= q) by nia.
      assert (Hnmin : n = N.min (N.of_nat (length data)) q).
      { destruct (N.lt_ge_cases n (N.of_nat (length data))) as [Hlt|Hge].
        - specialize (Hn3 ltac:(lia)). assert (n = q) by nia. lia.
        - lia. }
      rewrite (w64_small (n * w)) by nia. rewrite (w64_small (i_start cur + n * w)) by nia.
      rewrite max_if.
      set (V' := write en V (leaf_of cur)).
      assert (EV' : V' = setbits V (8 * i_start cur) (8 * (n * w)) (strnum w (firstn (N.to_nat n) data))).
      { unfold V', write, leaf_of. cbn [l_pos l_width l_val]. rewrite Eexp. cbn [payload_of payload_num].
        replace (bstart cur) with (8 * i_start cur) by lia. replace (bend cur - 8 * i_start cur) with (8 * len) by (unfold len; lia).
        eapply string_write_eq; [exact HV|lia|exact Hw0|exact Hnmin|exact Hlen]. }
      destruct (IH (i_start cur + n * w) (N.max mx (i_start cur + n * w)) ((acc ++ zs1) ++ sops) V' (8 * i_start cur + 8 * (n * w)))
        as (ops & mx' & Eops & Hlt & Hag').
      - exact Hwr.
      - exact Hsr.
      - rewrite Forall_forall in Hbr |- *. intros i Hi. specialize (Hbr i Hi). unfold before in Hbr. nia.
      - lia.
      - lia.
      - rewrite EV'. apply setbits_lt. eapply N.lt_le_trans; [exact HV|]. apply N.pow_le_mono_r; [discriminate|lia].
      - intros mem0. rewrite !exec_all_app. rewrite EV'.
        destruct (zero_phase en (exec_all en mem0 acc) offset zs1 f1 [] offset Z1 (zeroed_nil en offset) Hf1 (N.le_refl _)) as [P1 P2].
        rewrite app_nil_r in P1, P2. replace (N.max f1 offset) with f1 in P2 by lia.
        eapply (step_agree _ _ _ V offset mx f1 (8 * i_start cur) (8 * (n * w)) _ (i_start cur + n * w) F (Hag mem0) Hom HFo HV ltac:(lia) P1 P2).
        + intros k. rewrite Hbits. rewrite !N.mul_0_l, !N.add_0_r, N.sub_0_r.
          replace (8 * (i_start cur + n * w)) with (8 * i_start cur + 8 * (n * w)) by lia. reflexivity.
        + intros k Hk1 Hk2. destruct (N.lt_ge_cases k (8 * i_start cur)) as [Hks|Hks]; [left|right; lia].
          split; [lia|]. assert (offset < i_start cur) by lia. specialize (Hf1e H). lia.
      - exists ops, mx'. split; [exact Eops|]. split; assumption. }
    all: (* ---- every other entry: [zero the unit of a bit-field,] one store *)
      assert (Hns : forall w d, i_expr cur <> EString w d) by (intros w' d'; rewrite Eexp; discriminate);
      destruct (entry_op_spec en cur Hwc Hns) as (Hok & Hpos & Hwid & Hval);
      fold (isbf cur);
      assert (Ez2 : exists zs2 f2, (if (offset <? i_end cur) && isbf cur then zero_ops align offset (i_end cur) (acc ++ zs1) else AOk (acc ++ zs1))
                                   = AOk ((acc ++ zs1) ++ zs2) /\ offset <= f2 /\ zeroed en zs2 offset f2 /\
                                   (isbf cur = true -> offset < i_end cur -> i_end cur <= f2))
        by (destruct ((offset <? i_end cur) && isbf cur) eqn:Ec;
            [ destruct (zero_ops_spec en align offset (i_end cur) (acc ++ zs1) Hal) as (zs2 & f2 & E2 & Hf2 & Hf2e & _ & Z2);
              exists zs2, f2; split; [exact E2|]; split; [exact Hf2|]; split; [exact Z2|]; intros _ Hlt; apply Hf2e; exact Hlt
            | exists [], offset; rewrite app_nil_r; split; [reflexivity|]; split; [lia|]; split; [apply zeroed_nil|];
              intros Hb Hlt; apply andb_false_iff in Ec; destruct Ec as [Ec|Ec]; [apply N.ltb_ge in Ec; lia|congruence] ]);
      destruct Ez2 as (zs2 & f2 & Ez2 & Hf2 & Z2 & Hf2e); rewrite Ez2; rewrite max_if;
      set (V' := write en V (leaf_of cur));
      assert (EV' : V' = setbits V (bstart cur) (bend cur - bstart cur) (op_val en (entry_op cur)))
        by (unfold V', write, leaf_of; cbn [l_pos l_width l_val]; rewrite Hval, Eexp; reflexivity);
      destruct (IH (i_end cur) (N.max mx (i_end cur)) (((acc ++ zs1) ++ zs2) ++ [entry_op cur]) V' (bend cur))
        as (ops & mx' & Eops & Hlt & Hag');
      [ exact Hwr | exact Hsr | exact Hbr | lia | lia
      | rewrite EV'; replace (bend cur) with (bstart cur + (bend cur - bstart cur)) at 2 by lia; apply setbits_lt; exact HVs
      | intros mem0; rewrite EV';
        destruct (zero_phase en (exec_all en mem0 acc) offset zs1 f1 zs2 f2 Z1 Z2 Hf1 Hf2) as [P1 P2];
        replace (exec_all en mem0 (((acc ++ zs1) ++ zs2) ++ [entry_op cur]))
          with (exec en (exec_all en (exec_all en mem0 acc) (zs1 ++ zs2)) (entry_op cur))
          by (rewrite <- (app_assoc acc zs1 zs2), !exec_all_app; reflexivity);
        eapply (step_agree _ _ _ V offset mx (N.max f1 f2) (bstart cur) (bend cur - bstart cur) _ (i_end cur) F (Hag mem0) Hom HFo HV HFc);
        [ exact P1
        | exact P2
        | intros k; rewrite exec_bit by exact Hok; rewrite Hpos, Hwid; reflexivity
        | intros k Hk1 Hk2; destruct (isbf cur) eqn:Eb;
          [ left; split; [lia|]; assert (offset < i_end cur) by lia; specialize (Hf2e eq_refl H); lia
          | apply isbf_false in Eb; destruct Eb as [Eb Ea];
            destruct (N.lt_ge_cases k (bstart cur)) as [Hks|Hks]; [left|right; lia];
            split; [lia|]; assert (offset < i_start cur) by lia; specialize (Hf1e H); lia ] ]
      | exists ops, mx'; split; [exact Eops|]; split; assumption ].
Qed.

(* HEADLINE: for a sorted list of non-overlapping well-formed entries funcinit terminates (every zero() within its
   fuel, every store opcode in the table) and, whatever the memory held before, the stores leave exactly the
   specified image in the object's `size` bytes: gaps, array tails, bit-field neighbours and padding are zero;
   the overshoot of zero() beyond a gap only ever clears bytes that are stored or cleared again later. *)
Theorem funcinit_image_partial en size align l :
  (exists k, align = 2 ^ k) -> Forall wf_auto l -> sorted_disjoint l ->
  exists ops, funcinit size align l = AOk ops /\
    forall mem0, exec_all en mem0 ops mod 2 ^ (8 * size) = image en size (map leaf_of l).
Proof.
  intros Hal Hwf Hsd. unfold funcinit.
  destruct (funcinit_loop_ok en align Hal l 0 0 [] 0 0 Hwf Hsd) as (ops1 & mx' & E1 & Hlt & Hag).
  - rewrite Forall_forall. intros i _. lia.
  - lia.
  - lia.
  - change (2 ^ 0) with 1. lia.
  - intros mem0 k Hk. lia.
  - rewrite E1. destruct (zero_ops_spec en align mx' size ops1 Hal) as (zs & f & Ez & Hf & Hfe & _ & Z).
    exists (ops1 ++ zs). split; [exact Ez|]. intros mem0. unfold image, overlay.
    set (V' := fold_left (write en) (map leaf_of l) 0) in *.
    apply N.bits_inj. intros k. destruct (N.lt_ge_cases k (8 * size)) as [Hk|Hk].
    + rewrite !N.mod_pow2_bits_low by exact Hk. rewrite exec_all_app, Z.
      destruct (N.lt_ge_cases k (8 * mx')) as [Hkm|Hkm].
      * rewrite (proj2 (N.leb_gt (8 * mx') k)) by exact Hkm. cbn [andb]. apply Hag. exact Hkm.
      * rewrite (small_bits_high V' (8 * mx') k Hlt Hkm).
        rewrite (proj2 (N.leb_le (8 * mx') k)) by exact Hkm. assert (mx' < size) by lia. specialize (Hfe H).
        rewrite (proj2 (N.ltb_lt k (8 * f))) by lia. reflexivity.
    + rewrite !N.mod_pow2_bits_high by exact Hk. reflexivity.
Qed.

Lemma wf_entry_auto i : wf_entry i -> wf_auto i.
Proof.
  intros (H1 & H2 & H). split; [exact H1|]. split; [exact H2|]. cbv zeta in *.
  destruct (i_expr i); try exact H.
  - destruct H as (A & B & [C|[_ C]]); split; auto.
  - contradiction.
Qed.

(* With an entry nested in an earlier one (a string or struct value, then an override of one of its elements)
   the statement is FALSE: `offset` moves backwards to the end of the nested entry and the next gap is zeroed
   from there, wiping what the covering entry stored (finding funcinit-zero-after-covered-entry).
   Witness: struct S { char s[8]; int c; } x = { "abcdef", .s[1] = 'x', .c = 1 }; *)
Definition cover_list : list init :=
  [ mkinit 0 8 nobits (EString 1 [97; 98; 99; 100; 101; 102; 0]);
    mkinit 1 2 nobits (EConst false 1 120);
    mkinit 8 12 nobits (EConst false 4 1) ].

Theorem funcinit_image_refuted :
  exists en size align l, (exists k, align = 2 ^ k) /\ Forall wf_auto l /\ Inv l /\
    exists ops, funcinit size align l = AOk ops /\ exec_all en 0 ops mod 2 ^ (8 * size) <> image en size (map leaf_of l).
Proof.
  exists (mkenv (fun _ => 0) (fun _ => 0)), 12, 4, cover_list.
  split; [exists 2; reflexivity|]. split; [|split].
  - rewrite Forall_forall. intros i Hi. apply wf_entry_auto, wf_entryb_ok. revert i Hi. rewrite <- Forall_forall. repeat constructor.
  - unfold Inv, cover_list. constructor; [constructor; [repeat constructor|]|].
    + constructor; [|constructor]. left. vm_compute. intros HH; discriminate HH.
    + constructor; [|constructor; [|constructor]].
      * right. split; vm_compute; intros HH; discriminate HH.
      * left. vm_compute. intros HH; discriminate HH.
  - eexists. split; [vm_compute; reflexivity|]. vm_compute. intros HH; discriminate HH.
Qed.

(* non-vacuity of funcinit_image_partial: the list of emitdata_image_nonvacuous (bit-fields sharing a unit, gaps,
   a short string, an address) as an automatic object of 40 bytes aligned to 8 *)
Example funcinit_image_nonvacuous :
  Forall wf_auto ex_list /\ sorted_disjoint ex_list /\
  exists ops, funcinit 40 8 ex_list = AOk ops /\ length ops = 17%nat /\
    exec_all (mkenv (fun s => 4096 * s) (fun _ => 0)) (2 ^ 400 - 1) ops mod 2 ^ 320 =
    image (mkenv (fun s => 4096 * s) (fun _ => 0)) 40 (map leaf_of ex_list).
Proof.
  split; [|split].
  - rewrite Forall_forall. intros i Hi. apply wf_entry_auto, wf_entryb_ok. revert i Hi. rewrite <- Forall_forall. repeat constructor.
  - apply sortedb_ok. vm_compute. reflexivity.
  - eexists. split; [vm_compute; reflexivity|]. split; vm_compute; reflexivity.
Qed.

(* END TO END for automatic objects, same hypotheses: the object holds the image of the leaf writes in source order *)
Theorem auto_image en size align l src :
  built l src -> (exists k, align = 2 ^ k) -> Forall wf_auto l -> sorted_disjoint l ->
  exists ops, funcinit size align l = AOk ops /\
    forall mem0, exec_all en mem0 ops mod 2 ^ (8 * size) = image en size (map leaf_of src).
Proof.
  intros Hb Hal Hwf Hsd. destruct (funcinit_image_partial en size align l Hal Hwf Hsd) as (ops & E & H).
  exists ops. split; [exact E|]. intros mem0. rewrite H. unfold image.
  change (overlay en (map leaf_of l)) with (denote en l). rewrite (built_denote en l src Hb). reflexivity.
Qed.
