(* C02 - what proof can contribute to "stage 2 behaves like stage 1".

   There is NO theorem here that quantifies over all inputs of the real stage-2 compiler: that would be a
   complete compiler-correctness proof of cproc for its own source.  The decision of C02 is translation
   validation (props/c02.py).  What is proved:

   * the behaviour of a program given as IL is a FUNCTION of the IL ([il_behaviour_functional], from
     [Qbe.run] being a Gallina function): "the behaviour of stage 2" is well defined by stage 1's IL for the
     compiler's sources, and two stages whose IL is byte-identical are the same program;
   * an abstract bootstrap chain stage 1 -> stage 2 -> stage 3 -> ... over ANY deterministic execution
     function: when stage 2 reproduces stage 1's output on the (finitely many) sources of the compiler itself
     - the fixed point the harness checks byte for byte on every run - then every later stage is
     extensionally equal to stage 2 on ALL inputs ([fixed_point_stable], [bootstrap_chain_stable]);
   * without that hypothesis the chain may drift ([stage_drift], a counter-model), so the hypothesis is needed;
   * agreement on a finite input set ([equiv_on]) is an equivalence, is monotone, and transfers along the chain. *)
From Coq Require Import List Arith Lia.
From Cproc Require Import Model.Qbe.
Import ListNotations.

(* ------------------------------------------------------------------ agreement on a set of inputs *)
Definition equiv_on {input output : Type} (s1 s2 : input -> output) (I : list input) : Prop :=
  forall i, In i I -> s1 i = s2 i.

Lemma equiv_on_refl {A B} (s : A -> B) I : equiv_on s s I.
Proof. intros i _; reflexivity. Qed.

Lemma equiv_on_sym {A B} (s1 s2 : A -> B) I : equiv_on s1 s2 I -> equiv_on s2 s1 I.
Proof. intros H i Hi; symmetry; auto. Qed.

Lemma equiv_on_trans {A B} (s1 s2 s3 : A -> B) I : equiv_on s1 s2 I -> equiv_on s2 s3 I -> equiv_on s1 s3 I.
Proof. intros H1 H2 i Hi; rewrite H1, H2; auto. Qed.

Lemma equiv_on_incl {A B} (s1 s2 : A -> B) I J : incl J I -> equiv_on s1 s2 I -> equiv_on s1 s2 J.
Proof. intros HJ H i Hi; auto. Qed.

Lemma equiv_on_app {A B} (s1 s2 : A -> B) I J : equiv_on s1 s2 I -> equiv_on s1 s2 J -> equiv_on s1 s2 (I ++ J).
Proof. intros H1 H2 i Hi; apply in_app_or in Hi; destruct Hi; auto. Qed.

Lemma equiv_on_app_inv {A B} (s1 s2 : A -> B) I J : equiv_on s1 s2 (I ++ J) -> equiv_on s1 s2 I /\ equiv_on s1 s2 J.
Proof. intros H; split; intros i Hi; apply H, in_or_app; auto. Qed.

(* ------------------------------------------------------------------ the bootstrap chain *)
Section Bootstrap.
  (* source files of the compiler, inputs (a file plus the target option), outputs (stdout, stderr, status),
     IL text of one translation unit, linked programs *)
  Variables source input output il program : Type.
  Variable inp : source -> input.            (* the compiler's own source file as an input, with the host target option *)
  Variable il_of : output -> il.             (* the IL a run of the compiler wrote (anything if the run failed) *)
  Variable link : list il -> program.
  Variable exec : program -> input -> output. (* deterministic execution of a linked program: a function *)
  Variable srcs : list source.               (* the SRC list of the Makefile *)
  Variable stage1 : input -> output.         (* the compiler as built by the reference C compiler *)

  (* building the compiler with a compiler [c] *)
  Definition build (c : input -> output) : program :=
    link (map (fun s => il_of (c (inp s))) srcs).

  Fixpoint stage (n : nat) : input -> output :=
    match n with
    | O => stage1
    | S k => exec (build (stage k))
    end.
  (* stage 0 is the reference build ("stage 1" of the Makefile), stage 1 is "stage 2", ... *)

  Lemma build_ext c1 c2 : equiv_on c1 c2 (map inp srcs) -> build c1 = build c2.
  Proof.
    intros H. unfold build. f_equal. apply map_ext_in. intros s Hs.
    rewrite (H (inp s)); [reflexivity | apply in_map; exact Hs].
  Qed.

  (* the check (a) of the harness: the self-compiled compiler reproduces the reference output on its own sources *)
  Definition fixed_point : Prop := equiv_on (stage 1) (stage 0) (map inp srcs).

  Theorem fixed_point_stable : fixed_point -> forall i, stage 2 i = stage 1 i.
  Proof.
    intros H i. change (exec (build (stage 1)) i = exec (build (stage 0)) i).
    rewrite (build_ext _ _ H). reflexivity.
  Qed.

  Theorem bootstrap_chain_stable : fixed_point -> forall n i, stage (S n) i = stage 1 i.
  Proof.
    intros H. induction n as [|n IH]; intros i; [reflexivity|].
    change (exec (build (stage (S n))) i = exec (build (stage 0)) i).
    assert (E : build (stage (S n)) = build (stage 0)).
    { apply build_ext. intros j Hj. rewrite IH. apply H. exact Hj. }
    rewrite E. reflexivity.
  Qed.

  (* the IL of every later stage for the compiler's sources equals stage 1's: "cmp stage2 stage3" succeeds *)
  Corollary bootstrap_programs_equal : fixed_point -> forall n, build (stage n) = build (stage 0).
  Proof.
    intros H [|n]; [reflexivity|]. apply build_ext. intros j Hj.
    rewrite (bootstrap_chain_stable H n j). apply H. exact Hj.
  Qed.

  (* what was observed between the reference build and stage 2 on a corpus holds for every later stage *)
  Corollary equiv_on_transfers I :
    fixed_point -> equiv_on (stage 0) (stage 1) I -> forall n, equiv_on (stage 0) (stage (S n)) I.
  Proof.
    intros H HI n i Hi. rewrite (bootstrap_chain_stable H n i). apply HI. exact Hi.
  Qed.
End Bootstrap.

(* ------------------------------------------------------------------ satisfiable, and needed *)
(* A model in which [exec] really depends on the program: only the program linked from the right IL behaves as
   the (identity) compiler.  The fixed point holds and is used. *)
Definition toy_exec (p : list nat) (i : nat) : nat :=
  if list_eq_dec Nat.eq_dec p [3; 5] then i else 0.

Example fixed_point_satisfiable :
  fixed_point nat nat nat nat (list nat) (fun s => s) (fun o => o) (fun l => l) toy_exec [3; 5] (fun i => i) /\
  stage nat nat nat nat (list nat) (fun s => s) (fun o => o) (fun l => l) toy_exec [3; 5] (fun i => i) 3 7 = 7.
Proof.
  split.
  - intros i Hi. simpl in Hi. destruct Hi as [<- | [<- | []]]; reflexivity.
  - reflexivity.
Qed.

(* A compiler that miscompiles itself (each generation adds one more than the last): stage 1 and stage 2 differ on
   the compiler's own source, and stage 3 differs from stage 2 - the hypothesis of [fixed_point_stable] is needed. *)
Definition drift_exec (p : list nat) (i : nat) : nat :=
  match p with [a] => i + a + 1 | _ => 0 end.

Example stage_drift :
  let st := stage nat nat nat nat (list nat) (fun s => s) (fun o => o) (fun l => l) drift_exec [0] (fun i => i + 1) in
  ~ fixed_point nat nat nat nat (list nat) (fun s => s) (fun o => o) (fun l => l) drift_exec [0] (fun i => i + 1) /\
  st 2 0 <> st 1 0.
Proof.
  split.
  - intros H. specialize (H 0 (or_introl eq_refl)). discriminate H.
  - discriminate.
Qed.

(* ------------------------------------------------------------------ the IL instance *)
(* "The behaviour of stage 2" = Qbe.run of the module obtained from stage 1's IL: a function of that module. *)
Theorem il_behaviour_functional :
  forall fo m1 m2 ext nglob entry fuel,
    m1 = m2 -> run fo m1 ext nglob entry fuel = run fo m2 ext nglob entry fuel.
Proof. intros; subst; reflexivity. Qed.

Theorem il_run_deterministic :
  forall fo m ext nglob entry fuel r1 r2,
    run fo m ext nglob entry fuel = r1 -> run fo m ext nglob entry fuel = r2 -> r1 = r2.
Proof. intros; congruence. Qed.
