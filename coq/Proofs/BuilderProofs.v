(* BuilderProofs.v - invariants of the block-list state machine of qbe.c (Model/Builder.v). *)
From Coq Require Import NArith PArith List Bool FMapPositive Lia.
From Cproc Require Import Model.Builder.
Import ListNotations.

(* ------------------------------------------------------------------ access lemmas *)
Lemma getb_add s s' b0 k : s_blocks s' = PM.add b0 k (s_blocks s) ->
  forall b, getb s' b = if Pos.eqb b0 b then k else getb s b.
Proof.
  intros E b. unfold getb. rewrite E. destruct (Pos.eqb_spec b0 b) as [->|N].
  - rewrite PM.gss. reflexivity.
  - rewrite PM.gso by congruence. reflexivity.
Qed.

Lemma getb_same s s' : s_blocks s' = s_blocks s -> forall b, getb s' b = getb s b.
Proof. intros E b. unfold getb. rewrite E. reflexivity. Qed.

(* ------------------------------------------------------------------ temporaries and late instructions *)
Definition TInv (s : bstate) : Prop :=
  (forall b t, In t (block_temps (getb s b)) -> (s_nparams s < Npos t <= s_lastid s)%N) /\
  (forall b, NoDup (block_temps (getb s b))) /\
  (forall b1 b2 t, b1 <> b2 -> In t (block_temps (getb s b1)) -> ~ In t (block_temps (getb s b2))) /\
  (forall b i, In i (k_insts (getb s b)) -> i_late i = false) /\
  (s_nparams s <= s_lastid s)%N.

Lemma TInv_ext s s' : s_blocks s' = s_blocks s -> s_lastid s' = s_lastid s -> s_nparams s' = s_nparams s -> TInv s -> TInv s'.
Proof.
  intros Eb El En (T1 & T2 & T3 & T4 & T5). unfold TInv. rewrite El, En.
  repeat split; intros; rewrite ?(getb_same _ _ Eb) in *; eauto; try (apply (T1 b t); auto); try (eapply T3; eauto).
Qed.

Lemma TInv_update s s' b0 k :
  TInv s ->
  s_blocks s' = PM.add b0 k (s_blocks s) -> s_nparams s' = s_nparams s -> (s_lastid s <= s_lastid s')%N ->
  (forall t, In t (block_temps k) -> In t (block_temps (getb s b0)) \/ (s_lastid s < Npos t <= s_lastid s')%N) ->
  NoDup (block_temps k) ->
  (forall i, In i (k_insts k) -> In i (k_insts (getb s b0)) \/ i_late i = false) ->
  TInv s'.
Proof.
  intros (T1 & T2 & T3 & T4 & T5) Eb En Le Hk ND Hi.
  pose proof (getb_add _ _ _ _ Eb) as G.
  assert (B : forall b t, In t (block_temps (getb s' b)) -> (s_nparams s < Npos t <= s_lastid s')%N).
  { intros b t. rewrite G. destruct (Pos.eqb_spec b0 b) as [->|N]; intros H.
    - destruct (Hk _ H) as [H1|H1]; [specialize (T1 _ _ H1)|]; lia.
    - specialize (T1 _ _ H). lia. }
  unfold TInv. rewrite En. repeat split.
  - apply (B b t H).
  - apply (B b t H).
  - intros b. rewrite G. destruct (Pos.eqb b0 b); auto.
  - intros b1 b2 t Nb. rewrite !G.
    destruct (Pos.eqb_spec b0 b1) as [<-|N1]; destruct (Pos.eqb_spec b0 b2) as [<-|N2]; try congruence.
    + intros H H2. destruct (Hk _ H) as [H1|H1]; [exact (T3 _ _ _ Nb H1 H2)|]. specialize (T1 _ _ H2). lia.
    + intros H H2. destruct (Hk _ H2) as [H1|H1]; [exact (T3 _ _ _ Nb H H1)|]. specialize (T1 _ _ H). lia.
    + apply T3; auto.
  - intros b i. rewrite G. destruct (Pos.eqb_spec b0 b) as [<-|N]; [|apply T4].
    intros H. destruct (Hi _ H) as [H1|H1]; auto. exact (T4 _ _ H1).
  - lia.
Qed.

Lemma TInv_mkblock s : TInv s -> TInv (fst (mkblock s)).
Proof.
  intros T. eapply (TInv_update s _ (N.succ_pos (s_labelid s)) empty_block T); simpl; try reflexivity; try lia;
    try (intros ? []); try constructor.
Qed.

Lemma TInv_funclabel s b : TInv s -> TInv (funclabel s b).
Proof. apply TInv_ext; reflexivity. Qed.

Lemma TInv_setjump s j : TInv s -> TInv (setjump s j).
Proof.
  intros T. unfold setjump. destruct (closed (k_jump (getb s (s_end s)))); auto.
  eapply (TInv_update s _ (s_end s) _ T); simpl; try reflexivity; try lia.
  - intros t H. left. exact H.
  - destruct T as (_ & T2 & _). apply (T2 (s_end s)).
  - intros i H. left. exact H.
Qed.

Lemma block_temps_snoc k r l :
  block_temps {| k_insts := k_insts k ++ [{| i_res := r; i_late := l |}]; k_jump := k_jump k; k_phi := k_phi k |}
  = block_temps k ++ match r with Some t => [t] | None => [] end.
Proof. unfold block_temps; simpl. rewrite flat_map_app. simpl. rewrite app_nil_r, app_assoc. reflexivity. Qed.

Lemma NoDup_snoc {A} (l : list A) x : NoDup l -> ~ In x l -> NoDup (l ++ [x]).
Proof.
  induction l as [|a l IH]; simpl; intros ND NI.
  - constructor; [intros []|constructor].
  - inversion ND; subst. constructor.
    + intros H. apply in_app_or in H. destruct H as [H|[H|[]]]; auto.
    + apply IH; auto.
Qed.

Lemma succ_pos_gt n : (n < Npos (N.succ_pos n))%N.
Proof. destruct n; simpl; lia. Qed.

(* appending an instruction (never late) to the end block *)
Lemma TInv_add_inst s hasres : TInv s -> TInv (add_inst s hasres false).
Proof.
  intros T. pose proof T as (T1 & T2 & T3 & T4 & T5). unfold add_inst.
  destruct hasres; simpl.
  - eapply (TInv_update s _ (s_end s) _ T); simpl; try reflexivity.
    + pose proof (succ_pos_gt (s_lastid s)). lia.
    + intros t. change (getb (fst (functemp s)) (s_end s)) with (getb s (s_end s)).
      rewrite block_temps_snoc. intros H. apply in_app_or in H. destruct H as [H|[<-|[]]].
      * left. exact H.
      * right. pose proof (succ_pos_gt (s_lastid s)). lia.
    + change (getb (fst (functemp s)) (s_end s)) with (getb s (s_end s)).
      rewrite block_temps_snoc. apply NoDup_snoc; [apply T2|].
      intros H. specialize (T1 _ _ H). pose proof (succ_pos_gt (s_lastid s)). lia.
    + intros i H. change (getb (fst (functemp s)) (s_end s)) with (getb s (s_end s)) in H.
      apply in_app_or in H. destruct H as [H|[<-|[]]]; auto.
  - eapply (TInv_update s _ (s_end s) _ T); simpl; try reflexivity; try lia.
    + intros t. rewrite block_temps_snoc, app_nil_r. auto.
    + rewrite block_temps_snoc, app_nil_r. apply T2.
    + intros i H. apply in_app_or in H. destruct H as [H|[<-|[]]]; auto.
Qed.

Lemma open_dead_open s : closed (k_jump (getb (open_dead s) (s_end (open_dead s)))) = false.
Proof.
  unfold open_dead. destruct (closed (k_jump (getb s (s_end s)))) eqn:Hc; auto.
  unfold getb; simpl. rewrite PM.gss. reflexivity.
Qed.

Lemma TInv_open_dead s : TInv s -> TInv (open_dead s).
Proof. intros T. unfold open_dead. destruct (closed _); auto. apply TInv_funclabel, TInv_mkblock; exact T. Qed.

Lemma TInv_funcinst s h : TInv s -> TInv (funcinst s h).
Proof. intros T. unfold funcinst. rewrite open_dead_open. apply TInv_add_inst, TInv_open_dead; exact T. Qed.

Lemma NoDup_app_r {A} (l r : list A) : NoDup (l ++ r) -> NoDup r.
Proof. induction l as [|a l IH]; simpl; auto. intros H. inversion H; auto. Qed.

Lemma TInv_phitemp s b : TInv s -> TInv (phitemp s b).
Proof.
  intros T. pose proof T as (T1 & T2 & T3 & T4 & T5). unfold phitemp; simpl.
  eapply (TInv_update s _ b _ T); simpl; try reflexivity.
  - pose proof (succ_pos_gt (s_lastid s)). lia.
  - intros t. unfold block_temps; simpl. intros [<-|H].
    + right. pose proof (succ_pos_gt (s_lastid s)). lia.
    + left. unfold getb at 1 in H. simpl in H. apply in_or_app. right. exact H.
  - unfold block_temps; simpl. constructor.
    + intros H. assert (H' : In (N.succ_pos (s_lastid s)) (block_temps (getb s b))).
      { unfold block_temps. apply in_or_app. right. exact H. }
      specialize (T1 _ _ H'). pose proof (succ_pos_gt (s_lastid s)). lia.
    + specialize (T2 b). unfold block_temps in T2. apply NoDup_app_r in T2. exact T2.
  - intros i H. left. exact H.
Qed.

Lemma TInv_step s o : TInv s -> TInv (bstep s o).
Proof.
  destruct o; simpl; intros T.
  - apply TInv_mkblock; auto.
  - apply TInv_funcinst; auto.
  - apply TInv_funclabel; auto.
  - apply TInv_setjump; auto.
  - apply TInv_setjump; auto.
  - apply TInv_setjump; auto.
  - apply TInv_setjump; auto.
  - apply TInv_phitemp; auto.
Qed.

Lemma getb_mkfunc n l b : getb (mkfunc n l) b = empty_block.
Proof.
  unfold getb, mkfunc; simpl. destruct (Pos.eq_dec (N.succ_pos l) b) as [<-|N].
  - rewrite PM.gss. reflexivity.
  - rewrite PM.gso by congruence. rewrite PM.gempty. reflexivity.
Qed.

Lemma TInv_mkfunc n l : TInv (mkfunc n l).
Proof.
  unfold TInv. repeat split; intros; rewrite ?getb_mkfunc in *; simpl in *; try contradiction; try constructor; try lia.
Qed.

Lemma TInv_run n l ops : TInv (run_ops n l ops).
Proof.
  unfold run_ops. induction ops as [|o ops IH] using rev_ind; simpl; [apply TInv_mkfunc|].
  rewrite fold_left_app. simpl. apply TInv_step. exact IH.
Qed.

(* ------------------------------------------------------------------ the list structure *)
Fixpoint chain (nxt : PM.t positive) (l : list positive) : Prop :=
  match l with
  | [] => False
  | a :: r => match r with
              | [] => PM.find a nxt = None
              | b :: _ => PM.find a nxt = Some b /\ chain nxt r end
  end.

Definition CInv (s : bstate) : Prop :=
  (exists r, s_placed s = s_start s :: r) /\
  last (s_placed s) (s_start s) = s_end s /\
  chain (s_next s) (s_placed s) /\
  (forall k, PM.find k (s_next s) <> None -> In k (s_placed s)).

Lemma last_in {A} : forall (l : list A) d, l <> [] -> In (last l d) l.
Proof.
  induction l as [|a l IH]; intros d H; [congruence|].
  destruct l as [|b l]; simpl; auto. right. apply (IH d). congruence.
Qed.

Lemma chain_snoc nxt : forall l e b,
  chain nxt l -> last l e = e -> l <> [] -> NoDup (l ++ [b]) -> PM.find b nxt = None ->
  chain (PM.add e b nxt) (l ++ [b]).
Proof.
  induction l as [|a l IH]; intros e b Hc Hl Hne ND Hb; [congruence|].
  destruct l as [|a2 l].
  - simpl in *. subst a. split; [apply PM.gss|].
    rewrite PM.gso; auto. inversion ND; subst. intros ->. apply H1. left. reflexivity.
  - simpl in Hc. destruct Hc as [H1 H2].
    change ((a :: a2 :: l) ++ [b]) with (a :: ((a2 :: l) ++ [b])).
    change (last (a :: a2 :: l) e) with (last (a2 :: l) e) in Hl.
    assert (Na : a <> e).
    { intros ->. inversion ND; subst. apply H3. change (In e ((a2 :: l) ++ [b])). apply in_or_app. left.
      rewrite <- Hl at 1. apply last_in. congruence. }
    change (chain (PM.add e b nxt) (a :: (a2 :: l) ++ [b]))
      with (PM.find a (PM.add e b nxt) = Some a2 /\ chain (PM.add e b nxt) ((a2 :: l) ++ [b])).
    split.
    + rewrite PM.gso by congruence. exact H1.
    + apply (IH e b); auto; try congruence. inversion ND; auto.
Qed.

Lemma NoDup_app_l {A} (l r : list A) : NoDup (l ++ r) -> NoDup l.
Proof. induction l as [|a l IH]; simpl; intros H; [constructor|]. inversion H; subst. constructor; auto. intros Hi. apply H2. apply in_or_app; auto. Qed.

Lemma last_snoc {A} (l : list A) x d : last (l ++ [x]) d = x.
Proof. induction l as [|a l IH]; simpl; auto. destruct (l ++ [x]) eqn:E; [destruct l; discriminate|]. exact IH. Qed.

Lemma CInv_funclabel s b : CInv s -> NoDup (s_placed s ++ [b]) -> CInv (funclabel s b).
Proof.
  intros ([r Hr] & Hl & Hc & Hk) ND. unfold CInv, funclabel; simpl.
  assert (Hb : PM.find b (s_next s) = None).
  { destruct (PM.find b (s_next s)) eqn:E; auto. exfalso.
    assert (Hin : In b (s_placed s)) by (apply Hk; congruence).
    clear - ND Hin. induction (s_placed s) as [|a l IH]; simpl in *; [contradiction|].
    inversion ND; subst. destruct Hin as [->|Hin]; auto. apply H1. apply in_or_app. right. left. reflexivity. }
  repeat split.
  - exists (r ++ [b]). rewrite Hr. reflexivity.
  - apply last_snoc.
  - apply chain_snoc; auto.
    + rewrite Hr in *. rewrite <- Hl at 2. destruct r; simpl; auto. clear. revert p. induction r; intros; simpl; auto.
    + rewrite Hr. discriminate.
  - intros k. destruct (Pos.eq_dec (s_end s) k) as [<-|N].
    + intros _. apply in_or_app. left. rewrite <- Hl. apply last_in. rewrite Hr. discriminate.
    + rewrite PM.gso by congruence. intros H. apply in_or_app. left. auto.
Qed.

Lemma CInv_ext s s' : s_next s' = s_next s -> s_start s' = s_start s -> s_end s' = s_end s -> s_placed s' = s_placed s ->
  CInv s -> CInv s'.
Proof. intros E1 E2 E3 E4. unfold CInv. rewrite E1, E2, E3, E4. auto. Qed.

(* placement history only grows *)
Lemma placed_prefix s o : exists r, s_placed (bstep s o) = s_placed s ++ r.
Proof.
  destruct o; simpl; try (exists []; rewrite app_nil_r; reflexivity).
  - unfold funcinst, open_dead, add_inst. destruct (closed (k_jump (getb s (s_end s)))); destruct hasres; simpl; eauto; exists []; rewrite app_nil_r; reflexivity.
  - eauto.
  - unfold setjump. destruct (closed _); exists []; rewrite app_nil_r; reflexivity.
  - unfold setjump. destruct (closed _); exists []; rewrite app_nil_r; reflexivity.
  - unfold setjump. destruct (closed _); exists []; rewrite app_nil_r; reflexivity.
  - unfold setjump. destruct (closed _); exists []; rewrite app_nil_r; reflexivity.
Qed.

Lemma CInv_setjump s j : CInv s -> CInv (setjump s j).
Proof. unfold setjump. destruct (closed _); auto; try (apply CInv_ext; reflexivity). Qed.

Lemma CInv_step s o : CInv s -> NoDup (s_placed (bstep s o)) -> CInv (bstep s o).
Proof.
  intros C. destruct o; simpl.
  - intros _. revert C. apply CInv_ext; reflexivity.
  - intros ND.
    assert (C1 : CInv (open_dead s)).
    { unfold open_dead in *. unfold funcinst, open_dead, add_inst in ND.
      destruct (closed (k_jump (getb s (s_end s)))); auto.
      apply CInv_funclabel; [revert C; apply CInv_ext; reflexivity|].
      destruct hasres; simpl in ND; exact ND. }
    unfold funcinst. revert C1. generalize (open_dead s). intros s1 C1.
    unfold add_inst. destruct hasres; simpl; revert C1; apply CInv_ext; reflexivity.
  - apply CInv_funclabel; auto.
  - intros _. apply CInv_setjump; auto.
  - intros _. apply CInv_setjump; auto.
  - intros _. apply CInv_setjump; auto.
  - intros _. apply CInv_setjump; auto.
  - intros _. revert C. apply CInv_ext; reflexivity.
Qed.

Lemma CInv_mkfunc n l : CInv (mkfunc n l).
Proof.
  unfold CInv, mkfunc; simpl. repeat split; eauto.
  - apply PM.gempty.
  - intros k. rewrite PM.gempty. congruence.
Qed.

Lemma CInv_run n l : forall ops, NoDup (s_placed (run_ops n l ops)) -> CInv (run_ops n l ops).
Proof.
  unfold run_ops. induction ops as [|o ops IH] using rev_ind; simpl; intros ND; [apply CInv_mkfunc|].
  rewrite fold_left_app in *. simpl in *.
  apply CInv_step; auto. apply IH.
  destruct (placed_prefix (fold_left bstep ops (mkfunc n l)) o) as [r E]. rewrite E in ND. eapply NoDup_app_l; eauto.
Qed.

(* the walk of emitfunc yields exactly the placed blocks *)
Lemma walk_chain s : forall l fuel, chain (s_next s) l -> (length l <= fuel)%nat ->
  match l with [] => True | a :: _ => walk fuel s a = Some (map (fun b => (b, getb s b)) l) end.
Proof.
  induction l as [|a l IH]; intros fuel Hc Hf; auto.
  destruct fuel as [|fuel]; [simpl in Hf; lia|].
  destruct l as [|b l]; simpl in *.
  - rewrite Hc. reflexivity.
  - destruct Hc as [H1 H2]. rewrite H1.
    specialize (IH fuel H2). simpl in IH. rewrite IH by lia. reflexivity.
Qed.

Lemma NoDup_flat_map {A B} (f : A -> list B) : forall l,
  NoDup l -> (forall x, In x l -> NoDup (f x)) ->
  (forall x y t, In x l -> In y l -> x <> y -> In t (f x) -> ~ In t (f y)) ->
  NoDup (flat_map f l).
Proof.
  induction l as [|a l IH]; simpl; intros ND H1 H2; [constructor|].
  inversion ND; subst.
  assert (IHl : NoDup (flat_map f l)).
  { apply IH; [assumption|intros; apply H1; right; assumption|intros x y t Hx Hy; apply H2; right; assumption]. }
  assert (D : forall t, In t (f a) -> ~ In t (flat_map f l)).
  { intros t Ht Hin. apply in_flat_map in Hin. destruct Hin as [y [Hy Hty]].
    apply (H2 a y t); simpl; auto. intros ->. auto. }
  clear - IHl D H1. specialize (H1 a (or_introl eq_refl)).
  induction (f a) as [|x xs IHx]; simpl; auto.
  inversion H1; subst. constructor.
  - intros Hin. apply in_app_or in Hin. destruct Hin as [Hin|Hin]; auto. apply (D x); simpl; auto.
  - apply IHx; auto. intros t Ht. apply D. simpl; auto.
Qed.

Lemma nparams_step s o : s_nparams (bstep s o) = s_nparams s.
Proof.
  destruct o; simpl; auto; unfold funcinst, open_dead, add_inst, setjump, phitemp;
    repeat match goal with |- context[if ?c then _ else _] => destruct c end; reflexivity.
Qed.

Lemma nparams_run n l ops : s_nparams (run_ops n l ops) = n.
Proof.
  unfold run_ops. induction ops as [|o ops IH] using rev_ind; simpl; auto.
  rewrite fold_left_app. simpl. rewrite nparams_step. exact IH.
Qed.

Lemma last_map {A B} (f : A -> B) : forall l d, last (map f l) (f d) = f (last l d).
Proof. induction l as [|a l IH]; intros d; simpl; auto. destruct l; simpl in *; auto. Qed.

Lemma last_default {A} : forall (l : list A) d d', l <> [] -> last l d = last l d'.
Proof. induction l as [|a l IH]; intros d d' H; [congruence|]. destruct l; simpl in *; auto. apply IH; congruence. Qed.

(* ------------------------------------------------------------------ the theorem *)
(* For every number of parameters, every value of the label counter and EVERY sequence of builder
   operations in which no block is passed to funclabel twice (and the start block is not re-labelled):
   emitfunc terminates and prints exactly the labelled blocks in order; their labels are pairwise distinct;
   the result temporaries (instruction results and phi results) are pairwise distinct and distinct from the
   parameter temporaries 1..nparams; no instruction was ever added to a block after its jump; the last
   block is terminated. *)
Theorem builder_inv :
  forall nparams labelid0 ops,
    let s := run_ops nparams labelid0 ops in
    NoDup (s_placed s) ->
    exists bl, emitfunc (S (length (s_placed s))) s = Some bl /\
      map fst bl = s_placed s /\
      NoDup (map fst bl) /\
      NoDup (flat_map (fun p => block_temps (snd p)) bl) /\
      (forall p t, In p bl -> In t (block_temps (snd p)) -> (nparams < Npos t)%N) /\
      (forall p i, In p bl -> In i (k_insts (snd p)) -> i_late i = false) /\
      (exists p, last bl p = p /\ In p bl /\ closed (k_jump (snd p)) = true).
Proof.
  intros nparams labelid0 ops s ND.
  set (s' := setjump s JRet).
  assert (E : s' = run_ops nparams labelid0 (ops ++ [ORet])).
  { unfold run_ops. rewrite fold_left_app. reflexivity. }
  assert (P : s_placed s' = s_placed s /\ s_start s' = s_start s /\ s_end s' = s_end s /\ s_nparams s' = nparams).
  { unfold s', setjump. pose proof (nparams_run nparams labelid0 ops) as Np. fold s in Np.
    destruct (closed _); simpl; auto. }
  destruct P as (Pp & Ps & Pe & Pn).
  assert (C : CInv s') by (rewrite E; apply CInv_run; rewrite <- E, Pp; exact ND).
  assert (T : TInv s') by (rewrite E; apply TInv_run).
  destruct C as ([r Hr] & Hl & Hc & Hk). destruct T as (T1 & T2 & T3 & T4 & T5).
  pose proof (walk_chain s' (s_placed s') (S (length (s_placed s))) Hc) as W.
  assert (Wf : (length (s_placed s') <= S (length (s_placed s)))%nat) by (rewrite Pp; lia).
  specialize (W Wf).
  exists (map (fun b => (b, getb s' b)) (s_placed s')).
  assert (M : map fst (map (fun b => (b, getb s' b)) (s_placed s')) = s_placed s').
  { rewrite map_map. simpl. apply map_id. }
  repeat split.
  - unfold emitfunc. fold s'. rewrite Hr in W |- *. lazy beta iota in W. exact W.
  - rewrite M. exact Pp.
  - rewrite M, Pp. exact ND.
  - rewrite flat_map_concat_map, map_map, <- flat_map_concat_map. simpl.
    apply NoDup_flat_map; [rewrite Pp; exact ND|intros; apply T2|]. intros x y t _ _ Nxy. apply T3; auto.
  - intros p t Hp Ht. apply in_map_iff in Hp. destruct Hp as [b [<- _]]. simpl in Ht.
    specialize (T1 _ _ Ht). rewrite Pn in T1. lia.
  - intros p i Hp Hi. apply in_map_iff in Hp. destruct Hp as [b [<- _]]. simpl in Hi. eapply T4; eauto.
  - exists (s_end s', getb s' (s_end s')). repeat split.
    + rewrite (last_map (fun b => (b, getb s' b)) (s_placed s') (s_end s')).
      rewrite (last_default (s_placed s') (s_end s') (s_start s')) by (rewrite Hr; discriminate).
      rewrite Hl. reflexivity.
    + apply in_map_iff. exists (s_end s'). split; auto. rewrite <- Hl. apply last_in. rewrite Hr. discriminate.
    + simpl. unfold s', setjump. destruct (closed (k_jump (getb s (s_end s)))) eqn:Ec; auto.
      unfold getb; simpl. rewrite PM.gss. reflexivity.
Qed.

(* a closed block keeps its jump: the jump setters do nothing on it *)
Lemma setjump_closed s j : closed (k_jump (getb s (s_end s))) = true -> setjump s j = s.
Proof. unfold setjump. intros ->. reflexivity. Qed.

(* Without the hypothesis the statement is false of the faithful model of funclabel: labelling one block
   twice makes the list cyclic and emitfunc never reaches NULL (the front end now diagnoses `l: l:`, commit
   39cee13; funclabel itself is unchanged). *)
Definition twice : list bop := [OMkblock; OLabel 2%positive; OLabel 2%positive].

Lemma cyclic_walk s' :
  PM.find 2%positive (s_next s') = Some 2%positive -> PM.find 1%positive (s_next s') = Some 2%positive ->
  s_start s' = 1%positive -> forall fuel, walk fuel s' (s_start s') = None.
Proof.
  intros E2 E1 St fuel.
  assert (W2 : forall n, walk n s' 2%positive = None).
  { induction n as [|n IH]; [reflexivity|]. cbn [walk]. rewrite E2, IH. reflexivity. }
  rewrite St. destruct fuel as [|n]; [reflexivity|]. cbn [walk]. rewrite E1, W2. reflexivity.
Qed.

Lemma builder_label_twice_refuted : forall fuel, emitfunc fuel (run_ops 0 0 twice) = None.
Proof.
  intros fuel. unfold emitfunc. apply cyclic_walk; vm_compute; reflexivity.
Qed.
