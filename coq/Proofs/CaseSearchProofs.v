(* Proofs about Model/CaseSearch.v: the key conversion of switchcase(), the duplicate diagnostic and
   the comparison ladder emitted by casesearch(). *)
From Coq Require Import ZArith NArith List Bool Lia.
From Cproc Require Import Model.Tree Model.CaseSearch Proofs.TreeProofs.
Import ListNotations.
Open Scope N_scope.
Arguments balance : simpl never.
Arguments rot : simpl never.

(* lia with division/modulo by constants (N.modulo is zified to Z.rem) *)
Ltac Zify.zify_post_hook ::= Z.to_euclidean_division_equations.

(* replace closed powers of two by numerals *)
Ltac consts :=
  unfold two64 in *;
  repeat match goal with
  | |- context [(2 ^ ?e)%N] => let v := eval vm_compute in (2 ^ e)%N in change (2 ^ e)%N with v
  | |- context [(2 ^ ?e)%Z] => let v := eval vm_compute in (2 ^ e)%Z in change (2 ^ e)%Z with v
  | H : context [(2 ^ ?e)%N] |- _ => let v := eval vm_compute in (2 ^ e)%N in change (2 ^ e)%N with v in H
  | H : context [(2 ^ ?e)%Z] |- _ => let v := eval vm_compute in (2 ^ e)%Z in change (2 ^ e)%Z with v in H
  end.

(* ------------------------------------------------------------------ bit-level facts *)
Lemma testbit_small i p : i < 2 ^ p -> N.testbit i p = false.
Proof.
  intros H. rewrite <- (N.mod_small i (2 ^ p)) by auto. apply N.mod_pow2_bits_high. lia.
Qed.

Lemma land_pow2_small i p : i < 2 ^ p -> N.land i (2 ^ p) = 0.
Proof.
  intros H. apply N.bits_inj. intros n. rewrite N.land_spec, N.pow2_bits_eqb, N.bits_0.
  destruct (N.eqb_spec p n) as [<-|_]; [rewrite testbit_small by auto; reflexivity|apply andb_false_r].
Qed.

Lemma lxor_low i p : i < 2 ^ p -> N.lxor i (2 ^ p) = i + 2 ^ p.
Proof. intros H. symmetry. apply N.add_nocarry_lxor. apply land_pow2_small. auto. Qed.

Lemma pow2_succ p : 2 ^ (p + 1) = 2 * 2 ^ p.
Proof. rewrite N.add_1_r. apply N.pow_succ_r'. Qed.

Lemma pow2_pos p : 1 <= 2 ^ p.
Proof. pose proof (N.pow_nonzero 2 p). lia. Qed.

Lemma lxor_high i p : 2 ^ p <= i -> i < 2 ^ (p + 1) -> N.lxor i (2 ^ p) = i - 2 ^ p.
Proof.
  intros H1 H2. rewrite pow2_succ in H2.
  assert (E : i = (i - 2 ^ p) + 2 ^ p) by lia.
  rewrite E at 1. rewrite <- lxor_low by lia.
  rewrite N.lxor_assoc, N.lxor_nilpotent, N.lxor_0_r. reflexivity.
Qed.

(* m | m - 1 for m = 2^p is the mask of the low p+1 bits *)
Lemma mask_ones p : N.lor (2 ^ p) (2 ^ p - 1) = N.ones (p + 1).
Proof.
  pose proof (pow2_pos p).
  rewrite N.lor_comm, <- N.lxor_lor by (apply land_pow2_small; lia).
  rewrite lxor_low by lia. rewrite N.ones_equiv, pow2_succ. lia.
Qed.

(* ------------------------------------------------------------------ the conversion, arithmetically *)
(* sign extension of an r < 2^(p+1) to 64 bits, as an unsigned number *)
Definition sext (p r : N) : N := if r <? 2 ^ p then r else r + (two64 - 2 ^ (p + 1)).

Lemma convert_arith size sgn i :
  1 <= size < 8 ->
  convert size sgn i =
    let r := i mod 2 ^ (8 * size) in if sgn then sext (8 * size - 1) r else r.
Proof.
  intros Hs. unfold convert. destruct (N.ltb_spec size 8); [|lia].
  rewrite N.shiftl_1_l. replace (size * 8 - 1) with (8 * size - 1) by lia.
  set (p := 8 * size - 1). replace (8 * size) with (p + 1) by (unfold p; lia).
  rewrite mask_ones, N.land_ones. cbv zeta.
  destruct sgn; auto.
  assert (Hr : i mod 2 ^ (p + 1) < 2 ^ (p + 1)) by (apply N.mod_upper_bound; apply N.pow_nonzero; discriminate).
  set (r := i mod 2 ^ (p + 1)) in *.
  assert (Hp : 2 ^ (p + 1) <= 2 ^ 56) by (apply N.pow_le_mono_r; unfold p; lia).
  unfold sext, wrap64.
  destruct (N.ltb_spec r (2 ^ p)).
  - rewrite lxor_low by auto. rewrite pow2_succ in *. consts.
    remember (2 ^ p) as m. lia.
  - rewrite lxor_high by auto. rewrite pow2_succ in *. consts.
    remember (2 ^ p) as m. lia.
Qed.

Lemma convert_8 sgn i : convert 8 sgn i = i.
Proof. reflexivity. Qed.

Lemma convert_4 sgn i :
  convert 4 sgn i =
    let r := i mod 2 ^ 32 in
    if sgn then (if r <? 2 ^ 31 then r else r + (2 ^ 64 - 2 ^ 32)) else r.
Proof. rewrite convert_arith by lia. reflexivity. Qed.

(* keys produced by the conversion: fixed points of it *)
Definition canonical (size : N) (sgn : bool) (k : N) : Prop := convert size sgn k = k.

Lemma convert_lt size sgn i : 1 <= size <= 8 -> i < two64 -> convert size sgn i < two64.
Proof.
  intros Hs Hi. destruct (N.eq_dec size 8) as [->|]; [rewrite convert_8; auto|].
  rewrite convert_arith by lia. cbv zeta.
  assert (Hr : i mod 2 ^ (8 * size) < 2 ^ (8 * size)) by (apply N.mod_upper_bound; apply N.pow_nonzero; discriminate).
  assert (Hp : 2 ^ (8 * size) <= 2 ^ 56) by (apply N.pow_le_mono_r; lia).
  destruct sgn; [|consts; lia].
  unfold sext. replace (8 * size - 1 + 1) with (8 * size) by lia.
  destruct (_ <? _); consts; lia.
Qed.

Lemma convert_idem size sgn i : 1 <= size <= 8 -> convert size sgn (convert size sgn i) = convert size sgn i.
Proof.
  intros Hs. destruct (N.eq_dec size 8) as [->|]; [reflexivity|].
  rewrite !convert_arith by lia. cbv zeta.
  set (p := 8 * size - 1). replace (8 * size) with (p + 1) by (unfold p; lia).
  assert (Hr : i mod 2 ^ (p + 1) < 2 ^ (p + 1)) by (apply N.mod_upper_bound; apply N.pow_nonzero; discriminate).
  set (r := i mod 2 ^ (p + 1)) in *.
  destruct sgn; [|apply N.mod_small; auto].
  assert (Hp : 2 ^ (p + 1) <= 2 ^ 56) by (apply N.pow_le_mono_r; unfold p; lia).
  assert (E : sext p r mod 2 ^ (p + 1) = r).
  { unfold sext. destruct (N.ltb_spec r (2 ^ p)); [apply N.mod_small; auto|].
    assert (D : two64 - 2 ^ (p + 1) = (2 ^ (64 - (p + 1)) - 1) * 2 ^ (p + 1)).
    { rewrite N.mul_sub_distr_r, <- N.pow_add_r. replace (64 - (p + 1) + (p + 1)) with 64 by (unfold p; lia).
      unfold two64. lia. }
    rewrite D, N.mod_add by (apply N.pow_nonzero; discriminate). apply N.mod_small; auto. }
  rewrite E. reflexivity.
Qed.

(* ------------------------------------------------------------------ specification of the conversion *)
(* C11 6.3.1.3 on a two's complement target: the value of the mathematical integer c converted to
   the integer type of width w *)
Definition toT (w : Z) (sgn : bool) (c : Z) : Z :=
  let r := (c mod 2 ^ w)%Z in
  if sgn && (2 ^ (w - 1) <=? r)%Z then (r - 2 ^ w)%Z else r.

(* the 64-bit pattern in which the compiler holds an integer value (intconstexpr's result, keys) *)
Definition repr64 (z : Z) : N := Z.to_N (z mod 2 ^ 64).

Lemma convert_spec size sgn c :
  1 <= size <= 8 ->
  convert size sgn (repr64 c) = repr64 (toT (8 * Z.of_N size) sgn c).
Proof.
  intros Hs.
  assert (size = 1 \/ size = 2 \/ size = 3 \/ size = 4 \/ size = 5 \/ size = 6 \/ size = 7 \/ size = 8)
    as [-> | [-> | [-> | [-> | [-> | [-> | [-> | ->]]]]]]] by lia.
  8: { rewrite convert_8. unfold repr64, toT. change (8 * Z.of_N 8)%Z with 64%Z. cbv zeta.
       destruct sgn; cbn [andb]; [destruct (Z.leb_spec (2 ^ (64 - 1)) (c mod 2 ^ 64))|]; consts; lia. }
  all: rewrite convert_arith by lia; unfold repr64, toT, sext; cbv zeta;
    match goal with |- context [(8 * Z.of_N ?s)%Z] =>
      let v := eval vm_compute in (8 * Z.of_N s)%Z in change (8 * Z.of_N s)%Z with v end;
    destruct sgn; cbn [andb];
    [ match goal with |- context [(?a <=? ?b)%Z] => destruct (Z.leb_spec a b) end;
      match goal with |- context [(?a <? ?b)%N] => destruct (N.ltb_spec a b) end
    | ]; consts; lia.
Qed.

(* the values of the integer type of width w *)
Definition inrange (w : Z) (sgn : bool) (c : Z) : Prop :=
  if sgn then (- 2 ^ (w - 1) <= c < 2 ^ (w - 1))%Z else (0 <= c < 2 ^ w)%Z.

Lemma toT_range w sgn c : (0 < w)%Z -> inrange w sgn (toT w sgn c).
Proof.
  intros Hw. unfold inrange, toT. cbv zeta.
  assert (E : (2 ^ w = 2 * 2 ^ (w - 1))%Z).
  { replace w with (Z.succ (w - 1)) at 1 by lia. apply Z.pow_succ_r. lia. }
  assert (0 < 2 ^ (w - 1))%Z by (apply Z.pow_pos_nonneg; lia).
  pose proof (Z.mod_pos_bound c (2 ^ w) ltac:(lia)).
  destruct sgn; cbn [andb]; [destruct (Z.leb_spec (2 ^ (w - 1)) (c mod 2 ^ w))|]; lia.
Qed.

(* a value already in the range of the type is not changed *)
Lemma toT_id w sgn c :
  (0 < w)%Z -> inrange w sgn c -> toT w sgn c = c.
Proof.
  intros Hw Hc. unfold inrange in Hc. unfold toT. cbv zeta.
  assert (E : (2 ^ w = 2 * 2 ^ (w - 1))%Z).
  { replace w with (Z.succ (w - 1)) at 1 by lia. apply Z.pow_succ_r. lia. }
  assert (0 < 2 ^ (w - 1))%Z by (apply Z.pow_pos_nonneg; lia).
  destruct sgn; cbn [andb].
  - destruct (Z.le_gt_cases 0 c).
    + rewrite Z.mod_small by lia. destruct (Z.leb_spec (2 ^ (w - 1)) c); lia.
    + assert (M : (c mod 2 ^ w = c + 2 ^ w)%Z).
      { symmetry. apply Z.mod_unique with (q := (-1)%Z); lia. }
      rewrite M. destruct (Z.leb_spec (2 ^ (w - 1)) (c + 2 ^ w)); lia.
  - apply Z.mod_small. lia.
Qed.

Lemma repr64_inj sgn a b :
  inrange 64 sgn a -> inrange 64 sgn b -> repr64 a = repr64 b -> a = b.
Proof. unfold repr64, inrange. destruct sgn; consts; lia. Qed.

Lemma toT_range64 w sgn c :
  (0 < w <= 64)%Z -> inrange 64 sgn (toT w sgn c).
Proof.
  intros Hw. pose proof (toT_range w sgn c ltac:(lia)) as R. unfold inrange in *.
  assert (2 ^ (w - 1) <= 2 ^ (64 - 1))%Z by (apply Z.pow_le_mono_r; lia).
  assert (2 ^ w <= 2 ^ 64)%Z by (apply Z.pow_le_mono_r; lia).
  destruct sgn; lia.
Qed.

(* HEADLINE (conversion): keys are canonical, and two case constants get the same key exactly when
   they are equal after conversion to the (promoted) controlling type *)
Theorem convert_canonical : forall size sgn,
  1 <= size <= 8 ->
  (forall i, canonical size sgn (convert size sgn i)) /\
  (forall i, i < two64 -> convert size sgn i < two64) /\
  (forall c, convert size sgn (repr64 c) = repr64 (toT (8 * Z.of_N size) sgn c)) /\
  (forall c1 c2, convert size sgn (repr64 c1) = convert size sgn (repr64 c2) <->
                 toT (8 * Z.of_N size) sgn c1 = toT (8 * Z.of_N size) sgn c2).
Proof.
  intros size sgn Hs. split; [|split; [|split]].
  - intros i. apply convert_idem; auto.
  - intros i. apply convert_lt; auto.
  - intros c. apply convert_spec; auto.
  - intros c1 c2. rewrite !convert_spec by auto. split; [|congruence].
    apply (repr64_inj sgn); apply toT_range64; lia.
Qed.

(* the explicit shape of canonical keys of the two 32-bit promoted types *)
Lemma canonical_4 sgn k :
  canonical 4 sgn k <->
  (if sgn then k < 2 ^ 31 \/ (2 ^ 64 - 2 ^ 31 <= k /\ k < 2 ^ 64) else k < 2 ^ 32).
Proof.
  unfold canonical. rewrite convert_4. cbv zeta.
  destruct sgn; [destruct (N.ltb_spec (k mod 2 ^ 32) (2 ^ 31))|]; consts; lia.
Qed.

(* ------------------------------------------------------------------ the ladder *)
(* plain binary search on the full key *)
Fixpoint find (c : N) (t : tree) : option N :=
  match t with
  | Leaf => None
  | Node k _ l r => if c =? k then Some k else if c <? k then find c l else find c r
  end.

Lemma memb_case c t :
  (memb c t = true /\ In c (elements t)) \/ (memb c t = false /\ ~ In c (elements t)).
Proof.
  destruct (memb c t) eqn:E.
  - left. split; auto. apply memb_In. auto.
  - right. split; auto. rewrite <- memb_In. congruence.
Qed.

Lemma find_spec c t : bst t -> find c t = if memb c t then Some c else None.
Proof.
  induction t as [|k h l IHl r IHr]; simpl; auto.
  intros (Al & Ar & Bl & Br). rewrite allt_In in Al, Ar.
  destruct (N.eqb_spec c k) as [->|Hne].
  - destruct (memb_case k (Node k h l r)) as [(-> & _)|(_ & H)]; auto.
    exfalso. apply H. simpl. apply in_or_app. right. left. reflexivity.
  - destruct (N.ltb_spec c k).
    + rewrite IHl by auto.
      destruct (memb_case c l) as [(-> & Hl)|(-> & Hl)];
      destruct (memb_case c (Node k h l r)) as [(-> & Ht)|(-> & Ht)]; auto; exfalso.
      * apply Ht. simpl. apply in_or_app. auto.
      * simpl in Ht. apply in_app_or in Ht. destruct Ht as [Hx|[Hx|Hx]]; auto. apply Ar in Hx. lia.
    + rewrite IHr by auto.
      destruct (memb_case c r) as [(-> & Hr)|(-> & Hr)];
      destruct (memb_case c (Node k h l r)) as [(-> & Ht)|(-> & Ht)]; auto; exfalso.
      * apply Ht. simpl. apply in_or_app. right. right. auto.
      * simpl in Ht. apply in_app_or in Ht. destruct Ht as [Hx|[Hx|Hx]]; auto. apply Al in Hx. lia.
Qed.

(* class w comparisons on canonical 32-bit keys decide the order of the full 64-bit keys *)
Lemma cmp_W sgn v k :
  canonical 4 sgn k ->
  ceq W v k = (convert 4 sgn v =? k) /\ cult W v k = (convert 4 sgn v <? k).
Proof.
  intros Ck. apply canonical_4 in Ck. unfold ceq, cult, wrap32. rewrite convert_4. cbv zeta.
  split.
  - destruct (N.eqb_spec (v mod 2 ^ 32) (k mod 2 ^ 32)) as [E|E];
    match goal with |- _ = (?a =? ?b) => destruct (N.eqb_spec a b) as [E2|E2] end; auto; exfalso;
    destruct sgn; [destruct (N.ltb_spec (v mod 2 ^ 32) (2 ^ 31))| |destruct (N.ltb_spec (v mod 2 ^ 32) (2 ^ 31))|];
    consts; lia.
  - destruct (N.ltb_spec (v mod 2 ^ 32) (k mod 2 ^ 32)) as [E|E];
    match goal with |- _ = (?a <? ?b) => destruct (N.ltb_spec a b) as [E2|E2] end; auto; exfalso;
    destruct sgn; [destruct (N.ltb_spec (v mod 2 ^ 32) (2 ^ 31))| |destruct (N.ltb_spec (v mod 2 ^ 32) (2 ^ 31))|];
    consts; lia.
Qed.

Lemma cmp_L v k : v < two64 -> k < two64 -> ceq L v k = (v =? k) /\ cult L v k = (v <? k).
Proof. intros Hv Hk. unfold ceq, cult, wrap64. rewrite !N.mod_small by auto. auto. Qed.

Lemma search_find size sgn t v :
  size = 4 \/ size = 8 ->
  allt (fun k => canonical size sgn k /\ k < two64) t -> v < two64 ->
  search (cls_of_size size) t v = find (convert size sgn v) t.
Proof.
  intros Hs. induction t as [|k h l IHl r IHr]; simpl; auto.
  intros ((Ck & Hk) & Al & Ar) Hv.
  rewrite IHl, IHr by auto.
  destruct Hs as [-> | ->].
  - change (cls_of_size 4) with W. destruct (cmp_W sgn v k Ck) as (-> & ->). reflexivity.
  - change (cls_of_size 8) with L. rewrite convert_8. destruct (cmp_L v k Hv Hk) as (-> & ->). reflexivity.
Qed.

(* HEADLINE (ladder): on a search tree whose keys are canonical for the promoted controlling type,
   the emitted comparisons reach the body of the key that equals the converted value, else default *)
Theorem casesearch_correct : forall size sgn t v,
  size = 4 \/ size = 8 ->
  bst t -> allt (fun k => canonical size sgn k /\ k < two64) t -> v < two64 ->
  search (cls_of_size size) t v =
    if memb (convert size sgn v) t then Some (convert size sgn v) else None.
Proof.
  intros size sgn t v Hs B C Hv. rewrite (search_find size sgn) by auto. apply find_spec. auto.
Qed.

(* without canonical keys the statement is false (this was defect D12 before the conversion was added
   to switchcase): keys 2 and 2^32+1 on an `int` switch, value 1 goes to default *)
Example casesearch_needs_canonical :
  let t := Node 2 2 Leaf (Node (2 ^ 32 + 1) 1 Leaf Leaf) in
  bst t /\ search W t 1 = None /\ search W t (2 ^ 32 + 1) = None /\ memb (2 ^ 32 + 1) t = true.
Proof. vm_compute. repeat split; auto. Qed.

(* the depth of the ladder is bounded by the height of the tree *)
Lemma search_depth_height c t v : (search_depth c t v <= rheight t)%Z.
Proof.
  induction t as [|k h l IHl r IHr]; simpl; [lia|].
  pose proof (rheight_nonneg l). pose proof (rheight_nonneg r).
  destruct (ceq c v k); [lia|]. destruct (cult c v k); lia.
Qed.

Theorem ladder_depth_log : forall c t v,
  balanced t -> (fib (Z.to_nat (search_depth c t v) + 2) - 1 <= size t)%N.
Proof.
  intros c t v B. pose proof (height_log t B). pose proof (search_depth_height c t v).
  assert (0 <= search_depth c t v)%Z.
  { clear. induction t; simpl; [lia|]. destruct (ceq c v key); [lia|]. destruct (cult c v key); lia. }
  assert (fib (Z.to_nat (search_depth c t v) + 2) <= fib (Z.to_nat (rheight t) + 2)) by (apply fib_mono; lia).
  lia.
Qed.

(* ------------------------------------------------------------------ a whole switch statement *)
Definition keys_ok size sgn t := allt (fun k => canonical size sgn k /\ k < two64) t.

Lemma switchcases_spec size sgn : 1 <= size <= 8 -> forall cs t,
  Forall (fun c => c < two64) cs ->
  tree_inv t -> keys_ok size sgn t ->
  let ks := map (convert size sgn) cs in
  match switchcases size sgn cs t with
  | Ok t' => tree_inv t' /\ keys_ok size sgn t' /\
             (forall x, In x (elements t') <-> In x ks \/ In x (elements t)) /\
             NoDup ks /\ (forall x, In x ks -> ~ In x (elements t))
  | Dup => ~ (NoDup ks /\ forall x, In x ks -> ~ In x (elements t))
  | Crash => False
  end.
Proof.
  intros Hs. induction cs as [|c cs IH]; intros t Hc I K; simpl.
  - split; [exact I|]. split; [exact K|]. split; [intros x; tauto|]. split; [constructor|intros x []].
  - inversion Hc as [|? ? Hc1 Hc2]; subst.
    unfold switchcase.
    destruct (insert_step (convert size sgn c) t I) as (t1 & go & nw & E & I1 & Hn & El & Hd).
    rewrite E. destruct nw.
    + assert (Hnot : ~ In (convert size sgn c) (elements t)).
      { rewrite <- memb_In. destruct (memb _ t); [discriminate|auto]. }
      assert (K1 : keys_ok size sgn t1).
      { unfold keys_ok in *. rewrite allt_In in *. intros x Hx. apply El in Hx. destruct Hx as [->|Hx]; auto.
        split; [apply convert_idem; auto|apply convert_lt; auto]. }
      specialize (IH t1 Hc2 I1 K1). cbv zeta in IH.
      destruct (switchcases size sgn cs t1) as [t'| |]; auto.
      * destruct IH as (I' & K' & El' & ND & Dj). repeat split; auto; try apply I'.
        -- intros H. apply El' in H. rewrite El in H. simpl. destruct H as [H|[H|H]]; subst; auto.
        -- intros H. apply El'. rewrite El. simpl in H. destruct H as [[H|H]|H]; subst; auto.
        -- constructor; auto. intros H. apply (Dj _ H). apply El. auto.
        -- intros x [<-|Hx]; auto. intros H. apply (Dj _ Hx). apply El. auto.
      * intros (ND & Dj). apply IH. inversion ND; subst. split; auto.
        intros x Hx H. apply El in H. destruct H as [->|H]; auto. apply (Dj x); simpl; auto.
    + intros (_ & Dj). apply (Dj (convert size sgn c)); simpl; auto.
      apply memb_In. destruct (memb _ t); [auto|discriminate].
Qed.

Lemma NoDup_map_inj_in {A B} (f : A -> B) (l : list A) :
  (forall a b, In a l -> In b l -> f a = f b -> a = b) -> NoDup l -> NoDup (map f l).
Proof.
  induction l as [|x l IH]; simpl; intros Hinj ND; [constructor|].
  inversion ND; subst. constructor.
  - intros H. apply in_map_iff in H. destruct H as (y & E & Hy).
    assert (y = x) by (apply Hinj; auto). subst. auto.
  - apply IH; auto.
Qed.

(* HEADLINE (whole switch): cs are the mathematical values of the case constants in source order,
   T is the promoted controlling type (size 4 or 8, signed or not), V the run-time value of the
   controlling expression (in the range of T), v any 64-bit register content that represents V in the
   class of T.  Either the case constants are pairwise different after conversion to T, the tree is
   built without undefined behaviour and the ladder selects exactly the case whose converted constant
   equals V (else default), or two constants coincide after conversion and the diagnostic is raised. *)
Theorem switch_correct : forall size sgn (cs : list Z),
  size = 4 \/ size = 8 ->
  let w := (8 * Z.of_N size)%Z in
  let conv := map (toT w sgn) cs in
  match switchcases size sgn (map repr64 cs) Leaf with
  | Ok t =>
      NoDup conv /\ tree_inv t /\
      forall (V : Z) (v : N),
        toT w sgn V = V -> v < two64 ->
        (if size =? 4 then v mod 2 ^ 32 = repr64 V mod 2 ^ 32 else v = repr64 V) ->
        (In V conv -> search (cls_of_size size) t v = Some (repr64 V)) /\
        (~ In V conv -> search (cls_of_size size) t v = None)
  | Dup => ~ NoDup conv
  | Crash => False
  end.
Proof.
  intros size sgn cs Hs w conv.
  assert (Hs' : 1 <= size <= 8) by lia.
  assert (Hw : (0 < w <= 64)%Z) by (unfold w; lia).
  assert (Hlt : Forall (fun c => c < two64) (map repr64 cs)).
  { apply Forall_forall. intros x Hx. apply in_map_iff in Hx. destruct Hx as (c & <- & _).
    unfold repr64. consts. lia. }
  assert (Hks : map (convert size sgn) (map repr64 cs) = map repr64 conv).
  { unfold conv. rewrite !map_map. apply map_ext. intros c. apply convert_spec; auto. }
  assert (Hnd : NoDup (map repr64 conv) <-> NoDup conv).
  { split.
    - apply NoDup_map_inv.
    - intros ND. apply NoDup_map_inj_in; auto.
      intros a b Ha Hb. unfold conv in Ha, Hb. apply in_map_iff in Ha, Hb.
      destruct Ha as (a' & <- & _). destruct Hb as (b' & <- & _).
      apply (repr64_inj sgn); apply toT_range64; auto. }
  pose proof (switchcases_spec size sgn Hs' (map repr64 cs) Leaf Hlt) as S.
  cbv zeta in S. rewrite Hks in S.
  specialize (S ltac:(repeat split; simpl; auto) I).
  destruct (switchcases size sgn (map repr64 cs) Leaf) as [t| |]; auto.
  - destruct S as (I' & K' & El & ND & _). split; [apply Hnd; auto|]. split; auto.
    intros V v HV Hv Hrep.
    assert (Ecv : convert size sgn v = repr64 V).
    { rewrite <- HV. unfold w. rewrite <- convert_spec by auto.
      destruct Hs as [-> | ->].
      - change (4 =? 4) with true in Hrep. cbv iota in Hrep. rewrite !convert_4. cbv zeta. rewrite Hrep. reflexivity.
      - change (8 =? 4) with false in Hrep. cbv iota in Hrep. rewrite Hrep. reflexivity. }
    rewrite (casesearch_correct size sgn t v Hs (proj1 I') K' Hv), Ecv.
    assert (M : memb (repr64 V) t = true <-> In V conv).
    { rewrite memb_In, El. simpl. split.
      - intros [H|[]]. apply in_map_iff in H. destruct H as (x & Hx & Hin).
        assert (x = V); [|subst; auto].
        apply (repr64_inj sgn); auto.
        + unfold conv in Hin. apply in_map_iff in Hin. destruct Hin as (y & <- & _). apply toT_range64; auto.
        + rewrite <- HV. apply toT_range64; auto.
      - intros H. left. apply in_map. auto. }
    split; intros H.
    + apply M in H. rewrite H. reflexivity.
    + destruct (memb (repr64 V) t); auto. exfalso. apply H, M. reflexivity.
  - intros ND. apply S. split; [apply Hnd; auto|]. intros x _ [].
Qed.

(* ------------------------------------------------------------------ non-vacuity *)
(* an `int` switch with negative and large constants written in different types:
   case 3, case -2, case 0x100000001 (= 1 after conversion), case 0xfffffffe would duplicate -2 *)
Example switch_int_example :
  switchcases 4 true (map repr64 [3; -2; 4294967297]%Z) Leaf =
    Ok (Node 3 2 (Node 1 1 Leaf Leaf) (Node 18446744073709551614 1 Leaf Leaf)) /\
  switchcases 4 true (map repr64 [3; -2; 4294967297; 4294967294]%Z) Leaf = Dup /\
  switchcases 4 false (map repr64 [-1; 4294967295]%Z) Leaf = Dup /\
  switchcases 8 true (map repr64 [-1; 4294967295]%Z) Leaf =
    Ok (Node 18446744073709551615 2 (Node 4294967295 1 Leaf Leaf) Leaf) /\
  let t := Node 3 2 (Node 1 1 Leaf Leaf) (Node 18446744073709551614 1 Leaf Leaf) in
  map (search W t) [1; 3; 4294967294; 18446744073709551614; 2; 4294967297] =
    [Some 1; Some 3; Some 18446744073709551614; Some 18446744073709551614; None; Some 1].
Proof. vm_compute. repeat split. Qed.
