(* C10 - acceptance soundness of the arithmetic constraint checkers of decl.c:
   bit-fields (addmember), alignment specifiers (declspecs/decl/addmember), array sizes (declarator).
   Every theorem quantifies over all inputs of the checker. *)
From Coq Require Import List NArith ZArith Bool Arith Lia.
From Cproc Require Import Spec.Constraints Model.Checks.
Import ListNotations.
Local Open Scope N_scope.

(* ------------------------------------------------------------------ (c) bit-fields *)
Lemma M64_val : M64 = 18446744073709551616.
Proof. reflexivity. Qed.

Lemma bitfield_check_none : forall isint tsize align pack named width,
  bitfield_check isint tsize align pack named width = None ->
  width <> M64 - 1 /\ isint = true /\ align = 0 /\ pack = false /\ (width = 0 -> named = false) /\
  width <= (tsize * 8) mod M64.
Proof.
  intros isint tsize align pack named width H. unfold bitfield_check in H.
  destruct (N.eqb width (M64 - 1)) eqn:E1; [discriminate|]. apply N.eqb_neq in E1.
  destruct isint; [|discriminate]. cbn [negb] in H.
  destruct (N.eqb align 0) eqn:E2; [|discriminate]. apply N.eqb_eq in E2. cbn [negb] in H.
  destruct pack; [discriminate|].
  destruct (N.eqb width 0 && named) eqn:E3; [discriminate|].
  destruct (N.ltb ((tsize * 8) mod M64) width) eqn:E4; [discriminate|]. apply N.ltb_ge in E4.
  repeat split; auto.
  intros W0. subst width. destruct named; [discriminate|reflexivity].
Qed.

(* for every declaration whose type is not _Bool: accepted -> 6.7.2.1p4-5 and 6.7.5p2 hold *)
Theorem bitfield_constraints_partial : forall b : bitfield,
  bf_type b <> BFbool ->
  bf_named b = true ->
  (forall bytes, bf_type b = BFint bytes -> bytes <= 16) ->
  bitfield_accepts b = true -> c11_bitfield_ok b.
Proof.
  intros [t w named al pk] Hnb Hnm Hsz H. unfold bitfield_accepts, bitfield_inputs in H. cbn [bf_type bf_width bf_named bf_alignas bf_packed] in *.
  subst named. rewrite andb_true_r in H.
  unfold c11_bitfield_ok. cbn [bf_type bf_width bf_named bf_alignas bf_packed].
  destruct t as [|bytes|]; [exfalso; apply Hnb; reflexivity| |].
  - specialize (Hsz bytes eq_refl).
    destruct (bitfield_check true bytes (if al then 8 else 0) pk true w) eqn:C; [discriminate|].
    apply bitfield_check_none in C. destruct C as (C1 & _ & C3 & C4 & C5 & C6).
    rewrite N.mod_small in C6 by (rewrite M64_val; lia).
    repeat split; auto; try discriminate.
    + cbn [bf_type_width]. lia.
    + destruct al; [discriminate|reflexivity].
  - destruct (bitfield_check false 4 (if al then 8 else 0) pk true w) eqn:C; [discriminate|].
    apply bitfield_check_none in C. destruct C as (_ & C2 & _). discriminate.
Qed.

(* the full statement is false of the code: a _Bool bit-field may be declared up to 8 bits wide,
   the width of an object of type _Bool is 1 (gcc and clang reject the declaration) *)
Theorem bitfield_constraints_refuted :
  exists b : bitfield, bitfield_accepts b = true /\ ~ c11_bitfield_ok b.
Proof.
  exists (mk_bf BFbool 2 true false false). split; [reflexivity|].
  unfold c11_bitfield_ok; simpl. intros (_ & H & _). lia.
Qed.

(* a second way the full statement fails: an alignment specifier on an UNNAMED bit-field is not seen by
   addmember, structdecl passes 0 for it (gcc and clang reject the declaration, 6.7.5p2) *)
Theorem bitfield_alignas_unnamed_refuted :
  exists b : bitfield, bf_type b = BFint 4 /\ bitfield_accepts b = true /\ ~ c11_bitfield_ok b.
Proof.
  exists (mk_bf (BFint 4) 3 false true false). split; [reflexivity|]. split; [reflexivity|].
  unfold c11_bitfield_ok. cbn [bf_alignas]. intros (_ & _ & _ & H & _). discriminate.
Qed.

Lemma bitfield_check_accept : forall tsize named width,
  width <> M64 - 1 -> (width = 0 -> named = false) -> width <= (tsize * 8) mod M64 ->
  bitfield_check true tsize 0 false named width = None.
Proof.
  intros tsize named width H1 H2 H3. unfold bitfield_check.
  rewrite (proj2 (N.eqb_neq _ _) H1). cbn [negb]. change (N.eqb 0 0) with true. cbn [negb].
  rewrite (proj2 (N.ltb_ge _ _) H3).
  destruct (N.eqb width 0) eqn:E; [|reflexivity].
  apply N.eqb_eq in E. rewrite (H2 E). reflexivity.
Qed.

(* conversely every well-formed bit-field of a supported kind is accepted (the checker rejects nothing valid) *)
Theorem bitfield_complete : forall b : bitfield,
  (forall bytes, bf_type b = BFint bytes -> 0 < bytes <= 16) ->
  bf_width b < M64 - 1 ->
  c11_bitfield_ok b -> bitfield_accepts b = true.
Proof.
  intros [t w named al pk] Hsz Hw (Ht & Hwd & Hz & Ha & Hp).
  cbn [bf_type bf_width bf_named bf_alignas bf_packed] in *. subst al pk.
  unfold bitfield_accepts, bitfield_inputs. cbn [bf_type bf_width bf_named bf_alignas bf_packed].
  destruct t as [|bytes|]; [| |exfalso; apply Ht; reflexivity].
  - cbn [bf_type_width] in Hwd. rewrite bitfield_check_accept; [reflexivity|lia|exact Hz|].
    rewrite N.mod_small by (rewrite M64_val; lia). lia.
  - specialize (Hsz bytes eq_refl). cbn [bf_type_width] in Hwd.
    rewrite bitfield_check_accept; [reflexivity|lia|exact Hz|].
    rewrite N.mod_small by (rewrite M64_val; lia). lia.
Qed.

(* ------------------------------------------------------------------ (d) alignment specifiers *)
Lemma land_pred_pow2 : forall i : N, 0 < i -> N.land i (i - 1) = 0 -> is_pow2 i.
Proof.
  intros i Hpos H. exists (N.log2 i).
  destruct (N.log2_spec i Hpos) as [Hlo Hhi].
  destruct (N.eq_dec i (2 ^ N.log2 i)) as [E|NE]; [exact E|exfalso].
  assert (Hlt : 2 ^ N.log2 i <= i - 1) by lia.
  assert (Hpos1 : 0 < i - 1).
  { assert (0 < 2 ^ N.log2 i) by (apply N.neq_0_lt_0, N.pow_nonzero; discriminate). lia. }
  assert (L : N.log2 (i - 1) = N.log2 i).
  { apply N.log2_unique; [apply N.le_0_l|]. split; [exact Hlt|lia]. }
  assert (B1 : N.testbit i (N.log2 i) = true) by (apply N.bit_log2; lia).
  assert (B2 : N.testbit (i - 1) (N.log2 i) = true) by (rewrite <- L; apply N.bit_log2; lia).
  assert (B : N.testbit (N.land i (i - 1)) (N.log2 i) = true) by (rewrite N.land_spec, B1, B2; reflexivity).
  rewrite H, N.bits_0 in B. discriminate.
Qed.

Lemma alignas_step_ok : forall a i a', i < M64 -> alignas_step a i = Some a' ->
  (i = 0 \/ is_pow2 i) /\ a' = N.max a i.
Proof.
  intros a i a' Hi H. unfold alignas_step in H.
  destruct (negb (N.eqb (N.land i ((i + M64 - 1) mod M64)) 0) || N.ltb INT_MAX i) eqn:C; [discriminate|].
  apply orb_false_iff in C. destruct C as [C1 C2]. apply negb_false_iff, N.eqb_eq in C1.
  inversion H; subst a'; clear H. split.
  - destruct (N.eq_dec i 0) as [Z|NZ]; [left; exact Z|right].
    apply land_pred_pow2; [lia|].
    replace ((i + M64 - 1) mod M64) with (i - 1) in C1; [exact C1|].
    replace (i + M64 - 1) with ((i - 1) + 1 * M64) by lia.
    rewrite N.mod_add by (rewrite M64_val; discriminate). rewrite N.mod_small; lia.
  - destruct (N.ltb a i) eqn:L; [apply N.ltb_lt in L|apply N.ltb_ge in L]; lia.
Qed.

Lemma alignas_fold_none : forall vs,
  fold_left (fun acc i => match acc with None => None | Some a => alignas_step a i end) vs None = None.
Proof. induction vs; simpl; auto. Qed.

Lemma alignas_run_ok : forall vs a0 a,
  (forall v, In v vs -> v < M64) ->
  fold_left (fun acc i => match acc with None => None | Some a => alignas_step a i end) vs (Some a0) = Some a ->
  (forall v, In v vs -> v = 0 \/ is_pow2 v) /\ a = N.max a0 (fold_right N.max 0 vs).
Proof.
  induction vs as [|i vs IH]; intros a0 a Hb H; simpl in *.
  - inversion H. split; [tauto|lia].
  - destruct (alignas_step a0 i) as [a1|] eqn:S; [|rewrite alignas_fold_none in H; discriminate].
    destruct (alignas_step_ok a0 i a1 (Hb i (or_introl eq_refl)) S) as [Hi Ha1].
    destruct (IH a1 a (fun v Hv => Hb v (or_intror Hv)) H) as [Hrest Ha].
    split; [intros v [<-|Hv]; auto|]. lia.
Qed.

(* accepted -> every value is zero or a power of two (6.2.8p4, 6.7.5p3) and the strictest one is not
   weaker than the alignment of the type (6.7.5p4) *)
Theorem alignas_constraints : forall (values : list N) (type_align : N),
  (forall v, In v values -> v < M64) ->
  alignas_accepts values type_align = true -> c11_alignas_ok values type_align.
Proof.
  intros vs ta Hb H. unfold alignas_accepts, alignas_run in H.
  destruct (fold_left _ vs (Some 0)) as [a|] eqn:R; [|discriminate].
  destruct (alignas_run_ok vs 0 a Hb R) as [Hv Ha]. split; [exact Hv|].
  cbv zeta. rewrite N.max_0_l in Ha. rewrite <- Ha.
  apply negb_true_iff, andb_false_iff in H. destruct H as [H|H].
  - apply negb_false_iff, N.eqb_eq in H. left. exact H.
  - apply N.ltb_ge in H. right. exact H.
Qed.

(* where an alignment specifier may not appear at all (6.7.5p2; `register` objects are not checked) *)
Theorem alignas_placement : forall d, alignas_allowed d = c11_alignas_allowed d.
Proof. destruct d; reflexivity. Qed.

(* ------------------------------------------------------------------ (e) array declarators *)
Local Open Scope Z_scope.

Definition array_signed_value (lsigned : bool) (u : N) : Z :=
  if lsigned && negb (N.eqb (N.shiftr u 63) 0) then Z.of_N u - 2 ^ 64 else Z.of_N u.

(* accepted constant array sizes satisfy what the implementation documents: integer type, value >= 0,
   complete non-function element type, total size below 2^64 *)
Lemma array_check_none : forall isint lsigned u incomplete isfunc esize,
  (0 < esize)%N ->
  array_check isint lsigned u incomplete isfunc esize = None ->
  isint = true /\ incomplete = false /\ isfunc = false /\
  (lsigned && negb (N.eqb (N.shiftr u 63) 0)) = false /\ (u <= (M64 - 1) / esize)%N.
Proof.
  intros isint lsigned u inc fn es Hes H. unfold array_check in H.
  destruct isint; [|discriminate]. cbn [negb] in H.
  destruct inc; [discriminate|]. destruct fn; [discriminate|].
  destruct (N.eqb es 0) eqn:E0; [apply N.eqb_eq in E0; lia|].
  destruct (lsigned && negb (N.eqb (N.shiftr u 63) 0)) eqn:Neg; [discriminate|].
  destruct (N.ltb ((M64 - 1) / es) u) eqn:Big; [discriminate|].
  apply N.ltb_ge in Big.
  split; [reflexivity|]. split; [reflexivity|]. split; [reflexivity|]. split; [reflexivity|exact Big].
Qed.

Theorem array_size_constraints : forall (isint lsigned : bool) (u : N) (incomplete isfunc : bool) (esize : N),
  (u < M64)%N -> (0 < esize)%N ->
  array_check isint lsigned u incomplete isfunc esize = None ->
  ext_array_ok (mk_arr isint (array_signed_value lsigned u) incomplete isfunc esize).
Proof.
  intros isint lsigned u inc fn es Hu Hes H.
  destruct (array_check_none _ _ _ _ _ _ Hes H) as (A & B & C & Neg & Big). subst isint inc fn.
  unfold ext_array_ok, array_signed_value. cbn [ar_len_isint ar_len ar_elem_incomplete ar_elem_function ar_elem_size].
  rewrite Neg.
  assert (P : (u * es <= M64 - 1)%N).
  { transitivity (((M64 - 1) / es) * es)%N; [apply N.mul_le_mono_r; exact Big|].
    rewrite N.mul_comm. apply N.mul_div_le. lia. }
  repeat split; try reflexivity.
  - apply N2Z.is_nonneg.
  - rewrite <- N2Z.inj_mul. change (2 ^ 64) with (Z.of_N M64). apply N2Z.inj_lt.
    clear - P. rewrite M64_val in *. lia.
Qed.

(* C11 itself requires a value greater than zero: false of the code, which accepts `int a[0]`
   (an undocumented GNU-style extension; gcc -pedantic-errors rejects it) *)
Theorem array_size_c11_refuted :
  exists a : arraydecl, array_accepts a true = true /\ ~ c11_array_ok a.
Proof.
  exists (mk_arr true 0 false false 4%N). split; [vm_compute; reflexivity|].
  unfold c11_array_ok. cbn [ar_len]. intros (_ & H & _). lia.
Qed.

Theorem array_size_c11_partial : forall (isint lsigned : bool) (u : N) (incomplete isfunc : bool) (esize : N),
  (u < M64)%N -> (0 < esize)%N -> u <> 0%N ->
  array_check isint lsigned u incomplete isfunc esize = None ->
  c11_array_ok (mk_arr isint (array_signed_value lsigned u) incomplete isfunc esize).
Proof.
  intros isint lsigned u inc fn es Hu Hes Hnz H.
  destruct (array_check_none _ _ _ _ _ _ Hes H) as (A & B & C & Neg & Big). subst isint inc fn.
  unfold c11_array_ok, array_signed_value. cbn [ar_len_isint ar_len ar_elem_incomplete ar_elem_function].
  rewrite Neg. split; [reflexivity|]. split; [|split; reflexivity].
  clear - Hnz. lia.
Qed.

(* a negative signed size is rejected whatever its magnitude *)
Theorem array_negative_rejected : forall (u : N) (esize : N),
  (9223372036854775808 <= u)%N -> (0 < esize)%N ->
  array_check true true u false false esize <> None.
Proof.
  intros u es Hlo Hes. unfold array_check. cbn [negb andb].
  destruct (N.eqb es 0) eqn:E0; [apply N.eqb_eq in E0; lia|].
  assert (S : N.shiftr u 63 <> 0%N).
  { rewrite N.shiftr_div_pow2. intro E. apply N.div_small_iff in E; [|discriminate].
    change (2 ^ 63)%N with 9223372036854775808%N in E. lia. }
  apply N.eqb_neq in S. rewrite S. cbn [negb]. discriminate.
Qed.
