(* C10 - pp.c:expandfunc reads the arguments of a function-like macro invocation and accepts it
   exactly when the number of arguments is the one C11 6.10.3p4 demands.  For every token list. *)
From Coq Require Import List Bool Arith Lia.
From Cproc Require Import Spec.Constraints Model.Checks.
Import ListNotations.
Local Open Scope nat_scope.

(* total version of top_commas: commas seen at the top level until the closing parenthesis or the end,
   and whether the parenthesis closed *)
Fixpoint scan (depth : nat) (ts : list atok) (commas : nat) : nat * bool :=
  match ts with
  | [] => (commas, false)
  | t :: r =>
    match t, depth with
    | ARParen, O => (commas, true)
    | ARParen, S d => scan d r commas
    | ALParen, _ => scan (S depth) r commas
    | AComma, O => scan depth r (S commas)
    | _, _ => scan depth r commas
    end
  end.

Lemma top_commas_scan : forall ts d c s,
  match top_commas d ts c s with
  | Some (k, _) => scan d ts c = (k, true)
  | None => snd (scan d ts c) = false
  end.
Proof.
  induction ts as [|t r IH]; intros d c s; simpl; auto.
  destruct t, d; simpl; auto; apply IH.
Qed.

Lemma scan_closed_top : forall ts d c s k, scan d ts c = (k, true) ->
  exists s', top_commas d ts c s = Some (k, s').
Proof.
  induction ts as [|t r IH]; intros d c s k H; simpl in *; [discriminate|].
  destruct t, d; simpl in *; eauto. inversion H; eauto.
Qed.

Lemma scan_mono : forall ts d c, c <= fst (scan d ts c).
Proof.
  induction ts as [|t r IH]; intros d c; simpl; auto.
  destruct t, d; simpl; auto. specialize (IH 0 (S c)). lia.
Qed.

(* one non-variadic argument: where readarg stops, in terms of scan *)
Lemma readarg_false : forall ts d c,
  match readarg false d ts with
  | None => scan d ts c = (c, false)
  | Some (ARParen, _) => scan d ts c = (c, true)
  | Some (_, r) => scan d ts c = scan 0 r (S c)
  end.
Proof.
  induction ts as [|t r IH]; intros d c; simpl; auto.
  destruct t, d; simpl; auto; apply IH.
Qed.

(* the __VA_ARGS__ argument swallows commas *)
Lemma readarg_true : forall ts d c,
  match readarg true d ts with
  | None => snd (scan d ts c) = false
  | Some (ARParen, _) => snd (scan d ts c) = true
  | Some (_, _) => False
  end.
Proof.
  induction ts as [|t r IH]; intros d c; simpl; auto.
  destruct t, d; simpl; auto; apply IH.
Qed.

(* named parameters only: the loop leaves through break at the argument holding the closing parenthesis,
   at EOF, or runs to its natural end after the m-th top-level comma *)
Lemma readargs_named : forall m i ts c,
  let '(k, closed) := scan 0 ts c in
  if Nat.ltb (k - c) m then readargs (repeat false m) i ts = (if closed then XBreak (i + (k - c)) else XEof)
  else exists rp, readargs (repeat false m) i ts = XNatural (i + m) rp.
Proof.
  induction m as [|m IH]; intros i ts c.
  - destruct (scan 0 ts c) as [k closed]. simpl. rewrite Nat.add_0_r. eauto.
  - cbn [repeat readargs]. pose proof (readarg_false ts 0 c) as R.
    destruct (readarg false 0 ts) as [[t r]|].
    + assert (Cont : t <> ARParen -> scan 0 ts c = scan 0 r (S c)) by (destruct t; congruence).
      destruct t;
        try (rewrite (Cont ltac:(discriminate)); clear Cont R;
             pose proof (scan_mono r 0 (S c)) as M; specialize (IH (S i) r (S c));
             destruct (scan 0 r (S c)) as [k closed]; cbn [fst] in M;
             replace (k - c) with (S (k - S c)) by lia;
             change (Nat.ltb (S (k - S c)) (S m)) with (Nat.ltb (k - S c) m);
             destruct (Nat.ltb (k - S c) m);
             [ rewrite IH; replace (S i + (k - S c)) with (i + S (k - S c)) by lia; reflexivity
             | destruct IH as [rp IH]; exists rp; rewrite IH; f_equal; lia ]).
      rewrite R. cbv beta iota. rewrite Nat.sub_diag. cbn. rewrite Nat.add_0_r. reflexivity.
    + rewrite R. cbv beta iota. rewrite Nat.sub_diag. reflexivity.
Qed.

(* named parameters followed by __VA_ARGS__ *)
Lemma readargs_variadic : forall m i ts c,
  let '(k, closed) := scan 0 ts c in
  readargs (repeat false m ++ [true]) i ts =
    if closed then XBreak (i + (if Nat.ltb (k - c) m then k - c else m)) else XEof.
Proof.
  induction m as [|m IH]; intros i ts c.
  - cbn [repeat app readargs]. pose proof (readarg_true ts 0 c) as R.
    destruct (scan 0 ts c) as [k closed]. cbn [snd] in R. cbn [Nat.ltb Nat.leb].
    destruct (readarg true 0 ts) as [[t r]|].
    + destruct t; try contradiction. rewrite R, Nat.add_0_r. reflexivity.
    + rewrite R. reflexivity.
  - cbn [repeat app readargs]. pose proof (readarg_false ts 0 c) as R.
    destruct (readarg false 0 ts) as [[t r]|].
    + assert (Cont : t <> ARParen -> scan 0 ts c = scan 0 r (S c)) by (destruct t; congruence).
      destruct t;
        try (rewrite (Cont ltac:(discriminate)); clear Cont R;
             pose proof (scan_mono r 0 (S c)) as M; specialize (IH (S i) r (S c));
             destruct (scan 0 r (S c)) as [k closed]; cbn [fst] in M;
             replace (k - c) with (S (k - S c)) by lia;
             change (Nat.ltb (S (k - S c)) (S m)) with (Nat.ltb (k - S c) m);
             rewrite IH; destruct closed; [|reflexivity];
             destruct (Nat.ltb (k - S c) m); f_equal; lia).
      rewrite R. cbv beta iota. rewrite Nat.sub_diag. cbn. rewrite Nat.add_0_r. reflexivity.
    + rewrite R. reflexivity.
Qed.

Lemma top_commas_seen : forall ts d c k, top_commas d ts c true = Some (k, false) -> False.
Proof.
  induction ts as [|t r IH]; intros d c k H; simpl in H; [discriminate|].
  destruct t, d; simpl in H; try (eapply IH; eassumption); discriminate.
Qed.

Lemma repeat_length' : forall m, length (repeat false m) = m.
Proof. intros. apply repeat_length. Qed.

(* the invocation is accepted exactly when C11 6.10.3p4 allows it, for every macro signature and token list *)
Theorem macro_arity : forall (named : nat) (variadic : bool) (ts : list atok),
  expandfunc_arity (macro_params named variadic) ts = AOk <-> c11_arity_ok named variadic ts = true.
Proof.
  intros named variadic ts. unfold expandfunc_arity, c11_arity_ok, macro_params.
  pose proof (top_commas_scan ts 0 0 false) as T.
  destruct variadic.
  - (* variadic *)
    rewrite app_length, repeat_length. cbn [length]. pose proof (readargs_variadic named 0 ts 0) as R.
    destruct (scan 0 ts 0) as [k closed] eqn:Sc. rewrite R. rewrite Nat.sub_0_r.
    destruct (top_commas 0 ts 0 false) as [[k' s']|].
    + inversion T; subst k' closed. cbn [Nat.add].
      destruct (Nat.ltb k named) eqn:L.
      * apply Nat.ltb_lt in L. replace (Nat.ltb (S k) (named + 1)) with true by (symmetry; apply Nat.ltb_lt; lia).
        replace (Nat.ltb named (S k)) with false by (symmetry; apply Nat.ltb_ge; lia). split; discriminate.
      * apply Nat.ltb_ge in L. replace (Nat.ltb (S named) (named + 1)) with false by (symmetry; apply Nat.ltb_ge; lia).
        replace (Nat.ltb named (S k)) with true by (symmetry; apply Nat.ltb_lt; lia). split; reflexivity.
    + cbn [snd] in T. subst closed. split; discriminate.
  - (* not variadic *)
    rewrite app_nil_r, repeat_length.
    destruct named as [|n].
    + cbn [repeat readargs Nat.ltb Nat.leb Nat.eqb andb orb].
      destruct ts as [|t r]; [cbn; split; discriminate|].
      destruct t; cbn [top_commas negb];
        try (destruct (top_commas _ r _ true) as [[k s]|] eqn:E; [destruct s; [cbn; split; discriminate|exfalso; eapply top_commas_seen; eassumption]|cbn; split; discriminate]).
      cbn. split; reflexivity.
    + pose proof (readargs_named (S n) 0 ts 0) as R.
      destruct (scan 0 ts 0) as [k closed] eqn:Sc. rewrite Nat.sub_0_r in R. cbn [Nat.add] in R.
      destruct (top_commas 0 ts 0 false) as [[k' s']|].
      * inversion T; subst k' closed.
        destruct (Nat.ltb k (S n)) eqn:L.
        -- rewrite R. apply Nat.ltb_lt in L.
           destruct (Nat.eq_dec (S k) (S n)) as [E|NE].
           ++ replace (Nat.ltb (S k) (S n)) with false by (symmetry; apply Nat.ltb_ge; lia).
              rewrite (proj2 (Nat.eqb_eq _ _) E). split; reflexivity.
           ++ replace (Nat.ltb (S k) (S n)) with true by (symmetry; apply Nat.ltb_lt; lia).
              rewrite (proj2 (Nat.eqb_neq _ _) NE). split; discriminate.
        -- destruct R as [rp R]. rewrite R. apply Nat.ltb_ge in L.
           replace (Nat.ltb (S (S n)) (S n)) with false by (symmetry; apply Nat.ltb_ge; lia).
           rewrite Nat.eqb_refl. replace (Nat.ltb 0 (S n)) with true by reflexivity.
           rewrite orb_true_r.
           replace (Nat.eqb (S k) (S n)) with false by (symmetry; apply Nat.eqb_neq; lia). split; discriminate.
      * cbn [snd] in T. subst closed.
        destruct (Nat.ltb k (S n)).
        -- rewrite R. split; discriminate.
        -- destruct R as [rp R]. rewrite R.
           replace (Nat.ltb (S (S n)) (S n)) with false by (symmetry; apply Nat.ltb_ge; lia).
           rewrite Nat.eqb_refl. replace (Nat.ltb 0 (S n)) with true by reflexivity.
           rewrite orb_true_r. split; discriminate.
Qed.

(* the three ways an invocation is rejected are the three the code reports *)
Theorem macro_arity_examples :
  expandfunc_arity (macro_params 2 false) [AOther; ARParen] = ANotEnough /\
  expandfunc_arity (macro_params 1 false) [AOther; AComma; ARParen] = ATooMany /\
  expandfunc_arity (macro_params 0 false) [AOther; ARParen] = ATooMany /\
  expandfunc_arity (macro_params 1 true) [AOther; ARParen] = ANotEnough /\
  expandfunc_arity (macro_params 2 false) [AOther; AComma; ALParen; AComma] = AEof /\
  expandfunc_arity (macro_params 1 false) [ARParen] = AOk /\
  expandfunc_arity (macro_params 1 true) [AOther; AComma; ALParen; AComma; ARParen; AComma; ARParen] = AOk.
Proof. repeat split; reflexivity. Qed.
