(* C10 - the two keyword-combination tables of decl.c against C11: type specifiers (6.7.2p2) and
   storage-class specifiers (6.7.1p2).  Both theorems quantify over ALL keyword lists (no length bound):
   a pruned exhaustive search runs inside the kernel (vm_compute), and a soundness lemma for the search
   lifts its result to every list.  The tables come from Gen/ChecksTables.v, so these proofs are
   re-checked against whatever decl.c contains now. *)
From Coq Require Import String List NArith Bool Arith Lia.
From Cproc Require Import Spec.Constraints Gen.ChecksTables Model.Checks.
Import ListNotations.
Local Open Scope list_scope.
Local Open Scope nat_scope.

(* ------------------------------------------------------------------ pruned exhaustive search over all lists *)
Section Sweep.
  Variable A : Type.
  Variable alphabet : list A.
  Hypothesis alphabet_complete : forall a : A, In a alphabet.
  Variable check : list A -> bool.          (* the statement for one list *)
  Variable pruned : list A -> bool.         (* the statement holds for every extension of this prefix *)
  Hypothesis pruned_sound : forall p, pruned p = true -> forall s, check (p ++ s) = true.

  (* written with if-then-else: the virtual machine evaluates the arguments of andb/orb eagerly *)
  Fixpoint sweep (n : nat) (p : list A) : bool :=
    if check p then
      if pruned p then true
      else match n with
           | O => false
           | S n' => forallb (fun a => sweep n' (p ++ [a])) alphabet
           end
    else false.

  Lemma sweep_sound : forall n p, sweep n p = true -> forall s, check (p ++ s) = true.
  Proof.
    induction n as [|n IH]; intros p H s; simpl in H; destruct (check p) eqn:Hc; try discriminate;
      destruct (pruned p) eqn:Hp; try (apply pruned_sound; assumption); try discriminate.
    destruct s as [|a s].
    - rewrite app_nil_r. exact Hc.
    - rewrite forallb_forall in H. specialize (H a (alphabet_complete a)).
      replace (p ++ a :: s) with ((p ++ [a]) ++ s) by (rewrite <- app_assoc; reflexivity).
      apply IH. exact H.
  Qed.

  Theorem sweep_all : forall n, sweep n [] = true -> forall l, check l = true.
  Proof. intros n H l. exact (sweep_sound n [] H l). Qed.
End Sweep.

(* ------------------------------------------------------------------ (a) type specifiers *)
Lemma all_tskw_complete : forall k : tskw, In k all_tskw.
Proof. destruct k; simpl; tauto. Qed.

Lemma ts_run_app : forall p s, ts_run (p ++ s) =
  fold_left (fun acc k => match acc with inl e => inl e | inr st => ts_step st k end) s (ts_run p).
Proof. intros. unfold ts_run. apply fold_left_app. Qed.

Lemma ts_fold_err : forall s e,
  fold_left (fun acc k => match acc with inl e => inl e | inr st => ts_step st k end) s (inl e) = inl e.
Proof. induction s; simpl; auto. Qed.

Lemma ts_run_sticky : forall p s e, ts_run p = inl e -> ts_run (p ++ s) = inl e.
Proof. intros. rewrite ts_run_app, H. apply ts_fold_err. Qed.

Lemma ts_count_app : forall k a b, ts_count k (a ++ b) = ts_count k a + ts_count k b.
Proof. intros. unfold ts_count. rewrite filter_app, app_length. reflexivity. Qed.

(* a list that is not a sub-multiset of any row of 6.7.2p2 has no extension that is one of the rows *)
Definition ts_dead (p : list tskw) : bool :=
  forallb (fun r => negb (ts_sub p (fst r))) c11_typespec_rows.

Lemma ts_perm_sub : forall p s r, ts_perm (p ++ s) r = true -> ts_sub p r = true.
Proof.
  intros p s r H. unfold ts_perm in H. unfold ts_sub. rewrite forallb_forall in *.
  intros k Hk. specialize (H k Hk). apply Nat.eqb_eq in H. apply Nat.leb_le.
  rewrite ts_count_app in H. lia.
Qed.

Lemma ts_dead_spec : forall p s, ts_dead p = true -> c11_typespec (p ++ s) = None.
Proof.
  intros p s H. unfold c11_typespec.
  destruct (find (fun r => ts_perm (p ++ s) (fst r)) c11_typespec_rows) eqn:F; auto.
  apply find_some in F. destruct F as [Hin Hp].
  unfold ts_dead in H. rewrite forallb_forall in H. specialize (H _ Hin).
  rewrite (ts_perm_sub _ _ _ Hp) in H. discriminate.
Qed.

Definition option_ctype_eqb (a b : option ctype) : bool :=
  match a, b with
  | None, None => true
  | Some x, Some y => ctype_eqb x y
  | _, _ => false
  end.

Lemma ctype_eqb_eq : forall a b, ctype_eqb a b = true -> a = b.
Proof. destruct a, b; simpl; intros; try discriminate; reflexivity. Qed.

Lemma option_ctype_eqb_eq : forall a b, option_ctype_eqb a b = true -> a = b.
Proof. destruct a, b; simpl; intros; try discriminate; auto. f_equal. apply ctype_eqb_eq. assumption. Qed.

(* the same specification computed from count vectors (one pass over the list, rows precomputed);
   proved equal to the definitions of Spec/Constraints.v, used only to make the search fast *)
Definition counts (l : list tskw) : list nat := map (fun k => ts_count k l) all_tskw.

Fixpoint nats_eqb (a b : list nat) : bool :=
  match a, b with
  | [], [] => true
  | x :: a', y :: b' => if Nat.eqb x y then nats_eqb a' b' else false
  | _, _ => false
  end.

Fixpoint nats_leb (a b : list nat) : bool :=
  match a, b with
  | [], [] => true
  | x :: a', y :: b' => if Nat.leb x y then nats_leb a' b' else false
  | _, _ => false
  end.

Lemma forallb_nats_eqb : forall (f g : tskw -> nat) ks,
  forallb (fun k => Nat.eqb (f k) (g k)) ks = nats_eqb (map f ks) (map g ks).
Proof. induction ks; simpl; auto. destruct (Nat.eqb (f a) (g a)); simpl; auto. Qed.

Lemma forallb_nats_leb : forall (f g : tskw -> nat) ks,
  forallb (fun k => Nat.leb (f k) (g k)) ks = nats_leb (map f ks) (map g ks).
Proof. induction ks; simpl; auto. destruct (Nat.leb (f a) (g a)); simpl; auto. Qed.

Lemma ts_perm_fast : forall a b, ts_perm a b = nats_eqb (counts a) (counts b).
Proof. intros. unfold ts_perm, counts. apply forallb_nats_eqb. Qed.

Lemma ts_sub_fast : forall a b, ts_sub a b = nats_leb (counts a) (counts b).
Proof. intros. unfold ts_sub, counts. apply forallb_nats_leb. Qed.

Definition rows_fast : list (list nat * ctype) :=
  Eval vm_compute in map (fun r => (counts (fst r), snd r)) c11_typespec_rows.

Lemma rows_fast_eq : rows_fast = map (fun r => (counts (fst r), snd r)) c11_typespec_rows.
Proof. vm_compute. reflexivity. Qed.

Definition c11_fast (l : list tskw) : option ctype :=
  let c := counts l in
  match find (fun r => nats_eqb c (fst r)) rows_fast with
  | Some r => Some (snd r)
  | None => None
  end.

Definition dead_fast (p : list tskw) : bool :=
  let c := counts p in forallb (fun r => negb (nats_leb c (fst r))) rows_fast.

Lemma c11_fast_eq : forall l, c11_fast l = c11_typespec l.
Proof.
  intros l. unfold c11_fast, c11_typespec. rewrite rows_fast_eq.
  induction c11_typespec_rows as [|r rows IH]; [reflexivity|].
  cbn [map find fst snd]. rewrite <- ts_perm_fast. destruct (ts_perm l (fst r)); [reflexivity|exact IH].
Qed.

Lemma dead_fast_eq : forall p, dead_fast p = ts_dead p.
Proof.
  intros p. unfold dead_fast, ts_dead. rewrite rows_fast_eq.
  induction c11_typespec_rows as [|r rows IH]; [reflexivity|].
  cbn [map forallb fst snd]. rewrite <- ts_sub_fast, IH. reflexivity.
Qed.

(* the statement for one list: the model's type is the specification's, and a non-empty list the
   specification rejects is rejected with a diagnostic (not by returning "no type") *)
Definition ts_check (l : list tskw) : bool :=
  let sp := c11_fast l in
  let md := typespec l in
  if option_ctype_eqb (match md with inr t => t | inl _ => None end) sp then
    match l, sp, md with
    | _ :: _, None, inr _ => false
    | _, _, _ => true
    end
  else false.

Definition ts_pruned (p : list tskw) : bool :=
  match ts_run p with inl _ => dead_fast p | inr _ => false end.

Lemma ts_pruned_sound : forall p, ts_pruned p = true -> forall s, ts_check (p ++ s) = true.
Proof.
  intros p H s. unfold ts_pruned in H. destruct (ts_run p) eqn:R; try discriminate.
  rewrite dead_fast_eq in H.
  unfold ts_check, typespec. rewrite c11_fast_eq, (ts_run_sticky _ s _ R), (ts_dead_spec _ s H).
  simpl. destruct (p ++ s); reflexivity.
Qed.

(* every list that survives 7 keywords has been rejected by the model and cannot become a row *)
Lemma ts_sweep : sweep tskw all_tskw ts_check ts_pruned 7 [] = true.
Proof. vm_compute. reflexivity. Qed.

Lemma ts_check_all : forall l, ts_check l = true.
Proof. exact (sweep_all tskw all_tskw all_tskw_complete ts_check ts_pruned ts_pruned_sound 7 ts_sweep). Qed.

(* the type the compiler gives a list of type specifier keywords is the one 6.7.2p2 assigns to its
   multiset; every other list (any order, any length, any repetition) is rejected *)
Theorem typespec_table_spec : forall l : list tskw, typespec_type l = c11_typespec l.
Proof.
  intros l. pose proof (ts_check_all l) as H. unfold ts_check in H. rewrite c11_fast_eq in H.
  unfold typespec_type. apply option_ctype_eqb_eq.
  destruct (option_ctype_eqb match typespec l with inr t => t | inl _ => None end (c11_typespec l)); [reflexivity|discriminate].
Qed.

(* a rejected list is rejected with a diagnostic (inl), never by falling through with "no type" *)
Theorem typespec_rejects_with_error : forall l : list tskw,
  l <> [] -> c11_typespec l = None -> exists e, typespec l = inl e.
Proof.
  intros l Hne Hs. pose proof (ts_check_all l) as H. unfold ts_check in H. rewrite c11_fast_eq, Hs in H.
  destruct l as [|k l]; [congruence|].
  destruct (typespec (k :: l)) as [e|t]; [eauto|].
  destruct (option_ctype_eqb t None); discriminate.
Qed.

(* ------------------------------------------------------------------ (b) storage-class specifiers *)
Lemma all_sckw_complete : forall k : sckw, In k all_sckw.
Proof. destruct k; simpl; tauto. Qed.

Lemma sc_run_app : forall p s, sc_run (p ++ s) =
  fold_left (fun acc k => match acc with None => None | Some sc => sc_step sc k end) s (sc_run p).
Proof. intros. unfold sc_run. apply fold_left_app. Qed.

Lemma sc_fold_none : forall s,
  fold_left (fun acc k => match acc with None => None | Some sc => sc_step sc k end) s None = None.
Proof. induction s; simpl; auto. Qed.

Lemma sc_run_sticky : forall p s, sc_run p = None -> sc_run (p ++ s) = None.
Proof. intros. rewrite sc_run_app, H. apply sc_fold_none. Qed.

Lemma c11_storage_long : forall p s, 3 <= length p -> c11_storage_ok (p ++ s) = false.
Proof.
  intros p s H. destruct p as [|a [|b [|c p]]]; simpl in H; try lia. reflexivity.
Qed.

Definition all_dctx := [AtFile; AtBlock; AtParam].
Definition all_dkind := [DObject; DFunction; DTypedef].

(* acceptance of the combination, and for accepted combinations the context tests *)
Definition sc_check (l : list sckw) : bool :=
  match sc_run l with
  | None => negb (c11_storage_ok l)
  | Some sc => c11_storage_ok l &&
               forallb (fun c => forallb (fun k => Bool.eqb (sc_ctx_check c k sc) (c11_storage_ctx_ok c k l)) all_dkind) all_dctx
  end.

Definition sc_pruned (p : list sckw) : bool :=
  match sc_run p with None => Nat.leb 3 (length p) | Some _ => false end.

Lemma sc_pruned_sound : forall p, sc_pruned p = true -> forall s, sc_check (p ++ s) = true.
Proof.
  intros p H s. unfold sc_pruned in H. destruct (sc_run p) eqn:R; try discriminate.
  apply Nat.leb_le in H. unfold sc_check. rewrite (sc_run_sticky _ s R), (c11_storage_long _ s H). reflexivity.
Qed.

Lemma sc_sweep : sweep sckw all_sckw sc_check sc_pruned 4 [] = true.
Proof. vm_compute. reflexivity. Qed.

Lemma sc_check_all : forall l, sc_check l = true.
Proof. exact (sweep_all sckw all_sckw all_sckw_complete sc_check sc_pruned sc_pruned_sound 4 sc_sweep). Qed.

(* storageclass() accepts a list of storage-class keywords exactly when 6.7.1p2 allows it *)
Theorem storageclass_table_spec : forall l : list sckw,
  (exists sc, sc_run l = Some sc) <-> c11_storage_ok l = true.
Proof.
  intros l. pose proof (sc_check_all l) as H. unfold sc_check in H.
  destruct (sc_run l) eqn:R.
  - apply andb_true_iff in H. destruct H as [H _]. split; eauto.
  - apply negb_true_iff in H. split; [intros [sc Hs]; discriminate | congruence].
Qed.

(* and for an accepted set the tests of decl()/parameter() agree with 6.7.1p3, 6.7.1p7, 6.9p2, 6.7.6.3p2 *)
Theorem storageclass_context_spec : forall (l : list sckw) (sc : N) (c : dctx) (k : dkind),
  sc_run l = Some sc -> sc_ctx_check c k sc = c11_storage_ctx_ok c k l.
Proof.
  intros l sc c k R. pose proof (sc_check_all l) as H. unfold sc_check in H. rewrite R in H.
  apply andb_true_iff in H. destruct H as [_ H]. rewrite forallb_forall in H.
  assert (Hc : In c all_dctx) by (destruct c; simpl; tauto).
  specialize (H c Hc). rewrite forallb_forall in H.
  assert (Hk : In k all_dkind) by (destruct k; simpl; tauto).
  specialize (H k Hk). apply Bool.eqb_prop in H. exact H.
Qed.
