(* C10 - the census of diagnostic sites (Gen/Sites.v, regenerated from the source on every run) against
   the committed catalogue (Gen/SitesCat.v, rendered from catalogue/c10/*.py on every run).
   Both directions are decided inside the kernel. *)
From Coq Require Import String List Bool.
From Cproc Require Import Spec.Constraints Gen.Sites Gen.SitesCat.
Import ListNotations.

Lemma sites_covered_b : forallb (covered catalogue) sites = true.
Proof. vm_compute. reflexivity. Qed.

Lemma catalogue_anchored_b : forallb (anchored sites) catalogue = true.
Proof. vm_compute. reflexivity. Qed.

(* every error/fatal/expect/tokencheck/assert call of the compiler proper has a catalogue entry with at
   least one violating template or a justification *)
Theorem sites_covered : forall s, In s sites -> covered catalogue s = true.
Proof. intros s H. exact (proj1 (forallb_forall _ _) sites_covered_b s H). Qed.

(* and no catalogue entry is dangling: each names a site that exists in the source (same text, same count) *)
Theorem catalogue_anchored : forall c, In c catalogue -> anchored sites c = true.
Proof. intros c H. exact (proj1 (forallb_forall _ _) catalogue_anchored_b c H). Qed.

(* the census is not trivial *)
Lemma sites_nonempty : 300 <= length sites.
Proof. vm_compute. repeat constructor. Qed.
