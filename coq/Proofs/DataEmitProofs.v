(* C07 - proof that qbe.c:emitdata (Model/DataEmit.v) emits exactly the image of a sorted, non-overlapping
   init list (Spec/InitSpec.v): invariant of the (offset, bits) state of the loop. *)
From Coq Require Import List NArith Bool Lia Sorted PeanoNat.
From Cproc Require Import Lib.InitBits Model.Init Model.DataEmit Spec.InitSpec Proofs.InitProofs.
Import ListNotations.
Local Open Scope N_scope.
Local Arguments N.mul : simpl never.
Local Arguments N.add : simpl never.
Local Arguments N.pow : simpl never.
Local Arguments N.modulo : simpl never.
Local Arguments N.div : simpl never.
Local Arguments N.sub : simpl never.

(* ------------------------------------------------------------------------- numbers and byte lists *)
Definition blen (bs : list N) : N := N.of_nat (length bs).

Lemma pow2_pos k : 0 < 2 ^ k.
Proof. apply N.neq_0_lt_0. apply N.pow_nonzero. discriminate. Qed.

Lemma pow2_add a b : 2 ^ (a + b) = 2 ^ a * 2 ^ b.
Proof. apply N.pow_add_r. Qed.

Lemma bytes_num_lt bs : bytes_num bs < 2 ^ (8 * blen bs).
Proof.
  unfold blen. induction bs as [|b r IH]; simpl length; [simpl; lia|].
  rewrite Nat2N.inj_succ. replace (8 * N.succ (N.of_nat (length r))) with (8 + 8 * N.of_nat (length r)) by lia.
  rewrite pow2_add. change (2 ^ 8) with 256. simpl bytes_num.
  assert (H : b mod 256 < 256) by (apply N.mod_lt; discriminate).
  remember (2 ^ (8 * N.of_nat (length r))) as p. remember (b mod 256) as m. remember (bytes_num r) as y.
  clear - IH H. lia.
Qed.

Lemma bytes_num_app a b : bytes_num (a ++ b) = bytes_num a + 2 ^ (8 * blen a) * bytes_num b.
Proof.
  unfold blen. induction a as [|x a IH]; simpl length; simpl app.
  - simpl. lia.
  - rewrite Nat2N.inj_succ. replace (8 * N.succ (N.of_nat (length a))) with (8 + 8 * N.of_nat (length a)) by lia.
    rewrite pow2_add. change (2 ^ 8) with 256. simpl bytes_num. rewrite IH. lia.
Qed.

Lemma blen_app a b : blen (a ++ b) = blen a + blen b.
Proof. unfold blen. rewrite app_length. lia. Qed.

Lemma le_bytes_len n v : blen (le_bytes n v) = N.of_nat n.
Proof. unfold blen. revert v. induction n; intros v; [reflexivity|]. cbn [le_bytes length]. rewrite !Nat2N.inj_succ, IHn. reflexivity. Qed.

Lemma le_bytes_num n : forall v, bytes_num (le_bytes n v) = v mod 2 ^ (8 * N.of_nat n).
Proof.
  induction n as [|n IH]; intros v.
  - simpl. rewrite N.mod_1_r. reflexivity.
  - rewrite Nat2N.inj_succ. replace (8 * N.succ (N.of_nat n)) with (8 + 8 * N.of_nat n) by lia.
    rewrite pow2_add. change (2 ^ 8) with 256. simpl. rewrite IH.
    rewrite N.mod_mod by discriminate.
    rewrite N.mod_mul_r; [reflexivity|discriminate|apply N.pow_nonzero; discriminate].
Qed.

Lemma repeat0_num n : bytes_num (repeat 0 n) = 0.
Proof. induction n; simpl; [reflexivity|]. rewrite IHn. reflexivity. Qed.

Lemma repeat_len (x : N) n : blen (repeat x n) = N.of_nat n.
Proof. unfold blen. rewrite repeat_length. reflexivity. Qed.

(* items *)
Definition inum (en : env) (its : list item) : N := bytes_num (items_bytes (symaddr en) its).
Definition ilen (en : env) (its : list item) : N := blen (items_bytes (symaddr en) its).

Lemma items_bytes_app f a b : items_bytes f (a ++ b) = items_bytes f a ++ items_bytes f b.
Proof. unfold items_bytes. apply flat_map_app. Qed.

Lemma inum_app en a b : inum en (a ++ b) = inum en a + 2 ^ (8 * ilen en a) * inum en b.
Proof. unfold inum, ilen. rewrite items_bytes_app. apply bytes_num_app. Qed.

Lemma ilen_app en a b : ilen en (a ++ b) = ilen en a + ilen en b.
Proof. unfold ilen. rewrite items_bytes_app. apply blen_app. Qed.

Lemma inum_lt en its : inum en its < 2 ^ (8 * ilen en its).
Proof. apply bytes_num_lt. Qed.

Lemma ilen_zero en n : ilen en [IZero n] = n.
Proof. unfold ilen, items_bytes. simpl. rewrite app_nil_r, repeat_len. apply N2Nat.id. Qed.

Lemma inum_zero en n : inum en [IZero n] = 0.
Proof. unfold inum, items_bytes. simpl. rewrite app_nil_r. apply repeat0_num. Qed.

Lemma ilen_byte en v : ilen en [IInt 1 [v]] = 1.
Proof. reflexivity. Qed.

Lemma inum_byte en v : inum en [IInt 1 [v]] = v mod 256.
Proof. unfold inum, items_bytes. simpl. rewrite N.mod_mod by discriminate. lia. Qed.

(* strings *)
Lemma strnum_bytes1 data : bytes_num (map (fun b => b mod 256) data) = strnum 1 data.
Proof.
  induction data as [|c r IH]; simpl; [reflexivity|]. rewrite IH. rewrite N.mod_mod by discriminate.
  change (2 ^ (8 * 1)) with 256. reflexivity.
Qed.

Lemma strnum_wide w data : bytes_num (flat_map (fun v => le_bytes (N.to_nat w) v) data) = strnum w data.
Proof.
  induction data as [|c r IH]; simpl; [reflexivity|].
  rewrite bytes_num_app, le_bytes_num, le_bytes_len, IH, N2Nat.id. reflexivity.
Qed.

Lemma strnum_lt w data : strnum w data < 2 ^ (8 * w * N.of_nat (length data)).
Proof.
  induction data as [|c r IH]; simpl length; [cbn [strnum]; change (N.of_nat 0) with 0; rewrite N.mul_0_r; change (2 ^ 0) with 1; lia|].
  rewrite Nat2N.inj_succ. replace (8 * w * N.succ (N.of_nat (length r))) with (8 * w + 8 * w * N.of_nat (length r)) by lia.
  rewrite pow2_add. simpl strnum.
  assert (c mod 2 ^ (8 * w) < 2 ^ (8 * w)) by (apply N.mod_lt; apply N.pow_nonzero; discriminate). nia.
Qed.

(* truncation of a string to k elements = its number modulo 2^(8 w k) *)
Lemma strnum_firstn w : forall k data, strnum w data mod 2 ^ (8 * w * N.of_nat k) = strnum w (firstn k data).
Proof.
  induction k as [|k IH]; intros data.
  - simpl. rewrite N.mul_0_r. simpl. apply N.mod_1_r.
  - destruct data as [|c r].
    + simpl. apply N.mod_0_l. apply N.pow_nonzero. discriminate.
    + rewrite Nat2N.inj_succ. replace (8 * w * N.succ (N.of_nat k)) with (8 * w + 8 * w * N.of_nat k) by lia.
      rewrite pow2_add. simpl firstn. simpl strnum. rewrite <- IH.
      rewrite N.mod_mul_r by (apply N.pow_nonzero; discriminate).
      assert (Hc : c mod 2 ^ (8 * w) < 2 ^ (8 * w)) by (apply N.mod_lt; apply N.pow_nonzero; discriminate).
      rewrite (N.mul_comm (2 ^ (8 * w)) (strnum w r)).
      rewrite N.mod_add by (apply N.pow_nonzero; discriminate).
      rewrite N.mod_small by exact Hc.
      rewrite N.div_add by (apply N.pow_nonzero; discriminate).
      rewrite N.div_small by exact Hc. rewrite N.add_0_l. reflexivity.
Qed.

(* ------------------------------------------------------------------------------ arithmetic core *)
Lemma small_bits_high a k n : a < 2 ^ k -> k <= n -> N.testbit a n = false.
Proof. intros H Hn. rewrite <- (N.mod_small a (2 ^ k) H). apply N.mod_pow2_bits_high. exact Hn. Qed.

Lemma lor_add_disjoint a b k : a < 2 ^ k -> N.lor a (b * 2 ^ k) = a + b * 2 ^ k.
Proof.
  intros H. assert (Hl : N.land a (b * 2 ^ k) = 0).
  { apply N.bits_inj. intros n. rewrite N.land_spec, N.bits_0.
    destruct (N.lt_ge_cases n k) as [Hn|Hn].
    - rewrite N.mul_pow2_bits_low by exact Hn. apply andb_false_r.
    - rewrite (small_bits_high a k n H Hn). reflexivity. }
  rewrite N.add_nocarry_lxor by exact Hl. symmetry. apply N.lxor_lor. exact Hl.
Qed.

Lemma setbits_above x p w v : x < 2 ^ p -> setbits x p w v = x + (v mod 2 ^ w) * 2 ^ p.
Proof.
  intros H. unfold setbits. rewrite (N.shiftl_mul_pow2 (v mod 2 ^ w)).
  assert (E : N.ldiff x (N.shiftl (N.ones w) p) = x).
  { apply N.bits_inj. intros n. rewrite N.ldiff_spec.
    destruct (N.lt_ge_cases n p) as [Hn|Hn].
    - rewrite N.shiftl_spec_low by exact Hn. apply andb_true_r.
    - rewrite (small_bits_high x p n H Hn). reflexivity. }
  rewrite E. apply lor_add_disjoint. exact H.
Qed.

Lemma mod_split x a b : x mod 2 ^ (a + b) = x mod 2 ^ a + 2 ^ a * ((x / 2 ^ a) mod 2 ^ b).
Proof. rewrite pow2_add. apply N.mod_mul_r; apply N.pow_nonzero; discriminate. Qed.

Lemma mod_mod_pow x a b : a <= b -> (x mod 2 ^ b) mod 2 ^ a = x mod 2 ^ a.
Proof.
  intros H. replace b with (a + (b - a)) by lia. rewrite mod_split.
  rewrite N.mul_comm, N.mod_add by (apply N.pow_nonzero; discriminate).
  apply N.mod_mod. apply N.pow_nonzero. discriminate.
Qed.

Lemma shl_mod u sh w : sh + w <= 64 -> ((u * 2 ^ sh) mod 2 ^ 64) mod 2 ^ (sh + w) = (u mod 2 ^ w) * 2 ^ sh.
Proof.
  intros H. rewrite mod_mod_pow by exact H. rewrite (N.add_comm sh w), pow2_add.
  apply N.mul_mod_distr_r; apply N.pow_nonzero; discriminate.
Qed.

Lemma mask_ones r : r < 8 -> N.shiftr 127 r = N.ones (7 - r).
Proof.
  intros H.
  assert (C : r = 0 \/ r = 1 \/ r = 2 \/ r = 3 \/ r = 4 \/ r = 5 \/ r = 6 \/ r = 7) by lia.
  destruct C as [->|[->|[->|[->|[->|[->|[->| ->]]]]]]]; reflexivity.
Qed.

Lemma M64_pow : M64 = 2 ^ 64.
Proof. reflexivity. Qed.

Lemma emit_bytes_spec en : forall n W acc, exists its,
  emit_bytes n W acc = (W / 2 ^ (8 * N.of_nat n), acc ++ its) /\ ilen en its = N.of_nat n /\
  inum en its = W mod 2 ^ (8 * N.of_nat n).
Proof.
  induction n as [|n IH]; intros W acc.
  - exists []. cbn [emit_bytes]. change (8 * N.of_nat 0) with 0. change (2 ^ 0) with 1.
    rewrite N.div_1_r, N.mod_1_r, app_nil_r. repeat split; reflexivity.
  - cbn [emit_bytes]. destruct (IH (W / 256) (acc ++ [IInt 1 [W mod 256]])) as (its & E & Hl & Hn).
    exists (IInt 1 [W mod 256] :: its). rewrite E, <- app_assoc. cbn [app].
    rewrite Nat2N.inj_succ. replace (8 * N.succ (N.of_nat n)) with (8 + 8 * N.of_nat n) by lia.
    split; [|split].
    + f_equal. rewrite pow2_add. change (2 ^ 8) with 256. apply N.div_div; [discriminate|apply N.pow_nonzero; discriminate].
    + change (IInt 1 [W mod 256] :: its) with ([IInt 1 [W mod 256]] ++ its). rewrite ilen_app, Hl, ilen_byte. lia.
    + change (IInt 1 [W mod 256] :: its) with ([IInt 1 [W mod 256]] ++ its).
      rewrite inum_app, ilen_byte, inum_byte, Hn, mod_split. change (8 * 1) with 8. change (2 ^ 8) with 256.
      rewrite N.mod_mod by discriminate. reflexivity.
Qed.

(* --------------------------------------------------------------------- well-formed entries *)
Definition isbf (i : init) : bool := negb (bf_before (i_bits i) =? 0) || negb (bf_after (i_bits i) =? 0).

Definition wf_entry (i : init) : Prop :=
  i_start i < i_end i /\ i_end i * 8 < M64 /\
  let b := bf_before (i_bits i) in let a := bf_after (i_bits i) in
  match i_expr i with
  | EConst isflt sz u => sz = i_end i - i_start i /\ b + a < 8 * sz /\ (isbf i = false \/ (isflt = false /\ sz <= 8))
  | EAddr _ _ => i_end i - i_start i = 8 /\ isbf i = false
  | EString w data => (w = 1 \/ w = 2 \/ w = 4) /\ (i_end i - i_start i) mod w = 0 /\ isbf i = false
  | EOpaque _ _ _ _ => False
  end.

Lemma isbf_false i : isbf i = false -> bf_before (i_bits i) = 0 /\ bf_after (i_bits i) = 0.
Proof.
  unfold isbf. intros H. apply orb_false_elim in H. destruct H as [H1 H2].
  apply negb_false_iff in H1, H2. apply N.eqb_eq in H1, H2. split; assumption.
Qed.

Lemma wf_ranges i : wf_entry i ->
  bstart i = i_start i * 8 + bf_before (i_bits i) /\ bend i = i_end i * 8 - bf_after (i_bits i) /\
  bstart i < bend i /\ bf_before (i_bits i) + bf_after (i_bits i) < 8 * (i_end i - i_start i).
Proof.
  intros (Hse & Hm & H). unfold bstart, bend, w64, sub64.
  assert (Hba : bf_before (i_bits i) + bf_after (i_bits i) < 8 * (i_end i - i_start i)).
  { destruct (i_expr i); cbv zeta in H.
    - destruct H as (-> & H & _). exact H.
    - destruct H as (_ & _ & H). apply isbf_false in H. lia.
    - destruct H as (_ & H). apply isbf_false in H. lia.
    - contradiction. }
  assert (M64 = 18446744073709551616) by reflexivity.
  rewrite (N.mod_small (i_start i * 8 + _)) by lia.
  rewrite (N.mod_small (i_end i * 8)) by lia.
  rewrite (N.mod_small (bf_after _)) by lia.
  replace (i_end i * 8 + (M64 - bf_after (i_bits i))) with ((i_end i * 8 - bf_after (i_bits i)) + 1 * M64) by lia.
  rewrite N.mod_add by lia. rewrite N.mod_small by lia. repeat split; lia.
Qed.

Lemma sub64_small x y : y <= x -> x < M64 -> sub64 x y = x - y.
Proof.
  intros H1 H2. unfold sub64. assert (M64 = 18446744073709551616) by reflexivity.
  rewrite (N.mod_small y) by lia. replace (x + (M64 - y)) with ((x - y) + 1 * M64) by lia.
  rewrite N.mod_add by lia. apply N.mod_small. lia.
Qed.

Lemma w64_small x : x < M64 -> w64 x = x.
Proof. apply N.mod_small. Qed.

Lemma ceil_div_exact len w : w <> 0 -> len mod w = 0 -> (len + w - 1) / w = len / w.
Proof.
  intros Hw Hm. pose proof (N.div_mod len w Hw) as E. rewrite Hm, N.add_0_r in E.
  rewrite E at 1. replace (w * (len / w) + w - 1) with ((w - 1) + (len / w) * w) by lia.
  rewrite N.div_add by exact Hw. rewrite N.div_small by lia. lia.
Qed.

Lemma firstn_all_len {A} (l : list A) n : (length l <= n)%nat -> firstn n l = l.
Proof. apply firstn_all2. Qed.

(* a string literal in an array of `len` bytes: the first min(size, len/w) elements, then zeros *)
Lemma string_items en w data len :
  (w = 1 \/ w = 2 \/ w = 4) -> len mod w = 0 -> len < M64 ->
  exists its, dataitem (EString w data) len = DOk its /\ ilen en its = len /\
              inum en its = strnum w data mod 2 ^ (8 * len).
Proof.
  intros Hw Hm Hlen.
  assert (Hw0 : w <> 0) by (destruct Hw as [->|[->| ->]]; discriminate).
  set (k := len / w). assert (Hk : len = w * k) by (pose proof (N.div_mod len w Hw0) as E; rewrite Hm, N.add_0_r in E; exact E).
  unfold dataitem. rewrite (proj2 (N.eqb_neq w 0)) by exact Hw0. rewrite ceil_div_exact by assumption. fold k.
  set (n := N.min (N.of_nat (length data)) k).
  assert (Hnk : n <= k) by apply N.le_min_r.
  assert (Hnw : n * w <= len) by (rewrite Hk; nia).
  rewrite w64_small by lia.
  (* the elements that are written out *)
  assert (Hnum : strnum w (take_n n data) = strnum w data mod 2 ^ (8 * len) /\ N.of_nat (length (take_n n data)) = n).
  { unfold take_n, n. destruct (N.min_spec (N.of_nat (length data)) k) as [[Hlt ->]|[Hge ->]].
    - rewrite Nat2N.id, firstn_all. split; [|reflexivity]. symmetry. apply N.mod_small.
      eapply N.lt_le_trans; [apply strnum_lt|]. apply N.pow_le_mono_r; [discriminate|]. rewrite Hk. nia.
    - split.
      + rewrite <- strnum_firstn. rewrite N2Nat.id. f_equal. f_equal. rewrite Hk. lia.
      + rewrite firstn_length_le by lia. apply N2Nat.id. }
  destruct Hnum as [Hnum Hcnt].
  assert (Hil : forall its0, ilen en its0 = n * w -> inum en its0 = strnum w data mod 2 ^ (8 * len) ->
            exists its, (if n * w <? len then DOk (its0 ++ [IZero (sub64 len (n * w))]) else DOk its0) = DOk its /\
                        ilen en its = len /\ inum en its = strnum w data mod 2 ^ (8 * len)).
  { intros its0 H1 H2. destruct (N.ltb_spec (n * w) len) as [Hlt|Hge].
    - eexists. split; [reflexivity|]. rewrite ilen_app, inum_app, ilen_zero, inum_zero, H1, H2.
      rewrite sub64_small by lia. split; lia.
    - eexists. split; [reflexivity|]. split; [lia|exact H2]. }
  destruct (N.eqb_spec w 1) as [->|Hw1].
  - (* b "..." *)
    destruct (Hil [IStr (take_n n data)]) as (its & E & H1 & H2).
    + unfold ilen, items_bytes. cbn [flat_map item_bytes]. rewrite app_nil_r. unfold blen. rewrite map_length. lia.
    + unfold inum, items_bytes. cbn [flat_map item_bytes]. rewrite app_nil_r, strnum_bytes1. exact Hnum.
    + exists its. split; [|split; assumption].
      destruct (n * 1 <? len); cbn [app] in E |- *; exact E.
  - assert (Hw24 : (w =? 2) || (w =? 4) = true) by (destruct Hw as [->|[->| ->]]; [congruence|reflexivity|reflexivity]).
    rewrite Hw24.
    destruct (Hil [IInt w (take_n n data)]) as (its & E & H1 & H2).
    + unfold ilen, items_bytes. cbn [flat_map item_bytes]. rewrite app_nil_r.
      assert (Hfl : forall l, blen (flat_map (fun v => le_bytes (N.to_nat w) v) l) = N.of_nat (length l) * w).
      { induction l as [|c r IHr]; [reflexivity|]. cbn [flat_map length]. rewrite blen_app, le_bytes_len, IHr, N2Nat.id, Nat2N.inj_succ. lia. }
      rewrite Hfl, Hcnt. reflexivity.
    + unfold inum, items_bytes. cbn [flat_map item_bytes]. rewrite app_nil_r, strnum_wide. exact Hnum.
    + exists its. split; [|split; assumption].
      destruct (n * w <? len); cbn [app] in E |- *; exact E.
Qed.

Lemma dataitem_spec en i : wf_entry i -> isbf i = false ->
  exists its, dataitem (i_expr i) (sub64 (i_end i) (i_start i)) = DOk its /\
    ilen en its = i_end i - i_start i /\
    inum en its = payload_num en (payload_of (i_expr i)) mod 2 ^ (8 * (i_end i - i_start i)).
Proof.
  intros (Hse & Hm & H) Hbf. assert (HM : M64 = 18446744073709551616) by reflexivity.
  rewrite sub64_small by lia.
  destruct (i_expr i) as [isflt sz u|w data|sym off|]; cbv zeta in H.
  - destruct H as (Hsz & _ & _). subst sz. cbn [dataitem payload_of payload_num].
    eexists. split; [reflexivity|].
    assert (E : items_bytes (symaddr en) [if isflt then IFlt (i_end i - i_start i) u else IInt (i_end i - i_start i) [u]]
                = le_bytes (N.to_nat (i_end i - i_start i)) u).
    { destruct isflt; unfold items_bytes; cbn [flat_map item_bytes]; rewrite ?app_nil_r; reflexivity. }
    unfold ilen, inum. rewrite E, le_bytes_len, le_bytes_num, N2Nat.id. split; reflexivity.
  - destruct H as (Hw & Hmod & _). cbn [payload_of payload_num]. apply string_items; [exact Hw|exact Hmod|lia].
  - destruct H as (H8 & _). rewrite H8. cbn [dataitem payload_of payload_num].
    eexists. split; [reflexivity|]. unfold ilen, inum, items_bytes. cbn [flat_map item_bytes]. rewrite app_nil_r.
    rewrite le_bytes_len, le_bytes_num. split; [reflexivity|]. unfold w64. rewrite M64_pow.
    change (8 * N.of_nat 8) with 64. change (8 * 8) with 64. rewrite !N.mod_mod by (apply N.pow_nonzero; discriminate). reflexivity.
  - contradiction.
Qed.

(* ------------------------------------------------------------------------------ the loop invariant *)
Lemma state_lt x a y b : x < 2 ^ a -> y < 2 ^ b -> x + 2 ^ a * y < 2 ^ (a + b).
Proof. intros H1 H2. rewrite pow2_add. nia. Qed.

Lemma flush_gap_spec en offset bits acc start F :
  ilen en acc = offset -> offset <= start -> start * 8 < M64 ->
  8 * offset <= F -> F < 8 * offset + 8 -> bits < 2 ^ (F - 8 * offset) ->
  exists bits1 acc2, flush_gap offset bits start acc = (bits1, acc2) /\ ilen en acc2 = start /\
    inum en acc2 + 2 ^ (8 * start) * bits1 = inum en acc + 2 ^ (8 * offset) * bits /\
    ((offset = start /\ bits1 = bits) \/ (offset < start /\ bits1 = 0)).
Proof.
  intros Hl Hle Hs HF1 HF2 Hb. assert (HM : M64 = 18446744073709551616) by reflexivity. unfold flush_gap.
  assert (Hb128 : bits < 256).
  { eapply N.lt_le_trans; [exact Hb|]. change 256 with (2 ^ 8). apply N.pow_le_mono_r; [discriminate|lia]. }
  destruct (N.ltb_spec offset start) as [Hlt|Hge]; cbn [andb].
  - destruct (N.eqb_spec bits 0) as [->|Hnz]; cbn [negb].
    + rewrite (proj2 (N.ltb_lt offset start)) by exact Hlt.
      eexists _, _. split; [reflexivity|]. rewrite ilen_app, inum_app, ilen_zero, inum_zero, sub64_small by lia.
      split; [lia|]. split; [lia|]. right. split; [exact Hlt|reflexivity].
    + rewrite w64_small by lia.
      assert (Hfl : ilen en (acc ++ [IInt 1 [bits mod 4294967296]]) = offset + 1 /\
                    inum en (acc ++ [IInt 1 [bits mod 4294967296]]) = inum en acc + 2 ^ (8 * offset) * bits).
      { rewrite ilen_app, inum_app, ilen_byte, inum_byte, Hl. split; [reflexivity|].
        rewrite (N.mod_small bits 4294967296) by lia. rewrite N.mod_small by exact Hb128. reflexivity. }
      destruct Hfl as [Hfl1 Hfl2].
      destruct (N.ltb_spec (offset + 1) start) as [Hlt2|Hge2].
      * eexists _, _. split; [reflexivity|]. rewrite ilen_app, inum_app, ilen_zero, inum_zero, sub64_small by lia.
        rewrite Hfl1, Hfl2. split; [lia|]. split; [lia|]. right. split; [exact Hlt|reflexivity].
      * eexists _, _. split; [reflexivity|]. rewrite Hfl1, Hfl2. split; [lia|]. split; [lia|]. right. split; [exact Hlt|reflexivity].
  - assert (offset = start) by lia. subst start.
    rewrite (proj2 (N.ltb_ge offset offset)) by lia.
    eexists _, _. split; [reflexivity|]. split; [exact Hl|]. split; [reflexivity|]. left. split; reflexivity.
Qed.

Lemma bf_arith bits1 u sh width n q :
  bits1 < 2 ^ sh -> sh + width <= 64 -> 8 * n + q = sh + width ->
  let W := N.lor bits1 (w64 (u * 2 ^ sh)) in
  W mod 2 ^ (8 * n) + 2 ^ (8 * n) * ((W / 2 ^ (8 * n)) mod 2 ^ q) = bits1 + (u mod 2 ^ width) * 2 ^ sh.
Proof.
  intros Hb Hsw Hnq W. rewrite <- mod_split, Hnq.
  assert (Hx : w64 (u * 2 ^ sh) = (u mod 2 ^ (64 - sh)) * 2 ^ sh).
  { unfold w64. rewrite M64_pow. replace 64 with ((64 - sh) + sh) at 1 by lia. rewrite pow2_add.
    apply N.mul_mod_distr_r; apply N.pow_nonzero; discriminate. }
  assert (HW : W = bits1 + (u mod 2 ^ (64 - sh)) * 2 ^ sh) by (unfold W; rewrite Hx; apply lor_add_disjoint; exact Hb).
  rewrite mod_split. rewrite HW.
  rewrite N.mod_add by (apply N.pow_nonzero; discriminate). rewrite (N.mod_small bits1) by exact Hb.
  rewrite N.div_add by (apply N.pow_nonzero; discriminate). rewrite (N.div_small bits1) by exact Hb. rewrite N.add_0_l.
  rewrite mod_mod_pow by lia. lia.
Qed.

Definition sorted_disjoint (l : list init) : Prop := StronglySorted before l.

Lemma patches_none cur rest : Forall (before cur) rest -> patches cur rest = POk cur rest.
Proof.
  intros H. destruct rest as [|n r]; [reflexivity|]. inversion H as [|? ? Hn _]; subst. cbn [patches].
  unfold before in Hn. rewrite (proj2 (N.ltb_ge (bstart n) (bend cur))) by exact Hn. reflexivity.
Qed.

Lemma finish_ok en size offset bits acc F :
  size * 8 < M64 -> ilen en acc = offset -> 8 * offset <= F -> F < 8 * offset + 8 -> bits < 2 ^ (F - 8 * offset) -> F <= 8 * size ->
  exists its, finish size offset bits acc = DOk its /\ ilen en its = size /\
              inum en its = inum en acc + 2 ^ (8 * offset) * bits.
Proof.
  intros Hs Hl HF1 HF2 Hb HFs. assert (HM : M64 = 18446744073709551616) by reflexivity. unfold finish.
  assert (Hb256 : bits < 256).
  { eapply N.lt_le_trans; [exact Hb|]. change 256 with (2 ^ 8). apply N.pow_le_mono_r; [discriminate|lia]. }
  destruct (N.eqb_spec bits 0) as [->|Hnz]; cbn [negb].
  - assert (offset <= size) by lia. rewrite (proj2 (N.ltb_ge size offset)) by lia.
    destruct (N.ltb_spec offset size) as [Hlt|Hge].
    + eexists. split; [reflexivity|]. rewrite ilen_app, inum_app, ilen_zero, inum_zero. split; lia.
    + eexists. split; [reflexivity|]. split; lia.
  - assert (8 * offset < F).
    { destruct (N.eq_dec F (8 * offset)) as [E|E]; [|lia]. rewrite E, N.sub_diag in Hb. change (2 ^ 0) with 1 in Hb. lia. }
    assert (offset < size) by lia. rewrite w64_small by lia.
    rewrite (proj2 (N.ltb_ge size (offset + 1))) by lia.
    assert (Hfl : ilen en (acc ++ [IInt 1 [bits mod 4294967296]]) = offset + 1 /\
                  inum en (acc ++ [IInt 1 [bits mod 4294967296]]) = inum en acc + 2 ^ (8 * offset) * bits).
    { rewrite ilen_app, inum_app, ilen_byte, inum_byte, Hl. split; [reflexivity|].
      rewrite (N.mod_small bits 4294967296) by lia. rewrite N.mod_small by exact Hb256. reflexivity. }
    destruct Hfl as [Hfl1 Hfl2].
    destruct (N.ltb_spec (offset + 1) size) as [Hlt|Hge].
    + eexists. split; [reflexivity|]. rewrite ilen_app, inum_app, ilen_zero, inum_zero, Hfl1, Hfl2. split; lia.
    + eexists. split; [reflexivity|]. rewrite Hfl1, Hfl2. split; lia.
Qed.

Lemma emit_loop_ok en size : size * 8 < M64 -> forall l fuel offset bits acc F,
  (length l < fuel)%nat -> Forall wf_entry l -> sorted_disjoint l -> Forall (fun i => i_end i <= size) l ->
  Forall (fun i => F <= bstart i) l ->
  ilen en acc = offset -> 8 * offset <= F -> F < 8 * offset + 8 -> bits < 2 ^ (F - 8 * offset) -> F <= 8 * size ->
  exists its, emit_loop fuel size l offset bits acc = DOk its /\ ilen en its = size /\
     inum en its = fold_left (write en) (map leaf_of l) (inum en acc + 2 ^ (8 * offset) * bits).
Proof.
  intros Hs. assert (HM : M64 = 18446744073709551616) by reflexivity.
  induction l as [|cur rest IH]; intros fuel offset bits acc F Hfuel Hwf Hsd Hin HF Hl HF1 HF2 Hb HFs.
  - destruct fuel as [|f]; [simpl in Hfuel; lia|]. cbn [emit_loop map fold_left]. eapply finish_ok; eauto.
  - destruct fuel as [|f]; [simpl in Hfuel; lia|]. cbn [emit_loop].
    apply Forall_cons_iff in Hwf. destruct Hwf as [Hwc Hwr]. apply StronglySorted_inv in Hsd. destruct Hsd as [Hsr Hbr].
    apply Forall_cons_iff in Hin. destruct Hin as [Hic Hir]. apply Forall_cons_iff in HF. destruct HF as [HFc HFr].
    rewrite (patches_none cur rest Hbr).
    destruct (wf_ranges cur Hwc) as (Hbs & Hbe & Hne & Hba).
    pose proof Hwc as (Hse & Hm & Hexp).
    set (b := bf_before (i_bits cur)) in *. set (a := bf_after (i_bits cur)) in *.
    set (S := i_end cur - i_start cur) in *.
    pose proof (N.div_mod b 8 ltac:(discriminate)) as Hbdm.
    pose proof (N.div_mod (a + 7) 8 ltac:(discriminate)) as Hadm.
    pose proof (N.mod_lt b 8 ltac:(discriminate)) as Hsh.
    pose proof (N.mod_lt (a + 7) 8 ltac:(discriminate)) as Hr.
    set (sh := b mod 8) in *. set (fb := b / 8) in *. set (ca := (a + 7) / 8) in *. set (r := (a + 7) mod 8) in *.
    assert (Hstart : w64 (i_start cur + fb) = i_start cur + fb) by (apply w64_small; lia).
    assert (Hend : sub64 (i_end cur) ca = i_end cur - ca) by (apply sub64_small; lia).
    rewrite Hstart, Hend.
    set (start := i_start cur + fb) in *. set (end_ := i_end cur - ca) in *.
    assert (Hoff : offset <= start) by lia.
    destruct (flush_gap_spec en offset bits acc start F Hl Hoff ltac:(lia) HF1 HF2 Hb) as (bits1 & acc2 & Efg & Hl2 & Hn2 & Hcase).
    rewrite Efg.
    (* the value so far and the new entry *)
    set (V := inum en acc + 2 ^ (8 * offset) * bits) in *.
    assert (HV : V < 2 ^ (bstart cur)).
    { eapply N.lt_le_trans; [|apply N.pow_le_mono_r; [discriminate|exact HFc]].
      replace F with (8 * offset + (F - 8 * offset)) by lia. apply state_lt; [rewrite <- Hl; apply inum_lt|exact Hb]. }
    cbn [map fold_left]. unfold write at 2. cbn [leaf_of l_pos l_width l_val].
    rewrite (setbits_above V _ _ _ HV).
    assert (Hrest : Forall (fun i => bend cur <= bstart i) rest) by exact Hbr.
    destruct (isbf cur) eqn:Ebf; unfold isbf in Ebf; fold b a in Ebf; rewrite Ebf.
    + (* a bit-field *)
      destruct (i_expr cur) as [isflt sz u|w data|sym off|] eqn:Eexp; cbv zeta in Hexp;
        try (destruct Hexp as (_ & _ & Hf) || destruct Hexp as (_ & Hf) || contradiction;
             unfold isbf in Hf; fold b a in Hf; congruence).
      destruct Hexp as (Hsz & _ & [Hf|[-> Hsz8]]); [unfold isbf in Hf; fold b a in Hf; congruence|].
      subst sz. fold S in Hsz8.
      assert (Hbits1 : bits1 < 2 ^ sh).
      { destruct Hcase as [[-> ->]|[_ ->]]; [|apply pow2_pos].
        eapply N.lt_le_trans; [exact Hb|]. apply N.pow_le_mono_r; [discriminate|lia]. }
      assert (Hn : (if start <? end_ then N.to_nat (end_ - start) else 0%nat) = N.to_nat (end_ - start)).
      { destruct (N.ltb_spec start end_); [reflexivity|]. replace (end_ - start) with 0 by lia. reflexivity. }
      rewrite Hn. set (W := N.lor bits1 (w64 (u * 2 ^ sh))).
      destruct (emit_bytes_spec en (N.to_nat (end_ - start)) W acc2) as (bytes & Eeb & Hlb & Hnb).
      rewrite Eeb. rewrite N2Nat.id in *. set (n := end_ - start) in *.
      fold r. rewrite mask_ones by exact Hr. rewrite N.land_ones. set (q := 7 - r).
      set (width := bend cur - bstart cur).
      assert (Hnq : 8 * n + q = sh + width) by (unfold n, q, width, start, end_; lia).
      assert (Hsw : sh + width <= 64) by (unfold width; lia).
      pose proof (bf_arith bits1 u sh width n q Hbits1 Hsw Hnq) as Harith. cbv zeta in Harith. fold W in Harith.
      destruct (IH f end_ ((W / 2 ^ (8 * n)) mod 2 ^ q) (acc2 ++ bytes) (bend cur)) as (its & Eits & Hil & Hin2).
      * simpl in Hfuel. lia.
      * exact Hwr.
      * exact Hsr.
      * exact Hir.
      * exact Hrest.
      * rewrite ilen_app, Hl2, Hlb. unfold n. lia.
      * unfold end_, q. lia.
      * unfold end_, q. lia.
      * replace (bend cur - 8 * end_) with q by (unfold end_, q; lia). apply N.mod_lt. apply N.pow_nonzero. discriminate.
      * lia.
      * exists its. split; [exact Eits|]. split; [exact Hil|]. rewrite Hin2. f_equal.
        rewrite inum_app, Hl2, Hnb. cbn [payload_of payload_num]. fold width.
        replace (8 * end_) with (8 * start + 8 * n) by (unfold n; lia). rewrite pow2_add.
        replace (bstart cur) with (8 * start + sh) by (unfold start; lia). rewrite pow2_add.
        fold V in Hn2. nia.
    + (* a whole object *)
      apply orb_false_elim in Ebf. destruct Ebf as [Eb0 Ea0]. apply negb_false_iff in Eb0, Ea0. apply N.eqb_eq in Eb0, Ea0.
      assert (Hfb : fb = 0 /\ ca = 0 /\ sh = 0) by (unfold fb, ca, sh; rewrite Eb0, Ea0; repeat split; reflexivity).
      destruct Hfb as (Hfb & Hca & Hsh0).
      assert (Hbits1 : bits1 = 0).
      { destruct Hcase as [[Eo Eb]|[_ Eb]]; [|exact Eb]. rewrite Eb.
        assert (EF : F = 8 * offset) by lia. rewrite EF, N.sub_diag in Hb. change (2 ^ 0) with 1 in Hb. lia. }
      subst bits1.
      destruct (dataitem_spec en cur Hwc) as (dits & Edi & Hdl & Hdn).
      { unfold isbf. fold b a. rewrite Eb0, Ea0. reflexivity. }
      rewrite Edi.
      destruct (IH f end_ 0 (acc2 ++ dits) (bend cur)) as (its & Eits & Hil & Hin2).
      * simpl in Hfuel. lia.
      * exact Hwr.
      * exact Hsr.
      * exact Hir.
      * exact Hrest.
      * rewrite ilen_app, Hl2, Hdl. unfold start, end_. lia.
      * unfold end_. lia.
      * unfold end_. lia.
      * apply pow2_pos.
      * lia.
      * exists its. split; [exact Eits|]. split; [exact Hil|]. rewrite Hin2. f_equal.
        rewrite inum_app, Hl2, Hdn. rewrite N.mul_0_r, N.add_0_r.
        replace (bend cur - bstart cur) with (8 * (i_end cur - i_start cur)) by lia.
        replace (bstart cur) with (8 * start) by (unfold start; lia).
        fold V in Hn2. rewrite N.mul_0_r, N.add_0_r in Hn2. rewrite Hn2. lia.
Qed.

Definition within (size : N) (l : list init) : Prop := Forall (fun i => i_end i <= size) l.

(* HEADLINE: for a sorted list of non-overlapping well-formed entries inside an object of `size` bytes, emitdata
   terminates without hitting an assertion, emits exactly `size` bytes, and these bytes are the specified image. *)
Theorem emitdata_image en size l :
  size * 8 < M64 -> Forall wf_entry l -> sorted_disjoint l -> within size l ->
  exists items, emitdata size l = DOk items /\
    N.of_nat (length (items_bytes (symaddr en) items)) = size /\
    bytes_num (items_bytes (symaddr en) items) = image en size (map leaf_of l).
Proof.
  intros Hs Hwf Hsd Hin. unfold emitdata.
  assert (HF0 : Forall (fun i => 0 <= bstart i) l) by (rewrite Forall_forall; intros i _; lia).
  assert (Hb0 : 0 < 2 ^ (0 - 8 * 0)) by apply pow2_pos.
  destruct (emit_loop_ok en size Hs l (S (length l)) 0 0 [] 0 (Nat.lt_succ_diag_r _) Hwf Hsd Hin HF0 eq_refl
              ltac:(lia) ltac:(lia) Hb0 ltac:(lia)) as (its & E & Hl & Hn).
  exists its. split; [exact E|]. split; [exact Hl|]. unfold image, overlay.
  change (inum en [] + 2 ^ (8 * 0) * 0) with 0 in Hn. unfold inum in Hn. rewrite Hn.
  symmetry. apply N.mod_small. rewrite <- Hn. rewrite <- Hl. apply bytes_num_lt.
Qed.

(* the part of the statement C03 (well-formed IL) uses: the item sizes add up to the object's size *)
Corollary emitdata_size size l :
  size * 8 < M64 -> Forall wf_entry l -> sorted_disjoint l -> within size l ->
  exists items, emitdata size l = DOk items /\ N.of_nat (length (items_bytes (fun _ => 0) items)) = size.
Proof.
  intros. destruct (emitdata_image (mkenv (fun _ => 0) (fun _ => 0)) size l) as (its & E & Hl & _); try assumption.
  exists its. split; assumption.
Qed.

(* boolean versions of the hypotheses, for the examples *)
Definition wf_entryb (i : init) : bool :=
  (i_start i <? i_end i) && (i_end i * 8 <? M64) &&
  match i_expr i with
  | EConst isflt sz u => (sz =? i_end i - i_start i) && (bf_before (i_bits i) + bf_after (i_bits i) <? 8 * sz) &&
                         (negb (isbf i) || (negb isflt && (sz <=? 8)))
  | EAddr _ _ => (i_end i - i_start i =? 8) && negb (isbf i)
  | EString w data => ((w =? 1) || (w =? 2) || (w =? 4)) && ((i_end i - i_start i) mod w =? 0) && negb (isbf i)
  | EOpaque _ _ _ _ => false
  end.

Lemma wf_entryb_ok i : wf_entryb i = true -> wf_entry i.
Proof.
  unfold wf_entryb, wf_entry. intros H. apply andb_true_iff in H. destruct H as [H H3].
  apply andb_true_iff in H. destruct H as [H1 H2]. apply N.ltb_lt in H1, H2.
  split; [exact H1|]. split; [exact H2|]. cbv zeta.
  destruct (i_expr i) as [isflt sz u|w data|sym off|].
  - apply andb_true_iff in H3. destruct H3 as [H3 H5]. apply andb_true_iff in H3. destruct H3 as [H3 H4].
    apply N.eqb_eq in H3. apply N.ltb_lt in H4. split; [exact H3|]. split; [exact H4|].
    apply orb_true_iff in H5. destruct H5 as [H5|H5].
    + left. apply negb_true_iff. exact H5.
    + right. apply andb_true_iff in H5. destruct H5 as [H5 H6]. apply negb_true_iff in H5. apply N.leb_le in H6. split; assumption.
  - apply andb_true_iff in H3. destruct H3 as [H3 H5]. apply andb_true_iff in H3. destruct H3 as [H3 H4].
    apply N.eqb_eq in H4. apply negb_true_iff in H5. split; [|split; assumption].
    apply orb_true_iff in H3. destruct H3 as [H3|H3]; [apply orb_true_iff in H3; destruct H3 as [H3|H3]|]; apply N.eqb_eq in H3; auto.
  - apply andb_true_iff in H3. destruct H3 as [H3 H4]. apply N.eqb_eq in H3. apply negb_true_iff in H4. split; assumption.
  - discriminate.
Qed.

Fixpoint sortedb (l : list init) : bool :=
  match l with
  | [] => true
  | a :: r => forallb (fun b => bend a <=? bstart b) r && sortedb r
  end.

Lemma sortedb_ok l : sortedb l = true -> sorted_disjoint l.
Proof.
  induction l as [|a r IH]; intros H; [constructor|]. cbn [sortedb] in H. apply andb_true_iff in H. destruct H as [H1 H2].
  constructor; [apply IH; exact H2|]. rewrite forallb_forall in H1. rewrite Forall_forall. intros x Hx.
  apply N.leb_le. apply H1. exact Hx.
Qed.

Lemma withinb_ok size l : forallb (fun i => i_end i <=? size) l = true -> within size l.
Proof.
  intros H. rewrite forallb_forall in H. unfold within. rewrite Forall_forall. intros x Hx. apply N.leb_le. apply H. exact Hx.
Qed.

(* non-vacuity: bit-fields sharing bytes, a gap, a short string, an address, a trailing gap *)
Definition ex_list : list init :=
  [ mkinit 0 4 (mkbf 0 29) (EConst false 4 18446744073709551615);     (* int a:3 = -1 *)
    mkinit 0 4 (mkbf 3 17) (EConst false 4 2730);                      (* int b:12 = 0xaaa *)
    mkinit 2 3 (mkbf 0 0) (EConst false 1 300);                        (* char c = 300 *)
    mkinit 8 16 (mkbf 0 0) (EAddr 3 12);                               (* int *p = &garr[3] *)
    mkinit 16 21 (mkbf 0 0) (EString 1 [97; 98; 0]);                   (* char s[5] = "ab" *)
    mkinit 24 32 (mkbf 20 4) (EConst false 8 18446744073709551614) ].  (* long d:40 = -2 *)

Example emitdata_image_nonvacuous :
  Forall wf_entry ex_list /\ sorted_disjoint ex_list /\ within 40 ex_list /\
  emitdata 40 ex_list =
    DOk [IInt 1 [87]; IInt 1 [85]; IInt 1 [300]; IZero 5; IRef 3 12; IStr [97; 98; 0]; IZero 2; IZero 5;
         IInt 1 [224]; IInt 1 [255]; IInt 1 [255]; IInt 1 [255]; IInt 1 [255]; IInt 1 [15]; IZero 8].
Proof.
  split; [|split; [|split]].
  - rewrite Forall_forall. intros i Hi. apply wf_entryb_ok. revert i Hi. rewrite <- Forall_forall. repeat constructor.
  - apply sortedb_ok. vm_compute. reflexivity.
  - apply withinb_ok. vm_compute. reflexivity.
  - vm_compute. reflexivity.
Qed.

(* D18 (upstream issue 38): two members of a union initialised: `union U { int a; char b; } u = { .a = 1, .b = 2 };`
   initadd keeps both entries (the first covers the second) and emitdata hits its own assertion: the statement
   "emitdata succeeds on every list initadd can build from well-formed entries" is false. *)
Definition d18_list : list init :=
  fst (initadd (fst (initadd [] 0 (mkinit 0 4 nobits (EConst false 4 1)))) 0 (mkinit 0 1 nobits (EConst false 1 2))).

Theorem union_two_members_refuted :
  exists size l, Forall wf_entry l /\ Inv l /\ within size l /\ emitdata size l = DAssertCurString.
Proof.
  exists 4, d18_list.
  assert (E : d18_list = [mkinit 0 4 nobits (EConst false 4 1); mkinit 0 1 nobits (EConst false 1 2)]) by (vm_compute; reflexivity).
  rewrite E. split; [|split; [|split]].
  - rewrite Forall_forall. intros i Hi. apply wf_entryb_ok. revert i Hi. rewrite <- Forall_forall. repeat constructor.
  - unfold Inv. constructor; [repeat constructor|]. constructor; [|constructor]. right. split; vm_compute; intros HH; discriminate HH.
  - apply withinb_ok. vm_compute. reflexivity.
  - vm_compute. reflexivity.
Qed.

(* END TO END for static objects: if the entries were added in source order `src` and the resulting list has no
   entry nested in another, the emitted definition is the image of the leaf writes in SOURCE order:
   later initializers override earlier ones, everything else is zero. *)
Theorem static_image en size l src :
  built l src -> size * 8 < M64 -> Forall wf_entry l -> sorted_disjoint l -> within size l ->
  exists items, emitdata size l = DOk items /\
    N.of_nat (length (items_bytes (symaddr en) items)) = size /\
    bytes_num (items_bytes (symaddr en) items) = image en size (map leaf_of src).
Proof.
  intros Hb Hs Hwf Hsd Hin. destruct (emitdata_image en size l Hs Hwf Hsd Hin) as (its & E & Hl & Hn).
  exists its. split; [exact E|]. split; [exact Hl|]. rewrite Hn. unfold image.
  change (overlay en (map leaf_of l)) with (denote en l). rewrite (built_denote en l src Hb). reflexivity.
Qed.
