(* C18 - theorems about the process model of driver.c (Model/DriverProc.v). *)
From Coq Require Import List String Bool Arith Lia.
From Cproc Require Import Lib.DriverTypes Model.DriverProc Spec.DriverProcSpec.
Import ListNotations.
Open Scope list_scope.

(* ------------------------------------------------------------------ the pid table *)
Lemma stage_eqb_eq a b : stage_eqb a b = true <-> a = b.
Proof. destruct a, b; simpl; split; intros H; try reflexivity; try discriminate. Qed.

Lemma stage_eqb_refl a : stage_eqb a a = true.
Proof. destruct a; reflexivity. Qed.

Lemma stage_eqb_neq a b : a <> b -> stage_eqb a b = false.
Proof. intros H. destruct (stage_eqb a b) eqn:E; [apply stage_eqb_eq in E; contradiction|reflexivity]. Qed.

Lemma upd_same t g p : upd t g p g = p.
Proof. unfold upd. rewrite stage_eqb_refl. reflexivity. Qed.

Lemma upd_other t g p h : h <> g -> upd t g p h = t h.
Proof. intros H. unfold upd. rewrite stage_eqb_neq by assumption. reflexivity. Qed.

Definition nz (p : pid) : bool := negb (Nat.eqb p 0).
Definition live_on (l : list stage) (t : table) : list pid := filter nz (map t l).

Lemma live_is t : live t = live_on all_stages t.
Proof. reflexivity. Qed.

Lemma nz_true p : nz p = true <-> p <> 0.
Proof. unfold nz. destruct (Nat.eqb p 0) eqn:E; simpl; split; intros H; try discriminate; try reflexivity.
  - apply Nat.eqb_eq in E. contradiction.
  - apply Nat.eqb_neq in E. assumption.
Qed.

Lemma live_on_upd_notin l t g p : ~ In g l -> live_on l (upd t g p) = live_on l t.
Proof.
  unfold live_on. induction l as [|h r IH]; intros H; [reflexivity|]. simpl.
  rewrite upd_other by (intro; subst; apply H; left; reflexivity).
  rewrite IH by (intro; apply H; right; assumption). reflexivity.
Qed.

Lemma live_on_clear l t g p :
  In g l -> NoDup l -> t g = p -> p <> 0 ->
  exists l1 l2, live_on l t = l1 ++ p :: l2 /\ live_on l (upd t g 0) = l1 ++ l2.
Proof.
  induction l as [|h r IH]; intros Hin Hnd Ht Hp; [contradiction|].
  apply NoDup_cons_iff in Hnd; destruct Hnd as [Hnotin Hnd'].
  destruct (stage_eqb h g) eqn:E.
  - apply stage_eqb_eq in E; subst h. exists [], (live_on r t). unfold live_on at 1 3. simpl.
    rewrite upd_same, Ht. simpl. assert (nz p = true) as -> by (apply nz_true; assumption).
    split; [reflexivity|]. apply (live_on_upd_notin r t g 0 Hnotin).
  - assert (h <> g) by (intro; subst; rewrite stage_eqb_refl in E; discriminate).
    destruct Hin as [Hin|Hin]; [contradiction|].
    destruct (IH Hin Hnd' Ht Hp) as (l1 & l2 & A & B).
    unfold live_on in *. simpl. rewrite upd_other by assumption.
    destruct (nz (t h)).
    + exists (t h :: l1), l2. rewrite A, B. split; reflexivity.
    + exists l1, l2. split; assumption.
Qed.

Lemma live_on_set l t g p :
  In g l -> NoDup l -> t g = 0 -> p <> 0 ->
  exists l1 l2, live_on l t = l1 ++ l2 /\ live_on l (upd t g p) = l1 ++ p :: l2.
Proof.
  induction l as [|h r IH]; intros Hin Hnd Ht Hp; [contradiction|].
  apply NoDup_cons_iff in Hnd; destruct Hnd as [Hnotin Hnd'].
  destruct (stage_eqb h g) eqn:E.
  - apply stage_eqb_eq in E; subst h. exists [], (live_on r t). unfold live_on at 1 3. simpl.
    rewrite upd_same, Ht. simpl. assert (nz p = true) as -> by (apply nz_true; assumption).
    split; [reflexivity|]. f_equal. apply (live_on_upd_notin r t g p Hnotin).
  - assert (h <> g) by (intro; subst; rewrite stage_eqb_refl in E; discriminate).
    destruct Hin as [Hin|Hin]; [contradiction|].
    destruct (IH Hin Hnd' Ht Hp) as (l1 & l2 & A & B).
    unfold live_on in *. simpl. rewrite upd_other by assumption.
    destruct (nz (t h)).
    + exists (t h :: l1), l2. rewrite A, B. split; reflexivity.
    + exists l1, l2. split; assumption.
Qed.

Lemma all_stages_nodup : NoDup all_stages.
Proof. unfold all_stages. repeat constructor; simpl; intuition discriminate. Qed.

Lemma all_stages_in g : In g all_stages.
Proof. destruct g; simpl; tauto. Qed.

Lemma in_live t p : In p (live t) <-> p <> 0 /\ exists g, t g = p.
Proof.
  unfold live. rewrite filter_In, in_map_iff. fold (nz p). rewrite nz_true. split.
  - intros [(g & A & _) B]. split; [assumption|]. exists g; assumption.
  - intros [A (g & B)]. split; [|assumption]. exists g. split; [assumption|apply all_stages_in].
Qed.

Lemma find_stage_some t p g : find_stage t p = Some g -> t g = p.
Proof. unfold find_stage. intros H. apply find_some in H. destruct H as [_ H]. apply Nat.eqb_eq in H. symmetry; assumption. Qed.

Lemma find_stage_none t p : find_stage t p = None -> ~ In p (live t).
Proof.
  unfold find_stage. intros H Hin. apply in_live in Hin. destruct Hin as [_ (g & Hg)].
  pose proof (find_none _ _ H g (all_stages_in g)) as N. simpl in N. rewrite Hg, Nat.eqb_refl in N. discriminate.
Qed.

(* ------------------------------------------------------------------ the wait loop *)
Definition Inv (t : table) (n : nat) : Prop := n = List.length (live t) /\ NoDup (live t).

Definition only_wait_kill (ev : list event) : Prop :=
  Forall (fun e => match e with EWait _ _ | EKill _ => True | _ => False end) ev.

Lemma waited_app a b : waited_pids (a ++ b) = waited_pids a ++ waited_pids b.
Proof. unfold waited_pids. apply flat_map_app. Qed.
Lemma killed_app a b : killed_pids (a ++ b) = killed_pids a ++ killed_pids b.
Proof. unfold killed_pids. apply flat_map_app. Qed.
Lemma spawned_app a b : spawned_pids (a ++ b) = spawned_pids a ++ spawned_pids b.
Proof. unfold spawned_pids. apply flat_map_app. Qed.

Lemma killed_map_kill l : killed_pids (map EKill l) = l.
Proof. induction l as [|p r IH]; [reflexivity|]. simpl. f_equal. exact IH. Qed.
Lemma waited_map_kill l : waited_pids (map EKill l) = [].
Proof. induction l as [|p r IH]; [reflexivity|]. simpl. exact IH. Qed.

Lemma kill_block_pids t n s : killed_pids (kill_block t n s) = [] \/ killed_pids (kill_block t n s) = live t.
Proof. unfold kill_block. destruct (s && negb (Nat.eqb n 0)); [right; apply killed_map_kill|left; reflexivity]. Qed.

Lemma kill_block_all t n : Inv t n -> killed_pids (kill_block t n true) = live t.
Proof.
  intros [A _]. unfold kill_block. simpl. destruct (Nat.eqb n 0) eqn:E; simpl.
  - apply Nat.eqb_eq in E. rewrite E in A. symmetry in A. apply length_zero_iff_nil in A. rewrite A. reflexivity.
  - apply killed_map_kill.
Qed.

Lemma kill_block_false t n : kill_block t n false = [].
Proof. reflexivity. Qed.

Lemma kill_block_waited t n s : waited_pids (kill_block t n s) = [].
Proof. unfold kill_block. destruct (s && negb (Nat.eqb n 0)); [apply waited_map_kill|reflexivity]. Qed.

Lemma kill_block_only t n s : only_wait_kill (kill_block t n s).
Proof.
  unfold kill_block, only_wait_kill. destruct (s && negb (Nat.eqb n 0)); [|constructor].
  apply Forall_forall. intros x H. apply in_map_iff in H. destruct H as (p & <- & _). exact I.
Qed.

Record WPost (sched : list (pid * status)) (t : table) (success : bool)
             (ev : list event) (s' : bool) (t' : table) (stuck : bool) : Prop := {
  wp_not_stuck : stuck = false;
  wp_table_clear : live t' = [];
  wp_all_reaped : incl (live t) (waited_pids ev);
  wp_kills_live : incl (killed_pids ev) (live t);
  wp_kills_once : NoDup (killed_pids ev);
  wp_only : only_wait_kill ev;
  wp_from_sched : forall p st, In (EWait p st) ev -> In (p, st) sched;
  wp_failed_stays : success = false -> s' = false /\ killed_pids ev = [];
  wp_success : s' = true -> success = true /\ killed_pids ev = [] /\
               forall p st, In (EWait p st) ev -> In p (live t) -> succeeded st = true;
  wp_failure : s' = false -> success = true ->
               exists p st, In (EWait p st) ev /\ In p (live t) /\ succeeded st = false;
  (* after the first failure nobody keeps running unnoticed: every child was reaped before any SIGTERM was sent,
     or is among those that were sent SIGTERM *)
  wp_kill_all : s' = false -> success = true ->
               forall q, In q (live t) ->
                 In q (killed_pids ev) \/
                 exists ev1 st ev2, ev = ev1 ++ EWait q st :: ev2 /\ killed_pids ev1 = []
}.

Lemma WPost_done sched t success : live t = [] -> WPost sched t success [] success t false.
Proof.
  intros E. constructor; rewrite ?E; simpl.
  - reflexivity.
  - reflexivity.
  - apply incl_nil_l.
  - apply incl_nil_l.
  - constructor.
  - constructor.
  - intros; contradiction.
  - intros ->. split; reflexivity.
  - intros ->. split; [reflexivity|]. split; [reflexivity|]. intros; contradiction.
  - intros -> ?. discriminate.
  - intros; contradiction.
Qed.

Lemma in_fst {A B} (a : A) (b : B) l : In (a, b) l -> In a (map fst l).
Proof. intros H. apply in_map_iff. exists (a, b). split; [reflexivity|assumption]. Qed.

Lemma wait_loop_post : forall sched t n success,
  Inv t n -> ~ In 0 (map fst sched) -> NoDup (map fst sched) ->
  (forall p, In p (live t) -> In p (map fst sched)) ->
  match wait_loop sched t n success with
  | (ev, s', t', stuck) => WPost sched t success ev s' t' stuck
  end.
Proof.
  induction sched as [|[p st] rest IH]; intros t n success [Hn Hnd] H0 Hsn Hfair.
  - assert (live t = []) as E.
    { destruct (live t) as [|q r] eqn:E; [reflexivity|]. exfalso. apply (Hfair q). left; reflexivity. }
    rewrite E in Hn. simpl in Hn. subst n. simpl. apply WPost_done. assumption.
  - destruct n as [|n'].
    + symmetry in Hn. apply length_zero_iff_nil in Hn. simpl. apply WPost_done. assumption.
    + cbn [wait_loop].
      assert (Hp0 : p <> 0) by (intro; subst; apply H0; left; reflexivity).
      assert (H0' : ~ In 0 (map fst rest)) by (intro; apply H0; right; assumption).
      simpl in Hsn. inversion Hsn as [|? ? Hpnotrest Hsn']; subst.
      destruct (find_stage t p) as [g|] eqn:F.
      * (* a child of ours *)
        pose proof (find_stage_some _ _ _ F) as Hg.
        destruct (live_on_clear all_stages t g p (all_stages_in g) all_stages_nodup Hg Hp0) as (l1 & l2 & A & B).
        rewrite <- !live_is in A, B.
        set (t1 := upd t g 0) in *.
        assert (Inv1 : Inv t1 n').
        { split.
          - rewrite B. rewrite A in Hn. rewrite app_length in *. simpl in Hn. lia.
          - rewrite B. rewrite A in Hnd. eapply NoDup_remove_1; eassumption. }
        assert (Hnotin : ~ In p (l1 ++ l2)) by (rewrite A in Hnd; apply NoDup_remove_2 in Hnd; assumption).
        assert (Hfair1 : forall q, In q (live t1) -> In q (map fst rest)).
        { intros q Hq. rewrite B in Hq.
          assert (In q (live t)) as Hq' by (rewrite A; apply in_app_iff in Hq; apply in_app_iff; simpl; tauto).
          destruct (Hfair q Hq') as [E|E]; [|assumption]. simpl in E. subst q. contradiction. }
        assert (Hlive : forall q, In q (live t) <-> q = p \/ In q (live t1)).
        { intros q. rewrite A, B, !in_app_iff. simpl. intuition. }
        destruct (succeeded st) eqn:Sst.
        -- specialize (IH t1 n' success Inv1 H0' Hsn' Hfair1).
           destruct (wait_loop rest t1 n' success) as [[[ev s'] t'] stuck].
           destruct IH as [I1 I2 I3 I4 I5 I6 I7 I8 I9 I10 I11].
           constructor; auto.
           ++ intros q Hq. simpl. apply Hlive in Hq. destruct Hq as [->|Hq]; [left; reflexivity|right; apply I3; assumption].
           ++ intros q Hq. simpl in Hq. apply Hlive. right. apply I4. assumption.
           ++ constructor; [exact I|assumption].
           ++ intros q st' [E|Hin]; [inversion E; subst; left; reflexivity|right; apply I7; assumption].
           ++ intros Hs. destruct (I9 Hs) as (X & Y & Z). split; [assumption|]. split; [assumption|].
              intros q st' [E|Hin] Hq; [inversion E; subst; assumption|].
              apply Hlive in Hq. destruct Hq as [->|Hq]; [|eapply Z; eassumption].
              exfalso. apply Hpnotrest. eapply in_fst. apply I7. eassumption.
           ++ intros Hs Hsucc. destruct (I10 Hs Hsucc) as (q & st' & X & Y & Z).
              exists q, st'. split; [right; assumption|]. split; [apply Hlive; right; assumption|assumption].
           ++ intros Hs Hsucc q Hq. apply Hlive in Hq. destruct Hq as [->|Hq].
              ** right. exists [], st, ev. split; reflexivity.
              ** destruct (I11 Hs Hsucc q Hq) as [K|(ev1 & st' & ev2 & E1 & E2)]; [left; assumption|].
                 right. exists (EWait p st :: ev1), st', ev2. split; [rewrite E1; reflexivity|assumption].
        -- (* the failing child *)
           specialize (IH t1 n' false Inv1 H0' Hsn' Hfair1).
           destruct (wait_loop rest t1 n' false) as [[[ev s'] t'] stuck].
           destruct IH as [I1 I2 I3 I4 I5 I6 I7 I8 I9 I10 I11].
           destruct (I8 eq_refl) as [Hs' Hk]. subst s'.
           assert (KB : killed_pids (EWait p st :: kill_block t1 n' success ++ ev) = killed_pids (kill_block t1 n' success)).
           { simpl. rewrite killed_app, Hk, app_nil_r. reflexivity. }
           constructor; auto.
           ++ intros q Hq. simpl. rewrite waited_app, kill_block_waited. simpl.
              apply Hlive in Hq. destruct Hq as [->|Hq]; [left; reflexivity|right; apply I3; assumption].
           ++ rewrite KB. intros q Hq. apply Hlive. right.
              destruct (kill_block_pids t1 n' success) as [E|E]; rewrite E in Hq; [contradiction|assumption].
           ++ rewrite KB. destruct (kill_block_pids t1 n' success) as [E|E]; rewrite E; [constructor|apply Inv1].
           ++ constructor; [exact I|]. apply Forall_app. split; [apply kill_block_only|assumption].
           ++ intros q st' [E|Hin]; [inversion E; subst; left; reflexivity|].
              apply in_app_iff in Hin. destruct Hin as [Hin|Hin]; [|right; apply I7; assumption].
              exfalso. pose proof (kill_block_only t1 n' success) as K. unfold only_wait_kill in K.
              rewrite Forall_forall in K. unfold kill_block in Hin.
              destruct (success && negb (Nat.eqb n' 0)); [|contradiction].
              apply in_map_iff in Hin. destruct Hin as (x & Hx & _). discriminate.
           ++ intros ->. split; [reflexivity|]. rewrite KB, kill_block_false. reflexivity.
           ++ intros; discriminate.
           ++ intros _ _. exists p, st. split; [left; reflexivity|]. split; [apply Hlive; left; reflexivity|assumption].
           ++ intros _ -> q Hq. apply Hlive in Hq. destruct Hq as [->|Hq].
              ** right. exists [], st, (kill_block t1 n' true ++ ev). split; reflexivity.
              ** left. rewrite KB, (kill_block_all t1 n' Inv1). assumption.
      * (* unknown process *)
        pose proof (find_stage_none _ _ F) as Hnl.
        assert (Hfair1 : forall q, In q (live t) -> In q (map fst rest)).
        { intros q Hq. destruct (Hfair q Hq) as [E|E]; [|assumption]. simpl in E. subst q. contradiction. }
        specialize (IH t (S n') success (conj Hn Hnd) H0' Hsn' Hfair1).
        destruct (wait_loop rest t (S n') success) as [[[ev s'] t'] stuck].
        destruct IH as [I1 I2 I3 I4 I5 I6 I7 I8 I9 I10 I11].
        constructor; auto.
        -- intros q Hq. simpl. right. apply I3. assumption.
        -- constructor; [exact I|assumption].
        -- intros q st' [E|Hin]; [inversion E; subst; left; reflexivity|right; apply I7; assumption].
        -- intros Hs. destruct (I9 Hs) as (X & Y & Z). split; [assumption|]. split; [assumption|].
           intros q st' [E|Hin] Hq; [inversion E; subst; contradiction|eapply Z; eassumption].
        -- intros Hs Hsucc. destruct (I10 Hs Hsucc) as (q & st' & X & Y & Z).
           exists q, st'. split; [right; assumption|]. split; assumption.
        -- intros Hs Hsucc q Hq.
           destruct (I11 Hs Hsucc q Hq) as [K|(ev1 & st' & ev2 & E1 & E2)]; [left; assumption|].
           right. exists (EWait p st :: ev1), st', ev2. split; [rewrite E1; reflexivity|assumption].
Qed.

(* ------------------------------------------------------------------ the spawn loop *)
Lemma NoDup_insert {A} (l1 l2 : list A) a : NoDup (l1 ++ l2) -> ~ In a (l1 ++ l2) -> NoDup (l1 ++ a :: l2).
Proof.
  induction l1 as [|x r IH]; simpl; intros H N.
  - constructor; assumption.
  - apply NoDup_cons_iff in H. destruct H as [H1 H2]. constructor.
    + rewrite in_app_iff in *. simpl. intros [X|[X|X]]; [apply H1; left; assumption|subst; apply N; left; reflexivity|apply H1; right; assumption].
    + apply IH; [assumption|]. intro X. apply N. right. assumption.
Qed.

Definition only_spawn (ev : list event) : Prop :=
  Forall (fun e => match e with ESpawn _ _ _ _ | ESpawnFail _ _ => True | _ => False end) ev.

Lemma spawn_loop_post : forall e k cmds t n,
  Inv t n -> NoDup (map fst cmds) -> (forall g, In g (map fst cmds) -> t g = 0) ->
  (forall g, In g (map fst cmds) -> pid_of e k g <> 0 /\ ~ In (pid_of e k g) (live t)) ->
  NoDup (map (pid_of e k) (map fst cmds)) ->
  match spawn_loop e k cmds t n with
  | (t', n', ev, ok) =>
      Inv t' n' /\
      (forall p, In p (live t') <-> In p (live t) \/ In p (map (pid_of e k) (spawned_stages e k (map fst cmds)))) /\
      spawned_pids ev = map (pid_of e k) (spawned_stages e k (map fst cmds)) /\
      only_spawn ev /\
      (ok = true <-> forall g, In g (map fst cmds) -> spawn_ok e k g = true)
  end.
Proof.
  induction cmds as [|[g argv] r IH]; intros t n HI Hnd Hz Hp Hinj.
  - simpl. split; [assumption|]. split; [intros; tauto|]. split; [reflexivity|]. split; [constructor|]. split; [intros; contradiction|reflexivity].
  - cbn [spawn_loop map fst spawned_stages]. destruct (spawn_ok e k g) eqn:Sp.
    + set (p := pid_of e k g).
      simpl in Hnd, Hinj. apply NoDup_cons_iff in Hnd. destruct Hnd as [Hg Hnd].
      apply NoDup_cons_iff in Hinj. destruct Hinj as [Hpg Hinj].
      destruct (Hp g (or_introl eq_refl)) as [Hp0 Hpl]. fold p in Hp0, Hpl, Hpg.
      destruct (live_on_set all_stages t g p (all_stages_in g) all_stages_nodup (Hz g (or_introl eq_refl)) Hp0) as (l1 & l2 & A & B).
      rewrite <- !live_is in A, B.
      destruct HI as [Hn Hnodup].
      assert (HI1 : Inv (upd t g p) (S n)).
      { split.
        - rewrite B, app_length. simpl. rewrite Hn, A, app_length. lia.
        - rewrite B. apply NoDup_insert; rewrite <- A; assumption. }
      assert (Hlive : forall q, In q (live (upd t g p)) <-> q = p \/ In q (live t)).
      { intros q. rewrite A, B, !in_app_iff. simpl. intuition. }
      specialize (IH (upd t g p) (S n) HI1 Hnd).
      destruct (spawn_loop e k r (upd t g p) (S n)) as [[[t' n'] ev] ok].
      destruct IH as (I1 & I2 & I3 & I4 & I5).
      * intros h Hh. rewrite upd_other; [apply Hz; right; assumption|]. intro; subst. contradiction.
      * intros h Hh. destruct (Hp h (or_intror Hh)) as [X Y]. split; [assumption|].
        intro Z. apply Hlive in Z. destruct Z as [Z|Z]; [|contradiction].
        apply Hpg. rewrite <- Z. apply in_map. assumption.
      * assumption.
      * split; [assumption|]. split; [|split; [|split]].
        -- intros q. rewrite I2, Hlive. simpl. fold p. intuition.
        -- simpl. rewrite I3. reflexivity.
        -- constructor; [exact I|assumption].
        -- rewrite I5. split.
           ++ intros H h [<-|Hh]; [assumption|apply H; assumption].
           ++ intros H h Hh. apply H. right. assumption.
    + split; [assumption|]. split; [|split; [|split]].
      * intros q. simpl. tauto.
      * reflexivity.
      * constructor; [exact I|constructor].
      * split; [discriminate|]. intros H. rewrite (H g (or_introl eq_refl)) in Sp. discriminate.
Qed.

(* ------------------------------------------------------------------ reading traces *)
Definition creates (tr : list event) : list word :=
  flat_map (fun e => match e with EMkstemp w | ECreate w => [w] | _ => [] end) tr.
Definition unlinks (tr : list event) : list word :=
  flat_map (fun e => match e with EUnlink w => [w] | _ => [] end) tr.
Definition quiet_event (e : event) : Prop :=
  match e with EExit _ | EStuck | ESpawnLink _ | ESpawnLinkFail | EWaitLink _ | EUnlink _ => False | _ => True end.
Definition quiet (tr : list event) : Prop := Forall quiet_event tr.

Lemma creates_app a b : creates (a ++ b) = creates a ++ creates b.
Proof. apply flat_map_app. Qed.
Lemma unlinks_app a b : unlinks (a ++ b) = unlinks a ++ unlinks b.
Proof. apply flat_map_app. Qed.
Lemma quiet_app a b : quiet (a ++ b) <-> quiet a /\ quiet b.
Proof. apply Forall_app. Qed.

Lemma exit_code_app a b : exit_code (a ++ b) = match exit_code a with Some n => Some n | None => exit_code b end.
Proof. induction a as [|x r IH]; [reflexivity|]. destruct x; simpl; auto. Qed.
Lemma is_stuck_app a b : is_stuck (a ++ b) = is_stuck a || is_stuck b.
Proof. apply existsb_app. Qed.
Lemma link_started_app a b : link_started (a ++ b) = link_started a || link_started b.
Proof. apply existsb_app. Qed.

Lemma quiet_facts tr : quiet tr -> exit_code tr = None /\ is_stuck tr = false /\ link_started tr = false /\ unlinks tr = [].
Proof.
  induction 1 as [|x r Hx Hr IH]; [repeat split|].
  destruct IH as (A & B & C & D). destruct x; simpl in *; try contradiction; repeat split; assumption.
Qed.

Lemma only_spawn_facts ev : only_spawn ev -> quiet ev /\ creates ev = [] /\ waited_pids ev = [] /\ killed_pids ev = [].
Proof.
  induction 1 as [|x r Hx Hr IH]; [repeat split; constructor|].
  destruct IH as (A & B & C & D). destruct x; simpl in *; try contradiction; repeat split; try assumption; constructor; simpl; auto.
Qed.

Lemma only_wait_kill_facts ev : only_wait_kill ev -> quiet ev /\ creates ev = [] /\ spawned_pids ev = [].
Proof.
  induction 1 as [|x r Hx Hr IH]; [repeat split; constructor|].
  destruct IH as (A & B & C). destruct x; simpl in *; try contradiction; repeat split; try assumption; constructor; simpl; auto.
Qed.

Lemma in_waited ev p : In p (waited_pids ev) <-> exists st, In (EWait p st) ev.
Proof.
  unfold waited_pids. rewrite in_flat_map. split.
  - intros (x & A & B). destruct x; simpl in B; try contradiction. destruct B as [<-|[]]. eexists; eassumption.
  - intros (st & A). exists (EWait p st). split; [assumption|left; reflexivity].
Qed.

Lemma fst_functional {A B} (l : list (A * B)) a b b' : NoDup (map fst l) -> In (a, b) l -> In (a, b') l -> b = b'.
Proof.
  induction l as [|[x y] r IH]; simpl; intros H H1 H2; [contradiction|].
  apply NoDup_cons_iff in H. destruct H as [N H].
  destruct H1 as [E1|H1], H2 as [E2|H2].
  - congruence.
  - inversion E1; subst. exfalso. apply N. eapply in_fst; eassumption.
  - inversion E2; subst. exfalso. apply N. eapply in_fst; eassumption.
  - eapply IH; eassumption.
Qed.

Lemma live_nil_zero t : live t = [] -> forall g, t g = 0.
Proof.
  intros H g. destruct (Nat.eq_dec (t g) 0) as [E|E]; [assumption|].
  exfalso. assert (In (t g) (live t)) by (apply in_live; split; [assumption|exists g; reflexivity]).
  rewrite H in H0. contradiction.
Qed.

Lemma spawned_stages_all e k l : (forall g, In g l -> spawn_ok e k g = true) -> spawned_stages e k l = l.
Proof. induction l as [|g r IH]; intros H; [reflexivity|]. simpl. rewrite (H g (or_introl eq_refl)), IH; [reflexivity|]. intros; apply H; right; assumption. Qed.

Lemma spawned_stages_incl e k l : incl (spawned_stages e k l) l.
Proof. induction l as [|g r IH]; [apply incl_refl|]. simpl. destruct (spawn_ok e k g); [|apply incl_nil_l]. intros x [<-|H]; [left; reflexivity|right; apply IH; assumption]. Qed.

Definition dest_words (pl : pipeline) : list word := match p_dest pl with DFile w => [w] | DStdout => [] end.
Definition mk_temps (pl : pipeline) : list word := match p_dest pl with DFile (Temp j) => [Temp j] | _ => [] end.

(* ------------------------------------------------------------------ one pipeline (buildobj) *)
Lemma run_pipeline_post e k pl t temps :
  live t = [] -> sane_pipeline e k pl -> fair_pipeline e k pl ->
  match run_pipeline e k pl t temps with
  | (ev, t', temps', go) =>
     live t' = [] /\
     temps' = temps ++ mk_temps pl /\
     incl (spawned_pids ev) (waited_pids ev) /\
     incl (killed_pids ev) (spawned_pids ev) /\
     (go = true <-> pipeline_ok e k pl) /\
     (go = true -> quiet ev /\ killed_pids ev = [] /\ creates ev = mk_temps pl ++ dest_words pl) /\
     (go = false -> exists body, ev = body ++ unlink_dest (p_dest pl) ++ map EUnlink temps' ++ [EExit 1] /\ quiet body /\
                     incl (creates body) (mk_temps pl ++ dest_words pl) /\
                     incl (spawned_pids body) (waited_pids body) /\ incl (killed_pids body) (spawned_pids body))
  end.
Proof.
  intros Hclear (Hnd & Hpnz & Hinj & H0 & Hsn) Hfair.
  unfold run_pipeline.
  set (mkev := match p_dest pl with DFile (Temp j) => ([EMkstemp (Temp j)], temps ++ [Temp j]) | _ => ([], temps) end).
  assert (Hmk : mkev = (map EMkstemp (mk_temps pl), temps ++ mk_temps pl)).
  { unfold mkev, mk_temps. destruct (p_dest pl) as [|[s|j]]; simpl; rewrite ?app_nil_r; reflexivity. }
  rewrite Hmk. clear mkev Hmk.
  assert (HI0 : Inv t 0) by (unfold Inv; rewrite Hclear; split; [reflexivity|constructor]).
  pose proof (spawn_loop_post e k (p_cmds pl) t 0 HI0 Hnd (fun g _ => live_nil_zero t Hclear g)) as SP.
  assert (Hpl : forall g, In g (map fst (p_cmds pl)) -> pid_of e k g <> 0 /\ ~ In (pid_of e k g) (live t)).
  { intros g Hg. split; [apply Hpnz; assumption|rewrite Hclear; intros []]. }
  specialize (SP Hpl Hinj).
  destruct (spawn_loop e k (p_cmds pl) t 0) as [[[t1 n1] ev1] okall].
  destruct SP as (Inv1 & Hlive1 & Hsp1 & Hos1 & Hok1).
  destruct (only_spawn_facts ev1 Hos1) as (Q1 & C1 & W1 & K1).
  assert (Hlive1' : forall p, In p (live t1) <-> In p (map (pid_of e k) (spawned_stages e k (stages_of_pipeline pl)))).
  { intros p. rewrite Hlive1, Hclear. simpl. tauto. }
  assert (Hfair1 : forall p, In p (live t1) -> In p (map fst (waits e k))).
  { intros p Hp. apply Hlive1' in Hp. apply in_map_iff in Hp. destruct Hp as (g & <- & Hg). apply Hfair. assumption. }
  pose proof (wait_loop_post (waits e k) t1 n1 okall Inv1 H0 Hsn Hfair1) as WP.
  destruct (wait_loop (waits e k) t1 n1 okall) as [[[ev2 s'] t2] stuck].
  destruct WP as [P1 P2 P3 P4 P5 P6 P7 P8 P9 P10 P11].
  destruct (only_wait_kill_facts ev2 P6) as (Q2 & C2 & S2).
  subst stuck. cbv iota.
  set (crev := if okall then match p_dest pl with DFile w => [ECreate w] | DStdout => [] end else []).
  set (kills := if okall then [] else kill_block t1 n1 true).
  assert (Qcr : quiet crev) by (unfold crev; destruct okall; [destruct (p_dest pl)|]; repeat constructor).
  assert (Qk : quiet kills).
  { unfold kills. destruct okall; [constructor|]. apply (proj1 (only_wait_kill_facts _ (kill_block_only t1 n1 true))). }
  assert (Hcrc : incl (creates crev) (dest_words pl) /\ (okall = true -> creates crev = dest_words pl)).
  { unfold crev, dest_words. destruct okall; [destruct (p_dest pl)|]; simpl; split; auto using incl_refl, incl_nil_l; discriminate. }
  assert (Hkk : incl (killed_pids kills) (live t1) /\ (okall = true -> kills = [])).
  { unfold kills. destruct okall; simpl; split; auto using incl_nil_l; try discriminate.
    destruct (kill_block_pids t1 n1 true) as [E|E]; rewrite E; auto using incl_refl, incl_nil_l. }
  assert (Sk : spawned_pids kills = [] /\ waited_pids kills = [] /\ creates kills = []).
  { unfold kills. destruct okall; [repeat split|].
    destruct (only_wait_kill_facts _ (kill_block_only t1 n1 true)) as (_ & X & Y). rewrite kill_block_waited. repeat split; assumption. }
  destruct Sk as (Sk1 & Sk2 & Sk3).
  assert (Scr : spawned_pids crev = [] /\ waited_pids crev = [] /\ killed_pids crev = []).
  { unfold crev. destruct okall; [destruct (p_dest pl)|]; repeat split. }
  destruct Scr as (Scr1 & Scr2 & Scr3).
  assert (Smk : forall l, spawned_pids (map EMkstemp l) = [] /\ waited_pids (map EMkstemp l) = [] /\ killed_pids (map EMkstemp l) = []
                          /\ creates (map EMkstemp l) = l /\ quiet (map EMkstemp l)).
  { induction l as [|x r (A & B & C & D & E)]; [repeat split; constructor|]. simpl. repeat split; auto; [f_equal; assumption|constructor; [exact I|assumption]]. }
  destruct (Smk (mk_temps pl)) as (M1 & M2 & M3 & M4 & M5).
  set (body := map EMkstemp (mk_temps pl) ++ (ev1 ++ crev) ++ kills ++ ev2).
  assert (Bsp : spawned_pids body = spawned_pids ev1).
  { unfold body. rewrite !spawned_app, M1, Scr1, Sk1, S2, !app_nil_r. reflexivity. }
  assert (Bw : waited_pids body = waited_pids ev2).
  { unfold body. rewrite !waited_app, M2, W1, Scr2, Sk2. reflexivity. }
  assert (Bk : killed_pids body = killed_pids kills ++ killed_pids ev2).
  { unfold body. rewrite !killed_app, M3, K1, Scr3. reflexivity. }
  assert (Bq : quiet body).
  { unfold body. rewrite !quiet_app. repeat split; assumption. }
  assert (Bc : creates body = mk_temps pl ++ creates crev).
  { unfold body. rewrite !creates_app, M4, C1, Sk3, C2, !app_nil_r. reflexivity. }
  assert (Hreap : incl (spawned_pids body) (waited_pids body)).
  { rewrite Bsp, Bw, Hsp1. intros p Hp. apply P3. apply Hlive1'. assumption. }
  assert (Hkill : incl (killed_pids body) (spawned_pids body)).
  { rewrite Bk, Bsp, Hsp1. intros p Hp. apply in_app_iff in Hp. apply Hlive1'.
    destruct Hp as [Hp|Hp]; [apply (proj1 Hkk); assumption|apply P4; assumption]. }
  assert (Hgo : s' = true <-> pipeline_ok e k pl).
  { split.
    - intros Hs. destruct (P9 Hs) as (X & Y & Z). subst okall.
      pose proof (proj1 Hok1 eq_refl) as Hall. split; [assumption|].
      intros g st Hg Hin.
      assert (In (pid_of e k g) (live t1)) as Hl.
      { apply Hlive1'. unfold stages_of_pipeline. rewrite spawned_stages_all by assumption. apply in_map. assumption. }
      pose proof (P3 _ Hl) as Hw. apply in_waited in Hw. destruct Hw as (st' & Hw).
      pose proof (P7 _ _ Hw) as Hs'. rewrite (fst_functional _ _ _ _ Hsn Hin Hs'). eapply Z; eassumption.
    - intros [Hall Hst]. destruct s'; [reflexivity|]. exfalso.
      assert (okall = true) as -> by (apply Hok1; assumption).
      destruct (P10 eq_refl eq_refl) as (p & st & X & Y & Z).
      apply Hlive1' in Y. apply in_map_iff in Y. destruct Y as (g & <- & Hg).
      apply spawned_stages_incl in Hg. rewrite (Hst g st Hg (P7 _ _ X)) in Z. discriminate. }
  destruct s'.
  - (* the pipeline succeeded *)
    destruct (P9 eq_refl) as (X & Y & Z). subst okall.
    fold body.
    split; [assumption|]. split; [reflexivity|]. split; [assumption|]. split; [assumption|].
    split; [split; [intros _; apply Hgo; reflexivity|reflexivity]|].
    split; [|discriminate].
    intros _. split; [assumption|]. split.
    + rewrite Bk, (proj2 Hkk eq_refl), Y. reflexivity.
    + rewrite Bc, (proj2 Hcrc eq_refl). reflexivity.
  - replace (map EMkstemp (mk_temps pl) ++ (ev1 ++ crev) ++ kills ++ ev2 ++ unlink_dest (p_dest pl) ++ map EUnlink (temps ++ mk_temps pl) ++ [EExit 1])
      with (body ++ unlink_dest (p_dest pl) ++ map EUnlink (temps ++ mk_temps pl) ++ [EExit 1])
      by (unfold body; rewrite <- !app_assoc; reflexivity).
    assert (Hd : forall tail, spawned_pids (unlink_dest (p_dest pl) ++ map EUnlink tail ++ [EExit 1]) = [] /\
                              waited_pids (unlink_dest (p_dest pl) ++ map EUnlink tail ++ [EExit 1]) = [] /\
                              killed_pids (unlink_dest (p_dest pl) ++ map EUnlink tail ++ [EExit 1]) = []).
    { intros tail. rewrite !spawned_app, !waited_app, !killed_app.
      assert (forall l, spawned_pids (map EUnlink l) = [] /\ waited_pids (map EUnlink l) = [] /\ killed_pids (map EUnlink l) = []) as U.
      { induction l as [|x r (A & B & C)]; repeat split; assumption. }
      destruct (U tail) as (A & B & C). rewrite A, B, C. unfold unlink_dest. destruct (p_dest pl); repeat split. }
    destruct (Hd (temps ++ mk_temps pl)) as (D1 & D2 & D3).
    split; [assumption|]. split; [reflexivity|].
    split; [rewrite spawned_app, waited_app, D1, D2, !app_nil_r; assumption|].
    split; [rewrite spawned_app, killed_app, D1, D3, !app_nil_r; assumption|].
    split; [split; [discriminate|intros Hp; apply Hgo in Hp; discriminate]|].
    split; [discriminate|].
    intros _. exists body. split; [reflexivity|]. split; [assumption|]. split; [|split; assumption].
    rewrite Bc. apply incl_app; [apply incl_appl, incl_refl|apply incl_appr, (proj1 Hcrc)].
Qed.

(* ------------------------------------------------------------------ files *)
Lemma word_eqb_refl w : word_eqb w w = true.
Proof. destruct w; simpl; [apply String.eqb_refl|apply Nat.eqb_refl]. Qed.

Lemma word_eqb_eq a b : word_eqb a b = true -> a = b.
Proof.
  destruct a, b; simpl; intros H; try discriminate.
  - apply String.eqb_eq in H. congruence.
  - apply Nat.eqb_eq in H. congruence.
Qed.

Lemma may_exist_app a : forall b fs, may_exist (a ++ b) fs = may_exist b (may_exist a fs).
Proof. induction a as [|x r IH]; intros; [reflexivity|]. destruct x; simpl; apply IH. Qed.

Lemma may_exist_sub tr : forall fs w, In w (may_exist tr fs) -> In w fs \/ In w (creates tr).
Proof.
  induction tr as [|x r IH]; intros fs w H; [left; assumption|].
  destruct x; simpl in *; try (apply IH in H; tauto).
  - apply IH in H. simpl in H. tauto.
  - apply IH in H. simpl in H. tauto.
  - apply IH in H. destruct H as [H|H]; [|tauto]. apply filter_In in H. tauto.
Qed.

Lemma may_exist_unlinked tr1 w tr2 fs : ~ In w (creates tr2) -> ~ In w (may_exist (tr1 ++ EUnlink w :: tr2) fs).
Proof.
  intros N H. rewrite may_exist_app in H. simpl in H. apply may_exist_sub in H. destruct H as [H|H]; [|contradiction].
  apply filter_In in H. destruct H as [_ H]. rewrite word_eqb_refl in H. discriminate.
Qed.

Lemma may_exist_keeps tr : forall fs w, In w fs \/ In w (creates tr) -> ~ In w (unlinks tr) -> In w (may_exist tr fs).
Proof.
  induction tr as [|x r IH]; intros fs w H N; [destruct H as [H|[]]; assumption|].
  destruct x; simpl in *; try (apply IH; assumption).
  - apply IH; [|assumption]. simpl. tauto.
  - apply IH; [|assumption]. simpl. tauto.
  - apply IH; [|tauto]. destruct H as [H|H]; [|tauto]. left. apply filter_In. split; [assumption|].
    destruct (word_eqb w w0) eqn:E; [|reflexivity]. apply word_eqb_eq in E. subst. exfalso. apply N. left; reflexivity.
Qed.

Lemma unlink_list_facts l : creates (map EUnlink l) = [] /\ spawned_pids (map EUnlink l) = [] /\ waited_pids (map EUnlink l) = [] /\
                            killed_pids (map EUnlink l) = [] /\ exit_code (map EUnlink l) = None /\ is_stuck (map EUnlink l) = false /\
                            link_started (map EUnlink l) = false /\ unlinks (map EUnlink l) = l.
Proof. induction l as [|x r (A & B & C & D & E & F & G & H)]; simpl; repeat split; auto. f_equal; assumption. Qed.

Lemma unlink_dest_facts d : creates (unlink_dest d) = [] /\ spawned_pids (unlink_dest d) = [] /\ waited_pids (unlink_dest d) = [] /\
                            killed_pids (unlink_dest d) = [] /\ exit_code (unlink_dest d) = None /\ is_stuck (unlink_dest d) = false /\
                            link_started (unlink_dest d) = false.
Proof. destruct d; simpl; repeat split. Qed.

(* ------------------------------------------------------------------ all pipelines (main's loop) *)
Definition creates_of (pls : list pipeline) : list word := flat_map (fun pl => mk_temps pl ++ dest_words pl) pls.

Lemma temps_of_cons pl r : temps_of (pl :: r) = mk_temps pl ++ temps_of r.
Proof. reflexivity. Qed.

Lemma run_pipes_post e : forall pls k t temps,
  live t = [] -> all_pipelines (sane_pipeline e) k pls -> all_pipelines (fair_pipeline e) k pls ->
  match run_pipes e k pls t temps with
  | (ev, temps', go) =>
     incl (spawned_pids ev) (waited_pids ev) /\ incl (killed_pids ev) (spawned_pids ev) /\
     (go = true <-> all_pipelines (pipeline_ok e) k pls) /\
     (go = true -> quiet ev /\ killed_pids ev = [] /\ temps' = temps ++ temps_of pls /\ creates ev = creates_of pls) /\
     (go = false -> exists j pl body,
         nth_error pls j = Some pl /\ ~ pipeline_ok e (k + j) pl /\
         ev = body ++ unlink_dest (p_dest pl) ++ map EUnlink temps' ++ [EExit 1] /\ quiet body /\
         incl temps temps' /\
         (forall w, In w (creates body) -> is_temp w = true -> In w temps'))
  end.
Proof.
  induction pls as [|pl r IH]; intros k t temps Hclear Hsane Hfair.
  - simpl. split; [apply incl_refl|]. split; [apply incl_refl|]. split; [tauto|]. split; [|discriminate].
    intros _. split; [constructor|]. split; [reflexivity|]. split; [rewrite app_nil_r; reflexivity|reflexivity].
  - destruct Hsane as [Hs1 Hsr]. destruct Hfair as [Hf1 Hfr]. cbn [run_pipes].
    pose proof (run_pipeline_post e k pl t temps Hclear Hs1 Hf1) as P.
    destruct (run_pipeline e k pl t temps) as [[[ev1 t1] temps1] go1].
    destruct P as (Pc & Pt & Pw & Pk & Pg & Pok & Pfail).
    destruct go1.
    + destruct (Pok eq_refl) as (Q1 & K1 & C1).
      specialize (IH (S k) t1 temps1 Pc Hsr Hfr).
      destruct (run_pipes e (S k) r t1 temps1) as [[ev2 temps2] go2].
      destruct IH as (Iw & Ik & Ig & Iok & Ifail).
      split; [rewrite spawned_app, waited_app; apply incl_app; [apply incl_appl|apply incl_appr]; assumption|].
      split; [rewrite spawned_app, killed_app; apply incl_app; [apply incl_appl|apply incl_appr]; assumption|].
      split.
      { simpl. rewrite Ig. split; [intros H; split; [apply Pg; reflexivity|assumption]|tauto]. }
      split.
      * intros ->. destruct (Iok eq_refl) as (Q2 & K2 & T2 & C2).
        split; [apply quiet_app; split; assumption|]. split; [rewrite killed_app, K1, K2; reflexivity|].
        split; [rewrite T2, Pt, temps_of_cons, app_assoc; reflexivity|].
        rewrite creates_app, C1, C2. reflexivity.
      * intros ->. destruct (Ifail eq_refl) as (j & pl' & body & N & NO & E & Qb & It & Ct).
        exists (S j), pl', (ev1 ++ body). split; [assumption|]. split; [rewrite Nat.add_succ_r; assumption|].
        split; [rewrite E, <- app_assoc; reflexivity|]. split; [apply quiet_app; split; assumption|].
        split; [rewrite Pt in It; intros w Hw; apply It; apply in_app_iff; left; assumption|].
        intros w Hw Ht. rewrite creates_app in Hw. apply in_app_iff in Hw. destruct Hw as [Hw|Hw]; [|apply Ct; assumption].
        apply It. rewrite Pt. rewrite C1 in Hw. apply in_app_iff. right.
        apply in_app_iff in Hw. destruct Hw as [Hw|Hw]; [assumption|].
        unfold dest_words, mk_temps in *. destruct (p_dest pl) as [|[s|i]]; simpl in *; try contradiction.
        -- destruct Hw as [<-|[]]. discriminate.
        -- assumption.
    + split; [assumption|]. split; [assumption|]. split.
      { simpl. split; [discriminate|]. intros [H _]. apply Pg in H. discriminate. }
      split; [discriminate|].
      intros _. destruct (Pfail eq_refl) as (body & E & Qb & Cb & _ & _).
      exists 0, pl, body. split; [reflexivity|]. split; [rewrite Nat.add_0_r; intro H; apply Pg in H; discriminate|].
      split; [assumption|]. split; [assumption|]. split; [rewrite Pt; apply incl_appl, incl_refl|].
      intros w Hw Ht. apply Cb in Hw. rewrite Pt. apply in_app_iff. right.
      apply in_app_iff in Hw. destruct Hw as [Hw|Hw]; [assumption|].
      unfold dest_words, mk_temps in *. destruct (p_dest pl) as [|[s|i]]; simpl in *; try contradiction.
      * destruct Hw as [<-|[]]. discriminate.
      * assumption.
Qed.

(* ------------------------------------------------------------------ headline theorems *)
Lemma tail_facts d l n :
  let tl := unlink_dest d ++ map EUnlink l ++ [EExit n] in
  creates tl = [] /\ spawned_pids tl = [] /\ waited_pids tl = [] /\ killed_pids tl = [] /\
  exit_code tl = Some n /\ is_stuck tl = false /\ link_started tl = false.
Proof.
  cbv zeta. destruct (unlink_dest_facts d) as (A1 & A2 & A3 & A4 & A5 & A6 & A7).
  destruct (unlink_list_facts l) as (B1 & B2 & B3 & B4 & B5 & B6 & B7 & _).
  rewrite !creates_app, !spawned_app, !waited_app, !killed_app, !exit_code_app, !is_stuck_app, !link_started_app.
  rewrite A1, A2, A3, A4, A5, A6, A7, B1, B2, B3, B4, B5, B6, B7. simpl. repeat split.
Qed.

(* A pipeline fails (a tool cannot be started, exits non-zero or is killed - at any point, in any order relative
   to the other stages): the driver exits 1, never starts the linker, has reaped every child it started, sent
   SIGTERM only to its own children, removed every temporary object and the output of the failing pipeline,
   and does not hang. *)
Theorem fail_clean e v pls link :
  all_pipelines (sane_pipeline e) 0 pls -> all_pipelines (fair_pipeline e) 0 pls ->
  ~ all_pipelines (pipeline_ok e) 0 pls ->
  let tr := run e (Run v pls link) in
  exit_code tr = Some 1 /\ is_stuck tr = false /\ link_started tr = false /\
  incl (spawned_pids tr) (waited_pids tr) /\ incl (killed_pids tr) (spawned_pids tr) /\
  exists j pl, nth_error pls j = Some pl /\ ~ pipeline_ok e j pl /\
    forall w, In w (may_exist tr []) -> is_temp w = false /\ p_dest pl <> DFile w.
Proof.
  intros Hs Hf Hno. cbv zeta. unfold run.
  pose proof (run_pipes_post e pls 0 tab0 [] eq_refl Hs Hf) as P.
  destruct (run_pipes e 0 pls tab0 []) as [[ev temps] go].
  destruct P as (Pw & Pk & Pg & _ & Pfail).
  destruct go; [exfalso; apply Hno; apply Pg; reflexivity|].
  destruct (Pfail eq_refl) as (j & pl & body & N & NO & E & Qb & _ & Ct).
  destruct (quiet_facts body Qb) as (X1 & X2 & X3 & X4).
  destruct (tail_facts (p_dest pl) temps 1) as (T1 & T2 & T3 & T4 & T5 & T6 & T7).
  subst ev.
  split; [rewrite exit_code_app, X1; assumption|].
  split; [rewrite is_stuck_app, X2; assumption|].
  split; [rewrite link_started_app, X3; assumption|].
  split; [assumption|]. split; [assumption|].
  exists j, pl. split; [assumption|]. split; [assumption|].
  intros w Hw. split.
  - destruct (is_temp w) eqn:Tw; [|reflexivity]. exfalso.
    pose proof (may_exist_sub _ _ _ Hw) as [[]|Hc].
    rewrite creates_app, T1, app_nil_r in Hc.
    pose proof (Ct w Hc Tw) as Hin. apply in_split in Hin. destruct Hin as (l1 & l2 & ->).
    revert Hw. rewrite map_app. simpl.
    replace (body ++ unlink_dest (p_dest pl) ++ (map EUnlink l1 ++ EUnlink w :: map EUnlink l2) ++ [EExit 1])
      with ((body ++ unlink_dest (p_dest pl) ++ map EUnlink l1) ++ EUnlink w :: (map EUnlink l2 ++ [EExit 1]))
      by (rewrite <- !app_assoc; reflexivity).
    apply may_exist_unlinked. rewrite creates_app. destruct (unlink_list_facts l2) as (-> & _). simpl. tauto.
  - intros Hd. revert Hw. unfold unlink_dest. rewrite Hd.
    replace (body ++ [EUnlink w] ++ map EUnlink temps ++ [EExit 1]) with (body ++ EUnlink w :: (map EUnlink temps ++ [EExit 1])) by reflexivity.
    apply may_exist_unlinked. rewrite creates_app. destruct (unlink_list_facts temps) as (-> & _). simpl. tauto.
Qed.

Definition wf_plan (pls : list pipeline) (link : option (list word)) : Prop := link = None -> temps_of pls = [].

Lemma may_exist_no_temp_after_unlinks ev temps extra n :
  quiet ev -> (forall w, In w (creates ev) -> is_temp w = true -> In w temps) -> creates extra = [] -> unlinks extra = [] ->
  forall w, In w (may_exist (ev ++ extra ++ map EUnlink temps ++ [EExit n]) []) -> is_temp w = false.
Proof.
  intros Q Ct Ce Ue w Hw. destruct (is_temp w) eqn:Tw; [|reflexivity]. exfalso.
  pose proof (may_exist_sub _ _ _ Hw) as [[]|Hc].
  rewrite !creates_app, Ce in Hc. destruct (unlink_list_facts temps) as (U1 & _). rewrite U1 in Hc. simpl in Hc. rewrite app_nil_r in Hc.
  pose proof (Ct w Hc Tw) as Hin. apply in_split in Hin. destruct Hin as (l1 & l2 & ->).
  revert Hw. rewrite map_app. simpl.
  replace (ev ++ extra ++ (map EUnlink l1 ++ EUnlink w :: map EUnlink l2) ++ [EExit n])
    with ((ev ++ extra ++ map EUnlink l1) ++ EUnlink w :: (map EUnlink l2 ++ [EExit n]))
    by (rewrite <- !app_assoc; reflexivity).
  apply may_exist_unlinked. rewrite creates_app. destruct (unlink_list_facts l2) as (-> & _). simpl. tauto.
Qed.

Lemma creates_of_temps pls w : In w (creates_of pls) -> is_temp w = true -> In w (temps_of pls).
Proof.
  unfold creates_of, temps_of. rewrite !in_flat_map. intros (pl & A & B) T. exists pl. split; [assumption|].
  unfold mk_temps, dest_words in B. destruct (p_dest pl) as [|[s|i]]; simpl in *; try tauto.
  destruct B as [<-|[]]. discriminate.
Qed.

Lemma creates_of_dest pls pl w : In pl pls -> p_dest pl = DFile w -> In w (creates_of pls).
Proof.
  intros A B. unfold creates_of. apply in_flat_map. exists pl. split; [assumption|].
  apply in_app_iff. right. unfold dest_words. rewrite B. left; reflexivity.
Qed.

(* Every tool succeeds: exit status 0, every child reaped, nobody signalled, the linker started exactly when
   linking was asked for, every output in place, no temporary object left. *)
Theorem success_clean e v pls link :
  all_pipelines (sane_pipeline e) 0 pls -> all_pipelines (fair_pipeline e) 0 pls ->
  all_pipelines (pipeline_ok e) 0 pls -> (link <> None -> link_ok e) -> wf_plan pls link ->
  let tr := run e (Run v pls link) in
  exit_code tr = Some 0 /\ is_stuck tr = false /\
  link_started tr = (match link with Some _ => true | None => false end) /\
  incl (spawned_pids tr) (waited_pids tr) /\ killed_pids tr = [] /\
  (forall w, In w (may_exist tr []) -> is_temp w = false) /\
  (forall pl s, In pl pls -> p_dest pl = DFile (Lit s) -> In (Lit s) (may_exist tr [])).
Proof.
  intros Hs Hf Hok Hl Hwf. cbv zeta. unfold run.
  pose proof (run_pipes_post e pls 0 tab0 [] eq_refl Hs Hf) as P.
  destruct (run_pipes e 0 pls tab0 []) as [[ev temps] go].
  destruct P as (Pw & Pk & Pg & Pok & _).
  assert (go = true) as -> by (apply Pg; assumption).
  destruct (Pok eq_refl) as (Q & K & T & C). simpl in T. subst temps.
  destruct (quiet_facts ev Q) as (X1 & X2 & X3 & X4).
  destruct link as [argv|].
  - destruct (Hl ltac:(discriminate)) as [L1 L2]. unfold run_link. rewrite L1, L2.
    destruct (unlink_list_facts (temps_of pls)) as (U1 & U2 & U3 & U4 & U5 & U6 & U7 & U8).
    rewrite !exit_code_app, !is_stuck_app, !link_started_app, !spawned_app, !waited_app, !killed_app.
    rewrite X1, X2, X3, U2, U3, U4, U5, U6, U7, K. simpl.
    split; [reflexivity|]. split; [reflexivity|]. split; [reflexivity|].
    split; [rewrite !app_nil_r; assumption|]. split; [reflexivity|]. split.
    + apply (may_exist_no_temp_after_unlinks ev (temps_of pls) [ESpawnLink argv; EWaitLink (link_status e)] 0 Q); try reflexivity.
      intros w Hw Tw. rewrite C in Hw. apply creates_of_temps; assumption.
    + intros pl s Hin Hd. apply may_exist_keeps.
      * right. rewrite !creates_app. apply in_app_iff. left. rewrite C. eapply creates_of_dest; eassumption.
      * change (~ In (Lit s) (unlinks (ev ++ [ESpawnLink argv; EWaitLink (link_status e)] ++ map EUnlink (temps_of pls) ++ [EExit 0]))).
        rewrite !unlinks_app, X4, U8. simpl. rewrite app_nil_r. intro Hin'.
        unfold temps_of in Hin'. apply in_flat_map in Hin'. destruct Hin' as (pl' & _ & B).
        destruct (p_dest pl') as [|[s'|i]]; simpl in B; try contradiction. destruct B as [B|[]]. discriminate.
  - rewrite exit_code_app, is_stuck_app, link_started_app, spawned_app, waited_app, killed_app, X1, X2, X3, K. simpl.
    split; [reflexivity|]. split; [reflexivity|]. split; [reflexivity|].
    split; [rewrite !app_nil_r; assumption|]. split; [reflexivity|]. split.
    + intros w Hw. destruct (is_temp w) eqn:Tw; [|reflexivity]. exfalso.
      apply may_exist_sub in Hw. destruct Hw as [[]|Hw]. rewrite creates_app, C in Hw. simpl in Hw. rewrite app_nil_r in Hw.
      pose proof (creates_of_temps pls w Hw Tw) as Hin. rewrite (Hwf eq_refl) in Hin. contradiction.
    + intros pl s Hin Hd. apply may_exist_keeps.
      * right. rewrite creates_app. apply in_app_iff. left. rewrite C. eapply creates_of_dest; eassumption.
      * rewrite unlinks_app, X4. simpl. tauto.
Qed.

(* Every compilation pipeline succeeds but the linker cannot be started or fails: exit status 1 after the
   temporary objects were removed; all children reaped. *)
Theorem link_fail_clean e v pls argv :
  all_pipelines (sane_pipeline e) 0 pls -> all_pipelines (fair_pipeline e) 0 pls ->
  all_pipelines (pipeline_ok e) 0 pls -> ~ link_ok e ->
  let tr := run e (Run v pls (Some argv)) in
  exit_code tr = Some 1 /\ is_stuck tr = false /\
  incl (spawned_pids tr) (waited_pids tr) /\ killed_pids tr = [] /\
  (forall w, In w (may_exist tr []) -> is_temp w = false).
Proof.
  intros Hs Hf Hok Hl. cbv zeta. unfold run.
  pose proof (run_pipes_post e pls 0 tab0 [] eq_refl Hs Hf) as P.
  destruct (run_pipes e 0 pls tab0 []) as [[ev temps] go].
  destruct P as (Pw & Pk & Pg & Pok & _).
  assert (go = true) as -> by (apply Pg; assumption).
  destruct (Pok eq_refl) as (Q & K & T & C). simpl in T. subst temps.
  destruct (quiet_facts ev Q) as (X1 & X2 & X3 & X4).
  destruct (unlink_list_facts (temps_of pls)) as (U1 & U2 & U3 & U4 & U5 & U6 & U7 & U8).
  assert (Hct : forall w, In w (creates ev) -> is_temp w = true -> In w (temps_of pls))
    by (intros w Hw Tw; rewrite C in Hw; apply creates_of_temps; assumption).
  unfold run_link. destruct (link_spawn_ok e) eqn:L1.
  - assert (succeeded (link_status e) = false) as L2.
    { destruct (succeeded (link_status e)) eqn:L2; [|reflexivity]. exfalso. apply Hl. split; assumption. }
    rewrite L2.
    rewrite !exit_code_app, !is_stuck_app, !spawned_app, !waited_app, !killed_app.
    rewrite X1, X2, U2, U3, U4, U5, U6, K. simpl.
    split; [reflexivity|]. split; [reflexivity|]. split; [rewrite !app_nil_r; assumption|]. split; [reflexivity|].
    apply (may_exist_no_temp_after_unlinks ev (temps_of pls) [ESpawnLink argv; EWaitLink (link_status e)] 1 Q Hct); reflexivity.
  - rewrite !exit_code_app, !is_stuck_app, !spawned_app, !waited_app, !killed_app.
    rewrite X1, X2, U2, U3, U4, U5, U6, K. simpl.
    split; [reflexivity|]. split; [reflexivity|]. split; [rewrite !app_nil_r; assumption|]. split; [reflexivity|].
    apply (may_exist_no_temp_after_unlinks ev (temps_of pls) [ESpawnLinkFail] 1 Q Hct); reflexivity.
Qed.

(* ------------------------------------------------------------------ the plans main produces meet the stage hypothesis *)
From Coq Require Import Sorting.Sorted.
From Cproc Require Import Model.Driver Spec.DriverSpec Proofs.DriverProofs.

Lemma sorted_nodup l : StronglySorted (fun a b => stage_idx a < stage_idx b) l -> NoDup l.
Proof.
  induction 1 as [|a l Hs IH Hf]; constructor; [|assumption].
  intro Hin. rewrite Forall_forall in Hf. specialize (Hf a Hin). lia.
Qed.

Theorem plan_stages_nodup cfg argv v ps lk :
  Driver.plan cfg argv = Run v ps lk -> forall p, In p ps -> NoDup (stages_of_pipeline p).
Proof.
  intros H p Hp. destruct (plan_pipelines cfg argv v ps lk H) as (archs & items & _ & _ & C).
  destruct (C p Hp) as (name & t & k & _ & _ & _ & E & _). unfold stages_of_pipeline. rewrite E.
  apply sorted_nodup. apply pipeline_stages_sorted.
Qed.

(* the wait loop alone, as a statement about buildobj's reaping loop *)
Theorem wait_loop_terminates sched t n success :
  Inv t n -> ~ In 0 (map fst sched) -> NoDup (map fst sched) ->
  (forall p, In p (live t) -> In p (map fst sched)) ->
  match wait_loop sched t n success with
  | (ev, s', t', stuck) =>
      stuck = false /\ live t' = [] /\ incl (live t) (waited_pids ev) /\
      incl (killed_pids ev) (live t) /\ NoDup (killed_pids ev) /\
      (s' = false -> success = true ->
         forall q, In q (live t) ->
           In q (killed_pids ev) \/ exists ev1 st ev2, ev = ev1 ++ EWait q st :: ev2 /\ killed_pids ev1 = [])
  end.
Proof.
  intros HI H0 Hn Hf. pose proof (wait_loop_post sched t n success HI H0 Hn Hf) as P.
  destruct (wait_loop sched t n success) as [[[ev s'] t'] stuck]. destruct P. repeat split; assumption.
Qed.
