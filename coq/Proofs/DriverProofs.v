(* C17 - the model of driver.c (Model/Driver.v) against the reading of cproc(1) (Spec/DriverSpec.v). *)
From Coq Require Import List String Ascii NArith ZArith Bool Arith Lia Sorting.Sorted.
From Cproc Require Import Lib.DriverTypes Model.Driver Spec.DriverSpec.
Import ListNotations.
Open Scope string_scope.
Open Scope list_scope.

(* ------------------------------------------------------------------ strings *)
Lemma at_end_drop2 a : at_end a 2 = (drop 2 a =? "").
Proof. destruct a as [|c0 [|c1 [|c2 t]]]; reflexivity. Qed.

Lemma is_option_spec a : negb (at_is a 0 "-"%char) || at_end a 1 = negb (is_option a).
Proof.
  destruct a as [|c0 [|c1 t]]; try reflexivity; unfold at_is, at_end, is_option; simpl.
  - rewrite orb_true_r. reflexivity.
  - rewrite orb_false_r. reflexivity.
Qed.

Lemma at_end1_length a : a <> "" -> at_end a 1 = Nat.eqb (String.length a) 1.
Proof. destruct a as [|c0 [|c1 t]]; try reflexivity. congruence. Qed.

Lemma split_comma_cons c t :
  split_comma (String c t) =
  if Ascii.eqb c ","%char then "" :: split_comma t
  else match split_comma t with h :: r => String c h :: r | [] => [String c ""] end.
Proof. reflexivity. Qed.

Lemma strchr_cons c t d :
  strchr (String c t) d = if Ascii.eqb c d then Some 0 else option_map S (strchr t d).
Proof. reflexivity. Qed.

Lemma strchr_none_split s : strchr s ","%char = None -> split_comma s = [s].
Proof.
  induction s as [|c t IH]; [reflexivity|]. rewrite strchr_cons, split_comma_cons.
  destruct (Ascii.eqb c ","%char); [discriminate|].
  destruct (strchr t ","%char); [discriminate|]. intros _. rewrite IH; reflexivity.
Qed.

Lemma strchr_some_split s i : strchr s ","%char = Some i ->
  split_comma s = take i s :: split_comma (drop (S i) s) /\ String.length (drop (S i) s) < String.length s.
Proof.
  revert i; induction s as [|c t IH]; intros i H; [discriminate|].
  rewrite strchr_cons in H. rewrite split_comma_cons.
  destruct (Ascii.eqb c ","%char) eqn:E.
  - inversion H; subst. simpl. split; [reflexivity|lia].
  - destruct (strchr t ","%char) as [j|] eqn:F; [|discriminate]. inversion H; subst.
    destruct (IH j eq_refl) as [A B]. split.
    + rewrite A. reflexivity.
    + change (String.length (drop (S j) t) < S (String.length t)). apply Nat.lt_lt_succ_r; exact B.
Qed.

Lemma wsplit_split n s : String.length s < n -> wsplit n s = split_comma s.
Proof.
  revert s; induction n as [|n IH]; intros s H; [lia|]. cbn [wsplit].
  destruct (strchr s ","%char) as [i|] eqn:E.
  - destruct (strchr_some_split s i E) as [A B]. rewrite A, IH; [reflexivity|lia].
  - rewrite strchr_none_split; auto.
Qed.

(* ------------------------------------------------------------------ items as state updates *)
Definition input_of (i : item) : list input :=
  match i with
  | IInput name t => [{| i_name := Lit name; i_stages := mask (stages_for t); i_type := t; i_lib := false |}]
  | ILib name => [{| i_name := Lit name; i_stages := mask [LINK]; i_type := OBJ; i_lib := true |}]
  | _ => []
  end.

Definition step_item (s : st) (i : item) : st :=
  match i with
  | IInput _ _ | ILib _ => match input_of i with [x] => add_input x s | _ => s end
  | IMode m => set_last m s
  | IOut o => set_output o s
  | IFwd g ws => add g ws s
  | INoStdlib => set_nostdlib s
  | IVerbose => set_verbose s
  | INop => s
  end.

(* the part of the state that matters after the option loop *)
Definition norm (s : st) : st :=
  {| cmd := cmd s; inputs := inputs s; last := last s; output := output s; ftype := NONE;
     nostdlib := nostdlib s; verbose := verbose s; argc := 0 |}.

Lemma norm_step s i : norm (step_item s i) = step_item (norm s) i.
Proof. destruct i; reflexivity. Qed.

Lemma norm_fold items : forall s1 s2, norm s1 = norm s2 ->
  norm (fold_left step_item items s1) = norm (fold_left step_item items s2).
Proof.
  induction items as [|i r IH]; simpl; intros s1 s2 H; [assumption|].
  apply IH. rewrite !norm_step, H. reflexivity.
Qed.

Definition R (r : presult) (lx : umsg + list item) (s : st) : Prop :=
  r = PUndef \/
  match lx with
  | inl m => r = PUsage m
  | inr items => exists s', r = PDone s' /\ norm s' = norm (fold_left step_item items s)
  end.

Lemma R_cont r lx s s2 is :
  R r lx s2 -> norm s2 = norm (fold_left step_item is s) -> R r (cons_items is lx) s.
Proof.
  intros [H|H] N; [left; assumption|right].
  destruct lx as [m|l]; simpl; [assumption|].
  destruct H as (s' & A & B). exists s'. split; [assumption|].
  rewrite B, fold_left_app. apply norm_fold. assumption.
Qed.

Lemma stages_of_for t : t <> NONE -> stages_of t = Some (mask (stages_for t)).
Proof. destruct t; try reflexivity. congruence. Qed.

Lemma detect_suffix a : detectfiletype a = type_by_suffix a.
Proof.
  unfold detectfiletype, type_by_suffix, suffix. destruct (strrchr a "."%char); [|reflexivity].
  simpl. repeat match goal with |- context [String.eqb ?x ?y] => destruct (String.eqb x y) end; reflexivity.
Qed.

Lemma type_by_suffix_not_none a : type_by_suffix a <> NONE.
Proof.
  unfold type_by_suffix. destruct (suffix a); [|discriminate]. simpl.
  repeat match goal with |- context [String.eqb ?x ?y] => destruct (String.eqb x y) end; discriminate.
Qed.

Lemma lang_of_table a : lang_of a = assoc a lang_table.
Proof.
  unfold lang_of. simpl.
  repeat match goal with |- context [String.eqb ?x ?y] => destruct (String.eqb x y) end; reflexivity.
Qed.

Lemma R_cont0 r lx s s2 : R r lx s2 -> norm s2 = norm s -> R r lx s.
Proof.
  intros [H|H] N; [left; assumption|right].
  destruct lx as [m|l]; [assumption|].
  destruct H as (s' & A & B). exists s'. split; [assumption|].
  rewrite B. apply norm_fold. assumption.
Qed.

Lemma R_usage m s : R (PUsage m) (inl m) s.
Proof. right. reflexivity. Qed.

(* ------------------------------------------------------------------ the option loop reads the command line as the tables say *)
Ltac useIH IH :=
  match goal with
  | |- R (loop _ ?s2 ?r) _ _ =>
      let P := fresh "P" in
      pose proof (IH r s2) as P;
      cbn [ftype add add_input set_last set_output set_ftype set_nostdlib set_verbose set_argc] in P;
      try match goal with FT : ftype _ = _ |- _ => rewrite FT in P end;
      apply P; simpl in *; lia
  end.
Ltac fin IH := first
  [ apply R_usage
  | eapply R_cont; [useIH IH | reflexivity]
  | eapply R_cont0; [useIH IH | reflexivity] ].

Lemma loop_lex : forall f argv s, List.length argv < f -> R (loop f s argv) (lex asbuilt (ftype s) argv) s.
Proof.
  induction f as [|f IH]; intros argv s Hf; [lia|].
  destruct argv as [|arg rest].
  { right. simpl. eexists. split; reflexivity. }
  cbn [loop lex]. rewrite is_option_spec.
  destruct (is_option arg) eqn:O; cbn [negb].
  2:{ (* an input operand *)
    cbn [ftype set_argc].
    destruct (ftype s) eqn:FT; cbn [filetype_eqb andb operand asbuilt q_onechar];
      try solve [ cbn [stages_of]; fin IH ].
    destruct (arg =? "") eqn:E0; [left; reflexivity|].
    assert (arg <> "") by (intro; subst; discriminate).
    rewrite at_end1_length by assumption.
    destruct (Nat.eqb (String.length arg) 1) eqn:L1; cbn [negb].
    - rewrite orb_true_r. cbn [stages_of]. fin IH.
    - rewrite orb_false_r.
      assert (arg =? "-" = false) as ->.
      { destruct (arg =? "-") eqn:E; [|reflexivity]. apply String.eqb_eq in E; subst; discriminate. }
      rewrite detect_suffix, stages_of_for by apply type_by_suffix_not_none. fin IH. }
  (* an option *)
  cbn [assoc word_table mem pair_table existsb two_words].
  repeat match goal with
  | |- context [String.eqb arg ?L] =>
      let E := fresh "E" in
      destruct (String.eqb arg L) eqn:E;
      [ apply String.eqb_eq in E; subst arg; cbn; try (destruct rest; cbn); fin IH | ]
  end.
  cbn [orb]. cbv iota.
  destruct (hasprefix arg "-std=") eqn:Hstd; [fin IH|].
  remember (cidx arg 1) as c eqn:Hc.
  cbn [assocc letter_table].
  unfold nextarg. rewrite !at_end_drop2.
  repeat match goal with
  | |- context [Ascii.eqb c ?L] =>
      let E := fresh "C" in
      destruct (Ascii.eqb c L) eqn:E;
      [ apply Ascii.eqb_eq in E; rewrite E in *; cbn [is_in Ascii.eqb Bool.eqb andb orb negb];
        try (destruct (drop 2 arg =? "") eqn:D2; cbn [negb andb]; try (destruct rest; cbn [negb andb]));
        try solve [fin IH] | ]
  end.
  all: try solve [fin IH].
  all: try solve [rewrite lang_of_table; destruct (assoc _ lang_table); fin IH].
  all: try solve [
    clear - IH Hf D2;
    destruct arg as [|c0 [|c1 [|c2 [|c3 body]]]]; try discriminate;
    cbn [w_items at_is at_end String.get drop cidx negb andb];
    rewrite ?wsplit_split by lia;
    repeat match goal with
    | |- context [Ascii.eqb ?a ?b] => destruct (Ascii.eqb a b); cbn [negb]
    end; fin IH ].
  cbn [is_in]. rewrite C, C1, C10, C11, C13. cbn [orb]. rewrite andb_false_r. apply R_usage.
Qed.

(* ------------------------------------------------------------------ the state after the loop, read declaratively *)
Lemma getc_addc c g ws h : getc (addc c g ws) h = if stage_eqb h g then getc c h ++ ws else getc c h.
Proof. destruct g, h; reflexivity. Qed.

Lemma stage_eqb_sym_aux a b : stage_eqb a b = stage_eqb b a.
Proof. destruct a, b; reflexivity. Qed.

Lemma fold_last items : forall s, last (fold_left step_item items s) = mode_of items (last s).
Proof. induction items as [|i r IH]; intros s; [reflexivity|]. simpl. rewrite IH. destruct i; reflexivity. Qed.

Lemma fold_output items : forall s, output (fold_left step_item items s) = out_of items (output s).
Proof. induction items as [|i r IH]; intros s; [reflexivity|]. simpl. rewrite IH. destruct i; reflexivity. Qed.

Lemma fold_cmd items g : forall s, getc (cmd (fold_left step_item items s)) g = getc (cmd s) g ++ fwd g items.
Proof.
  induction items as [|i r IH]; intros s; simpl; [rewrite app_nil_r; reflexivity|].
  rewrite IH. destruct i; simpl; try reflexivity.
  rewrite getc_addc. rewrite (stage_eqb_sym_aux g g0). destruct (stage_eqb g0 g); [rewrite app_assoc|]; reflexivity.
Qed.

Lemma fold_inputs items : forall s, inputs (fold_left step_item items s) = inputs s ++ flat_map input_of items.
Proof.
  induction items as [|i r IH]; intros s; simpl; [rewrite app_nil_r; reflexivity|].
  rewrite IH. destruct i; simpl; rewrite <- ?app_assoc; reflexivity.
Qed.

Lemma fold_nostdlib items : forall s, nostdlib (fold_left step_item items s) = nostdlib s || flag_nostdlib items.
Proof.
  induction items as [|i r IH]; intros s; simpl; [rewrite orb_false_r; reflexivity|].
  rewrite IH. destruct i; simpl; try reflexivity. rewrite orb_true_r; reflexivity.
Qed.

Lemma fold_verbose items : forall s, verbose (fold_left step_item items s) = verbose s || flag_verbose items.
Proof.
  induction items as [|i r IH]; intros s; simpl; [rewrite orb_false_r; reflexivity|].
  rewrite IH. destruct i; simpl; try reflexivity. rewrite orb_true_r; reflexivity.
Qed.

Lemma inputs_operands items : flat_map input_of (operands items) = flat_map input_of items.
Proof. induction items as [|i r IH]; [reflexivity|]. destruct i; simpl; rewrite ?IH; reflexivity. Qed.

Definition link_words (ins : list input) : list word :=
  flat_map (fun i => (if i_lib i then [Lit "-l"] else []) ++ [i_name i]) ins.

Lemma take_length s : take (String.length s) s = s.
Proof. induction s as [|c t IH]; simpl; [reflexivity|]. rewrite IH; reflexivity. Qed.

Lemma changeext_replace n e : changeext n e = replace_suffix n e.
Proof.
  unfold changeext, replace_suffix.
  destruct (strrchr n "/"%char); (destruct (strrchr _ "."%char); [reflexivity|rewrite take_length; reflexivity]).
Qed.

Fixpoint stage_cmds' (ta : stage -> list string) (l : list stage) (first : bool) (name : string) (d : dest)
    : list (stage * list word) :=
  match l with
  | [] => []
  | g :: r =>
      (g, lits (ta g)
          ++ (match r, d with [], DFile w => [Lit "-o"; w] | _, _ => [] end)
          ++ (if first && negb (name =? "-") then [Lit name] else []))
      :: stage_cmds' ta r false name d
  end.

Lemma stage_cmds_eq cfg archs items ta l : (forall g, ta g = tool_args cfg archs items g) ->
  forall first name d, stage_cmds cfg archs items l first name d = stage_cmds' ta l first name d.
Proof.
  intros H. induction l as [|g r IH]; intros; [reflexivity|]. simpl. rewrite IH, H. reflexivity.
Qed.

Lemma build_walk cfg archs items cmdbase :
  (forall g, cmdbase g = tool_args cfg archs items g) ->
  forall lst output, lst = mode items -> output = out items ->
  forall l nt,
    link_words (fst (build_all cmdbase lst output (flat_map input_of l) nt)) = snd (walk asbuilt cfg archs items l nt)
    /\ snd (build_all cmdbase lst output (flat_map input_of l) nt) = fst (walk asbuilt cfg archs items l nt).
Proof.
  intros Hcb lst output Hm Ho l. induction l as [|i r IH]; intros nt; [split; reflexivity|].
  destruct i as [name t|name|m|o|g ws| | |]; try exact (IH nt).
  - (* an input file *)
    cbn [flat_map input_of app].
    assert (Hsc := stage_cmds_eq cfg archs items cmdbase).
    destruct t, lst.
    all: cbn [build_all walk i_stages].
    all: unfold is_built, takes_part, pipeline_stages, dest_for, default_dest, buildobj.
    all: rewrite <- ?Hm, <- ?Ho; cbn [i_name i_type i_lib stage_eqb stage_idx Nat.eqb].
    all: rewrite ?Hsc by assumption.
    all: rewrite ?changeext_replace.
    all: destruct output as [o|]; [destruct (String.eqb o "-")|]; cbn.
    all: rewrite ?changeext_replace.
    all: destruct (String.eqb name "-"); cbn.
    all: pose proof (IH nt) as [IH1 IH2]; pose proof (IH (S nt)) as [IH3 IH4].
    all: destruct (build_all cmdbase _ _ (flat_map input_of r) nt) as [ins1 ps1];
         destruct (build_all cmdbase _ _ (flat_map input_of r) (S nt)) as [ins2 ps2];
         destruct (walk asbuilt cfg archs items r nt) as [ps1' ws1];
         destruct (walk asbuilt cfg archs items r (S nt)) as [ps2' ws2];
         cbn [fst snd] in IH1, IH2, IH3, IH4; subst ws1 ps1' ws2 ps2'.
    all: vm_compute; split; reflexivity.
  - (* a library *)
    cbn [flat_map input_of app].
    destruct lst.
    all: cbn [build_all walk i_stages]; unfold buildobj; cbn.
    all: pose proof (IH nt) as [IH1 IH2].
    all: destruct (build_all cmdbase _ _ (flat_map input_of r) nt) as [ins1 ps1];
         destruct (walk asbuilt cfg archs items r nt) as [ps1' ws1];
         cbn [fst snd] in IH1, IH2; subst ws1 ps1'.
    all: split; reflexivity.
Qed.

Lemma operands_all items : forallb is_operand (operands items) = true.
Proof. unfold operands. induction items as [|i r IH]; [reflexivity|]. simpl. destruct (is_operand i) eqn:E; simpl; rewrite ?E; assumption. Qed.

Lemma init_cmd cfg arch qarch n items g :
  getc (cmd (fold_left step_item items (init cfg arch qarch n))) g = tool_args cfg (arch, qarch) items g.
Proof. rewrite fold_cmd. destruct g; reflexivity. Qed.

Lemma finish_plan cfg arch qarch n items :
  finish cfg (fold_left step_item items (init cfg arch qarch n)) = plan_items asbuilt cfg (arch, qarch) items.
Proof.
  unfold finish, plan_items, refusal, buildexe.
  rewrite fold_inputs, fold_output, fold_last, fold_nostdlib, fold_verbose. cbn [init inputs output last nostdlib verbose app orb].
  rewrite <- inputs_operands.
  pose proof (build_walk cfg (arch, qarch) items _ (init_cmd cfg arch qarch n items)
                (mode items) (out items) eq_refl eq_refl (operands items) 0) as [B1 B2].
  fold (mode items) (out items).
  destruct (build_all _ (mode items) (out items) (flat_map input_of (operands items)) 0) as [ins ps].
  destruct (walk asbuilt cfg (arch, qarch) items (operands items) 0) as [ps' ws].
  cbn [fst snd] in B1, B2. subst ps' ws.
  pose proof (operands_all items) as Hops.
  assert (Hrefuse :
    match flat_map input_of (operands items) with
    | [] => None
    | _ :: more => Some (match more with [] => true | _ => false end)
    end =
    match operands items with
    | [] => None
    | _ :: more => Some (match more with [] => true | _ => false end)
    end).
  { destruct (operands items) as [|a [|b m]]; [reflexivity| |];
      simpl in Hops; destruct a; try discriminate; try reflexivity; destruct b; try discriminate; reflexivity. }
  rewrite init_cmd.
  destruct (flat_map input_of (operands items)) as [|i1 more1]; destruct (operands items) as [|o1 more2];
    try discriminate; [reflexivity|].
  inversion Hrefuse as [Hm]. 
  assert (stage_leb ASSEMBLE (mode items) = in_stages (mode items) [ASSEMBLE; LINK]) as -> by (destruct (mode items); reflexivity).
  destruct (out items) as [o|]; [|reflexivity].
  rewrite Hm. reflexivity.
Qed.

(* ------------------------------------------------------------------ main theorems *)
Lemma arch_same t : arch_of t = arch_for t.
Proof.
  unfold arch_of, arch_for, arch_table. cbn [filter fst snd].
  destruct (hasprefix t "x86_64-"), (hasprefix t "amd64-"), (hasprefix t "aarch64-"), (hasprefix t "riscv64-"); reflexivity.
Qed.

Lemma finish_norm cfg s : finish cfg s = finish cfg (norm s).
Proof. reflexivity. Qed.

Lemma init_ftype cfg a b n : ftype (init cfg a b n) = NONE.
Proof. reflexivity. Qed.

(* Unless the C code reads outside a string (an empty-string operand while no -x language is in force), the
   driver does what the as-built reading of the manual says: same refusals, same pipelines, same argument
   vectors, same output names, same linker command. *)
Theorem plan_asbuilt cfg argv :
  Driver.plan cfg argv <> Undefined -> Driver.plan cfg argv = DriverSpec.plan_q asbuilt cfg argv.
Proof.
  unfold Driver.plan, plan_q. rewrite <- arch_same.
  destruct (arch_of (target cfg)) as [[arch qarch]|]; [|reflexivity].
  pose proof (loop_lex (S (List.length argv)) argv (init cfg arch qarch (List.length argv)) (Nat.lt_succ_diag_r _)) as H.
  rewrite init_ftype in H. intros NU.
  destruct H as [H|H]; [rewrite H in NU; congruence|].
  destruct (lex asbuilt NONE argv) as [m|items].
  - rewrite H. reflexivity.
  - destruct H as (s' & A & B). rewrite A.
    rewrite finish_norm, B, <- finish_norm. apply finish_plan.
Qed.

Theorem plan_no_fuel cfg argv : Driver.plan cfg argv <> OutOfFuel.
Proof.
  unfold Driver.plan.
  destruct (arch_of (target cfg)) as [[arch qarch]|]; [|discriminate].
  pose proof (loop_lex (S (List.length argv)) argv (init cfg arch qarch (List.length argv)) (Nat.lt_succ_diag_r _)) as H.
  destruct H as [H|H]; [rewrite H; discriminate|].
  destruct (lex asbuilt _ argv) as [m|items].
  - rewrite H. discriminate.
  - destruct H as (s' & A & B). rewrite A. unfold finish.
    destruct (inputs s'); [discriminate|].
    repeat match goal with |- context [match ?x with _ => _ end] => destruct x end; discriminate.
Qed.

(* Where the as-built reading and the manual agree, the driver does what the manual says. *)
Theorem plan_spec_partial cfg argv :
  Driver.plan cfg argv <> Undefined ->
  DriverSpec.plan_q asbuilt cfg argv = DriverSpec.plan cfg argv ->
  Driver.plan cfg argv = DriverSpec.plan cfg argv.
Proof. intros H E. rewrite <- E. apply plan_asbuilt. assumption. Qed.

(* The only undefined read of the option loop: arg[1] of an empty-string operand (no -x language in force). *)
Lemma loop_undef : forall f argv s, loop f s argv = PUndef -> In "" argv.
Proof.
  induction f as [|f IH]; intros argv s H; [discriminate|].
  destruct argv as [|arg rest]; [discriminate|].
  cbn [loop] in H. unfold two_words, nextarg in H.
  destruct (arg =? "") eqn:E0; [apply String.eqb_eq in E0; subst; left; reflexivity|].
  right.
  rewrite andb_false_r in H.
  destruct (at_end arg 2); destruct rest as [|b r']; cbn [negb andb] in H; cbv iota in H.
  all: repeat match type of H with
  | context [if ?b then _ else _] => destruct b
  | context [match ?x with _ => _ end] => destruct x
  end; try discriminate; try (apply IH in H; assumption); try (apply IH in H; right; assumption).
Qed.

Theorem plan_undefined cfg argv : Driver.plan cfg argv = Undefined -> In "" argv.
Proof.
  unfold Driver.plan. destruct (arch_of (target cfg)) as [[arch qarch]|]; [|discriminate].
  destruct (loop _ _ argv) eqn:E; try discriminate.
  - unfold finish. intros H.
    repeat match type of H with context [match ?x with _ => _ end] => destruct x end; discriminate.
  - intros _. eapply loop_undef; eassumption.
Qed.

(* ------------------------------------------------------------------ per-component corollaries *)
Lemma stage_cmds_fst cfg archs items l : forall first name d,
  map fst (stage_cmds cfg archs items l first name d) = l.
Proof. induction l as [|g r IH]; intros; [reflexivity|]. simpl. rewrite IH. reflexivity. Qed.

Lemma stage_cmds_route cfg archs items l : forall first name d g ws,
  In (g, ws) (stage_cmds cfg archs items l first name d) ->
  exists tail, ws = lits (tool_args cfg archs items g) ++ tail.
Proof.
  induction l as [|h r IH]; intros first name d g ws H; [contradiction|].
  simpl in H. destruct H as [H|H]; [inversion H; subst; eexists; reflexivity|]. eapply IH; eassumption.
Qed.

Lemma walk_pipes q cfg archs items l : forall nt p,
  In p (fst (walk q cfg archs items l nt)) ->
  exists name t k, In (IInput name t) l /\ is_built items t = true /\
                   p_dest p = dest_for q items name k /\
                   p_cmds p = stage_cmds cfg archs items (pipeline_stages items t) true name (p_dest p).
Proof.
  induction l as [|i r IH]; intros nt p H; [contradiction|].
  destruct i as [name t|name|m|o|g ws| | |]; simpl in H.
  - destruct (is_built items t) eqn:B.
    + destruct (walk q cfg archs items r (if stage_eqb (mode items) LINK then S nt else nt)) as [ps ws] eqn:W.
      simpl in H. destruct H as [H|H].
      * subst p. exists name, t, nt. simpl. auto.
      * specialize (IH (if stage_eqb (mode items) LINK then S nt else nt) p). rewrite W in IH.
        destruct (IH H) as (n' & t' & k & A & C). exists n', t', k. split; [right; assumption|assumption].
    + destruct (walk q cfg archs items r nt) as [ps ws] eqn:W. simpl in H.
      specialize (IH nt p). rewrite W in IH.
      destruct (IH H) as (n' & t' & k & A & C). exists n', t', k. split; [right; assumption|assumption].
  - destruct (walk q cfg archs items r nt) as [ps ws] eqn:W. simpl in H.
    specialize (IH nt p). rewrite W in IH.
    destruct (IH H) as (n' & t' & k & A & C). exists n', t', k. split; [right; assumption|assumption].
  - destruct (IH nt p H) as (n' & t' & k & A & C). exists n', t', k. split; [right; assumption|assumption].
  - destruct (IH nt p H) as (n' & t' & k & A & C). exists n', t', k. split; [right; assumption|assumption].
  - destruct (IH nt p H) as (n' & t' & k & A & C). exists n', t', k. split; [right; assumption|assumption].
  - destruct (IH nt p H) as (n' & t' & k & A & C). exists n', t', k. split; [right; assumption|assumption].
  - destruct (IH nt p H) as (n' & t' & k & A & C). exists n', t', k. split; [right; assumption|assumption].
  - destruct (IH nt p H) as (n' & t' & k & A & C). exists n', t', k. split; [right; assumption|assumption].
Qed.

Lemma operands_in i items : In i (operands items) -> In i items.
Proof. unfold operands. intros H. apply filter_In in H. tauto. Qed.

(* Every pipeline the driver starts belongs to an input operand that reaches the mode's last stage; its stages are
   the stages of the input's type up to that stage in pipeline order; every stage gets the tool's configured
   command, the target flag and the options forwarded to that tool in command-line order, the last stage
   alone gets -o, the first alone the input name. *)
Theorem plan_pipelines cfg argv v ps lk :
  Driver.plan cfg argv = Run v ps lk ->
  exists archs items,
    arch_for (target cfg) = Some archs /\ lex asbuilt NONE argv = inr items /\
    forall p, In p ps ->
      exists name t k, In (IInput name t) items /\ is_built items t = true /\
                       p_dest p = dest_for asbuilt items name k /\
                       map fst (p_cmds p) = pipeline_stages items t /\
                       p_cmds p = stage_cmds cfg archs items (pipeline_stages items t) true name (p_dest p).
Proof.
  intros H. assert (NU : Driver.plan cfg argv <> Undefined) by (rewrite H; discriminate).
  rewrite (plan_asbuilt cfg argv NU) in H. unfold plan_q in H.
  destruct (arch_for (target cfg)) as [archs|]; [|discriminate].
  destruct (lex asbuilt NONE argv) as [m|items]; [discriminate|].
  exists archs, items. split; [reflexivity|]. split; [reflexivity|].
  unfold plan_items in H. destruct (refusal items); [discriminate|].
  destruct (walk asbuilt cfg archs items (operands items) 0) as [ps' ws] eqn:W.
  inversion H; subst. intros p Hp.
  pose proof (walk_pipes asbuilt cfg archs items (operands items) 0 p) as Q. rewrite W in Q.
  destruct (Q Hp) as (name & t & k & A & B & C & D).
  exists name, t, k. repeat split; auto using operands_in.
  rewrite D. apply stage_cmds_fst.
Qed.

(* route_order: what each tool is given in front of "-o"/the input name *)
Theorem route_order cfg argv v ps lk :
  Driver.plan cfg argv = Run v ps lk ->
  exists archs items,
    arch_for (target cfg) = Some archs /\ lex asbuilt NONE argv = inr items /\
    (forall p g ws, In p ps -> In (g, ws) (p_cmds p) ->
       exists tail, ws = lits (tool_args cfg archs items g) ++ tail) /\
    (forall ws, lk = Some ws -> exists tail, ws = lits (tool_args cfg archs items LINK) ++ tail).
Proof.
  intros H. destruct (plan_pipelines cfg argv v ps lk H) as (archs & items & A & B & C).
  exists archs, items. repeat split; auto.
  - intros p g ws Hp Hg. destruct (C p Hp) as (name & t & k & _ & _ & _ & _ & E).
    rewrite E in Hg. eapply stage_cmds_route; eassumption.
  - intros ws Hl. assert (NU : Driver.plan cfg argv <> Undefined) by (rewrite H; discriminate).
    rewrite (plan_asbuilt cfg argv NU) in H. unfold plan_q in H. rewrite A, B in H.
    unfold plan_items in H. destruct (refusal items); [discriminate|].
    destruct (walk asbuilt cfg archs items (operands items) 0) as [ps' ws'].
    inversion H; subst. destruct (stage_eqb (mode items) LINK); [|discriminate].
    inversion H3; subst. eexists. reflexivity.
Qed.

(* stages_contiguous: the stage list of a pipeline is strictly increasing in pipeline order, stops at the
   mode's last stage and never contains the link stage *)
Lemma pipeline_stages_sorted items t :
  StronglySorted (fun a b => stage_idx a < stage_idx b) (pipeline_stages items t) /\
  Forall (fun g => stage_idx g <= stage_idx (mode items) /\ g <> LINK) (pipeline_stages items t).
Proof.
  unfold pipeline_stages. destruct (mode items), t; cbn; split;
    repeat (constructor; cbn; try lia; try discriminate).
Qed.

(* ------------------------------------------------------------------ the manual itself is not met: witnesses *)
Definition cfg0 : config :=
  {| target := "aarch64-linux-gnu"; startfiles := ["-l"; ":crt1.o"]; endfiles := ["-l"; "c"];
     preprocesscmd := ["cpp"; "-U"; "__GNUC__"]; compilecmd := ["/bin/cproc-qbe"]; codegencmd := ["qbe"];
     assemblecmd := ["as"]; linkcmd := ["ld"; "-L"; "/lib"] |}.


Lemma spec_refuted_emit_qbe :
  exists cfg argv, Driver.plan cfg argv <> Undefined /\ Driver.plan cfg argv <> DriverSpec.plan cfg argv.
Proof. exists cfg0, ["-emit-qbe"; "a.c"]. split; vm_compute; discriminate. Qed.

Lemma spec_refuted_one_char_name :
  exists cfg argv, Driver.plan cfg argv = Usage UStdinNeedsX /\ exists v ps lk, DriverSpec.plan cfg argv = Run v ps lk.
Proof. exists cfg0, ["-c"; "x"]. split; [reflexivity|]. vm_compute. eauto. Qed.

Lemma spec_refuted_header_linked :
  exists cfg argv, Driver.plan cfg argv <> Undefined /\ Driver.plan cfg argv <> DriverSpec.plan cfg argv.
Proof. exists cfg0, ["a.c"; "b.h"]. split; vm_compute; discriminate. Qed.
