(* C08 - Part 4: `naturalb` against C06.  The member offsets, size and alignment that naturalb demands of a
   record are exactly those the ABI specification of C06 (Spec/AbiLayout.v spec_layout) gives to the same
   members declared plainly (no bit-field width, no _Alignas, not packed), and therefore - by C06's
   layout_abi - exactly what cproc's own addmember/tagspec arithmetic (Model/Layout.v record_layout) computes. *)
From Coq Require Import ZArith List Bool Lia.
From Cproc Require Import Model.Layout Spec.AbiLayout Proofs.LayoutArith Proofs.LayoutProofs Proofs.LayoutInv Spec.QbeAgg Model.Emittype
  Proofs.EmittypeProofs.
Import ListNotations.
Open Scope Z_scope.

#[local] Arguments Z.mul : simpl never.
#[local] Arguments Z.add : simpl never.
#[local] Arguments Z.max : simpl never.
#[local] Arguments Z.ltb : simpl never.
#[local] Arguments Z.eqb : simpl never.
#[local] Arguments roundup : simpl never.
#[local] Arguments bytes : simpl never.

Definition is_intk (t : ctype) : bool := match t with CScal (SkInt _) | CScal (SkEnum _) => true | _ => false end.
Definition is_arr (t : ctype) : bool := match t with CArr _ _ => true | _ => false end.
Definition tinfo_of (t : ctype) : tinfo := mkT (csize t) (calign t) (is_intk t) (is_arr t) false false false false.
Definition items_of (ms : cmembers) : list item := map (fun m => INamed (tinfo_of (fst m)) 0 None) (mlist ms).
Definition members_of (ms : cmembers) : list member := map (fun m => mkM true (csize (fst m)) (snd m) 0 0) (mlist ms).

Lemma place_plain_natural is_struct st t :
  naturalb t = true -> s_flex st = false ->
  place rules_sysv is_struct false st (INamed (tinfo_of t) 0 None) =
  Some (mkS (if is_struct then 8 * (roundup (bytes (s_pos st)) (calign t) + csize t) else Z.max (s_pos st) (8 * csize t))
            (Z.max (s_align st) (calign t)) false
            (s_members st ++ [mkM true (csize t) (if is_struct then roundup (bytes (s_pos st)) (calign t) else 0) 0 0])).
Proof.
  intros Hn Hf. destruct (pow2_pos _ (natural_align t Hn)) as [Ha _].
  unfold place, place_plain, common_ok, tinfo_of. cbn [t_incomplete t_array t_flexible t_func t_vm t_align t_size].
  rewrite Hf. replace (0 <? calign t) with true by (symmetry; apply Z.ltb_lt; lia).
  rewrite !andb_false_r. cbn [negb andb orb]. rewrite Z.eqb_refl. cbn [negb orb]. destruct is_struct; reflexivity.
Qed.

Lemma places_natural_struct ms : forall cur al sz tal pre,
  naturalb_ms ms = true -> struct_ok ms cur al sz tal = true ->
  exists cur', places rules_sysv true false (mkS (8 * cur) al false pre) (items_of ms)
               = Some (mkS (8 * cur') tal false (pre ++ members_of ms)) /\ sz = roundup cur' tal.
Proof.
  induction ms as [|t off bf r IH] using cmembers_ind; intros cur al sz tal pre Hn H.
  - cbn in H. rewrite andb_true_iff, !Z.eqb_eq in H. destruct H as [-> ->].
    exists cur. cbn. rewrite app_nil_r. auto.
  - cbn [struct_ok] in H. rewrite !andb_true_iff in H. destruct H as [[[_ _] Ho] H]. apply Z.eqb_eq in Ho.
    cbn [naturalb_ms] in Hn. rewrite andb_true_iff in Hn. destruct Hn as [Ht Hr].
    unfold items_of, members_of. cbn [mlist map places fst snd].
    rewrite (place_plain_natural true (mkS (8 * cur) al false pre) t Ht eq_refl). cbn [s_pos s_align s_members].
    rewrite bytes_8, <- Ho.
    destruct (IH (off + csize t) (Z.max al (calign t)) sz tal (pre ++ [mkM true (csize t) off 0 0]) Hr H) as (cur' & W & E).
    exists cur'. unfold items_of, members_of in W. rewrite W. rewrite <- app_assoc. auto.
Qed.

Lemma places_natural_union ms : forall mx al sz tal pre,
  naturalb_ms ms = true -> union_ok ms mx al sz tal = true -> 0 <= mx ->
  exists mx', places rules_sysv false false (mkS (8 * mx) al false pre) (items_of ms)
              = Some (mkS (8 * mx') tal false (pre ++ members_of ms)) /\ sz = roundup mx' tal.
Proof.
  induction ms as [|t off bf r IH] using cmembers_ind; intros mx al sz tal pre Hn H Hm.
  - cbn in H. rewrite andb_true_iff, !Z.eqb_eq in H. destruct H as [-> ->].
    exists mx. cbn. rewrite app_nil_r. auto.
  - cbn [union_ok] in H. rewrite !andb_true_iff in H. destruct H as [[[_ Hp] Ho] H].
    apply Z.eqb_eq in Ho. apply Z.ltb_lt in Hp. subst off.
    cbn [naturalb_ms] in Hn. rewrite andb_true_iff in Hn. destruct Hn as [Ht Hr].
    unfold items_of, members_of. cbn [mlist map places fst snd].
    rewrite (place_plain_natural false (mkS (8 * mx) al false pre) t Ht eq_refl). cbn [s_pos s_align s_members].
    replace (Z.max (8 * mx) (8 * csize t)) with (8 * Z.max mx (csize t)) by lia.
    destruct (IH (Z.max mx (csize t)) (Z.max al (calign t)) sz tal (pre ++ [mkM true (csize t) 0 0 0]) Hr H ltac:(lia)) as (mx' & W & E).
    exists mx'. unfold items_of, members_of in W. rewrite W. rewrite <- app_assoc. auto.
Qed.

(* natural_is_abi: what naturalb demands is C06's ABI layout of the plainly declared members *)
Theorem natural_is_abi u k sz al ms :
  naturalb (CRec u k false sz al ms) = true ->
  spec_layout rules_sysv k false (items_of ms) = Some (mkT sz al false false false false false false, members_of ms).
Proof.
  cbn [naturalb]. rewrite !andb_true_iff. intros [[[[Hn Hne] H0] Hb] Hl].
  unfold spec_layout, sinit. change 0 with (8 * 0) at 1. destruct k.
  - destruct (places_natural_struct ms 0 1 sz al [] Hn Hl) as (cur' & W & E). rewrite W.
    unfold spec_finish. cbn [s_members s_pos s_align s_flex app]. rewrite bytes_8, <- E.
    destruct ms; [discriminate|reflexivity].
  - destruct (places_natural_union ms 0 1 sz al [] Hn Hl ltac:(lia)) as (mx' & W & E). rewrite W.
    unfold spec_finish. cbn [s_members s_pos s_align s_flex app]. rewrite bytes_8, <- E.
    destruct ms; [discriminate|reflexivity].
Qed.

Lemma wf_items_natural ms : naturalb_ms ms = true -> Forall wf_item (items_of ms).
Proof.
  induction ms as [|t off bf r IH] using cmembers_ind; intros Hn; unfold items_of; cbn [mlist map]; constructor.
  - cbn [naturalb_ms] in Hn. rewrite andb_true_iff in Hn. destruct Hn as [Ht _].
    cbn [wf_item fst]. split; [|left; reflexivity]. unfold wf_t, tinfo_of. cbn [t_align t_size t_int].
    split; [apply natural_align; exact Ht|]. split; [apply (natural_size t Ht)|].
    destruct t as [k| |]; cbn [is_intk]; try discriminate. destruct k as [i|i| | | |]; try discriminate;
      intros _; cbn [csize calign]; (split; [reflexivity|]); destruct i; cbn; lia.
  - apply IH. cbn [naturalb_ms] in Hn. rewrite andb_true_iff in Hn. apply Hn.
Qed.

(* natural_is_cproc_layout: ... and what cproc's own layout code (decl.c addmember / tagspec, C06's model) computes
   for them: a record type built by the front end from plain members satisfies naturalb's arithmetic by construction *)
Theorem natural_is_cproc_layout u k sz al ms :
  naturalb (CRec u k false sz al ms) = true ->
  record_layout k false (items_of ms) = Ok (mkT sz al false false false false false false, members_of ms).
Proof.
  intros Hn. pose proof (natural_is_abi u k sz al ms Hn) as Hs.
  cbn [naturalb] in Hn. rewrite !andb_true_iff in Hn. destruct Hn as [[[[Hnm _] _] Hb] _]. apply Z.leb_le in Hb.
  apply (layout_abi k false (items_of ms) _ (wf_items_natural ms Hnm) ltac:(auto) ltac:(discriminate) Hs).
  exact Hb.
Qed.
