(* C08 - Part 3: calls.  Position of the variadic marker, default argument promotions, parameter
   adjustment; the refutation witnesses for the descriptor statements outside their domain. *)
From Coq Require Import ZArith List Bool Lia.
From Cproc Require Import Model.Layout Spec.AbiLayout Spec.QbeAgg Model.Emittype Proofs.EmittypeProofs.
Import ListNotations.
Open Scope Z_scope.

(* ------------------------------------------------------------------ IVARARG *)
Definition cls_list sc mp (args : list ctype) : list (option acls) := map (fun a => Some (argclass sc mp a)) args.

Lemma call_args_novar sc mp nparam : forall args i, call_args sc mp false nparam i args = cls_list sc mp args.
Proof. induction args as [|a r IH]; intros i; cbn; [reflexivity|]. rewrite IH. reflexivity. Qed.

Lemma call_args_past sc mp nparam : forall args i, (nparam < i)%nat ->
  call_args sc mp true nparam i args = cls_list sc mp args.
Proof.
  induction args as [|a r IH]; intros i H; cbn [call_args cls_list map andb].
  - destruct (Nat.eqb_spec i nparam); [lia|reflexivity].
  - destruct (Nat.eqb_spec i nparam); [lia|]. cbn [app]. rewrite IH by lia. reflexivity.
Qed.

Lemma call_args_var sc mp nparam : forall args i, (i <= nparam)%nat -> (nparam - i <= length args)%nat ->
  call_args sc mp true nparam i args =
  cls_list sc mp (firstn (nparam - i) args) ++ None :: cls_list sc mp (skipn (nparam - i) args).
Proof.
  induction args as [|a r IH]; intros i H1 H2; cbn [call_args andb].
  - cbn [length] in H2. assert (i = nparam) by lia. subst i. rewrite Nat.eqb_refl, Nat.sub_diag. reflexivity.
  - destruct (Nat.eqb_spec i nparam) as [->|Hne].
    + rewrite Nat.sub_diag. cbn [firstn skipn cls_list map app].
      rewrite call_args_past by lia. reflexivity.
    + cbn [app]. destruct (nparam - i)%nat as [|k] eqn:E; [lia|].
      cbn [firstn skipn cls_list map app]. rewrite IH by (cbn [length] in H2; lia).
      replace (nparam - S i)%nat with k by lia. reflexivity.
Qed.

Lemma call_args_few sc mp nparam : forall args i, (i + length args < nparam)%nat ->
  call_args sc mp true nparam i args = cls_list sc mp args.
Proof.
  induction args as [|a r IH]; intros i H; cbn [call_args cls_list map andb length] in *.
  - destruct (Nat.eqb_spec i nparam); [lia|reflexivity].
  - destruct (Nat.eqb_spec i nparam); [lia|]. cbn [app]. rewrite IH by lia. reflexivity.
Qed.

(* vararg_marker_position: in a call to a variadic function that passes at least the named arguments
   the marker stands exactly between argument nparam-1 and argument nparam (also when there is no
   variable argument, also when there is no named parameter); a call to a non-variadic function has none *)
Theorem vararg_marker_position sc mp nparam args :
  (nparam <= length args)%nat ->
  call_args sc mp true nparam 0 args =
  cls_list sc mp (firstn nparam args) ++ None :: cls_list sc mp (skipn nparam args).
Proof. intros H. rewrite call_args_var by lia. rewrite Nat.sub_0_r. reflexivity. Qed.

Theorem no_marker_nonvariadic sc mp nparam args :
  call_args sc mp false nparam 0 args = cls_list sc mp args.
Proof. apply call_args_novar. Qed.

(* the accepted call with fewer arguments than named parameters (expr.c only rejects it for
   non-variadic callees) is emitted without a marker *)
Theorem marker_absent_when_too_few sc mp nparam args :
  (length args < nparam)%nat -> call_args sc mp true nparam 0 args = cls_list sc mp args.
Proof. intros H. apply call_args_few. lia. Qed.

(* ------------------------------------------------------------------ default argument promotions *)
Definition skind_code (k : skind) : Z :=
  match k with
  | SkInt i => icode i | SkEnum i => 20 + icode i
  | SkFloat => 40 | SkDouble => 41 | SkPtr => 42 | SkNullptr => 43
  end.
Definition ctype_scal_eqb (a b : ctype) : bool :=
  match a, b with CScal x, CScal y => skind_code x =? skind_code y | _, _ => false end.

Lemma ctype_scal_eqb_eq a b : ctype_scal_eqb a b = true -> a = b.
Proof.
  destruct a as [x| |], b as [y| |]; cbn; try discriminate. intros H. apply Z.eqb_eq in H. f_equal.
  destruct x as [i|i| | | |], y as [j|j| | | |]; try destruct i; try destruct j; cbn in H; try reflexivity; lia.
Qed.

Definition all_ikinds := [IBool; IChar; ISChar; IUChar; IShort; IUShort; IInt; IUInt; ILong; IULong; ILLong; IULLong].
Definition widths : list (option Z) := None :: map (fun n => Some (Z.of_nat n)) (seq 1 64).

Definition prom_agree (sc : bool) (k : skind) (w : option Z) : bool :=
  ctype_scal_eqb (typepromote sc (CScal k) w) (promote_spec sc (CScal k) w).

Definition width_ok (k : skind) (w : option Z) : bool :=
  match w with
  | None => true
  | Some w => match k with
              | SkInt IBool => w =? 1                       (* 6.7.2.1p4: at most the width of the type *)
              | SkInt i | SkEnum i => (1 <=? w) && (w <=? 8 * isize i)
              | _ => false
              end
  end.

Lemma prom_sweep :
  forallb (fun sc => forallb (fun i => forallb (fun w =>
     (negb (width_ok (SkInt i) w) || prom_agree sc (SkInt i) w) &&
     (negb (width_ok (SkEnum i) w) || prom_agree sc (SkEnum i) w)) widths) all_ikinds) [true; false] = true.
Proof. vm_compute. reflexivity. Qed.

Lemma In_all_ikinds i : In i all_ikinds.
Proof. destruct i; cbn; tauto. Qed.

Lemma In_widths k w : width_ok k w = true -> In w widths.
Proof.
  destruct w as [w|]; [|left; reflexivity]. intros H. right. rewrite in_map_iff.
  assert (1 <= w <= 64).
  { destruct k as [i|i| | | |]; cbn in H; try discriminate.
    - destruct i; try (apply Z.eqb_eq in H; lia);
        rewrite andb_true_iff, Z.leb_le, Z.leb_le in H; cbn in H; lia.
    - rewrite andb_true_iff, Z.leb_le, Z.leb_le in H. destruct i; cbn in H; lia. }
  exists (Z.to_nat w). split; [f_equal; lia|]. apply in_seq. lia.
Qed.

(* typepromote computes the promoted type C11 6.3.1.1p2 / 6.5.2.2p6 prescribes, for every scalar type
   and every bit-field width that the declaration rules allow *)
Theorem typepromote_spec sc k w :
  width_ok k w = true -> typepromote sc (CScal k) w = promote_spec sc (CScal k) w.
Proof.
  intros Hw. pose proof prom_sweep as S.
  rewrite forallb_forall in S. specialize (S sc ltac:(destruct sc; cbn; tauto)).
  rewrite forallb_forall in S.
  destruct k as [i|i| | | |]; try (destruct w; [discriminate|reflexivity]).
  - specialize (S i (In_all_ikinds i)). rewrite forallb_forall in S. specialize (S w (In_widths _ _ Hw)).
    rewrite andb_true_iff in S. destruct S as [S _]. rewrite Hw in S. cbn [negb orb] in S.
    apply ctype_scal_eqb_eq. exact S.
  - specialize (S i (In_all_ikinds i)). rewrite forallb_forall in S. specialize (S w (In_widths _ _ Hw)).
    rewrite andb_true_iff in S. destruct S as [_ S]. rewrite Hw in S. cbn [negb orb] in S.
    apply ctype_scal_eqb_eq. exact S.
Qed.

Lemma typepromote_nonscalar sc t w : (forall k, t <> CScal k) -> typepromote sc t w = t /\ promote_spec sc t w = t.
Proof. destruct t; intros H; [exfalso; eapply H; reflexivity| |]; split; reflexivity. Qed.

Definition arg_width_ok (a : ctype * option Z) : Prop :=
  match fst a with CScal k => width_ok k (snd a) = true | _ => snd a = None end.

Lemma exprpromote_spec sc a : arg_width_ok a ->
  exprpromote sc a = exprconvert (fst a) (promote_spec sc (fst a) (snd a)).
Proof.
  destruct a as [t w]. unfold arg_width_ok, exprpromote. cbn [fst snd]. destruct t as [k|e s|u k' vl sz al ms]; intros H.
  - rewrite typepromote_spec by exact H. reflexivity.
  - reflexivity.
  - reflexivity.
Qed.

(* promote_args_spec: an accepted call converts argument i to the type of parameter i while there is
   one (as if by assignment) and applies the default argument promotions to the rest; the count
   errors are exactly "more arguments than parameters and not variadic" / "fewer and not variadic" *)
Theorem promote_args_spec sc va : forall args params ts,
  Forall arg_width_ok args ->
  convert_args sc va params args = ArgOk ts ->
  length ts = length args /\
  forall i a, nth_error args i = Some a ->
    match nth_error params i with
    | Some p => nth_error ts i = Some (exprassign (fst a) p)
    | None => va = true /\ nth_error ts i = Some (exprconvert (fst a) (promote_spec sc (fst a) (snd a)))
    end.
Proof.
  induction args as [|a r IH]; intros params ts Hw H.
  - cbn [convert_args] in H. destruct params; [|destruct va; [|discriminate]]; injection H as <-;
      (split; [reflexivity|intros [|i] ? Hn; discriminate]).
  - apply Forall_cons_iff in Hw. destruct Hw as [Hw1 Hw2]. cbn [convert_args] in H. destruct params as [|p ps].
    + destruct va; cbn [negb] in H; [|discriminate].
      destruct (convert_args sc true [] r) as [ts'| |] eqn:E; try discriminate. injection H as <-.
      destruct (IH [] ts' Hw2 E) as [L N]. split; [cbn; lia|].
      intros [|i] x Hn; cbn [nth_error] in *.
      * injection Hn as <-. split; [reflexivity|]. rewrite exprpromote_spec by exact Hw1. reflexivity.
      * specialize (N i x Hn). destruct (nth_error [] i) eqn:E0; [destruct i; discriminate|]. exact N.
    + destruct (convert_args sc va ps r) as [ts'| |] eqn:E; try discriminate. injection H as <-.
      destruct (IH ps ts' Hw2 E) as [L N]. split; [cbn; lia|].
      intros [|i] x Hn; cbn [nth_error] in *.
      * injection Hn as <-. reflexivity.
      * exact (N i x Hn).
Qed.

Lemma conv_var_ok sc : forall args params, exists ts, convert_args sc true params args = ArgOk ts.
Proof.
  induction args as [|a r IH]; intros params; cbn [convert_args negb].
  - destruct params; eexists; reflexivity.
  - destruct params as [|p ps].
    + destruct (IH []) as [ts E]. rewrite E. eexists; reflexivity.
    + destruct (IH ps) as [ts E]. rewrite E. eexists; reflexivity.
Qed.

Lemma conv_fixed sc : forall args params,
  match Nat.compare (length args) (length params) with
  | Eq => exists ts, convert_args sc false params args = ArgOk ts
  | Gt => convert_args sc false params args = ArgTooMany
  | Lt => convert_args sc false params args = ArgTooFew
  end.
Proof.
  induction args as [|a r IH]; intros params; destruct params as [|p ps]; cbn [convert_args negb length Nat.compare].
  - eexists; reflexivity.
  - reflexivity.
  - reflexivity.
  - specialize (IH ps). destruct (Nat.compare (length r) (length ps)).
    + destruct IH as [ts E]. rewrite E. eexists; reflexivity.
    + rewrite IH. reflexivity.
    + rewrite IH. reflexivity.
Qed.

Theorem convert_args_count sc va args params :
  (convert_args sc va params args = ArgTooMany <-> va = false /\ (length params < length args)%nat) /\
  (convert_args sc va params args = ArgTooFew <-> va = false /\ (length args < length params)%nat).
Proof.
  destruct va.
  - destruct (conv_var_ok sc args params) as [ts E]. rewrite E.
    split; split; try discriminate; intros [H _]; discriminate.
  - pose proof (conv_fixed sc args params) as H.
    destruct (Nat.compare_spec (length args) (length params)) as [C|C|C].
    + destruct H as [ts E]. rewrite E.
      split; split; intros X; first [discriminate X | (destruct X as [_ X]; lia)].
    + rewrite H. split; split; intros X;
        first [discriminate X | reflexivity | (split; [reflexivity|lia]) | (destruct X as [_ X]; lia)].
    + rewrite H. split; split; intros X;
        first [discriminate X | reflexivity | (split; [reflexivity|lia]) | (destruct X as [_ X]; lia)].
Qed.

(* the class a promoted argument is passed in: float travels as d, every integer narrower than
   int as w *)
Theorem promoted_class sc mp k w :
  width_ok k w = true ->
  let t := exprpromote sc (CScal k, w) in
  (k = SkFloat -> argclass sc mp t = ABase Fd) /\
  (forall i, k = SkInt i \/ k = SkEnum i -> isize i < 4 -> argclass sc mp t = ABase Fw).
Proof.
  intros Hw t. unfold t. rewrite exprpromote_spec by exact Hw. cbn [fst snd]. split.
  - intros ->. reflexivity.
  - intros i [-> | ->] Hs; destruct i; cbn in Hs; try lia; destruct w as [w|]; destruct sc; try reflexivity;
      cbn in Hw; try (apply Z.eqb_eq in Hw; subst w; reflexivity);
      rewrite andb_true_iff, Z.leb_le, Z.leb_le in Hw; cbn in Hw;
      assert (In w [1;2;3;4;5;6;7;8;9;10;11;12;13;14;15;16]) as Hi by (cbn; lia);
      cbn in Hi; repeat (destruct Hi as [<-|Hi]; [try reflexivity; lia|]); destruct Hi.
Qed.

(* ------------------------------------------------------------------ parameter adjustment *)
Theorem typeadjust_spec t : typeadjust t = adjust_spec t.
Proof. reflexivity. Qed.

Theorem adjusted_param_class sc mp t : (forall e s, typeadjust t <> CArr e s) /\
  (forall e s, t = CArr e s -> argclass sc mp (typeadjust t) = ABase Fl).
Proof. split; [destruct t; discriminate|intros e s ->; reflexivity]. Qed.

(* ------------------------------------------------------------------ refutations *)
Definition u8 := CScal (SkInt IUChar).
Definition ch := CScal (SkInt IChar).
Definition i32 := CScal (SkInt IInt).
Definition u32 := CScal (SkInt IUInt).
Definition f64 := CScal SkDouble.

Definition tchar := mkT 1 1 true false false false false false.
Definition tuchar := tchar.
Definition tint := mkT 4 4 true false false false false false.
Definition tdouble := mkT 8 8 false false false false false false.
Definition tarr (elem : tinfo) (n : Z) := mkT (t_size elem * n) (t_align elem) false true false false false false.
Definition tflex (elem : tinfo) := mkT 0 (t_align elem) false true true false false false.

Definition desc_info (sc : bool) (t : ctype) (u : Z) : option linfo :=
  let st := emittype sc t est0 in
  match find u (e_map st) with Some id => elookup id (env_of (e_out st)) | None => None end.

(* (1) members that follow a bit-field inside its storage unit are dropped even when they reach beyond
   the unit:  struct { unsigned f0 : 4; unsigned char f1; char f2[5]; }  is 8 bytes, described as { w, } *)
Definition wit_bitfield : ctype :=
  CRec 1 true false 8 4 (MCons u32 0 (Some (0, 28)) (MCons u8 1 None (MCons (CArr ch 5) 2 None MNil))).

Theorem descriptor_size_align_refuted :
  record_layout true false [INamed tint 0 (Some 4); INamed tuchar 0 None; INamed (tarr tchar 5) 0 None]
    = Ok (mkT 8 4 false false false false false false, [mkM true 4 0 0 28; mkM true 1 1 0 0; mkM true 5 2 0 0]) /\
  option_map l_size (desc_info true wit_bitfield 1) = Some 4 /\ csize wit_bitfield = 8 /\
  e_out (emittype true wit_bitfield est0) = [mkTD 1 None (BStruct [(FBase Fw, 1)])].
Proof. vm_compute. auto. Qed.

Theorem descriptor_fields_refuted :
  option_map l_flat (desc_info true wit_bitfield 1) = Some [(0, 4, KInt)] /\
  cflat wit_bitfield = [(0, 1, KInt); (1, 1, KInt); (2, 1, KInt); (3, 1, KInt); (4, 1, KInt); (5, 1, KInt); (6, 1, KInt)].
Proof. vm_compute. auto. Qed.

(* the same defect changes register classes without changing the size on no target; with a float
   tail it moves a value from an SSE to nothing:  struct { long f0 : 4; char c; float g[3]; } *)
Definition wit_bitfield_float : ctype :=
  CRec 1 true false 16 8 (MCons (CScal (SkInt ILong)) 0 (Some (0, 60)) (MCons ch 1 None
    (MCons (CArr (CScal SkFloat) 12) 4 None MNil))).
Theorem descriptor_classes_refuted :
  option_map sysv_class (desc_info true wit_bitfield_float 1) = Some (SvRegs SvInt SvNone) /\
  sysv_class (cinfo wit_bitfield_float) = SvRegs SvInt SvSse /\
  option_map l_size (desc_info true wit_bitfield_float 1) = Some 8 /\ csize wit_bitfield_float = 16.
Proof. vm_compute. auto. Qed.

(* (2) D23: packed records are described with naturally aligned fields:
   struct __attribute__((packed)) { char c; int i; }  is 5 bytes, { b, w, } is 8 *)
Definition wit_packed : ctype := CRec 1 true false 5 1 (MCons ch 0 None (MCons i32 1 None MNil)).
Theorem descriptor_packed_refuted :
  record_layout true true [INamed tchar 0 None; INamed tint 0 None]
    = Ok (mkT 5 1 false false false false false false, [mkM true 1 0 0 0; mkM true 4 1 0 0]) /\
  desc_info true wit_packed 1 = Some (mkLI 8 4 [(0, 1, KInt); (4, 4, KInt)]) /\
  cinfo wit_packed = mkLI 5 1 [(0, 1, KInt); (1, 4, KInt)].
Proof. vm_compute. auto. Qed.

(* _Alignas on a member is ignored:  struct { char c; _Alignas(16) int i; }  is 32/16, { b, w, } is 8/4 *)
Definition wit_alignas : ctype := CRec 1 true false 32 16 (MCons ch 0 None (MCons i32 16 None MNil)).
Theorem descriptor_alignas_refuted :
  record_layout true false [INamed tchar 0 None; INamed tint 16 None]
    = Ok (mkT 32 16 false false false false false false, [mkM true 1 0 0 0; mkM true 4 16 0 0]) /\
  desc_info true wit_alignas 1 = Some (mkLI 8 4 [(0, 1, KInt); (4, 4, KInt)]) /\
  cinfo wit_alignas = mkLI 32 16 [(0, 1, KInt); (16, 4, KInt)].
Proof. vm_compute. auto. Qed.

(* a flexible array member is described as one element:  struct { int n; double d[]; }  is 8 bytes, { w, d, } is 16 *)
Definition wit_flexible : ctype := CRec 1 true false 8 8 (MCons i32 0 None (MCons (CArr f64 0) 8 None MNil)).
Theorem descriptor_flexible_refuted :
  record_layout true false [INamed tint 0 None; INamed (tflex tdouble) 0 None]
    = Ok (mkT 8 8 false false false true false false, [mkM true 4 0 0 0; mkM true 0 8 0 0]) /\
  desc_info true wit_flexible 1 = Some (mkLI 16 8 [(0, 4, KInt); (8, 8, KFlt)]) /\
  cinfo wit_flexible = mkLI 8 8 [(0, 4, KInt)].
Proof. vm_compute. auto. Qed.

(* x86_64-sysv: the element type of va_list is a struct without members that is not targ->typevalist
   itself, so it is printed as { } (size 0):  struct { va_list ap; int x; }  is 32 bytes, described as 4 *)
Definition wit_valist_x86 : ctype :=
  CRec 1 true false 32 8 (MCons (CArr (CRec 2 true false 24 8 MNil) 24) 0 None (MCons i32 24 None MNil)).
Theorem descriptor_valist_member_refuted :
  e_out (emittype true wit_valist_x86 est0) =
    [mkTD 2 None (BStruct []); mkTD 1 None (BStruct [(FType 2, 1); (FBase Fw, 1)])] /\
  option_map l_size (desc_info true wit_valist_x86 1) = Some 4 /\ csize wit_valist_x86 = 32.
Proof. vm_compute. auto. Qed.

(* all five lie outside the domain of the positive theorems *)
Lemma witnesses_not_natural :
  map naturalb [wit_bitfield; wit_bitfield_float; wit_packed; wit_alignas; wit_flexible; wit_valist_x86]
  = [false; false; false; false; false; false].
Proof. vm_compute. reflexivity. Qed.

(* two more weaknesses of the same member loop, found by the generated types *)
(* the search takes a later bit-field at the same offset for "a larger storage unit" without comparing the units:
   struct { short a : 7; char b : 1; }  is 2 bytes align 2, described as { b, } *)
Definition wit_bitfield_small : ctype :=
  CRec 1 true false 2 2 (MCons (CScal (SkInt IShort)) 0 (Some (0, 9)) (MCons ch 0 (Some (7, 0)) MNil)).
Definition tshort := mkT 2 2 true false false false false false.
Theorem descriptor_smaller_unit_refuted :
  record_layout true false [INamed tshort 0 (Some 7); INamed tchar 0 (Some 1)]
    = Ok (mkT 2 2 false false false false false false, [mkM true 2 0 0 9; mkM true 1 0 7 0]) /\
  desc_info true wit_bitfield_small 1 = Some (mkLI 1 1 [(0, 1, KInt)]) /\
  csize wit_bitfield_small = 2 /\ calign wit_bitfield_small = 2.
Proof. vm_compute. auto. Qed.

(* no padding is ever printed: storage occupied by unnamed bit-fields in front of a member disappears:
   struct { signed char : 7; double d; }  is 16 bytes with d at 8, described as { d, } *)
Definition wit_bitfield_pad : ctype := CRec 1 true false 16 8 (MCons f64 8 None MNil).
Theorem descriptor_padding_refuted :
  record_layout true false [IUnnamedBf tchar 7; INamed tdouble 0 None]
    = Ok (mkT 16 8 false false false false false false, [mkM true 8 8 0 0]) /\
  desc_info true wit_bitfield_pad 1 = Some (mkLI 8 8 [(0, 8, KFlt)]) /\
  cinfo wit_bitfield_pad = mkLI 16 8 [(8, 8, KFlt)] /\ naturalb wit_bitfield_pad = false.
Proof. vm_compute. auto. Qed.

(* the storage unit of a bit-field is printed whole even when it starts inside members already printed:
   struct { int a; struct { int p, q; } s; char y; long c : 3; }  is 16 bytes (c lives in the long at offset 8,
   s occupies 4..12), described as { w, :s, l, } = 24 bytes *)
Definition wit_bitfield_overlap : ctype :=
  CRec 1 true false 16 8
    (MCons i32 0 None (MCons (CRec 2 true false 8 4 (MCons i32 0 None (MCons i32 4 None MNil))) 4 None
    (MCons ch 12 None (MCons (CScal (SkInt ILong)) 8 (Some (40, 21)) MNil)))).
Definition tlong8 := mkT 8 8 true false false false false false.
Theorem descriptor_overlap_refuted :
  record_layout true false [INamed tint 0 None; INamed (mkT 8 4 false false false false false false) 0 None;
                            INamed tchar 0 None; INamed tlong8 0 (Some 3)]
    = Ok (mkT 16 8 false false false false false false,
          [mkM true 4 0 0 0; mkM true 8 4 0 0; mkM true 1 12 0 0; mkM true 8 8 40 21]) /\
  option_map l_size (desc_info true wit_bitfield_overlap 1) = Some 24 /\ csize wit_bitfield_overlap = 16 /\
  e_out (emittype true wit_bitfield_overlap est0) =
    [mkTD 2 None (BStruct [(FBase Fw, 1); (FBase Fw, 1)]);
     mkTD 1 None (BStruct [(FBase Fw, 1); (FType 2, 1); (FBase Fl, 1)])].
Proof. vm_compute. auto. Qed.
