(* C08 - Part 2: the invariant of emittype's recursion (ids, the t->value cache, emission order) and
   the headline statements about descriptors. *)
From Coq Require Import ZArith List Bool Lia.
From Cproc Require Import Model.Layout Spec.AbiLayout Proofs.LayoutArith Spec.QbeAgg Model.Emittype Proofs.EmittypeProofs.
Import ListNotations.
Open Scope Z_scope.

#[local] Arguments Z.add : simpl never.
#[local] Arguments Z.eqb : simpl never.

(* ------------------------------------------------------------------ identity of struct type objects *)
(* u names a record type occurring in t *)
Fixpoint occurs (u : Z) (t : ctype) : Prop :=
  match t with
  | CScal _ => False
  | CArr e _ => occurs u e
  | CRec v _ _ _ _ ms => v = u \/ occurs_ms u ms
  end
with occurs_ms (u : Z) (ms : cmembers) : Prop :=
  match ms with
  | MNil => False
  | MCons t _ _ r => occurs u t \/ occurs_ms u r
  end.

(* every record node of t is THE type object registered under its uid: the tree representation
   duplicates shared types, U says which tree a uid stands for *)
Fixpoint uid_ok (U : Z -> option ctype) (t : ctype) : Prop :=
  match t with
  | CScal _ => True
  | CArr e _ => uid_ok U e
  | CRec u k vl sz al ms => U u = Some (CRec u k vl sz al ms) /\ uid_ok_ms U ms
  end
with uid_ok_ms (U : Z -> option ctype) (ms : cmembers) : Prop :=
  match ms with
  | MNil => True
  | MCons t _ _ r => uid_ok U t /\ uid_ok_ms U r
  end.

Fixpoint tsz (t : ctype) : nat :=
  match t with
  | CScal _ => 1
  | CArr e _ => S (tsz e)
  | CRec _ _ _ _ _ ms => S (msz ms)
  end
with msz (ms : cmembers) : nat :=
  match ms with
  | MNil => 0
  | MCons t _ _ r => tsz t + msz r
  end.

Lemma occurs_size U :
  (forall t u, occurs u t -> uid_ok U t -> exists r, U u = Some r /\ (tsz r <= tsz t)%nat) /\
  (forall ms u, occurs_ms u ms -> uid_ok_ms U ms -> exists r, U u = Some r /\ (tsz r <= msz ms)%nat).
Proof.
  apply ctype_cmembers_mutind.
  - intros k u [].
  - intros e IH sz u Ho Hu. cbn in *. destruct (IH u Ho Hu) as (r & E & L). exists r. split; [exact E|lia].
  - intros v k vl sz al ms IH u Ho [Hu1 Hu2]. cbn [occurs] in Ho. destruct Ho as [<-|Ho].
    + eexists. split; [exact Hu1|lia].
    + destruct (IH u Ho Hu2) as (r & E & L). exists r. split; [exact E|cbn [tsz]; lia].
  - intros u [].
  - intros t IHt off bf r IHr u Ho [Hu1 Hu2]. cbn [occurs_ms] in Ho. cbn [msz]. destruct Ho as [Ho|Ho].
    + destruct (IHt u Ho Hu1) as (x & E & L). exists x. split; [exact E|lia].
    + destruct (IHr u Ho Hu2) as (x & E & L). exists x. split; [exact E|lia].
Qed.

(* a type does not contain itself *)
Lemma no_self U u k vl sz al ms : uid_ok U (CRec u k vl sz al ms) -> ~ occurs_ms u ms.
Proof.
  intros [Hu1 Hu2] Ho. destruct (proj2 (occurs_size U) ms u Ho Hu2) as (r & E & L).
  rewrite Hu1 in E. injection E as <-. cbn [tsz] in L. lia.
Qed.

Lemma uid_ok_strip U t : uid_ok U t -> uid_ok U (strip t).
Proof. induction t; cbn; auto. Qed.

Lemma occurs_strip u t : occurs u (strip t) -> occurs u t.
Proof. induction t; cbn; auto. Qed.

Lemma naturalb_member t : forall ms, naturalb_ms ms = true -> In t (map fst (mlist ms)) -> naturalb t = true.
Proof.
  induction ms as [|t' off bf r IH] using cmembers_ind; cbn [mlist map naturalb_ms]; intros Hn Hi; [destruct Hi|].
  rewrite andb_true_iff in Hn. destruct Hn as [H1 H2]. destruct Hi as [<-|Hi]; auto.
Qed.

(* ------------------------------------------------------------------ small facts about find / elookup / env_of *)
Lemma find_In u mp id : find u mp = Some id -> In (u, id) mp.
Proof.
  induction mp as [|[v i] r IH]; cbn [find]; [discriminate|].
  destruct (v =? u) eqn:E.
  - apply Z.eqb_eq in E. subst v. intros [= <-]. left; reflexivity.
  - intros H. right. auto.
Qed.

Lemma find_None u mp : find u mp = None -> ~ In u (map fst mp).
Proof.
  induction mp as [|[v i] r IH]; cbn [find map fst]; [intros _ []|].
  destruct (v =? u) eqn:E; [discriminate|]. apply Z.eqb_neq in E. intros H [H1|H1]; [contradiction|].
  exact (IH H H1).
Qed.

Lemma In_find u id mp : NoDup (map fst mp) -> In (u, id) mp -> find u mp = Some id.
Proof.
  induction mp as [|[v i] r IH]; cbn [find map fst]; intros Hn Hi; [destruct Hi|].
  inversion Hn as [|? ? Hn1 Hn2]; subst. destruct Hi as [[= -> ->]|Hi].
  - rewrite Z.eqb_refl. reflexivity.
  - destruct (v =? u) eqn:E.
    + apply Z.eqb_eq in E. subst v. exfalso. apply Hn1. apply (in_map fst) in Hi. exact Hi.
    + auto.
Qed.

Lemma NoDup_snoc {A} (l : list A) x : NoDup l -> ~ In x l -> NoDup (l ++ [x]).
Proof.
  induction l as [|a l IH]; intros Hn Hx; cbn; [constructor; [intros []|constructor]|].
  inversion Hn as [|? ? N1 N2]; subst. constructor.
  - rewrite in_app_iff. intros [H|[H|[]]]; [contradiction|]. subst. apply Hx. left; reflexivity.
  - apply IH; [assumption|]. intros H; apply Hx; right; exact H.
Qed.

Lemma snd_unique (mp : list (Z * Z)) a b i : NoDup (map snd mp) -> In (a, i) mp -> In (b, i) mp -> a = b.
Proof.
  induction mp as [|[x y] r IH]; intros Hn H1 H2; [destruct H1|].
  cbn [map snd] in Hn. inversion Hn as [|? ? N1 N2]; subst.
  destruct H1 as [[= -> ->]|H1]; destruct H2 as [[= ->]|H2]; auto.
  - exfalso. apply N1. apply (in_map snd) in H2. exact H2.
  - subst. exfalso. apply N1. apply (in_map snd) in H1. exact H1.
Qed.

Lemma env_of_snoc ds d : env_of (ds ++ [d]) = add_def (env_of ds) d.
Proof. unfold env_of. rewrite fold_left_app. reflexivity. Qed.

Lemma elookup_add_other id e d : id <> td_id d -> elookup id (add_def e d) = elookup id e.
Proof.
  intros H. unfold add_def. destruct (def_info e d); [|reflexivity].
  cbn [elookup]. destruct (td_id d =? id) eqn:E; [apply Z.eqb_eq in E; congruence|reflexivity].
Qed.

Lemma elookup_add_same e d li : def_info e d = Some li -> elookup (td_id d) (add_def e d) = Some li.
Proof. intros H. unfold add_def. rewrite H. cbn [elookup]. rewrite Z.eqb_refl. reflexivity. Qed.

(* ------------------------------------------------------------------ references of a description *)
Definition field_refs (fs : list field) : list Z :=
  flat_map (fun f => match fst f with FType id => [id] | FBase _ => [] end) fs.
Definition refs (d : tdef) : list Z :=
  match td_body d with
  | BStruct fs => field_refs fs
  | BUnion alts => flat_map field_refs alts
  | BOpaque _ => []
  end.

(* every `:name` used in a description was defined by an earlier line *)
Definition ordered (out : list tdef) : Prop :=
  forall pre d post, out = pre ++ d :: post -> forall id, In id (refs d) -> In id (map td_id pre).

Lemma ordered_snoc out d :
  ordered out -> (forall id, In id (refs d) -> In id (map td_id out)) -> ordered (out ++ [d]).
Proof.
  intros Ho Hd pre d' post E id Hi.
  destruct post as [|p post'].
  - apply app_inj_tail in E. destruct E as [-> ->]. auto.
  - assert (E' : out = pre ++ d' :: removelast (p :: post')).
    { apply (f_equal (@removelast _)) in E. rewrite removelast_last in E.
      rewrite E. rewrite removelast_app by discriminate. cbn [removelast]. reflexivity. }
    eapply Ho; eauto.
Qed.

(* the fields the struct walk prints are fields of members *)
Lemma search_in m : forall others after, incl others after ->
  (fst (search m after others) = m \/ In (fst (search m after others)) others) /\
  incl (snd (search m after others)) after.
Proof.
  intros others. revert m. induction others as [|o r IH]; intros m after Hi; cbn [search].
  - cbn. split; [auto|apply incl_refl].
  - destruct (alignup (w64 (snd m + 1)) 8 <=? snd o); [cbn; split; [auto|apply incl_refl]|].
    assert (Hr : incl r after) by (intros x Hx; apply Hi; right; exact Hx).
    destruct (snd o <=? snd m).
    + destruct (IH o r (incl_refl _)) as [[H1|H1] H2].
      * split; [right; left; symmetry; exact H1|]. intros x Hx. apply Hr, H2, Hx.
      * split; [right; right; exact H1|]. intros x Hx. apply Hr, H2, Hx.
    + destruct (IH m after Hr) as [[H1|H1] H2]; split; auto. right; right; exact H1.
Qed.

Lemma skip_incl off l : incl (skip off l) l.
Proof.
  induction l as [|o r IH]; cbn [skip]; [apply incl_refl|].
  destruct (snd o <? off); [apply incl_tl; exact IH|apply incl_refl].
Qed.

Lemma walk_fields_in sc mp : forall fuel l fs, walk_struct fuel sc mp l = Some fs ->
  forall f, In f fs -> exists m, In m l /\ f = field_of sc mp m.
Proof.
  induction fuel as [|n IH]; intros l fs H f Hf; [discriminate|].
  cbn [walk_struct] in H. destruct l as [|m rest]; [injection H as <-; destruct Hf|].
  pose proof (search_in m rest rest (incl_refl _)) as S.
  destruct (search m rest rest) as [m' after] eqn:E. cbn [fst snd] in S. destruct S as [S1 S2].
  destruct (walk_struct n sc mp (skip (w64 (snd m' + csize (fst m'))) after)) as [fs'|] eqn:W; [|discriminate].
  injection H as <-. destruct Hf as [<-|Hf].
  - exists m'. split; [|reflexivity]. destruct S1 as [->|S1]; [left; reflexivity|right; exact S1].
  - destruct (IH _ _ W f Hf) as (x & Hx & Ex). exists x. split; [|exact Ex].
    right. apply S2. eapply skip_incl. exact Hx.
Qed.

Lemma body_refs sc mp k l id :
  In id (refs (mkTD 0 None (body_of sc mp k l))) ->
  exists m, In m l /\ fst (field_of sc mp m) = FType id.
Proof.
  unfold refs, body_of. cbn [td_body]. destruct k.
  - destruct (walk_struct (S (length l)) sc mp l) as [fs|] eqn:W; [|intros []].
    unfold field_refs. rewrite in_flat_map. intros (f & Hf & Hi).
    destruct (walk_fields_in _ _ _ _ _ W f Hf) as (m & Hm & ->).
    exists m. split; [exact Hm|]. destruct (fst (field_of sc mp m)); [destruct Hi|].
    destruct Hi as [->|[]]. reflexivity.
  - rewrite in_flat_map. intros (fs & Hfs & Hi). rewrite in_map_iff in Hfs. destruct Hfs as (m & <- & Hm).
    unfold field_refs in Hi. cbn [flat_map] in Hi. rewrite app_nil_r in Hi.
    exists m. split; [exact Hm|]. destruct (fst (field_of sc mp m)); [destruct Hi|].
    destruct Hi as [->|[]]. reflexivity.
Qed.

(* ------------------------------------------------------------------ the invariant *)
Definition rec_uid (u : Z) (t : ctype) : Prop := match t with CRec v _ _ _ _ _ => v = u | _ => False end.

(* P: the types whose emittype activation is still open (value set, line not printed yet) *)
Record Inv (U : Z -> option ctype) (st : est) (P : list Z) : Prop := mkInv {
  inv_next : 0 <= e_next st;
  inv_ids : forall u id, In (u, id) (e_map st) -> 1 <= id <= e_next st;
  inv_nd_id : NoDup (map snd (e_map st));
  inv_nd_u : NoDup (map fst (e_map st));
  inv_out_done : forall d, In d (e_out st) -> exists u, In (u, td_id d) (e_map st) /\ ~ In u P;
  inv_done_out : forall u id, In (u, id) (e_map st) -> ~ In u P -> In id (map td_id (e_out st));
  inv_nd_out : NoDup (map td_id (e_out st));
  inv_info : forall u id, In (u, id) (e_map st) -> ~ In u P ->
      exists r, U u = Some r /\ rec_uid u r /\
                (naturalb r = true -> elookup id (env_of (e_out st)) = Some (cinfo r));
  inv_order : ordered (e_out st)
}.

Lemma Inv_init U : Inv U est0 [].
Proof.
  constructor; cbn; try (intros; contradiction); try constructor; try lia.
  intros pre d post E. destruct pre; discriminate.
Qed.

Definition done (st : est) (P : list Z) (u : Z) : Prop := exists id, In (u, id) (e_map st) /\ ~ In u P.

(* the root record of a (possibly array) type is done *)
Definition root_done (st : est) (P : list Z) (t : ctype) : Prop :=
  match strip t with CRec u _ _ _ _ _ => done st P u | _ => True end.

Definition ext (st st' : est) : Prop :=
  incl (e_map st) (e_map st') /\ (exists new, e_out st' = e_out st ++ new) /\ e_next st <= e_next st'.

Lemma ext_refl st : ext st st.
Proof. split; [apply incl_refl|]. split; [exists []; symmetry; apply app_nil_r|lia]. Qed.

Lemma ext_trans a b c : ext a b -> ext b c -> ext a c.
Proof.
  intros (A1 & (n1 & A2) & A3) (B1 & (n2 & B2) & B3). split; [eapply incl_tran; eauto|].
  split; [exists (n1 ++ n2); rewrite B2, A2, app_assoc; reflexivity|lia].
Qed.

Lemma done_ext st st' P u : ext st st' -> done st P u -> done st' P u.
Proof. intros (A1 & _) (id & H1 & H2). exists id. split; [apply A1; exact H1|exact H2]. Qed.

Lemma root_done_ext st st' P t : ext st st' -> root_done st P t -> root_done st' P t.
Proof. unfold root_done. destruct (strip t); auto. apply done_ext. Qed.

Section Emit.
Variable sc : bool.
Variable U : Z -> option ctype.

(* opening an activation: a fresh id for a type not yet in the cache *)
Lemma Inv_open st P u :
  Inv U st P -> find u (e_map st) = None ->
  Inv U (mkE (e_next st + 1) ((u, e_next st + 1) :: e_map st) (e_out st)) (u :: P).
Proof.
  intros I Hf. pose proof (find_None _ _ Hf) as Hnu. destruct I.
  assert (Hid : ~ In (e_next st + 1) (map snd (e_map st))).
  { rewrite in_map_iff. intros ([v i] & E & Hi). cbn in E. subst i. specialize (inv_ids0 _ _ Hi). lia. }
  constructor; cbn [e_next e_map e_out].
  - lia.
  - intros v id [[= <- <-]|Hi]; [lia|]. specialize (inv_ids0 _ _ Hi). lia.
  - cbn [map snd]. constructor; assumption.
  - cbn [map fst]. constructor; assumption.
  - intros d Hd. destruct (inv_out_done0 d Hd) as (v & H1 & H2). exists v. split; [right; exact H1|].
    intros [<-|H3]; [|contradiction]. apply Hnu. apply (in_map fst) in H1. exact H1.
  - intros v id [[= <- <-]|Hi] Hn; [exfalso; apply Hn; left; reflexivity|].
    apply (inv_done_out0 v id Hi). intros H; apply Hn; right; exact H.
  - assumption.
  - intros v id [[= <- <-]|Hi] Hn; [exfalso; apply Hn; left; reflexivity|].
    apply (inv_info0 v id Hi). intros H; apply Hn; right; exact H.
  - assumption.
Qed.

(* closing it: the line is printed after the members' lines *)
Lemma Inv_close st2 P u k vl sz al ms id :
  Inv U st2 (u :: P) -> In (u, id) (e_map st2) -> ~ In u P ->
  U u = Some (CRec u k vl sz al ms) ->
  (forall m, In m (mlist ms) -> root_done st2 (u :: P) (fst m)) ->
  uid_ok_ms U ms ->
  let d := if vl then mkTD id (Some al) (BOpaque sz) else mkTD id None (body_of sc (e_map st2) k (mlist ms)) in
  Inv U (mkE (e_next st2) (e_map st2) (e_out st2 ++ [d])) P.
Proof.
  intros I Hin HnP HU Hroot Hok d. destruct I.
  assert (Hdid : td_id d = id) by (unfold d; destruct vl; reflexivity).
  assert (Hfresh : ~ In id (map td_id (e_out st2))).
  { rewrite in_map_iff. intros (d' & E & Hd'). destruct (inv_out_done0 d' Hd') as (v & H1 & H2).
    rewrite E in H1. assert (v = u) by (eapply snd_unique; eauto). subst v. apply H2; left; reflexivity. }
  (* members' record types: id known, defined earlier *)
  assert (Hmem : forall m u' k' vl' sz' al' ms', In m (mlist ms) -> strip (fst m) = CRec u' k' vl' sz' al' ms' ->
            exists id', find u' (e_map st2) = Some id' /\ In id' (map td_id (e_out st2)) /\ id' <> id /\
                        (naturalb (strip (fst m)) = true ->
                         elookup id' (env_of (e_out st2)) = Some (cinfo (strip (fst m))))).
  { intros m u' k' vl' sz' al' ms' Hm Es. specialize (Hroot m Hm). unfold root_done in Hroot. rewrite Es in Hroot.
    destruct Hroot as (id' & R1 & R2). exists id'.
    split; [apply In_find; assumption|]. split; [apply (inv_done_out0 u' id' R1 R2)|].
    split; [intros ->; apply Hfresh; apply (inv_done_out0 u' id R1 R2)|].
    destruct (inv_info0 u' id' R1 R2) as (r & E1 & _ & E3).
    assert (Hu : uid_ok U (strip (fst m))).
    { apply uid_ok_strip. clear - Hok Hm. induction ms as [|t off bf r' IH] using cmembers_ind; [destruct Hm|].
      cbn [mlist] in Hm. destruct Hok as [O1 O2]. destruct Hm as [<-|Hm]; [exact O1|auto]. }
    rewrite Es in Hu. destruct Hu as [Hu _]. rewrite Hu in E1. injection E1 as <-. rewrite Es. exact E3. }
  constructor; cbn [e_next e_map e_out].
  - assumption.
  - assumption.
  - assumption.
  - assumption.
  - intros d' Hd'. apply in_app_or in Hd'. destruct Hd' as [Hd'|[<-|[]]].
    + destruct (inv_out_done0 d' Hd') as (v & H1 & H2). exists v. split; [exact H1|].
      intros H; apply H2; right; exact H.
    + exists u. rewrite Hdid. auto.
  - intros v id' Hi Hn. rewrite map_app, in_app_iff. destruct (Z.eq_dec v u) as [->|Hne].
    + right. cbn. left. rewrite Hdid.
      assert (find u (e_map st2) = Some id') by (apply In_find; assumption).
      assert (find u (e_map st2) = Some id) by (apply In_find; assumption). congruence.
    + left. apply (inv_done_out0 v id' Hi). intros [<-|H]; [congruence|contradiction].
  - rewrite map_app. cbn [map]. apply NoDup_snoc; [assumption|rewrite Hdid; assumption].
  - intros v id' Hi Hn. destruct (Z.eq_dec v u) as [->|Hne].
    + assert (id' = id).
      { assert (find u (e_map st2) = Some id') by (apply In_find; assumption).
        assert (find u (e_map st2) = Some id) by (apply In_find; assumption). congruence. }
      subst id'. exists (CRec u k vl sz al ms). split; [exact HU|]. split; [reflexivity|].
      intros Hnat. rewrite env_of_snoc, <- Hdid. apply elookup_add_same. unfold d. destruct vl.
      * apply def_info_valist.
      * apply def_info_natural; [exact Hnat|].
        unfold all_resolved. rewrite Forall_forall. intros m Hm. unfold resolved.
        destruct (strip (fst m)) as [?|? ?|u' k' vl' sz' al' ms'] eqn:Es; auto.
        destruct (Hmem m u' k' vl' sz' al' ms' Hm Es) as (id' & F1 & _ & _ & F4).
        exists id'. split; [exact F1|]. rewrite <- Es. apply F4.
        assert (Hm' : naturalb (fst m) = true).
        { cbn [naturalb] in Hnat. rewrite !andb_true_iff in Hnat. destruct Hnat as [[[[Hn1 _] _] _] _].
          eapply naturalb_member; [exact Hn1|]. apply in_map. exact Hm. }
        destruct (fst m) as [?|e0 s0|? ? ? ? ? ?] eqn:Em; cbn [strip] in *; try exact Hm'.
        (* array: strip_facts needs positivity of the size, which naturalb of an array gives *)
        assert (0 < csize (CArr e0 s0)).
        { cbn [naturalb] in Hm'. rewrite !andb_true_iff in Hm'. destruct Hm' as [[[[_ Hp] _] Hl] _].
          apply Z.ltb_lt in Hp. apply Z.leb_le in Hl. cbn [csize]. lia. }
        apply (strip_facts (CArr e0 s0) Hm' H).
    + destruct (inv_info0 v id' Hi ltac:(intros [<-|H]; [congruence|contradiction])) as (r & E1 & E2 & E3).
      exists r. split; [exact E1|]. split; [exact E2|]. intros Hnat.
      rewrite env_of_snoc, elookup_add_other; [auto|]. rewrite Hdid. intros ->.
      apply Hne. eapply snd_unique; eauto.
  - apply ordered_snoc; [assumption|]. intros id' Hr. unfold d in Hr. destruct vl; [destruct Hr|].
    assert (Hr' : In id' (refs (mkTD 0 None (body_of sc (e_map st2) k (mlist ms))))) by exact Hr.
    destruct (body_refs _ _ _ _ _ Hr') as (m & Hm & Ef).
    unfold field_of, item_of in Ef. cbn [fst] in Ef.
    destruct (strip (fst m)) as [?|? ?|u' k' vl' sz' al' ms'] eqn:Es; try discriminate.
    destruct (Hmem m u' k' vl' sz' al' ms' Hm Es) as (id'' & F1 & F2 & _). rewrite F1 in Ef.
    injection Ef as <-. exact F2.
Qed.

End Emit.

(* ------------------------------------------------------------------ the recursion *)
Section Main.
Variable sc : bool.
Variable U : Z -> option ctype.

Definition post (st st' : est) (P : list Z) : Prop := Inv U st' P /\ ext st st'.

Lemma emit_mut :
  (forall t st P, Inv U st P -> uid_ok U t -> (forall u, In u P -> ~ occurs u t) ->
      post st (emitsub sc t st) P /\ root_done (emitsub sc t st) P t) /\
  (forall ms st P, Inv U st P -> uid_ok_ms U ms -> (forall u, In u P -> ~ occurs_ms u ms) ->
      post st (emitmembers sc ms st) P /\
      forall m, In m (mlist ms) -> root_done (emitmembers sc ms st) P (fst m)).
Proof.
  apply ctype_cmembers_mutind.
  - intros k st P I _ _. cbn. split; [split; [exact I|apply ext_refl]|exact Logic.I].
  - intros e IH sz st P I Hu Hp. cbn [emitsub]. destruct (IH st P I Hu Hp) as [H1 H2].
    split; [exact H1|]. unfold root_done in *. cbn [strip]. exact H2.
  - intros u k vl sz al ms IH st P I Hu Hp. cbn [emitsub].
    assert (HuP : ~ In u P) by (intros H; apply (Hp u H); cbn; left; reflexivity).
    destruct (find u (e_map st)) as [id0|] eqn:Ef.
    + split; [split; [exact I|apply ext_refl]|]. unfold root_done. cbn [strip].
      exists id0. split; [apply find_In; exact Ef|exact HuP].
    + set (id := e_next st + 1).
      set (st1 := mkE id ((u, id) :: e_map st) (e_out st)).
      pose proof (Inv_open U st P u I Ef) as I1. fold id in I1. fold st1 in I1.
      destruct Hu as [Hu1 Hu2].
      assert (Hp1 : forall v, In v (u :: P) -> ~ occurs_ms v ms).
      { intros v [<-|Hv]; [apply (no_self U u k vl sz al ms); split; assumption|].
        intros Ho. apply (Hp v Hv). cbn. right. exact Ho. }
      destruct (IH st1 (u :: P) I1 Hu2 Hp1) as [[I2 X2] R2].
      set (st2 := emitmembers sc ms st1) in *.
      assert (Hin : In (u, id) (e_map st2)) by (apply X2; cbn; left; reflexivity).
      pose proof (Inv_close sc U st2 P u k vl sz al ms id I2 Hin HuP Hu1 R2 Hu2) as I3. cbv zeta in I3.
      split; [split; [exact I3|]|].
      * destruct X2 as (A1 & (new & A2) & A3). split; [|split].
        -- cbn [e_map]. intros x Hx. apply A1. cbn. right. exact Hx.
        -- cbn [e_out]. eexists. rewrite A2. cbn [st1 e_out]. rewrite <- app_assoc. reflexivity.
        -- unfold st1, id in A3. cbn [e_next] in A3 |- *. lia.
      * unfold root_done. cbn [strip]. exists id. cbn [e_map]. split; assumption.
  - intros st P I _ _. cbn. split; [split; [exact I|apply ext_refl]|intros m []].
  - intros t IHt off bf r IHr st P I [Hu1 Hu2] Hp. cbn [emitmembers].
    destruct (IHt st P I Hu1) as [[I1 X1] R1]; [intros u Hu Ho; apply (Hp u Hu); cbn; left; exact Ho|].
    destruct (IHr (emitsub sc t st) P I1 Hu2) as [[I2 X2] R2]; [intros u Hu Ho; apply (Hp u Hu); cbn; right; exact Ho|].
    split; [split; [exact I2|eapply ext_trans; eauto]|].
    intros m [<-|Hm]; [cbn [fst]; eapply root_done_ext; eauto|auto].
Qed.

Lemma emittype_inv t st :
  Inv U st [] -> uid_ok U t -> post st (emittype sc t st) [] /\ (forall u, rec_uid u t -> done (emittype sc t st) [] u).
Proof.
  intros I Hu. destruct t as [k|e s|u k vl sz al ms]; cbn [emittype].
  - split; [split; [exact I|apply ext_refl]|intros u []].
  - split; [split; [exact I|apply ext_refl]|intros u []].
  - destruct (proj1 emit_mut (CRec u k vl sz al ms) st [] I Hu ltac:(intros ? [])) as [H1 H2].
    split; [exact H1|]. intros v <-. exact H2.
Qed.

Lemma emit_all_inv ts : forall st,
  Inv U st [] -> Forall (uid_ok U) ts ->
  post st (emit_all sc ts st) [] /\ (forall t u, In t ts -> rec_uid u t -> done (emit_all sc ts st) [] u).
Proof.
  induction ts as [|t r IH]; intros st I Hf; cbn [emit_all fold_left].
  - split; [split; [exact I|apply ext_refl]|intros ? ? []].
  - apply Forall_cons_iff in Hf. destruct Hf as [Hf1 Hf2].
    destruct (emittype_inv t st I Hf1) as [[I1 X1] D1].
    destruct (IH (emittype sc t st) I1 Hf2) as [[I2 X2] D2]. fold (emit_all sc r (emittype sc t st)) in *.
    split; [split; [exact I2|eapply ext_trans; eauto]|].
    intros t' u [<-|Hi] Hr; [eapply done_ext; eauto|eauto].
Qed.

(* ------------------------------------------------------------------ headline statements *)
(* ts: the types handed to emittype during one run, in order (return and parameter types of every
   function definition, argument and result types of every call). *)

(* descriptor_size_align / descriptor_fields, proved together: the description of a naturally laid out
   type without bit-fields denotes the C type's size, alignment and flattened field list *)
Theorem descriptor_natural ts t u :
  Forall (uid_ok U) ts -> In t ts -> rec_uid u t -> naturalb t = true ->
  let st := emit_all sc ts est0 in
  exists id, find u (e_map st) = Some id /\ elookup id (env_of (e_out st)) = Some (cinfo t).
Proof.
  intros Hf Hi Hr Hn st.
  destruct (emit_all_inv ts est0 (Inv_init U) Hf) as [[I _] D]. fold st in I, D.
  destruct (D t u Hi Hr) as (id & H1 & H2). exists id.
  split; [apply In_find; [apply (inv_nd_u _ _ _ I)|exact H1]|].
  destruct (inv_info _ _ _ I u id H1 H2) as (r & E1 & _ & E3).
  assert (Hu : uid_ok U t) by (rewrite Forall_forall in Hf; auto).
  destruct t as [?|? ?|v k vl sz al ms]; [destruct Hr|destruct Hr|]. destruct Hu as [Hu _]. cbn in Hr. subst v.
  rewrite Hu in E1. injection E1 as <-. auto.
Qed.

Theorem descriptor_size_align_partial ts t u :
  Forall (uid_ok U) ts -> In t ts -> rec_uid u t -> naturalb t = true ->
  let st := emit_all sc ts est0 in
  exists id, find u (e_map st) = Some id /\
             QbeAgg.size (e_out st) id = Some (csize t) /\ QbeAgg.align (e_out st) id = Some (calign t).
Proof.
  intros Hf Hi Hr Hn st. destruct (descriptor_natural ts t u Hf Hi Hr Hn) as (id & H1 & H2).
  exists id. split; [exact H1|]. unfold QbeAgg.size, QbeAgg.align. fold st in H2. rewrite H2. auto.
Qed.

Theorem descriptor_fields_partial ts t u :
  Forall (uid_ok U) ts -> In t ts -> rec_uid u t -> naturalb t = true ->
  let st := emit_all sc ts est0 in
  exists id, find u (e_map st) = Some id /\ QbeAgg.flat (e_out st) id = Some (cflat t).
Proof.
  intros Hf Hi Hr Hn st. destruct (descriptor_natural ts t u Hf Hi Hr Hn) as (id & H1 & H2).
  exists id. split; [exact H1|]. unfold QbeAgg.flat. fold st in H2. rewrite H2. auto.
Qed.

(* equal (size, alignment, flattened list) => equal register classification, on every ABI *)
Lemma class_ext li1 li2 :
  l_size li1 = l_size li2 -> l_align li1 = l_align li2 -> l_flat li1 = l_flat li2 ->
  sysv_class li1 = sysv_class li2 /\ aapcs64_class li1 = aapcs64_class li2 /\ rv64_class li1 = rv64_class li2.
Proof. destruct li1, li2; cbn. intros -> -> ->. auto. Qed.

Theorem descriptor_classes ts t u :
  Forall (uid_ok U) ts -> In t ts -> rec_uid u t -> naturalb t = true ->
  let st := emit_all sc ts est0 in
  exists id li, find u (e_map st) = Some id /\ elookup id (env_of (e_out st)) = Some li /\
    sysv_class li = sysv_class (cinfo t) /\ aapcs64_class li = aapcs64_class (cinfo t) /\
    rv64_class li = rv64_class (cinfo t).
Proof.
  intros Hf Hi Hr Hn st. destruct (descriptor_natural ts t u Hf Hi Hr Hn) as (id & H1 & H2).
  exists id, (cinfo t). auto.
Qed.

(* types_before_use: for ANY types (bit-fields, packed, ... included) every `:name` inside a description
   is defined by an earlier line, names are unique, and ids are handed out densely from 1 *)
Theorem types_before_use ts :
  Forall (uid_ok U) ts ->
  let st := emit_all sc ts est0 in
  ordered (e_out st) /\ NoDup (map td_id (e_out st)) /\
  (forall d, In d (e_out st) -> 1 <= td_id d <= e_next st) /\
  (forall t u, In t ts -> rec_uid u t -> exists id, find u (e_map st) = Some id /\ In id (map td_id (e_out st))).
Proof.
  intros Hf st. destruct (emit_all_inv ts est0 (Inv_init U) Hf) as [[I _] D]. fold st in I, D.
  split; [apply (inv_order _ _ _ I)|]. split; [apply (inv_nd_out _ _ _ I)|]. split.
  - intros d Hd. destruct (inv_out_done _ _ _ I d Hd) as (u & H1 & _). apply (inv_ids _ _ _ I u _ H1).
  - intros t u Hi Hr. destruct (D t u Hi Hr) as (id & H1 & H2). exists id.
    split; [apply In_find; [apply (inv_nd_u _ _ _ I)|exact H1]|apply (inv_done_out _ _ _ I u id H1 H2)].
Qed.

End Main.
