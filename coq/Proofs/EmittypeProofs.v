(* C08 - lemmas about the descriptor model (Model/Emittype.v) against QBE's layout rule and the
   C side (Spec/QbeAgg.v).  Part 1: arithmetic, flattened lists, natural types, the member walk and
   QBE's field walk on the members of a naturally laid out record. *)
From Coq Require Import ZArith List Bool Lia.
From Cproc Require Import Model.Layout Spec.AbiLayout Proofs.LayoutArith Spec.QbeAgg Model.Emittype.
Import ListNotations.
Open Scope Z_scope.

#[local] Arguments Z.mul : simpl never.
#[local] Arguments Z.add : simpl never.
#[local] Arguments Z.div : simpl never.
#[local] Arguments Z.modulo : simpl never.
#[local] Arguments Z.pow : simpl never.
#[local] Arguments Z.max : simpl never.
#[local] Arguments Z.ltb : simpl never.
#[local] Arguments Z.leb : simpl never.
#[local] Arguments Z.eqb : simpl never.
#[local] Arguments roundup : simpl never.
#[local] Arguments alignup : simpl never.
#[local] Arguments w64 : simpl never.

(* ------------------------------------------------------------------ arithmetic *)
Lemma roundup_roundup x a b : 0 < a -> 0 < b -> (a | b) -> roundup (roundup x a) b = roundup x b.
Proof.
  intros Ha Hb Hd. apply Z.le_antisymm.
  - apply roundup_least; [lia|apply roundup_divide|].
    apply roundup_least; [lia| |apply roundup_ge; lia].
    eapply Z.divide_trans; [exact Hd|apply roundup_divide].
  - apply roundup_mono; [lia|apply roundup_ge; lia].
Qed.

Lemma roundup_max x y n : 0 < n -> roundup (Z.max x y) n = Z.max (roundup x n) (roundup y n).
Proof.
  intros Hn. destruct (Z.le_ge_cases x y) as [H|H].
  - rewrite (Z.max_r x y H). pose proof (roundup_mono x y n Hn H). lia.
  - rewrite (Z.max_l x y H). pose proof (roundup_mono y x n Hn H). lia.
Qed.

Lemma pow2_of_pow2b a : pow2b a = true -> pow2 a.
Proof.
  unfold pow2b. rewrite !orb_true_iff, !Z.eqb_eq. intros [[[[->| ->]| ->]| ->]| ->];
    [exists 0|exists 1|exists 2|exists 3|exists 4]; (split; [lia|reflexivity]).
Qed.

(* ------------------------------------------------------------------ flattened lists *)
Lemma shift_0 l : shift 0 l = l.
Proof. induction l as [|[[o s] k] l IH]; cbn; [reflexivity|]. rewrite Z.add_0_r. f_equal. exact IH. Qed.

Lemma shift_app d l1 l2 : shift d (l1 ++ l2) = shift d l1 ++ shift d l2.
Proof. apply map_app. Qed.

Lemma shift_shift a b l : shift a (shift b l) = shift (b + a) l.
Proof.
  unfold shift. rewrite map_map. apply map_ext. intros [[o s] k]. f_equal. f_equal. lia.
Qed.

Lemma shift_rep d n : forall base s F, shift d (rep n base s F) = rep n (base + d) s F.
Proof.
  induction n as [|n IH]; intros base s F; cbn [rep]; [reflexivity|].
  rewrite shift_app, shift_shift, IH. f_equal. f_equal. lia.
Qed.

Lemma rep_app a b : forall base s F, rep (a + b) base s F = rep a base s F ++ rep b (base + Z.of_nat a * s) s F.
Proof.
  induction a as [|a IH]; intros base s F.
  - cbn [rep Nat.add app]. f_equal. cbn. lia.
  - cbn [rep Nat.add]. rewrite IH, <- app_assoc. f_equal. f_equal. f_equal. lia.
Qed.

Lemma rep_rep n m s F : forall base,
  rep n base (Z.of_nat m * s) (rep m 0 s F) = rep (n * m) base s F.
Proof.
  induction n as [|n IH]; intros base; [reflexivity|].
  cbn [rep Nat.mul]. rewrite rep_app, IH, shift_rep. f_equal.
Qed.

(* ------------------------------------------------------------------ natural types *)
Lemma ssize_cases k : ssize k = 1 \/ ssize k = 2 \/ ssize k = 4 \/ ssize k = 8.
Proof. destruct k as [i|i| | | |]; try destruct i; cbn; auto. Qed.

Lemma ssize_pow2 k : pow2 (ssize k).
Proof.
  destruct (ssize_cases k) as [H|[H|[H|H]]]; rewrite H;
    [exists 0|exists 1|exists 2|exists 3]; (split; [lia|reflexivity]).
Qed.

Scheme ctype_mut := Induction for ctype Sort Prop
  with cmembers_mut := Induction for cmembers Sort Prop.
Combined Scheme ctype_cmembers_mutind from ctype_mut, cmembers_mut.

Lemma natural_facts_mut :
  (forall t, naturalb t = true -> 0 <= csize t <= 2 ^ 62 /\ pow2 (calign t)) /\
  (forall ms, naturalb_ms ms = true ->
     (forall cur al sz tal, struct_ok ms cur al sz tal = true -> pow2 al -> pow2 tal) /\
     (forall mx al sz tal, union_ok ms mx al sz tal = true -> pow2 al -> pow2 tal)).
Proof.
  apply ctype_cmembers_mutind.
  - intros k _. cbn [csize calign]. split; [|apply ssize_pow2].
    change (2 ^ 62) with 4611686018427387904. destruct (ssize_cases k) as [H|[H|[H|H]]]; lia.
  - intros e IH sz. cbn [naturalb csize calign]. rewrite !andb_true_iff.
    intros [[[[Hn Hp] Hm] Hle] Hb]. apply Z.ltb_lt in Hp. apply Z.leb_le in Hle, Hb.
    destruct (IH Hn) as [_ Hal]. split; [lia|exact Hal].
  - intros u k vl sz al ms IH. cbn [naturalb csize calign]. destruct vl.
    + rewrite !andb_true_iff. intros [[[Hp H0] Hb] _]. apply Z.leb_le in H0, Hb.
      split; [lia|apply pow2_of_pow2b; exact Hp].
    + rewrite !andb_true_iff. intros [[[[Hn Hne] H0] Hb] Hl]. apply Z.leb_le in H0, Hb.
      destruct (IH Hn) as [Hs Hu]. split; [lia|].
      destruct k; [eapply Hs|eapply Hu]; eauto using pow2_1.
  - intros _. split; intros ? ? ? ? H Hp; cbn in H; rewrite andb_true_iff, !Z.eqb_eq in H;
      destruct H as [_ ->]; exact Hp.
  - intros t IHt off bf r IHr. cbn [naturalb_ms]. rewrite andb_true_iff. intros [Ht Hr].
    destruct (IHt Ht) as [_ Hal]. destruct (IHr Hr) as [Hs Hu]. split.
    + intros cur al sz tal H Hp. cbn [struct_ok] in H. rewrite !andb_true_iff in H. destruct H as [_ H].
      eapply Hs; [exact H|]. apply pow2_max; assumption.
    + intros mx al sz tal H Hp. cbn [union_ok] in H. rewrite !andb_true_iff in H. destruct H as [_ H].
      eapply Hu; [exact H|]. apply pow2_max; assumption.
Qed.

Lemma natural_size t : naturalb t = true -> 0 <= csize t <= 2 ^ 62.
Proof. intros H. apply (proj1 natural_facts_mut t H). Qed.
Lemma natural_align t : naturalb t = true -> pow2 (calign t).
Proof. intros H. apply (proj1 natural_facts_mut t H). Qed.

(* the ultimate element type of a (nested) array *)
Lemma strip_facts t : naturalb t = true -> 0 < csize t ->
  naturalb (strip t) = true /\ 0 < csize (strip t) /\ calign (strip t) = calign t /\
  (exists n, (1 <= n)%nat /\ csize t = Z.of_nat n * csize (strip t) /\
             cflat t = rep n 0 (csize (strip t)) (cflat (strip t))) /\
  (forall e s, strip t <> CArr e s).
Proof.
  induction t as [k|e IH sz|u k vl sz al ms]; intros Hn Hp.
  - cbn [strip]. repeat split; auto; [|discriminate].
    exists 1%nat. split; [lia|]. split; [lia|]. cbn [rep]. rewrite shift_0, app_nil_r. reflexivity.
  - cbn [naturalb] in Hn. rewrite !andb_true_iff in Hn. destruct Hn as [[[[Hn Hpe] Hm] Hle] Hb].
    apply Z.ltb_lt in Hpe. apply Z.eqb_eq in Hm. apply Z.leb_le in Hle.
    destruct (IH Hn Hpe) as (N1 & N2 & N3 & (m & Hm1 & Hm2 & Hm3) & N5).
    cbn [strip csize calign cflat] in *. repeat split; auto.
    apply Z.mod_divide in Hm; [|lia]. destruct Hm as [a Ha].
    assert (1 <= a) by nia.
    exists (Z.to_nat a * m)%nat. split; [nia|]. split.
    + rewrite Nat2Z.inj_mul, Z2Nat.id by lia. rewrite Ha, Hm2. ring.
    + rewrite Ha, Z.div_mul by lia. rewrite Hm3.
      rewrite Hm2 at 1. apply rep_rep.
  - cbn [strip]. repeat split; auto; [|discriminate].
    exists 1%nat. split; [lia|]. split; [lia|]. cbn [rep]. rewrite shift_0, app_nil_r. reflexivity.
Qed.

(* ------------------------------------------------------------------ qbetype on scalars *)
Lemma qbetype_data_spec sc k :
  cls_size (q_data (qbetype_scal sc k)) = ssize k /\ cls_kind (q_data (qbetype_scal sc k)) = skind_kind k.
Proof.
  destruct k as [i|i| | | |]; try destruct i; destruct sc; cbn; auto.
Qed.

(* the base class (temporaries, parameters, results) is w for everything narrower than 8 bytes
   that is not a float, and keeps the float/integer distinction *)
Lemma qbetype_base_spec sc k :
  q_base (qbetype_scal sc k) =
  if sfloat k then (if ssize k =? 4 then Fs else Fd) else (if ssize k =? 8 then Fl else Fw).
Proof. destruct k as [i|i| | | |]; try destruct i; destruct sc; reflexivity. Qed.

(* loads of sub-word integers extend according to the signedness of the type *)
Lemma qbetype_load_spec sc i :
  q_load (qbetype_scal sc (SkInt i)) =
  match isize i, isigned sc i with
  | 1, true => LdSB | 1, false => LdUB | 2, true => LdSH | 2, false => LdUH | 4, _ => LdW | _, _ => LdL
  end.
Proof. destruct i; destruct sc; reflexivity. Qed.

(* ------------------------------------------------------------------ one member as QBE sees it *)
(* the record types among the leaves of t are known to the environment with the C layout *)
Definition resolved (e : env) (mp : list (Z * Z)) (t : ctype) : Prop :=
  match strip t with
  | CRec u k vl sz al ms =>
    exists id, find u mp = Some id /\ elookup id e = Some (cinfo (CRec u k vl sz al ms))
  | _ => True
  end.

Lemma member_field sc e mp t off :
  naturalb t = true -> 0 < csize t -> resolved e mp t ->
  exists li c, field_of sc mp (t, off) = (fst (field_of sc mp (t, off)), c) /\
    item_info e (fst (field_of sc mp (t, off))) = Some li /\
    l_align li = calign t /\ c * l_size li = csize t /\
    forall base, rep (Z.to_nat c) base (l_size li) (l_flat li) = shift base (cflat t).
Proof.
  intros Hn Hp Hr.
  destruct (strip_facts t Hn Hp) as (N1 & N2 & N3 & (n & Hn1 & Hn2 & Hn3) & N5).
  unfold field_of, item_of. cbn [fst snd].
  assert (Hc : (if csize (strip t) <? csize t then csize t / csize (strip t) else 1) = Z.of_nat n).
  { destruct (csize (strip t) <? csize t) eqn:E.
    - rewrite Hn2, Z.div_mul by lia. reflexivity.
    - apply Z.ltb_ge in E. assert (n = 1%nat) by nia. subst n. reflexivity. }
  rewrite Hc. unfold resolved in Hr.
  destruct (strip t) as [k|e' s'|u k vl sz al ms] eqn:Es.
  - exists (mkLI (cls_size (q_data (qbetype_scal sc k))) (cls_size (q_data (qbetype_scal sc k)))
                [(0, cls_size (q_data (qbetype_scal sc k)), cls_kind (q_data (qbetype_scal sc k)))]), (Z.of_nat n).
    destruct (qbetype_data_spec sc k) as [Q1 Q2]. cbn [qbetype item_info l_align l_size l_flat].
    rewrite Q1, Q2. cbn [csize calign cflat] in *.
    split; [reflexivity|]. split; [reflexivity|]. split; [exact N3|]. split; [lia|].
    intros base. rewrite Nat2Z.id, Hn3, shift_rep. reflexivity.
  - exfalso. eapply N5; reflexivity.
  - destruct Hr as (id & Hf & Hl). rewrite Hf. cbn [item_info]. rewrite Hl.
    exists (cinfo (CRec u k vl sz al ms)), (Z.of_nat n). cbn [cinfo l_align l_size l_flat].
    split; [reflexivity|]. split; [reflexivity|]. split; [exact N3|]. split; [lia|].
    intros base. rewrite Nat2Z.id, Hn3, shift_rep. reflexivity.
Qed.

(* ------------------------------------------------------------------ the member walk of emittype *)
(* the walk never runs out of fuel: search and skip return suffixes *)
Lemma search_length m : forall others after, (length others <= length after)%nat ->
  (length (snd (search m after others)) <= length after)%nat.
Proof.
  intros others. revert m. induction others as [|o r IH]; intros m after H; cbn [search].
  - cbn. lia.
  - destruct (alignup (w64 (snd m + 1)) 8 <=? snd o); [cbn; lia|].
    cbn [length] in H. destruct (snd o <=? snd m).
    + specialize (IH o r (le_n _)). lia.
    + apply IH. lia.
Qed.

Lemma skip_length off l : (length (skip off l) <= length l)%nat.
Proof. induction l as [|o r IH]; cbn [skip]; [lia|]. destruct (snd o <? off); cbn [length]; lia. Qed.

Theorem walk_fuel_enough sc mp : forall fuel l, (length l < fuel)%nat -> walk_struct fuel sc mp l <> None.
Proof.
  induction fuel as [|f IH]; intros l H; [lia|].
  cbn [walk_struct]. destruct l as [|m rest]; [discriminate|].
  pose proof (search_length m rest rest (le_n _)) as Hs.
  destruct (search m rest rest) as [m' after] eqn:E. cbn [snd] in Hs.
  pose proof (skip_length (w64 (snd m' + csize (fst m'))) after) as Hk.
  cbn [length] in H.
  destruct (walk_struct f sc mp (skip (w64 (snd m' + csize (fst m'))) after)) eqn:W; [discriminate|].
  exfalso. eapply IH; [|exact W]. lia.
Qed.

Theorem body_never_fuel_error sc mp k l : body_of sc mp k l <> fuel_error.
Proof.
  unfold body_of. destruct k; [|discriminate].
  destruct (walk_struct (S (length l)) sc mp l) eqn:W; [discriminate|].
  exfalso. apply (walk_fuel_enough sc mp (S (length l)) l (Nat.lt_succ_diag_r _) W).
Qed.

(* on increasing offsets the search keeps its member and nothing is skipped *)
Lemma search_stay m after : forall others,
  Forall (fun o => snd m < snd o) others -> search m after others = (m, after).
Proof.
  induction others as [|o r IH]; intros H; cbn [search]; [reflexivity|].
  inversion H as [|? ? H1 H2]; subst.
  destruct (alignup (w64 (snd m + 1)) 8 <=? snd o); [reflexivity|].
  destruct (snd o <=? snd m) eqn:E; [apply Z.leb_le in E; lia|]. apply IH; assumption.
Qed.

Lemma skip_none off l : Forall (fun o => off <= snd o) l -> skip off l = l.
Proof.
  destruct l as [|o r]; intros H; cbn [skip]; [reflexivity|].
  inversion H as [|? ? H1 H2]; subst. destruct (snd o <? off) eqn:E; [apply Z.ltb_lt in E; lia|reflexivity].
Qed.

(* in a naturally laid out struct every member lies at or after the running position, below the size *)
Lemma struct_ok_bounds ms : forall cur al sz tal,
  naturalb_ms ms = true -> struct_ok ms cur al sz tal = true -> 0 <= cur -> pow2 al ->
  cur <= sz /\ Forall (fun m => cur <= snd m /\ snd m + csize (fst m) <= sz) (mlist ms).
Proof.
  induction ms as [|t off bf r IH] using cmembers_ind; intros cur al sz tal Hn H Hc Hp.
  - cbn in H. rewrite andb_true_iff, !Z.eqb_eq in H. destruct H as [-> _]. cbn [mlist].
    split; [|constructor]. apply roundup_ge. destruct (pow2_pos _ Hp). lia.
  - cbn [struct_ok] in H. rewrite !andb_true_iff in H. destruct H as [[[_ Hp0] Ho] H].
    apply Z.ltb_lt in Hp0. apply Z.eqb_eq in Ho.
    cbn [naturalb_ms] in Hn. rewrite andb_true_iff in Hn. destruct Hn as [Ht Hr].
    pose proof (natural_align t Ht) as Ha. destruct (pow2_pos _ Ha) as [Ha1 _].
    assert (cur <= off) by (rewrite Ho; apply roundup_ge; lia).
    destruct (IH (off + csize t) (Z.max al (calign t)) sz tal Hr H ltac:(lia) ltac:(apply pow2_max; assumption)) as [B1 B2].
    cbn [mlist]. split; [lia|]. constructor; [cbn [fst snd]; lia|].
    eapply Forall_impl; [|exact B2]. cbn beta. intros m [? ?]. lia.
Qed.

Lemma struct_ok_sorted ms : forall cur al sz tal,
  naturalb_ms ms = true -> struct_ok ms cur al sz tal = true -> 0 <= cur -> pow2 al ->
  match mlist ms with
  | [] => True
  | m :: rest => Forall (fun o => snd m + csize (fst m) <= snd o) rest /\ 0 < csize (fst m) /\ 0 <= snd m /\ snd m + csize (fst m) <= sz
  end.
Proof.
  intros cur al sz tal Hn H Hc Hp. destruct ms as [|t off bf r]; cbn [mlist]; [exact I|].
  cbn [struct_ok] in H. rewrite !andb_true_iff in H. destruct H as [[[_ Hp0] Ho] H].
  apply Z.ltb_lt in Hp0. apply Z.eqb_eq in Ho.
  cbn [naturalb_ms] in Hn. rewrite andb_true_iff in Hn. destruct Hn as [Ht Hr].
  pose proof (natural_align t Ht) as Ha. destruct (pow2_pos _ Ha) as [Ha1 _].
  assert (cur <= off) by (rewrite Ho; apply roundup_ge; lia).
  destruct (struct_ok_bounds r (off + csize t) (Z.max al (calign t)) sz tal Hr H ltac:(lia) ltac:(apply pow2_max; assumption)) as [B1 B2].
  cbn [fst snd]. repeat split; try lia.
  eapply Forall_impl; [|exact B2]. cbn beta. intros m [? ?]. lia.
Qed.

Lemma walk_natural sc mp ms : forall fuel cur al sz tal,
  naturalb_ms ms = true -> struct_ok ms cur al sz tal = true -> 0 <= cur -> pow2 al -> sz <= 2 ^ 62 ->
  (length (mlist ms) < fuel)%nat ->
  walk_struct fuel sc mp (mlist ms) = Some (map (field_of sc mp) (mlist ms)).
Proof.
  induction ms as [|t off bf r IH] using cmembers_ind; intros fuel cur al sz tal Hn H Hc Hp Hb Hf.
  - destruct fuel; [cbn in Hf; lia|reflexivity].
  - destruct fuel; [cbn in Hf; lia|].
    pose proof (struct_ok_sorted _ _ _ _ _ Hn H Hc Hp) as S. cbn [mlist] in S |- *.
    destruct S as (S1 & S2 & S3 & S4). cbn [fst snd] in *.
    cbn [walk_struct]. rewrite search_stay; [|eapply Forall_impl; [|exact S1]; cbn; intros; lia].
    cbn [fst snd]. change (2 ^ 62) with 4611686018427387904 in Hb.
    rewrite w64_small by (unfold W64; lia).
    rewrite skip_none by exact S1.
    cbn [struct_ok] in H. rewrite !andb_true_iff in H. destruct H as [[[_ Hp0] Ho] H].
    cbn [naturalb_ms] in Hn. rewrite andb_true_iff in Hn. destruct Hn as [Ht Hr].
    erewrite IH; [reflexivity|exact Hr|exact H|lia|apply pow2_max; [assumption|apply natural_align; assumption]|assumption|].
    cbn [mlist length] in Hf. lia.
Qed.

(* ------------------------------------------------------------------ QBE's field walk over those members *)
Definition all_resolved (e : env) (mp : list (Z * Z)) (ms : cmembers) : Prop :=
  Forall (fun m => resolved e mp (fst m)) (mlist ms).

Lemma struct_fields_natural sc e mp ms : forall cur al sz tal acc,
  naturalb_ms ms = true -> struct_ok ms cur al sz tal = true -> 0 <= cur -> all_resolved e mp ms ->
  exists cur', fields_walk e (map (field_of sc mp) (mlist ms)) cur al acc = Some (cur', tal, acc ++ cflat_ms ms)
               /\ 0 <= cur' /\ sz = roundup cur' tal.
Proof.
  induction ms as [|t off bf r IH] using cmembers_ind; intros cur al sz tal acc Hn H Hc Hr.
  - cbn in H. rewrite andb_true_iff, !Z.eqb_eq in H. destruct H as [-> ->].
    exists cur. cbn. rewrite app_nil_r. auto.
  - cbn [struct_ok] in H. rewrite !andb_true_iff in H. destruct H as [[[Hbf Hp0] Ho] H].
    apply Z.ltb_lt in Hp0. apply Z.eqb_eq in Ho. destruct bf; [discriminate|].
    cbn [naturalb_ms] in Hn. rewrite andb_true_iff in Hn. destruct Hn as [Ht Hrn].
    unfold all_resolved in Hr. cbn [mlist] in Hr. apply Forall_cons_iff in Hr. destruct Hr as [Hr1 Hr2]. cbn [fst] in Hr1.
    destruct (member_field sc e mp t off Ht Hp0 Hr1) as (li & c & E1 & E2 & E3 & E4 & E5).
    cbn [mlist map fields_walk]. rewrite E1, E2, E3, <- Ho, E4, E5.
    pose proof (natural_align t Ht) as Ha. destruct (pow2_pos _ Ha) as [Ha1 _].
    assert (cur <= off) by (rewrite Ho; apply roundup_ge; lia).
    destruct (IH (off + csize t) (Z.max al (calign t)) sz tal (acc ++ shift off (cflat t)) Hrn H ltac:(lia) Hr2)
      as (cur' & W & W0 & W1).
    exists cur'. rewrite W. cbn [cflat_ms]. rewrite <- app_assoc. auto.
Qed.

Lemma union_alts_natural sc e mp ms : forall mx al sz tal acc,
  naturalb_ms ms = true -> union_ok ms mx al sz tal = true -> 0 <= mx -> pow2 al -> all_resolved e mp ms ->
  alts_walk e (map (fun m => [field_of sc mp m]) (mlist ms)) (roundup mx al) al acc
  = Some (sz, tal, acc ++ cflat_ms ms).
Proof.
  induction ms as [|t off bf r IH] using cmembers_ind; intros mx al sz tal acc Hn H Hc Hp Hr.
  - cbn in H. rewrite andb_true_iff, !Z.eqb_eq in H. destruct H as [-> ->].
    cbn. rewrite app_nil_r. reflexivity.
  - cbn [union_ok] in H. rewrite !andb_true_iff in H. destruct H as [[[Hbf Hp0] Ho] H].
    apply Z.ltb_lt in Hp0. apply Z.eqb_eq in Ho. subst off. destruct bf; [discriminate|].
    cbn [naturalb_ms] in Hn. rewrite andb_true_iff in Hn. destruct Hn as [Ht Hrn].
    unfold all_resolved in Hr. cbn [mlist] in Hr. apply Forall_cons_iff in Hr. destruct Hr as [Hr1 Hr2]. cbn [fst] in Hr1.
    destruct (member_field sc e mp t 0 Ht Hp0 Hr1) as (li & c & E1 & E2 & E3 & E4 & E5).
    pose proof (natural_align t Ht) as Ha. destruct (pow2_pos _ Ha) as [Ha1 _]. destruct (pow2_pos _ Hp) as [Hp1 _].
    cbn [mlist map alts_walk fields_walk]. rewrite E1, E2, E3.
    assert (R0 : roundup 0 (calign t) = 0) by (apply roundup_id; [lia|apply Z.divide_0_r]).
    rewrite R0. cbn [app]. rewrite E5, shift_0, Z.add_0_l, E4. cbn [fields_finish].
    assert (Hd : (al | Z.max al (calign t))) by (apply pow2_divide_max_l; assumption).
    assert (Hm : 0 < Z.max al (calign t)) by lia.
    assert (Hsz : roundup (Z.max (csize t) (roundup mx al)) (Z.max al (calign t))
                  = roundup (Z.max mx (csize t)) (Z.max al (calign t))).
    { rewrite !roundup_max by lia. rewrite roundup_roundup by (auto; lia). lia. }
    rewrite Hsz.
    rewrite (IH (Z.max mx (csize t)) (Z.max al (calign t)) sz tal (acc ++ cflat t) Hrn H ltac:(lia)
                ltac:(apply pow2_max; assumption) Hr2).
    cbn [cflat_ms]. rewrite shift_0, <- app_assoc. reflexivity.
Qed.

(* the description emittype prints for a naturally laid out record denotes, in an environment that
   knows its member record types, exactly the C layout *)
Lemma def_info_natural sc e mp id u k sz al ms :
  naturalb (CRec u k false sz al ms) = true -> all_resolved e mp ms ->
  def_info e (mkTD id None (body_of sc mp k (mlist ms))) = Some (cinfo (CRec u k false sz al ms)).
Proof.
  cbn [naturalb]. rewrite !andb_true_iff. intros [[[[Hn Hne] H0] Hb] Hl] Hr.
  apply Z.leb_le in H0, Hb.
  unfold def_info, body_of. cbn [td_body td_align]. destruct k.
  - erewrite walk_natural; [|exact Hn|exact Hl|lia|exact pow2_1|exact Hb|lia].
    destruct (struct_fields_natural sc e mp ms 0 1 sz al [] Hn Hl ltac:(lia) Hr) as (cur' & W & W0 & W1).
    rewrite W. cbn [fields_finish app]. rewrite Z.max_l by lia. rewrite <- W1. reflexivity.
  - pose proof (union_alts_natural sc e mp ms 0 1 sz al [] Hn Hl ltac:(lia) pow2_1 Hr) as W.
    rewrite roundup_1 in W. rewrite W. reflexivity.
Qed.

Lemma def_info_valist e id u k sz al ms :
  def_info e (mkTD id (Some al) (BOpaque sz)) = Some (cinfo (CRec u k true sz al ms)).
Proof. reflexivity. Qed.
