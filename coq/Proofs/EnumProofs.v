(* C06 - the enumerator loop of tagspec selects the underlying type the specification requires. *)
From Coq Require Import ZArith List Bool Lia.
From Cproc Require Import Model.Layout Spec.AbiLayout Proofs.LayoutArith.
Import ListNotations.
Open Scope Z_scope.
#[local] Arguments Z.mul : simpl never.
#[local] Arguments Z.add : simpl never.
#[local] Arguments Z.sub : simpl never.
#[local] Arguments Z.opp : simpl never.
#[local] Arguments Z.pow : simpl never.
#[local] Arguments Z.max : simpl never.
#[local] Arguments Z.min : simpl never.
#[local] Arguments Z.ltb : simpl never.
#[local] Arguments Z.leb : simpl never.
#[local] Arguments Z.eqb : simpl never.
#[local] Arguments Z.modulo : simpl never.

Definition valid_itype (t : itype) : Prop := i_size t = 1 \/ i_size t = 2 \/ i_size t = 4 \/ i_size t = 8.

Ltac evalconsts := repeat match goal with
  | |- context [Z.shiftr ?a ?b] => let v := eval vm_compute in (Z.shiftr a b) in change (Z.shiftr a b) with v
  | |- context [w64 (- Z.shiftl 1 ?b)] => let v := eval vm_compute in (w64 (- Z.shiftl 1 b)) in change (w64 (- Z.shiftl 1 b)) with v
  | |- context [2 ^ ?b] => let v := eval vm_compute in (2 ^ b) in change (2 ^ b) with v
  end.

Ltac bcases := repeat match goal with
  | |- context [Z.leb ?a ?b] => destruct (Z.leb_spec a b)
  | |- context [Z.ltb ?a ?b] => destruct (Z.ltb_spec a b)
  end.

(* typehasint is "the mathematical value lies in the range of the type" *)
Lemma typehasint_spec t i sign :
  valid_itype t -> 0 <= i < W64 -> typehasint t i sign = in_range t (mval sign i).
Proof.
  intros Hv Hi. destruct t as [id s sg]. unfold valid_itype in Hv; cbn [i_size] in Hv.
  unfold typehasint, in_range, imin, imax, mval. cbn [i_size i_signed].
  unfold P63, W64 in *.
  destruct Hv as [->|[->|[->| ->]]]; destruct sg; destruct sign; cbn [andb negb]; evalconsts;
    bcases; cbn [andb]; try reflexivity; exfalso; lia.
Qed.

Lemma mval_range sg u : 0 <= u < W64 -> - 2 ^ 63 <= mval sg u < 2 ^ 64.
Proof.
  intros. unfold mval, P63, W64 in *. change (2 ^ 63) with 9223372036854775808. change (2 ^ 64) with 18446744073709551616.
  destruct sg; cbn [andb]; bcases; lia.
Qed.

Lemma w64_mval sg u : 0 <= u < W64 -> w64 (mval sg u) = u.
Proof.
  intros. unfold mval, w64, P63, W64 in *. destruct sg; cbn [andb]; bcases; dlia.
Qed.

(* ------------------------------------------------------------------ folds over snoc lists *)
Lemma fold_min_snoc l x : fold_right Z.min 0 (l ++ [x]) = Z.min (fold_right Z.min 0 l) x.
Proof. induction l as [|a l IH]; cbn [app fold_right]; [lia|rewrite IH; lia]. Qed.

Lemma fold_max_snoc l x : fold_right Z.max 0 (l ++ [x]) = Z.max (fold_right Z.max 0 l) x.
Proof. induction l as [|a l IH]; cbn [app fold_right]; [lia|rewrite IH; lia]. Qed.

Lemma fold_min_le l : fold_right Z.min 0 l <= 0.
Proof. induction l; cbn [fold_right]; lia. Qed.

Lemma fold_max_ge l : 0 <= fold_right Z.max 0 l.
Proof. induction l; cbn [fold_right]; lia. Qed.

Lemma fold_bounds l x : In x l -> fold_right Z.min 0 l <= x <= fold_right Z.max 0 l.
Proof.
  induction l as [|a l IH]; cbn [fold_right In]; [tauto|].
  intros [->|H]; [pose proof (fold_min_le l); pose proof (fold_max_ge l); lia|specialize (IH H); lia].
Qed.

Lemma last_cons_default (v : Z) l d : last (v :: l) d = last l v.
Proof.
  revert v d. induction l as [|a l IH]; intros v d; [reflexivity|].
  change (last (v :: a :: l) d) with (last (a :: l) d). rewrite (IH a d).
  change (last (a :: l) v) with (match l with [] => a | _ => last l v end).
  destruct l; [reflexivity|]. rewrite <- (IH a v). reflexivity.
Qed.

Lemma spec_values_snoc es e : forall prev,
  spec_enum_values prev (es ++ [e]) =
    let vs := spec_enum_values prev es in
    vs ++ [match e with Some (u, ty) => mval (i_signed ty) u | None => last vs prev + 1 end].
Proof.
  induction es as [|a es IH]; intros prev; cbn [app spec_enum_values].
  - destruct e as [[u ty]|]; reflexivity.
  - destruct a as [[u ty]|]; cbn [spec_enum_values]; rewrite IH; cbv zeta; cbn [app]; f_equal; f_equal; f_equal;
      destruct e as [[u' ty']|]; try reflexivity; rewrite last_cons_default; reflexivity.
Qed.

Lemma last_map_cval cs d z : cs <> [] -> last (map cval cs) z = cval (last cs d).
Proof.
  induction cs as [|a cs IH]; [congruence|]. intros _. destruct cs as [|b cs]; [reflexivity|].
  change (last (cval a :: map cval (b :: cs)) z) with (last (map cval (b :: cs)) z).
  change (last (a :: b :: cs) d) with (last (b :: cs) d). apply IH. discriminate.
Qed.

Lemma first_fit_ext p q l : (forall t, In t l -> p t = q t) -> first_fit p l = first_fit q l.
Proof.
  induction l as [|a l IH]; intros H; cbn [first_fit]; [reflexivity|].
  rewrite (H a (or_introl eq_refl)). destruct (q a); [reflexivity|]. apply IH. intros. apply H. right. assumption.
Qed.

Lemma first_fit_some p l t : first_fit p l = Some t -> In t l /\ p t = true.
Proof.
  induction l as [|a l IH]; cbn [first_fit]; [discriminate|].
  destruct (p a) eqn:E; [intros [= ->]; split; [left; reflexivity|assumption]|].
  intros H. destruct (IH H). split; [right|]; assumption.
Qed.

Lemma ladder_valid sign t : In t (ladder sign) -> valid_itype t /\ i_signed t = sign /\ 4 <= i_size t.
Proof.
  unfold ladder, valid_itype. destruct sign; cbn [In]; intros [<-|[<-|[<-|[]]]]; cbn; repeat split; auto; lia.
Qed.

(* ------------------------------------------------------------------ invariant of the loop, no fixed type *)
Definition wf_einput (e : option (Z * itype)) : Prop :=
  match e with
  | None => True
  | Some (u, ty) => 0 <= u < W64 /\ valid_itype ty /\ in_range ty (mval (i_signed ty) u) = true
  end.

Definition const_ok (c : Z * itype) : Prop :=
  0 <= fst c < W64 /\ valid_itype (snd c) /\ in_range (snd c) (cval c) = true.

Record EInv (st : estate) (vs : list Z) : Prop := mkEInv {
  EI_vals : map cval (e_consts st) = vs;
  EI_min : e_min st = - fold_right Z.min 0 vs;
  EI_max : e_max st = fold_right Z.max 0 vs;
  EI_ok : Forall const_ok (e_consts st);
  EI_intty : Forall (fun c => snd c = tint) (e_consts st) \/ exists c, In c (e_consts st) /\ in_range tint (cval c) = false;
  EI_last : e_first st = false -> e_consts st <> [] /\ last (e_consts st) (0, tint) = (e_value st, e_et st);
  EI_first : e_first st = true -> e_consts st = [] /\ e_et st = tint
}.

Lemma EInv_init : EInv (einit None) [].
Proof. constructor; cbn; auto; try lia; try discriminate. Qed.

Lemma valid_tint : valid_itype tint. Proof. right; right; left; reflexivity. Qed.

(* recording a constant (value u of type et whose mathematical value is v) *)
Lemma record_inv st vs u et v :
  EInv st vs -> 0 <= u < W64 -> valid_itype et -> v = mval (i_signed et) u -> in_range et v = true ->
  (Forall (fun c => snd c = tint) (e_consts st) -> et = tint \/ in_range tint v = false) ->
  EInv (enum_record st u et) (vs ++ [v]).
Proof.
  intros I Hu Hvt Hv Hr Hint. destruct I as [Ivals Imin Imax Iok Iint Ilast Ifirst].
  pose proof (fold_min_le vs) as Hmn. pose proof (fold_max_ge vs) as Hmx.
  unfold enum_record.
  assert (Hc : cval (u, et) = v) by (unfold cval; cbn [fst snd]; congruence).
  destruct (i_signed et && (P63 <=? u)) eqn:Hneg; constructor; cbn [e_consts e_min e_max e_first e_value e_et].
  all: try (rewrite map_app, Ivals; cbn [map]; rewrite Hc; reflexivity).
  all: try (apply Forall_app; split; [assumption|constructor; [|constructor]]; unfold const_ok; cbn [fst snd]; rewrite Hc; auto).
  all: try discriminate.
  all: try (intros _; split; [destruct (e_consts st); discriminate|apply last_last]).
  all: try (destruct Iint as [Iint|(c & Hin & Hc')];
            [destruct (Hint Iint) as [->|Hnf];
               [left; apply Forall_app; split; [assumption|constructor; [reflexivity|constructor]]
               |right; exists (u, et); split; [apply in_or_app; right; left; reflexivity|rewrite Hc; assumption]]
            |right; exists c; split; [apply in_or_app; left; assumption|assumption]]).
  - (* negative value: min grows *)
    rewrite fold_min_snoc. unfold mval in Hv. rewrite Hneg in Hv.
    apply andb_true_iff in Hneg. destruct Hneg as [_ Hge]. apply Z.leb_le in Hge. unfold P63 in Hge.
    assert (w64 (- u) = - v). { subst v. unfold w64, W64 in *. dlia. }
    rewrite H. destruct (Z.ltb_spec (e_min st) (- v)); lia.
  - rewrite fold_max_snoc. unfold mval in Hv. rewrite Hneg in Hv.
    apply andb_true_iff in Hneg. destruct Hneg as [_ Hge]. apply Z.leb_le in Hge. unfold P63, W64 in *. lia.
  - rewrite fold_min_snoc. unfold mval in Hv. rewrite Hneg in Hv. lia.
  - rewrite fold_max_snoc. unfold mval in Hv. rewrite Hneg in Hv. subst v.
    destruct (Z.ltb_spec (e_max st) u); lia.
Qed.

Lemma step_inv st vs e st' :
  EInv st vs -> wf_einput e -> enum_step false st e = Ok st' ->
  EInv st' (vs ++ [match e with Some (u, ty) => mval (i_signed ty) u | None => last vs (-1) + 1 end]).
Proof.
  intros I Hwf H. unfold enum_step in H.
  destruct e as [[u ty]|].
  - (* explicit value *)
    cbn [negb] in H. destruct Hwf as (Hu & Hvt & Hr).
    injection H as <-.
    pose proof (typehasint_spec tint u (i_signed ty) valid_tint Hu) as Hs.
    destruct (typehasint tint u (i_signed ty)) eqn:Ht.
    + apply record_inv; auto using valid_tint.
      * symmetry in Hs. unfold in_range, imin, imax in Hs. cbn [i_size i_signed tint] in Hs.
        change (2 ^ (8 * 4 - 1)) with 2147483648 in Hs.
        apply andb_true_iff in Hs. destruct Hs as [H1 H2]. apply Z.leb_le in H1, H2.
        unfold mval, P63, W64 in *. cbn [i_signed tint]. destruct (i_signed ty); cbn [andb] in *; bcases; lia.
    + apply record_inv; auto.
  - (* previous value plus one *)
    destruct I as [Ivals Imin Imax Iok Iint Ilast Ifirst].
    destruct (e_first st) eqn:Hf.
    + destruct (Ifirst eq_refl) as (Hnil & Het). rewrite Het in H.
      cbn in H. injection H as <-.
      assert (Hvs : vs = []) by (rewrite <- Ivals, Hnil; reflexivity).
      rewrite Hvs in *. cbn [last].
      apply record_inv; auto using valid_tint.
      * constructor; auto; rewrite Hf; auto.
      * unfold W64; lia.
    + destruct (Ilast eq_refl) as (Hne & Hlast).
      set (up := e_value st) in *. set (etp := e_et st) in *.
      assert (Hin : In (up, etp) (e_consts st)).
      { rewrite <- Hlast. destruct (e_consts st) as [|c0 cs0]; [congruence|].
        destruct (exists_last (l := c0 :: cs0) ltac:(discriminate)) as (l' & a & E). rewrite E, last_last.
        apply in_or_app. right. left. reflexivity. }
      rewrite Forall_forall in Iok. destruct (Iok _ Hin) as (Hup & Hvp & Hrp). cbn [fst snd] in *.
      assert (Hlv : last vs (-1) = cval (up, etp)).
      { rewrite <- Ivals. rewrite (last_map_cval _ (0, tint)) by assumption. rewrite Hlast. reflexivity. }
      rewrite Hlv. unfold cval; cbn [fst snd].
      set (value := w64 (up + 1)) in *.
      assert (Hval : 0 <= value < W64) by (apply Z.mod_pos_bound; unfold W64; lia).
      cbn [negb andb] in H.
      destruct (((value =? 0) && negb (i_signed etp)) || ((value =? P63) && i_signed etp)) eqn:Hov; [discriminate|].
      assert (Hv : mval (i_signed etp) value = mval (i_signed etp) up + 1).
      { apply orb_false_iff in Hov. destruct Hov as [H1 H2].
        unfold mval, value, w64, P63, W64 in *.
        destruct (i_signed etp); cbn [andb negb] in *;
          rewrite ?andb_true_r, ?andb_false_r in *;
          try apply Z.eqb_neq in H1; try apply Z.eqb_neq in H2; bcases; dlia. }
      assert (Hrec : forall et', valid_itype et' -> i_signed et' = i_signed etp -> typehasint et' value (i_signed etp) = true ->
                     (et' = tint \/ typehasint tint value (i_signed etp) = false \/ etp <> tint) ->
                     EInv (enum_record st value et') (vs ++ [mval (i_signed etp) up + 1])).
      { intros et' Hv' Hsg Hth Hcase. apply record_inv; auto.
        - constructor; auto; try (rewrite Forall_forall; assumption); rewrite Hf; try discriminate; intros _; split; assumption.
        - rewrite Hsg. symmetry. assumption.
        - rewrite <- Hv. rewrite <- typehasint_spec by assumption. assumption.
        - intros Hall. rewrite Forall_forall in Hall. specialize (Hall _ Hin). cbn [snd] in Hall.
          destruct Hcase as [?|[Hnt|?]]; [left; assumption| |contradiction].
          right. rewrite <- Hv. rewrite Hall in *. cbn [i_signed tint] in *.
          rewrite <- (typehasint_spec tint value true) by (auto using valid_tint). assumption. }
      destruct (typehasint etp value (i_signed etp)) eqn:Hth; cbn [negb] in H.
      * injection H as <-. apply Hrec; auto.
        destruct (Iint) as [Hall|_].
        -- rewrite Forall_forall in Hall. left. exact (Hall _ Hin).
        -- destruct etp as [i s g]. destruct (Z.eq_dec i 6); [|right; right; intros E; injection E; intros; contradiction].
           destruct (Z.eq_dec s 4); [|right; right; intros E; injection E; intros; contradiction].
           destruct g; [left; subst; reflexivity|right; right; discriminate].
      * destruct (first_fit (fun t => typehasint t value (i_signed etp)) (ladder (i_signed etp))) as [et'|] eqn:Hff; [|discriminate].
        injection H as <-. apply first_fit_some in Hff. destruct Hff as (Hil & Hp).
        apply ladder_valid in Hil. destruct Hil as (Hv' & Hsg & _).
        apply Hrec; auto.
        destruct etp as [i s g]. destruct (Z.eq_dec i 6); [|right; right; intros E; injection E; intros; contradiction].
        destruct (Z.eq_dec s 4); [|right; right; intros E; injection E; intros; contradiction].
        destruct g; [right; left; subst; exact Hth|right; right; discriminate].
Qed.

Lemma steps_inv es : forall st vs st' prev,
  EInv st vs -> Forall wf_einput es -> enum_steps false st es = Ok st' ->
  (vs = [] -> prev = -1) -> (vs <> [] -> prev = last vs (-1)) ->
  EInv st' (vs ++ spec_enum_values prev es).
Proof.
  induction es as [|e es IH]; intros st vs st' prev I Hwf H Hp1 Hp2; cbn [enum_steps spec_enum_values] in *.
  - injection H as <-. rewrite app_nil_r. assumption.
  - destruct (enum_step false st e) as [st1|] eqn:H1; [|discriminate].
    inversion Hwf as [|? ? Hw1 Hw2]; subst.
    pose proof (step_inv _ _ _ _ I Hw1 H1) as I1.
    assert (Hprev : last vs (-1) = prev).
    { destruct vs; [cbn; symmetry; apply Hp1; reflexivity|symmetry; apply Hp2; discriminate]. }
    rewrite Hprev in I1.
    destruct e as [[u ty]|].
    + replace (vs ++ mval (i_signed ty) u :: spec_enum_values (mval (i_signed ty) u) es)
        with ((vs ++ [mval (i_signed ty) u]) ++ spec_enum_values (mval (i_signed ty) u) es) by (rewrite <- app_assoc; reflexivity).
      eapply IH; eauto.
      * intros E. destruct vs; discriminate.
      * intros _. rewrite last_last. reflexivity.
    + replace (vs ++ (prev + 1) :: spec_enum_values (prev + 1) es)
        with ((vs ++ [prev + 1]) ++ spec_enum_values (prev + 1) es) by (rewrite <- app_assoc; reflexivity).
      eapply IH; eauto.
      * intros E. destruct vs; discriminate.
      * intros _. rewrite last_last. reflexivity.
Qed.

(* ------------------------------------------------------------------ the end of the enum specifier *)
Lemma in_range_between t lo hi v :
  in_range t lo = true -> in_range t hi = true -> lo <= v <= hi -> in_range t v = true.
Proof.
  unfold in_range. rewrite !andb_true_iff, !Z.leb_le. lia.
Qed.

Lemma mval_w64_in_range t v : valid_itype t -> in_range t v = true -> mval (i_signed t) (w64 v) = v.
Proof.
  intros Hv Hr. destruct t as [id s sg]. unfold valid_itype in Hv; cbn [i_size i_signed] in *.
  unfold in_range, imin, imax in Hr. cbn [i_size i_signed] in Hr.
  apply andb_true_iff in Hr. destruct Hr as [H1 H2]. apply Z.leb_le in H1, H2.
  unfold mval, w64, P63, W64.
  destruct Hv as [->|[->|[->| ->]]]; destruct sg; cbn [andb];
    repeat match type of H1 with context [2 ^ ?b] => let x := eval vm_compute in (2 ^ b) in change (2 ^ b) with x in H1 end;
    repeat match type of H2 with context [2 ^ ?b] => let x := eval vm_compute in (2 ^ b) in change (2 ^ b) with x in H2 end;
    bcases; dlia.
Qed.

Lemma fold_min_ge l a : a <= 0 -> Forall (fun v => a <= v) l -> a <= fold_right Z.min 0 l.
Proof. intros Ha H. induction H; cbn [fold_right]; lia. Qed.

Lemma fold_max_lt l b : 0 < b -> Forall (fun v => v < b) l -> fold_right Z.max 0 l < b.
Proof. intros Hb H. induction H; cbn [fold_right]; lia. Qed.

Lemma consts_range cs : Forall const_ok cs -> Forall (fun v => - 2 ^ 63 <= v < 2 ^ 64) (map cval cs).
Proof.
  intros H. induction H as [|c cs (Hu & _ & _) _ IH]; cbn [map]; constructor; [|assumption].
  unfold cval. apply mval_range. assumption.
Qed.

(* enum_type_spec: when the enumerator loop of tagspec accepts an enum without fixed underlying type,
   the enumerators have the values the language defines (initializer, or predecessor plus one), the
   underlying type is the one the ABI rule selects from the least and greatest value, every value is
   representable in it, and the enumerators end up with type int (all values fit int) or the enum type. *)
Theorem enum_type_spec es b cs :
  Forall wf_einput es -> enum_type None es = Ok (b, cs) ->
  exists allint, spec_enum None es = Some (b, allint, map cval cs) /\
    Forall (fun c => in_range b (cval c) = true) cs /\
    Forall (fun c => snd c = if allint then tint else mkI self_id (i_size b) (i_signed b)) cs.
Proof.
  intros Hwf H. unfold enum_type in H.
  destruct (enum_steps false (einit None) es) as [st|] eqn:Hs; [|discriminate].
  pose proof (steps_inv es _ [] st (-1) EInv_init Hwf Hs (fun _ => eq_refl) ltac:(congruence)) as I.
  cbn [app] in I. set (vs := spec_enum_values (-1) es) in *.
  destruct I as [Ivals Imin Imax Iok Iint _ _].
  pose proof (consts_range _ Iok) as Hrng. rewrite Ivals in Hrng.
  assert (Hlo : - 2 ^ 63 <= fold_right Z.min 0 vs).
  { apply fold_min_ge; [change (2 ^ 63) with 9223372036854775808; lia|]. eapply Forall_impl; [|exact Hrng]. cbn. lia. }
  assert (Hhi : fold_right Z.max 0 vs < 2 ^ 64).
  { apply fold_max_lt; [reflexivity|]. eapply Forall_impl; [|exact Hrng]. cbn. lia. }
  pose proof (fold_min_le vs) as Hlo0. pose proof (fold_max_ge vs) as Hhi0.
  change (2 ^ 63) with 9223372036854775808 in *. change (2 ^ 64) with 18446744073709551616 in *.
  set (lo := fold_right Z.min 0 vs) in *. set (hi := fold_right Z.max 0 vs) in *.
  assert (Hin : forall c, In c (e_consts st) -> lo <= cval c <= hi).
  { intros c Hc. apply fold_bounds. rewrite <- Ivals. apply in_map. assumption. }
  unfold enum_finish in H. unfold spec_enum, spec_enum_base. fold vs. fold lo. fold hi.
  rewrite Imin, Imax in H.
  destruct ((- lo <=? 2147483648) && (hi <=? 2147483647)) eqn:Hint.
  - (* every value fits int *)
    injection H as <- <-. apply andb_true_iff in Hint. destruct Hint as [H1 H2]. apply Z.leb_le in H1, H2.
    replace ((-2147483648 <=? lo) && (hi <=? 2147483647)) with true
      by (symmetry; apply andb_true_iff; split; apply Z.leb_le; lia).
    exists true. rewrite Ivals. split; [|split].
    + f_equal. f_equal. f_equal. destruct (Z.eqb_spec (- lo) 0); destruct (Z.ltb_spec lo 0); try reflexivity; lia.
    + rewrite Forall_forall. intros c Hc. specialize (Hin c Hc).
      unfold in_range, imin, imax.
      destruct (Z.eqb_spec (- lo) 0); cbn [i_size i_signed tint tuint];
        change (2 ^ (8 * 4 - 1)) with 2147483648; change (2 ^ (8 * 4)) with 4294967296;
        apply andb_true_iff; split; apply Z.leb_le; lia.
    + destruct Iint as [Hall|(c & Hc & Hnf)]; [assumption|exfalso].
      specialize (Hin c Hc). unfold in_range, imin, imax in Hnf. cbn [i_size i_signed tint] in Hnf.
      change (2 ^ (8 * 4 - 1)) with 2147483648 in Hnf.
      apply andb_false_iff in Hnf. destruct Hnf as [Hnf|Hnf]; apply Z.leb_gt in Hnf; lia.
  - (* a value outside int *)
    replace ((-2147483648 <=? lo) && (hi <=? 2147483647)) with false.
    2:{ symmetry. apply andb_false_iff in Hint. apply andb_false_iff.
        destruct Hint as [Hi|Hi]; apply Z.leb_gt in Hi; [left|right]; apply Z.leb_gt; lia. }
    replace (0 <? - lo) with (lo <? 0) in H by (destruct (Z.ltb_spec lo 0); destruct (Z.ltb_spec 0 (- lo)); try reflexivity; lia).
    assert (Hext : forall t, In t (ladder (lo <? 0)) ->
              (typehasint t hi false && typehasint t (w64 (- - lo)) true) = (in_range t lo && in_range t hi)).
    { intros t Ht. apply ladder_valid in Ht. destruct Ht as (Hv & _ & _).
      rewrite !typehasint_spec; auto; try (unfold W64; lia).
      2:{ apply Z.mod_pos_bound. reflexivity. }
      rewrite andb_comm. f_equal. f_equal. unfold mval, w64, P63, W64. cbn [andb]. bcases; dlia. }
    rewrite (first_fit_ext _ _ _ Hext) in H.
    destruct (first_fit (fun t => in_range t lo && in_range t hi) (ladder (lo <? 0))) as [et|] eqn:Hff; [|discriminate].
    injection H as <- <-.
    apply first_fit_some in Hff. destruct Hff as (Hil & Hp). apply ladder_valid in Hil. destruct Hil as (Hv & _ & _).
    apply andb_true_iff in Hp. destruct Hp as [Hplo Hphi].
    assert (Hpres : forall c, In c (e_consts st) ->
              cval (fst c, mkI self_id (i_size et) (i_signed et)) = cval c /\ in_range et (cval c) = true).
    { intros c Hc. specialize (Hin c Hc). rewrite Forall_forall in Iok. destruct (Iok c Hc) as (Hu & _ & _).
      pose proof (in_range_between et lo hi (cval c) Hplo Hphi Hin) as Hr. split; [|assumption].
      unfold cval at 1. cbn [fst snd i_signed].
      rewrite <- (w64_mval (i_signed (snd c)) (fst c) Hu). fold (cval c).
      apply (mval_w64_in_range et); assumption. }
    exists false. split; [|split].
    + f_equal. f_equal. rewrite map_map. rewrite <- Ivals. apply map_ext_in. intros c Hc. destruct (Hpres c Hc) as (E & _). symmetry. exact E.
    + rewrite Forall_forall. intros c' Hc'. apply in_map_iff in Hc'. destruct Hc' as (c & <- & Hc).
      destruct (Hpres c Hc) as (E & R). rewrite E. assumption.
    + rewrite Forall_forall. intros c' Hc'. apply in_map_iff in Hc'. destruct Hc' as (c & <- & Hc). reflexivity.
Qed.

(* Non-vacuity / examples: enum { A = 0x7fffffff, B, C }, enum { A = -1, B = 0x80000000u } and an int-range enum *)
Lemma wf_explicit u ty : 0 <= u < W64 -> valid_itype ty -> in_range ty (mval (i_signed ty) u) = true -> wf_einput (Some (u, ty)).
Proof. intros. cbn. auto. Qed.

Example enum_examples :
  enum_type None [Some (2147483647, tint); None; None]
    = Ok (tuint, [(2147483647, mkI 100 4 false); (2147483648, mkI 100 4 false); (2147483649, mkI 100 4 false)]) /\
  enum_type None [Some (M1, tint); Some (2147483648, tuint)]
    = Ok (tlong, [(M1, mkI 100 8 true); (2147483648, mkI 100 8 true)]) /\
  enum_type None [None; Some (M1, tint); None] = Ok (tint, [(0, tint); (M1, tint); (0, tint)]) /\
  Forall wf_einput [Some (2147483647, tint); None; None; Some (M1, tint); Some (2147483648, tuint)].
Proof.
  split; [vm_compute; reflexivity|]. split; [vm_compute; reflexivity|]. split; [vm_compute; reflexivity|].
  assert (V4 : forall i g, valid_itype (mkI i 4 g)) by (intros; right; right; left; reflexivity).
  constructor; [apply wf_explicit; [unfold W64; lia|apply V4|vm_compute; reflexivity]|].
  constructor; [exact I|]. constructor; [exact I|].
  constructor; [apply wf_explicit; [unfold W64, M1; lia|apply V4|vm_compute; reflexivity]|].
  constructor; [apply wf_explicit; [unfold W64; lia|apply V4|vm_compute; reflexivity]|].
  constructor.
Qed.

(* ------------------------------------------------------------------ fixed underlying type (N3030) *)
Lemma next_value up sg :
  0 <= up < W64 ->
  ((w64 (up + 1) =? 0) && negb sg) || ((w64 (up + 1) =? P63) && sg) = false ->
  mval sg (w64 (up + 1)) = mval sg up + 1.
Proof.
  intros Hup Hov. apply orb_false_iff in Hov. destruct Hov as [H1 H2].
  unfold mval, w64, P63, W64 in *.
  destruct sg; cbn [andb negb] in *; rewrite ?andb_true_r, ?andb_false_r in *;
    try apply Z.eqb_neq in H1; try apply Z.eqb_neq in H2; bcases; dlia.
Qed.

Definition selfty (base : itype) : itype := mkI self_id (i_size base) (i_signed base).

Lemma in_range_self base v : in_range (selfty base) v = in_range base v.
Proof. reflexivity. Qed.

Record FInv (base : itype) (st : estate) (vs : list Z) : Prop := mkFInv {
  FI_vals : map cval (e_consts st) = vs;
  FI_et : e_et st = selfty base;
  FI_ok : Forall (fun c => snd c = selfty base /\ 0 <= fst c < W64 /\ in_range base (cval c) = true) (e_consts st);
  FI_last : e_first st = false -> e_consts st <> [] /\ last (e_consts st) (0, tint) = (e_value st, e_et st);
  FI_first : e_first st = true -> e_consts st = []
}.

Lemma frecord_inv base st vs u v :
  valid_itype base -> FInv base st vs -> 0 <= u < W64 -> v = mval (i_signed base) u -> in_range base v = true ->
  FInv base (enum_record st u (selfty base)) (vs ++ [v]).
Proof.
  intros Hb [Ivals Iet Iok Ilast Ifirst] Hu Hv Hr. unfold enum_record.
  assert (Hc : cval (u, selfty base) = v) by (unfold cval; cbn; congruence).
  destruct (i_signed (selfty base) && (P63 <=? u)); constructor; cbn [e_consts e_first e_value e_et]; auto.
  all: try (rewrite map_app, Ivals; cbn [map]; rewrite Hc; reflexivity).
  all: try (apply Forall_app; split; [assumption|constructor; [|constructor]]; cbn [fst snd]; rewrite Hc; auto).
  all: try discriminate.
  all: try (intros _; split; [destruct (e_consts st); discriminate|apply last_last]).
Qed.

Lemma fstep_inv base st vs e st' :
  valid_itype base -> FInv base st vs -> wf_einput e -> enum_step true st e = Ok st' ->
  FInv base st' (vs ++ [match e with Some (u, ty) => mval (i_signed ty) u | None => last vs (-1) + 1 end]).
Proof.
  intros Hb I Hwf H. pose proof I as [Ivals Iet Iok Ilast Ifirst]. unfold enum_step in H.
  assert (Hsv : valid_itype (selfty base)) by exact Hb.
  destruct e as [[u ty]|].
  - cbn [negb] in H. destruct Hwf as (Hu & Hvt & Hr). rewrite Iet in H.
    destruct (typehasint (selfty base) u (i_signed ty)) eqn:Ht; cbn [negb] in H; [|discriminate].
    injection H as <-. rewrite typehasint_spec in Ht by assumption. rewrite in_range_self in Ht.
    apply frecord_inv; auto.
    rewrite <- (w64_mval (i_signed ty) u Hu) at 2. symmetry. apply mval_w64_in_range; assumption.
  - rewrite Iet in H. cbn [i_signed selfty] in H.
    destruct (e_first st) eqn:Hf.
    + cbn [negb andb orb] in H.
      assert (Hvs : vs = []) by (rewrite <- Ivals, (Ifirst eq_refl); reflexivity). rewrite Hvs in *. cbn [last].
      replace ((0 =? P63) && i_signed base) with false in H by (destruct (i_signed base); reflexivity).
      assert (Hz : typehasint (selfty base) 0 (i_signed base) = true).
      { rewrite typehasint_spec by (auto; unfold W64; lia). rewrite in_range_self.
        unfold mval, P63. replace (i_signed base && (9223372036854775808 <=? 0)) with false by (destruct (i_signed base); reflexivity).
        destruct base as [i s g]. unfold valid_itype in Hb. cbn [i_size] in Hb. unfold in_range, imin, imax. cbn [i_size i_signed].
        destruct Hb as [->|[->|[->| ->]]]; destruct g; evalconsts; reflexivity. }
      rewrite Hz in H. cbn [negb] in H. injection H as <-.
      change (-1 + 1) with 0.
      apply frecord_inv; auto; try (unfold W64; lia).
      * unfold mval, P63. destruct (i_signed base); reflexivity.
      * rewrite typehasint_spec in Hz by (auto; unfold W64; lia). rewrite in_range_self in Hz.
        unfold mval, P63 in Hz. destruct (i_signed base); exact Hz.
    + destruct (Ilast eq_refl) as (Hne & Hlast). cbn [negb andb] in H.
      set (up := e_value st) in *.
      assert (Hin : In (up, selfty base) (e_consts st)).
      { rewrite <- Iet, <- Hlast. destruct (e_consts st) as [|c0 cs0]; [congruence|].
        destruct (exists_last (l := c0 :: cs0) ltac:(discriminate)) as (l' & a & E). rewrite E, last_last.
        apply in_or_app. right. left. reflexivity. }
      rewrite Forall_forall in Iok. destruct (Iok _ Hin) as (_ & Hup & Hrp). cbn [fst snd] in *.
      assert (Hlv : last vs (-1) = cval (up, selfty base)).
      { rewrite <- Ivals. rewrite (last_map_cval _ (0, tint)) by assumption. rewrite Hlast, Iet. reflexivity. }
      rewrite Hlv. unfold cval; cbn [fst snd i_signed selfty].
      destruct (((w64 (up + 1) =? 0) && negb (i_signed base)) || ((w64 (up + 1) =? P63) && i_signed base)) eqn:Hov; [discriminate|].
      pose proof (next_value up (i_signed base) Hup Hov) as Hv.
      assert (Hval : 0 <= w64 (up + 1) < W64) by (apply Z.mod_pos_bound; unfold W64; lia).
      destruct (typehasint (selfty base) (w64 (up + 1)) (i_signed base)) eqn:Hth; cbn [negb] in H; [|discriminate].
      injection H as <-. rewrite typehasint_spec in Hth by assumption. rewrite in_range_self, Hv in Hth.
      apply frecord_inv; auto.
Qed.

Lemma fsteps_inv base es : forall st vs st' prev,
  valid_itype base -> FInv base st vs -> Forall wf_einput es -> enum_steps true st es = Ok st' ->
  (vs = [] -> prev = -1) -> (vs <> [] -> prev = last vs (-1)) ->
  FInv base st' (vs ++ spec_enum_values prev es).
Proof.
  induction es as [|e es IH]; intros st vs st' prev Hb I Hwf H Hp1 Hp2; cbn [enum_steps spec_enum_values] in *.
  - injection H as <-. rewrite app_nil_r. assumption.
  - destruct (enum_step true st e) as [st1|] eqn:H1; [|discriminate].
    inversion Hwf as [|? ? Hw1 Hw2]; subst.
    pose proof (fstep_inv _ _ _ _ _ Hb I Hw1 H1) as I1.
    assert (Hprev : last vs (-1) = prev).
    { destruct vs; [cbn; symmetry; apply Hp1; reflexivity|symmetry; apply Hp2; discriminate]. }
    rewrite Hprev in I1.
    destruct e as [[u ty]|].
    + replace (vs ++ mval (i_signed ty) u :: spec_enum_values (mval (i_signed ty) u) es)
        with ((vs ++ [mval (i_signed ty) u]) ++ spec_enum_values (mval (i_signed ty) u) es) by (rewrite <- app_assoc; reflexivity).
      eapply IH; eauto.
      * intros E. destruct vs; discriminate.
      * intros _. rewrite last_last. reflexivity.
    + replace (vs ++ (prev + 1) :: spec_enum_values (prev + 1) es)
        with ((vs ++ [prev + 1]) ++ spec_enum_values (prev + 1) es) by (rewrite <- app_assoc; reflexivity).
      eapply IH; eauto.
      * intros E. destruct vs; discriminate.
      * intros _. rewrite last_last. reflexivity.
Qed.

(* an accepted enum with fixed underlying type: the values are the specified ones, all lie in the
   fixed type, every enumerator has the enumerated type *)
Theorem enum_fixed_spec base es b cs :
  valid_itype base -> Forall wf_einput es -> enum_type (Some base) es = Ok (b, cs) ->
  b = base /\ spec_enum (Some base) es = Some (base, false, map cval cs) /\
  Forall (fun c => snd c = selfty base) cs.
Proof.
  intros Hb Hwf H. unfold enum_type in H.
  destruct (enum_steps true (einit (Some base)) es) as [st|] eqn:Hs; [|discriminate].
  assert (I0 : FInv base (einit (Some base)) []).
  { constructor; cbn; auto; try discriminate. }
  pose proof (fsteps_inv base es _ [] st (-1) Hb I0 Hwf Hs (fun _ => eq_refl) ltac:(congruence)) as I.
  cbn [app] in I. destruct I as [Ivals _ Iok _ _].
  cbn [enum_finish] in H. injection H as <- <-. split; [reflexivity|]. split.
  - unfold spec_enum. rewrite <- Ivals.
    replace (forallb (in_range base) (map cval (e_consts st))) with true; [reflexivity|].
    symmetry. apply forallb_forall. intros v Hv. apply in_map_iff in Hv. destruct Hv as (c & <- & Hc).
    rewrite Forall_forall in Iok. apply (Iok c Hc).
  - eapply Forall_impl; [|exact Iok]. cbn. tauto.
Qed.

Example enum_fixed_examples :
  enum_type (Some tuint) [None; None] = Ok (tuint, [(0, mkI 100 4 false); (1, mkI 100 4 false)]) /\
  enum_type (Some (mkI 3 1 false)) [Some (255, tint); None] = Err EEnumFixedRange /\
  enum_type (Some tullong) [Some (M1, tullong); None] = Err EEnumNoType.
Proof. vm_compute. repeat split. Qed.
