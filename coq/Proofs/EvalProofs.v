(* Proofs/EvalProofs.v - eval.c's cast/unary/binary compute, for every integer type and all operand
   values, the value CArith prescribes, in its canonical 64-bit representation. *)
From Coq Require Import ZArith Lia Bool List.
From Cproc Require Import Lib.Wrap Spec.CArith Model.EvalFloat Model.Eval.
Local Open Scope Z_scope.

(* canonical carrier of the mathematical integer v in type k: sign- or zero-extended to 64 bits *)
Definition repr (k : ity) (v : Z) : Z :=
  (if isigned k then sext (width k) v else wrap (width k) v) mod 2 ^ 64.
(* the mathematical integer a carrier denotes at type k *)
Definition val (k : ity) (c : Z) : Z := if isigned k then i64 c else c.

Lemma M64_eq : M64 = 2 ^ 64. Proof. reflexivity. Qed.
Lemma H64_eq : H64 = 2 ^ 63. Proof. reflexivity. Qed.

Lemma wf_width k : wf_ity k -> 8 <= width k <= 64 /\ 0 < width k.
Proof. unfold wf_ity, width. lia. Qed.

Lemma pow_w_le_64 w : 0 <= w <= 64 -> 0 < 2 ^ w <= 2 ^ 64.
Proof. intros. split; [apply pow2_pos; lia|apply pow2_le_mono; lia]. Qed.

Lemma pow_w1_le_63 w : 1 <= w <= 64 -> 0 < 2 ^ (w - 1) <= 2 ^ 63.
Proof. intros. split; [apply pow2_pos; lia|apply pow2_le_mono; lia]. Qed.

Lemma wrap_u64 n x : 0 <= n <= 64 -> wrap n (x mod 2 ^ 64) = wrap n x.
Proof. intros. apply (wrap_wrap_le n 64 x). lia. Qed.

Section WithFloatOps.
Variable F : fops.

(* ---------- cast ---------- *)
Lemma cast_int_spec size sg u : 1 <= size <= 8 -> cast_int size sg u = repr (mk_ity size sg) u.
Proof.
  intros Hs. unfold cast_int, repr, width. cbn [isize isigned]. rewrite M64_eq.
  replace (64 - size * 8) with (64 - 8 * size) by lia.
  rewrite shiftr_ones_64 by lia.
  replace (size * 8 - 1) with (8 * size - 1) by lia.
  rewrite Z.shiftl_1_l.
  destruct sg.
  - rewrite xor_sub_sext by lia. reflexivity.
  - rewrite land_mask by lia. unfold wrap.
    symmetry. apply Z.mod_small.
    pose proof (Z.mod_pos_bound u (2 ^ (8 * size)) ltac:(apply pow2_pos; lia)).
    pose proof (pow_w_le_64 (8 * size) ltac:(lia)). lia.
Qed.

Theorem cast_wrap k c : wf_ity k -> cast F (TInt k) c = repr k c.
Proof. intros H. destruct k as [s g]. apply cast_int_spec. exact H. Qed.

Lemma cast_bool_repr c : cast F TBool c = repr t_bool c.
Proof. apply cast_int_spec. lia. Qed.

(* ---------- repr / val ---------- *)
Lemma repr_congr k a b : wf_ity k -> wrap (width k) a = wrap (width k) b -> repr k a = repr k b.
Proof.
  intros Hk E. pose proof (wf_width k Hk). unfold repr. destruct (isigned k).
  - rewrite (sext_congr (width k) a b) by (lia || assumption). reflexivity.
  - rewrite E. reflexivity.
Qed.

Lemma repr_wrap k v : wf_ity k -> wrap (width k) (repr k v) = wrap (width k) v.
Proof.
  intros Hk. pose proof (wf_width k Hk). unfold repr. rewrite wrap_u64 by lia.
  destruct (isigned k); [apply sext_wrap; lia|apply wrap_wrap; lia].
Qed.

Lemma repr_range k v : 0 <= repr k v < 2 ^ 64.
Proof. unfold repr. apply Z.mod_pos_bound. reflexivity. Qed.

Lemma repr_idem k a : wf_ity k -> repr k (repr k a) = repr k a.
Proof. intros. apply repr_congr; [assumption|apply repr_wrap; assumption]. Qed.

Lemma repr_u64 k a : wf_ity k -> repr k (a mod 2 ^ 64) = repr k a.
Proof. intros Hk. pose proof (wf_width k Hk). apply repr_congr; [assumption|apply wrap_u64; lia]. Qed.

Lemma in_range_signed k v : wf_ity k -> isigned k = true -> in_range k v ->
  - 2 ^ (width k - 1) <= v < 2 ^ (width k - 1) /\ - 2 ^ 63 <= v < 2 ^ 63.
Proof.
  intros Hk Hs [A B]. unfold tmin, tmax in *. rewrite Hs in *.
  pose proof (wf_width k Hk). pose proof (pow_w1_le_63 (width k) ltac:(lia)). lia.
Qed.

Lemma in_range_unsigned k v : wf_ity k -> isigned k = false -> in_range k v ->
  0 <= v < 2 ^ width k /\ 0 <= v < 2 ^ 64.
Proof.
  intros Hk Hs [A B]. unfold tmin, tmax in *. rewrite Hs in *.
  pose proof (wf_width k Hk). pose proof (pow_w_le_64 (width k) ltac:(lia)). lia.
Qed.

Lemma in_rangeb_spec k v : in_rangeb k v = true <-> in_range k v.
Proof. unfold in_rangeb, in_range. rewrite andb_true_iff, !Z.leb_le. reflexivity. Qed.

Lemma repr_signed k v : wf_ity k -> isigned k = true -> in_range k v -> repr k v = v mod 2 ^ 64.
Proof.
  intros Hk Hs Hr. destruct (in_range_signed k v Hk Hs Hr) as [A _]. pose proof (wf_width k Hk).
  unfold repr. rewrite Hs, sext_id by lia. reflexivity.
Qed.

Lemma repr_unsigned k v : wf_ity k -> isigned k = false -> in_range k v -> repr k v = v.
Proof.
  intros Hk Hs Hr. destruct (in_range_unsigned k v Hk Hs Hr) as [A B].
  unfold repr. rewrite Hs, wrap_id by lia. apply Z.mod_small. lia.
Qed.

Lemma i64_u64 v : - 2 ^ 63 <= v < 2 ^ 63 -> i64 (v mod 2 ^ 64) = v.
Proof.
  intros H. unfold i64. rewrite M64_eq, H64_eq.
  assert (E : 2 ^ 64 = 2 * 2 ^ 63) by reflexivity.
  destruct (Z_lt_le_dec v 0).
  - replace (v mod 2 ^ 64) with (v + 2 ^ 64) by (apply Z.mod_unique with (-1); lia).
    destruct (Z.ltb_spec (v + 2 ^ 64) (2 ^ 63)); lia.
  - rewrite Z.mod_small by lia. destruct (Z.ltb_spec v (2 ^ 63)); lia.
Qed.

Lemma u64_i64 c : 0 <= c < 2 ^ 64 -> (i64 c) mod 2 ^ 64 = c.
Proof.
  intros H. unfold i64. rewrite M64_eq, H64_eq. destruct (Z.ltb_spec c (2 ^ 63)).
  - apply Z.mod_small. lia.
  - symmetry. apply Z.mod_unique with (-1); lia.
Qed.

Lemma i64_mod64 c : (i64 c) mod 2 ^ 64 = c mod 2 ^ 64.
Proof.
  unfold i64. rewrite M64_eq. destruct (c <? H64); [reflexivity|].
  replace (c - 2 ^ 64) with (c + (-1) * 2 ^ 64) by lia. apply Z.mod_add. lia.
Qed.

Theorem val_repr k v : wf_ity k -> in_range k v -> val k (repr k v) = v.
Proof.
  intros Hk Hr. unfold val. destruct (isigned k) eqn:Hs.
  - rewrite repr_signed by assumption. apply i64_u64. apply (in_range_signed k v Hk Hs Hr).
  - apply repr_unsigned; assumption.
Qed.

(* any in-range value and its carrier agree modulo 2^64, hence modulo every narrower width *)
Lemma repr_mod64 k v : wf_ity k -> in_range k v -> (repr k v) mod 2 ^ 64 = v mod 2 ^ 64.
Proof.
  intros Hk Hr. destruct (isigned k) eqn:Hs.
  - rewrite repr_signed by assumption. apply Z.mod_mod. lia.
  - rewrite repr_unsigned by assumption. reflexivity.
Qed.

Lemma repr_wrap_any k v n : wf_ity k -> in_range k v -> 0 <= n <= 64 -> wrap n (repr k v) = wrap n v.
Proof.
  intros Hk Hr Hn. rewrite <- (wrap_u64 n (repr k v)), <- (wrap_u64 n v) by lia.
  rewrite repr_mod64 by assumption. reflexivity.
Qed.

Lemma repr_zero_iff k v : wf_ity k -> in_range k v -> (repr k v =? 0) = (v =? 0).
Proof.
  intros Hk Hr. destruct (Z.eqb_spec v 0) as [->|N].
  - replace (repr k 0) with 0; [reflexivity|]. unfold repr, sext, wrap.
    pose proof (wf_width k Hk). rewrite Z.mod_0_l by (pose proof (pow2_pos (width k)); lia).
    destruct (isigned k); [|reflexivity]. cbv zeta.
    destruct (Z.ltb_spec 0 (2 ^ (width k - 1))); [reflexivity|].
    pose proof (pow2_pos (width k - 1)). lia.
  - apply Z.eqb_neq. intros E. apply N. rewrite <- (val_repr k v Hk Hr), E.
    unfold val, i64. destruct (isigned k); reflexivity.
Qed.

Lemma repr_small k r : wf_ity k -> in_range k r -> 0 <= r -> repr k r = r.
Proof.
  intros Hk Hr H0. destruct (isigned k) eqn:Hs.
  - rewrite repr_signed by assumption. apply Z.mod_small.
    pose proof (in_range_signed k r Hk Hs Hr). lia.
  - apply repr_unsigned; assumption.
Qed.

(* a carrier that passes the canonicity test is the representation of its value *)
Lemma canonical_repr k c : wf_ity k -> 0 <= c < 2 ^ 64 -> in_range k (val k c) -> repr k (val k c) = c.
Proof.
  intros Hk Hc Hr. destruct (isigned k) eqn:Hs.
  - rewrite repr_signed by assumption. unfold val. rewrite Hs. apply u64_i64. assumption.
  - rewrite repr_unsigned by assumption. unfold val. rewrite Hs. reflexivity.
Qed.

(* ---------- congruences modulo 2^n ---------- *)
Lemma wrap_add_congr n a a' b b' : 0 <= n -> wrap n a = wrap n a' -> wrap n b = wrap n b' ->
  wrap n (a + b) = wrap n (a' + b').
Proof.
  unfold wrap. intros Hn E1 E2. pose proof (pow2_pos n Hn).
  rewrite (Z.add_mod a b), (Z.add_mod a' b'), E1, E2 by lia. reflexivity.
Qed.
Lemma wrap_sub_congr n a a' b b' : 0 <= n -> wrap n a = wrap n a' -> wrap n b = wrap n b' ->
  wrap n (a - b) = wrap n (a' - b').
Proof.
  unfold wrap. intros Hn E1 E2. pose proof (pow2_pos n Hn).
  rewrite (Zminus_mod a b), (Zminus_mod a' b'), E1, E2. reflexivity.
Qed.
Lemma wrap_mul_congr n a a' b b' : 0 <= n -> wrap n a = wrap n a' -> wrap n b = wrap n b' ->
  wrap n (a * b) = wrap n (a' * b').
Proof.
  unfold wrap. intros Hn E1 E2. pose proof (pow2_pos n Hn).
  rewrite (Z.mul_mod a b), (Z.mul_mod a' b'), E1, E2 by lia. reflexivity.
Qed.
Lemma wrap_opp_congr n a a' : 0 <= n -> wrap n a = wrap n a' -> wrap n (- a) = wrap n (- a').
Proof.
  intros Hn E. replace (- a) with (0 - a) by lia. replace (- a') with (0 - a') by lia.
  apply wrap_sub_congr; auto.
Qed.

Lemma arith_result_inv k x v : wf_ity k -> arith_result k x = Some v ->
  wrap (width k) v = wrap (width k) x /\ in_range k v.
Proof.
  intros Hk. unfold arith_result. pose proof (wf_width k Hk). destruct (isigned k) eqn:Hs.
  - destruct (in_rangeb k x) eqn:E; [|discriminate]. intros [= <-]. split; [reflexivity|].
    apply in_rangeb_spec; assumption.
  - intros [= <-]. split.
    + apply (wrap_wrap (width k) x). lia.
    + unfold in_range, tmin, tmax. rewrite Hs.
      pose proof (Z.mod_pos_bound x (2 ^ width k) ltac:(apply pow2_pos; lia)). lia.
Qed.

Lemma land_63 r : 0 <= r < 64 -> Z.land r 63 = r.
Proof. intros. change 63 with (Z.ones 6). rewrite Z.land_ones by lia. apply Z.mod_small. change (2 ^ 6) with 64. lia. Qed.

Theorem shift_count_bound r : 0 <= Z.land r 63 < 64.
Proof. change 63 with (Z.ones 6). rewrite Z.land_ones by lia. change (2 ^ 6) with 64. apply Z.mod_pos_bound. lia. Qed.

(* ---------- binary ---------- *)
Definition bop_of (op : binop) : bop :=
  match op with
  | Mul => OMul | Div => ODiv | Mod => OMod | Add => OAdd | Sub => OSub | Shl => OShl | Shr => OShr
  | Band => OBand | Bor => OBor | Xor => OXor
  | CLt => OLess | CGt => OGreater | CLe => OLeq | CGe => OGeq | CEq => OEql | CNe => ONeq
  end.
Definition is_shift (op : binop) : bool := match op with Shl | Shr => true | _ => false end.

Lemma tag_int k : tag_of (TInt k) = if isigned k then TagS else TagU.
Proof. unfold tag_of, is_float, is_int, is_signed, int_of. destruct (isigned k); reflexivity. Qed.

Lemma binary_val op k k' cl cr c : wf_ity k' ->
  binary_raw F op (tag_of (TInt k)) cl cr = Val c ->
  binary F op (TInt k) (TInt k') cl cr = Val (repr k' c).
Proof. intros Hk' E. unfold binary. rewrite E, cast_wrap by assumption. reflexivity. Qed.

Lemma wf_t_int : wf_ity t_int. Proof. unfold wf_ity, t_int; cbn; lia. Qed.

Lemma repr_b2z b : repr t_int (b2z b) = b2z b.
Proof. destruct b; reflexivity. Qed.
Lemma in_range_b2z b : in_range t_int (b2z b).
Proof. destruct b; unfold in_range, tmin, tmax, t_int, width; cbn; lia. Qed.

(* carriers of in-range values *)
Lemma carrier_facts k v : wf_ity k -> in_range k v ->
  wrap (width k) (repr k v) = wrap (width k) v /\
  (isigned k = true -> i64 (repr k v) = v /\ - 2 ^ 63 <= v < 2 ^ 63 /\ - 2 ^ (width k - 1) <= v < 2 ^ (width k - 1)) /\
  (isigned k = false -> repr k v = v /\ 0 <= v < 2 ^ width k).
Proof.
  intros Hk Hr. split; [apply repr_wrap; assumption|]. split; intros Hs.
  - pose proof (in_range_signed k v Hk Hs Hr) as [A B]. split; [|split; assumption].
    pose proof (val_repr k v Hk Hr) as V. unfold val in V. rewrite Hs in V. exact V.
  - split; [apply repr_unsigned; assumption|apply (in_range_unsigned k v Hk Hs Hr)].
Qed.

Lemma repr_eqb k l r : wf_ity k -> in_range k l -> in_range k r -> (repr k l =? repr k r) = (l =? r).
Proof.
  intros Hk Hl Hr. destruct (Z.eqb_spec l r) as [->|N]; [apply Z.eqb_refl|].
  apply Z.eqb_neq. intros E. apply N.
  rewrite <- (val_repr k l Hk Hl), <- (val_repr k r Hk Hr), E. reflexivity.
Qed.

Lemma tmax_lt_pow k : wf_ity k -> isigned k = true -> tmax k = 2 ^ (width k - 1) - 1.
Proof. intros _ Hs. unfold tmax. rewrite Hs. reflexivity. Qed.

(* floor division by a power of two stays inside a symmetric-ish range *)
Lemma div_pow2_range lo hi x p : lo <= 0 -> 0 <= hi -> lo <= x <= hi -> 0 < p -> lo <= x / p <= hi.
Proof.
  intros Hlo Hhi Hx Hp. pose proof (Z.div_mod x p ltac:(lia)). pose proof (Z.mod_pos_bound x p Hp).
  destruct (Z_lt_le_dec x 0); nia.
Qed.

Theorem fold_correct op k kr l r v :
  wf_ity k -> wf_ity kr -> in_range k l -> in_range kr r ->
  (is_shift op = false -> kr = k) ->
  binop_spec op k l r = Some v ->
  binary F (bop_of op) (TInt k) (TInt (binop_type op k)) (repr k l) (repr kr r) = Val (repr (binop_type op k) v)
  /\ in_range (binop_type op k) v.
Proof.
  intros Hk Hkr Hl Hr Hsame Hspec.
  pose proof (wf_width k Hk) as [Hw Hw0].
  destruct (carrier_facts k l Hk Hl) as (Wl & Sl & Ul).
  assert (Hk' : wf_ity (binop_type op k)).
  { unfold binop_type. destruct (is_cmp op); [apply wf_t_int|assumption]. }
  (* the comparisons *)
  assert (CMP : forall b b', is_cmp op = true -> kr = k ->
            binary_raw F (bop_of op) (tag_of (TInt k)) (repr k l) (repr kr r) = Val (b2z b) -> b = b' -> v = b2z b' ->
            binary F (bop_of op) (TInt k) (TInt (binop_type op k)) (repr k l) (repr kr r) = Val (repr (binop_type op k) v)
            /\ in_range (binop_type op k) v).
  { intros b b' Hc -> E -> ->. unfold binop_type. rewrite Hc. split; [|apply in_range_b2z].
    erewrite binary_val; [|apply wf_t_int|exact E]. reflexivity. }
  (* the arithmetic operators whose raw result is congruent to the mathematical one *)
  assert (ARI : forall c, is_cmp op = false ->
            binary_raw F (bop_of op) (tag_of (TInt k)) (repr k l) (repr kr r) = Val c ->
            wrap (width k) c = wrap (width k) v -> in_range k v ->
            binary F (bop_of op) (TInt k) (TInt (binop_type op k)) (repr k l) (repr kr r) = Val (repr (binop_type op k) v)
            /\ in_range (binop_type op k) v).
  { intros c Hc E W R. unfold binop_type in *. rewrite Hc in *. split; [|exact R].
    erewrite binary_val; [|assumption|exact E]. f_equal. apply repr_congr; assumption. }
  rewrite tag_int in CMP, ARI.
  destruct op; cbn [bop_of binop_spec is_shift is_cmp] in *;
    try (specialize (Hsame eq_refl); subst kr;
         destruct (carrier_facts k r Hk Hr) as (Wr & Sr & Ur)).
  - (* Mul *)
    destruct (arith_result_inv _ _ _ Hk Hspec) as [W R].
    apply (ARI ((repr k l * repr k r) mod M64)); auto.
    + destruct (isigned k); reflexivity.
    + rewrite M64_eq, wrap_u64, W by lia. apply wrap_mul_congr; auto; lia.
  - (* Div *)
    destruct (Z.eqb_spec r 0) as [|Nr]; [discriminate|].
    destruct (arith_result_inv _ _ _ Hk Hspec) as [W R].
    destruct (isigned k) eqn:Hs.
    + destruct (Sl eq_refl) as (Il & Bl & Bl'). destruct (Sr eq_refl) as (Ir & Br & Br').
      apply (ARI (of_i64 (Z.quot l r))); auto.
      * cbn [binary_raw]. rewrite (repr_zero_iff k r Hk Hr). destruct (Z.eqb_spec r 0); [contradiction|].
        rewrite Il, Ir. destruct ((l =? - H64) && (r =? -1)) eqn:G; [|reflexivity].
        exfalso. apply andb_true_iff in G. destruct G as [G1 G2]. apply Z.eqb_eq in G1, G2. subst l r.
        rewrite H64_eq in *. unfold arith_result in Hspec. rewrite Hs in Hspec.
        destruct (in_rangeb k (Z.quot (- 2 ^ 63) (-1))) eqn:E; [|discriminate].
        apply in_rangeb_spec in E. unfold in_range, tmax in E. rewrite Hs in E.
        change (Z.quot (- 2 ^ 63) (-1)) with (2 ^ 63) in E.
        pose proof (pow_w1_le_63 (width k) ltac:(lia)). lia.
      * unfold of_i64. rewrite M64_eq, wrap_u64 by lia. symmetry. exact W.
    + destruct (Ul eq_refl) as (El & Bl). destruct (Ur eq_refl) as (Er & Br).
      apply (ARI (l / r)); auto.
      * cbn [binary_raw]. rewrite El, Er. destruct (Z.eqb_spec r 0); [contradiction|reflexivity].
      * rewrite W. rewrite Z.quot_div_nonneg by lia. reflexivity.
  - (* Mod *)
    destruct (Z.eqb_spec r 0) as [|Nr]; [discriminate|].
    destruct (in_rangeb k (Z.quot l r)) eqn:Q; [|discriminate]. injection Hspec as <-.
    apply in_rangeb_spec in Q.
    pose proof (Z.rem_bound_abs l r Nr) as RB.
    destruct (isigned k) eqn:Hs.
    + destruct (Sl eq_refl) as (Il & Bl & Bl'). destruct (Sr eq_refl) as (Ir & Br & Br').
      apply (ARI (of_i64 (Z.rem l r))); auto.
      * cbn [binary_raw]. rewrite (repr_zero_iff k r Hk Hr). destruct (Z.eqb_spec r 0); [contradiction|].
        rewrite Il, Ir. destruct ((l =? - H64) && (r =? -1)) eqn:G; [|reflexivity].
        exfalso. apply andb_true_iff in G. destruct G as [G1 G2]. apply Z.eqb_eq in G1, G2. subst l r.
        rewrite H64_eq in *. unfold in_range, tmax in Q. rewrite Hs in Q.
        change (Z.quot (- 2 ^ 63) (-1)) with (2 ^ 63) in Q.
        pose proof (pow_w1_le_63 (width k) ltac:(lia)). lia.
      * unfold of_i64. rewrite M64_eq, wrap_u64 by lia. reflexivity.
      * unfold in_range, tmin, tmax. rewrite Hs. lia.
    + destruct (Ul eq_refl) as (El & Bl). destruct (Ur eq_refl) as (Er & Br).
      apply (ARI (l mod r)); auto.
      * cbn [binary_raw]. rewrite El, Er. destruct (Z.eqb_spec r 0); [contradiction|reflexivity].
      * rewrite Z.rem_mod_nonneg by lia. reflexivity.
      * pose proof (Z.rem_bound_pos l r ltac:(lia) ltac:(lia)).
        unfold in_range, tmin, tmax. rewrite Hs. lia.
  - (* Add *)
    destruct (arith_result_inv _ _ _ Hk Hspec) as [W R].
    apply (ARI ((repr k l + repr k r) mod M64)); auto.
    + destruct (isigned k); reflexivity.
    + rewrite M64_eq, wrap_u64, W by lia. apply wrap_add_congr; auto; lia.
  - (* Sub *)
    destruct (arith_result_inv _ _ _ Hk Hspec) as [W R].
    apply (ARI ((repr k l - repr k r) mod M64)); auto.
    + destruct (isigned k); reflexivity.
    + rewrite M64_eq, wrap_u64, W by lia. apply wrap_sub_congr; auto; lia.
  - (* Shl *)
    destruct ((0 <=? r) && (r <? width k)) eqn:G; [|discriminate].
    apply andb_true_iff in G. destruct G as [G1 G2]. apply Z.leb_le in G1. apply Z.ltb_lt in G2.
    assert (Er : repr kr r = r) by (apply repr_small; assumption).
    assert (E63 : Z.land r 63 = r) by (apply land_63; lia).
    pose proof (pow2_pos r G1) as Hp.
    assert (W : wrap (width k) (Z.shiftl (repr k l) r mod M64) = wrap (width k) (l * 2 ^ r)).
    { rewrite M64_eq, wrap_u64, Z.shiftl_mul_pow2 by lia. apply wrap_mul_congr; auto; lia. }
    apply (ARI (Z.shiftl (repr k l) r mod M64)); auto.
    + rewrite Er. cbn [binary_raw]. rewrite E63. destruct (isigned k); reflexivity.
    + rewrite W. destruct (isigned k) eqn:Hs.
      * destruct ((0 <=? l) && (l * 2 ^ r <=? tmax k)); [|discriminate]. injection Hspec as <-. reflexivity.
      * injection Hspec as <-. symmetry. apply (wrap_wrap (width k)). lia.
    + destruct (isigned k) eqn:Hs.
      * destruct ((0 <=? l) && (l * 2 ^ r <=? tmax k)) eqn:G; [|discriminate]. injection Hspec as <-.
        apply andb_true_iff in G. destruct G as [G3 G4]. apply Z.leb_le in G3, G4.
        unfold in_range, tmin. rewrite Hs. pose proof (pow2_pos (width k - 1)). split; [nia|assumption].
      * injection Hspec as <-. unfold in_range, tmin, tmax. rewrite Hs.
        pose proof (Z.mod_pos_bound (l * 2 ^ r) (2 ^ width k) ltac:(apply pow2_pos; lia)). lia.
  - (* Shr *)
    destruct ((0 <=? r) && (r <? width k)) eqn:G; [|discriminate]. injection Hspec as <-.
    apply andb_true_iff in G. destruct G as [G1 G2]. apply Z.leb_le in G1. apply Z.ltb_lt in G2.
    assert (Er : repr kr r = r) by (apply repr_small; assumption).
    assert (E63 : Z.land r 63 = r) by (apply land_63; lia).
    pose proof (pow2_pos r G1) as Hp.
    assert (R : in_range k (l / 2 ^ r)).
    { unfold in_range in *. apply div_pow2_range; try assumption.
      - unfold tmin. destruct (isigned k); [|lia]. pose proof (pow2_pos (width k - 1)). lia.
      - unfold tmax. destruct (isigned k).
        + pose proof (pow2_pos (width k - 1)). lia.
        + pose proof (pow2_pos (width k)). lia. }
    destruct (isigned k) eqn:Hs.
    + destruct (Sl eq_refl) as (Il & Bl & Bl').
      apply (ARI (of_i64 (Z.shiftr l r))); auto.
      * rewrite Er. cbn [binary_raw]. rewrite E63, Il. reflexivity.
      * unfold of_i64. rewrite M64_eq, wrap_u64, Z.shiftr_div_pow2 by lia. reflexivity.
    + destruct (Ul eq_refl) as (El & Bl).
      apply (ARI (Z.shiftr l r)); auto.
      * rewrite Er, El. cbn [binary_raw]. rewrite E63. reflexivity.
      * rewrite Z.shiftr_div_pow2 by lia. reflexivity.
  - (* Band *)
    injection Hspec as <-.
    apply (ARI (Z.land (repr k l) (repr k r))); auto.
    + destruct (isigned k); reflexivity.
    + rewrite !wrap_land by lia. rewrite Wl, Wr. reflexivity.
    + destruct (isigned k) eqn:Hs.
      * destruct (Sl eq_refl) as (_ & _ & Bl'). destruct (Sr eq_refl) as (_ & _ & Br').
        pose proof (land_range (width k - 1) l r ltac:(lia) Bl' Br').
        unfold in_range, tmin, tmax. rewrite Hs. lia.
      * destruct (Ul eq_refl) as (_ & Bl). destruct (Ur eq_refl) as (_ & Br).
        pose proof (land_nonneg_range (width k) l r ltac:(lia) Bl Br).
        unfold in_range, tmin, tmax. rewrite Hs. lia.
  - (* Bor *)
    injection Hspec as <-.
    apply (ARI (Z.lor (repr k l) (repr k r))); auto.
    + destruct (isigned k); reflexivity.
    + rewrite !wrap_lor by lia. rewrite Wl, Wr. reflexivity.
    + destruct (isigned k) eqn:Hs.
      * destruct (Sl eq_refl) as (_ & _ & Bl'). destruct (Sr eq_refl) as (_ & _ & Br').
        pose proof (lor_range (width k - 1) l r ltac:(lia) Bl' Br').
        unfold in_range, tmin, tmax. rewrite Hs. lia.
      * destruct (Ul eq_refl) as (_ & Bl). destruct (Ur eq_refl) as (_ & Br).
        pose proof (lor_nonneg_range (width k) l r ltac:(lia) Bl Br).
        unfold in_range, tmin, tmax. rewrite Hs. lia.
  - (* Xor *)
    injection Hspec as <-.
    apply (ARI (Z.lxor (repr k l) (repr k r))); auto.
    + destruct (isigned k); reflexivity.
    + rewrite !wrap_lxor by lia. rewrite Wl, Wr. reflexivity.
    + destruct (isigned k) eqn:Hs.
      * destruct (Sl eq_refl) as (_ & _ & Bl'). destruct (Sr eq_refl) as (_ & _ & Br').
        pose proof (lxor_range (width k - 1) l r ltac:(lia) Bl' Br').
        unfold in_range, tmin, tmax. rewrite Hs. lia.
      * destruct (Ul eq_refl) as (_ & Bl). destruct (Ur eq_refl) as (_ & Br).
        pose proof (lxor_nonneg_range (width k) l r ltac:(lia) Bl Br).
        unfold in_range, tmin, tmax. rewrite Hs. lia.
  - (* < *)
    injection Hspec as <-. destruct (isigned k) eqn:Hs.
    + destruct (Sl eq_refl) as (Il & _). destruct (Sr eq_refl) as (Ir & _).
      apply (CMP (l <? r) (l <? r)); auto. cbn [binary_raw]. rewrite Il, Ir. reflexivity.
    + destruct (Ul eq_refl) as (El & _). destruct (Ur eq_refl) as (Er & _).
      apply (CMP (l <? r) (l <? r)); auto. cbn [binary_raw]. rewrite El, Er. reflexivity.
  - (* > *)
    injection Hspec as <-. destruct (isigned k) eqn:Hs.
    + destruct (Sl eq_refl) as (Il & _). destruct (Sr eq_refl) as (Ir & _).
      apply (CMP (r <? l) (r <? l)); auto. cbn [binary_raw]. rewrite Il, Ir. reflexivity.
    + destruct (Ul eq_refl) as (El & _). destruct (Ur eq_refl) as (Er & _).
      apply (CMP (r <? l) (r <? l)); auto. cbn [binary_raw]. rewrite El, Er. reflexivity.
  - (* <= *)
    injection Hspec as <-. destruct (isigned k) eqn:Hs.
    + destruct (Sl eq_refl) as (Il & _). destruct (Sr eq_refl) as (Ir & _).
      apply (CMP (l <=? r) (l <=? r)); auto. cbn [binary_raw]. rewrite Il, Ir. reflexivity.
    + destruct (Ul eq_refl) as (El & _). destruct (Ur eq_refl) as (Er & _).
      apply (CMP (l <=? r) (l <=? r)); auto. cbn [binary_raw]. rewrite El, Er. reflexivity.
  - (* >= *)
    injection Hspec as <-. destruct (isigned k) eqn:Hs.
    + destruct (Sl eq_refl) as (Il & _). destruct (Sr eq_refl) as (Ir & _).
      apply (CMP (r <=? l) (r <=? l)); auto. cbn [binary_raw]. rewrite Il, Ir. reflexivity.
    + destruct (Ul eq_refl) as (El & _). destruct (Ur eq_refl) as (Er & _).
      apply (CMP (r <=? l) (r <=? l)); auto. cbn [binary_raw]. rewrite El, Er. reflexivity.
  - (* == *)
    injection Hspec as <-.
    apply (CMP (repr k l =? repr k r) (l =? r)); auto.
    + destruct (isigned k); reflexivity.
    + apply repr_eqb; assumption.
  - (* != *)
    injection Hspec as <-.
    apply (CMP (negb (repr k l =? repr k r)) (negb (l =? r))); auto.
    + destruct (isigned k); reflexivity.
    + f_equal. apply repr_eqb; assumption.
Qed.

(* ---------- unary operators ---------- *)
Theorem fold_neg_correct k l v : wf_ity k -> in_range k l ->
  unop_spec Neg k l = Some v ->
  unary F UNeg (TInt k) (TInt k) (repr k l) = Val (repr k v) /\ in_range k v.
Proof.
  intros Hk Hl Hspec. cbn [unop_spec] in Hspec. pose proof (wf_width k Hk) as [Hw Hw0].
  destruct (arith_result_inv _ _ _ Hk Hspec) as [W R]. split; [|exact R].
  unfold unary. cbn [is_float]. rewrite cast_wrap by assumption. f_equal.
  apply repr_congr; [assumption|]. rewrite M64_eq, wrap_u64, W by lia.
  apply wrap_opp_congr; [lia|]. apply repr_wrap; assumption.
Qed.

(* ~x is compiled as x ^ mkconstexpr(type, -1), whose carrier is 2^64 - 1 whatever the type *)
Theorem fold_bnot_correct k l v : wf_ity k -> in_range k l ->
  unop_spec Bnot k l = Some v ->
  binary F OXor (TInt k) (TInt k) (repr k l) (M64 - 1) = Val (repr k v) /\ in_range k v.
Proof.
  intros Hk Hl Hspec. cbn [unop_spec] in Hspec. injection Hspec as <-.
  pose proof (wf_width k Hk) as [Hw Hw0].
  destruct (carrier_facts k l Hk Hl) as (Wl & Sl & Ul).
  assert (Wm : wrap (width k) (M64 - 1) = wrap (width k) (-1)).
  { rewrite M64_eq. apply wrap_eq_iff; [lia|]. exists (2 ^ (64 - width k)).
    rewrite <- Z.pow_add_r by lia. replace (64 - width k + width k) with 64 by lia. lia. }
  assert (E : wrap (width k) (Z.lxor (repr k l) (M64 - 1)) = wrap (width k) (- l - 1)).
  { rewrite wrap_lxor, Wl, Wm, <- wrap_lxor by lia. rewrite Z.lxor_m1_r. unfold Z.lnot. f_equal; lia. }
  split.
  - unfold binary. rewrite tag_int.
    replace (binary_raw F OXor (if isigned k then TagS else TagU) (repr k l) (M64 - 1))
      with (Val (Z.lxor (repr k l) (M64 - 1))) by (destruct (isigned k); reflexivity).
    rewrite cast_wrap by assumption. f_equal. apply repr_congr; [assumption|]. rewrite E.
    destruct (isigned k); [reflexivity|].
    apply wrap_eq_iff; [lia|]. exists (-1). lia.
  - unfold in_range, tmin, tmax in *. destruct (isigned k); lia.
Qed.

(* !x is compiled as x == 0 *)
Lemma lnot_as_eq k l : unop_spec Lnot k l = binop_spec CEq k l 0.
Proof. reflexivity. Qed.

(* ---------- conversions ---------- *)
Lemma conv_spec_alt k v : conv_spec k v = if isigned k then sext (width k) v else wrap (width k) v.
Proof. reflexivity. Qed.

Lemma conv_spec_range k v : wf_ity k -> in_range k (conv_spec k v).
Proof.
  intros Hk. pose proof (wf_width k Hk) as [Hw Hw0]. rewrite conv_spec_alt.
  unfold in_range, tmin, tmax. destruct (isigned k).
  - pose proof (sext_range (width k) v Hw0). lia.
  - pose proof (wrap_range (width k) v ltac:(lia)). lia.
Qed.

Lemma repr_conv_spec k v : wf_ity k -> repr k (conv_spec k v) = repr k v.
Proof.
  intros Hk. pose proof (wf_width k Hk) as [Hw Hw0]. apply repr_congr; [assumption|].
  rewrite conv_spec_alt. destruct (isigned k); [apply sext_wrap; lia|apply wrap_wrap; lia].
Qed.

(* conversion of an in-range value leaves it alone *)
Lemma conv_spec_id k v : wf_ity k -> in_range k v -> conv_spec k v = v.
Proof.
  intros Hk Hr. pose proof (wf_width k Hk) as [Hw Hw0]. rewrite conv_spec_alt.
  destruct (isigned k) eqn:Hs.
  - apply sext_id; [lia|]. apply (in_range_signed k v Hk Hs Hr).
  - apply wrap_id. apply (in_range_unsigned k v Hk Hs Hr).
Qed.

Theorem conv_correct k kb v : wf_ity k -> wf_ity kb -> in_range kb v ->
  cast_const F (TInt k) (TInt kb) (repr kb v) = Val (repr k (conv_spec k v)) /\ in_range k (conv_spec k v).
Proof.
  intros Hk Hkb Hv. split; [|apply conv_spec_range; assumption].
  unfold cast_const. cbn [is_int is_float int_of andb]. rewrite cast_wrap by assumption. f_equal.
  rewrite repr_conv_spec by assumption. apply repr_congr; [assumption|].
  pose proof (wf_width k Hk). apply repr_wrap_any; auto; lia.
Qed.

Theorem conv_from_bool_correct k v : wf_ity k -> (v = 0 \/ v = 1) ->
  cast_const F (TInt k) TBool v = Val (repr k (conv_spec k v)) /\ in_range k (conv_spec k v).
Proof.
  intros Hk Hv. split; [|apply conv_spec_range; assumption].
  unfold cast_const. cbn [is_int is_float int_of andb]. rewrite cast_wrap by assumption.
  rewrite repr_conv_spec by assumption. reflexivity.
Qed.

Theorem cast_bool_spec kb v : wf_ity kb -> in_range kb v ->
  cast_const F TBool (TInt kb) (repr kb v) = Val (conv_bool_spec v).
Proof.
  intros Hkb Hv. unfold cast_const. cbn [is_float]. rewrite repr_zero_iff by assumption.
  unfold conv_bool_spec. destruct (v =? 0); reflexivity.
Qed.

Theorem cast_bool_from_bool v : (v = 0 \/ v = 1) -> cast_const F TBool TBool v = Val (conv_bool_spec v).
Proof. intros [-> | ->]; reflexivity. Qed.

(* ---------- && and || ---------- *)
Theorem logical_fold_spec t lt lc rt rc : is_float lt = false -> is_float rt = false ->
  eval_binary F t OLand (EConst lt lc) (EConst rt rc) = same (EConst t (land_spec lc rc)) /\
  eval_binary F t OLor (EConst lt lc) (EConst rt rc) = same (EConst t (lor_spec lc rc)).
Proof.
  intros Hl Hr. unfold eval_binary, istrue, land_spec, lor_spec. rewrite Hl, Hr.
  destruct (lc =? 0), (rc =? 0); split; reflexivity.
Qed.

(* the left operand alone decides: the right one may be anything, constant or not *)
Theorem logical_short_circuit t lt lc r0 : is_float lt = false ->
  (lc = 0 -> eval_binary F t OLand (EConst lt lc) r0 = same (EConst t 0)) /\
  (lc <> 0 -> eval_binary F t OLor (EConst lt lc) r0 = same (EConst t 1)).
Proof.
  intros Hl. unfold eval_binary, istrue. rewrite Hl. split.
  - intros ->. reflexivity.
  - intros N. apply Z.eqb_neq in N. rewrite N. reflexivity.
Qed.

(* otherwise the expression is left alone unless the right operand is a constant *)
Theorem logical_undetermined t lt lc r0 : is_float lt = false -> is_const r0 = false ->
  (lc <> 0 -> eval_binary F t OLand (EConst lt lc) r0 = same (EBin t OLand (EConst lt lc) r0)) /\
  (lc = 0 -> eval_binary F t OLor (EConst lt lc) r0 = same (EBin t OLor (EConst lt lc) r0)).
Proof.
  intros Hl Hc. unfold eval_binary, istrue. rewrite Hl. split.
  - intros N. apply Z.eqb_neq in N. rewrite N. destruct r0; try reflexivity. discriminate.
  - intros ->. destruct r0; try reflexivity. discriminate.
Qed.

End WithFloatOps.

(* the twelve integer types of each target are instances of the quantification `wf_ity k` *)
Lemma all_types_wf : forall sc k, In k (c_int_types sc) -> wf_ity k.
Proof. intros sc k H. unfold c_int_types in H. cbn in H. unfold wf_ity. intuition (subst; cbn; lia). Qed.
