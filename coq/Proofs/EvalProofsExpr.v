(* Proofs/EvalProofsExpr.v - eval() on whole expression trees: soundness w.r.t. CArithExpr.sem,
   absence of host traps, folding of ?: by condexpr. *)
From Coq Require Import ZArith Lia Bool List.
From Cproc Require Import Lib.Wrap Spec.CArith Spec.CArithExpr Model.EvalFloat Model.Eval Proofs.EvalProofs.
Local Open Scope Z_scope.

Lemma ity_eqb_eq a b : ity_eqb a b = true -> a = b.
Proof.
  destruct a as [sa ga], b as [sb gb]. unfold ity_eqb. cbn. rewrite andb_true_iff, Z.eqb_eq.
  intros [-> E]. apply Bool.eqb_prop in E. subst. reflexivity.
Qed.

Lemma ty_eqb_eq a b : ty_eqb a b = true -> a = b.
Proof.
  destruct a, b; cbn; try discriminate; try reflexivity.
  - intros E. apply ity_eqb_eq in E. subst. reflexivity.
  - intros E. apply Z.eqb_eq in E. subst. reflexivity.
Qed.

Lemma wf_ityb_spec k : wf_ityb k = true -> wf_ity k.
Proof. unfold wf_ityb, wf_ity. rewrite andb_true_iff, !Z.leb_le. tauto. Qed.

(* canonical carrier of a value at a (possibly _Bool) integer type *)
Definition crepr (t : ty) (v : Z) : Z := match t with TInt k => repr k v | _ => v end.
Definition sem_ok (t : ty) (v : Z) : Prop :=
  match t with
  | TInt k => wf_ity k /\ in_range k v
  | TBool => v = 0 \/ v = 1
  | _ => False
  end.

Lemma sem_ok_nofloat t v : sem_ok t v -> is_float t = false /\ is_int t = true.
Proof. destruct t; cbn; try tauto; try (intros; split; reflexivity). Qed.

Lemma crepr_zero t v : sem_ok t v -> (crepr t v =? 0) = (v =? 0).
Proof. destruct t; cbn; try tauto. intros [A B]. apply repr_zero_iff; assumption. Qed.

Lemma spec_op_bop_of op sop : spec_op op = Some sop -> bop_of sop = op.
Proof. destruct op; cbn; intros [= <-]; reflexivity. Qed.

Lemma in_range_bool01 v : v = 0 \/ v = 1 -> in_range t_int v.
Proof. unfold in_range, tmin, tmax, t_int, width. cbn. lia. Qed.

Section WithFloatOps.
Variable F : fops.

Lemma sem_leaf_sound t c v : sem_leaf t c = Some v -> c = crepr t v /\ sem_ok t v.
Proof.
  unfold sem_leaf. destruct t; try discriminate.
  - destruct (wf_ityb k && (0 <=? c) && (c <? M64) && in_rangeb k (cval k c)) eqn:E; [|discriminate].
    intros [= <-]. rewrite !andb_true_iff in E. destruct E as [[[E1 E2] E3] E4].
    apply wf_ityb_spec in E1. apply Z.leb_le in E2. apply Z.ltb_lt in E3. apply in_rangeb_spec in E4.
    cbn. split; [|split; assumption]. symmetry. apply (canonical_repr k c); auto; rewrite <- M64_eq; lia.
  - destruct ((c =? 0) || (c =? 1)) eqn:E; [|discriminate]. intros [= <-]. cbn.
    apply orb_true_iff in E. rewrite !Z.eqb_eq in E. split; [reflexivity|assumption].
Qed.

(* the guard of eval()'s TDIV/TMOD case is exactly the trap condition of binary() *)
Definition div_guard (lt : ty) (lc rc : Z) : bool :=
  is_int lt && ((rc =? 0) || (is_signed lt && (i64 rc =? -1) && (i64 lc =? - H64))).

Lemma guard_iff_trap op lt lc rc : (op = ODiv \/ op = OMod) -> is_int lt || is_float lt = true ->
  (div_guard lt lc rc = true <-> binary_raw F op (tag_of lt) lc rc = Trap).
Proof.
  intros Hop Ht. unfold div_guard, tag_of.
  destruct (is_float lt) eqn:Hf.
  - assert (is_int lt = false) as -> by (destruct lt; cbn in *; congruence).
    destruct Hop as [-> | ->]; cbn; split; discriminate.
  - rewrite orb_false_r in Ht. rewrite Ht. cbn [andb].
    destruct (is_signed lt); cbn [andb];
      destruct Hop as [-> | ->]; cbn [binary_raw];
      destruct (rc =? 0); cbn [orb]; try (split; [reflexivity|reflexivity]); try (split; discriminate).
    + destruct (i64 rc =? -1), (i64 lc =? - H64); cbn; split; try reflexivity; discriminate.
    + destruct (i64 rc =? -1), (i64 lc =? - H64); cbn; split; try reflexivity; discriminate.
Qed.

Lemma binary_raw_trap_only_div op tg l r : binary_raw F op tg l r = Trap -> op = ODiv \/ op = OMod.
Proof. destruct op, tg; cbn; try discriminate; auto. Qed.

Lemma binary_trap op lt t l r : binary F op lt t l r = Trap <-> binary_raw F op (tag_of lt) l r = Trap.
Proof. unfold binary. destruct (binary_raw F op (tag_of lt) l r); split; congruence. Qed.

Lemma konst_trap t r : konst t r = Stop STrap <-> r = Trap.
Proof. destruct r; cbn; split; congruence. Qed.

Lemma konst_val t c : konst t (Val c) = same (EConst t c).
Proof. reflexivity. Qed.

(* ---------- soundness of eval on integer constant expressions ---------- *)
Lemma eval_binary_generic t op sop k kr vl vr v :
  spec_op op = Some sop -> wf_ity k -> wf_ity kr -> in_range k vl -> in_range kr vr ->
  (is_shift_op op = false -> kr = k) ->
  t = TInt (binop_type sop k) ->
  binop_spec sop k vl vr = Some v ->
  eval_binary F t op (EConst (TInt k) (repr k vl)) (EConst (TInt kr) (repr kr vr)) = same (EConst t (repr (binop_type sop k) v))
  /\ in_range (binop_type sop k) v.
Proof.
  intros Hop Hk Hkr Hl Hr Hsame -> Hspec.
  pose proof (spec_op_bop_of _ _ Hop) as Hb.
  assert (Hsh : is_shift sop = false -> kr = k).
  { intros E. apply Hsame. destruct op; cbn in Hop; try discriminate; injection Hop as <-; cbn in *; congruence. }
  destruct (fold_correct F sop k kr vl vr v Hk Hkr Hl Hr Hsh Hspec) as [B R]. rewrite Hb in B.
  split; [|exact R].
  destruct op; cbn in Hop; try discriminate; cbn [eval_binary is_binary]; try (rewrite B; reflexivity).
  - (* ODiv *)
    fold (div_guard (TInt k) (repr k vl) (repr kr vr)).
    destruct (div_guard (TInt k) (repr k vl) (repr kr vr)) eqn:G; [|rewrite B; reflexivity].
    apply (guard_iff_trap ODiv) in G; [|auto|reflexivity]. pose proof (proj2 (binary_trap _ _ (TInt (binop_type sop k)) _ _) G) as G'. rewrite B in G'. discriminate.
  - (* OMod *)
    fold (div_guard (TInt k) (repr k vl) (repr kr vr)).
    destruct (div_guard (TInt k) (repr k vl) (repr kr vr)) eqn:G; [|rewrite B; reflexivity].
    apply (guard_iff_trap OMod) in G; [|auto|reflexivity]. pose proof (proj2 (binary_trap _ _ (TInt (binop_type sop k)) _ _) G) as G'. rewrite B in G'. discriminate.
Qed.

(* eval() evaluates BOTH operands of && and || before it looks at the operator, so an operand that C does
   not evaluate can still stop the compiler (the float->integer range diagnostic): [rhs_quiet] asks that
   the right operands of && / || do not do that.  See eval_sound_refuted for the unrestricted statement. *)
Fixpoint rhs_quiet (e : expr) : Prop :=
  match e with
  | ENeg _ b | ECast _ b => rhs_quiet b
  | EBin _ op l r =>
      rhs_quiet l /\ rhs_quiet r /\
      match op with OLand | OLor => exists r0 r0', eval F r = Ok r0 r0' | _ => True end
  | _ => True
  end.

Theorem eval_sound_partial : forall e v, sem e = Some v -> rhs_quiet e ->
  eval F e = same (EConst (type_of e) (crepr (type_of e) v)) /\ sem_ok (type_of e) v.
Proof.
  induction e as [t c|t c|t s|t s|t b IHb|t b IHb|t op l IHl r IHr|t c IHc a IHa b IHb]; intros v Hsem Hq;
    cbn [sem] in Hsem; try discriminate.
  - (* EConst *)
    destruct (sem_leaf_sound _ _ _ Hsem) as [E S]. cbn [eval type_of]. rewrite <- E. split; [reflexivity|exact S].
  - (* EEnum *)
    destruct (sem_leaf_sound _ _ _ Hsem) as [E S]. cbn [eval type_of]. rewrite <- E. split; [reflexivity|exact S].
  - (* ENeg *)
    destruct t as [k| | | |]; try discriminate.
    destruct (wf_ityb k && ty_eqb (type_of b) (TInt k)) eqn:G; [|discriminate].
    apply andb_true_iff in G. destruct G as [G1 G2]. apply wf_ityb_spec in G1. apply ty_eqb_eq in G2.
    destruct (sem b) as [vb|] eqn:Sb; [|discriminate].
    destruct (IHb vb eq_refl Hq) as [Eb Ob]. rewrite G2 in Eb, Ob. cbn in Ob. destruct Ob as [_ Rb].
    destruct (fold_neg_correct F k vb v G1 Rb Hsem) as [U R].
    cbn [eval type_of]. rewrite Eb. unfold same. cbn [crepr]. rewrite U. split; [reflexivity|split; assumption].
  - (* ECast *)
    destruct (sem b) as [vb|] eqn:Sb; [|discriminate].
    destruct (IHb vb eq_refl Hq) as [Eb Ob]. cbn [eval type_of]. rewrite Eb. unfold same.
    destruct t as [k| | | |]; try discriminate.
    + destruct (wf_ityb k) eqn:G; [|discriminate]. apply wf_ityb_spec in G. injection Hsem as <-.
      destruct (type_of b) as [kb| | | |]; cbn in Ob; try contradiction.
      * destruct Ob as [Hkb Rb]. destruct (conv_correct F k kb vb G Hkb Rb) as [C R].
        cbn [crepr]. rewrite C. split; [reflexivity|split; assumption].
      * destruct (conv_from_bool_correct F k vb G Ob) as [C R].
        cbn [crepr]. rewrite C. split; [reflexivity|split; assumption].
    + injection Hsem as <-.
      assert (B01 : conv_bool_spec vb = 0 \/ conv_bool_spec vb = 1).
      { unfold conv_bool_spec. destruct (vb =? 0); cbn; auto. }
      destruct (type_of b) as [kb| | | |]; cbn in Ob; try contradiction.
      * destruct Ob as [Hkb Rb]. cbn [crepr]. rewrite (cast_bool_spec F kb vb Hkb Rb). split; [reflexivity|exact B01].
      * cbn [crepr]. rewrite (cast_bool_from_bool F vb Ob). split; [reflexivity|exact B01].
  - (* EBin *)
    cbn [eval type_of]. cbn [rhs_quiet] in Hq. destruct Hq as (Hql & Hqr & Hqo).
    assert (LOG : forall vl, sem l = Some vl ->
              exists lt lc, eval F l = same (EConst lt lc) /\ is_float lt = false /\ (lc =? 0) = (vl =? 0)).
    { intros vl Sl. destruct (IHl vl Sl Hql) as [El Ol]. exists (type_of l), (crepr (type_of l) vl).
      split; [exact El|]. split; [apply (sem_ok_nofloat _ _ Ol)|apply crepr_zero; exact Ol]. }
    assert (LOGR : forall vr, sem r = Some vr ->
              exists rt rc, eval F r = same (EConst rt rc) /\ is_float rt = false /\ (rc =? 0) = (vr =? 0)).
    { intros vr Sr. destruct (IHr vr Sr Hqr) as [Er Or]. exists (type_of r), (crepr (type_of r) vr).
      split; [exact Er|]. split; [apply (sem_ok_nofloat _ _ Or)|apply crepr_zero; exact Or]. }
    assert (GEN : forall sop, spec_op op = Some sop ->
              match type_of l, type_of r with
              | TInt k, TInt kr =>
                  if wf_ityb k && wf_ityb kr && (is_shift_op op || ity_eqb kr k) && ty_eqb t (TInt (binop_type sop k)) then
                    match sem l, sem r with
                    | Some vl, Some vr => binop_spec sop k vl vr
                    | _, _ => None
                    end
                  else None
              | _, _ => None
              end = Some v ->
              match eval F l with
              | Ok l0 _ => match eval F r with Ok r0 _ => eval_binary F t op l0 r0 | s => s end
              | s => s
              end = same (EConst t (crepr t v)) /\ sem_ok t v).
    { intros sop Hop H.
      destruct (type_of l) as [k| | | |] eqn:Tl; try discriminate.
      destruct (type_of r) as [kr| | | |] eqn:Tr; try discriminate.
      destruct (wf_ityb k && wf_ityb kr && (is_shift_op op || ity_eqb kr k) && ty_eqb t (TInt (binop_type sop k))) eqn:G;
        [|discriminate].
      rewrite !andb_true_iff in G. destruct G as [[[G1 G2] G3] G4].
      apply wf_ityb_spec in G1, G2. apply ty_eqb_eq in G4.
      destruct (sem l) as [vl|] eqn:Sl; [|discriminate]. destruct (sem r) as [vr|] eqn:Sr; [|discriminate].
      destruct (IHl vl eq_refl Hql) as [El Ol]. destruct (IHr vr eq_refl Hqr) as [Er Or].
      try rewrite Tl in *. try rewrite Tr in *. cbn in Ol, Or, El, Er. rewrite El, Er. unfold same at 1 2.
      assert (Hsame : is_shift_op op = false -> kr = k).
      { intros E. rewrite E in G3. cbn in G3. apply ity_eqb_eq. exact G3. }
      destruct (eval_binary_generic t op sop k kr vl vr v Hop G1 G2 (proj2 Ol) (proj2 Or) Hsame G4 H) as [B R].
      rewrite B. subst t. cbn [crepr]. split; [reflexivity|]. cbn. split; [|exact R].
      unfold binop_type. destruct (is_cmp sop); [apply wf_t_int|assumption]. }
    destruct op; try (apply (GEN _ eq_refl); exact Hsem).
    + (* OLor *)
      destruct (ty_eqb t (TInt t_int)) eqn:Tt; [|discriminate]. apply ty_eqb_eq in Tt. subst t.
      destruct (sem l) as [vl|] eqn:Sl; [|discriminate].
      destruct (LOG vl eq_refl) as (lt & lc & El & Fl & Zl). rewrite El. unfold same at 1.
      destruct (vl =? 0) eqn:Zv.
      * destruct (sem r) as [vr|] eqn:Sr; [|discriminate]. injection Hsem as <-.
        destruct (LOGR vr eq_refl) as (rt & rc & Er & Fr & Zr). rewrite Er. unfold same at 1.
        destruct (logical_fold_spec F (TInt t_int) lt lc rt rc Fl Fr) as [_ L]. rewrite L.
        unfold lor_spec. rewrite Zl, Zr, Zv. cbn [crepr].
        destruct (vr =? 0); cbn; (split; [reflexivity|split; [apply wf_t_int|apply in_range_bool01; auto]]).
      * injection Hsem as <-.
        assert (N : lc <> 0) by (apply Z.eqb_neq; congruence).
        destruct (eval F r) as [r0 r0'|s] eqn:Er.
        -- destruct (logical_short_circuit F (TInt t_int) lt lc r0 Fl) as [_ L]. rewrite (L N).
           split; [reflexivity|split; [apply wf_t_int|apply in_range_bool01; auto]].
        -- (* the right operand would stop the compiler: excluded by rhs_quiet *)
           exfalso. destruct Hqo as (r0 & r0' & E). congruence.
    + (* OLand *)
      destruct (ty_eqb t (TInt t_int)) eqn:Tt; [|discriminate]. apply ty_eqb_eq in Tt. subst t.
      destruct (sem l) as [vl|] eqn:Sl; [|discriminate].
      destruct (LOG vl eq_refl) as (lt & lc & El & Fl & Zl). rewrite El. unfold same at 1.
      destruct (vl =? 0) eqn:Zv.
      * injection Hsem as <-.
        assert (N : lc = 0) by (apply Z.eqb_eq; congruence).
        destruct (eval F r) as [r0 r0'|s] eqn:Er.
        -- destruct (logical_short_circuit F (TInt t_int) lt lc r0 Fl) as [L _]. rewrite (L N).
           split; [reflexivity|split; [apply wf_t_int|apply in_range_bool01; auto]].
        -- exfalso. destruct Hqo as (r0 & r0' & E). congruence.
      * destruct (sem r) as [vr|] eqn:Sr; [|discriminate]. injection Hsem as <-.
        destruct (LOGR vr eq_refl) as (rt & rc & Er & Fr & Zr). rewrite Er. unfold same at 1.
        destruct (logical_fold_spec F (TInt t_int) lt lc rt rc Fl Fr) as [L _]. rewrite L.
        unfold land_spec. rewrite Zl, Zr, Zv. cbn [crepr].
        destruct (vr =? 0); cbn; (split; [reflexivity|split; [apply wf_t_int|apply in_range_bool01; auto]]).
Qed.

(* ---------- the folder never executes a trapping host operation ---------- *)
Lemma eval_binary_const_type t op l0 r0 t' c ip :
  eval_binary F t op l0 r0 = Ok (EConst t' c) ip -> t' = t.
Proof.
  unfold eval_binary, same, konst.
  destruct op;
    repeat match goal with
           | |- context [match ?x with _ => _ end] => destruct x eqn:?; cbn
           | |- context [if ?x then _ else _] => destruct x eqn:?; cbn
           end; intros H; try discriminate; try (injection H; intros; subst; reflexivity); try congruence.
Qed.

Lemma eval_const_type e t c ip : eval F e = Ok (EConst t c) ip -> t = type_of e.
Proof.
  destruct e as [t0 c0|t0 c0|t0 s|t0 s|t0 b|t0 b|t0 op l r|t0 c0 a b]; cbn [eval type_of]; unfold same, konst.
  - intros [= <- _ _]. reflexivity.
  - intros [= <- _ _]. reflexivity.
  - discriminate.
  - discriminate.
  - destruct (eval F b) as [l b'|]; [|discriminate].
    destruct l; try discriminate.
    destruct (unary F UNeg t0 t1 c0); cbn; try discriminate. intros [= <- _ _]. reflexivity.
  - destruct (eval F b) as [l b'|]; [|discriminate].
    destruct l; try (destruct (is_ptr _ && _); discriminate).
    destruct (cast_const F t0 t1 c0); cbn; try discriminate. intros [= <- _ _]. reflexivity.
  - destruct (eval F l) as [l0 ?|]; [|discriminate]. destruct (eval F r) as [r0 ?|]; [|discriminate].
    intros H. apply eval_binary_const_type in H. exact H.
  - discriminate.
Qed.

Lemma eval_binary_no_trap t op l0 r0 :
  (op = ODiv \/ op = OMod -> forall lt lc, l0 = EConst lt lc -> is_int lt || is_float lt = true) ->
  eval_binary F t op l0 r0 <> Stop STrap.
Proof.
  intros Hty.
  assert (NT : forall o lt t' lc rc, o <> ODiv -> o <> OMod -> konst t (binary F o lt t' lc rc) <> Stop STrap).
  { intros o lt t' lc rc N1 N2 H. apply konst_trap in H. apply binary_trap in H.
    apply binary_raw_trap_only_div in H. tauto. }
  assert (NB : forall o lt t' lc rc, o <> ODiv -> o <> OMod -> binary F o lt t' lc rc <> Trap).
  { intros o lt t' lc rc N1 N2 E. apply binary_trap in E. apply binary_raw_trap_only_div in E. tauto. }
  assert (DIV : forall o, o = ODiv \/ o = OMod -> op = o ->
            match l0, r0 with
            | EConst lt lc, EConst rt rc =>
                if is_int lt && ((rc =? 0) || (is_signed lt && (i64 rc =? -1) && (i64 lc =? - H64)))
                then same (EBin t op l0 r0) else konst t (binary F op lt t lc rc)
            | _, _ => same (EBin t op l0 r0)
            end <> Stop STrap).
  { intros o Ho ->. destruct l0; try discriminate. destruct r0; try discriminate.
    fold (div_guard t0 c c0). destruct (div_guard t0 c c0) eqn:G; [discriminate|].
    intros H. apply konst_trap in H. apply binary_trap in H.
    assert (Ht : is_int t0 || is_float t0 = true) by (apply (Hty Ho t0 c eq_refl)).
    apply (proj2 (guard_iff_trap o t0 c c0 Ho Ht)) in H. congruence. }
  destruct op; cbn [eval_binary];
    try (destruct l0; try discriminate; destruct r0; try discriminate; apply NT; discriminate).
  - (* ODiv *) apply (DIV ODiv); auto.
  - (* OMod *) apply (DIV OMod); auto.
  - (* OAdd *)
    destruct (is_binary r0).
    + destruct l0; try discriminate. destruct r0; try discriminate; try (apply NT; discriminate).
      destruct op; try discriminate. destruct r0_2; try discriminate.
      destruct (is_ptr t1); [|discriminate].
      match goal with |- context [binary F ?o ?a ?b ?x ?y] => destruct (binary F o a b x y) eqn:E end; try discriminate.
      exfalso. revert E. apply NB; discriminate.
    + destruct r0; try discriminate. destruct l0; try discriminate; try (apply NT; discriminate).
      destruct op; try discriminate. destruct l0_2; try discriminate.
      destruct (is_ptr t1); [|discriminate].
      match goal with |- context [binary F ?o ?a ?b ?x ?y] => destruct (binary F o a b x y) eqn:E end; try discriminate.
      exfalso. revert E. apply NB; discriminate.
  - (* OSub *)
    destruct r0; try discriminate. destruct l0; try discriminate; try (apply NT; discriminate).
    destruct op; try discriminate. destruct l0_2; try discriminate.
    destruct (is_ptr t1); [|discriminate].
      match goal with |- context [binary F ?o ?a ?b ?x ?y] => destruct (binary F o a b x y) eqn:E end; try discriminate.
      exfalso. revert E. apply NB; discriminate.
  - (* OLor *)
    destruct l0; try discriminate. destruct (Bool.eqb _ _); [|discriminate]. destruct r0; discriminate.
  - (* OLand *)
    destruct l0; try discriminate. destruct (Bool.eqb _ _); [|discriminate]. destruct r0; discriminate.
Qed.

Theorem no_trap : forall e, div_typed e = true -> eval F e <> Stop STrap.
Proof.
  induction e as [t c|t c|t s|t s|t b IHb|t b IHb|t op l IHl r IHr|t c IHc a IHa b IHb]; cbn [div_typed eval]; intros Hd;
    try discriminate.
  - specialize (IHb Hd). destruct (eval F b) as [l0 b'|s] eqn:E; [|exact IHb].
    destruct l0; try discriminate. unfold unary. destruct (is_float t0); discriminate.
  - specialize (IHb Hd). destruct (eval F b) as [l0 b'|s] eqn:E; [|exact IHb].
    destruct l0; try (destruct (is_ptr _ && _); discriminate).
    unfold cast_const.
    destruct t; try (destruct (is_int t0 && _); [discriminate|]); try discriminate;
      repeat match goal with
             | |- context [if ?x then _ else _] => destruct x; try discriminate
             | |- context [match ?x with _ => _ end] => destruct x; try discriminate
             end.
  - rewrite !andb_true_iff in Hd. destruct Hd as [[Ho Hl] Hr].
    specialize (IHl Hl). specialize (IHr Hr).
    destruct (eval F l) as [l0 l0'|s] eqn:El; [|exact IHl].
    destruct (eval F r) as [r0 r0'|s] eqn:Er; [|exact IHr].
    apply eval_binary_no_trap. intros Hop lt lc ->.
    apply eval_const_type in El. subst lt. destruct Hop as [-> | ->]; exact Ho.
Qed.

Corollary intconstexpr_no_trap e an : div_typed e = true -> intconstexpr F e an <> Trap.
Proof.
  intros Hd. unfold intconstexpr. pose proof (no_trap e Hd) as N.
  destruct (eval F e) as [r ip|[]]; try discriminate; try congruence.
  destruct r; try discriminate.
  destruct (negb (is_int t)); [discriminate|]. destruct (negb an && is_signed t && (Z.shiftr c 63 =? 1)); discriminate.
Qed.

(* ---------- ?: folded by condexpr ---------- *)
Theorem cond_fold_correct t c a b vc : sem c = Some vc -> rhs_quiet c ->
  condfold F t c a b = same (exprconvert (cond_spec vc a b) t).
Proof.
  intros Hs Hq. destruct (eval_sound_partial c vc Hs Hq) as [E O]. unfold condfold. rewrite E. unfold same at 1.
  destruct (sem_ok_nofloat _ _ O) as [_ I]. rewrite I, (crepr_zero _ _ O). reflexivity.
Qed.

Theorem cond_fold_value t c a b vc v : sem c = Some vc -> rhs_quiet c ->
  sem (exprconvert (cond_spec vc a b) t) = Some v -> rhs_quiet (exprconvert (cond_spec vc a b) t) ->
  exists e', condfold F t c a b = same e' /\ eval F e' = same (EConst (type_of e') (crepr (type_of e') v)).
Proof.
  intros Hs Hq Hv Hq'. exists (exprconvert (cond_spec vc a b) t). split.
  - apply cond_fold_correct; assumption.
  - apply (eval_sound_partial _ _ Hv Hq').
Qed.

(* condexpr folds only INTEGER conditions: with a floating constant condition the expression stays an
   EXPRCOND, which eval() never folds, so the initializer / static assertion is rejected *)
Definition cond_fold_total : Prop :=
  forall t c a b, is_const c = true -> is_const a = true -> is_const b = true ->
    exists e' r ip, condfold F t c a b = same e' /\ eval F e' = Ok r ip /\ is_const r = true.

Theorem cond_fold_float_refuted : ~ cond_fold_total.
Proof.
  intros H.
  destruct (H (TInt t_int) (EConst (TFloat 8) 0x3ff8000000000000) (EConst (TInt t_int) 256) (EConst (TInt t_int) 65535)
              eq_refl eq_refl eq_refl) as (e' & r & ip & E1 & E2 & E3).
  cbn in E1. injection E1 as <-. cbn in E2. injection E2 as <- _. discriminate.
Qed.

Theorem cond_fold_partial t ct cv a b : is_int ct = true ->
  condfold F t (EConst ct cv) a b = same (exprconvert (if cv =? 0 then b else a) t).
Proof. intros I. unfold condfold. cbn [eval]. unfold same at 1. rewrite I. reflexivity. Qed.

(* ---------- address constants:  (P + C1) +- C2  ->  P + (C1 +- C2) ---------- *)
Theorem reassoc_partial t P c1 c2 :
  eval_binary F t OAdd (EBin TPtr OAdd P (EConst (TInt t_ulong) c1)) (EConst (TInt t_ulong) c2)
    = same (EBin t OAdd P (EConst (TInt t_ulong) (repr t_ulong (c1 + c2)))) /\
  eval_binary F t OSub (EBin TPtr OAdd P (EConst (TInt t_ulong) c1)) (EConst (TInt t_ulong) c2)
    = same (EBin t OAdd P (EConst (TInt t_ulong) (repr t_ulong (c1 - c2)))).
Proof.
  assert (W : wf_ity t_ulong) by (unfold wf_ity, t_ulong; cbn; lia).
  split; cbn [eval_binary is_binary is_ptr]; unfold binary; cbn [tag_of is_float is_int is_signed int_of t_ulong isigned andb binary_raw];
    rewrite (cast_wrap F t_ulong) by exact W; rewrite M64_eq, repr_u64 by exact W; reflexivity.
Qed.

(* the same when the pointer sum is the RIGHT operand of + (eval() swaps the operands and stores them back;
   before the fix of 2026-09-30 it read a clobbered node here: regression replay `long z = 3 + (long)&a[1];`) *)
Theorem reassoc_swapped t P c1 c2 :
  eval_binary F t OAdd (EConst (TInt t_ulong) c2) (EBin TPtr OAdd P (EConst (TInt t_ulong) c1))
    = same (EBin t OAdd P (EConst (TInt t_ulong) (repr t_ulong (c1 + c2)))).
Proof.
  assert (W : wf_ity t_ulong) by (unfold wf_ity, t_ulong; cbn; lia).
  cbn [eval_binary is_binary is_ptr]; unfold binary; cbn [tag_of is_float is_int is_signed int_of t_ulong isigned andb binary_raw];
    rewrite (cast_wrap F t_ulong) by exact W; rewrite M64_eq, repr_u64 by exact W; reflexivity.
Qed.

End WithFloatOps.

(* with the real floating-point operations: a valid constant expression whose unevaluated operand
   converts an out-of-range floating constant is rejected with a diagnostic *)
Definition eval_sound_total : Prop :=
  forall e v, sem e = Some v -> exists r ip, eval flocq_ops e = Ok r ip.

Theorem eval_sound_refuted : ~ eval_sound_total.
Proof.
  intros H.
  destruct (H (EBin (TInt t_int) OLand (EConst (TInt t_int) 0) (ECast (TInt t_int) (EConst (TFloat 8) 0x46293e5939a08cea))) 0 eq_refl)
    as (r & ip & E).
  vm_compute in E. discriminate.
Qed.

(* fixed finding float-literal-not-rounded: `0.1f` is rounded to float when it is parsed *)
Theorem floatlit_correct : forall F suffix_f bits, floatlit F suffix_f bits = floatlit_spec F suffix_f bits.
Proof. reflexivity. Qed.

