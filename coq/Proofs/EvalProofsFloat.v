(* Proofs/EvalProofsFloat.v - the range tests of eval()'s float -> integer conversion make the host C
   conversion defined (C11 6.3.1.4): shown on Flocq's binary64 representation. *)
From Coq Require Import ZArith Lia Bool Floats.SpecFloat.
From Flocq Require Import Core.Zaux Core.Digits IEEE754.BinarySingleNaN IEEE754.Binary IEEE754.Bits.
From Cproc Require Import Lib.Wrap Spec.CArith Model.EvalFloat Model.Eval Proofs.EvalProofs.
Local Open Scope Z_scope.
Arguments B754_zero {prec} {emax}.
Arguments B754_infinity {prec} {emax}.
Arguments B754_nan {prec} {emax}.
Arguments B754_finite {prec} {emax}.

Lemma two63_shape : exists H, of_bits two63 = B754_finite false 4503599627370496 11 H.
Proof. vm_compute. eexists. reflexivity. Qed.

Lemma cmp_finite s1 m1 e1 H1 s2 m2 e2 H2 :
  b64_compare (B754_finite s1 m1 e1 H1) (B754_finite s2 m2 e2 H2) =
  Some match s1, s2 with
       | true, false => Lt
       | false, true => Gt
       | false, false => match Z.compare e1 e2 with Lt => Lt | Gt => Gt | Eq => Pos.compare_cont Eq m1 m2 end
       | true, true => match Z.compare e1 e2 with Lt => Gt | Gt => Lt | Eq => CompOpp (Pos.compare_cont Eq m1 m2) end
       end.
Proof. reflexivity. Qed.

Lemma two64_shape : exists H, of_bits two64 = B754_finite false 4503599627370496 12 H.
Proof. vm_compute. eexists. reflexivity. Qed.
Lemma mtwo63_shape : exists H, of_bits mtwo63 = B754_finite true 4503599627370496 11 H.
Proof. vm_compute. eexists. reflexivity. Qed.
Lemma zero_shape : of_bits 0 = B754_zero false.
Proof. vm_compute. reflexivity. Qed.

Lemma bounded_facts m e : SpecFloat.bounded 53 1024 m e = true ->
  Z.pos m < 2 ^ 53 /\ e <= 971 /\ (-1074 < e -> 2 ^ 52 <= Z.pos m).
Proof.
  unfold SpecFloat.bounded, SpecFloat.canonical_mantissa, SpecFloat.fexp, SpecFloat.emin.
  rewrite andb_true_iff. intros [A B]. apply Zeq_bool_eq in A. apply Z.leb_le in B.
  rewrite Zpos_digits2_pos in A.
  remember (Zdigits radix2 (Z.pos m)) as d.
  assert (Hd : d <= 53) by lia.
  assert (Hn : -1074 < e -> d = 53) by lia.
  pose proof (Zdigits_correct radix2 (Z.pos m)) as D. cbn [Z.abs] in D. rewrite <- Heqd in D.
  change (radix_val radix2) with 2 in D.
  split; [|split; [lia|]].
  - apply Z.lt_le_trans with (2 ^ d); [apply D|]. apply Z.pow_le_mono_r; lia.
  - intros He. rewrite (Hn He) in D. replace (53 - 1) with 52 in D by reflexivity. apply D.
Qed.

Lemma mul_bound m p : 0 < m < 9007199254740992 -> 0 < p <= 1024 -> 0 < m * p < 9223372036854775808.
Proof.
  intros Hm Hp.
  assert (m * p <= m * 1024) by (apply Z.mul_le_mono_nonneg_l; lia).
  assert (0 < m * p) by (apply Z.mul_pos_pos; lia).
  lia.
Qed.

Lemma trunc_bound m e : Z.pos m < 2 ^ 53 -> e <= 10 -> 0 <= trunc_mag m e < 2 ^ 63.
Proof.
  intros Hm He. unfold trunc_mag. change (2 ^ 53) with 9007199254740992 in Hm. change (2 ^ 63) with 9223372036854775808.
  destruct (Z.leb_spec 0 e).
  - assert (2 ^ e <= 2 ^ 10) by (apply Z.pow_le_mono_r; lia).
    assert (0 < 2 ^ e) by (apply Z.pow_pos_nonneg; lia).
    change (2 ^ 10) with 1024 in *.
    pose proof (mul_bound (Z.pos m) (2 ^ e) ltac:(lia) ltac:(lia)). lia.
  - assert (0 < 2 ^ (- e)) by (apply Z.pow_pos_nonneg; lia).
    remember (2 ^ (- e)) as p.
    pose proof (Z.div_pos (Z.pos m) p ltac:(lia) ltac:(lia)).
    assert (Z.pos m / p <= Z.pos m) by (apply Z.div_le_upper_bound; [lia|nia]).
    lia.
Qed.

Lemma pos_cmp m n : Pos.compare_cont Eq m n = Z.compare (Z.pos m) (Z.pos n).
Proof. reflexivity. Qed.

(* the guard `!(f >= -0x1p63 && f < 0x1p63)` *)
Theorem float_to_int_guard_signed c z :
  fge c mtwo63 = true -> flt c two63 = true -> f_trunc c = Some z -> - 2 ^ 63 <= z < 2 ^ 63.
Proof.
  unfold flt, fge, fcmp, f_trunc.
  destruct two63_shape as [H63 E63]. destruct mtwo63_shape as [Hm63 Em63]. rewrite E63, Em63. clear E63 Em63.
  destruct (of_bits c) as [s|s|s pl Hpl|s m e Hb]; try discriminate.
  - intros _ _ [= <-]. lia.
  - rewrite !cmp_finite. intros L G [= <-]. clear H63 Hm63.
    destruct (bounded_facts m e Hb) as (Bm & Be & Bn).
    pose proof (fun He => trunc_bound m e Bm He) as T.
    destruct s; unfold cond_Zopp.
    + (* negative *)
      clear G. destruct (Z.compare_spec e 11) as [->|He|He]; try discriminate.
      * rewrite pos_cmp in L. specialize (Bn ltac:(lia)).
        destruct (Z.compare_spec (Z.pos m) 4503599627370496) as [Em|Em|Em]; cbn in L; try discriminate.
        -- unfold trunc_mag. rewrite Em. cbn. lia.
        -- change 4503599627370496 with (2 ^ 52) in Em. lia.
      * specialize (T ltac:(lia)). lia.
    + (* positive *)
      clear L. destruct (Z.compare_spec e 11) as [->|He|He]; try discriminate.
      * rewrite pos_cmp in G. specialize (Bn ltac:(lia)).
        destruct (Z.compare_spec (Z.pos m) 4503599627370496) as [Em|Em|Em]; cbn in G; try discriminate.
        change 4503599627370496 with (2 ^ 52) in Em. lia.
      * specialize (T ltac:(lia)). lia.
Qed.

Lemma mul_bound64 m p : 0 < m < 9007199254740992 -> 0 < p <= 2048 -> 0 < m * p < 18446744073709551616.
Proof.
  intros Hm Hp.
  assert (m * p <= m * 2048) by (apply Z.mul_le_mono_nonneg_l; lia).
  assert (0 < m * p) by (apply Z.mul_pos_pos; lia).
  lia.
Qed.

Lemma trunc_bound64 m e : Z.pos m < 2 ^ 53 -> e <= 11 -> 0 <= trunc_mag m e < 2 ^ 64.
Proof.
  intros Hm He. unfold trunc_mag. change (2 ^ 53) with 9007199254740992 in Hm. change (2 ^ 64) with 18446744073709551616.
  destruct (Z.leb_spec 0 e).
  - assert (2 ^ e <= 2 ^ 11) by (apply Z.pow_le_mono_r; lia).
    assert (0 < 2 ^ e) by (apply Z.pow_pos_nonneg; lia).
    change (2 ^ 11) with 2048 in *.
    pose proof (mul_bound64 (Z.pos m) (2 ^ e) ltac:(lia) ltac:(lia)). lia.
  - assert (0 < 2 ^ (- e)) by (apply Z.pow_pos_nonneg; lia).
    remember (2 ^ (- e)) as p.
    pose proof (Z.div_pos (Z.pos m) p ltac:(lia) ltac:(lia)).
    assert (Z.pos m / p <= Z.pos m) by (apply Z.div_le_upper_bound; [lia|nia]).
    lia.
Qed.

Lemma cmp_finite_zero s1 m1 e1 H1 s2 :
  b64_compare (B754_finite s1 m1 e1 H1) (B754_zero s2) = Some (if s1 then Lt else Gt).
Proof. reflexivity. Qed.

Lemma mone_shape : exists H, of_bits mone = B754_finite true 4503599627370496 (-52) H.
Proof. vm_compute. eexists. reflexivity. Qed.

Lemma cmp_zero_finite s1 s2 m2 e2 H2 :
  b64_compare (B754_zero s1) (B754_finite s2 m2 e2 H2) = Some (if s2 then Gt else Lt).
Proof. reflexivity. Qed.

Lemma small_trunc m e : Z.pos m < 2 ^ 53 -> e < -52 -> trunc_mag m e = 0.
Proof.
  intros Hm He. unfold trunc_mag. destruct (Z.leb_spec 0 e); [lia|].
  apply Z.div_small. split; [lia|].
  apply Z.lt_le_trans with (2 ^ 53); [assumption|]. apply Z.pow_le_mono_r; lia.
Qed.

Lemma trunc_mag_nonneg m e : 0 <= trunc_mag m e.
Proof.
  unfold trunc_mag. destruct (Z.leb_spec 0 e).
  - assert (0 < 2 ^ e) by (apply Z.pow_pos_nonneg; lia). nia.
  - apply Z.div_pos; [lia|]. apply Z.pow_pos_nonneg; lia.
Qed.

(* the guard `!(f > -1.0 && f < 0x1p64)` *)
Theorem float_to_int_guard_unsigned c z :
  fgt c mone = true -> flt c two64 = true -> f_trunc c = Some z -> 0 <= z < 2 ^ 64.
Proof.
  unfold fgt, flt, fcmp, f_trunc.
  destruct two64_shape as [H64 E64]. destruct mone_shape as [Hm1 Em1]. rewrite E64, Em1. clear E64 Em1.
  destruct (of_bits c) as [s|s|s pl Hpl|s m e Hb]; try discriminate.
  - intros _ _ [= <-]. lia.
  - rewrite !cmp_finite. intros L G [= <-]. clear H64 Hm1.
    destruct (bounded_facts m e Hb) as (Bm & Be & Bn).
    destruct s; unfold cond_Zopp.
    + (* negative: only values in (-1, 0] pass, and they truncate to 0 *)
      clear G. destruct (Z.compare_spec e (-52)) as [->|He|He]; try discriminate.
      * rewrite pos_cmp in L. specialize (Bn ltac:(lia)).
        destruct (Z.compare_spec (Z.pos m) 4503599627370496) as [Em|Em|Em]; cbn in L; try discriminate.
        change 4503599627370496 with (2 ^ 52) in Em. lia.
      * rewrite small_trunc by assumption. lia.
    + clear L. destruct (Z.compare_spec e 12) as [->|He|He]; try discriminate.
      * rewrite pos_cmp in G. specialize (Bn ltac:(lia)).
        destruct (Z.compare_spec (Z.pos m) 4503599627370496) as [Em|Em|Em]; cbn in G; try discriminate.
        change 4503599627370496 with (2 ^ 52) in Em. lia.
      * apply trunc_bound64; [assumption|lia].
Qed.

(* conversely: every value whose integral part is representable passes the guard
   (fixed finding float-to-unsigned-negative-fraction-rejected: `(unsigned char)-0.5` is 0) *)
Lemma unsigned_guard_complete c z :
  f_trunc c = Some z -> 0 <= z < 2 ^ 64 -> fgt c mone = true /\ flt c two64 = true.
Proof.
  unfold fgt, flt, fcmp, f_trunc.
  destruct two64_shape as [H64 E64]. destruct mone_shape as [Hm1 Em1]. rewrite E64, Em1. clear E64 Em1.
  destruct (of_bits c) as [s|s|s pl Hpl|s m e Hb]; try discriminate.
  - intros _ _. rewrite !cmp_zero_finite. split; reflexivity.
  - rewrite !cmp_finite. intros [= <-] Hz. clear H64 Hm1.
    destruct (bounded_facts m e Hb) as (Bm & Be & Bn).
    pose proof (trunc_mag_nonneg m e) as T0.
    destruct s; unfold cond_Zopp in Hz.
    + split; [|reflexivity].
      destruct (Z.compare_spec e (-52)) as [->|He|He]; [exfalso|reflexivity|exfalso].
      * specialize (Bn ltac:(lia)). unfold trunc_mag in *. cbn in Hz, T0.
        change (2 ^ 52) with 4503599627370496 in Bn.
        assert (1 <= Z.pos m / 4503599627370496) by (apply Z.div_le_lower_bound; lia). lia.
      * specialize (Bn ltac:(lia)). unfold trunc_mag in *. destruct (Z.leb_spec 0 e).
        -- assert (0 < 2 ^ e) by (apply Z.pow_pos_nonneg; lia). nia.
        -- assert (0 < 2 ^ (- e)) by (apply Z.pow_pos_nonneg; lia).
           assert (2 ^ (- e) <= 2 ^ 52) by (apply Z.pow_le_mono_r; lia).
           assert (1 <= Z.pos m / 2 ^ (- e)) by (apply Z.div_le_lower_bound; lia). lia.
    + split; [reflexivity|].
      destruct (Z.compare_spec e 12) as [->|He|He]; [exfalso|reflexivity|exfalso].
      * specialize (Bn ltac:(lia)). unfold trunc_mag in Hz. cbn in Hz.
        change (2 ^ 52) with 4503599627370496 in Bn. change (2 ^ 64) with 18446744073709551616 in Hz. lia.
      * specialize (Bn ltac:(lia)). unfold trunc_mag in Hz.
        destruct (Z.leb_spec 0 e); [|lia].
        assert (2 ^ 12 <= 2 ^ e) by (apply Z.pow_le_mono_r; lia).
        change (2 ^ 12) with 4096 in *. change (2 ^ 52) with 4503599627370496 in Bn.
        change (2 ^ 64) with 18446744073709551616 in Hz.
        assert (4503599627370496 * 4096 <= Z.pos m * 2 ^ e) by (apply Z.mul_le_mono_nonneg; lia). lia.
Qed.

Theorem float_to_unsigned_total : forall k c z, wf_ity k -> isigned k = false ->
  f_trunc c = Some z -> in_range k z -> cast_const flocq_ops (TInt k) (TFloat 8) c <> Diag.
Proof.
  intros k c z Hk Hs T R.
  destruct (in_range_unsigned k z Hk Hs R) as [_ B].
  destruct (unsigned_guard_complete c z T B) as [L G].
  unfold cast_const.
  replace (is_int (TFloat 8) && is_float (TInt k)) with false by reflexivity.
  replace (is_float (TFloat 8) && is_int (TInt k)) with true by reflexivity.
  replace (is_signed (TInt k)) with (isigned k) by reflexivity. rewrite Hs.
  change (op_fgt flocq_ops) with fgt. change (op_flt flocq_ops) with flt. change (op_f_trunc flocq_ops) with f_trunc.
  rewrite L, G, T. cbn [andb negb]. discriminate.
Qed.

(* a folded float -> integer conversion is the truncated value, which the 64-bit host type can hold,
   reduced modulo 2^N to the target type *)
Theorem float_to_int_fold k sz c v : wf_ity k ->
  cast_const flocq_ops (TInt k) (TFloat sz) c = Val v ->
  exists z, f_trunc c = Some z /\
            (if isigned k then - 2 ^ 63 <= z < 2 ^ 63 else 0 <= z < 2 ^ 64) /\ v = repr k z.
Proof.
  intros Hk.
  assert (C : forall x, cast flocq_ops (TInt k) (x mod M64) = repr k x).
  { intros x. rewrite (cast_wrap flocq_ops k) by assumption. rewrite M64_eq. apply repr_u64. assumption. }
  unfold cast_const.
  replace (is_int (TFloat sz) && is_float (TInt k)) with false by reflexivity.
  replace (is_float (TFloat sz) && is_int (TInt k)) with true by reflexivity.
  replace (is_signed (TInt k)) with (isigned k) by reflexivity.
  change (op_flt flocq_ops) with flt. change (op_fgt flocq_ops) with fgt. change (op_fge flocq_ops) with fge. change (op_f_trunc flocq_ops) with f_trunc.
  unfold of_i64.
  destruct (isigned k) eqn:Hs.
  - destruct (fge c mtwo63) eqn:L; [|discriminate]. destruct (flt c two63) eqn:G; [|discriminate].
    cbn [andb negb].
    destruct (f_trunc c) as [z|] eqn:T; [|discriminate]. rewrite C. intros [= <-]. exists z.
    split; [reflexivity|]. split; [apply (float_to_int_guard_signed c z L G T)|reflexivity].
  - destruct (fgt c mone) eqn:L; [|discriminate]. destruct (flt c two64) eqn:G; [|discriminate].
    cbn [andb negb].
    destruct (f_trunc c) as [z|] eqn:T; [|discriminate]. rewrite C. intros [= <-]. exists z.
    split; [reflexivity|]. split; [apply (float_to_int_guard_unsigned c z L G T)|reflexivity].
Qed.

(* ---- the range tests reject everything that has no integral part: NaN and both infinities ---- *)
Lemma cmp_inf_finite s1 s2 m2 e2 H2 :
  b64_compare (B754_infinity s1) (B754_finite s2 m2 e2 H2) = Some (if s1 then Lt else Gt).
Proof. destruct s1; reflexivity. Qed.

Lemma cmp_nan_l s pl H (y : binary64) : b64_compare (B754_nan s pl H) y = None.
Proof. reflexivity. Qed.

(* a pattern for which `f >= lo` and `f < hi` both hold (lo, hi finite) is a zero or a finite number *)
Lemma signed_guard_finite c : fge c mtwo63 = true -> flt c two63 = true -> exists z, f_trunc c = Some z.
Proof.
  unfold flt, fge, fcmp, f_trunc.
  destruct two63_shape as [H63 E63]. destruct mtwo63_shape as [Hm63 Em63]. rewrite E63, Em63. clear E63 Em63.
  destruct (of_bits c) as [s|s|s pl Hpl|s m e Hb].
  - intros _ _. eexists. reflexivity.
  - rewrite !cmp_inf_finite. destruct s; discriminate.
  - rewrite !cmp_nan_l. discriminate.
  - intros _ _. eexists. reflexivity.
Qed.

Lemma unsigned_guard_finite c : fgt c mone = true -> flt c two64 = true -> exists z, f_trunc c = Some z.
Proof.
  unfold flt, fgt, fcmp, f_trunc.
  destruct two64_shape as [H64 E64]. destruct mone_shape as [Hm1 Em1]. rewrite E64, Em1. clear E64 Em1.
  destruct (of_bits c) as [s|s|s pl Hpl|s m e Hb].
  - intros _ _. eexists. reflexivity.
  - rewrite !cmp_inf_finite. destruct s; discriminate.
  - rewrite !cmp_nan_l. discriminate.
  - intros _ _. eexists. reflexivity.
Qed.

(* every conversion of a constant, whatever the two types and the 64-bit pattern (NaNs of any payload and both
   infinities included), returns a value or a diagnostic: the undefined host conversion is never reached *)
Theorem cast_const_never_host_ub t lt c : cast_const flocq_ops t lt c <> HostUB.
Proof.
  unfold cast_const.
  change (op_flt flocq_ops) with flt. change (op_fgt flocq_ops) with fgt. change (op_fge flocq_ops) with fge. change (op_f_trunc flocq_ops) with f_trunc.
  assert (S : (if negb (fge c mtwo63 && flt c two63) then Diag
               else match f_trunc c with Some z => Val (cast flocq_ops t (of_i64 z)) | None => HostUB end) <> HostUB).
  { destruct (fge c mtwo63) eqn:L; [|discriminate]. destruct (flt c two63) eqn:G; [|discriminate].
    destruct (signed_guard_finite c L G) as [z ->]. discriminate. }
  assert (U : (if negb (fgt c mone && flt c two64) then Diag
               else match f_trunc c with Some z => Val (cast flocq_ops t (z mod M64)) | None => HostUB end) <> HostUB).
  { destruct (fgt c mone) eqn:L; [|discriminate]. destruct (flt c two64) eqn:G; [|discriminate].
    destruct (unsigned_guard_finite c L G) as [z ->]. discriminate. }
  destruct t; try discriminate;
    (destruct (is_int lt && is_float _); [discriminate|]);
    (destruct (is_float lt && is_int _); [|discriminate]);
    (destruct (is_signed _); assumption).
Qed.

Theorem float_to_int_never_host_ub k sz c : cast_const flocq_ops (TInt k) (TFloat sz) c <> HostUB.
Proof. apply cast_const_never_host_ub. Qed.

(* and a NaN is always diagnosed *)
Theorem nan_to_int_diag k sz c : is_nan_bits c = true -> cast_const flocq_ops (TInt k) (TFloat sz) c = Diag.
Proof.
  intros N. unfold cast_const.
  replace (is_int (TFloat sz) && is_float (TInt k)) with false by reflexivity.
  replace (is_float (TFloat sz) && is_int (TInt k)) with true by reflexivity.
  change (op_flt flocq_ops) with flt. change (op_fgt flocq_ops) with fgt. change (op_fge flocq_ops) with fge.
  assert (A : fge c mtwo63 = false /\ fgt c mone = false).
  { revert N. unfold is_nan_bits, fge, fgt, fcmp. destruct (of_bits c); try discriminate. intros _. split; reflexivity. }
  destruct A as [-> ->]. cbn [andb negb]. destruct (is_signed (TInt k)); reflexivity.
Qed.
