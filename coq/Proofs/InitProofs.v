(* C07 - proofs about init.c:initadd (Model/Init.v) against the specification's overlay (Spec/InitSpec.v). *)
From Coq Require Import List NArith Bool Lia Sorted PeanoNat.
From Cproc Require Import Lib.InitBits Model.Init Spec.InitSpec.
Import ListNotations.
Local Open Scope N_scope.

(* ------------------------------------------------------------------------------ bit-level lemmas *)
Lemma setbits_spec x p w v b :
  N.testbit (setbits x p w v) b = if (p <=? b) && (b <? p + w) then N.testbit v (b - p) else N.testbit x b.
Proof.
  unfold setbits. rewrite N.lor_spec, N.ldiff_spec.
  destruct (N.leb_spec p b) as [Hpb|Hpb]; simpl.
  - rewrite !N.shiftl_spec_high' by exact Hpb.
    destruct (N.ltb_spec b (p + w)) as [Hb|Hb].
    + rewrite N.ones_spec_low by lia. simpl. rewrite andb_false_r. simpl.
      apply N.mod_pow2_bits_low. lia.
    + rewrite N.ones_spec_high by lia. simpl. rewrite andb_true_r.
      rewrite N.mod_pow2_bits_high by lia. apply orb_false_r.
  - rewrite !N.shiftl_spec_low by exact Hpb. simpl. rewrite andb_true_r, orb_false_r. reflexivity.
Qed.

Lemma getbits_spec x p w b : N.testbit (getbits x p w) b = if b <? w then N.testbit x (b + p) else false.
Proof.
  unfold getbits. destruct (N.ltb_spec b w) as [H|H].
  - rewrite N.mod_pow2_bits_low by exact H. apply N.shiftr_spec'.
  - apply N.mod_pow2_bits_high. exact H.
Qed.

(* ------------------------------------------------------------ the overlay, bit by bit *)
Definition covers (lf : leaf) (b : N) : bool := (l_pos lf <=? b) && (b <? l_pos lf + l_width lf).

(* the last leaf of the list that contains bit b *)
Fixpoint lastcover (l : list leaf) (b : N) : option leaf :=
  match l with
  | [] => None
  | lf :: r => match lastcover r b with
               | Some x => Some x
               | None => if covers lf b then Some lf else None
               end
  end.

Lemma fold_write_bit en l : forall x b,
  N.testbit (fold_left (write en) l x) b =
  match lastcover l b with
  | Some lf => N.testbit (payload_num en (l_val lf)) (b - l_pos lf)
  | None => N.testbit x b
  end.
Proof.
  induction l as [|lf r IH]; intros x b; simpl; [reflexivity|].
  rewrite IH. destruct (lastcover r b); [reflexivity|].
  unfold write. rewrite setbits_spec. unfold covers. destruct ((l_pos lf <=? b) && (b <? l_pos lf + l_width lf)); reflexivity.
Qed.

Lemma write_bit en x lf b :
  N.testbit (write en x lf) b = if covers lf b then N.testbit (payload_num en (l_val lf)) (b - l_pos lf) else N.testbit x b.
Proof. unfold write, covers. apply setbits_spec. Qed.

Lemma lastcover_app l1 l2 b :
  lastcover (l1 ++ l2) b = match lastcover l2 b with Some x => Some x | None => lastcover l1 b end.
Proof.
  induction l1 as [|a l1 IH]; simpl.
  - destruct (lastcover l2 b); reflexivity.
  - rewrite IH. destruct (lastcover l2 b); reflexivity.
Qed.

Lemma lastcover_none l b : Forall (fun lf => covers lf b = false) l -> lastcover l b = None.
Proof.
  induction 1 as [|lf r H _ IH]; simpl; [reflexivity|]. rewrite IH, H. reflexivity.
Qed.

Lemma SS_app_inv_r {A} (R : A -> A -> Prop) (a b : list A) : StronglySorted R (a ++ b) -> StronglySorted R b.
Proof. induction a as [|x a IH]; simpl; intros H; [exact H|]. inversion H; subst. auto. Qed.

Lemma SS_app_inv_l {A} (R : A -> A -> Prop) (a b : list A) : StronglySorted R (a ++ b) -> StronglySorted R a.
Proof.
  induction a as [|x a IH]; simpl; intros H; [constructor|]. inversion H as [|? ? H1 H2]; subst.
  constructor; [auto|]. rewrite Forall_forall in H2 |- *. intros y Hy. apply H2. apply in_or_app. left. exact Hy.
Qed.

Lemma SS_app_cross {A} (R : A -> A -> Prop) (a b : list A) x y : StronglySorted R (a ++ b) -> In x a -> In y b -> R x y.
Proof.
  induction a as [|z a IH]; simpl; intros H Hx Hy; [contradiction|]. inversion H as [|? ? H1 H2]; subst.
  destruct Hx as [->|Hx]; [|auto]. rewrite Forall_forall in H2. apply H2. apply in_or_app. right. exact Hy.
Qed.

Lemma SS_app {A} (R : A -> A -> Prop) (a b : list A) :
  StronglySorted R a -> StronglySorted R b -> (forall x y, In x a -> In y b -> R x y) -> StronglySorted R (a ++ b).
Proof.
  induction a as [|z a IH]; simpl; intros Ha Hb Hc; [exact Hb|]. inversion Ha as [|? ? H1 H2]; subst.
  constructor; [apply IH; auto|]. rewrite Forall_forall in H2 |- *. intros y Hy. apply in_app_or in Hy. destruct Hy; auto.
Qed.

(* ------------------------------------------------------------------------------------ initadd *)
Definition nonempty (i : init) : Prop := bstart i < bend i.
Definition inside (n o : init) : Prop := bstart n <= bstart o /\ bend o <= bend n.        (* n covers o *)
Definition before (a b : init) : Prop := bend a <= bstart b.
(* laminar: disjoint or nested *)
Definition compat (n o : init) : Prop := before o n \/ before n o \/ inside n o \/ inside o n.
(* the order the list is kept in: an entry precedes the entries after it and the entries nested in it *)
Definition ord (a b : init) : Prop := before a b \/ inside a b.
Definition Inv (l : list init) : Prop := StronglySorted ord l.
(* what the loop walks past: entries before `n` and entries that strictly cover `n` *)
Definition skips (n o : init) : Prop :=
  before o n \/ (inside o n /\ ~ inside n o).

Definition cov (i : init) (b : N) : bool := (bstart i <=? b) && (b <? bend i).

Lemma covers_leaf_of i b : bstart i <= bend i -> covers (leaf_of i) b = cov i b.
Proof.
  intros H. unfold covers, leaf_of, cov. simpl. replace (bstart i + (bend i - bstart i)) with (bend i) by lia. reflexivity.
Qed.

Lemma dropcov_split n : forall r,
  exists d k, r = d ++ k /\ dropcov r n = k /\ Forall (fun y => bend y <= bend n) d /\
              match k with [] => True | z :: _ => bend n < bend z end.
Proof.
  induction r as [|y r IH]; simpl.
  - exists [], []. repeat split; constructor.
  - destruct (N.leb_spec (bend y) (bend n)) as [H|H].
    + destruct IH as (d & k & -> & Hk & Hd & Hz). exists (y :: d), k. repeat split; auto.
    + exists [], (y :: r). repeat split; auto.
Qed.

Lemma ord_tail_after o y n : nonempty o -> ord o y -> bend n <= bstart o -> bend n <= bstart y.
Proof. unfold nonempty, ord, before, inside. intros Ho [H|[H1 H2]] Hn; lia. Qed.

(* the structure of the result: l = l1 ++ l2 ++ l3, result = l1 ++ n :: l3 *)
Lemma go_split n : nonempty n -> forall l,
  Forall nonempty l -> Inv l -> Forall (compat n) l ->
  exists l1 l2 l3, l = l1 ++ l2 ++ l3 /\ initadd_go l n = (l1 ++ n :: l3, length l1) /\
    Forall (skips n) l1 /\ Forall (inside n) l2 /\ Forall (before n) l3.
Proof.
  intros Hn. induction l as [|o r IH]; intros Hne HInv Hc.
  - exists [], [], []. simpl. repeat split; constructor.
  - inversion Hne as [|? ? Ho Hner]; subst. inversion HInv as [|? ? HInvr Hor]; subst.
    inversion Hc as [|? ? Hco Hcr]; subst. simpl.
    destruct (N.leb_spec (bend o) (bstart n)) as [H1|H1].
    { destruct (IH Hner HInvr Hcr) as (l1 & l2 & l3 & -> & Hgo & A & B & C). rewrite Hgo.
      exists (o :: l1), l2, l3. repeat split; auto. constructor; auto. left. exact H1. }
    destruct (N.leb_spec (bend n) (bstart o)) as [H2|H2].
    { exists [], [], (o :: r). simpl. repeat split; try constructor; auto.
      rewrite Forall_forall in Hor |- *. intros y Hy. unfold before.
      eapply ord_tail_after; eauto. }
    destruct (N.leb_spec (bstart n) (bstart o)) as [H3|H3]; simpl.
    + destruct (N.leb_spec (bend o) (bend n)) as [H4|H4]; simpl.
      * (* n covers o: o and the following covered entries are dropped *)
        destruct (dropcov_split n r) as (d & k & -> & Hk & Hd & Hz). rewrite Hk.
        exists [], (o :: d), k. simpl. repeat split; auto.
        -- constructor; [split; assumption|].
           rewrite Forall_forall in Hd, Hor |- *. intros y Hy. split; [|apply Hd; exact Hy].
           assert (Hoy : ord o y) by (apply Hor; apply in_or_app; left; exact Hy).
           unfold nonempty, ord, before, inside in *. destruct Hoy as [?|[? ?]]; lia.
        -- (* what remains lies after n *)
           destruct k as [|z k']; [constructor|].
           assert (Hoz : ord o z) by (rewrite Forall_forall in Hor; apply Hor; apply in_or_app; right; left; reflexivity).
           assert (Hcz : compat n z) by (rewrite Forall_forall in Hcr; apply Hcr; apply in_or_app; right; left; reflexivity).
           assert (Hnz : nonempty z) by (rewrite Forall_forall in Hner; apply Hner; apply in_or_app; right; left; reflexivity).
           assert (Hz' : before n z).
           { unfold nonempty, ord, compat, before, inside in *.
             destruct Hoz as [?|[? ?]]; destruct Hcz as [?|[?|[[? ?]|[? ?]]]]; lia. }
           constructor; [exact Hz'|].
           apply SS_app_inv_r in HInvr. inversion HInvr as [|? ? _ Hzk]; subst.
           rewrite Forall_forall in Hzk, Hner |- *. intros y Hy.
           unfold before in *. eapply ord_tail_after; [exact Hnz|apply Hzk; exact Hy|exact Hz'].
      * (* o starts where n starts and ends later: o covers n strictly, keep looking *)
        destruct (IH Hner HInvr Hcr) as (l1 & l2 & l3 & -> & Hgo & A & B & C). rewrite Hgo.
        exists (o :: l1), l2, l3. repeat split; auto. constructor; auto. right.
        unfold nonempty, compat, before, inside in *. destruct Hco as [?|[?|[[? ?]|[? ?]]]]; lia.
    + (* o covers n strictly: keep looking *)
      destruct (IH Hner HInvr Hcr) as (l1 & l2 & l3 & -> & Hgo & A & B & C). rewrite Hgo.
      exists (o :: l1), l2, l3. repeat split; auto. constructor; auto. right.
      unfold nonempty, compat, before, inside in *. destruct Hco as [?|[?|[[? ?]|[? ?]]]]; lia.
Qed.

(* entries the loop walks past can be split off *)
Lemma go_prefix n : nonempty n -> forall p s, Forall nonempty p -> Forall (skips n) p ->
  initadd_go (p ++ s) n = (p ++ fst (initadd_go s n), (length p + snd (initadd_go s n))%nat).
Proof.
  intros Hn. induction p as [|o p IH]; intros s Hne Hs; simpl.
  - destruct (initadd_go s n); reflexivity.
  - inversion Hne as [|? ? Ho Hnep]; subst. inversion Hs as [|? ? Hso Hsp]; subst.
    rewrite (IH s Hnep Hsp). simpl.
    destruct (N.leb_spec (bend o) (bstart n)) as [H1|H1]; [reflexivity|].
    destruct Hso as [Hb|[[Hi1 Hi2] Hni]]; [unfold before in Hb; lia|].
    destruct (N.leb_spec (bend n) (bstart o)) as [H2|H2]; [unfold nonempty in *; lia|].
    destruct (N.leb_spec (bstart n) (bstart o)) as [H3|H3]; simpl; [|reflexivity].
    destruct (N.leb_spec (bend o) (bend n)) as [H4|H4]; simpl; [|reflexivity].
    exfalso. apply Hni. split; assumption.
Qed.

Definition Pre (l : list init) (last : nat) (n : init) : Prop :=
  (last <= length l)%nat /\ nonempty n /\ Forall nonempty l /\ Inv l /\ Forall (compat n) l /\ Forall (skips n) (firstn last l).

Lemma initadd_split l last n : Pre l last n ->
  exists l1 l2 l3, l = l1 ++ l2 ++ l3 /\ initadd l last n = (l1 ++ n :: l3, S (length l1)) /\
    Forall (skips n) l1 /\ Forall (inside n) l2 /\ Forall (before n) l3.
Proof.
  intros (Hlast & Hn & Hne & HInv & Hc & Hsk).
  assert (Hl : l = firstn last l ++ skipn last l) by (symmetry; apply firstn_skipn).
  assert (Hne2 : Forall nonempty (skipn last l)).
  { rewrite Forall_forall in Hne |- *. intros x Hx. apply Hne. rewrite Hl. apply in_or_app. right. exact Hx. }
  assert (HInv2 : Inv (skipn last l)) by (unfold Inv in *; rewrite Hl in HInv; eapply SS_app_inv_r; exact HInv).
  assert (Hc2 : Forall (compat n) (skipn last l)).
  { rewrite Forall_forall in Hc |- *. intros x Hx. apply Hc. rewrite Hl. apply in_or_app. right. exact Hx. }
  destruct (go_split n Hn (skipn last l) Hne2 HInv2 Hc2) as (l1 & l2 & l3 & Hs & Hgo & A & B & C).
  exists (firstn last l ++ l1), l2, l3. unfold initadd. rewrite Hgo.
  split; [rewrite <- app_assoc, <- Hs; exact Hl|].
  split.
  - rewrite <- app_assoc. f_equal. rewrite app_length, firstn_length_le by exact Hlast. lia.
  - split; [apply Forall_app; split; assumption|]. split; assumption.
Qed.

(* starting the search at p->last instead of the list head changes nothing *)
Theorem initadd_last_irrelevant l last n : Pre l last n -> fst (initadd l last n) = fst (initadd l 0 n).
Proof.
  intros (Hlast & Hn & Hne & HInv & Hc & Hsk). unfold initadd. simpl.
  assert (E : initadd_go l n = initadd_go (firstn last l ++ skipn last l) n) by (rewrite firstn_skipn; reflexivity).
  rewrite E, go_prefix; auto.
  - destruct (initadd_go (skipn last l) n). reflexivity.
  - rewrite Forall_forall in Hne |- *. intros x Hx. apply Hne. rewrite <- (firstn_skipn last l). apply in_or_app. left. exact Hx.
Qed.

(* the list stays ordered (entries before the entries after them and before the entries nested in them),
   and p->last points just behind the new entry *)
Theorem initadd_sorted l last n : Pre l last n ->
  Inv (fst (initadd l last n)) /\ Forall nonempty (fst (initadd l last n)) /\
  nth_error (fst (initadd l last n)) (pred (snd (initadd l last n))) = Some n.
Proof.
  intros HP. pose proof HP as (Hlast & Hn & Hne & HInv & Hc & Hsk).
  destruct (initadd_split l last n HP) as (l1 & l2 & l3 & Hl & -> & A & B & C). simpl. subst l.
  split; [|split].
  - unfold Inv in *. apply SS_app.
    + eapply SS_app_inv_l. exact HInv.
    + constructor.
      * apply SS_app_inv_r in HInv. apply SS_app_inv_r in HInv. exact HInv.
      * rewrite Forall_forall in C |- *. intros y Hy. left. apply C. exact Hy.
    + intros x y Hx [<-|Hy].
      * rewrite Forall_forall in A. destruct (A x Hx) as [Hb|[Hi _]]; [left; exact Hb|right; exact Hi].
      * eapply SS_app_cross; [exact HInv|exact Hx|apply in_or_app; right; exact Hy].
  - rewrite Forall_forall in Hne |- *. intros x Hx. apply in_app_or in Hx. destruct Hx as [Hx|[<-|Hx]]; [|exact Hn|].
    + apply Hne. apply in_or_app. left. exact Hx.
    + apply Hne. apply in_or_app. right. apply in_or_app. right. exact Hx.
  - rewrite nth_error_app2 by lia. rewrite Nat.sub_diag. reflexivity.
Qed.

Lemma cov_false_inside n o b : inside n o -> cov n b = false -> cov o b = false.
Proof.
  unfold inside, cov. intros [H1 H2] H.
  destruct (N.leb_spec (bstart o) b), (N.ltb_spec b (bend o)); simpl; try reflexivity.
  destruct (N.leb_spec (bstart n) b), (N.ltb_spec b (bend n)); simpl in H; try discriminate; lia.
Qed.

Lemma cov_false_after n o b : before n o -> cov n b = true -> cov o b = false.
Proof.
  unfold before, cov. intros H1 H.
  destruct (N.leb_spec (bstart n) b), (N.ltb_spec b (bend n)); simpl in H; try discriminate.
  destruct (N.leb_spec (bstart o) b); simpl; [lia|reflexivity].
Qed.

Lemma lastcover_map_none (P : init -> Prop) l b :
  Forall nonempty l -> Forall P l -> (forall o, P o -> cov o b = false) -> lastcover (map leaf_of l) b = None.
Proof.
  intros Hne HP H. apply lastcover_none. rewrite Forall_forall in *. intros lf Hlf.
  apply in_map_iff in Hlf. destruct Hlf as (o & <- & Ho).
  rewrite covers_leaf_of by (specialize (Hne o Ho); unfold nonempty in Hne; lia). apply H. apply HP. exact Ho.
Qed.

(* HEADLINE: adding an entry to the list = overriding the denoted image with the new leaf write *)
Theorem initadd_denote en l last n : Pre l last n ->
  denote en (fst (initadd l last n)) = write en (denote en l) (leaf_of n).
Proof.
  intros HP. pose proof HP as (Hlast & Hn & Hne & HInv & Hc & Hsk).
  destruct (initadd_split l last n HP) as (l1 & l2 & l3 & Hl & -> & A & B & C). simpl. subst l.
  assert (Hne1 : Forall nonempty l1 /\ Forall nonempty l2 /\ Forall nonempty l3).
  { rewrite !Forall_app in Hne. tauto. }
  destruct Hne1 as (Hne1 & Hne2 & Hne3).
  apply N.bits_inj. intros b. unfold denote, overlay.
  rewrite write_bit. rewrite !fold_write_bit. rewrite !map_app. simpl map. rewrite !lastcover_app. simpl lastcover.
  rewrite covers_leaf_of by (unfold nonempty in Hn; lia).
  destruct (cov n b) eqn:Hcov.
  - rewrite (lastcover_map_none (before n) l3 b Hne3 C) by (intros o Ho; eapply cov_false_after; eauto).
    reflexivity.
  - destruct (lastcover (map leaf_of l3) b); [reflexivity|].
    rewrite (lastcover_map_none (inside n) l2 b Hne2 B) by (intros o Ho; eapply cov_false_inside; eauto).
    reflexivity.
Qed.

(* ------------------------------------------------- the whole list: initializers added in source order *)
(* `built l src`: the list l results from adding the entries src one after the other (each time under the
   precondition of initadd: laminar ranges, the search position p->last only skips what the loop would skip) *)
Inductive built : list init -> list init -> Prop :=
| built_nil : built [] []
| built_add l src last n : built l src -> Pre l last n -> built (fst (initadd l last n)) (src ++ [n]).

(* later initializers override earlier ones: the list denotes the overlay of the leaf writes in SOURCE order *)
Theorem built_denote en l src : built l src -> denote en l = overlay en (map leaf_of src).
Proof.
  induction 1 as [|l src last n Hb IH HP]; [reflexivity|].
  rewrite (initadd_denote en l last n HP), IH. unfold overlay. rewrite map_app, fold_left_app. reflexivity.
Qed.

Theorem built_sorted l src : built l src -> Inv l /\ Forall nonempty l.
Proof.
  induction 1 as [|l src last n Hb IH HP]; [split; constructor|].
  destruct (initadd_sorted l last n HP) as (A & B & _). split; assumption.
Qed.

(* The laminarity hypothesis cannot be dropped: with partially overlapping ranges (sub-objects of different members
   of a union: [0,4) [4,12) then [0,8)) the new entry replaces the entries it covers and is put BEFORE an entry it
   only partly overlaps, which then wrongly takes precedence. *)
Definition po_A := mkinit 0 1 (mkbf 0 4) (EConst false 1 15).
Definition po_B := mkinit 0 2 (mkbf 4 4) (EConst false 2 255).
Definition po_n := mkinit 0 1 (mkbf 0 0) (EConst false 1 0).

Theorem initadd_partial_overlap_refuted :
  exists en l n, Inv l /\ Forall nonempty l /\ nonempty n /\
    denote en (fst (initadd l 0 n)) <> write en (denote en l) (leaf_of n).
Proof.
  exists (mkenv (fun _ => 0) (fun _ => 0)), [po_A; po_B], po_n.
  split; [|split; [|split]].
  - unfold Inv. constructor; [constructor; [constructor|constructor]|].
    constructor; [|constructor]. left. vm_compute. intros HH; discriminate HH.
  - repeat constructor.
  - vm_compute. reflexivity.
  - vm_compute. intros HH; discriminate HH.
Qed.

(* non-vacuity of initadd_denote / initadd_sorted: a string entry covering an element override; a third entry is
   added behind them starting the search at p->last = 2 *)
Definition ex_S := mkinit 0 8 nobits (EString 1 [97; 98; 99; 0]).
Definition ex_x := mkinit 1 2 nobits (EConst false 1 120).
Definition ex_y := mkinit 2 3 nobits (EConst false 1 121).

Example initadd_nonvacuous :
  Pre [ex_S; ex_x] 2 ex_y /\ initadd [ex_S; ex_x] 2 ex_y = ([ex_S; ex_x; ex_y], 3%nat) /\
  Pre [ex_S; ex_x; ex_y] 0 ex_x /\ fst (initadd [ex_S; ex_x; ex_y] 0 ex_x) = [ex_S; ex_x; ex_y].
Proof.
  assert (L : forall a b : N, (a <=? b) = true -> a <= b) by (intros a b; apply N.leb_le).
  assert (L2 : forall a b : N, (a <? b) = true -> a < b) by (intros a b; apply N.ltb_lt).
  split; [|split; [reflexivity|split; [|reflexivity]]].
  - split; [simpl; lia|]. split; [apply L2; reflexivity|]. split; [repeat constructor|].
    split; [|split].
    + unfold Inv. constructor; [constructor; [constructor|constructor]|]. constructor; [|constructor].
      right. split; apply L; reflexivity.
    + constructor; [|constructor; [|constructor]].
      * right. right. right. split; apply L; reflexivity.
      * left. apply L. reflexivity.
    + constructor; [|constructor; [|constructor]].
      * right. split; [split; apply L; reflexivity|]. intros [HH _]. revert HH. vm_compute. intros HH. apply HH. reflexivity.
      * left. apply L. reflexivity.
  - split; [simpl; lia|]. split; [apply L2; reflexivity|]. split; [repeat constructor|].
    split; [|split; [|constructor]].
    + unfold Inv. constructor; [constructor; [constructor; [constructor|constructor]|]|].
      * constructor; [|constructor]. left. apply L. reflexivity.
      * constructor; [|constructor; [|constructor]]; right; split; apply L; reflexivity.
    + constructor; [|constructor; [|constructor; [|constructor]]].
      * right. right. right. split; apply L; reflexivity.
      * right. right. left. split; apply L; reflexivity.
      * right. left. apply L. reflexivity.
Qed.
