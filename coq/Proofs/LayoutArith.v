(* C06 - arithmetic facts: ALIGNDOWN/ALIGNUP on 64-bit words versus round-down/round-up in Z. *)
From Coq Require Import ZArith List Bool Lia.
From Cproc Require Import Model.Layout Spec.AbiLayout.
Import ListNotations.
Open Scope Z_scope.

Ltac dlia := Z.div_mod_to_equations; lia.

Definition pow2 (n : Z) : Prop := exists k, 0 <= k <= 30 /\ n = 2 ^ k.

Lemma pow2_pos n : pow2 n -> 1 <= n <= 2 ^ 30.
Proof.
  intros (k & Hk & ->). split.
  - pose proof (Z.pow_pos_nonneg 2 k). lia.
  - apply Z.pow_le_mono_r; lia.
Qed.

Lemma pow2_1 : pow2 1. Proof. exists 0. split; [lia|reflexivity]. Qed.

Lemma pow2_max a b : pow2 a -> pow2 b -> pow2 (Z.max a b).
Proof. intros. destruct (Z.max_spec a b) as [[_ ->]|[_ ->]]; assumption. Qed.

Lemma pow2_divide a b : pow2 a -> pow2 b -> a <= b -> (a | b).
Proof.
  intros (i & Hi & ->) (j & Hj & ->) Hle.
  assert (i <= j). { apply (Z.pow_le_mono_r_iff 2); lia. }
  exists (2 ^ (j - i)). rewrite <- Z.pow_add_r by lia. f_equal. lia.
Qed.

Lemma pow2_divide_max_l a b : pow2 a -> pow2 b -> (a | Z.max a b).
Proof. intros. apply pow2_divide; auto using pow2_max. lia. Qed.

Lemma pow2_divide_max_r a b : pow2 a -> pow2 b -> (b | Z.max a b).
Proof. intros. apply pow2_divide; auto using pow2_max. lia. Qed.

(* ------------------------------------------------------------------ roundup *)
Lemma roundup_ge x n : 0 < n -> x <= roundup x n.
Proof. intros. unfold roundup. dlia. Qed.

Lemma roundup_lt x n : 0 < n -> roundup x n < x + n.
Proof. intros. unfold roundup. dlia. Qed.

Lemma roundup_divide x n : (n | roundup x n).
Proof. unfold roundup. exists ((x + n - 1) / n). reflexivity. Qed.

Lemma roundup_mod x n : 0 < n -> roundup x n mod n = 0.
Proof. intros. unfold roundup. apply Z.mod_mul. lia. Qed.

Lemma roundup_id x n : 0 < n -> (n | x) -> roundup x n = x.
Proof.
  intros Hn (q & ->). unfold roundup.
  replace (q * n + n - 1) with ((n - 1) + q * n) by lia.
  rewrite Z.div_add by lia. rewrite Z.div_small by lia. lia.
Qed.

Lemma roundup_1 x : roundup x 1 = x.
Proof. unfold roundup. rewrite Z.div_1_r. lia. Qed.

Lemma roundup_mono x y n : 0 < n -> x <= y -> roundup x n <= roundup y n.
Proof.
  intros. unfold roundup. apply Z.mul_le_mono_nonneg_r; [lia|].
  apply Z.div_le_mono; lia.
Qed.

(* least multiple of n that is >= x *)
Lemma roundup_least x n m : 0 < n -> (n | m) -> x <= m -> roundup x n <= m.
Proof.
  intros Hn (q & ->) Hle. unfold roundup.
  apply Z.mul_le_mono_nonneg_r; [lia|].
  assert ((x + n - 1) / n < q + 1); [|lia].
  apply Z.div_lt_upper_bound; lia.
Qed.

Lemma roundup_coarser x a b : 0 < a -> 0 < b -> (a | b) -> roundup x a <= roundup x b.
Proof.
  intros Ha Hb Hd. apply roundup_least; auto.
  - eapply Z.divide_trans; [exact Hd|apply roundup_divide].
  - apply roundup_ge; auto.
Qed.

Lemma bytes_of_pos size bits : 0 <= bits < 8 -> bytes (8 * size - bits) = size.
Proof. intros. unfold bytes. dlia. Qed.

Lemma bytes_mono p q : p <= q -> bytes p <= bytes q.
Proof. intros. unfold bytes. apply Z.div_le_mono; lia. Qed.

Lemma bytes_ge p : p <= 8 * bytes p.
Proof. unfold bytes. dlia. Qed.

Lemma bytes_8 x : bytes (8 * x) = x.
Proof. unfold bytes. dlia. Qed.

Lemma divide_step a x y : 0 < a -> (a | x) -> (a | y) -> x < y -> x + a <= y.
Proof. intros Ha (p & ->) (q & ->) Hlt. assert (p < q) by nia. nia. Qed.

(* ------------------------------------------------------------------ 64-bit words *)
Lemma W64_eq : W64 = 2 ^ 64. Proof. reflexivity. Qed.

Lemma w64_small x : 0 <= x < W64 -> w64 x = x.
Proof. intros. unfold w64. apply Z.mod_small. assumption. Qed.

Lemma w64_neg_pow2 k : 0 <= k < 64 -> w64 (- 2 ^ k) = W64 - 2 ^ k.
Proof.
  intros Hk. unfold w64.
  assert (0 < 2 ^ k <= 2 ^ 63).
  { split; [apply Z.pow_pos_nonneg; lia|apply Z.pow_le_mono_r; lia]. }
  assert (2 ^ 63 < W64) by (unfold W64; lia).
  symmetry. apply (Z.mod_unique _ _ (-1)); lia.
Qed.

Lemma testbit_above x i : 0 <= x < 2 ^ i -> 0 <= i -> Z.testbit x i = false.
Proof.
  intros [H0 H1] Hi. destruct (Z.eq_dec x 0) as [->|Hx]; [apply Z.bits_0|].
  apply Z.bits_above_log2; [lia|]. apply Z.log2_lt_pow2; lia.
Qed.

Lemma land_high_mask x k : 0 <= x < W64 -> 0 <= k < 64 -> Z.land x (W64 - 2 ^ k) = x - x mod 2 ^ k.
Proof.
  intros Hx Hk.
  assert (Hm : W64 - 2 ^ k = Z.shiftl (Z.ones (64 - k)) k).
  { rewrite Z.shiftl_mul_pow2, Z.ones_equiv by lia.
    rewrite Z.mul_pred_l, <- Z.pow_add_r by lia.
    replace (64 - k + k) with 64 by lia. reflexivity. }
  rewrite Hm.
  assert (Hr : x - x mod 2 ^ k = Z.shiftl (Z.shiftr x k) k).
  { rewrite Z.shiftl_mul_pow2, Z.shiftr_div_pow2 by lia.
    assert (0 < 2 ^ k) by (apply Z.pow_pos_nonneg; lia).
    pose proof (Z.div_mod x (2 ^ k)). lia. }
  rewrite Hr.
  apply Z.bits_inj'. intros i Hi. rewrite Z.land_spec.
  destruct (Z_lt_ge_dec i k).
  - rewrite !Z.shiftl_spec_low by lia. apply andb_false_r.
  - rewrite !Z.shiftl_spec by lia. rewrite Z.shiftr_spec by lia.
    replace (i - k + k) with i by lia.
    destruct (Z_lt_ge_dec i 64).
    + rewrite Z.ones_spec_low by lia. apply andb_true_r.
    + rewrite Z.ones_spec_high by lia. rewrite andb_false_r. symmetry.
      apply testbit_above; [|lia]. split; [lia|].
      apply Z.lt_le_trans with (2 ^ 64); [unfold W64 in Hx; lia|].
      apply Z.pow_le_mono_r; lia.
Qed.

Lemma aligndown_spec x n : 0 <= x < W64 -> pow2 n -> aligndown x n = x - x mod n.
Proof.
  intros Hx (k & Hk & ->). unfold aligndown.
  rewrite w64_neg_pow2 by lia. apply land_high_mask; lia.
Qed.

Lemma aligndown_mul x n : 0 <= x < W64 -> pow2 n -> aligndown x n = n * (x / n).
Proof.
  intros Hx Hn. rewrite aligndown_spec by assumption.
  pose proof (pow2_pos _ Hn). pose proof (Z.div_mod x n). lia.
Qed.

Lemma alignup_spec x n : 0 <= x -> x + n <= W64 -> pow2 n -> alignup x n = roundup x n.
Proof.
  intros Hx Hb Hn. pose proof (pow2_pos _ Hn). unfold alignup.
  rewrite (w64_small (x + n - 1)) by lia.
  rewrite aligndown_mul by (auto; lia). unfold roundup. lia.
Qed.

(* non-vacuity of the word-level facts on concrete numbers *)
Example alignup_examples :
  alignup 5 4 = 8 /\ alignup 8 4 = 8 /\ aligndown 7 4 = 4 /\ alignup 0 16 = 0 /\
  alignup (W64 - 1) 4 = 0 (* wraps *) /\ roundup (W64 - 1) 4 = W64.
Proof. vm_compute. repeat split. Qed.
