(* C06 - layout_inv: structural invariants of every record layout the specification produces,
   for all member sequences (induction over the member list), transported to the model by layout_abi. *)
From Coq Require Import ZArith List Bool Lia.
From Cproc Require Import Model.Layout Spec.AbiLayout Proofs.LayoutArith Proofs.LayoutProofs.
Import ListNotations.
Open Scope Z_scope.
#[local] Arguments Z.mul : simpl never.
#[local] Arguments Z.add : simpl never.
#[local] Arguments Z.sub : simpl never.
#[local] Arguments Z.div : simpl never.
#[local] Arguments Z.modulo : simpl never.
#[local] Arguments Z.max : simpl never.
#[local] Arguments Z.ltb : simpl never.
#[local] Arguments Z.leb : simpl never.
#[local] Arguments Z.eqb : simpl never.

(* first and one-past-last bit of a member, counted from the start of the record *)
Definition lo (m : member) : Z := 8 * m_offset m + m_before m.
Definition hi (m : member) : Z := 8 * (m_offset m + m_tsize m) - m_after m.

Definition creates (it : item) : bool := match it with IUnnamedBf _ _ => false | _ => true end.

(* what the layout guarantees for the member created by an item *)
Definition placed_ok (pack : bool) (it : item) (m : member) : Prop :=
  match it with
  | INamed t a None | IAnon t a =>
      m_tsize m = t_size t /\ m_before m = 0 /\ m_after m = 0 /\
      ((if a =? 0 then if pack then 1 else t_align t else a) | m_offset m)      (* aligned, 1 when packed *)
  | INamed t a (Some w) =>
      m_tsize m = t_size t /\ 8 * t_size t - m_before m - m_after m = w /\     (* before + width + after = 8 * unit *)
      (t_size t | m_offset m)                                                    (* the unit is naturally aligned *)
  | IUnnamedBf _ _ => False
  end.

Definition member_basic (m : member) : Prop :=
  0 <= m_offset m /\ 0 <= m_tsize m /\ 0 <= m_before m /\ 0 <= m_after m /\ m_before m + m_after m <= 8 * m_tsize m.

Definition unit_in (pos align : Z) (m : member) : Prop :=
  m_offset m + m_tsize m <= bytes pos \/
  (m_offset m < bytes pos /\ 0 < m_tsize m /\ (m_tsize m | m_offset m) /\ (m_tsize m | align)).

Record SInv (is_struct pack : bool) (st : sstate) (pre : list item) : Prop := mkSInv {
  SI_pos : 0 <= s_pos st;
  SI_align : pow2 (s_align st);
  SI_placed : Forall2 (placed_ok pack) (filter creates pre) (s_members st);
  SI_basic : Forall member_basic (s_members st);
  SI_hi : Forall (fun m => hi m <= s_pos st) (s_members st);
  SI_sorted : is_struct = true -> ForallOrdPairs (fun a b => hi a <= lo b) (s_members st);
  SI_union : is_struct = false -> Forall (fun m => m_offset m = 0 /\ m_before m = 0) (s_members st);
  SI_unit : Forall (unit_in (s_pos st) (s_align st)) (s_members st)
}.

Lemma FOP_snoc {A} (R : A -> A -> Prop) l x :
  ForallOrdPairs R l -> Forall (fun a => R a x) l -> ForallOrdPairs R (l ++ [x]).
Proof.
  induction 1 as [|a l Ha Hl IH]; intros Hx; cbn [app].
  - constructor; constructor.
  - inversion Hx; subst. constructor; [apply Forall_app; split; [assumption|constructor; [assumption|constructor]]|auto].
Qed.

Lemma spec_start_fits s pos w :
  (s = 1 \/ s = 2 \/ s = 4 \/ s = 8) -> 0 <= pos -> 0 <= w <= 8 * s ->
  pos <= spec_start pos (8 * s) w /\ spec_start pos (8 * s) w mod (8 * s) + w <= 8 * s /\
  0 <= spec_start pos (8 * s) w mod (8 * s).
Proof.
  intros Hs Hp Hw. unfold spec_start, roundup.
  destruct (Z.eqb_spec w 0);
    [|destruct (Z.eqb_spec (pos / (8 * s)) ((pos + w - 1) / (8 * s)))];
    destruct Hs as [->|[->|[->| ->]]]; dlia.
Qed.

Lemma unit_in_mono pos pos' a a' m :
  pos <= pos' -> (a | a') -> unit_in pos a m -> unit_in pos' a' m.
Proof.
  intros Hp Hd [H|(H1 & H2 & H3 & H4)]; pose proof (bytes_mono _ _ Hp).
  - left. lia.
  - right. repeat split; auto; try lia. eapply Z.divide_trans; eassumption.
Qed.

(* appending one member whose bit range starts at or after the old position *)
Lemma SInv_add is_struct pack st pre it m pos' align' flex' :
  SInv is_struct pack st pre -> creates it = true ->
  s_pos st <= pos' -> pow2 align' -> (s_align st | align') ->
  placed_ok pack it m -> member_basic m -> hi m <= pos' ->
  (is_struct = true -> s_pos st <= lo m) ->
  (is_struct = false -> m_offset m = 0 /\ m_before m = 0) ->
  unit_in pos' align' m ->
  SInv is_struct pack (mkS pos' align' flex' (s_members st ++ [m])) (pre ++ [it]).
Proof.
  intros [Ipos Ial Ipl Iba Ihi Iso Iun Iui] Hc Hp Ha Hd Hpl Hb Hh Hlo Hu Hui.
  constructor; cbn [s_pos s_align s_members].
  - lia.
  - assumption.
  - rewrite filter_app. cbn [filter]. rewrite Hc. apply Forall2_app; [assumption|constructor; [assumption|constructor]].
  - apply Forall_app; split; [assumption|constructor; [assumption|constructor]].
  - apply Forall_app; split; [|constructor; [assumption|constructor]].
    eapply Forall_impl; [|exact Ihi]. cbn. intros. lia.
  - intros Hs. apply FOP_snoc; [auto|]. specialize (Hlo Hs).
    eapply Forall_impl; [|exact Ihi]. cbn. intros. lia.
  - intros Hs. apply Forall_app; split; [auto|constructor; [auto|constructor]].
  - apply Forall_app; split; [|constructor; [assumption|constructor]].
    eapply Forall_impl; [|exact Iui]. intros a. apply unit_in_mono; assumption.
Qed.

(* an unnamed bit-field only moves the position / raises the alignment *)
Lemma SInv_skip is_struct pack st pre it pos' align' flex' :
  SInv is_struct pack st pre -> creates it = false ->
  s_pos st <= pos' -> pow2 align' -> (s_align st | align') ->
  SInv is_struct pack (mkS pos' align' flex' (s_members st ++ [])) (pre ++ [it]).
Proof.
  intros [Ipos Ial Ipl Iba Ihi Iso Iun Iui] Hc Hp Ha Hd. rewrite app_nil_r.
  constructor; cbn [s_pos s_align s_members]; auto; try lia.
  - rewrite filter_app. cbn [filter]. rewrite Hc, app_nil_r. assumption.
  - eapply Forall_impl; [|exact Ihi]. cbn. intros. lia.
  - eapply Forall_impl; [|exact Iui]. intros a. apply unit_in_mono; assumption.
Qed.

Lemma place_inv r is_struct pack st pre it st' :
  SInv is_struct pack st pre -> wf_item it -> place r is_struct pack st it = Some st' ->
  SInv is_struct pack st' (pre ++ [it]).
Proof.
  intros I Hwf Hp.
  pose proof (SI_pos _ _ _ _ I) as Ipos. pose proof (SI_align _ _ _ _ I) as Ial.
  pose proof (pow2_pos _ Ial) as Ial'.
  assert (Hplain : forall t named a (it0 : item), wf_t t -> (a = 0 \/ pow2 a) -> creates it0 = true ->
            (forall m, m_tsize m = t_size t /\ m_before m = 0 /\ m_after m = 0 /\
                       ((if a =? 0 then if pack then 1 else t_align t else a) | m_offset m) -> placed_ok pack it0 m) ->
            place_plain is_struct pack st t named a = Some st' -> SInv is_struct pack st' (pre ++ [it0])).
  { intros t named a it0 (Hta & Hts & _) Ha Hcr Hpo H. unfold place_plain in H.
    destruct (common_ok is_struct st t) eqn:Hc; cbn [negb] in H; [|discriminate].
    destruct ((a =? 0) || (t_align t <=? a)) eqn:Haa; cbn [negb] in H; [|discriminate].
    injection H as <-.
    set (eff := if a =? 0 then if pack then 1 else t_align t else a) in *.
    assert (Heff : pow2 eff).
    { unfold eff. destruct (Z.eqb_spec a 0); [destruct pack; [exact pow2_1|assumption]|]. destruct Ha; [contradiction|assumption]. }
    pose proof (pow2_pos _ Heff) as Heff'.
    pose proof (roundup_ge (bytes (s_pos st)) eff ltac:(lia)) as Hge.
    pose proof (bytes_ge (s_pos st)) as Hbg.
    apply SInv_add; auto.
    - destruct is_struct; lia.
    - apply pow2_max; assumption.
    - apply pow2_divide_max_l; assumption.
    - apply Hpo. cbn [m_tsize m_before m_after m_offset]. repeat split; auto.
      destruct is_struct; [apply roundup_divide|apply Z.divide_0_r].
    - unfold member_basic. cbn [m_tsize m_before m_after m_offset]. destruct is_struct; lia.
    - unfold hi. cbn [m_tsize m_before m_after m_offset]. destruct is_struct; lia.
    - intros ->. unfold lo. cbn [m_before m_offset]. lia.
    - intros ->. cbn [m_before m_offset]. split; reflexivity.
    - left. cbn [m_tsize m_offset]. destruct is_struct.
      + rewrite bytes_8. lia.
      + rewrite bytes_max, bytes_8. lia. }
  assert (Hbf : forall t named w (it0 : item), wf_t t -> creates it0 = named ->
            (named = true -> forall m, m_tsize m = t_size t /\ 8 * t_size t - m_before m - m_after m = w /\ (t_size t | m_offset m) -> placed_ok pack it0 m) ->
            place_bitfield r is_struct pack st t named w = Some st' -> SInv is_struct pack st' (pre ++ [it0])).
  { intros t named w it0 (Hta & Hts & Hti) Hcr Hpo H. unfold place_bitfield in H.
    destruct (common_ok is_struct st t) eqn:Hc; cbn [negb] in H; [|discriminate].
    destruct (negb (t_int t) || pack || ((w =? 0) && named) || (w <? 0) || (8 * t_size t <? w)) eqn:Hv; [discriminate|].
    rewrite !orb_false_iff in Hv. destruct Hv as ((((Hint & Hpk) & Hzn) & Hw0) & Hwid).
    apply negb_false_iff in Hint. apply Z.ltb_ge in Hw0, Hwid.
    destruct (Hti Hint) as (Hsz & Hle8).
    assert (Hs : t_size t = 1 \/ t_size t = 2 \/ t_size t = 4 \/ t_size t = 8).
    { apply pow2_le8; [rewrite Hsz; assumption|assumption]. }
    pose proof (pow2_pos _ Hta) as Hta'.
    set (align' := if named || r_unnamed_align r then Z.max (s_align st) (t_align t) else s_align st) in *.
    assert (Hal' : pow2 align' /\ (s_align st | align')).
    { unfold align'. destruct (named || r_unnamed_align r).
      - split; [apply pow2_max; assumption|apply pow2_divide_max_l; assumption].
      - split; [assumption|apply Z.divide_refl]. }
    destruct Hal' as [Hal1 Hal2].
    destruct is_struct; injection H as <-.
    - destruct (spec_start_fits (t_size t) (s_pos st) w Hs Ipos ltac:(lia)) as (Hst1 & Hst2 & Hst3).
      set (start := spec_start (s_pos st) (8 * t_size t) w) in *.
      assert (Hdm := Z.div_mod start (8 * t_size t) ltac:(lia)).
      destruct named.
      + assert (Hw1 : 1 <= w) by (rewrite andb_true_r in Hzn; apply Z.eqb_neq in Hzn; lia).
        apply SInv_add; auto; try lia.
        * apply (Hpo eq_refl). cbn [m_tsize m_before m_after m_offset]. repeat split; try lia. apply Z.divide_factor_l.
        * unfold member_basic. cbn [m_tsize m_before m_after m_offset].
          assert (0 <= start / (8 * t_size t)) by (apply Z.div_pos; lia). repeat split; try lia; nia.
        * unfold hi. cbn [m_tsize m_before m_after m_offset]. lia.
        * intros _. unfold lo. cbn [m_before m_offset]. lia.
        * right. cbn [m_tsize m_offset]. repeat split; try lia.
          -- pose proof (bytes_ge (start + w)). lia.
          -- apply Z.divide_factor_l.
          -- unfold align'. cbn [orb]. rewrite Hsz. apply pow2_divide_max_r; assumption.
      + apply SInv_skip; auto; lia.
    - destruct named.
      + assert (Hw1 : 1 <= w) by (rewrite andb_true_r in Hzn; apply Z.eqb_neq in Hzn; lia).
        apply SInv_add; auto; try lia.
        * apply (Hpo eq_refl). cbn [m_tsize m_before m_after m_offset]. repeat split; try lia. apply Z.divide_0_r.
        * unfold member_basic. cbn [m_tsize m_before m_after m_offset]. lia.
        * unfold hi. cbn [m_tsize m_before m_after m_offset]. lia.
        * right. cbn [m_tsize m_offset]. repeat split; try lia.
          -- rewrite bytes_max. assert (1 <= bytes w) by (unfold bytes; dlia). lia.
          -- apply Z.divide_0_r.
          -- unfold align'. cbn [orb]. rewrite Hsz. apply pow2_divide_max_r; assumption.
      + apply SInv_skip; auto; lia. }
  destruct it as [t a [w|]|t a|t w]; cbn [place] in Hp; cbn [wf_item] in Hwf.
  - destruct (Z.eqb_spec a 0); [|discriminate].
    apply (Hbf t true w (INamed t a (Some w))); [tauto|reflexivity|intros _ m Hm; exact Hm|exact Hp].
  - apply (Hplain t true a (INamed t a None)); [tauto|tauto|reflexivity|intros m Hm; exact Hm|exact Hp].
  - apply (Hplain t false a (IAnon t a)); [tauto|tauto|reflexivity|intros m Hm; exact Hm|exact Hp].
  - apply (Hbf t false w (IUnnamedBf t w)); [tauto|reflexivity|intros E; discriminate|exact Hp].
Qed.

Lemma places_inv r is_struct pack its : forall st pre st',
  SInv is_struct pack st pre -> Forall wf_item its -> places r is_struct pack st its = Some st' ->
  SInv is_struct pack st' (pre ++ its).
Proof.
  induction its as [|it its IH]; intros st pre st' I Hwf Hp; cbn [places] in Hp.
  - injection Hp as <-. rewrite app_nil_r. assumption.
  - destruct (place r is_struct pack st it) as [st1|] eqn:H1; [|discriminate].
    inversion Hwf as [|? ? Hw1 Hw2]; subst.
    replace (pre ++ it :: its) with ((pre ++ [it]) ++ its) by (rewrite <- app_assoc; reflexivity).
    eapply IH; eauto. eapply place_inv; eauto.
Qed.

Lemma SInv_init is_struct pack : SInv is_struct pack sinit [].
Proof. constructor; cbn; auto; try lia; try constructor; try exact pow2_1. Qed.

Record layout_ok (is_struct pack : bool) (its : list item) (ti : tinfo) (ms : list member) : Prop := mkLO {
  LO_align : pow2 (t_align ti);
  LO_size : (t_align ti | t_size ti);
  LO_placed : Forall2 (placed_ok pack) (filter creates its) ms;
  LO_inside : Forall (fun m => member_basic m /\ m_offset m + m_tsize m <= t_size ti /\ hi m <= 8 * t_size ti) ms;
  LO_disjoint : is_struct = true -> ForallOrdPairs (fun a b => hi a <= lo b) ms;
  LO_union : is_struct = false -> Forall (fun m => m_offset m = 0 /\ m_before m = 0) ms
}.

(* every layout the specification produces, under either rule set, for any member sequence *)
Theorem spec_inv r is_struct pack its ti ms :
  Forall wf_item its -> spec_layout r is_struct pack its = Some (ti, ms) -> layout_ok is_struct pack its ti ms.
Proof.
  intros Hwf H. unfold spec_layout in H.
  destruct (places r is_struct pack sinit its) as [st|] eqn:Hp; [|discriminate].
  pose proof (places_inv r is_struct pack its sinit [] st (SInv_init _ _) Hwf Hp) as I. cbn [app] in I.
  unfold spec_finish in H. destruct (s_members st) as [|m0 ms0] eqn:Hm; [discriminate|].
  injection H as <- <-.
  destruct I as [Ipos Ial Ipl Iba Ihi Iso Iun Iui]. rewrite Hm in *.
  pose proof (pow2_pos _ Ial) as Hal.
  pose proof (roundup_ge (bytes (s_pos st)) (s_align st) ltac:(lia)) as Hge.
  pose proof (bytes_ge (s_pos st)) as Hbg.
  constructor; cbn [t_size t_align]; auto.
  - apply roundup_divide.
  - rewrite Forall_forall in *. intros m Hin. split; [auto|]. split.
    + destruct (Iui m Hin) as [H|(H1 & H2 & H3 & H4)]; [lia|].
      apply divide_step; auto; [|lia].
      eapply Z.divide_trans; [exact H4|apply roundup_divide].
    + specialize (Ihi m Hin). cbn in Ihi. lia.
Qed.

(* layout_inv for cproc's own computation (x86-64 / riscv64 rule set): whenever the ABI lays the
   members out and the record fits in 2^62 bytes, what addmember/tagspec compute satisfies all of:
   power-of-two alignment dividing the size; every plain member at a multiple of its (effective)
   alignment, every bit-field unit naturally aligned with before + width + after = 8 * unit size;
   every member and every bit-field unit inside the record; in a struct the bit ranges of distinct
   members ordered and pairwise disjoint; in a union everything at offset 0.
   Packed structs: members without _Alignas (otherwise see packed_alignas_refuted). *)
Theorem layout_inv is_struct pack its r :
  Forall wf_item its -> (is_struct = false -> pack = false) -> (pack = true -> Forall no_alignas its) ->
  spec_layout rules_sysv is_struct pack its = Some r -> t_size (fst r) <= 2 ^ 62 ->
  record_layout is_struct pack its = Ok r /\ layout_ok is_struct pack its (fst r) (snd r).
Proof.
  intros Hwf Hu Hna Hs Hb. split.
  - destruct is_struct.
    + apply layout_abi_struct; assumption.
    + rewrite (Hu eq_refl) in *. apply layout_abi_union; assumption.
  - destruct r as [ti ms]. eapply spec_inv; eauto.
Qed.

(* layout_abi, both kinds of record *)
Theorem layout_abi is_struct pack its r :
  Forall wf_item its -> (is_struct = false -> pack = false) -> (pack = true -> Forall no_alignas its) ->
  spec_layout rules_sysv is_struct pack its = Some r -> t_size (fst r) <= 2 ^ 62 ->
  record_layout is_struct pack its = Ok r.
Proof. intros. eapply layout_inv; eauto. Qed.

(* pairwise disjointness spelled out: in a struct, two different members never share a bit *)
Corollary struct_members_disjoint pack its ti ms i j a b :
  layout_ok true pack its ti ms -> (i < j)%nat -> nth_error ms i = Some a -> nth_error ms j = Some b ->
  hi a <= lo b.
Proof.
  intros L. pose proof (LO_disjoint _ _ _ _ _ L eq_refl) as F. clear L. revert i j.
  induction F as [|x l Hx Hl IH]; intros i j Hij Hi Hj.
  - destruct i; discriminate.
  - destruct j as [|j]; [lia|]. destruct i as [|i]; cbn [nth_error] in *.
    + injection Hi as <-. rewrite Forall_forall in Hx. apply Hx. eapply nth_error_In; eassumption.
    + eapply IH; [|eassumption|eassumption]. lia.
Qed.
