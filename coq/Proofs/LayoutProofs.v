(* C06 - the model of addmember/structdecl/tagspec computes the ABI layout (struct part). *)
From Coq Require Import ZArith List Bool Lia.
From Cproc Require Import Model.Layout Spec.AbiLayout Proofs.LayoutArith.
Import ListNotations.
Open Scope Z_scope.
#[local] Arguments Z.mul : simpl never.
#[local] Arguments Z.add : simpl never.
#[local] Arguments Z.sub : simpl never.
#[local] Arguments Z.opp : simpl never.
#[local] Arguments Z.div : simpl never.
#[local] Arguments Z.modulo : simpl never.
#[local] Arguments Z.pow : simpl never.
#[local] Arguments Z.max : simpl never.
#[local] Arguments Z.min : simpl never.
#[local] Arguments Z.land : simpl never.
#[local] Arguments Z.ltb : simpl never.
#[local] Arguments Z.leb : simpl never.
#[local] Arguments Z.eqb : simpl never.

(* ------------------------------------------------------------------ well-formed inputs *)
Definition wf_t (t : tinfo) : Prop :=
  pow2 (t_align t) /\ 0 <= t_size t /\
  (t_int t = true -> t_size t = t_align t /\ t_size t <= 8).

(* widths are 64-bit values different from the "no width" sentinel 2^64-1 *)
Definition wf_item (it : item) : Prop :=
  match it with
  | INamed t a None => wf_t t /\ (a = 0 \/ pow2 a)
  | IAnon t a => wf_t t /\ (a = 0 \/ pow2 a)
  | INamed t a (Some w) => wf_t t /\ (a = 0 \/ pow2 a) /\ 0 <= w < M1
  | IUnnamedBf t w => wf_t t /\ 0 <= w < M1
  end.

Definition no_alignas (it : item) : Prop :=
  match it with
  | INamed _ a _ => a = 0
  | IAnon _ a => a = 0
  | IUnnamedBf _ _ => True
  end.

Lemma pow2_le8 n : pow2 n -> n <= 8 -> n = 1 \/ n = 2 \/ n = 4 \/ n = 8.
Proof.
  intros (k & Hk & ->) Hle.
  assert (k < 4).
  { destruct (Z_lt_ge_dec k 4); auto. exfalso.
    assert (2 ^ 4 <= 2 ^ k) by (apply Z.pow_le_mono_r; lia). change (2 ^ 4) with 16 in *. lia. }
  assert (k = 0 \/ k = 1 \/ k = 2 \/ k = 3) as [->|[->|[->| ->]]] by lia; vm_compute; auto.
Qed.

Lemma pow2_c1 : pow2 1. Proof. exists 0; split; [lia|reflexivity]. Qed.
Lemma pow2_c2 : pow2 2. Proof. exists 1; split; [lia|reflexivity]. Qed.
Lemma pow2_c4 : pow2 4. Proof. exists 2; split; [lia|reflexivity]. Qed.
Lemma pow2_c8 : pow2 8. Proof. exists 3; split; [lia|reflexivity]. Qed.
#[global] Hint Resolve pow2_c1 pow2_c2 pow2_c4 pow2_c8 : core.

Lemma w64_range x : 0 <= w64 x < W64.
Proof. unfold w64. apply Z.mod_pos_bound. reflexivity. Qed.

(* ------------------------------------------------------------------ where a bit-field starts *)
Lemma start_char s size bits w :
  (s = 1 \/ s = 2 \/ s = 4 \/ s = 8) -> 0 <= bits < 8 -> 0 <= 8 * size - bits -> 0 <= w <= 8 * s ->
  spec_start (8 * size - bits) (8 * s) w =
    if (w =? 0) || (8 * (roundup size s - size) + bits <? w) then 8 * roundup size s else 8 * size - bits.
Proof.
  intros Hs Hb Hp Hw. unfold spec_start, roundup.
  destruct (Z.eqb_spec w 0); cbn [orb].
  - destruct Hs as [->|[->|[->| ->]]]; dlia.
  - destruct (Z.eqb_spec ((8 * size - bits) / (8 * s)) ((8 * size - bits + w - 1) / (8 * s)));
    destruct (Z.ltb_spec (8 * ((size + s - 1) / s * s - size) + bits) w);
    destruct Hs as [->|[->|[->| ->]]]; dlia.
Qed.

(* ------------------------------------------------------------------ refinement relation (structs) *)
Ltac psimpl := cbn [b_struct b_pack b_size b_align b_flex b_bits b_members s_pos s_align s_flex s_members
  mi_t mi_named mi_align mi_width m_named m_tsize m_offset m_before m_after orb andb negb fst snd item_input] in *.

Record Rel (pack : bool) (b : builder) (st : sstate) : Prop := mkRel {
  R_struct : b_struct b = true;
  R_pack : b_pack b = pack;
  R_bits : 0 <= b_bits b < 8;
  R_size : 0 <= b_size b;
  R_pos : s_pos st = 8 * b_size b - b_bits b;
  R_posnn : 0 <= s_pos st;
  R_align : s_align st = Z.max 1 (b_align b);
  R_alignp : b_align b = 0 \/ pow2 (b_align b);
  R_mem_align : b_members b = [] \/ 1 <= b_align b;
  R_flex : b_flex b = s_flex st;
  R_members : b_members b = s_members st;
  R_packalign : pack = true -> s_align st = 1
}.

Lemma common_ok_true st t : common_ok true st t = true ->
  s_flex st = false /\ (t_incomplete t && negb (t_array t)) = false /\ t_flexible t = false /\
  t_func t = false /\ t_vm t = false /\ 0 < t_align t.
Proof.
  unfold common_ok. simpl. rewrite !andb_true_iff, !negb_true_iff, andb_true_r, Z.ltb_lt. tauto.
Qed.

Lemma step_plain pack b st t named a st' :
  Rel pack b st -> wf_t t -> (a = 0 \/ pow2 a) -> (pack = true -> a = 0) ->
  place_plain true pack st t named a = Some st' -> s_pos st' <= 8 * 2 ^ 62 ->
  exists b', addmember b (mkMI t named a M1) = Ok b' /\ Rel pack b' st'.
Proof.
  intros R (Hta & Hts & _) Ha Hpa Hpl Hbound.
  change (2 ^ 62) with 4611686018427387904 in Hbound.
  unfold place_plain in Hpl.
  destruct (common_ok true st t) eqn:Hc; cbn [negb] in Hpl; [|discriminate].
  apply common_ok_true in Hc. destruct Hc as (Hf & Hinc & Htf & Hfn & Hvm & Hal).
  destruct ((a =? 0) || (t_align t <=? a)) eqn:Haa; cbn [negb] in Hpl; [|discriminate].
  injection Hpl as <-. psimpl.
  destruct R as [Rs Rp Rb Rsz Rpos Rnn Ral Ralp Rma Rfl Rme Rpal].
  destruct b as [bs bp bsz bal bfl bbits bms]; psimpl. subst bs bp bfl bms.
  pose proof (pow2_pos _ Hta) as Hta'.
  set (eff := if a =? 0 then if pack then 1 else t_align t else a) in *.
  assert (Heff : pow2 eff).
  { unfold eff. destruct (Z.eqb_spec a 0).
    - destruct pack; auto.
    - destruct Ha; [contradiction|assumption]. }
  pose proof (pow2_pos _ Heff) as Heff'. change (2 ^ 30) with 1073741824 in *.
  assert (Hby : bytes (s_pos st) = bsz) by (rewrite Rpos; apply bytes_of_pos; assumption).
  rewrite Hby in *.
  pose proof (roundup_ge bsz eff ltac:(lia)) as Hge.
  assert (Hb62 : roundup bsz eff + t_size t <= 4611686018427387904) by lia.
  unfold addmember; psimpl.
  rewrite Hf, Hinc, Htf, Hfn, Hvm. psimpl.
  replace (t_align t <=? 0) with false by (symmetry; apply Z.leb_gt; lia).
  rewrite Z.eqb_refl. cbv iota.
  assert (Hral : (if a <? t_align t
                  then if negb (a =? 0) then Err ELessStrict else Ok (if pack then 1 else t_align t)
                  else Ok a) = Ok eff).
  { unfold eff. apply orb_true_iff in Haa. destruct (Z.eqb_spec a 0) as [->|Hne]; cbn [negb].
    - replace (0 <? t_align t) with true by (symmetry; apply Z.ltb_lt; lia). reflexivity.
    - destruct Haa as [Haa|Haa]; [try discriminate; apply Z.eqb_eq in Haa; contradiction|].
      apply Z.leb_le in Haa. replace (a <? t_align t) with false by (symmetry; apply Z.ltb_ge; lia).
      reflexivity. }
  rewrite Hral.
  rewrite alignup_spec by (auto; unfold W64; lia).
  rewrite (w64_small (roundup bsz eff + t_size t)) by (unfold W64; lia).
  eexists. split; [reflexivity|].
  constructor; psimpl; auto; try lia.
  all: try (rewrite ?Hf, ?Htf; destruct (t_incomplete t); reflexivity).
  - rewrite Ral. destruct (Z.ltb_spec bal eff); lia.
  - right. destruct (Z.ltb_spec bal eff); [assumption|].
    destruct Ralp as [->|?]; [lia|assumption].
  - right. destruct (Z.ltb_spec bal eff); lia.
  - intros Hp. specialize (Rpal Hp). specialize (Hpa Hp). subst a. unfold eff.
    rewrite Hp, Rpal. reflexivity.
Qed.

(* ------------------------------------------------------------------ the bit-field arithmetic of addmember *)
Section BfArith.
  Variables s size1 bits1 w : Z.
  Hypothesis Hs : s = 1 \/ s = 2 \/ s = 4 \/ s = 8.
  Hypothesis Hb : 0 <= bits1 < 8.
  Hypothesis Hp : 0 <= 8 * size1 - bits1.
  Hypothesis Hsz : size1 <= 4611686018427387904.
  Hypothesis Hw : 0 <= w.
  Hypothesis Hfit : (8 * size1 - bits1) mod (8 * s) + w <= 8 * s.

  Let c := if bits1 =? 0 then 0 else 1.
  Let off := aligndown (w64 (size1 - c)) s.
  Let before := to_short (w64 (w64 ((size1 - off) * 8) - bits1)).

  Lemma bf_bits : to_uint (w64 (bits1 - w) mod 8) = (bits1 - w) mod 8.
  Proof using Hs Hb Hp Hsz Hw Hfit. unfold to_uint, w64, W64. dlia. Qed.

  Lemma bf_size : w64 (size1 + w64 (w - bits1 + 7) / 8) = size1 + (w - bits1 + 7) / 8.
  Proof using Hs Hb Hp Hsz Hw Hfit. unfold w64, W64. destruct Hs as [->|[->|[->| ->]]]; dlia. Qed.

  Lemma bf_pos : 8 * (size1 + (w - bits1 + 7) / 8) - (bits1 - w) mod 8 = 8 * size1 - bits1 + w.
  Proof using Hs Hb Hp Hsz Hw Hfit. dlia. Qed.

  Lemma bf_bits_range : 0 <= (bits1 - w) mod 8 < 8.
  Proof using Hs Hb Hp Hsz Hw Hfit. apply Z.mod_pos_bound. lia. Qed.

  Lemma bf_off : off = s * ((8 * size1 - bits1) / (8 * s)).
  Proof using Hs Hb Hp Hsz Hw Hfit.
    unfold off, c. rewrite aligndown_mul; [|apply w64_range|destruct Hs as [->|[->|[->| ->]]]; auto].
    unfold w64, W64. destruct (Z.eqb_spec bits1 0); destruct Hs as [->|[->|[->| ->]]]; dlia.
  Qed.

  Lemma bf_before : before = (8 * size1 - bits1) mod (8 * s).
  Proof using Hs Hb Hp Hsz Hw Hfit.
    unfold before. rewrite bf_off. unfold to_short, w64, W64.
    destruct Hs as [->|[->|[->| ->]]];
      match goal with |- (if ?x <? ?y then _ else _) = _ => destruct (Z.ltb_spec x y) end; dlia.
  Qed.

  Lemma bf_after : to_short (w64 (w64 (w64 (s * 8) - w) - before)) = 8 * s - w - before.
  Proof using Hs Hb Hp Hsz Hw Hfit.
    rewrite bf_before. unfold to_short, w64, W64.
    destruct Hs as [->|[->|[->| ->]]];
      match goal with |- (if ?x <? ?y then _ else _) = _ => destruct (Z.ltb_spec x y) end; dlia.
  Qed.
End BfArith.

Lemma step_bf pack b st t named w st' :
  Rel pack b st -> wf_t t -> 0 <= w < M1 ->
  place_bitfield rules_sysv true pack st t named w = Some st' -> s_pos st' <= 8 * 2 ^ 62 ->
  exists b', addmember b (mkMI t named 0 w) = Ok b' /\ Rel pack b' st'.
Proof.
  intros R (Hta & Hts & Hti) Hw Hpl Hbound.
  change (2 ^ 62) with 4611686018427387904 in Hbound.
  unfold place_bitfield in Hpl.
  destruct (common_ok true st t) eqn:Hc; cbn [negb] in Hpl; [|discriminate].
  apply common_ok_true in Hc. destruct Hc as (Hf & Hinc & Htf & Hfn & Hvm & Hal).
  destruct (negb (t_int t) || pack || ((w =? 0) && named) || (w <? 0) || (8 * t_size t <? w)) eqn:Hv;
    [discriminate|].
  rewrite !orb_false_iff in Hv. destruct Hv as ((((Hint & Hpk) & Hzn) & Hw0) & Hwid).
  apply negb_false_iff in Hint. apply Z.ltb_ge in Hw0, Hwid.
  destruct (Hti Hint) as (Hsz & Hle8).
  assert (Hs : t_size t = 1 \/ t_size t = 2 \/ t_size t = 4 \/ t_size t = 8).
  { apply pow2_le8; [rewrite Hsz; assumption|assumption]. }
  injection Hpl as <-.
  destruct R as [Rs Rp Rb Rsz Rpos Rnn Ral Ralp Rma Rfl Rme Rpal].
  destruct b as [bs bp bsz bal bfl bbits bms]; psimpl. subst bs bp bfl bms. subst pack.
  rewrite Rpos in *.
  rewrite start_char in * by (auto; lia).
  set (s := t_size t) in *.
  assert (Hps : pow2 s) by (destruct Hs as [->|[->|[->| ->]]]; auto).
  pose proof (roundup_ge bsz s ltac:(lia)) as Hge.
  pose proof (roundup_lt bsz s ltac:(lia)) as Hlt.
  assert (Hbsz : bsz <= 4611686018427387904).
  { destruct ((w =? 0) || (8 * (roundup bsz s - bsz) + bbits <? w)); lia. }
  unfold addmember; psimpl. fold s.
  rewrite Hf, Hinc, Htf, Hfn, Hvm. psimpl.
  replace (t_align t <=? 0) with false by (symmetry; apply Z.leb_gt; lia).
  replace (w =? M1) with false by (symmetry; apply Z.eqb_neq; lia).
  rewrite Hint, Z.eqb_refl, Hzn. psimpl. cbv iota.
  replace (w64 (s * 8) <? w) with false
    by (symmetry; apply Z.ltb_ge; rewrite w64_small by (unfold W64; lia); lia).
  rewrite alignup_spec by (auto; unfold W64; lia).
  replace (w64 (w64 ((roundup bsz s - bsz) * 8) + bbits)) with (8 * (roundup bsz s - bsz) + bbits)
    by (rewrite (w64_small ((roundup bsz s - bsz) * 8)) by (unfold W64; lia);
        rewrite w64_small by (unfold W64; lia); lia).
  rewrite !orb_false_r.
  destruct ((w =? 0) || (8 * (roundup bsz s - bsz) + bbits <? w)) eqn:HC.
  - (* a new storage unit *)
    assert (Hfit : (8 * roundup bsz s - 0) mod (8 * s) + w <= 8 * s).
    { unfold roundup. destruct Hs as [->|[->|[->| ->]]]; dlia. }
    assert (Hp0 : 0 <= 8 * roundup bsz s - 0) by lia.
    assert (H00 : 0 <= 0 < 8) by lia.
    assert (Hrs : roundup bsz s <= 4611686018427387904) by lia.
    assert (Hw' : 0 <= w) by lia.
    rewrite (bf_size s (roundup bsz s) 0 w Hs H00 Hp0 Hrs Hw' Hfit).
    rewrite (bf_bits s (roundup bsz s) 0 w Hs H00 Hp0 Hrs Hw' Hfit).
    eexists. split; [reflexivity|].
    constructor; psimpl; auto; try lia.
    all: try (rewrite ?Hf, ?Htf; destruct (t_incomplete t); reflexivity).
    + apply (bf_bits_range s (roundup bsz s) 0 w Hs H00 Hp0 Hrs Hw' Hfit).
    + pose proof (bf_bits_range s (roundup bsz s) 0 w Hs H00 Hp0 Hrs Hw' Hfit). dlia.
    + pose proof (bf_pos s (roundup bsz s) 0 w Hs H00 Hp0 Hrs Hw' Hfit). lia.
    + rewrite Ral. destruct named; psimpl; [|lia]. destruct (Z.ltb_spec bal (t_align t)); lia.
    + destruct named; psimpl; [|assumption]. right.
      destruct (Z.ltb_spec bal (t_align t)); [assumption|]. destruct Ralp as [->|?]; [lia|assumption].
    + destruct named; psimpl.
      * right. destruct (Z.ltb_spec bal (t_align t)); lia.
      * rewrite app_nil_r. assumption.
    + f_equal. destruct named; [|reflexivity].
      pose proof (bf_off s (roundup bsz s) 0 w Hs H00 Hp0 Hrs Hw' Hfit) as Eo.
      pose proof (bf_before s (roundup bsz s) 0 w Hs H00 Hp0 Hrs Hw' Hfit) as Eb.
      pose proof (bf_after s (roundup bsz s) 0 w Hs H00 Hp0 Hrs Hw' Hfit) as Ea.
      cbv zeta in Eo, Eb, Ea. rewrite Z.eqb_refl in *.
      f_equal. f_equal.
      * rewrite Eo. f_equal. f_equal. lia.
      * rewrite Eb. f_equal. lia.
      * rewrite Ea, Eb. replace (8 * roundup bsz s - 0) with (8 * roundup bsz s) by lia. lia.
  - (* room left in the current unit *)
    apply orb_false_iff in HC. destruct HC as [Hwz Hroom]. apply Z.eqb_neq in Hwz. apply Z.ltb_ge in Hroom.
    assert (Hfit : (8 * bsz - bbits) mod (8 * s) + w <= 8 * s).
    { unfold roundup in Hroom. destruct Hs as [->|[->|[->| ->]]]; dlia. }
    assert (Hp0 : 0 <= 8 * bsz - bbits) by lia.
    assert (Hw' : 0 <= w) by lia.
    rewrite (bf_size s bsz bbits w Hs Rb Hp0 Hbsz Hw' Hfit).
    rewrite (bf_bits s bsz bbits w Hs Rb Hp0 Hbsz Hw' Hfit).
    eexists. split; [reflexivity|].
    constructor; psimpl; auto; try lia.
    all: try (rewrite ?Hf, ?Htf; destruct (t_incomplete t); reflexivity).
    + apply (bf_bits_range s bsz bbits w Hs Rb Hp0 Hbsz Hw' Hfit).
    + pose proof (bf_bits_range s bsz bbits w Hs Rb Hp0 Hbsz Hw' Hfit). dlia.
    + pose proof (bf_pos s bsz bbits w Hs Rb Hp0 Hbsz Hw' Hfit). lia.
    + rewrite Ral. destruct named; psimpl; [|lia]. destruct (Z.ltb_spec bal (t_align t)); lia.
    + destruct named; psimpl; [|assumption]. right.
      destruct (Z.ltb_spec bal (t_align t)); [assumption|]. destruct Ralp as [->|?]; [lia|assumption].
    + destruct named; psimpl.
      * right. destruct (Z.ltb_spec bal (t_align t)); lia.
      * rewrite app_nil_r. assumption.
    + f_equal. destruct named; [|reflexivity].
      pose proof (bf_off s bsz bbits w Hs Rb Hp0 Hbsz Hw' Hfit) as Eo.
      pose proof (bf_before s bsz bbits w Hs Rb Hp0 Hbsz Hw' Hfit) as Eb.
      pose proof (bf_after s bsz bbits w Hs Rb Hp0 Hbsz Hw' Hfit) as Ea.
      cbv zeta in Eo, Eb, Ea.
      f_equal. f_equal.
      * rewrite Eo. reflexivity.
      * rewrite Eb. reflexivity.
      * rewrite Ea, Eb. lia.
Qed.

(* ------------------------------------------------------------------ the position never decreases *)
Lemma spec_start_ge pos U w : 0 < U -> pos <= spec_start pos U w.
Proof.
  intros. unfold spec_start. pose proof (roundup_ge pos U H).
  destruct (w =? 0); [lia|]. destruct (pos / U =? (pos + w - 1) / U); lia.
Qed.

Lemma place_mono r is_struct pack st it st' :
  wf_item it -> place r is_struct pack st it = Some st' -> s_pos st <= s_pos st'.
Proof.
  intros Hwf Hp.
  assert (Hplain : forall t named a, wf_t t -> place_plain is_struct pack st t named a = Some st' -> s_pos st <= s_pos st').
  { intros t named a (Hta & Hts & _) H. unfold place_plain in H.
    destruct (common_ok is_struct st t) eqn:Hc; cbn [negb] in H; [|discriminate].
    destruct ((a =? 0) || (t_align t <=? a)) eqn:Ha; cbn [negb] in H; [|discriminate].
    injection H as <-. psimpl. destruct is_struct; [|lia].
    pose proof (pow2_pos _ Hta).
    set (eff := if a =? 0 then if pack then 1 else t_align t else a).
    assert (0 < eff).
    { unfold eff. destruct (Z.eqb_spec a 0); [destruct pack; lia|].
      apply orb_true_iff in Ha. destruct Ha as [Ha|Ha]; [try discriminate; apply Z.eqb_eq in Ha; lia|apply Z.leb_le in Ha; lia]. }
    pose proof (roundup_ge (bytes (s_pos st)) eff H0). pose proof (bytes_ge (s_pos st)). lia. }
  assert (Hbf : forall t named w, wf_t t -> place_bitfield r is_struct pack st t named w = Some st' -> s_pos st <= s_pos st').
  { intros t named w (Hta & Hts & Hti) H. unfold place_bitfield in H.
    destruct (common_ok is_struct st t) eqn:Hc; cbn [negb] in H; [|discriminate].
    destruct (negb (t_int t) || pack || ((w =? 0) && named) || (w <? 0) || (8 * t_size t <? w)) eqn:Hv; [discriminate|].
    rewrite !orb_false_iff in Hv. destruct Hv as ((((Hint & Hpk) & Hzn) & Hw0) & Hwid).
    apply negb_false_iff in Hint. apply Z.ltb_ge in Hw0, Hwid.
    destruct (Hti Hint) as (Hsz & _). pose proof (pow2_pos _ Hta).
    destruct is_struct; injection H as <-; psimpl; [|lia].
    pose proof (spec_start_ge (s_pos st) (8 * t_size t) w ltac:(lia)). lia. }
  destruct it as [t a [w|]|t a|t w]; cbn [place] in Hp; cbn [wf_item] in Hwf.
  - destruct (a =? 0); [|discriminate]. eapply Hbf; [|eassumption]. tauto.
  - eapply Hplain; [|eassumption]. tauto.
  - eapply Hplain; [|eassumption]. tauto.
  - eapply Hbf; [|eassumption]. tauto.
Qed.

Lemma places_mono r is_struct pack its : forall st st',
  Forall wf_item its -> places r is_struct pack st its = Some st' -> s_pos st <= s_pos st'.
Proof.
  induction its as [|it its IH]; intros st st' Hwf Hp; cbn [places] in Hp.
  - injection Hp as <-. lia.
  - destruct (place r is_struct pack st it) eqn:H1; [|discriminate].
    inversion Hwf; subst. pose proof (place_mono _ _ _ _ _ _ H2 H1). specialize (IH _ _ H3 Hp). lia.
Qed.

Lemma place_refine pack b st it st' :
  Rel pack b st -> wf_item it -> (pack = true -> no_alignas it) ->
  place rules_sysv true pack st it = Some st' -> s_pos st' <= 8 * 2 ^ 62 ->
  exists b', structdecl b it = Ok b' /\ Rel pack b' st'.
Proof.
  intros R Hwf Hna Hp Hb. unfold structdecl.
  assert (Hck : item_check it = true).
  { destruct it as [t a [w|]|t a|t w]; cbn [item_check wf_item] in *; try reflexivity;
      apply negb_true_iff, Z.eqb_neq; lia. }
  rewrite Hck.
  destruct it as [t a [w|]|t a|t w]; cbn [place item_input] in *; cbn [wf_item no_alignas] in *.
  - destruct (Z.eqb_spec a 0) as [->|]; [|discriminate]. eapply step_bf; eauto; tauto.
  - eapply step_plain; eauto; tauto.
  - eapply step_plain; eauto; tauto.
  - eapply step_bf; eauto; tauto.
Qed.

Lemma places_refine pack its : forall b st st',
  Rel pack b st -> Forall wf_item its -> (pack = true -> Forall no_alignas its) ->
  places rules_sysv true pack st its = Some st' -> s_pos st' <= 8 * 2 ^ 62 ->
  exists b', addmembers b its = Ok b' /\ Rel pack b' st'.
Proof.
  induction its as [|it its IH]; intros b st st' R Hwf Hna Hp Hb; cbn [places addmembers] in *.
  - injection Hp as <-. exists b. auto.
  - destruct (place rules_sysv true pack st it) as [st1|] eqn:H1; [|discriminate].
    inversion Hwf; subst.
    pose proof (places_mono _ _ _ _ _ _ H3 Hp) as Hm.
    destruct (place_refine pack b st it st1 R H2) as (b1 & E1 & R1); auto.
    { intros Hpk. specialize (Hna Hpk). inversion Hna; assumption. }
    { lia. }
    rewrite E1. apply (IH b1 st1 st'); auto.
    intros Hpk. specialize (Hna Hpk). inversion Hna; assumption.
Qed.

Lemma Rel_init pack : Rel pack (binit true pack) sinit.
Proof. constructor; cbn; auto; try lia. Qed.

Lemma place_align_ge r is_struct pack st it st' :
  place r is_struct pack st it = Some st' -> s_align st <= s_align st'.
Proof.
  intros Hp.
  assert (Hplain : forall t named a, place_plain is_struct pack st t named a = Some st' -> s_align st <= s_align st').
  { intros t named a H. unfold place_plain in H.
    destruct (negb (common_ok is_struct st t)); [discriminate|].
    destruct (negb ((a =? 0) || (t_align t <=? a))); [discriminate|].
    injection H as <-. psimpl. lia. }
  assert (Hbf : forall t named w, place_bitfield r is_struct pack st t named w = Some st' -> s_align st <= s_align st').
  { intros t named w H. unfold place_bitfield in H.
    destruct (negb (common_ok is_struct st t)); [discriminate|].
    destruct (negb (t_int t) || pack || ((w =? 0) && named) || (w <? 0) || (8 * t_size t <? w)); [discriminate|].
    destruct is_struct; injection H as <-; psimpl; destruct (named || r_unnamed_align r); lia. }
  destruct it as [t a [w|]|t a|t w]; cbn [place] in Hp; eauto.
  destruct (a =? 0); [eauto|discriminate].
Qed.

Lemma places_align_ge r is_struct pack its : forall st st',
  places r is_struct pack st its = Some st' -> s_align st <= s_align st'.
Proof.
  induction its as [|it its IH]; intros st st' Hp; cbn [places] in Hp.
  - injection Hp as <-. lia.
  - destruct (place r is_struct pack st it) eqn:H1; [|discriminate].
    pose proof (place_align_ge _ _ _ _ _ _ H1). specialize (IH _ _ Hp). lia.
Qed.

(* layout_abi, struct part: whenever the ABI specification lays the members out (all C constraints
   met) and the result fits in 2^62 bytes, cproc's addmember/tagspec arithmetic yields exactly that
   layout - size, alignment, flexible flag, every member offset and bit-field position.
   For packed structs the members must not carry _Alignas (see packed_alignas_refuted). *)
Theorem layout_abi_struct pack its r :
  Forall wf_item its -> (pack = true -> Forall no_alignas its) ->
  spec_layout rules_sysv true pack its = Some r -> t_size (fst r) <= 2 ^ 62 ->
  record_layout true pack its = Ok r.
Proof.
  intros Hwf Hna Hs Hb. unfold spec_layout in Hs.
  destruct (places rules_sysv true pack sinit its) as [st|] eqn:Hp; [|discriminate].
  unfold spec_finish in Hs. destruct (s_members st) as [|m0 ms0] eqn:Hm; [discriminate|].
  injection Hs as <-. cbn [fst t_size] in Hb.
  change (2 ^ 62) with 4611686018427387904 in *.
  pose proof (places_align_ge _ _ _ _ _ _ Hp) as Hal. cbn [sinit s_align] in Hal.
  pose proof (roundup_ge (bytes (s_pos st)) (s_align st) ltac:(lia)) as Hge.
  pose proof (bytes_ge (s_pos st)) as Hbg.
  destruct (places_refine pack its _ _ _ (Rel_init pack) Hwf Hna Hp ltac:(lia)) as (b & Eb & R).
  unfold record_layout. rewrite Eb. unfold finish.
  destruct R as [Rs Rp Rb Rsz Rpos Rnn Ral Ralp Rma Rfl Rme Rpal].
  rewrite Rme, Hm.
  assert (Hby : bytes (s_pos st) = b_size b) by (rewrite Rpos; apply bytes_of_pos; assumption).
  destruct Rma as [Rma|Rma]; [rewrite Rme, Hm in Rma; discriminate|].
  assert (Hba : s_align st = b_align b) by lia.
  destruct Ralp as [Ralp|Ralp]; [lia|].
  pose proof (pow2_pos _ Ralp) as Hpa. change (2 ^ 30) with 1073741824 in Hpa.
  rewrite Hby, Hba, <- Rfl, Rp.
  replace (if pack then b_size b else alignup (b_size b) (b_align b)) with (roundup (b_size b) (b_align b));
    [reflexivity|].
  destruct pack.
  - rewrite <- Hba, (Rpal eq_refl). apply roundup_1.
  - symmetry. apply alignup_spec; auto. unfold W64. lia.
Qed.

(* ================================================================== unions *)
Lemma bytes_max a b : bytes (Z.max a b) = Z.max (bytes a) (bytes b).
Proof.
  destruct (Z.max_spec a b) as [[H ->]|[H ->]].
  - pose proof (bytes_mono a b ltac:(lia)). lia.
  - pose proof (bytes_mono b a ltac:(lia)). lia.
Qed.

Lemma roundup_pos x n : 0 < n -> 1 <= x -> n <= roundup x n.
Proof.
  intros Hn Hx. pose proof (roundup_ge x n Hn). destruct (roundup_divide x n) as (q & Hq).
  rewrite Hq in *. assert (1 <= q) by nia. nia.
Qed.

Lemma pow2_max1 a : a = 0 \/ pow2 a -> pow2 (Z.max 1 a).
Proof. intros [->|H]; [exact pow2_1|]. pose proof (pow2_pos _ H). replace (Z.max 1 a) with a by lia. assumption. Qed.

Record URel (b : builder) (st : sstate) : Prop := mkURel {
  U_struct : b_struct b = false;
  U_pack : b_pack b = false;
  U_size : 0 <= b_size b;
  U_posnn : 0 <= s_pos st;
  U_lo : bytes (s_pos st) <= b_size b;
  U_hi : b_size b <= roundup (bytes (s_pos st)) (s_align st);
  U_align : s_align st = Z.max 1 (b_align b);
  U_alignp : b_align b = 0 \/ pow2 (b_align b);
  U_mem_align : b_members b = [] \/ 1 <= b_align b;
  U_flex : b_flex b = s_flex st;
  U_members : b_members b = s_members st
}.

Lemma common_ok_union st t : common_ok false st t = true ->
  (t_incomplete t && negb (t_array t)) = false /\ t_func t = false /\ t_vm t = false /\ 0 < t_align t.
Proof.
  unfold common_ok. cbn [andb negb]. rewrite !andb_true_iff, !negb_true_iff, andb_false_r, Z.ltb_lt. tauto.
Qed.

(* growing both the size bounds when a member of sz bytes (spec: p bits, bytes p <= sz <= ...) arrives *)
Lemma union_grow size pos A A' sz p :
  0 < A -> 0 < A' -> (A | A') -> 0 <= pos ->
  bytes pos <= size -> size <= roundup (bytes pos) A ->
  bytes p <= sz -> sz <= roundup (Z.max (bytes pos) (bytes p)) A' ->
  bytes (Z.max pos p) <= Z.max size sz /\ Z.max size sz <= roundup (bytes (Z.max pos p)) A'.
Proof.
  intros HA HA' Hd Hp Hlo Hhi Hp1 Hp2. rewrite bytes_max. split; [lia|].
  pose proof (roundup_coarser (bytes pos) A A' HA HA' Hd).
  pose proof (roundup_mono (bytes pos) (Z.max (bytes pos) (bytes p)) A' HA' ltac:(lia)). lia.
Qed.

Lemma ustep_plain b st t named a st' :
  URel b st -> wf_t t -> (a = 0 \/ pow2 a) ->
  place_plain false false st t named a = Some st' -> s_pos st' <= 8 * 2 ^ 62 ->
  exists b', addmember b (mkMI t named a M1) = Ok b' /\ URel b' st'.
Proof.
  intros R (Hta & Hts & _) Ha Hpl Hbound.
  change (2 ^ 62) with 4611686018427387904 in Hbound.
  unfold place_plain in Hpl.
  destruct (common_ok false st t) eqn:Hc; cbn [negb] in Hpl; [|discriminate].
  apply common_ok_union in Hc. destruct Hc as (Hinc & Hfn & Hvm & Hal).
  destruct ((a =? 0) || (t_align t <=? a)) eqn:Haa; cbn [negb] in Hpl; [|discriminate].
  injection Hpl as <-. psimpl.
  destruct R as [Rs Rp Rsz Rnn Rlo Rhi Ral Ralp Rma Rfl Rme].
  destruct b as [bs bp bsz bal bfl bbits bms]; psimpl. subst bs bp bfl bms.
  pose proof (pow2_pos _ Hta) as Hta'.
  set (eff := if a =? 0 then t_align t else a) in *.
  assert (Heff : pow2 eff).
  { unfold eff. destruct (Z.eqb_spec a 0); [assumption|]. destruct Ha; [contradiction|assumption]. }
  pose proof (pow2_pos _ Heff) as Heff'. change (2 ^ 30) with 1073741824 in *.
  pose proof (pow2_max1 _ Ralp) as Hpa. rewrite <- Ral in Hpa. pose proof (pow2_pos _ Hpa) as Hpa'.
  unfold addmember; psimpl.
  rewrite Hinc, Hfn, Hvm. psimpl. rewrite ?andb_false_r.
  replace (t_align t <=? 0) with false by (symmetry; apply Z.leb_gt; lia).
  rewrite Z.eqb_refl. cbv iota.
  assert (Hral : (if a <? t_align t
                  then if negb (a =? 0) then Err ELessStrict else Ok (t_align t)
                  else Ok a) = Ok eff).
  { unfold eff. apply orb_true_iff in Haa. destruct (Z.eqb_spec a 0) as [->|Hne]; cbn [negb].
    - replace (0 <? t_align t) with true by (symmetry; apply Z.ltb_lt; lia). reflexivity.
    - destruct Haa as [Haa|Haa]; [try discriminate; apply Z.eqb_eq in Haa; contradiction|].
      apply Z.leb_le in Haa. replace (a <? t_align t) with false by (symmetry; apply Z.ltb_ge; lia).
      reflexivity. }
  rewrite Hral.
  assert (Hg := union_grow bsz (s_pos st) (s_align st) (Z.max (s_align st) eff) (t_size t) (8 * t_size t)
            ltac:(lia) ltac:(lia) (pow2_divide_max_l _ _ Hpa Heff) Rnn Rlo Rhi).
  rewrite bytes_8 in Hg.
  assert (Hg2 : t_size t <= roundup (Z.max (bytes (s_pos st)) (t_size t)) (Z.max (s_align st) eff)).
  { pose proof (roundup_ge (Z.max (bytes (s_pos st)) (t_size t)) (Z.max (s_align st) eff) ltac:(lia)). lia. }
  specialize (Hg ltac:(lia) Hg2). destruct Hg as [Hg1 Hg3].
  eexists. split; [reflexivity|].
  constructor; psimpl; auto; try lia.
  all: try (destruct (t_incomplete t); destruct (t_flexible t); destruct (s_flex st); reflexivity).
  - destruct (Z.ltb_spec bsz (t_size t)); lia.
  - destruct (Z.ltb_spec bsz (t_size t)); lia.
  - destruct (Z.ltb_spec bsz (t_size t)); lia.
  - rewrite Ral. destruct (Z.ltb_spec bal eff); lia.
  - right. destruct (Z.ltb_spec bal eff); [assumption|]. destruct Ralp as [->|?]; [lia|assumption].
  - right. destruct (Z.ltb_spec bal eff); lia.
Qed.

Lemma ustep_bf b st t named w st' :
  URel b st -> wf_t t -> 0 <= w < M1 ->
  place_bitfield rules_sysv false false st t named w = Some st' -> s_pos st' <= 8 * 2 ^ 62 ->
  exists b', addmember b (mkMI t named 0 w) = Ok b' /\ URel b' st'.
Proof.
  intros R (Hta & Hts & Hti) Hw Hpl Hbound.
  change (2 ^ 62) with 4611686018427387904 in Hbound.
  unfold place_bitfield in Hpl.
  destruct (common_ok false st t) eqn:Hc; cbn [negb] in Hpl; [|discriminate].
  apply common_ok_union in Hc. destruct Hc as (Hinc & Hfn & Hvm & Hal).
  destruct (negb (t_int t) || false || ((w =? 0) && named) || (w <? 0) || (8 * t_size t <? w)) eqn:Hv;
    [discriminate|].
  rewrite !orb_false_iff in Hv. destruct Hv as ((((Hint & _) & Hzn) & Hw0) & Hwid).
  apply negb_false_iff in Hint. apply Z.ltb_ge in Hw0, Hwid.
  destruct (Hti Hint) as (Hsz & Hle8).
  assert (Hs : t_size t = 1 \/ t_size t = 2 \/ t_size t = 4 \/ t_size t = 8).
  { apply pow2_le8; [rewrite Hsz; assumption|assumption]. }
  injection Hpl as <-.
  destruct R as [Rs Rp Rsz Rnn Rlo Rhi Ral Ralp Rma Rfl Rme].
  destruct b as [bs bp bsz bal bfl bbits bms]; psimpl. subst bs bp bfl bms.
  pose proof (pow2_max1 _ Ralp) as Hpa. rewrite <- Ral in Hpa. pose proof (pow2_pos _ Hpa) as Hpa'.
  pose proof (pow2_pos _ Hta) as Hta'. change (2 ^ 30) with 1073741824 in *.
  set (s := t_size t) in *.
  assert (Hbw : bytes w <= s) by (unfold bytes; destruct Hs as [->|[->|[->| ->]]]; dlia).
  unfold addmember; psimpl. fold s.
  rewrite Hinc, Hfn, Hvm. psimpl. rewrite ?andb_false_r.
  replace (t_align t <=? 0) with false by (symmetry; apply Z.leb_gt; lia).
  replace (w =? M1) with false by (symmetry; apply Z.eqb_neq; lia).
  rewrite Hint, Z.eqb_refl, Hzn. psimpl. cbv iota.
  replace (w64 (s * 8) <? w) with false
    by (symmetry; apply Z.ltb_ge; rewrite w64_small by (unfold W64; lia); lia).
  rewrite !orb_false_r.
  destruct named; psimpl.
  - (* named: the whole storage unit *)
    assert (Hw1 : 1 <= w) by (apply Z.eqb_neq in Hzn || (rewrite andb_true_r in Hzn; apply Z.eqb_neq in Hzn); lia).
    assert (Hg := union_grow bsz (s_pos st) (s_align st) (Z.max (s_align st) (t_align t)) s w
              ltac:(lia) ltac:(lia) (pow2_divide_max_l _ _ Hpa Hta) Rnn Rlo Rhi Hbw).
    assert (Hg2 : s <= roundup (Z.max (bytes (s_pos st)) (bytes w)) (Z.max (s_align st) (t_align t))).
    { assert (1 <= bytes w) by (unfold bytes; dlia).
      pose proof (roundup_pos (Z.max (bytes (s_pos st)) (bytes w)) (Z.max (s_align st) (t_align t)) ltac:(lia) ltac:(lia)). lia. }
    specialize (Hg Hg2). destruct Hg as [Hg1 Hg3].
    eexists. split; [reflexivity|].
    constructor; psimpl; auto; try lia.
    all: try (destruct (t_incomplete t); destruct (t_flexible t); destruct (s_flex st); reflexivity).
    + destruct (Z.ltb_spec bsz s); lia.
    + destruct (Z.ltb_spec bsz s); lia.
    + destruct (Z.ltb_spec bsz s); lia.
    + rewrite Ral. destruct (Z.ltb_spec bal (t_align t)); lia.
    + right. destruct (Z.ltb_spec bal (t_align t)); [assumption|]. destruct Ralp as [->|?]; [lia|assumption].
    + right. destruct (Z.ltb_spec bal (t_align t)); lia.
    + f_equal. f_equal. f_equal. unfold to_short, w64, W64.
      destruct Hs as [->|[->|[->| ->]]];
        match goal with |- (if ?x <? ?y then _ else _) = _ => destruct (Z.ltb_spec x y) end; dlia.
  - (* unnamed: its bytes *)
    assert (Hbytes : w64 (w + 7) / 8 = bytes w).
    { unfold bytes. rewrite w64_small by (unfold W64; destruct Hs as [->|[->|[->| ->]]]; lia). reflexivity. }
    rewrite Hbytes.
    assert (Hg := union_grow bsz (s_pos st) (s_align st) (s_align st) (bytes w) w
              ltac:(lia) ltac:(lia) (Z.divide_refl _) Rnn Rlo Rhi ltac:(lia)).
    assert (Hg2 : bytes w <= roundup (Z.max (bytes (s_pos st)) (bytes w)) (s_align st)).
    { pose proof (roundup_ge (Z.max (bytes (s_pos st)) (bytes w)) (s_align st) ltac:(lia)). lia. }
    specialize (Hg Hg2). destruct Hg as [Hg1 Hg3].
    assert (0 <= bytes w) by (unfold bytes; dlia).
    eexists. split; [reflexivity|].
    constructor; psimpl; auto; try lia.
    all: try (destruct (t_incomplete t); destruct (t_flexible t); destruct (s_flex st); reflexivity).
    + destruct (Z.ltb_spec bsz (bytes w)); lia.
    + destruct (Z.ltb_spec bsz (bytes w)); lia.
    + destruct (Z.ltb_spec bsz (bytes w)); lia.
    + rewrite app_nil_r. reflexivity.
Qed.

Lemma uplace_refine b st it st' :
  URel b st -> wf_item it ->
  place rules_sysv false false st it = Some st' -> s_pos st' <= 8 * 2 ^ 62 ->
  exists b', structdecl b it = Ok b' /\ URel b' st'.
Proof.
  intros R Hwf Hp Hb. unfold structdecl.
  assert (Hck : item_check it = true).
  { destruct it as [t a [w|]|t a|t w]; cbn [item_check wf_item] in *; try reflexivity;
      apply negb_true_iff, Z.eqb_neq; lia. }
  rewrite Hck.
  destruct it as [t a [w|]|t a|t w]; cbn [place item_input] in *; cbn [wf_item] in *.
  - destruct (Z.eqb_spec a 0) as [->|]; [|discriminate]. eapply ustep_bf; eauto; tauto.
  - eapply ustep_plain; eauto; tauto.
  - eapply ustep_plain; eauto; tauto.
  - eapply ustep_bf; eauto; tauto.
Qed.

Lemma uplaces_refine its : forall b st st',
  URel b st -> Forall wf_item its ->
  places rules_sysv false false st its = Some st' -> s_pos st' <= 8 * 2 ^ 62 ->
  exists b', addmembers b its = Ok b' /\ URel b' st'.
Proof.
  induction its as [|it its IH]; intros b st st' R Hwf Hp Hb; cbn [places addmembers] in *.
  - injection Hp as <-. exists b. auto.
  - destruct (place rules_sysv false false st it) as [st1|] eqn:H1; [|discriminate].
    inversion Hwf as [|? ? Hw1 Hw2]; subst.
    pose proof (places_mono _ _ _ _ _ _ Hw2 Hp) as Hm.
    destruct (uplace_refine b st it st1 R Hw1 H1) as (b1 & E1 & R1); [lia|].
    rewrite E1. apply (IH b1 st1 st'); auto.
Qed.

Lemma URel_init : URel (binit false false) sinit.
Proof. constructor; cbn; auto; try lia; vm_compute; discriminate. Qed.

(* layout_abi, union part (x86-64 / riscv64 rules, unnamed bit-fields included) *)
Theorem layout_abi_union its r :
  Forall wf_item its ->
  spec_layout rules_sysv false false its = Some r -> t_size (fst r) <= 2 ^ 62 ->
  record_layout false false its = Ok r.
Proof.
  intros Hwf Hs Hb. unfold spec_layout in Hs.
  destruct (places rules_sysv false false sinit its) as [st|] eqn:Hp; [|discriminate].
  unfold spec_finish in Hs. destruct (s_members st) as [|m0 ms0] eqn:Hm; [discriminate|].
  injection Hs as <-. cbn [fst t_size] in Hb.
  change (2 ^ 62) with 4611686018427387904 in *.
  pose proof (places_align_ge _ _ _ _ _ _ Hp) as Hal. cbn [sinit s_align] in Hal.
  pose proof (roundup_ge (bytes (s_pos st)) (s_align st) ltac:(lia)) as Hge.
  pose proof (bytes_ge (s_pos st)) as Hbg.
  destruct (uplaces_refine its _ _ _ URel_init Hwf Hp ltac:(lia)) as (b & Eb & R).
  unfold record_layout. rewrite Eb. unfold finish.
  destruct R as [Rs Rp Rsz Rnn Rlo Rhi Ral Ralp Rma Rfl Rme].
  rewrite Rme, Hm.
  destruct Rma as [Rma|Rma]; [rewrite Rme, Hm in Rma; discriminate|].
  assert (Hba : s_align st = b_align b) by lia.
  destruct Ralp as [Ralp|Ralp]; [lia|].
  pose proof (pow2_pos _ Ralp) as Hpa. change (2 ^ 30) with 1073741824 in Hpa.
  rewrite Hba in *. rewrite <- Rfl, Rp.
  assert (Hsz : alignup (b_size b) (b_align b) = roundup (bytes (s_pos st)) (b_align b)).
  { rewrite alignup_spec by (auto; unfold W64; lia).
    apply Z.le_antisymm.
    - apply roundup_least; [lia|apply roundup_divide|assumption].
    - apply roundup_mono; lia. }
  rewrite Hsz. reflexivity.
Qed.
