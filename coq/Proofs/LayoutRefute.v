(* C06 - full-strength statements that are FALSE of the faithful model, kept visible with witnesses,
   and the array-size lemma. *)
From Coq Require Import ZArith List Bool Lia.
From Cproc Require Import Model.Layout Spec.AbiLayout Proofs.LayoutArith Proofs.LayoutProofs.
Import ListNotations.
Open Scope Z_scope.

Definition ity (s : Z) : tinfo := mkT s s true false false false false false.

Lemma wf_ity s : pow2 s -> s <= 8 -> wf_t (ity s).
Proof. intros H H8. pose proof (pow2_pos _ H). unfold wf_t, ity; cbn. repeat split; auto; lia. Qed.

Ltac wf_plain0 := split; [apply wf_ity; [auto|lia] | left; reflexivity].
Ltac wf_plainA := split; [apply wf_ity; [auto|lia] | right; auto].
Ltac wf_ubf := split; [apply wf_ity; [auto|lia] | unfold M1; lia].

(* D14: struct A { char c; int :3; };  cproc 2/1 on every target, AAPCS64 (and clang/gcc for aarch64) 4/4 *)
Definition d14_witness : list item := [INamed (ity 1) 0 None; IUnnamedBf (ity 4) 3].

Theorem layout_abi_aarch64_refuted :
  exists its r m, Forall wf_item its /\
    spec_layout rules_aapcs64 true false its = Some r /\ record_layout true false its = Ok m /\
    (t_size (fst r), t_align (fst r)) = (4, 4) /\ (t_size (fst m), t_align (fst m)) = (2, 1).
Proof.
  exists d14_witness. eexists. eexists. split.
  - constructor; [wf_plain0|constructor; [wf_ubf|constructor]].
  - vm_compute. repeat split.
Qed.

(* D15: struct __attribute__((packed)) P { _Alignas(4) int a; char b; };  sizeof 5, _Alignof 4 *)
Definition d15_witness : list item := [INamed (ity 4) 4 None; INamed (ity 1) 0 None].

Theorem packed_alignas_refuted :
  exists its r m, Forall wf_item its /\
    spec_layout rules_sysv true true its = Some r /\ record_layout true true its = Ok m /\
    t_size (fst r) = 8 /\ t_size (fst m) = 5 /\ t_align (fst m) = 4 /\ t_size (fst m) mod t_align (fst m) <> 0.
Proof.
  exists d15_witness. eexists. eexists. split.
  - constructor; [wf_plainA|constructor; [wf_plain0|constructor]].
  - vm_compute. repeat split; discriminate.
Qed.

(* Regression statements for three defects fixed in /repo (they used to be refutations):
   union U { int :17; char c; } has size 3; a bit-field width of 2^64-1 is rejected; the first
   implicit enumerator of an enum with unsigned fixed underlying type is accepted. *)
Definition union_unnamed_witness : list item := [IUnnamedBf (ity 4) 17; INamed (ity 1) 0 None].

Theorem union_unnamed_bitfield_size :
  exists r, spec_layout rules_sysv false false union_unnamed_witness = Some r /\
            record_layout false false union_unnamed_witness = Ok r /\ t_size (fst r) = 3.
Proof. eexists. vm_compute. repeat split. Qed.

Theorem bitfield_width_sentinel_rejected :
  forall b t a, structdecl b (INamed t a (Some M1)) = Err EBfWidth /\ structdecl b (IUnnamedBf t M1) = Err EBfWidth.
Proof. intros. split; reflexivity. Qed.

Theorem enum_fixed_unsigned_first_accepted :
  enum_type (Some tuint) [None; None] = Ok (tuint, [(0, mkI self_id 4 false); (1, mkI self_id 4 false)]).
Proof. vm_compute. reflexivity. Qed.

(* ------------------------------------------------------------------ array sizes (declarator) *)
Theorem array_size_no_overflow base n sgn t :
  0 <= t_size base -> 0 <= n < W64 ->
  array_type base (Some (n, sgn)) = Ok t ->
  t_size t = spec_array_size (t_size base) n /\ 0 <= t_size t < W64 /\ t_align t = t_align base /\
  (sgn = true -> n < P63) /\ t_incomplete t = false.
Proof.
  intros Hs Hn H. unfold array_type in H.
  destruct (t_incomplete base); [discriminate|]. destruct (t_func base); [discriminate|].
  destruct (Z.eqb_spec (t_size base) 0); [discriminate|].
  destruct (sgn && (P63 <=? n)) eqn:Hneg; [discriminate|].
  destruct (Z.ltb_spec (M1 / t_size base) n); [discriminate|].
  injection H as <-. cbn [t_size t_align t_incomplete]. unfold spec_array_size.
  assert (Hp : 0 < t_size base) by lia.
  pose proof (Z.mul_div_le M1 (t_size base) Hp).
  assert (t_size base * n <= M1) by nia.
  assert (0 <= t_size base * n) by nia.
  rewrite w64_small by (unfold W64, M1 in *; lia).
  repeat split; try lia; try (unfold W64, M1 in *; lia).
  intros ->. cbn in Hneg. apply Z.leb_gt in Hneg. assumption.
Qed.

(* ... and every array whose exact size fits in 64 bits is accepted *)
Theorem array_size_complete base n sgn :
  0 < t_size base -> 0 <= n -> t_incomplete base = false -> t_func base = false ->
  (sgn = true -> n < P63) -> t_size base * n < W64 ->
  exists t, array_type base (Some (n, sgn)) = Ok t.
Proof.
  intros Hs Hn Hi Hf Hsg Hfit. unfold array_type. rewrite Hi, Hf.
  destruct (Z.eqb_spec (t_size base) 0); [lia|].
  replace (sgn && (P63 <=? n)) with false.
  2:{ destruct sgn; [|reflexivity]. symmetry. apply Z.leb_gt. auto. }
  destruct (Z.ltb_spec (M1 / t_size base) n); [|eexists; reflexivity].
  exfalso. assert (n <= M1 / t_size base); [|lia].
  apply Z.div_le_lower_bound; [lia|]. unfold W64, M1 in *. lia.
Qed.

Example array_size_nonvacuous :
  array_type (ity 4) (Some (4611686018427387903, false)) = Ok (mkT 18446744073709551612 4 false true false false false false) /\
  array_type (ity 4) (Some (4611686018427387904, false)) = Err EArrTooLarge /\
  array_type (ity 8) (Some (M1, true)) = Err EArrNeg.
Proof. vm_compute. repeat split. Qed.
