(* C09 - mkglobal's counter never hands out a number twice (independent of the simulation proof). *)
From Coq Require Import List NArith Bool Lia Arith.
From Cproc Require Import Lib.LinkageBase Model.Linkage.
Import ListNotations.
Local Open Scope N_scope.

Lemma last_cons : forall A (x : A) l d, last (x :: l) d = if is_nil l then x else last l d.
Proof. intros A x [|y l] d; reflexivity. Qed.

Lemma flush_defined : forall n d defs, md_defined d = true -> flush n d defs = Some (d, defs).
Proof. induction n; intros d defs H; simpl; auto. rewrite H. auto. Qed.

Ltac hb H :=
  repeat (simpl in H;
          match type of H with
          | context [match ?x with _ => _ end] => destruct x eqn:?
          | context [if ?x then _ else _] => destruct x eqn:?
          end);
  try discriminate H.

(* ------------------------------------------------------------------ unit-local names are unique *)
(* mkglobal's counter: every number it hands out is larger than all earlier ones, so $.Lname.N names never repeat
   (as long as the 32-bit counter does not wrap: at most two numbers are taken per history item) *)
Definition val_id0 (d : mdecl) : Prop :=
  md_link d <> LNone /\ match md_value d with Some (VGlobal _ id _) => id = 0 | _ => True end.

Definition ids_ok (m : mstate) : Prop :=
  Forall (fun id => id <= ms_nextid m) (local_ids (ms_defs m)) /\
  NoDup (local_ids (ms_defs m)) /\
  match last (ms_frames m) None with Some d => val_id0 d | None => True end.

Lemma declcommon_file_linked : forall k asm st ex prior d,
  declcommon [] k asm st ex prior = Some d -> md_link d <> LNone.
Proof.
  intros k asm st ex prior d H. unfold declcommon, getlinkage in H. simpl in H.
  destruct prior as [p|].
  - hb H; inversion H; subst. destruct (md_link d); simpl in *; congruence.
  - hb H; inversion H; subst; simpl; congruence.
Qed.

Lemma forall_le_mono : forall l a b, a <= b -> Forall (fun id => id <= a) l -> Forall (fun id => id <= b) l.
Proof. intros l a b Hab H. eapply Forall_impl; [|exact H]. simpl. intros; lia. Qed.

Lemma nodup_fresh : forall l n id, Forall (fun x => x <= n) l -> NoDup l -> n < id -> NoDup (id :: l).
Proof.
  intros l n id Hf Hn Hlt. constructor; auto. intros Hin.
  rewrite Forall_forall in Hf. specialize (Hf _ Hin). lia.
Qed.

Ltac hvar H :=
  repeat (cbn in H; unfold negb, andb, orb in H;
          match type of H with
          | context [match ?x with _ => _ end] => is_var x; destruct x
          | context [if ?x then _ else _] => is_var x; destruct x
          end);
  try discriminate H.

Ltac ids_fin B1 B2 :=
  match goal with H : MOk _ = MOk _ |- _ => inversion H; clear H; subst end;
  cbn [ms_defs ms_nextid ms_frames local_ids];
  repeat match goal with |- context [N.eqb ?a ?b] => destruct (N.eqb_spec a b) end;
  rewrite ?B1, ?B2 in *;
  repeat split;
  try (match goal with Hl : forall d2 : mdecl, _ |- _ => apply Hl end);
  unfold val_id0; cbn [md_link md_value];
  repeat split; auto; try lia; try congruence;
  try (eapply forall_le_mono; [|eassumption]; lia);
  try (constructor; [lia|eapply forall_le_mono; [|eassumption]; lia]);
  try (eapply nodup_fresh; eauto; lia).

Lemma ids_step : forall m it m', step m it = MOk m' -> ids_ok m -> ms_nextid m + 2 < two32 ->
  ids_ok m' /\ ms_nextid m <= ms_nextid m' <= ms_nextid m + 2.
Proof.
  intros [fr nid tent defs refs crash] it m' H (Hle & Hnd & Hlast) Hb. unfold ids_ok. simpl in *.
  assert (B1 : bump nid = nid + 1) by (unfold bump; rewrite N.mod_small; lia).
  assert (B2 : bump (nid + 1) = nid + 2) by (unfold bump; rewrite N.mod_small; lia).
  destruct it as [| |[sc asm init|sc i asm body]| |].
  - unfold step in H. simpl in H. destruct fr as [|f [|g fr']]; try discriminate; inversion H; subst; simpl.
    + rewrite B1. repeat split; auto; try lia. eapply forall_le_mono; [|eassumption]; lia.
    + repeat split; auto; try lia.
  - unfold step in H. simpl in H.
    destruct fr as [|a [|b [|c [|d fr']]]]; try discriminate.
    + destruct crash; try discriminate. inversion H; subst; simpl in *. repeat split; auto; lia.
    + inversion H; subst. simpl ms_frames. simpl ms_defs. simpl ms_nextid. repeat split; auto; try lia.
  - (* object declaration *)
    unfold step, decl_obj in H. cbn [ms_frames ms_nextid ms_tent ms_defs ms_refs ms_crash] in H.
    destruct fr as [|prior parents]; try discriminate.
    destruct (negb (is_nil parents) && osc_thread_only sc); try discriminate.
    destruct (kind_clash prior KObj); try discriminate.
    destruct (declcommon parents KObj asm (osc_static sc) (osc_extern sc) prior) as [d|] eqn:Ed; try discriminate.
    assert (Hfile : parents = [] -> md_link d <> LNone) by (intros ->; eapply declcommon_file_linked; eauto).
    assert (Hl2 : forall d2, parents <> [] ->
              match last (Some d2 :: parents) None with Some d => val_id0 d | None => True end).
    { intros d2 Hp. rewrite last_cons. destruct parents; [congruence|]. simpl is_nil. cbv iota.
      rewrite last_cons in Hlast. simpl is_nil in Hlast. exact Hlast. }
    clear Ed Hlast.
    unfold mkglobal, defineobj, set_cur, set_storage, set_value, set_defined, set_tentative,
           osc_static, osc_extern, osc_thread, link_eqb, storage_eqb in H.
    destruct d as [dk dl dd dt di ds da dv]. cbn [md_link] in Hfile.
    destruct parents as [|p ps].
    + specialize (Hfile eq_refl). clear Hl2. hvar H; try congruence; ids_fin B1 B2.
    + assert (Hl3 : forall d2, match last (Some d2 :: p :: ps) None with Some d => val_id0 d | None => True end)
        by (intros; apply Hl2; congruence).
      clear Hfile Hl2. hvar H; ids_fin B1 B2.
  - (* function declaration *)
    unfold step, decl_func in H. cbn [ms_frames ms_nextid ms_tent ms_defs ms_refs ms_crash] in H.
    destruct fr as [|prior parents]; try discriminate.
    destruct (kind_clash prior KFunc); try discriminate.
    destruct (negb (is_nil parents) && fsc_static sc); try discriminate.
    destruct (declcommon parents KFunc asm (fsc_static sc) (fsc_extern sc) prior) as [d|] eqn:Ed; try discriminate.
    assert (Hfile : parents = [] -> md_link d <> LNone) by (intros ->; eapply declcommon_file_linked; eauto).
    assert (Hl2 : forall d2, parents <> [] ->
              match last (Some d2 :: parents) None with Some d => val_id0 d | None => True end).
    { intros d2 Hp. rewrite last_cons. destruct parents; [congruence|]. simpl is_nil. cbv iota.
      rewrite last_cons in Hlast. simpl is_nil in Hlast. exact Hlast. }
    clear Ed Hlast.
    unfold mkglobal, set_cur, set_value, set_defined, set_inlinedefn, fsc_extern, link_eqb in H.
    destruct d as [dk dl dd dt di ds da dv]. cbn [md_link] in Hfile.
    destruct (match prior with Some p => md_inlinedefn p | None => true end).
    all: destruct parents as [|p ps];
      [ specialize (Hfile eq_refl); clear Hl2; hvar H; try congruence; ids_fin B1 B2
      | assert (Hl3 : forall d2, match last (Some d2 :: p :: ps) None with Some d => val_id0 d | None => True end)
          by (intros; apply Hl2; congruence);
        clear Hfile Hl2; hvar H; ids_fin B1 B2 ].
  - unfold step in H. simpl in H. hb H; inversion H; subst; simpl; repeat split; auto; lia.
  - unfold step in H. simpl in H. inversion H; subst; simpl. rewrite B1. repeat split; auto; try lia.
    eapply forall_le_mono; [|eassumption]; lia.
Qed.

Lemma ids_steps : forall h m m', steps m h = MOk m' -> ids_ok m ->
  ms_nextid m + 2 * N.of_nat (length h) < two32 -> ids_ok m'.
Proof.
  induction h as [|it h IH]; intros m m' H Hi Hb; simpl in H.
  - inversion H; subst; auto.
  - destruct (step m it) as [m1| | |] eqn:E; try discriminate.
    simpl length in Hb.
    destruct (ids_step _ _ _ E Hi) as [Hi1 Hn1]; [lia|].
    eapply IH; eauto. lia.
Qed.

Lemma local_ids_app : forall a b, local_ids (a ++ b) = local_ids a ++ local_ids b.
Proof.
  induction a as [|[[x|] id t e|[x|] id e] a IH]; intros b; simpl; auto; destruct (N.eqb id 0); simpl; rewrite IH; auto.
Qed.
Lemma local_ids_rev : forall l, local_ids (rev l) = rev (local_ids l).
Proof.
  induction l as [|[[x|] id t e|[x|] id e] l IH]; simpl; auto; rewrite local_ids_app, IH; simpl;
    try destruct (N.eqb id 0); simpl; auto using app_nil_r.
Qed.

Lemma flush_ids : forall n d defs d' defs', val_id0 d -> flush n d defs = Some (d', defs') -> local_ids defs' = local_ids defs.
Proof.
  intros [|n] d defs d' defs' [Hl Hv] H; simpl in H.
  - inversion H; auto.
  - destruct (md_defined d) eqn:Ed.
    + rewrite flush_defined in H by assumption. inversion H; auto.
    + unfold defineobj in H.
      destruct (md_storage d); destruct (md_value d) as [[a id t|]|]; try discriminate;
        rewrite flush_defined in H by reflexivity; inversion H; subst; auto; simpl; destruct a; reflexivity.
Qed.

Theorem local_names_unique : forall h defs refs,
  2 * N.of_nat (length h) < two32 -> run_events h = FAccept defs refs -> NoDup (local_ids defs).
Proof.
  intros h defs refs Hb Hr. unfold run_events in Hr.
  destruct (steps init_state h) as [m| | |] eqn:E; try discriminate.
  assert (H0 : ids_ok init_state) by (unfold ids_ok; simpl; repeat split; auto; constructor).
  pose proof (ids_steps _ _ _ E H0) as (Hle & Hnd & Hlast); [change (ms_nextid init_state) with 0; lia|].
  unfold finish in Hr.
  destruct (ms_frames m) as [|[d|] [|y l]]; try discriminate; simpl in Hlast.
  - destruct (flush (ms_tent m) d (ms_defs m)) as [[d' defs']|] eqn:F; try discriminate.
    inversion Hr; subst. rewrite local_ids_rev. apply NoDup_rev. rewrite (flush_ids _ _ _ _ _ Hlast F). assumption.
  - inversion Hr; subst. rewrite local_ids_rev. apply NoDup_rev. assumption.
Qed.
